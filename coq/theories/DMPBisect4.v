(* diff_bisect, part 4: the interplay of the two halves of the search.

   O = the half that does NOT test for overlap, C = the half that does (the front half when
   the total length is odd, the reverse half when it is even).  Each half is seen in its own
   coordinates; an entry (x, a) of O (x stored on diagonal a) and an entry (x', b) of C face
   each other when a + b = delta, and are "near" when |a + b - delta| <= 1.

   [Sep]: in the common frame the C point lies strictly to the south-east of the O point.
   [Qinv]: state after a k-loop of C (all near pairs are separated);
   [Minv]: state after a k-loop of O.  *)
From Coq Require Import List ZArith NArith Bool Lia.
Import ListNotations.
Require Import XV.DMP XV.DMPBase XV.DMPBisect1 XV.DMPBisect2 XV.DMPBisect3.
Local Open Scope Z_scope.

Section Cross.
  Variables n1 n2 : Z.
  Variable delta : Z.
  Hypothesis Hdelta : delta = n1 - n2.
  Hypothesis Hn1 : 2 <= n1.
  Hypothesis Hn2 : 2 <= n2.

  Definition near (a b : Z) : Prop := -1 <= a + b - delta <= 1.
  Definition Sep (x a x' b : Z) : Prop := x + x' + 1 <= n1 /\ (x - a) + (x' - b) + 1 <= n2.
  Definition fresh (D sp ep a : Z) : Prop := exists j, 0 <= j /\ a = - D + sp + 2 * j /\ a <= D - ep.

  Lemma Sep_sym x a x' b : Sep x a x' b -> Sep x' b x a.
  Proof. unfold Sep. lia. Qed.
  Lemma near_sym a b : near a b -> near b a.
  Proof. unfold near. lia. Qed.

  (* an entry on or beyond the right / bottom border faces nothing *)
  Lemma touch_nonear x a x' b : n1 <= x \/ n2 <= x - a -> 0 <= x' -> 0 <= x' - b -> Sep x a x' b -> False.
  Proof. unfold Sep. lia. Qed.

  (* ... so the interval of the other half's diagonals lies on one side of it *)
  Lemma side_R a L H : delta < a -> L <= 0 <= H -> (forall b, L <= b <= H -> ~ near a b) -> delta - a + 2 <= L.
  Proof.
    intros Ha HL Hn. destruct (Z_le_dec (delta - a + 2) L) as [|Hc]; [assumption|exfalso].
    apply (Hn (delta - a + 1)); unfold near; lia.
  Qed.

  Lemma side_B a L H : a < delta -> L <= 0 <= H -> (forall b, L <= b <= H -> ~ near a b) -> H <= delta - a - 2.
  Proof.
    intros Ha HL Hn. destruct (Z_le_dec H (delta - a - 2)) as [|Hc]; [assumption|exfalso].
    apply (Hn (delta - a - 1)); unfold near; lia.
  Qed.

  Section Two.
    Variables MO MC : Z -> Z -> bool.
    Hypothesis HMsym : forall x y, MC x y = MO (n1 - 1 - x) (n2 - 1 - y).
    Hypothesis HMO0 : MO 0 0 = false.
    Hypothesis HMOc : MO (n1 - 1) (n2 - 1) = false.

    Lemma HMC0 : MC 0 0 = false.
    Proof. rewrite HMsym. now replace (n1 - 1 - 0) with (n1 - 1) by lia; replace (n2 - 1 - 0) with (n2 - 1) by lia. Qed.
    Lemma HMCc : MC (n1 - 1) (n2 - 1) = false.
    Proof. rewrite HMsym. now replace (n1 - 1 - (n1 - 1)) with 0 by lia; replace (n2 - 1 - (n2 - 1)) with 0 by lia. Qed.

    Notation HIO := (HI n1 n2 MO delta).
    Notation HIC := (HI n1 n2 MC delta).

    Section States.
      Variables (DO : Z) (fO : Z -> Z) (sO eO spO epO LO HO : Z).
      Variables (DC : Z) (fC : Z -> Z) (sC eC spC epC LC HC : Z).

      Record Qinv : Prop := {
        q_O : HIO DO fO sO eO spO epO LO HO;
        q_C : HIC DC fC sC eC spC epC LC HC;
        q_par : exists q, DO + DC + delta = 2 * q;
        q_sep : forall a b, LO <= a <= HO -> LC <= b <= HC -> near a b -> Sep (fO a) a (fC b) b
      }.

      (* LO0, HO0: the diagonals of O written before its last k-loop *)
      Record Minv (LO0 HO0 : Z) : Prop := {
        m_O : HIO DO fO sO eO spO epO LO HO;
        m_C : HIC DC fC sC eC spC epC LC HC;
        m_par : exists q, DO + DC + delta = 2 * q + 1;
        m_ghost : LO0 - 1 <= LO <= LO0 /\ LO0 <= 0 <= HO0 /\ HO0 <= HO <= HO0 + 1;
        m_same : forall a, LO <= a <= HO -> LC <= delta - a <= HC -> Sep (fO a) a (fC (delta - a)) (delta - a);
        m_old : forall a b, LO <= a <= HO -> LC <= b <= HC -> near a b -> ~ fresh DO spO epO a ->
                  Sep (fO a) a (fC b) b;
        m_block : forall b, LC <= b <= HC -> n1 <= fC b \/ n2 <= fC b - b ->
                  forall a, LO0 <= a <= HO0 -> ~ near a b;
        m_covR : 0 < epO -> delta - (DO - epO) + 3 <= LC;
        m_covB : 0 < spO -> HC <= delta - (- DO + spO) - 3
      }.
    End States.

    (* ---------------------------------------------------------------- *)
    (** ** a k-loop of C (the half that tests for overlap) *)

    Section CPhase.
      Variables (DO : Z) (fO : Z -> Z) (sO eO spO epO LO HO : Z).
      Variables (DC : Z) (fC : Z -> Z) (sC eC spC epC LC HC : Z).
      Variables (LO0 HO0 : Z).
      Hypothesis MI : Minv DO fO sO eO spO epO LO HO DC fC sC eC spC epC LC HC LO0 HO0.
      Variables off vlen : Z.
      Hypothesis Hoff : DO + 1 <= off /\ vlen = 2 * off.

      Let d := DC + 1.
      Let lo := - d + sC.
      Let hi := d - eC.
      Let IO := m_O _ _ _ _ _ _ _ _ _ _ _ _ _ _ _ _ _ _ MI.
      Let IC := m_C _ _ _ _ _ _ _ _ _ _ _ _ _ _ _ _ _ _ MI.

      Notation nvC := (newval n1 n2 MC fC d).

      Lemma c_basic : 0 <= DC /\ 0 <= DO /\ LC - 1 <= lo /\ hi <= HC + 1 /\ LC <= 0 <= HC /\ LO <= 0 <= HO /\
        - DC <= LC /\ HC <= DC /\ - DO <= LO /\ HO <= DO /\ LO <= - DO + spO /\ DO - epO <= HO /\
        0 <= spO /\ 0 <= epO /\ 0 <= sC /\ 0 <= eC.
      Proof.
        destruct IO as [ID _ (Is1 & Is2) _ Ipr Ir (IL1 & IL2 & IL3 & IL4 & IL5) _ _ _ _ _ _ _ _ _ _ _ _].
        destruct IC as [JD _ (Js1 & Js2) _ Jpr Jr (JL1 & JL2 & JL3 & JL4 & JL5) _ _ _ _ _ _ _ _ _ _ _ _].
        unfold hi, lo, d. lia.
      Qed.

      (* the diagonal of O facing the i-th diagonal of the loop has the parity of O's last loop *)
      Lemma c_parity i : exists j, delta - (lo + 2 * i) = - DO + spO + 2 * j.
      Proof.
        destruct (m_par _ _ _ _ _ _ _ _ _ _ _ _ _ _ _ _ _ _ MI) as (q & Hq).
        destruct (hi_even _ _ _ _ _ _ _ _ _ _ _ _ IO) as (a & b & c & c' & Ea & Eb & Ec & Ec').
        destruct (hi_even _ _ _ _ _ _ _ _ _ _ _ _ IC) as (a2 & b2 & c2 & c2' & Ea2 & Eb2 & Ec2 & Ec2').
        exists (q + 1 - i - a2 - c). unfold lo, d. lia.
      Qed.

      Lemma c_nc i : 0 <= i -> lo + 2 * i <= hi -> ~ (n1 <= nvC (lo + 2 * i) /\ n2 <= nvC (lo + 2 * i) - (lo + 2 * i)).
      Proof.
        intros Hi Hk. apply (nc_generic n1 n2 MC delta Hdelta DC fC sC eC spC epC LC HC IC i Hi Hk HMCc).
        intros k Wk Ht Hn.
        destruct (m_ghost _ _ _ _ _ _ _ _ _ _ _ _ _ _ _ _ _ _ MI) as (_ & G2 & _).
        apply (m_block _ _ _ _ _ _ _ _ _ _ _ _ _ _ _ _ _ _ MI k Wk Ht 0 ltac:(lia)). unfold near. lia.
      Qed.

      (* a new entry beyond the right border: O has written nothing near it *)
      Lemma c_badR i : 0 <= i -> lo + 2 * i <= hi -> n1 < nvC (lo + 2 * i) -> delta - (lo + 2 * i) + 2 <= LO.
      Proof.
        intros Hi Hk Hb. pose proof c_basic as B.
        destruct (nv_facts n1 n2 MC delta DC fC sC eC spC epC LC HC IC i Hi Hk) as (V1 & V2 & V3 & F1 & F2 & F3 & P1 & P2 & P3).
        fold d lo in V1, V2, V3, F1, F2, F3, P1, P2, P3.
        set (k := lo + 2 * i) in *. set (x := nvC k) in *. set (x0 := pickx fC d k) in *.
        assert (Ex : x0 = x) by lia.
        assert (W : LC <= k - 1 <= HC /\ n1 <= fC (k - 1)).
        { destruct P3 as [(Wk & Ek)|(Wk & Ek)]; [split; lia|].
          destruct (hi_baR _ _ _ _ _ _ _ _ _ _ _ _ IC (k + 1) Wk ltac:(lia)) as (B1 & B2 & B3).
          replace (k + 1 - 2) with (k - 1) in * by lia. split; [lia|exact B3]. }
        destruct W as (W1 & W2).
        pose proof (hi_nc _ _ _ _ _ _ _ _ _ _ _ _ IC (k - 1) W1) as N1.
        destruct (m_ghost _ _ _ _ _ _ _ _ _ _ _ _ _ _ _ _ _ _ MI) as (G1 & G2 & G3).
        assert (S : delta - (k - 1) + 2 <= LO0).
        { apply (side_R (k - 1) LO0 HO0); [lia|lia|].
          intros a Wa Hn. apply (m_block _ _ _ _ _ _ _ _ _ _ _ _ _ _ _ _ _ _ MI (k - 1) W1 (or_introl W2) a Wa).
          now apply near_sym. }
        lia.
      Qed.

      Lemma c_badB i : 0 <= i -> lo + 2 * i <= hi -> nvC (lo + 2 * i) <= n1 -> n2 < nvC (lo + 2 * i) - (lo + 2 * i) ->
        HO <= delta - (lo + 2 * i) - 2.
      Proof.
        intros Hi Hk Hx Hb. pose proof c_basic as B.
        destruct (nv_facts n1 n2 MC delta DC fC sC eC spC epC LC HC IC i Hi Hk) as (V1 & V2 & V3 & F1 & F2 & F3 & P1 & P2 & P3).
        fold d lo in V1, V2, V3, F1, F2, F3, P1, P2, P3.
        set (k := lo + 2 * i) in *. set (x := nvC k) in *. set (x0 := pickx fC d k) in *.
        assert (Ex : x0 = x) by lia.
        assert (W : LC <= k + 1 <= HC /\ n2 <= fC (k + 1) - (k + 1)).
        { destruct P3 as [(Wk & Ek)|(Wk & Ek)]; [|split; lia].
          destruct (hi_baB _ _ _ _ _ _ _ _ _ _ _ _ IC (k - 1) Wk ltac:(lia)) as (B1 & B2 & B3).
          replace (k - 1 + 2) with (k + 1) in * by lia. split; [lia|exact B3]. }
        destruct W as (W1 & W2).
        pose proof (hi_nc _ _ _ _ _ _ _ _ _ _ _ _ IC (k + 1) W1) as N1.
        destruct (m_ghost _ _ _ _ _ _ _ _ _ _ _ _ _ _ _ _ _ _ MI) as (G1 & G2 & G3).
        assert (S : HO0 <= delta - (k + 1) - 2).
        { apply (side_B (k + 1) LO0 HO0); [lia|lia|].
          intros a Wa Hn. apply (m_block _ _ _ _ _ _ _ _ _ _ _ _ _ _ _ _ _ _ MI (k + 1) W1 (or_intror W2) a Wa).
          now apply near_sym. }
        lia.
      Qed.

      (* if O has written next to the diagonal facing the i-th diagonal, then that diagonal was in
         O's last loop *)
      Lemma c_cov i : 0 <= i -> lo + 2 * i <= hi ->
        LO <= delta - (lo + 2 * i) + 1 <= HO \/ LO <= delta - (lo + 2 * i) - 1 <= HO ->
        fresh DO spO epO (delta - (lo + 2 * i)).
      Proof.
        intros Hi Hk Hw. pose proof c_basic as B.
        destruct (c_parity i) as (j & Hj).
        destruct (hi_even _ _ _ _ _ _ _ _ _ _ _ _ IO) as (a & b & c & c' & Ea & Eb & Ec & Ec').
        exists j.
        assert (U : delta - (lo + 2 * i) <= DO - epO).
        { destruct (Z_lt_le_dec 0 epO) as [Hp|Hp].
          - pose proof (m_covR _ _ _ _ _ _ _ _ _ _ _ _ _ _ _ _ _ _ MI Hp). lia.
          - lia. }
        assert (V : - DO + spO <= delta - (lo + 2 * i)).
        { destruct (Z_lt_le_dec 0 spO) as [Hp|Hp].
          - pose proof (m_covB _ _ _ _ _ _ _ _ _ _ _ _ _ _ _ _ _ _ MI Hp). lia.
          - lia. }
        lia.
      Qed.

      Notation hitc := (hitcond n1 delta off vlen true fO).

      (* a new entry in the grid that does not overlap is separated from all near entries of O *)
      Lemma c_sep i : 0 <= i -> lo + 2 * i <= hi ->
        nvC (lo + 2 * i) <= n1 -> nvC (lo + 2 * i) - (lo + 2 * i) <= n2 ->
        ~ hitc (lo + 2 * i) (nvC (lo + 2 * i)) ->
        forall a, LO <= a <= HO -> near a (lo + 2 * i) -> Sep (fO a) a (nvC (lo + 2 * i)) (lo + 2 * i).
      Proof.
        intros Hi Hk Hx Hy Hnh a Wa Hn. pose proof c_basic as B.
        set (k := lo + 2 * i) in *. set (x := nvC k) in *.
        assert (S0 : LO <= delta - k <= HO -> fO (delta - k) + x + 1 <= n1).
        { intros W. pose proof (hi_valid _ _ _ _ _ _ _ _ _ _ _ _ IO _ W) as (Vx & Vy).
          destruct (Z_le_dec n1 (x + fO (delta - k))) as [Hc|Hc]; [|lia].
          exfalso. apply Hnh. unfold hitcond. repeat split; lia. }
        unfold near in Hn. unfold Sep.
        destruct (Z.eq_dec a (delta - k)) as [->|Ha0].
        - specialize (S0 Wa). lia.
        - assert (Hf : fresh DO spO epO (delta - k)).
          { apply c_cov; try assumption. fold k. lia. }
          destruct Hf as (j & Hj0 & Hj & Hju).
          assert (W0 : LO <= delta - k <= HO) by lia.
          specialize (S0 W0).
          destruct (hi_link _ _ _ _ _ _ _ _ _ _ _ _ IO j Hj0 ltac:(lia)) as (K1 & K2).
          rewrite <- Hj in K1, K2.
          destruct (Z.eq_dec a (delta - k + 1)) as [->|Ha1].
          + specialize (K2 ltac:(lia)). lia.
          + assert (a = delta - k - 1) as -> by lia.
            specialize (K1 ltac:(lia)). lia.
      Qed.

      (* an overlap: both points involved lie in the grid and are not corners of it *)
      Definition inner (x y : Z) : Prop := 0 <= x <= n1 /\ 0 <= y <= n2 /\ 0 < x + y < n1 + n2.

      Lemma c_hit i : 0 <= i -> lo + 2 * i <= hi ->
        nvC (lo + 2 * i) <= n1 -> nvC (lo + 2 * i) - (lo + 2 * i) <= n2 ->
        hitc (lo + 2 * i) (nvC (lo + 2 * i)) ->
        inner (nvC (lo + 2 * i)) (nvC (lo + 2 * i) - (lo + 2 * i)) /\
        inner (fO (delta - (lo + 2 * i))) (fO (delta - (lo + 2 * i)) - (delta - (lo + 2 * i))).
      Proof.
        intros Hi Hk Hx Hy (_ & Hr & Hg & Hov). pose proof c_basic as B.
        pose proof (c_nc i Hi Hk) as NC.
        destruct (nv_facts n1 n2 MC delta DC fC sC eC spC epC LC HC IC i Hi Hk) as (V1 & V2 & V3 & F1 & _).
        fold d lo in V1, V2, V3, F1.
        destruct (c_parity i) as (j & Hj).
        set (k := lo + 2 * i) in *. set (x := nvC k) in *. set (a := delta - k) in *.
        destruct (hi_even _ _ _ _ _ _ _ _ _ _ _ _ IO) as (ea & eb & ec & ec' & Ea & Eb & Ec & Ec').
        assert (Wa : LO <= a <= HO).
        { destruct (Z_le_dec LO a) as [W1|W1]; [destruct (Z_le_dec a HO) as [W2|W2]; [lia|]|];
            (destruct (hi_unw _ _ _ _ _ _ _ _ _ _ _ _ IO a ltac:(lia)) as [Hu|(K1 & K2 & K3)]; [congruence|lia]). }
        pose proof (hi_valid _ _ _ _ _ _ _ _ _ _ _ _ IO a Wa) as (Vx & Vy).
        pose proof (hi_nc _ _ _ _ _ _ _ _ _ _ _ _ IO a Wa) as NO.
        assert (Xo : fO a <= n1).
        { destruct (Z_le_dec (fO a) n1) as [|Hc]; [assumption|exfalso].
          destruct (hi_baR _ _ _ _ _ _ _ _ _ _ _ _ IO a Wa ltac:(lia)) as (B1 & B2 & _).
          pose proof (hi_nc _ _ _ _ _ _ _ _ _ _ _ _ IO (a - 1) ltac:(lia)) as N1.
          pose proof (hi_valid _ _ _ _ _ _ _ _ _ _ _ _ IO (a - 1) ltac:(lia)) as (Vx1 & Vy1).
          assert (S : delta - (a - 1) + 2 <= LC).
          { apply (side_R (a - 1) LC HC); [lia|lia|].
            intros b Wb Hn.
            pose proof (hi_valid _ _ _ _ _ _ _ _ _ _ _ _ IC b Wb) as (Vxb & Vyb).
            apply (touch_nonear (fO (a - 1)) (a - 1) (fC b) b); try lia.
            apply (m_old _ _ _ _ _ _ _ _ _ _ _ _ _ _ _ _ _ _ MI); try assumption; try lia.
            intros (j' & _ & Hj' & _). lia. }
          unfold a, k, hi, lo, d in *. lia. }
        assert (Yo : fO a - a <= n2).
        { destruct (Z_le_dec (fO a - a) n2) as [|Hc]; [assumption|exfalso].
          destruct (hi_baB _ _ _ _ _ _ _ _ _ _ _ _ IO a Wa ltac:(lia)) as (B1 & B2 & _).
          pose proof (hi_nc _ _ _ _ _ _ _ _ _ _ _ _ IO (a + 1) ltac:(lia)) as N1.
          pose proof (hi_valid _ _ _ _ _ _ _ _ _ _ _ _ IO (a + 1) ltac:(lia)) as (Vx1 & Vy1).
          assert (S : HC <= delta - (a + 1) - 2).
          { apply (side_B (a + 1) LC HC); [lia|lia|].
            intros b Wb Hn.
            pose proof (hi_valid _ _ _ _ _ _ _ _ _ _ _ _ IC b Wb) as (Vxb & Vyb).
            apply (touch_nonear (fO (a + 1)) (a + 1) (fC b) b); try lia.
            apply (m_old _ _ _ _ _ _ _ _ _ _ _ _ _ _ _ _ _ _ MI); try assumption; try lia.
            intros (j' & _ & Hj' & _). lia. }
          unfold a, k, hi, lo, d in *. lia. }
        unfold inner. unfold a in *. repeat split; lia.
      Qed.

      (* the whole loop *)
      Variable N : Z.
      Hypothesis HN : 2 * N = hi - lo + 2.

      Section CDone.
        Variables (fC' : Z -> Z) (sC' eC' : Z).
        Hypothesis C : Cur n1 n2 MC delta off vlen true fO d lo fC sC eC N fC' sC' eC'.

        Let LC' := Z.min LC lo.
        Let HC' := Z.max HC hi.

        Lemma c_HI : HIC (DC + 1) fC' sC' eC' sC eC LC' HC'.
        Proof.
          apply (HI_step n1 n2 MC delta Hdelta DC fC sC eC spC epC LC HC fC' sC' eC' N off vlen true fO IC HN C).
          intros i Hi. apply c_nc; [lia|fold d lo hi; lia].
        Qed.

        Lemma c_sep_form i a : 0 <= i < N -> LO <= a <= HO -> near a (lo + 2 * i) ->
          Sep (fO a) a (fC' (lo + 2 * i)) (lo + 2 * i).
        Proof.
          intros Hi Wa Hn.
          assert (Hk : lo + 2 * i <= hi) by lia.
          pose proof (st_new n1 n2 MC delta DC fC sC eC fC' sC' eC' N off vlen true fO C i Hi) as En.
          change (fC' (lo + 2 * i) = nvC (lo + 2 * i)) in En. rewrite En.
          destruct (Z_lt_le_dec n1 (nvC (lo + 2 * i))) as [Hb|Hx].
          - pose proof (c_badR i ltac:(lia) Hk Hb). unfold near in Hn. lia.
          - destruct (Z_lt_le_dec n2 (nvC (lo + 2 * i) - (lo + 2 * i))) as [Hb|Hy].
            + pose proof (c_badB i ltac:(lia) Hk Hx Hb). unfold near in Hn. lia.
            + apply c_sep; try assumption; try lia.
              apply (cur_nohit _ _ _ _ _ _ _ _ _ _ _ _ _ _ _ _ _ C i Hi); assumption.
        Qed.

        Theorem c_Qinv : Qinv DO fO sO eO spO epO LO HO (DC + 1) fC' sC' eC' sC eC LC' HC'.
        Proof.
          pose proof c_basic as B. pose proof c_HI as IC'.
          split.
          - exact IO.
          - exact IC'.
          - destruct (m_par _ _ _ _ _ _ _ _ _ _ _ _ _ _ _ _ _ _ MI) as (q & Hq). exists (q + 1). lia.
          - intros a b Wa Wb Hn.
            destruct (st_form n1 n2 MC delta DC fC sC eC spC epC LC HC fC' sC' eC' N off vlen true fO IC HN C b)
              as [(i & Hi & ->)|[(Wb' & E)|(Wb' & E)]].
            + apply c_sep_form; assumption.
            + rewrite E.
              destruct (hi_even _ _ _ _ _ _ _ _ _ _ _ _ IO) as (ea & eb & ec & ec' & Ea & Eb & Ec & Ec').
              destruct (hi_even _ _ _ _ _ _ _ _ _ _ _ _ IC) as (ea2 & eb2 & ec2 & ec2' & Ea2 & Eb2 & Ec2 & Ec2').
              destruct (m_par _ _ _ _ _ _ _ _ _ _ _ _ _ _ _ _ _ _ MI) as (q & Hq).
              assert (Hfd : fresh DO spO epO a \/ ~ fresh DO spO epO a).
              { destruct (Z.Even_or_Odd (a + DO - spO)) as [[j Hj]|[j Hj]].
                - destruct (Z_le_dec 0 j) as [J1|J1]; [destruct (Z_le_dec a (DO - epO)) as [J2|J2]|].
                  + left. exists j. lia.
                  + right. intros (j' & _ & _ & ?). lia.
                  + right. intros (j' & ? & ? & _). lia.
                - right. intros (j' & _ & ? & _). lia. }
              destruct Hfd as [(j & Hj0 & Hj & Hju)|Hnf]; [|now apply (m_old _ _ _ _ _ _ _ _ _ _ _ _ _ _ _ _ _ _ MI)].
              destruct (Z.eq_dec b (delta - a)) as [->|Hne]; [now apply (m_same _ _ _ _ _ _ _ _ _ _ _ _ _ _ _ _ _ _ MI)|].
              (* the diagonal facing a is in C's loop *)
              destruct (m_ghost _ _ _ _ _ _ _ _ _ _ _ _ _ _ _ _ _ _ MI) as (G1 & G2 & G3).
              assert (U : delta - a <= hi).
              { destruct (Z_lt_le_dec 0 eC) as [Hp|Hp]; [|unfold near in Hn; unfold hi, d; lia].
                destruct (hi_sealR _ _ _ _ _ _ _ _ _ _ _ _ IC Hp) as (kR & WR & KR & VR).
                pose proof (hi_nc _ _ _ _ _ _ _ _ _ _ _ _ IC kR WR) as NR.
                assert (S : delta - kR + 2 <= LO0).
                { apply (side_R kR LO0 HO0); [lia|lia|].
                  intros a' Wa' Hn'. apply (m_block _ _ _ _ _ _ _ _ _ _ _ _ _ _ _ _ _ _ MI kR WR (or_introl VR) a' Wa').
                  now apply near_sym. }
                unfold hi, d. lia. }
              assert (V : lo <= delta - a).
              { destruct (Z_lt_le_dec 0 sC) as [Hp|Hp]; [|unfold near in Hn; unfold lo, d; lia].
                destruct (hi_sealB _ _ _ _ _ _ _ _ _ _ _ _ IC Hp) as (kB & WB & KB & VB).
                pose proof (hi_nc _ _ _ _ _ _ _ _ _ _ _ _ IC kB WB) as NB.
                assert (S : HO0 <= delta - kB - 2).
                { apply (side_B kB LO0 HO0); [lia|lia|].
                  intros a' Wa' Hn'. apply (m_block _ _ _ _ _ _ _ _ _ _ _ _ _ _ _ _ _ _ MI kB WB (or_intror VB) a' Wa').
                  now apply near_sym. }
                unfold lo, d. lia. }
              set (i := q + 1 - j - ec - ea2).
              assert (Ei : delta - a = lo + 2 * i) by (unfold i, lo, d; lia).
              assert (Hi : 0 <= i < N) by lia.
              pose proof (c_sep_form i a Hi Wa ltac:(unfold near; lia)) as S'.
              destruct (hi_link _ _ _ _ _ _ _ _ _ _ _ _ IC' i ltac:(lia) ltac:(unfold hi, lo, d in *; lia)) as (K1 & K2).
              replace (- (DC + 1) + sC + 2 * i) with (lo + 2 * i) in K1, K2 by (unfold lo, d; lia).
              unfold Sep in *. unfold near in Hn.
              destruct (Z.eq_dec b (lo + 2 * i - 1)) as [Qb1|Qb1].
              * subst b. specialize (K1 ltac:(unfold LC'; lia)).
                assert (E1 : fC' (lo + 2 * i - 1) = fC (lo + 2 * i - 1)) by exact E. lia.
              * assert (Qb2 : b = lo + 2 * i + 1) by lia. subst b. specialize (K2 ltac:(unfold HC'; lia)).
                assert (E1 : fC' (lo + 2 * i + 1) = fC (lo + 2 * i + 1)) by exact E. lia.
            + exfalso. unfold LC', HC' in *. lia.
        Qed.
      End CDone.

      Theorem C_phase : 0 <= N ->
        match hiter (hbody n1 n2 MC delta off vlen true fO d) (Z.to_nat N) lo fC sC eC with
        | HCont fC' sC' eC' =>
            Qinv DO fO sO eO spO epO LO HO (DC + 1) fC' sC' eC' sC eC (Z.min LC lo) (Z.max HC hi)
        | HHit x y kk xo => inner x y /\ inner xo (xo - kk)
        end.
      Proof.
        intros HN0.
        pose proof (hiter_shape n1 n2 MC delta off vlen true fO d lo fC sC eC (Z.to_nat N) 0 fC sC eC ltac:(lia)
                      (Cur_0 n1 n2 MC delta off vlen true fO d lo fC sC eC)) as Hs.
        replace (lo + 2 * 0) with lo in Hs by lia.
        destruct (hiter (hbody n1 n2 MC delta off vlen true fO d) (Z.to_nat N) lo fC sC eC) as [fC' sC' eC'|x y kk xo].
        - replace (0 + Z.of_nat (Z.to_nat N)) with N in Hs by lia. now apply c_Qinv.
        - destruct Hs as (i & Hi & -> & -> & -> & -> & Hx & Hy & Hh). unfold nv in *.
          apply c_hit; try assumption; lia.
      Qed.
    End CPhase.

    (* ---------------------------------------------------------------- *)
    (** ** a k-loop of O (the half that does not test) *)

    Section OPhase.
      Variables (DO : Z) (fO : Z -> Z) (sO eO spO epO LO HO : Z).
      Variables (DC : Z) (fC : Z -> Z) (sC eC spC epC LC HC : Z).
      Hypothesis QI : Qinv DO fO sO eO spO epO LO HO DC fC sC eC spC epC LC HC.
      Variables off vlen : Z.
      Variable g : Z -> Z.

      Let d := DO + 1.
      Let lo := - d + sO.
      Let hi := d - eO.
      Let IO := q_O _ _ _ _ _ _ _ _ _ _ _ _ _ _ _ _ QI.
      Let IC := q_C _ _ _ _ _ _ _ _ _ _ _ _ _ _ _ _ QI.

      Notation nvO := (newval n1 n2 MO fO d).

      Lemma o_basic : 0 <= DC /\ 0 <= DO /\ LO - 1 <= lo /\ hi <= HO + 1 /\ LC <= 0 <= HC /\ LO <= 0 <= HO /\
        - DC <= LC /\ HC <= DC /\ - DO <= LO /\ HO <= DO /\ 0 <= sO /\ 0 <= eO.
      Proof.
        destruct IO as [ID _ (Is1 & Is2) _ Ipr Ir (IL1 & IL2 & IL3 & IL4 & IL5) _ _ _ _ _ _ _ _ _ _ _ _].
        destruct IC as [JD _ (Js1 & Js2) _ Jpr Jr (JL1 & JL2 & JL3 & JL4 & JL5) _ _ _ _ _ _ _ _ _ _ _ _].
        unfold hi, lo, d. lia.
      Qed.

      (* an entry of O on or beyond the border faces no entry of C *)
      Lemma o_block a : LO <= a <= HO -> n1 <= fO a \/ n2 <= fO a - a -> forall b, LC <= b <= HC -> ~ near a b.
      Proof.
        intros Wa Ht b Wb Hn.
        pose proof (hi_valid _ _ _ _ _ _ _ _ _ _ _ _ IC b Wb) as (Vx & Vy).
        apply (touch_nonear (fO a) a (fC b) b Ht Vx Vy).
        now apply (q_sep _ _ _ _ _ _ _ _ _ _ _ _ _ _ _ _ QI).
      Qed.

      Lemma o_nc i : 0 <= i -> lo + 2 * i <= hi -> ~ (n1 <= nvO (lo + 2 * i) /\ n2 <= nvO (lo + 2 * i) - (lo + 2 * i)).
      Proof.
        intros Hi Hk. pose proof o_basic as B.
        apply (nc_generic n1 n2 MO delta Hdelta DO fO sO eO spO epO LO HO IO i Hi Hk HMOc).
        intros k Wk Ht Hn. apply (o_block k Wk Ht 0 ltac:(lia)). unfold near. lia.
      Qed.

      (* a new entry of O is separated from the entry of C it faces *)
      Lemma o_same i : 0 <= i -> lo + 2 * i <= hi -> LC <= delta - (lo + 2 * i) <= HC ->
        Sep (nvO (lo + 2 * i)) (lo + 2 * i) (fC (delta - (lo + 2 * i))) (delta - (lo + 2 * i)).
      Proof.
        intros Hi Hk Wk. pose proof o_basic as B.
        destruct (nv_facts n1 n2 MO delta DO fO sO eO spO epO LO HO IO i Hi Hk) as (V1 & V2 & V3 & F1 & F2 & F3 & P1 & P2 & P3).
        fold d lo in V1, V2, V3, F1, F2, F3, P1, P2, P3.
        set (a := lo + 2 * i) in *. set (x0 := pickx fO d a) in *. set (k := delta - a) in *.
        pose proof (hi_valid _ _ _ _ _ _ _ _ _ _ _ _ IC k Wk) as (Vx & Vy).
        assert (Pre : x0 + fC k + 1 <= n1).
        { destruct P3 as [(Wa & Ea)|(Wa & Ea)].
          - pose proof (q_sep _ _ _ _ _ _ _ _ _ _ _ _ _ _ _ _ QI (a - 1) k Wa Wk ltac:(unfold near, k; lia)) as (S1 & S2).
            unfold k in *. lia.
          - pose proof (q_sep _ _ _ _ _ _ _ _ _ _ _ _ _ _ _ _ QI (a + 1) k Wa Wk ltac:(unfold near, k; lia)) as (S1 & S2).
            unfold k in *. lia. }
        pose proof (hi_max _ _ _ _ _ _ _ _ _ _ _ _ IC k Wk) as Hmax.
        set (P := fun x y => y = x - a /\ 0 <= x /\ 0 <= y /\ x + fC k + 1 <= n1).
        assert (Hp : P (nvO a) (nvO a - a)).
        { apply (nv_inv n1 n2 MO DO fO sO eO P a).
          - unfold P. intros x y (E1 & E2 & E3 & E4) L1 L2 Hm. repeat split; try lia.
            destruct (Z.eq_dec (x + fC k + 1) n1) as [Eq|Ne]; [exfalso|lia].
            unfold scond in Hmax. rewrite HMsym in Hmax.
            replace (n1 - 1 - fC k) with x in Hmax by lia.
            replace (n2 - 1 - (fC k - k)) with y in Hmax by (assert (k = delta - a) by reflexivity; lia).
            rewrite Hm in Hmax.
            destruct (fC k <? n1) eqn:T1; [|bz; lia]. destruct (fC k - k <? n2) eqn:T2; [|bz; assert (k = delta - a) by reflexivity; lia].
            discriminate.
          - unfold P. fold d lo a x0. repeat split; lia. }
        unfold P in Hp.
        destruct Hp as (_ & Q1 & Q2 & Q3).
        unfold Sep. unfold k in *. lia.
      Qed.

      Variable N : Z.
      Hypothesis HN : 2 * N = hi - lo + 2.

      Section ODone.
        Variables (fO' : Z -> Z) (sO' eO' : Z).
        Hypothesis C : Cur n1 n2 MO delta off vlen false g d lo fO sO eO N fO' sO' eO'.

        Let LO' := Z.min LO lo.
        Let HO' := Z.max HO hi.

        Lemma o_HI : HIO (DO + 1) fO' sO' eO' sO eO LO' HO'.
        Proof.
          apply (HI_step n1 n2 MO delta Hdelta DO fO sO eO spO epO LO HO fO' sO' eO' N off vlen false g IO HN C).
          intros i Hi. apply o_nc; [lia|fold d lo hi; lia].
        Qed.

        Theorem o_Minv : Minv (DO + 1) fO' sO' eO' sO eO LO' HO' DC fC sC eC spC epC LC HC LO HO.
        Proof.
          pose proof o_basic as B. pose proof o_HI as IO'.
          split.
          - exact IO'.
          - exact IC.
          - destruct (q_par _ _ _ _ _ _ _ _ _ _ _ _ _ _ _ _ QI) as (q & Hq). exists q. lia.
          - unfold LO', HO'. lia.
          - intros a Wa Wk.
            destruct (st_form n1 n2 MO delta DO fO sO eO spO epO LO HO fO' sO' eO' N off vlen false g IO HN C a)
              as [(i & Hi & ->)|[(Wa' & E)|(Wa' & E)]].
            + pose proof (st_new n1 n2 MO delta DO fO sO eO fO' sO' eO' N off vlen false g C i Hi) as En.
              rewrite En.
              change (Sep (nvO (lo + 2 * i)) (lo + 2 * i) (fC (delta - (lo + 2 * i))) (delta - (lo + 2 * i))).
              apply o_same; [lia|lia|assumption].
            + rewrite E. apply (q_sep _ _ _ _ _ _ _ _ _ _ _ _ _ _ _ _ QI); try assumption. unfold near. lia.
            + exfalso. unfold LO', HO' in *. lia.
          - intros a b Wa Wb Hn Hnf.
            destruct (st_form n1 n2 MO delta DO fO sO eO spO epO LO HO fO' sO' eO' N off vlen false g IO HN C a)
              as [(i & Hi & ->)|[(Wa' & E)|(Wa' & E)]].
            + exfalso. apply Hnf. exists i. unfold lo, hi, d in *. lia.
            + rewrite E. now apply (q_sep _ _ _ _ _ _ _ _ _ _ _ _ _ _ _ _ QI).
            + exfalso. unfold LO', HO' in *. lia.
          - intros b Wb Ht a Wa Hn.
            pose proof (hi_valid _ _ _ _ _ _ _ _ _ _ _ _ IO a Wa) as (Vx & Vy).
            apply (touch_nonear (fC b) b (fO a) a Ht Vx Vy). apply Sep_sym.
            now apply (q_sep _ _ _ _ _ _ _ _ _ _ _ _ _ _ _ _ QI).
          - intros Hp.
            destruct (hi_sealR _ _ _ _ _ _ _ _ _ _ _ _ IO Hp) as (kR & WR & KR & VR).
            pose proof (hi_nc _ _ _ _ _ _ _ _ _ _ _ _ IO kR WR) as NR.
            pose proof (side_R kR LC HC ltac:(lia) ltac:(lia) (o_block kR WR (or_introl VR))). lia.
          - intros Hp.
            destruct (hi_sealB _ _ _ _ _ _ _ _ _ _ _ _ IO Hp) as (kB & WB & KB & VB).
            pose proof (hi_nc _ _ _ _ _ _ _ _ _ _ _ _ IO kB WB) as NB.
            pose proof (side_B kB LC HC ltac:(lia) ltac:(lia) (o_block kB WB (or_intror VB))). lia.
        Qed.
      End ODone.

      Theorem O_phase : 0 <= N ->
        match hiter (hbody n1 n2 MO delta off vlen false g d) (Z.to_nat N) lo fO sO eO with
        | HCont fO' sO' eO' =>
            Minv (DO + 1) fO' sO' eO' sO eO (Z.min LO lo) (Z.max HO hi) DC fC sC eC spC epC LC HC LO HO
        | HHit x y kk xo => False
        end.
      Proof.
        intros HN0.
        pose proof (hiter_shape n1 n2 MO delta off vlen false g d lo fO sO eO (Z.to_nat N) 0 fO sO eO ltac:(lia)
                      (Cur_0 n1 n2 MO delta off vlen false g d lo fO sO eO)) as Hs.
        replace (lo + 2 * 0) with lo in Hs by lia.
        destruct (hiter (hbody n1 n2 MO delta off vlen false g d) (Z.to_nat N) lo fO sO eO) as [fO' sO' eO'|x y kk xo].
        - replace (0 + Z.of_nat (Z.to_nat N)) with N in Hs by lia. now apply o_Minv.
        - destruct Hs as (i & _ & _ & _ & _ & _ & _ & _ & (Hc & _)). discriminate.
      Qed.
    End OPhase.
  End Two.
End Cross.
