(* XmlFmtProofsF -- C10, attributes, part 2: the attribute handlers on a node with well-formed
   annotations ([ann]); the attribute view [av] of the working tree under rejection; one action
   ([step_attrs]) and a whole script; the final statement with attributes ([reject_format_attrs]).
   No axioms. *)
From Coq Require Import List NArith ZArith Bool Arith Lia.
Import ListNotations.
Require Import XV.Str XV.StrProofs XV.Json XV.TextFormat XV.Forest XV.Matcher XV.Differ XV.Path XV.WF XV.AttrProofs XV.XmlFmt XV.Projections
               XV.XmlFmtProofs0 XV.XmlFmtProofs1 XV.XmlFmtProofs2 XV.XmlFmtProofsR2 XV.XmlFmtProofs3 XV.XmlFmtProofs4 XV.XmlFmtProofs5
               XV.XmlFmtProofs8 XV.XmlFmtProofs9 XV.XmlFmtProofsE.
Require XV.Placeholder XV.PlaceholderUndo.
Local Open Scope N_scope.

Lemma key_del : dname (Placeholder.s_delete ++ s_attr_suffix) = K_del. Proof. reflexivity. Qed.
Lemma key_add : dname (s_add ++ s_attr_suffix) = K_add. Proof. reflexivity. Qed.
Lemma key_ren : dname (s_rename ++ s_attr_suffix) = K_ren. Proof. reflexivity. Qed.
Lemma key_upd : dname (s_update ++ s_attr_suffix) = K_upd. Proof. reflexivity. Qed.

Lemma jopt_snoc_some xs x : jopt (xs ++ [x]) = Some (match jopt (xs ++ [x]) with Some s => s | None => [] end).
Proof. rewrite jopt_snoc. reflexivity. Qed.

(* extend on key K with item x, when K currently holds the items xs *)
Lemma extend_at b action K xs x : dname (action ++ s_attr_suffix) = K -> aget b K = jopt xs ->
  Forall (fun y : str => y <> []) xs ->
  aget (extend_diff_attr b action x) K = jopt (xs ++ [x]).
Proof.
  intros HK E H. unfold extend_diff_attr. cbv zeta. rewrite HK, aget_aput, streqb_refl.
  rewrite (jopt_snoc_some xs x). f_equal. apply (extend_value b K xs x E H).
Qed.
Lemma extend_other b action x K K' : dname (action ++ s_attr_suffix) = K -> K' <> K ->
  aget (extend_diff_attr b action x) K' = aget b K'.
Proof. intros HK Hne. unfold extend_diff_attr. cbv zeta. rewrite HK. apply aget_aput_other, Hne. Qed.

Lemma Forall_nonempty_ok xs : Forall okname xs -> Forall (fun y : str => y <> []) xs.
Proof. intros H. eapply Forall_impl; [|exact H]. intros x (_ & H2 & _). exact H2. Qed.
Lemma Forall_nonempty_pitem ps : Forall (fun y : str => y <> []) (map pitem ps).
Proof. apply Forall_map. apply Forall_forall. intros kv _. apply pitem_nonempty. Qed.

Lemma filter_sub_vals (P : attrs) k : Forall (fun kv => vsimple (snd kv)) P -> Forall (fun kv => vsimple (snd kv)) (adel P k).
Proof. intros H. unfold adel. rewrite Forall_forall in *. intros x Hx. apply filter_In in Hx as [Hx _]. auto. Qed.
Lemma aput_vals (P : attrs) k v : Forall (fun kv => vsimple (snd kv)) P -> vsimple v -> Forall (fun kv => vsimple (snd kv)) (aput P k v).
Proof.
  intros H Hv. unfold aput. destruct (ahas P k).
  - rewrite Forall_forall in *. intros x Hx. apply in_map_iff in Hx as (y & <- & Hy). destruct (str_eqb k (fst y)); [exact Hv|auto].
  - apply Forall_app. split; [exact H|]. constructor; [exact Hv|constructor].
Qed.

Lemma aget_val_simple (P : attrs) k v : Forall (fun kv => vsimple (snd kv)) P -> aget P k = Some v -> vsimple v.
Proof. intros H E. apply aget_Some_In in E. rewrite Forall_forall in H. apply (H _ E). Qed.

Section Handlers.
Variables (a : attrs) (D A : list str) (Rn U : list (str * str)).
Hypothesis HA : ann a D A Rn U.

Let P := plain_attrs a.

Theorem h_delete_ann k : okname k -> fresh k D A Rn U -> ahas a k = true ->
  let a' := extend_diff_attr (adel a k) Placeholder.s_delete k in
  ann a' (D ++ [k]) A Rn U /\ wmap (old_attrs a') (old_attrs a).
Proof.
  intros Hok Hf Hhas a'. pose proof Hok as (Hs & Hne & Hpl). destruct K_distinct as (N1 & N2 & N3 & N4 & N5 & N6).
  destruct K_diff as (F1 & F2 & F3 & F4).
  assert (HA' : ann a' (D ++ [k]) A Rn U).
  { unfold a'. constructor.
    - apply (extend_at _ _ K_del D k key_del); [rewrite aget_K_plain_del by assumption; apply (an_del _ _ _ _ _ HA)|apply Forall_nonempty_ok, (an_D _ _ _ _ _ HA)].
    - rewrite (extend_other _ _ _ K_del K_add key_del) by congruence. rewrite aget_K_plain_del by assumption. apply (an_add _ _ _ _ _ HA).
    - rewrite (extend_other _ _ _ K_del K_ren key_del) by congruence. rewrite aget_K_plain_del by assumption. apply (an_ren _ _ _ _ _ HA).
    - rewrite (extend_other _ _ _ K_del K_upd key_del) by congruence. rewrite aget_K_plain_del by assumption. apply (an_upd _ _ _ _ _ HA).
    - apply Forall_app. split; [apply (an_D _ _ _ _ _ HA)|constructor; [exact Hok|constructor]].
    - apply (an_A _ _ _ _ _ HA).
    - apply (an_R _ _ _ _ _ HA).
    - apply (an_U _ _ _ _ _ HA).
    - rewrite plain_attrs_extend, plain_attrs_adel. apply adel_NoDup, (an_nd _ _ _ _ _ HA).
    - rewrite plain_attrs_extend, plain_attrs_adel. apply filter_sub_vals, (an_vals _ _ _ _ _ HA). }
  split; [exact HA'|]. rewrite (ann_old _ _ _ _ _ HA'), (ann_old _ _ _ _ _ HA).
  unfold a'. rewrite plain_attrs_extend, plain_attrs_adel.
  assert (Hv : exists v, aget (plain_attrs a) k = Some v).
  { rewrite (aget_plain a k Hpl). unfold ahas in Hhas. destruct (aget a k); [eauto|discriminate]. }
  destruct Hv as [v Hv]. apply (undo_delete _ D A Rn U k v Hf Hv).
Qed.

Theorem h_insert_ann k v : okname k -> vsimple v -> fresh k D A Rn U -> ahas a k = false ->
  let a' := extend_diff_attr (aput a k v) s_add k in
  ann a' D (A ++ [k]) Rn U /\ wmap (old_attrs a') (old_attrs a).
Proof.
  intros Hok Hvs Hf Hhas a'. pose proof Hok as (Hs & Hne & Hpl). destruct K_distinct as (N1 & N2 & N3 & N4 & N5 & N6).
  destruct K_diff as (F1 & F2 & F3 & F4).
  assert (HA' : ann a' D (A ++ [k]) Rn U).
  { unfold a'. constructor.
    - rewrite (extend_other _ _ _ K_add K_del key_add) by congruence. rewrite aget_K_plain_put by assumption. apply (an_del _ _ _ _ _ HA).
    - apply (extend_at _ _ K_add A k key_add); [rewrite aget_K_plain_put by assumption; apply (an_add _ _ _ _ _ HA)|apply Forall_nonempty_ok, (an_A _ _ _ _ _ HA)].
    - rewrite (extend_other _ _ _ K_add K_ren key_add) by congruence. rewrite aget_K_plain_put by assumption. apply (an_ren _ _ _ _ _ HA).
    - rewrite (extend_other _ _ _ K_add K_upd key_add) by congruence. rewrite aget_K_plain_put by assumption. apply (an_upd _ _ _ _ _ HA).
    - apply (an_D _ _ _ _ _ HA).
    - apply Forall_app. split; [apply (an_A _ _ _ _ _ HA)|constructor; [exact Hok|constructor]].
    - apply (an_R _ _ _ _ _ HA).
    - apply (an_U _ _ _ _ _ HA).
    - rewrite plain_attrs_extend, plain_attrs_aput by exact Hpl. apply aput_NoDup, (an_nd _ _ _ _ _ HA).
    - rewrite plain_attrs_extend, plain_attrs_aput by exact Hpl. apply aput_vals; [apply (an_vals _ _ _ _ _ HA)|exact Hvs]. }
  split; [exact HA'|]. rewrite (ann_old _ _ _ _ _ HA'), (ann_old _ _ _ _ _ HA).
  unfold a'. rewrite plain_attrs_extend, plain_attrs_aput by exact Hpl.
  apply (undo_insert _ D A Rn U k v Hf). rewrite (aget_plain a k Hpl). unfold ahas in Hhas. destruct (aget a k); [discriminate|reflexivity].
Qed.

Theorem h_update_ann k v ov : okname k -> vsimple v -> fresh k D A Rn U -> aget a k = Some ov ->
  let a' := extend_diff_attr (aput a k v) s_update (k ++ 58 :: ov) in
  ann a' D A Rn (U ++ [(k, ov)]) /\ wmap (old_attrs a') (old_attrs a).
Proof.
  intros Hok Hvs Hf Hg a'. pose proof Hok as (Hs & Hne & Hpl). destruct K_distinct as (N1 & N2 & N3 & N4 & N5 & N6).
  destruct K_diff as (F1 & F2 & F3 & F4).
  assert (Hov : vsimple ov).
  { apply (aget_val_simple (plain_attrs a) k ov (an_vals _ _ _ _ _ HA)). now rewrite (aget_plain a k Hpl). }
  assert (HA' : ann a' D A Rn (U ++ [(k, ov)])).
  { unfold a'. constructor.
    - rewrite (extend_other _ _ _ K_upd K_del key_upd) by congruence. rewrite aget_K_plain_put by assumption. apply (an_del _ _ _ _ _ HA).
    - rewrite (extend_other _ _ _ K_upd K_add key_upd) by congruence. rewrite aget_K_plain_put by assumption. apply (an_add _ _ _ _ _ HA).
    - rewrite (extend_other _ _ _ K_upd K_ren key_upd) by congruence. rewrite aget_K_plain_put by assumption. apply (an_ren _ _ _ _ _ HA).
    - rewrite map_app. cbn [map]. change (pitem (k, ov)) with (k ++ 58 :: ov).
      apply (extend_at _ _ K_upd (map pitem U) _ key_upd); [rewrite aget_K_plain_put by assumption; apply (an_upd _ _ _ _ _ HA)|apply Forall_nonempty_pitem].
    - apply (an_D _ _ _ _ _ HA).
    - apply (an_A _ _ _ _ _ HA).
    - apply (an_R _ _ _ _ _ HA).
    - apply Forall_app. split; [apply (an_U _ _ _ _ _ HA)|constructor; [split; assumption|constructor]].
    - rewrite plain_attrs_extend, plain_attrs_aput by exact Hpl. apply aput_NoDup, (an_nd _ _ _ _ _ HA).
    - rewrite plain_attrs_extend, plain_attrs_aput by exact Hpl. apply aput_vals; [apply (an_vals _ _ _ _ _ HA)|exact Hvs]. }
  split; [exact HA'|]. rewrite (ann_old _ _ _ _ _ HA'), (ann_old _ _ _ _ _ HA).
  unfold a'. rewrite plain_attrs_extend, plain_attrs_aput by exact Hpl.
  apply (undo_update _ D A Rn U k v ov Hf). now rewrite (aget_plain a k Hpl).
Qed.

Theorem h_rename_ann k k' v : okname k -> okname k' -> k <> k' -> fresh k D A Rn U -> fresh k' D A Rn U ->
  aget a k = Some v -> ahas a k' = false ->
  let a' := extend_diff_attr (adel (aput a k' v) k) s_rename (k ++ 58 :: k') in
  ann a' D A (Rn ++ [(k, k')]) U /\ wmap (old_attrs a') (old_attrs a).
Proof.
  intros Hok Hok' Hne Hf Hf' Hg Hhas a'. pose proof Hok as (Hs & Hn1 & Hpl). pose proof Hok' as (Hs' & Hn2 & Hpl').
  destruct K_distinct as (N1 & N2 & N3 & N4 & N5 & N6). destruct K_diff as (F1 & F2 & F3 & F4).
  assert (Hv : vsimple v).
  { apply (aget_val_simple (plain_attrs a) k v (an_vals _ _ _ _ _ HA)). now rewrite (aget_plain a k Hpl). }
  assert (HA' : ann a' D A (Rn ++ [(k, k')]) U).
  { unfold a'. constructor.
    - rewrite (extend_other _ _ _ K_ren K_del key_ren) by congruence. rewrite aget_K_plain_del, aget_K_plain_put by assumption. apply (an_del _ _ _ _ _ HA).
    - rewrite (extend_other _ _ _ K_ren K_add key_ren) by congruence. rewrite aget_K_plain_del, aget_K_plain_put by assumption. apply (an_add _ _ _ _ _ HA).
    - rewrite map_app. cbn [map]. change (pitem (k, k')) with (k ++ 58 :: k').
      apply (extend_at _ _ K_ren (map pitem Rn) _ key_ren); [rewrite aget_K_plain_del, aget_K_plain_put by assumption; apply (an_ren _ _ _ _ _ HA)|apply Forall_nonempty_pitem].
    - rewrite (extend_other _ _ _ K_ren K_upd key_ren) by congruence. rewrite aget_K_plain_del, aget_K_plain_put by assumption. apply (an_upd _ _ _ _ _ HA).
    - apply (an_D _ _ _ _ _ HA).
    - apply (an_A _ _ _ _ _ HA).
    - apply Forall_app. split; [apply (an_R _ _ _ _ _ HA)|constructor; [split; assumption|constructor]].
    - apply (an_U _ _ _ _ _ HA).
    - rewrite plain_attrs_extend, plain_attrs_adel, plain_attrs_aput by exact Hpl'. apply adel_NoDup, aput_NoDup, (an_nd _ _ _ _ _ HA).
    - rewrite plain_attrs_extend, plain_attrs_adel, plain_attrs_aput by exact Hpl'. apply filter_sub_vals, aput_vals; [apply (an_vals _ _ _ _ _ HA)|exact Hv]. }
  split; [exact HA'|]. rewrite (ann_old _ _ _ _ _ HA'), (ann_old _ _ _ _ _ HA).
  unfold a'. rewrite plain_attrs_extend, plain_attrs_adel, plain_attrs_aput by exact Hpl'.
  apply (undo_rename _ D A Rn U k k' v Hf Hf' Hne).
  - now rewrite (aget_plain a k Hpl).
  - rewrite (aget_plain a k' Hpl'). unfold ahas in Hhas. destruct (aget a k'); [discriminate|reflexivity].
Qed.
End Handlers.

(* ------------------------------------------------------------------ *)
(** * From maps to the sorted attribute lists *)

Lemma attr_r_refl (kv : str * str) : attr_r kv kv.
Proof. split; auto. Qed.

Lemma xle_refl : forall t, xequiv_r_aux t t.
Proof.
  induction t as [tag at_ text tail kids IH] using Placeholder.xtree_ind2. constructor.
  - induction at_ as [|kv r IHr]; constructor; [apply attr_r_refl|exact IHr].
  - induction IH as [|k r Hk _ IHr]; constructor; assumption.
Qed.

Lemma attr_r_trans (x y z : str * str) : attr_r x y -> attr_r y z -> attr_r x z.
Proof. intros [A1 A2] [B1 B2]. split; [congruence|]. destruct A2 as [E|E]; [now left|]. rewrite E. exact B2. Qed.

Lemma Forall2_trans {A} (R : A -> A -> Prop) (HR : forall x y z, R x y -> R y z -> R x z) :
  forall l1 l2 l3, Forall2 R l1 l2 -> Forall2 R l2 l3 -> Forall2 R l1 l3.
Proof.
  induction l1 as [|x l1 IH]; intros l2 l3 H1 H2; inversion H1; subst; inversion H2; subst; constructor; eauto.
Qed.

Lemma xle_trans : forall a b c, xequiv_r_aux a b -> xequiv_r_aux b c -> xequiv_r_aux a c.
Proof.
  induction a as [tag at_ text tail kids IH] using Placeholder.xtree_ind2. intros b c H1 H2.
  inversion H1 as [? ? a2 ? ? ? k2 Ha Hk]; subst. inversion H2 as [? ? a3 ? ? ? k3 Ha' Hk']; subst.
  constructor; [eapply Forall2_trans; [apply attr_r_trans|exact Ha|exact Ha']|].
  clear - IH Hk Hk'. revert k2 k3 Hk Hk'. induction IH as [|x r Hx _ IHr]; intros k2 k3 Hk Hk'; inversion Hk; subst; inversion Hk'; subst; constructor; eauto.
Qed.

Lemma aget_sort (l : attrs) k : NoDup (map fst l) -> aget (sort_attrs l) k = aget l k.
Proof. intros ND. symmetry. apply aget_perm; [exact ND|apply sort_attrs_perm]. Qed.

Lemma wmap_keys a b : wmap a b -> forall k, In k (map fst a) <-> In k (map fst b).
Proof.
  intros H k. rewrite <- !aget_Some_key. specialize (H k). destruct (aget a k), (aget b k); try contradiction; split; intros [v E]; try discriminate; eauto.
Qed.

Lemma pairwise_attr_r (l1 l2 : attrs) : map fst l1 = map fst l2 -> NoDup (map fst l1) ->
  wmap l1 l2 -> Forall2 attr_r l1 l2.
Proof.
  revert l2; induction l1 as [|[k v] l1 IH]; intros [|[k' v'] l2] HK ND HW; cbn [map fst] in *; try discriminate; [constructor|].
  injection HK as <- HK. inversion ND as [|? ? Hk ND']; subst. constructor.
  - pose proof (HW k) as Hk0. rewrite !aget_cons, !streqb_refl in Hk0. split; [reflexivity|exact Hk0].
  - apply IH; [exact HK|exact ND'|]. intros x. specialize (HW x). rewrite !aget_cons in HW.
    destruct (str_eqb x k) eqn:E; [|exact HW]. apply streqb_true in E. subst x.
    assert (N1 : aget l1 k = None) by (apply aget_None; exact Hk).
    assert (N2 : aget l2 k = None) by (apply aget_None; rewrite <- HK; exact Hk).
    now rewrite N1, N2.
Qed.

Theorem wmap_sorted (a b : attrs) : NoDup (map fst a) -> NoDup (map fst b) -> wmap a b ->
  Forall2 attr_r (sort_attrs a) (sort_attrs b).
Proof.
  intros NDa NDb H. apply pairwise_attr_r.
  - rewrite !map_fst_sort_attrs. apply sort_strs_set_eq; try assumption. apply (wmap_keys a b H).
  - rewrite map_fst_sort_attrs. apply sort_strs_NoDup, NDa.
  - intros x. rewrite (aget_sort a x NDa), (aget_sort b x NDb). apply H.
Qed.

(* ------------------------------------------------------------------ *)
(** * The invariant and the attribute view *)

Definition aok (n : xtree) : Prop := exists D A Rn U, ann (xattrs n) D A Rn U.
Inductive atree : xtree -> Prop :=
| AT t : aok t -> Forall atree (xkids t) -> atree t.
Lemma atree_iff t : atree t <-> aok t /\ Forall atree (xkids t).
Proof. split; [intros H; inversion H; auto|intros [H1 H2]; constructor; auto]. Qed.
Lemma atree_get t p n : atree t -> get_at t p = Some n -> atree n.
Proof. apply (local_get atree). intros x H. apply atree_iff in H. tauto. Qed.
Lemma atree_map_at t p n' : atree t -> atree n' -> atree (map_at p (fun _ => n') t).
Proof.
  apply (local_map_at atree aok).
  - intros x H1 H2. apply atree_iff. tauto.
  - intros x H. apply atree_iff in H. tauto.
  - intros x H. apply atree_iff in H. tauto.
  - intros x ks H. destruct x; exact H.
Qed.

Fixpoint av (W : xtree) : xtree :=
  match W with
  | XNode tag attrs text tail kids =>
      XNode [] (sort_attrs (old_attrs attrs)) None []
            ((fix go (ks : list xtree) : list xtree :=
                match ks with [] => [] | k :: r => if alive_r k then av k :: go r else go r end) kids)
  end.
Lemma av_unfold W : av W = XNode [] (sort_attrs (old_attrs (xattrs W))) None [] (map av (filter alive_r (xkids W))).
Proof.
  destruct W as [tag attrs text tail kids]. cbn [av xattrs xkids]. f_equal.
  induction kids as [|k r IH]; cbn; [reflexivity|]. destruct (alive_r k); cbn; [f_equal|]; exact IH.
Qed.

Notation ale := xequiv_r_aux.

Lemma ale_kids_set_nth ks i k k' : nth_error ks i = Some k -> alive_r k' = alive_r k ->
  (alive_r k = true -> ale (av k') (av k)) ->
  Forall2 ale (map av (filter alive_r (set_nth i k' ks))) (map av (filter alive_r ks)).
Proof.
  revert i; induction ks as [|y ks IH]; intros [|i] E Ha Hv; cbn [nth_error] in E; try discriminate.
  - inversion E; subst. cbn [set_nth filter]. rewrite Ha. destruct (alive_r k) eqn:Ek; cbn [map].
    + constructor; [auto|]. clear. induction (filter alive_r ks); constructor; [apply xle_refl|assumption].
    + clear. induction (filter alive_r ks); constructor; [apply xle_refl|assumption].
  - cbn [set_nth filter]. destruct (alive_r y); cbn [map]; [constructor; [apply xle_refl|]|]; eauto.
Qed.

Lemma ale_node W W' : Forall2 attr_r (sort_attrs (old_attrs (xattrs W'))) (sort_attrs (old_attrs (xattrs W))) ->
  Forall2 ale (map av (filter alive_r (xkids W'))) (map av (filter alive_r (xkids W))) -> ale (av W') (av W).
Proof. intros H1 H2. rewrite (av_unfold W'), (av_unfold W). constructor; assumption. Qed.

Lemma Forall2_refl_ale l : Forall2 ale l l.
Proof. induction l; constructor; [apply xle_refl|assumption]. Qed.
Lemma Forall2_refl_attr (l : attrs) : Forall2 attr_r l l.
Proof. induction l; constructor; [apply attr_r_refl|assumption]. Qed.

Lemma ale_map_at W p n n' : get_at W p = Some n -> alive_r n' = alive_r n ->
  (alive_r n = true -> ale (av n') (av n)) ->
  alive_r (map_at p (fun _ => n') W) = alive_r W /\
  (p <> [] \/ alive_r n = true -> ale (av (map_at p (fun _ => n') W)) (av W)).
Proof.
  revert W; induction p as [|i p IH]; intros W E Ha Hv; cbn [get_at map_at] in *.
  - inversion E; subst. split; [exact Ha|]. intros [H|H]; [congruence|auto].
  - destruct (nth_error (xkids W) i) as [k|] eqn:Ek; [|discriminate].
    destruct (IH k E Ha Hv) as [A V].
    split; [destruct W; reflexivity|]. intros _.
    apply ale_node; [destruct W; cbn [with_kids xattrs]; apply Forall2_refl_attr|].
    destruct W as [tag attrs text tail kids]. cbn [with_kids xkids] in *.
    apply (ale_kids_set_nth kids i k _ Ek A). intros Hk. apply V.
    destruct p as [|j p]; [right|left; discriminate]. cbn in E. inversion E; subst. exact Hk.
Qed.

(* ------------------------------------------------------------------ *)
(** * One action *)

Definition fresh_in (a : attrs) (k : str) : Prop :=
  fresh k (names_of (aget a K_del)) (names_of (aget a K_add)) (pairs_of (aget a K_ren)) (pairs_of (aget a K_upd)).

Lemma ann_lists a D A Rn U : ann a D A Rn U ->
  names_of (aget a K_del) = D /\ names_of (aget a K_add) = A /\
  pairs_of (aget a K_ren) = Rn /\ pairs_of (aget a K_upd) = U.
Proof.
  intros H. rewrite (an_del _ _ _ _ _ H), (an_add _ _ _ _ _ H), (an_ren _ _ _ _ _ H), (an_upd _ _ _ _ _ H).
  rewrite !names_of_jopt, !pairs_of_jopt; auto.
  - eapply Forall_impl; [|apply (an_U _ _ _ _ _ H)]. intros kv [(H1 & _) H2]. auto.
  - eapply Forall_impl; [|apply (an_R _ _ _ _ _ H)]. intros kv [(H1 & _) (H2 & _)]. split; [exact H1|apply simple_vsimple, H2].
  - eapply Forall_impl; [|apply (an_A _ _ _ _ _ H)]. intros x (H1 & _). apply simple_vsimple, H1.
  - eapply Forall_impl; [|apply (an_D _ _ _ _ _ H)]. intros x (H1 & _). apply simple_vsimple, H1.
Qed.

Lemma ann_fresh a D A Rn U k : ann a D A Rn U -> fresh_in a k -> fresh k D A Rn U.
Proof. intros H Hf. unfold fresh_in in Hf. destruct (ann_lists a D A Rn U H) as (-> & -> & -> & ->) in Hf. exact Hf. Qed.

Definition is_mark (K : str) : Prop := K = DELETE_NAME \/ K = INSERT_NAME \/ K = RENAME_NAME.

Lemma mark_props K : is_mark K -> is_diff_name K = true /\ K <> K_del /\ K <> K_add /\ K <> K_ren /\ K <> K_upd.
Proof.
  intros [->|[->| ->]]; (split; [apply prefixb_app|]); unfold K_del, K_add, K_ren, K_upd, DELETE_NAME, INSERT_NAME, RENAME_NAME, dname, dn;
    repeat split; intros E; apply app_inv_head in E; discriminate.
Qed.

Lemma ann_mark a D A Rn U K v : ann a D A Rn U -> is_mark K ->
  ann (aput a K v) D A Rn U /\ old_attrs (aput a K v) = old_attrs a.
Proof.
  intros H HK. destruct (mark_props K HK) as (Hd & N1 & N2 & N3 & N4).
  assert (HA' : ann (aput a K v) D A Rn U).
  { constructor; try (rewrite aget_aput_other by congruence);
      try apply (an_del _ _ _ _ _ H); try apply (an_add _ _ _ _ _ H); try apply (an_ren _ _ _ _ _ H); try apply (an_upd _ _ _ _ _ H);
      try apply (an_D _ _ _ _ _ H); try apply (an_A _ _ _ _ _ H); try apply (an_R _ _ _ _ _ H); try apply (an_U _ _ _ _ _ H).
    - rewrite plain_attrs_aput_diff by exact Hd. apply (an_nd _ _ _ _ _ H).
    - rewrite plain_attrs_aput_diff by exact Hd. apply (an_vals _ _ _ _ _ H). }
  split; [exact HA'|]. rewrite (ann_old _ _ _ _ _ HA'), (ann_old _ _ _ _ _ H), plain_attrs_aput_diff by exact Hd. reflexivity.
Qed.

Lemma aok_mark n K v : aok n -> is_mark K -> aok (with_attrs n (aput (xattrs n) K v)) /\
  old_attrs (aput (xattrs n) K v) = old_attrs (xattrs n).
Proof.
  intros (D & A & Rn & U & H) HK. destruct (ann_mark _ _ _ _ _ K v H HK) as [H1 H2].
  split; [|exact H2]. exists D, A, Rn, U. destruct n; exact H1.
Qed.

Lemma aok_new tag : aok (XNode tag [(INSERT_NAME, [])] None [] []).
Proof.
  exists [], [], [], []. constructor; try reflexivity; try constructor.
Qed.

Section StepAttrs.
Variable S : pstate.
Variable c : cfg.
Variable o : oracle.
Variable rootns : list (option str * str).

Definition step_ok_attr (st : fstate) (d : dact) : Prop :=
  match d with
  | DUpdAttr nd k v =>
      okname k /\ vsimple v /\
      forall p n, resolve rootns st nd = FOk p -> get_at (fs_tree st) p = Some n -> fresh_in (xattrs n) k
  | DInsAttr nd k v =>
      okname k /\ vsimple v /\
      forall p n, resolve rootns st nd = FOk p -> get_at (fs_tree st) p = Some n ->
                  fresh_in (xattrs n) k /\ ahas (xattrs n) k = false
  | DDelAttr nd k =>
      okname k /\ forall p n, resolve rootns st nd = FOk p -> get_at (fs_tree st) p = Some n -> fresh_in (xattrs n) k
  | DRenAttr nd k k' =>
      okname k /\ okname k' /\ k <> k' /\
      forall p n, resolve rootns st nd = FOk p -> get_at (fs_tree st) p = Some n ->
                  fresh_in (xattrs n) k /\ fresh_in (xattrs n) k' /\ ahas (xattrs n) k' = false
  | _ => True
  end.

Lemma root_alive W p n : winv S W -> get_at W p = Some n -> p <> [] \/ alive_r n = true.
Proof.
  intros HW G. destruct p; [right|left; discriminate]. cbn in G. inversion G; subst. unfold alive_r. now rewrite (wi_root _ _ HW).
Qed.

(* the node at p is rewritten into n' *)
Lemma attrs_map_at W p n n' : winv S W -> atree W -> get_at W p = Some n -> atree n' -> alive_r n' = alive_r n ->
  (alive_r n = true -> ale (av n') (av n)) ->
  atree (map_at p (fun _ => n') W) /\ ale (av (map_at p (fun _ => n') W)) (av W).
Proof.
  intros HW HA G Hn' Ha Hv. split; [apply atree_map_at; assumption|].
  destruct (ale_map_at W p n n' G Ha Hv) as [_ H]. apply H. eapply root_alive; eauto.
Qed.

(* the attributes of the node at p change *)
Lemma node_attrs_step W p n a' : winv S W -> atree W -> get_at W p = Some n -> aok (with_attrs n a') ->
  aget a' INSERT_NAME = aget (xattrs n) INSERT_NAME ->
  Forall2 attr_r (sort_attrs (old_attrs a')) (sort_attrs (old_attrs (xattrs n))) ->
  atree (map_at p (fun _ => with_attrs n a') W) /\ ale (av (map_at p (fun _ => with_attrs n a') W)) (av W).
Proof.
  intros HW HA G Hok Hins Hrel. pose proof (atree_get _ _ _ HA G) as Hn. apply atree_iff in Hn as [_ Hk].
  apply (attrs_map_at W p n _ HW HA G).
  - apply atree_iff. split; [exact Hok|destruct n; exact Hk].
  - unfold alive_r, is_inserted, ahas. destruct n. cbn [with_attrs xattrs] in *. now rewrite Hins.
  - intros _. apply ale_node; [destruct n; exact Hrel|destruct n; apply Forall2_refl_ale].
Qed.

Lemma mark_step W p n K v : winv S W -> atree W -> get_at W p = Some n -> is_mark K -> K <> INSERT_NAME ->
  atree (map_at p (fun _ => with_attrs n (aput (xattrs n) K v)) W) /\
  ale (av (map_at p (fun _ => with_attrs n (aput (xattrs n) K v)) W)) (av W).
Proof.
  intros HW HA G HK Hne. pose proof (atree_get _ _ _ HA G) as Hn. apply atree_iff in Hn as [Hok _].
  destruct (aok_mark n K v Hok HK) as [H1 H2].
  apply (node_attrs_step W p n _ HW HA G H1).
  - apply aget_aput_other. congruence.
  - rewrite H2. apply Forall2_refl_attr.
Qed.
End StepAttrs.

Section StepAttrs2.
Variable S : pstate.
Variable c : cfg.
Variable o : oracle.
Variable rootns : list (option str * str).

Lemma mark_delete : is_mark DELETE_NAME /\ DELETE_NAME <> INSERT_NAME.
Proof. split; [left; reflexivity|]. intros E. apply dname_inj in E. discriminate. Qed.
Lemma mark_rename : is_mark RENAME_NAME /\ RENAME_NAME <> INSERT_NAME.
Proof. split; [right; right; reflexivity|]. intros E. apply dname_inj in E. discriminate. Qed.

(* a node whose attributes and liveness are untouched, children possibly gaining a dead one *)
Lemma same_attrs_step W p n n' : winv S W -> atree W -> get_at W p = Some n ->
  xattrs n' = xattrs n -> Forall atree (xkids n') ->
  map av (filter alive_r (xkids n')) = map av (filter alive_r (xkids n)) ->
  atree (map_at p (fun _ => n') W) /\ ale (av (map_at p (fun _ => n') W)) (av W).
Proof.
  intros HW HA G Ea Hk Ek. pose proof (atree_get _ _ _ HA G) as Hn. apply atree_iff in Hn as [Hok _].
  apply (attrs_map_at S W p n n' HW HA G).
  - apply atree_iff. split; [unfold aok in *; rewrite Ea; exact Hok|exact Hk].
  - unfold alive_r, is_inserted. now rewrite Ea.
  - intros _. apply ale_node; [rewrite Ea; apply Forall2_refl_attr|rewrite Ek; apply Forall2_refl_ale].
Qed.

Theorem step_attrs st d st' :
  winv S (fs_tree st) -> atree (fs_tree st) -> step_ok_attr rootns st d ->
  handle_d c o rootns st d = FOk st' ->
  atree (fs_tree st') /\ ale (av (fs_tree st')) (av (fs_tree st)).
Proof.
  intros HW HA Hok H. destruct d; cbn [handle_d step_ok_attr] in *.
  - (* DeleteNode *)
    unfold handle_DeleteNode in H. apply fbind_ok in H as (p & Ep & H).
    apply upd_node_inv in H as (n & n' & G & E & ->). inversion E; subst n'. cbn [fs_tree].
    destruct mark_delete as [M1 M2]. exact (mark_step S _ p n DELETE_NAME [] HW HA G M1 M2).
  - (* InsertNode *)
    unfold handle_InsertNode in H. apply fbind_ok in H as (p & Ep & H).
    apply upd_node_inv in H as (n & n' & G & E & ->). inversion E; subst n'. cbn [fs_tree].
    pose proof (atree_get _ _ _ HA G) as Hn. apply atree_iff in Hn as [_ Hk].
    apply (same_attrs_step _ p n _ HW HA G); [destruct n; reflexivity| |].
    + destruct n as [a1 a2 a3 a4 a5]. unfold h_InsertNode. cbn [with_kids xkids] in *.
      apply Forall_insert_kid; [exact Hk|]. apply atree_iff. split; [apply aok_new|constructor].
    + destruct n as [a1 a2 a3 a4 a5]. unfold h_InsertNode. cbn [with_kids xkids].
      now rewrite (filter_insert_kid_dead alive_r a5 _ (XNode tag [(INSERT_NAME, [])] None [] []) eq_refl).
  - (* RenameNode *)
    unfold handle_RenameNode in H. apply fbind_ok in H as (p & Ep & H).
    apply upd_node_inv in H as (n & n' & G & E & ->). inversion E; subst n'. cbn [fs_tree].
    destruct mark_rename as [M1 M2]. destruct (mark_step S _ p n RENAME_NAME (xtag n) HW HA G M1 M2) as [A1 A2].
    pose proof (atree_get _ _ _ HA G) as Hn. apply atree_iff in Hn as [Hokn Hk].
    destruct (aok_mark n RENAME_NAME (xtag n) Hokn M1) as [B1 B2].
    apply (attrs_map_at S _ p n _ HW HA G).
    + apply atree_iff. unfold h_RenameNode. split; [destruct n; exact B1|destruct n; exact Hk].
    + unfold alive_r, is_inserted, ahas, h_RenameNode. destruct n. cbn [with_tag with_attrs xattrs xtag].
      rewrite aget_aput_other by (intros E0; apply dname_inj in E0; discriminate). reflexivity.
    + intros _. apply ale_node; [|destruct n; apply Forall2_refl_ale].
      unfold h_RenameNode. destruct n. cbn [with_tag with_attrs xattrs xtag] in *. rewrite B2. apply Forall2_refl_attr.
  - (* MoveNode *)
    unfold handle_MoveNode in H. apply fbind_ok in H as (pn & Epn & H).
    unfold node_at in H. destruct (get_at (fs_tree st) pn) as [copy|] eqn:Gn; [|discriminate]. cbn [fbind] in H.
    apply fbind_ok in H as (pt & Ept & H).
    set (t1 := map_at pn delete_node (fs_tree st)) in *.
    destruct (get_at t1 pt) as [tgn|] eqn:Gt; [|discriminate]. cbn [fbind] in H. inversion H; subst st'. clear H. cbn [fs_tree].
    destruct mark_delete as [M1 M2].
    assert (E1 : t1 = map_at pn (fun _ => with_attrs copy (aput (xattrs copy) DELETE_NAME [])) (fs_tree st)).
    { unfold t1. apply map_at_ext. intros n0 Hn0. rewrite Gn in Hn0. inversion Hn0; subst. reflexivity. }
    destruct (mark_step S _ pn copy DELETE_NAME [] HW HA Gn M1 M2) as [A1 V1]. rewrite <- E1 in A1, V1.
    (* t1 keeps winv S *)
    assert (HW1 : winv S t1).
    { rewrite E1. destruct (attrs_step S false _ pn copy _ HW Gn (same_marks_delete (xattrs copy))) as [I _]. exact I. }
    set (ins := with_attrs copy (aput (xattrs copy) INSERT_NAME [])).
    set (real := real_insert_position (xkids tgn) pos).
    rewrite (map_at_ext pt _ (fun _ => with_kids tgn (insert_kid real ins (xkids tgn))) t1) by (intros n0 Hn0; congruence).
    pose proof (atree_get _ _ _ HA Gn) as Hcp. apply atree_iff in Hcp as [Hcok Hck].
    pose proof (atree_get _ _ _ A1 Gt) as Htg. apply atree_iff in Htg as [_ Htk].
    assert (Hdead : alive_r ins = false).
    { unfold ins, alive_r, is_inserted, ahas. destruct copy. cbn [with_attrs xattrs]. now rewrite aget_aput, streqb_refl. }
    destruct (same_attrs_step t1 pt tgn (with_kids tgn (insert_kid real ins (xkids tgn))) HW1 A1 Gt) as [A2 V2].
    + destruct tgn; reflexivity.
    + destruct tgn as [g1 g2 g3 g4 g5]. cbn [with_kids xkids] in *. apply Forall_insert_kid; [exact Htk|].
      apply atree_iff. destruct (aok_mark copy INSERT_NAME [] Hcok ltac:(right; left; reflexivity)) as [B1 _].
      split; [exact B1|destruct copy; exact Hck].
    + destruct tgn as [g1 g2 g3 g4 g5]. cbn [with_kids xkids]. now rewrite (filter_insert_kid_dead alive_r g5 _ ins Hdead).
    + split; [exact A2|]. eapply xle_trans; eassumption.
  - (* UpdateTextIn *)
    unfold handle_UpdateTextIn in H. apply fbind_ok in H as (p & Ep & H).
    unfold node_at in H. destruct (get_at (fs_tree st) p) as [n|] eqn:G; [|discriminate]. cbn [fbind] in H.
    pose proof (atree_get _ _ _ HA G) as Hn. apply atree_iff in Hn as [_ Hk].
    assert (Hw : forall x, atree (map_at p (fun n0 => with_text n0 x) (fs_tree st)) /\
                           ale (av (map_at p (fun n0 => with_text n0 x) (fs_tree st))) (av (fs_tree st))).
    { intros x. rewrite (map_at_ext p _ (fun _ => with_text n x)) by (intros n0 Hn0; congruence).
      apply (same_attrs_step _ p n _ HW HA G); destruct n; auto. }
    destruct (is_inserted n); [inversion H; subst st'; apply Hw|].
    apply fbind_ok in H as ([[s' out] any] & Em & H). inversion H; subst st'. apply Hw.
  - (* UpdateTextAfter *)
    unfold handle_UpdateTextAfter in H. apply fbind_ok in H as (p & Ep & H).
    unfold node_at in H. destruct (get_at (fs_tree st) p) as [n|] eqn:G; [|discriminate]. cbn [fbind] in H.
    pose proof (atree_get _ _ _ HA G) as Hn. apply atree_iff in Hn as [_ Hk].
    assert (Hres : exists g : xtree -> xtree, fs_tree st' = map_at p g (fs_tree st) /\
                     forall x, xattrs (g x) = xattrs x /\ xkids (g x) = xkids x).
    { destruct p; apply fbind_ok in H as ([[s' out] any] & Em & H); inversion H; subst st'; cbn [fs_tree].
      - exists (fun n0 => with_tail (with_text n0 (if any then Some (otxt (xtext n0) ++ out) else xtext n0)) []).
        split; [reflexivity|]. intros x; destruct x; cbn; auto.
      - exists (fun n0 => with_tail n0 out). split; [reflexivity|]. intros x; destruct x; cbn; auto. }
    destruct Hres as (g & -> & Hg). rewrite (map_at_ext p _ (fun _ => g n)) by (intros n0 Hn0; congruence).
    destruct (Hg n) as [G1 G2]. apply (same_attrs_step _ p n _ HW HA G); [exact G1|rewrite G2; exact Hk|now rewrite G2].
  - (* UpdateAttrib *)
    destruct Hok as (Hk & Hv & Hfr).
    unfold handle_UpdateAttrib in H. apply fbind_ok in H as (p & Ep & H).
    apply upd_node_inv in H as (n & n' & G & E & ->). unfold h_UpdateAttrib in E.
    destruct (aget (xattrs n) k) as [ov|] eqn:Eg; [|discriminate]. inversion E; subst n'. cbn [fs_tree].
    pose proof (atree_get _ _ _ HA G) as Hn. apply atree_iff in Hn as [(D & A & Rn & U & Han) _].
    destruct (h_update_ann _ D A Rn U Han k v ov Hk Hv (ann_fresh _ _ _ _ _ k Han (Hfr p n Ep G)) Eg) as [Han' Hw].
    apply (node_attrs_step S _ p n _ HW HA G).
    + exists D, A, Rn, (U ++ [(k, ov)]). destruct n; exact Han'.
    + rewrite extend_get by (apply attr_suffix_neq; auto). apply aget_aput_other.
      intros E0; symmetry in E0; revert E0; apply plain_name_neq, Hk.
    + apply wmap_sorted; [rewrite (ann_old _ _ _ _ _ Han'); apply nodup_undo, (an_nd _ _ _ _ _ Han')|
                          rewrite (ann_old _ _ _ _ _ Han); apply nodup_undo, (an_nd _ _ _ _ _ Han)|exact Hw].
  - (* DeleteAttrib *)
    destruct Hok as (Hk & Hfr).
    unfold handle_DeleteAttrib in H. apply fbind_ok in H as (p & Ep & H).
    apply upd_node_inv in H as (n & n' & G & E & ->). unfold h_DeleteAttrib in E.
    destruct (ahas (xattrs n) k) eqn:Eh; [|discriminate]. inversion E; subst n'. cbn [fs_tree].
    pose proof (atree_get _ _ _ HA G) as Hn. apply atree_iff in Hn as [(D & A & Rn & U & Han) _].
    destruct (h_delete_ann _ D A Rn U Han k Hk (ann_fresh _ _ _ _ _ k Han (Hfr p n Ep G)) Eh) as [Han' Hw].
    apply (node_attrs_step S _ p n _ HW HA G).
    + exists (D ++ [k]), A, Rn, U. destruct n; exact Han'.
    + rewrite extend_get by (apply attr_suffix_neq; auto). apply aget_adel_other.
      intros E0; symmetry in E0; revert E0; apply plain_name_neq, Hk.
    + apply wmap_sorted; [rewrite (ann_old _ _ _ _ _ Han'); apply nodup_undo, (an_nd _ _ _ _ _ Han')|
                          rewrite (ann_old _ _ _ _ _ Han); apply nodup_undo, (an_nd _ _ _ _ _ Han)|exact Hw].
  - (* InsertAttrib *)
    destruct Hok as (Hk & Hv & Hfr).
    unfold handle_InsertAttrib in H. apply fbind_ok in H as (p & Ep & H).
    apply upd_node_inv in H as (n & n' & G & E & ->). unfold h_InsertAttrib in E. inversion E; subst n'. cbn [fs_tree].
    pose proof (atree_get _ _ _ HA G) as Hn. apply atree_iff in Hn as [(D & A & Rn & U & Han) _].
    destruct (Hfr p n Ep G) as [Hf Hno].
    destruct (h_insert_ann _ D A Rn U Han k v Hk Hv (ann_fresh _ _ _ _ _ k Han Hf) Hno) as [Han' Hw].
    apply (node_attrs_step S _ p n _ HW HA G).
    + exists D, (A ++ [k]), Rn, U. destruct n; exact Han'.
    + rewrite extend_get by (apply attr_suffix_neq; auto). apply aget_aput_other.
      intros E0; symmetry in E0; revert E0; apply plain_name_neq, Hk.
    + apply wmap_sorted; [rewrite (ann_old _ _ _ _ _ Han'); apply nodup_undo, (an_nd _ _ _ _ _ Han')|
                          rewrite (ann_old _ _ _ _ _ Han); apply nodup_undo, (an_nd _ _ _ _ _ Han)|exact Hw].
  - (* RenameAttrib *)
    destruct Hok as (Hk & Hk' & Hne & Hfr).
    unfold handle_RenameAttrib in H. apply fbind_ok in H as (p & Ep & H).
    apply upd_node_inv in H as (n & n' & G & E & ->). unfold h_RenameAttrib in E.
    destruct (aget (xattrs n) k) as [v|] eqn:Eg; [|discriminate]. inversion E; subst n'. cbn [fs_tree].
    pose proof (atree_get _ _ _ HA G) as Hn. apply atree_iff in Hn as [(D & A & Rn & U & Han) _].
    destruct (Hfr p n Ep G) as (Hf & Hf' & Hno).
    destruct (h_rename_ann _ D A Rn U Han k k' v Hk Hk' Hne (ann_fresh _ _ _ _ _ k Han Hf) (ann_fresh _ _ _ _ _ k' Han Hf') Eg Hno) as [Han' Hw].
    apply (node_attrs_step S _ p n _ HW HA G).
    + exists D, A, (Rn ++ [(k, k')]), U. destruct n; exact Han'.
    + rewrite extend_get by (apply attr_suffix_neq; auto). rewrite aget_adel_other, aget_aput_other; [reflexivity| |];
        intros E0; symmetry in E0; revert E0; apply plain_name_neq; [apply Hk'|apply Hk].
    + apply wmap_sorted; [rewrite (ann_old _ _ _ _ _ Han'); apply nodup_undo, (an_nd _ _ _ _ _ Han')|
                          rewrite (ann_old _ _ _ _ _ Han); apply nodup_undo, (an_nd _ _ _ _ _ Han)|exact Hw].
  - unfold handle_InsertNamespace in H. inversion H; subst st'. cbn [fs_tree]. split; [exact HA|apply xle_refl].
  - inversion H; subst st'. split; [exact HA|apply xle_refl].
Qed.
End StepAttrs2.

(* ------------------------------------------------------------------ *)
(** * Along a script, and the final statement with attributes *)

Section ScriptAttrs.
Variable c : cfg.
Variable o : oracle.
Variable rootns : list (option str * str).

Fixpoint run_ok_attr (st : fstate) (script : list gaction) : Prop :=
  match script with
  | [] => True
  | a :: r =>
      match decode a with
      | FOk d => step_ok_attr rootns st d /\ forall st', handle_d c o rootns st d = FOk st' -> run_ok_attr st' r
      | FErr _ => True
      end
  end.

Theorem handle_all_attrs S script : tinv S -> forall st st',
  winv S (fs_tree st) -> atree (fs_tree st) -> tinv (fs_ph st) ->
  run_ok c o rootns st script -> run_ok_attr st script ->
  handle_all c o rootns st script = FOk st' -> sext (fs_ph st') S ->
  atree (fs_tree st') /\ ale (av (fs_tree st')) (av (fs_tree st)).
Proof.
  intros HS. induction script as [|a r IH]; intros st st' HW HA Hph Hok Hoa H HX; cbn [handle_all] in H.
  - inversion H; subst. split; [exact HA|apply xle_refl].
  - apply fbind_ok in H as (st1 & E1 & H). rewrite handle_action_decode in E1.
    cbn [run_ok run_ok_attr] in Hok, Hoa. destruct (decode a) as [d|e]; [|discriminate]. cbn [fbind] in E1.
    destruct Hok as (Hs & Hroom & Hr). destruct Hoa as [Hsa Hra].
    destruct (step_ph c o rootns st d st1 Hph Hs Hroom E1) as [P1 X1].
    destruct (handle_all_ph c o rootns r st1 st' P1 (Hr st1 E1) H) as [P2 X2].
    destruct (step_reject S HS c o rootns st d st1 HW Hph (sext_trans _ _ _ X2 HX) Hs Hroom E1) as (I1 & _ & _).
    destruct (step_attrs S c o rootns st d st1 HW HA Hsa E1) as (A1 & V1).
    destruct (IH st1 st' I1 A1 P1 (Hr st1 E1) (Hra st1 E1) H HX) as (A2 & V2).
    split; [exact A2|eapply xle_trans; eassumption].
Qed.
End ScriptAttrs.

Lemma rw_canon S ws W :
  canon ws (rw S W) = XNode (proj_tag false W) (sort_attrs (old_attrs (xattrs W))) (Some (ntxt ws (rstr S (otxt (xtext W)))))
                          (ntxt ws (rstr S (xtail W))) (map (fun k => canon ws (rw S k)) (filter alive_r (xkids W))).
Proof. destruct W as [tag attrs text tail kids]. rewrite rw_unfold. cbn [canon xattrs xtext xtail xkids otxt]. now rewrite map_map. Qed.

(* the structure/text view and the attribute view together give the rejected tree *)
Local Opaque proj_tag.
Lemma cr_split S ws : forall W1 W2, vr S ws W1 = vr S ws W2 -> ale (av W1) (av W2) ->
  xequiv_r_aux (canon ws (rw S W1)) (canon ws (rw S W2)).
Proof.
  induction W1 as [tag attrs text tail kids IH] using Placeholder.xtree_ind2. intros W2 Hv Ha.
  rewrite !rw_canon. rewrite (vr_unfold S ws (XNode tag attrs text tail kids)), (vr_unfold S ws W2) in Hv.
  rewrite (av_unfold (XNode tag attrs text tail kids)), (av_unfold W2) in Ha.
  cbn [xtext xtail xattrs xkids] in *.
  injection Hv as Htag Htext Htail Hk. inversion Ha as [? ? ? ? ? ? ? Hattrs Hkids]; subst.
  rewrite Htag, Htext, Htail. constructor; [exact Hattrs|].
  cbn [xkids] in *.
  assert (Hin : Forall (fun k => forall W2, vr S ws k = vr S ws W2 -> ale (av k) (av W2) ->
                                  xequiv_r_aux (canon ws (rw S k)) (canon ws (rw S W2))) (filter alive_r kids)).
  { rewrite Forall_forall in *. intros k Hk0. apply filter_In in Hk0 as [Hk0 _]. apply IH, Hk0. }
  clear - Hin Hk Hkids. revert Hk Hkids Hin. generalize (filter alive_r kids) as f1. generalize (filter alive_r (xkids W2)) as f2.
  intros f2 f1. revert f2. induction f1 as [|x f1 IHf]; intros [|y f2] Hk Hkids Hin; cbn [map] in *; try discriminate; inversion Hkids; subst; constructor.
  - inversion Hin; subst. injection Hk as Hx _. auto.
  - inversion Hin; subst. injection Hk as _ Hr. apply IHf; assumption.
Qed.

Local Transparent proj_tag.

Lemma old_attrs_plain a : Forall (fun kv : str * str => is_diff_name (fst kv) = false) a -> old_attrs a = a.
Proof.
  intros H. rewrite old_attrs_undo.
  assert (N : forall K, is_diff_name K = true -> aget a K = None).
  { intros K HK. rewrite <- (XmlFmtProofs9.plain_attrs_id a H). apply aget_plain_attrs, HK. }
  destruct K_diff as (F1 & F2 & F3 & F4). fold K_del K_add K_ren K_upd. rewrite !N by assumption.
  cbn. apply XmlFmtProofs9.plain_attrs_id, H.
Qed.

Lemma rw_plain_canon S ws : tinv S -> forall L, XmlFmtProofs9.nodiff L -> PlaceholderUndo.npua L = true -> canon ws (rw S L) = canon ws L.
Proof.
  intros HS.
  induction L as [tag attrs text tail kids IH] using Placeholder.xtree_ind2.
  intros HN HP. inversion HN as [? ? ? ? ? Ha Hk]; subst.
  cbn [PlaceholderUndo.npua] in HP. apply andb_true_iff in HP as [HP Hpk]. apply andb_true_iff in HP as [Ht Htl].
  rewrite rw_canon. cbn [canon xattrs xtext xtail xkids proj_tag xtag].
  assert (Hr : aget attrs (dn l_rename) = None).
  { rewrite <- (XmlFmtProofs9.plain_attrs_id attrs Ha). apply aget_plain_attrs, prefixb_app. }
  rewrite Hr, (old_attrs_plain attrs Ha), (rstr_plain S HS _ Ht), (rstr_plain S HS _ Htl). f_equal.
  assert (Hf : filter alive_r kids = kids).
  { apply XmlFmtProofs9.filter_all. intros k Hin. rewrite Forall_forall in Hk. specialize (Hk k Hin). inversion Hk as [? ka ? ? ? Hka _]; subst.
    unfold alive_r, is_inserted, ahas. cbn [xattrs]. rewrite <- (XmlFmtProofs9.plain_attrs_id ka Hka), aget_plain_attrs; [reflexivity|apply is_diff_dname]. }
  rewrite Hf. apply map_ext_in. intros k Hin. rewrite Forall_forall in IH, Hk. rewrite forallb_forall in Hpk. apply IH; auto.
Qed.

Lemma xle_drop a b : xequiv_r_aux a b -> xequiv_r_aux (drop_root_tail a) (drop_root_tail b).
Proof. intros H. inversion H; subst. constructor; assumption. Qed.

(* plain documents satisfy the annotation invariant *)
Definition vals_ok (a : attrs) : Prop := NoDup (map fst a) /\ Forall (fun kv => vsimple (snd kv)) a.
Inductive attrs_ok : xtree -> Prop :=
| AO tag a text tail kids : vals_ok a -> Forall attrs_ok kids -> attrs_ok (XNode tag a text tail kids).

Lemma atree_init : forall L, XmlFmtProofs9.nodiff L -> attrs_ok L -> atree L.
Proof.
  induction L as [tag a text tail kids IH] using Placeholder.xtree_ind2. intros HN HO.
  inversion HN as [? ? ? ? ? Ha Hk]; subst. inversion HO as [? ? ? ? ? [Hnd Hv] Hko]; subst.
  apply atree_iff. split.
  - exists [], [], [], []. cbn [xattrs].
    assert (N : forall K, is_diff_name K = true -> aget a K = None).
    { intros K HK. rewrite <- (XmlFmtProofs9.plain_attrs_id a Ha). apply aget_plain_attrs, HK. }
    destruct K_diff as (F1 & F2 & F3 & F4).
    constructor; try (rewrite N by assumption; reflexivity); try constructor;
      rewrite (XmlFmtProofs9.plain_attrs_id a Ha); assumption.
  - cbn [xkids]. rewrite Forall_forall in *. intros k Hin. apply IH; auto.
Qed.

(* C10 with attributes *)
Theorem reject_format_attrs c o rootns script L T :
  PlaceholderUndo.npua L = true -> clean_tags L -> XmlFmtProofs9.nodiff L -> attrs_ok L ->
  run_ok c o rootns (FS L ph_init [(Some DIFF_PREFIX, DIFF_NS)]) script ->
  run_ok_attr c o rootns (FS L ph_init [(Some DIFF_PREFIX, DIFF_NS)]) script ->
  xml_format c o rootns ph_init script L = FOk T ->
  xequiv_r (ws_text c) (reject T) L.
Proof.
  intros HP HC HN HO Hok Hoa H. unfold xml_format in H. apply fbind_ok in H as (st & E & H).
  pose proof (XmlFmtProofs9.nodiff_unmarked L HN) as HU.
  destruct (handle_all_ph c o rootns script (FS L ph_init [(Some DIFF_PREFIX, DIFF_NS)]) st tinv_init Hok E) as [HS _].
  set (S := fs_ph st) in *.
  assert (HW : winv S L).
  { split; [apply npua_run_tree, HP|exact HC| |].
    - destruct L. cbn [PlaceholderUndo.npua] in HP. apply andb_true_iff in HP as [HP _]. apply andb_true_iff in HP as [_ HP]. exact HP.
    - inversion HU; subst. unfold is_inserted, ahas. cbn [xattrs]. now rewrite H0. }
  destruct (handle_all_reject c o rootns S script HS (FS L ph_init [(Some DIFF_PREFIX, DIFF_NS)]) st HW tinv_init Hok E (sext_refl _)) as (I & V).
  destruct (handle_all_attrs c o rootns S script HS (FS L ph_init [(Some DIFF_PREFIX, DIFF_NS)]) st HW (atree_init L HN HO) tinv_init Hok Hoa E (sext_refl _)) as (A & VA).
  cbn [fs_tree] in V, VA.
  destruct (finalize_run S HS (fs_tree st) (wi_run _ _ I) (wi_tags _ _ I) (wi_tail _ _ I)) as (T' & F & _ & R).
  rewrite F in H. inversion H; subst T'. unfold xequiv_r.
  rewrite R, canon_drop_set_tail, !canon_drop. apply xle_drop.
  rewrite <- (rw_plain_canon S (ws_text c) HS L HN HP). apply cr_split; assumption.
Qed.

(* ------------------------------------------------------------------ *)
(** * The side conditions as a boolean run (evaluated by the harness) *)

Definition vcharb (c : N) : bool := negb (N.eqb c 59) && negb (N.eqb c 123) && negb (N.eqb c 125).
Definition ncharb (c : N) : bool := vcharb c && negb (N.eqb c 58).
Definition vsimpleb (s : str) : bool := forallb vcharb s.
Definition simpleb (s : str) : bool := forallb ncharb s.
Definition oknameb (x : str) : bool := simpleb x && match x with [] => false | _ => true end && negb (is_diff_name x).

Lemma vcharb_ok c : vcharb c = true -> vchar c.
Proof.
  unfold vcharb, vchar. intros H. apply andb_true_iff in H as [H H3]. apply andb_true_iff in H as [H1 H2].
  apply negb_true_iff in H1, H2, H3. apply N.eqb_neq in H1, H2, H3. auto.
Qed.
Lemma vsimpleb_ok s : vsimpleb s = true -> vsimple s.
Proof. unfold vsimpleb, vsimple. rewrite forallb_forall, Forall_forall. intros H c Hc. apply vcharb_ok, H, Hc. Qed.
Lemma simpleb_ok s : simpleb s = true -> simple s.
Proof.
  unfold simpleb, simple. rewrite forallb_forall, Forall_forall. intros H c Hc. specialize (H c Hc). unfold ncharb in H.
  apply andb_true_iff in H as [H1 H2]. split; [apply vcharb_ok, H1|]. apply negb_true_iff, N.eqb_neq in H2. exact H2.
Qed.
Lemma oknameb_ok x : oknameb x = true -> okname x.
Proof.
  unfold oknameb, okname. intros H. apply andb_true_iff in H as [H H3]. apply andb_true_iff in H as [H1 H2].
  split; [apply simpleb_ok, H1|]. split; [destruct x; [discriminate|discriminate]|]. apply negb_true_iff in H3. exact H3.
Qed.

Definition freshb (a : attrs) (k : str) : bool :=
  negb (smem k (names_of (aget a K_del))) && negb (smem k (names_of (aget a K_add))) &&
  forallb (fun on => negb (str_eqb k (fst on)) && negb (str_eqb k (snd on))) (pairs_of (aget a K_ren)) &&
  negb (smem k (map fst (pairs_of (aget a K_upd)))).

Lemma freshb_ok a k : freshb a k = true -> fresh_in a k.
Proof.
  unfold freshb, fresh_in, fresh. intros H. apply andb_true_iff in H as [H H4]. apply andb_true_iff in H as [H H3].
  apply andb_true_iff in H as [H1 H2]. apply negb_true_iff in H1, H2, H4.
  split; [apply smem_false, H1|]. split; [apply smem_false, H2|]. split; [|apply smem_false, H4].
  intros on Hin. rewrite forallb_forall in H3. specialize (H3 on Hin). apply andb_true_iff in H3 as [A B].
  apply negb_true_iff in A, B. split; intros E; subst; rewrite streqb_refl in *; discriminate.
Qed.

Section RunAttrB.
Variable c : cfg.
Variable o : oracle.
Variable rootns : list (option str * str).

Definition step_ok_attrb (st : fstate) (d : dact) : bool :=
  match d with
  | DUpdAttr nd k v => oknameb k && vsimpleb v && at_node rootns st nd (fun _ n => freshb (xattrs n) k)
  | DInsAttr nd k v => oknameb k && vsimpleb v &&
                       at_node rootns st nd (fun _ n => freshb (xattrs n) k && negb (ahas (xattrs n) k))
  | DDelAttr nd k => oknameb k && at_node rootns st nd (fun _ n => freshb (xattrs n) k)
  | DRenAttr nd k k' => oknameb k && oknameb k' && negb (str_eqb k k') &&
                        at_node rootns st nd (fun _ n => freshb (xattrs n) k && freshb (xattrs n) k' && negb (ahas (xattrs n) k'))
  | _ => true
  end.

Fixpoint run_ok_attrb (st : fstate) (script : list gaction) : bool :=
  match script with
  | [] => true
  | a :: r =>
      match decode a with
      | FOk d => step_ok_attrb st d && match handle_d c o rootns st d with FOk st' => run_ok_attrb st' r | FErr _ => true end
      | FErr _ => true
      end
  end.

Lemma step_ok_attrb_sound st d : step_ok_attrb st d = true -> step_ok_attr rootns st d.
Proof.
  destruct d; cbn [step_ok_attrb step_ok_attr]; intros H; try exact I.
  - apply andb_true_iff in H as [H H3]. apply andb_true_iff in H as [H1 H2].
    split; [apply oknameb_ok, H1|]. split; [apply vsimpleb_ok, H2|].
    intros p n Ep G. unfold at_node in H3. rewrite Ep, G in H3. apply freshb_ok, H3.
  - apply andb_true_iff in H as [H1 H2]. split; [apply oknameb_ok, H1|].
    intros p n Ep G. unfold at_node in H2. rewrite Ep, G in H2. apply freshb_ok, H2.
  - apply andb_true_iff in H as [H H3]. apply andb_true_iff in H as [H1 H2].
    split; [apply oknameb_ok, H1|]. split; [apply vsimpleb_ok, H2|].
    intros p n Ep G. unfold at_node in H3. rewrite Ep, G in H3. apply andb_true_iff in H3 as [A B].
    split; [apply freshb_ok, A|]. apply negb_true_iff in B. exact B.
  - apply andb_true_iff in H as [H H4]. apply andb_true_iff in H as [H H3]. apply andb_true_iff in H as [H1 H2].
    split; [apply oknameb_ok, H1|]. split; [apply oknameb_ok, H2|]. split.
    + apply negb_true_iff in H3. intros E. subst. rewrite streqb_refl in H3. discriminate.
    + intros p n Ep G. unfold at_node in H4. rewrite Ep, G in H4. apply andb_true_iff in H4 as [A C]. apply andb_true_iff in A as [A B].
      split; [apply freshb_ok, A|]. split; [apply freshb_ok, B|]. apply negb_true_iff in C. exact C.
Qed.

Lemma run_ok_attrb_sound script : forall st, run_ok_attrb st script = true -> run_ok_attr c o rootns st script.
Proof.
  induction script as [|a r IH]; intros st H; cbn [run_ok_attrb run_ok_attr] in *; [exact I|].
  destruct (decode a) as [d|e]; [|exact I]. apply andb_true_iff in H as [H1 H2].
  split; [apply step_ok_attrb_sound, H1|]. intros st' E. rewrite E in H2. apply IH, H2.
Qed.
End RunAttrB.
