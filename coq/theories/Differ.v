(* Differ.diff (xmldiff/diff.py): edit-script generation from a matching, at the
   IDENTITY level: the emitted actions name nodes by id; the rendering of ids as
   XPath strings (utils.getpath) is Path.v's business.  Model only -- no proofs.

   The model performs on its working forest W exactly the mutation the Python
   code performs on self.left. *)
From Coq Require Import List NArith ZArith Bool Arith.
Import ListNotations.
Require Import XV.Str XV.Forest XV.LCS XV.Matcher.

Inductive iact :=
| IInsert (target : id) (tag : str) (pos : nat) (newid : id)
| IInsertComment (target : id) (pos : nat) (text : option str) (newid : id)
| IMove (n target : id) (pos : nat)
| IDelete (n : id)
| IRename (n : id) (tag : str)
| IText (n : id) (t : option str)
| ITail (n : id) (t : option str)
| IUpdAttr (n : id) (k v : str)
| IInsAttr (n : id) (k v : str)
| IDelAttr (n : id) (k : str)
| IRenAttr (n : id) (k k' : str)
| IInsNs (prefix : option str) (uri : str)
| IDelNs (prefix : option str).

Definition omap := id -> option id.
Definition iset := id -> bool.

Record st := St { W : forest; l2r : omap; r2l : omap; inoL : iset; inoR : iset;
                  out : list iact; serr : bool }.

Definition emit (s : st) (a : iact) : st :=
  St (W s) (l2r s) (r2l s) (inoL s) (inoR s) (out s ++ [a]) (serr s).
Definition withW (s : st) (w : forest) : st :=
  St w (l2r s) (r2l s) (inoL s) (inoR s) (out s) (serr s).
Definition mark (s : st) (l r : id) : st :=
  St (W s) (l2r s) (r2l s) (upd (inoL s) l true) (upd (inoR s) r true) (out s) (serr s).
Definition addmatch (s : st) (l r : id) : st :=
  St (W s) (upd (l2r s) l (Some r)) (upd (r2l s) r (Some l)) (inoL s) (inoR s) (out s) (serr s).
Definition fail (s : st) : st :=
  St (W s) (l2r s) (r2l s) (inoL s) (inoR s) (out s) true.

Definition oid_eqb (a b : option id) : bool :=
  match a, b with Some x, Some y => Nat.eqb x y | None, None => true | _, _ => false end.

Section D.
Variable ignored : list str.
Variable R : forest.
Variable rootR : id.

Definition node_attribs_d (attrs : list (str * str)) : list (str * str) :=
  filter (fun kv => negb (smem (fst kv) ignored)) attrs.

Fixpoint index_of (x : id) (l : list id) : nat :=
  match l with [] => 0 | y :: r => if Nat.eqb x y then 0 else S (index_of x r) end.

(* find_pos: scan the earlier siblings backwards for one that is in order *)
Fixpoint last_inorder (ino : iset) (prefix_rev : list id) : option id :=
  match prefix_rev with
  | [] => None
  | s :: r => if ino s then Some s else last_inorder ino r
  end.

(* the counting loop of find_pos; `child not in self._l2rmap` is always true in
   the Python code (an Element is never a key of a dict keyed by id()), so every
   child other than node_match is counted *)
Fixpoint count_to (node_match : option id) (sib : id) (cs : list id) (i : nat) : nat :=
  match cs with
  | [] => i
  | c :: r => if oid_eqb (Some c) node_match then count_to node_match sib r i
              else if Nat.eqb c sib then S i
              else count_to node_match sib r (S i)
  end.

(* None = the Python code raises (KeyError / AttributeError) *)
Definition find_pos (s : st) (rnode : id) : option nat :=
  match parentof R rnode with
  | None => None
  | Some rp =>
      let sibs := kidsof R rp in
      let i := index_of rnode sibs in
      match last_inorder (inoR s) (rev (firstn i sibs)) with
      | None => Some 0
      | Some sib =>
          match r2l s sib with
          | None => None
          | Some sm =>
              match parentof (W s) sm with
              | None => None
              | Some p => Some (count_to (r2l s rnode) sm (kidsof (W s) p) 0)
              end
          end
      end
  end.

(* ----- attributes (update_node_attr) ----- *)
Definition adel (l : list (str * str)) (k : str) : list (str * str) :=
  filter (fun kv => negb (str_eqb k (fst kv))) l.
(* attrib[k] = v : replace in place or append *)
Definition aput (l : list (str * str)) (k v : str) : list (str * str) :=
  if ahas l k then map (fun kv => if str_eqb k (fst kv) then (k, v) else kv) l else l ++ [(k, v)].

(* {v: k for (k, v) in right.attrib.items() if k in new_keys}: later entries win;
   represented as an association list value -> key *)
Definition newattrmap (ritems : list (str * str)) (newk : list str) : list (str * str) :=
  fold_left (fun m kv => if smem (fst kv) newk then aput m (snd kv) (fst kv) else m) ritems [].

Definition set_attrs (s : st) (n : id) (a : list (str * str)) : st :=
  let l := labof (W s) n in withW s (set_lab (W s) n (Lab (ltag l) a (ltext l) (ltail l))).
Definition cur_attrs (s : st) (n : id) : list (str * str) := lattrs (labof (W s) n).

Definition upd_attr (s : st) (ln rn : id) : st :=
  let ra := lattrs (labof R rn) in
  let la0 := cur_attrs s ln in
  let lk := map fst (node_attribs_d la0) in
  let rk := map fst (node_attribs_d ra) in
  let newk := filter (fun k => negb (smem k lk)) rk in
  let remk := filter (fun k => negb (smem k rk)) lk in
  let comk := filter (fun k => smem k rk) lk in
  (* update *)
  let s1 := fold_left (fun s k =>
      let la := cur_attrs s ln in
      match aget la k, aget ra k with
      | Some a, Some b => if str_eqb a b then s
                          else set_attrs (emit s (IUpdAttr ln k b)) ln (aput la k b)
      | _, _ => fail s
      end) (sort_strs comk) s in
  (* rename *)
  let '(s2, newk2, _) := fold_left (fun '(s, newk, nmap) lk_ =>
      let la := cur_attrs s ln in
      match aget la lk_ with
      | None => (fail s, newk, nmap)
      | Some v =>
          match aget nmap v with
          | None => (s, newk, nmap)
          | Some rk_ => (set_attrs (emit s (IRenAttr ln lk_ rk_)) ln (adel (aput la rk_ v) lk_),
                         filter (fun k => negb (str_eqb k rk_)) newk, adel nmap v)
          end
      end) (sort_strs remk) (s1, newk, newattrmap ra newk) in
  (* insert *)
  let s3 := fold_left (fun s k =>
      match aget ra k with
      | Some b => set_attrs (emit s (IInsAttr ln k b)) ln (aput (cur_attrs s ln) k b)
      | None => fail s
      end) (sort_strs newk2) s2 in
  (* delete *)
  fold_left (fun s k =>
      let la := cur_attrs s ln in
      if ahas la k then set_attrs (emit s (IDelAttr ln k)) ln (adel la k) else s) (sort_strs remk) s3.

Definition ostr_eqb' (a b : option str) : bool := ostr_eqb a b.

(* update_node_tag; only called on matched (hence same-kind) nodes.  A comment's
   tag is the Comment function on both sides, so nothing is emitted for it. *)
Definition upd_tag (s : st) (ln rn : id) : st :=
  let l := labof (W s) ln in let r := labof R rn in
  if tag_eqb (ltag l) (ltag r) then s
  else match ltag r with
       | TElem t => withW (emit s (IRename ln t)) (set_lab (W s) ln (Lab (ltag r) (lattrs l) (ltext l) (ltail l)))
       | TComment => fail s     (* element matched with a comment: left.tag = Comment; not modelled *)
       end.

(* update_node_text: `!=` on Python values, so None and "" differ *)
Definition upd_text (s : st) (ln rn : id) : st :=
  let r := labof R rn in
  let s1 := let l := labof (W s) ln in
            if ostr_eqb (ltext l) (ltext r) then s
            else withW (emit s (IText ln (ltext r))) (set_lab (W s) ln (Lab (ltag l) (lattrs l) (ltext r) (ltail l))) in
  let l := labof (W s1) ln in
  if ostr_eqb (ltail l) (ltail r) then s1
  else withW (emit s1 (ITail ln (ltail r))) (set_lab (W s1) ln (Lab (ltag l) (lattrs l) (ltext l) (ltail r))).

(* ----- align_children ----- *)
Definition do_move (s : st) (lnode ltarget : id) (pos : nat) (rnode : id) : st :=
  let s' := emit s (IMove lnode ltarget pos) in
  mark (withW s' (insert_at (detach (W s') lnode) ltarget pos lnode)) lnode rnode.

Definition align (s : st) (ln rn : id) : st :=
  let lch := filter (fun c => match l2r s c with
                              | Some r => oid_eqb (parentof R r) (Some rn)
                              | None => false end) (kidsof (W s) ln) in
  let rch := filter (fun c => match r2l s c with
                              | Some l => oid_eqb (parentof (W s) l) (Some ln)
                              | None => false end) (kidsof R rn) in
  match lch, rch with
  | [], _ | _, [] => s
  | _, _ =>
      match lcs_seq (fun x y => oid_eqb (l2r s x) (Some y)) lch rch with
      | None => fail s
      | Some ps =>
          let s1 := fold_left (fun s p => mark s (nth_id lch (fst p)) (nth_id rch (snd p))) ps s in
          fold_left (fun s lchild =>
            if inoL s lchild then s else
            match l2r s lchild with
            | None => fail s
            | Some rchild =>
                match find_pos s rchild, parentof R rchild with
                | Some pos, Some rtarget =>
                    match r2l s rtarget with
                    | Some ltarget => do_move s lchild ltarget pos rchild
                    | None => fail s
                    end
                | _, _ => fail s
                end
            end) lch s1
      end
  end.

(* ----- main loop ----- *)
Fixpoint bfs (fuel : nat) (queue : list id) : list id :=
  match fuel with
  | O => []
  | S f => match queue with [] => [] | n :: q => n :: bfs f (q ++ kidsof R n) end
  end.

Definition visit (s : st) (rnode : id) : st :=
  let ltarget := match parentof R rnode with Some rp => r2l s rp | None => None end in
  let r := labof R rnode in
  let '(s1, lnode) :=
    match r2l s rnode with
    | None =>
        match ltarget, find_pos s rnode with
        | Some lt, Some pos =>
            let n := fnext (W s) in
            let '(act, newlab) :=
              match ltag r with
              | TComment => (IInsertComment lt pos (ltext r) n, Lab TComment [] (ltext r) None)
              | TElem t => (IInsert lt t pos n, Lab (TElem t) [] None None)
              end in
            let s' := emit s act in
            let s' := addmatch s' n rnode in
            let '(w, _) := alloc (W s') newlab in
            let s' := mark (withW s' (insert_at w lt pos n)) n rnode in
            (upd_attr s' n rnode, n)
        | _, _ => (fail s, 0)
        end
    | Some lnode =>
        let lparent := parentof (W s) lnode in
        let s' := if oid_eqb ltarget lparent then s
                  else match ltarget, find_pos s rnode with
                       | Some lt, Some pos => do_move s lnode lt pos rnode
                       | _, _ => fail s
                       end in
        (upd_attr (upd_tag s' lnode rnode) lnode rnode, lnode)
    end in
  let s2 := align s1 lnode rnode in
  match r2l s2 rnode with
  | Some ln => upd_text s2 ln rnode
  | None => fail s2
  end.

(* utils.reverse_post_order_traverse *)
Fixpoint rpost (fuel : nat) (f : forest) (n : id) : list id :=
  match fuel with
  | O => []
  | S fu => flat_map (rpost fu f) (rev (kidsof f n)) ++ [n]
  end.

(* namespace prologue; None = RuntimeError (a prefix bound to two URIs) *)
Definition nsmap := list (option str * str).
Fixpoint ns_get (m : nsmap) (k : option str) : option str :=
  match m with
  | [] => None
  | (k', v) :: r => if ostr_eqb k k' then Some v else ns_get r k
  end.
Fixpoint ns_prologue_r (lns rns : nsmap) : option (list iact) :=
  match rns with
  | [] => Some []
  | (k, v) :: r =>
      match ns_get lns k with
      | None => option_map (cons (IInsNs k v)) (ns_prologue_r lns r)
      | Some v' => if str_eqb v v' then ns_prologue_r lns r else None
      end
  end.
Definition ns_prologue (lns rns : nsmap) : option (list iact) :=
  match ns_prologue_r lns (* iterate the right map in ITS order *) rns with
  | None => None
  | Some ins => Some (ins ++ flat_map (fun kv => match ns_get rns (fst kv) with
                                                 | None => [IDelNs (fst kv)]
                                                 | Some _ => [] end) lns)
  end.

Definition init_state (L : forest) (m : list (id * id)) : st :=
  St L (fun x => option_map snd (find (fun p => Nat.eqb (fst p) x) (rev m)))
       (fun x => option_map fst (find (fun p => Nat.eqb (snd p) x) (rev m)))
       (fun _ => false) (fun _ => false) [] false.

Definition delete_phase (rootL : id) (s1 : st) : st :=
  fold_left (fun s n => match l2r s n with
                        | Some _ => s
                        | None => withW (emit s (IDelete n)) (detach (W s) n)
                        end)
            (rpost (S (fnext (W s1))) (W s1) rootL) s1.

(* Differ.diff given the matching m: the script and the final working forest *)
Definition gen_script (L : forest) (rootL : id) (m : list (id * id)) : st :=
  let s1 := fold_left visit (bfs (S (fnext R)) [rootR]) (init_state L m) in
  delete_phase rootL s1.

Definition diff_given (L : forest) (rootL : id) (lns rns : nsmap) (m : list (id * id))
  : option (list iact * forest) :=
  match ns_prologue lns rns with
  | None => None
  | Some pro =>
      let s := gen_script L rootL m in
      if serr s then None else Some (pro ++ out s, W s)
  end.

End D.
