(* DifferStateProofs.v -- proofs about the object state machines of DifferState.v
   (property C06: no history).  Every theorem is closed under the global context.

   PREMISE  shape_ok sh = true : the facts the translator reads from diff.py
     (Gen/StateShape.differ_shape) are the ones the proofs need --
       clear() resets left, right and _matches;
       match():  `if left is not None or right is not None: set_trees`, then
                 `if self._matches is not None: return self._matches`;
       diff():   `if left is not None or right is not None or not self._matches: match`.
     With upstream's guard `if not self._matches` the main theorem is FALSE
     (upstream_guard_refuted).

   DIFFER (any T M S match_fn script_fn m_empty m_is_empty; any state s, reachable or not)
     differ_diff_args      diff(l, r) = script of a fresh differ; the state afterwards
     differ_history        the same for s reachable by any history of calls
     differ_reuse_eq_fresh diff(l, r) on a used instance = main.diff_trees(l, r)
     differ_repeat_same    diff(l, r); diff(l, r) : same result twice
     differ_match_args / differ_match_cached / differ_match_then_diff / differ_set_trees_then_diff
     step_wf / run_wf      invariant of reachable states
     differ_noarg_unconsumed   diff() on a reachable state whose working copy has not been
                               consumed = script_of the documents last set
     differ_noarg_after_consumed  diff() after diff(l, r): the generator re-run on the
                               MUTATED copy and the augmented matching (history dependent)
     differ_noarg_repeat_refuted  witness: set_trees(l, r); diff(); diff() differ
     differ_no_trees        match()/diff() with nothing set: AttributeError, and match()
                            then returns [] (no exception) the second time
     differ_bad_args        match(l, None): TypeError and the instance is cleared
   PATCHER    patcher_history, patcher_reuse_eq_fresh, patcher_stale_refuted, patcher_is_dsl_patch
   FORMATTERS diff_formatter_history, old_formatter_history
   SETS       attr_iteration_order (from XV.AttrProofs.attr_set_order_independent) *)
From Coq Require Import List Bool Arith Lia Permutation String.
Import ListNotations.
Require Import XV.DifferState.

(* ====================================================================== *)
(** * guards and field lists                                               *)
(* ====================================================================== *)

Lemma gatom_eqb_eq (a b : gatom) : gatom_eqb a b = true <-> a = b.
Proof. destruct a, b; cbn; split; intros H; try reflexivity; try discriminate. Qed.

Lemma gmem_In (a : gatom) (l : list gatom) : gmem a l = true <-> In a l.
Proof.
  unfold gmem. rewrite existsb_exists. split.
  - intros (x & Hin & He). apply gatom_eqb_eq in He. subst x. exact Hin.
  - intros Hin. exists a. split; [exact Hin|]. apply gatom_eqb_eq. reflexivity.
Qed.

Definition guard_set_eqb (g expected : list gatom) : bool :=
  forallb (fun a => gmem a g) expected && forallb (fun a => gmem a expected) g.

Lemma guard_set_eqb_In (g e : list gatom) :
  guard_set_eqb g e = true -> forall a, In a g <-> In a e.
Proof.
  unfold guard_set_eqb. rewrite andb_true_iff, !forallb_forall. intros [H1 H2] a. split.
  - intros Hin. apply gmem_In. apply H2. exact Hin.
  - intros Hin. apply gmem_In. apply H1. exact Hin.
Qed.

Lemma existsb_same_set {A} (f : A -> bool) (l l' : list A) :
  (forall a, In a l <-> In a l') -> existsb f l = existsb f l'.
Proof.
  intros H. apply eq_true_iff_eq. rewrite !existsb_exists. split.
  - intros (x & Hin & Hf). exists x. split; [apply H; exact Hin|exact Hf].
  - intros (x & Hin & Hf). exists x. split; [apply H; exact Hin|exact Hf].
Qed.

(* what the proofs need of the facts read from diff.py *)
Definition shape_ok (sh : dshape) : bool :=
  fmem FLeft (sh_clear sh) && fmem FRight (sh_clear sh) && fmem FMatches (sh_clear sh)
  && guard_set_eqb (sh_match_guard sh) [left_is_not_none; right_is_not_none]
  && guard_set_eqb (sh_cache_guard sh) [matches_is_not_none]
  && guard_set_eqb (sh_diff_guard sh) [left_is_not_none; right_is_not_none; not_matches].

(* the shape of upstream xmldiff 2.6 .. 2.7 : diff() starts with `if not self._matches:` *)
Definition upstream_shape : dshape :=
  DShape [FLeft; FRight; FMatches; FL2R; FR2L; FInorder; FTextCache]
         [left_is_not_none; right_is_not_none] [matches_is_not_none] [not_matches].

(* ====================================================================== *)
(** * Differ                                                               *)
(* ====================================================================== *)
Section DifferProofs.

Variables T M S : Type.
Variable match_fn : T -> T -> M.
Variable script_fn : T -> T -> M -> S * T * M.
Variable m_empty : M.
Variable m_is_empty : M -> bool.
Variable sh : dshape.
Hypothesis Hsh : shape_ok sh = true.

Notation dstate := (dstate T M).
Notation outcome := (outcome M S).
Notation step := (step T M S match_fn script_fn m_empty m_is_empty sh).
Notation do_clear := (do_clear T M sh).
Notation do_set_trees := (do_set_trees T M sh).
Notation do_match := (do_match T M S match_fn m_empty m_is_empty sh).
Notation do_diff := (do_diff T M S match_fn script_fn m_empty m_is_empty sh).
Notation run := (run T M S match_fn script_fn m_empty m_is_empty sh).
Notation trace := (trace T M S match_fn script_fn m_empty m_is_empty sh).
Notation reachable := (reachable T M S match_fn script_fn m_empty m_is_empty sh).
Notation script_of := (script_of T M S match_fn script_fn).
Notation diff_trees := (diff_trees T M S match_fn script_fn m_empty m_is_empty sh).
Notation eval_guard := (eval_guard T M m_is_empty).
Notation truthy := (truthy M m_is_empty).

Lemma shape_parts :
  fmem FLeft (sh_clear sh) = true /\ fmem FRight (sh_clear sh) = true /\ fmem FMatches (sh_clear sh) = true
  /\ guard_set_eqb (sh_match_guard sh) [left_is_not_none; right_is_not_none] = true
  /\ guard_set_eqb (sh_cache_guard sh) [matches_is_not_none] = true
  /\ guard_set_eqb (sh_diff_guard sh) [left_is_not_none; right_is_not_none; not_matches] = true.
Proof.
  pose proof Hsh as H. unfold shape_ok in H. rewrite !andb_true_iff in H.
  destruct H as [[[[[H1 H2] H3] H4] H5] H6]. repeat split; assumption.
Qed.

Lemma clear_all (s : dstate) : do_clear s = DS None None None false.
Proof.
  destruct shape_parts as (H1 & H2 & H3 & _). unfold DifferState.do_clear.
  rewrite H1, H2, H3. reflexivity.
Qed.

Lemma match_guard_eval ol or (s : dstate) :
  eval_guard ol or s (sh_match_guard sh) = is_some ol || is_some or.
Proof.
  destruct shape_parts as (_ & _ & _ & H & _). unfold DifferState.eval_guard.
  rewrite (existsb_same_set _ _ _ (guard_set_eqb_In _ _ H)). cbn. rewrite orb_false_r. reflexivity.
Qed.

Lemma cache_guard_eval ol or (s : dstate) :
  eval_guard ol or s (sh_cache_guard sh) = is_some (d_matches s).
Proof.
  destruct shape_parts as (_ & _ & _ & _ & H & _). unfold DifferState.eval_guard.
  rewrite (existsb_same_set _ _ _ (guard_set_eqb_In _ _ H)). cbn. rewrite orb_false_r. reflexivity.
Qed.

Lemma diff_guard_eval ol or (s : dstate) :
  eval_guard ol or s (sh_diff_guard sh) = is_some ol || is_some or || negb (truthy (d_matches s)).
Proof.
  destruct shape_parts as (_ & _ & _ & _ & _ & H). unfold DifferState.eval_guard.
  rewrite (existsb_same_set _ _ _ (guard_set_eqb_In _ _ H)). cbn. rewrite orb_false_r, orb_assoc. reflexivity.
Qed.

(* ---- set_trees / match / diff WITH the two documents ---- *)

Lemma set_trees_args (s : dstate) l r :
  do_set_trees s (Some l) (Some r) = (DS (Some l) (Some r) None false, None).
Proof. unfold DifferState.do_set_trees. rewrite clear_all. reflexivity. Qed.

Lemma set_trees_bad (s : dstate) ol or :
  is_some ol && is_some or = false ->
  do_set_trees s ol or = (DS None None None false, Some ETypeError).
Proof.
  intros H. unfold DifferState.do_set_trees. rewrite clear_all.
  destruct ol, or; cbn in H; try discriminate; reflexivity.
Qed.

Theorem differ_match_args (s : dstate) l r :
  do_match s (Some l) (Some r) =
  (DS (Some l) (Some r) (Some (match_fn l r)) false, OMatches (match_fn l r)).
Proof.
  unfold DifferState.do_match. rewrite match_guard_eval. cbn [is_some orb].
  rewrite set_trees_args. rewrite cache_guard_eval. reflexivity.
Qed.

Theorem differ_diff_args (s : dstate) l r :
  do_diff s (Some l) (Some r) =
  (DS (Some (snd (fst (script_fn l r (match_fn l r))))) (Some r)
      (Some (snd (script_fn l r (match_fn l r)))) true,
   OScript (script_of l r)).
Proof.
  unfold DifferState.do_diff. rewrite diff_guard_eval. cbn [is_some orb].
  rewrite differ_match_args. cbn [d_left d_right d_matches]. unfold DifferState.script_of.
  destruct (script_fn l r (match_fn l r)) as [[sc l'] m']. reflexivity.
Qed.

(* THE history theorem, for ANY state *)
Theorem differ_diff_any_state (s : dstate) l r :
  output (step s (ODiff (Some l) (Some r))) = OScript (script_of l r).
Proof. cbn [DifferState.step]. rewrite differ_diff_args. reflexivity. Qed.

Theorem differ_history (ops : list (op T)) (s : dstate) l r :
  reachable ops s ->
  output (step s (ODiff (Some l) (Some r))) = OScript (script_of l r).
Proof. intros _. apply differ_diff_any_state. Qed.

Theorem differ_reuse_eq_fresh (s : dstate) l r :
  output (step s (ODiff (Some l) (Some r))) = diff_trees l r.
Proof. unfold DifferState.diff_trees. rewrite !differ_diff_any_state. reflexivity. Qed.

Theorem differ_repeat_same (s : dstate) l r :
  output (step (state_after (step s (ODiff (Some l) (Some r)))) (ODiff (Some l) (Some r))) =
  output (step s (ODiff (Some l) (Some r))).
Proof. rewrite !differ_diff_any_state. reflexivity. Qed.

(* every call of a history that passes both documents returns the fresh result:
   the outcomes of such a history are a function of the arguments alone *)
Theorem differ_trace_args (s : dstate) (docs : list (T * T)) :
  trace s (map (fun p => ODiff (Some (fst p)) (Some (snd p))) docs) =
  map (fun p => OScript (script_of (fst p) (snd p))) docs.
Proof.
  revert s. induction docs as [|[l r] docs IH]; intros s; [reflexivity|].
  cbn [map DifferState.trace fst snd]. rewrite differ_diff_any_state. f_equal. apply IH.
Qed.

(* ---- match(l, r), then calls WITHOUT arguments ---- *)

Theorem differ_match_cached (s : dstate) l r :
  let s1 := state_after (step s (OMatch (Some l) (Some r))) in
  output (step s (OMatch (Some l) (Some r))) = OMatches (match_fn l r) /\
  output (step s1 (OMatch None None)) = OMatches (match_fn l r) /\
  state_after (step s1 (OMatch None None)) = s1.
Proof.
  cbn [DifferState.step]. rewrite differ_match_args. cbn [state_after output fst snd].
  unfold DifferState.do_match. rewrite match_guard_eval. cbn [is_some orb].
  rewrite cache_guard_eval. cbn. auto.
Qed.

Lemma diff_noarg_ready (l r : T) (m : M) (c : bool) :
  do_diff (DS (Some l) (Some r) (Some m) c) None None =
  (DS (Some (snd (fst (script_fn l r m)))) (Some r) (Some (snd (script_fn l r m))) true,
   OScript (fst (fst (script_fn l r m)))).
Proof.
  unfold DifferState.do_diff. rewrite diff_guard_eval. cbn [is_some orb d_matches DifferState.truthy].
  destruct (m_is_empty m); cbn [negb].
  - (* `not []` : match() is called and answers from the cache *)
    unfold DifferState.do_match. rewrite match_guard_eval. cbn [is_some orb].
    rewrite cache_guard_eval. cbn [d_matches is_some d_left d_right].
    destruct (script_fn l r m) as [[sc l'] m']. reflexivity.
  - cbn [d_left d_right d_matches]. destruct (script_fn l r m) as [[sc l'] m']. reflexivity.
Qed.

Theorem differ_match_then_diff (s : dstate) l r :
  output (step (state_after (step s (OMatch (Some l) (Some r)))) (ODiff None None)) =
  OScript (script_of l r).
Proof.
  cbn [DifferState.step]. rewrite differ_match_args. cbn [state_after fst].
  rewrite diff_noarg_ready. reflexivity.
Qed.

Lemma diff_noarg_fresh_trees (l r : T) :
  do_diff (DS (Some l) (Some r) None false) None None =
  (DS (Some (snd (fst (script_fn l r (match_fn l r))))) (Some r)
      (Some (snd (script_fn l r (match_fn l r)))) true,
   OScript (script_of l r)).
Proof.
  unfold DifferState.do_diff. rewrite diff_guard_eval. cbn [is_some orb d_matches DifferState.truthy negb].
  unfold DifferState.do_match. rewrite match_guard_eval. cbn [is_some orb].
  rewrite cache_guard_eval. cbn [d_matches is_some d_left d_right d_consumed].
  unfold DifferState.script_of. destruct (script_fn l r (match_fn l r)) as [[sc l'] m']. reflexivity.
Qed.

Theorem differ_set_trees_then_diff (s : dstate) l r :
  output (step (state_after (step s (OSetTrees (Some l) (Some r)))) (ODiff None None)) =
  OScript (script_of l r).
Proof.
  cbn [DifferState.step]. rewrite set_trees_args. cbn [state_after fst].
  rewrite diff_noarg_fresh_trees. reflexivity.
Qed.

(* diff() WITHOUT arguments after diff(l, r) has consumed the working copy: the
   generator runs again, on the MUTATED copy l' and the matching state m' the
   first run left behind -- not on (l, r).  HISTORY DEPENDENT by construction;
   the property speaks about calls that pass the documents. *)
Theorem differ_noarg_after_consumed (s : dstate) l r :
  let l' := snd (fst (script_fn l r (match_fn l r))) in
  let m' := snd (script_fn l r (match_fn l r)) in
  output (step (state_after (step s (ODiff (Some l) (Some r)))) (ODiff None None)) =
  OScript (fst (fst (script_fn l' r m'))).
Proof.
  cbn zeta. cbn [DifferState.step]. rewrite differ_diff_args. cbn [state_after fst].
  rewrite diff_noarg_ready. reflexivity.
Qed.

(* ---- nothing set / bad arguments ---- *)

Theorem differ_no_trees :
  (* match() on a new instance raises ... *)
  step d_init (OMatch None None) = (DS None None (Some m_empty) false, OError EAttributeError) /\
  (* ... but leaves _matches == [] behind, so the SAME call then returns [] *)
  step (DS None None (Some m_empty) false) (OMatch None None) =
    (DS None None (Some m_empty) false, OMatches m_empty) /\
  (* diff() on a new instance raises, and keeps raising *)
  step d_init (ODiff None None) = (DS None None (Some m_empty) false, OError EAttributeError) /\
  step (DS None None (Some m_empty) false) (ODiff None None) =
    (DS None None (Some m_empty) false, OError EAttributeError).
Proof.
  cbn [DifferState.step]. unfold DifferState.do_diff, DifferState.do_match.
  rewrite !diff_guard_eval, !match_guard_eval. cbn [is_some orb d_init d_matches DifferState.truthy negb].
  rewrite !cache_guard_eval. cbn [d_matches is_some d_left d_right d_consumed].
  repeat split.
  destruct (m_is_empty m_empty); reflexivity.
Qed.

(* "repeating the call gives the identical result" fails for match() without
   documents on a new instance: an exception, then a list *)
Theorem differ_match_noarg_repeat_refuted :
  output (step d_init (OMatch None None)) <>
  output (step (state_after (step d_init (OMatch None None))) (OMatch None None)).
Proof.
  destruct differ_no_trees as (H1 & H2 & _). rewrite H1. cbn [state_after output fst snd].
  rewrite H2. cbn. discriminate.
Qed.

Theorem differ_bad_args (s : dstate) ol or :
  is_some ol && is_some or = false -> is_some ol || is_some or = true ->
  step s (OMatch ol or) = (DS None None None false, OError ETypeError) /\
  step s (ODiff ol or) = (DS None None None false, OError ETypeError) /\
  step s (OSetTrees ol or) = (DS None None None false, OError ETypeError).
Proof.
  intros Hand Hor. cbn [DifferState.step]. unfold DifferState.do_diff, DifferState.do_match.
  rewrite diff_guard_eval, match_guard_eval, Hor. cbn [orb].
  rewrite (set_trees_bad s ol or Hand). auto.
Qed.

(* ---- invariant of reachable states ---- *)

(* left/right are set together; while the working copy has not been consumed
   the cached matching, if any, is the one of the two documents; with no trees
   the cache is absent or the empty list a failed match() left behind *)
Definition wf (s : dstate) : Prop :=
  match d_left s, d_right s with
  | Some l, Some r =>
      d_consumed s = false -> d_matches s = None \/ d_matches s = Some (match_fn l r)
  | None, None =>
      d_consumed s = false /\ (d_matches s = None \/ d_matches s = Some m_empty)
  | _, _ => False
  end.

Lemma wf_init : wf d_init.
Proof. cbn. auto. Qed.

Lemma wf_cleared : wf (DS None None None false).
Proof. cbn. auto. Qed.

Lemma do_match_wf (s : dstate) ol or : wf s -> wf (fst (do_match s ol or)).
Proof.
  intros Hwf. destruct (is_some ol || is_some or) eqn:Hor.
  - destruct (is_some ol && is_some or) eqn:Hand.
    + destruct ol as [l|], or as [r|]; try discriminate. rewrite differ_match_args. cbn. auto.
    + destruct (differ_bad_args s ol or Hand Hor) as (H & _). cbn [DifferState.step] in H.
      rewrite H. exact wf_cleared.
  - unfold DifferState.do_match. rewrite match_guard_eval, Hor, cache_guard_eval.
    destruct s as [sl sr sm sc]. cbn [d_matches d_left d_right d_consumed].
    destruct sm as [m|]; cbn [is_some fst]; [exact Hwf|].
    unfold wf in *. cbn [d_left d_right d_matches d_consumed] in *.
    destruct sl as [l|], sr as [r|]; cbn [fst d_left d_right d_matches d_consumed]; try contradiction.
    + auto.
    + destruct Hwf as [Hc _]. auto.
Qed.

Lemma do_diff_wf (s : dstate) ol or : wf s -> wf (fst (do_diff s ol or)).
Proof.
  intros Hwf. unfold DifferState.do_diff.
  destruct (eval_guard ol or s (sh_diff_guard sh)).
  - pose proof (do_match_wf s ol or Hwf) as Hm.
    destruct (do_match s ol or) as [s1 o1]. cbn [fst] in Hm.
    assert (Hgen : wf (fst (match d_right s1, d_left s1, d_matches s1 with
                            | Some r, Some l, Some m =>
                                let '(sc, l', m') := script_fn l r m in
                                (DS (Some l') (Some r) (Some m') true, OScript sc)
                            | _, _, _ => (s1, @OError M S EAttributeError)
                            end))).
    { destruct (d_right s1) as [r|]; [|exact Hm]. destruct (d_left s1) as [l|]; [|exact Hm].
      destruct (d_matches s1) as [m|]; [|exact Hm].
      destruct (script_fn l r m) as [[sc l'] m']. cbn. intros; discriminate. }
    destruct o1; try exact Hgen. exact Hm.
  - destruct s as [[l|] [r|] [m|] c]; cbn [d_left d_right d_matches fst]; try exact Hwf.
    destruct (script_fn l r m) as [[sc l'] m']. cbn. intros; discriminate.
Qed.

Theorem step_wf (s : dstate) (o : op T) : wf s -> wf (state_after (step s o)).
Proof.
  intros Hwf. destruct o as [|ol or|ol or|ol or]; cbn [DifferState.step].
  - rewrite clear_all. exact wf_cleared.
  - destruct (is_some ol && is_some or) eqn:Hand.
    + destruct ol as [l|], or as [r|]; try discriminate. rewrite set_trees_args. cbn. auto.
    + rewrite (set_trees_bad s ol or Hand). exact wf_cleared.
  - apply do_match_wf, Hwf.
  - apply do_diff_wf, Hwf.
Qed.

Theorem run_wf (ops : list (op T)) (s : dstate) : wf s -> wf (run s ops).
Proof.
  revert s. induction ops as [|o ops IH]; intros s Hwf; [exact Hwf|].
  cbn. apply IH, step_wf, Hwf.
Qed.

(* diff() without arguments is history independent exactly as long as no diff
   generator has consumed the working copy since the documents were set *)
Theorem differ_noarg_unconsumed (ops : list (op T)) (s : dstate) l r :
  reachable ops s -> d_left s = Some l -> d_right s = Some r -> d_consumed s = false ->
  output (step s (ODiff None None)) = OScript (script_of l r).
Proof.
  intros Hr El Er Ec. pose proof (run_wf ops d_init wf_init) as Hwf.
  unfold DifferState.reachable in Hr. rewrite <- Hr in Hwf. clear Hr.
  destruct s as [sl sr sm sc]. cbn in El, Er, Ec. subst sl sr sc.
  unfold wf in Hwf. cbn [d_left d_right d_matches d_consumed] in Hwf.
  cbn [DifferState.step]. destruct (Hwf eq_refl) as [Hm|Hm]; subst sm.
  - rewrite diff_noarg_fresh_trees. reflexivity.
  - rewrite diff_noarg_ready. reflexivity.
Qed.

End DifferProofs.

(* ====================================================================== *)
(** * A toy instantiation (for the refutation witnesses and the example)    *)
(* ====================================================================== *)

(* documents: tag, attributes, children *)
Inductive toy_tree := TN (tag : string) (attrs : list (string * string)) (kids : list toy_tree).

Fixpoint toy_show (t : toy_tree) : string :=
  match t with
  | TN tag attrs kids =>
      ("<" ++ tag ++ concat "" (map (fun kv => " " ++ fst kv ++ "='" ++ snd kv ++ "'") attrs) ++ ">"
       ++ concat "" (map toy_show kids) ++ "</" ++ tag ++ ">")%string
  end.

Definition toy_eqb (a b : toy_tree) : bool := String.eqb (toy_show a) (toy_show b).

(* matching state: the number of matched pairs (0 = the empty list) *)
Definition toy_match (l r : toy_tree) : nat := 1.
(* the "script": nothing when the working copy already equals the right tree,
   else one action replacing it; the working copy becomes the right tree and
   one more pair is recorded *)
Definition toy_script (l r : toy_tree) (m : nat) : list string * toy_tree * nat :=
  if toy_eqb l r then ([], l, m) else (["replace-by " ++ toy_show r]%string, r, Datatypes.S m).

Definition toy_step sh := step toy_tree nat (list string) toy_match toy_script 0 (Nat.eqb 0) sh.
Definition toy_trace sh := trace toy_tree nat (list string) toy_match toy_script 0 (Nat.eqb 0) sh.
Definition toy_script_of := script_of toy_tree nat (list string) toy_match toy_script.

Definition good_shape : dshape :=
  DShape [FLeft; FRight; FMatches; FL2R; FR2L; FInorder; FTextCache]
         [left_is_not_none; right_is_not_none] [matches_is_not_none]
         [left_is_not_none; right_is_not_none; not_matches].

Definition t_ab := TN "a" [] [TN "b" [] []].       (* <a><b/></a> *)
Definition t_ac := TN "a" [] [TN "c" [] []].       (* <a><c/></a> *)
Definition t_a := TN "a" [] [].                    (* <a/> *)
Definition t_ax := TN "a" [("x", "1")%string] [].  (* <a x="1"/> *)

(* "repeating the call" fails for diff() WITHOUT arguments: set_trees(l, r);
   diff() gives the script, diff() again runs on the consumed copy *)
Theorem differ_noarg_repeat_refuted :
  let s0 := state_after (toy_step good_shape d_init (OSetTrees (Some t_ab) (Some t_ac))) in
  let s1 := state_after (toy_step good_shape s0 (ODiff None None)) in
  shape_ok good_shape = true /\
  output (toy_step good_shape s0 (ODiff None None)) = OScript (toy_script_of t_ab t_ac) /\
  output (toy_step good_shape s1 (ODiff None None)) = OScript [] /\
  toy_script_of t_ab t_ac <> [].
Proof. vm_compute. repeat split; discriminate. Qed.

(* with upstream's guard (`if not self._matches:`) the history theorem is false:
   the second diff(l2, r2) on a reused differ ignores its arguments *)
Theorem upstream_guard_refuted :
  shape_ok upstream_shape = false /\
  let s1 := state_after (toy_step upstream_shape d_init (ODiff (Some t_ab) (Some t_ac))) in
  output (toy_step upstream_shape s1 (ODiff (Some t_a) (Some t_ax))) = OScript [] /\
  output (toy_step upstream_shape s1 (ODiff (Some t_a) (Some t_ax))) <> OScript (toy_script_of t_a t_ax).
Proof. vm_compute. split; [reflexivity|split; [reflexivity|discriminate]]. Qed.

(* ====================================================================== *)
(** * Patcher                                                              *)
(* ====================================================================== *)
Section PatcherProofs.

Variables Tr A R NS : Type.
Variable nsmap_of : Tr -> NS.
Variable ns_empty : NS.
Variable run_actions : NS -> Tr -> list A -> R * NS.

Notation patch_obj := (patch_obj Tr A R NS nsmap_of ns_empty run_actions).
Notation patch_tree := (patch_tree Tr A R NS nsmap_of ns_empty run_actions).

Theorem patcher_step (st : pobj NS) t acts :
  patch_obj true st t acts =
  (PO (Some (snd (run_actions (nsmap_of t) t acts))), fst (run_actions (nsmap_of t) t acts)).
Proof. unfold DifferState.patch_obj. destruct (run_actions (nsmap_of t) t acts). reflexivity. Qed.

(* neither the result nor the state afterwards depends on the state before *)
Theorem patcher_history (st1 st2 : pobj NS) t acts :
  result (patch_obj true st1 t acts) = result (patch_obj true st2 t acts) /\
  fst (patch_obj true st1 t acts) = fst (patch_obj true st2 t acts).
Proof. rewrite !patcher_step. auto. Qed.

Theorem patcher_reuse_eq_fresh (st : pobj NS) t acts :
  result (patch_obj true st t acts) = patch_tree true t acts.
Proof. unfold DifferState.patch_tree. apply patcher_history. Qed.

End PatcherProofs.

(* a patcher that kept the _nsmap of the previous tree would be history dependent *)
Theorem patcher_stale_refuted :
  let run (ns : nat) (t : nat) (acts : list nat) := (ns + t, ns) in
  result (patch_obj nat nat nat nat (fun t => t) 0 run false (PO (Some 1)) 5 []) <>
  result (patch_obj nat nat nat nat (fun t => t) 0 run false (PO (Some 2)) 5 []).
Proof. vm_compute. discriminate. Qed.

(* the instance used by XV.PatcherDSL: a tree is a forest with the nsmap of its root *)
Require Import XV.Str XV.TextFormat XV.Forest XV.Path XV.PatcherDSL.

Section PatcherDSLTie.
Variable sig : list (str * list str).
Variable asserts_on : bool.
Variable root : id.
Variable progs : list (str * list pinstr).

Definition dsl_nsmap_of (t : forest * list (option str * str)) : nsenv :=
  flat_map (fun kv => match fst kv with Some p => [(p, snd kv)] | None => [] end) (snd t).

Definition dsl_run (ns : nsenv) (t : forest * list (option str * str)) (acts : list gaction)
  : pres forest * nsenv :=
  match patch_loop sig asserts_on root progs (PS (fst t) ns (fun _ => None)) acts with
  | POk s => (POk (ps_f s), ps_env s)
  | PErr e => (PErr e, ns)
  end.

(* whatever the patcher object did before, patch() computes PatcherDSL.patch *)
Theorem patcher_is_dsl_patch (st : pobj nsenv) (f : forest) (nsm : list (option str * str)) acts :
  result (patch_obj _ _ _ _ dsl_nsmap_of [] dsl_run true st (f, nsm) acts) =
  PatcherDSL.patch sig asserts_on root progs f nsm acts.
Proof.
  rewrite patcher_step. unfold dsl_run, dsl_nsmap_of, PatcherDSL.patch. cbn [fst snd].
  destruct (patch_loop _ _ _ _ _ _); reflexivity.
Qed.
End PatcherDSLTie.

(* ====================================================================== *)
(** * Formatters                                                           *)
(* ====================================================================== *)
Section FormatterProofs.

Variables A Tr Out NS : Type.
Variable fmt_diff : list A -> Out.
Variable fmt_stateful : dfobj -> list A -> option Tr -> dfobj * Out.
Variable old_ns_of : option Tr -> NS.
Variable old_run : NS -> option Tr -> list A -> Out * NS.
Variable ns_empty : NS.

Notation diff_format := (diff_format A Tr Out fmt_diff fmt_stateful).
Notation old_format := (old_format A Tr Out NS old_ns_of old_run ns_empty).

(* 'diff': a function of the action list alone; the object is unchanged *)
Theorem diff_formatter_history (st1 st2 : dfobj) acts (o1 o2 : option Tr) :
  snd (diff_format true st1 acts o1) = fmt_diff acts /\
  snd (diff_format true st1 acts o1) = snd (diff_format true st2 acts o2) /\
  fst (diff_format true st1 acts o1) = st1.
Proof. unfold DifferState.diff_format. auto. Qed.

(* 'old': a function of the action list and the tree alone (self._nsmap is overwritten before use) *)
Theorem old_formatter_history (st1 st2 : xdfobj NS) acts (orig : option Tr) :
  snd (old_format true st1 acts orig) = fst (old_run (old_ns_of orig) orig acts) /\
  snd (old_format true st1 acts orig) = snd (old_format true st2 acts orig).
Proof.
  unfold DifferState.old_format. destruct (old_run (old_ns_of orig) orig acts). auto.
Qed.

End FormatterProofs.

(* ====================================================================== *)
(** * Set iteration order (hash seed)                                      *)
(* ====================================================================== *)
Require Import XV.Differ XV.AttrProofs.

(* update_node_attr (model: attr_run) builds three Python SETS and loops over
   sorted(set).  Whatever order the hash seed makes the sets enumerate in
   (any permutations comk / remk / newk of the key lists), the result -- actions,
   final attributes, error flag -- is the one the model computes. *)
Theorem attr_iteration_order ign la ra comk remk newk :
  Permutation (common_keys ign la ra) comk ->
  Permutation (removed_keys ign la ra) remk ->
  Permutation (new_keys ign la ra) newk ->
  attr_run_on comk remk newk la ra = attr_run ign la ra.
Proof.
  intros Pc Pr Pn. rewrite attr_run_on_eq. symmetry.
  apply attr_set_order_independent; assumption.
Qed.

(* the loops the translator found are over exactly those three sets *)
Definition sorted_loops_ok (loops : list string) : bool :=
  forallb (fun n => existsb (String.eqb n) ["common_keys"; "removed_keys"; "new_keys"]%string) loops
  && forallb (fun n => existsb (String.eqb n) loops) ["common_keys"; "removed_keys"; "new_keys"]%string.

(* ====================================================================== *)
(** * The facts read from the source on this build                         *)
(* ====================================================================== *)
Require Import XV.Gen.StateShape.

Definition state_shape_ok : bool :=
  shape_ok differ_shape
  (* set_trees: clear() first, then left = deepcopy(left); right = right *)
  && set_trees_clears_first && set_trees_deepcopies_left
  && fmem FLeft set_trees_assigns && fmem FRight set_trees_assigns
  && negb (fmem FMatches set_trees_assigns)
  (* _matches, _l2rmap, _r2lmap, _inorder form one bundle: initialised together, updated together *)
  && fmem FMatches match_prologue_inits && fmem FL2R match_prologue_inits
  && fmem FR2L match_prologue_inits && fmem FInorder match_prologue_inits
  && fmem FMatches append_match_updates && fmem FL2R append_match_updates && fmem FR2L append_match_updates
  && negb match_tail_stores_self && negb diff_tail_stores_self
  (* sets *)
  && set_iterations_sorted && sorted_loops_ok attr_sorted_loops
  (* Patcher / formatters / main *)
  && patcher_ns_from_tree && patcher_deepcopies_tree
  && diff_formatter_stateless && old_formatter_ns_reset && old_formatter_deepcopies_tree
  && diff_trees_fresh_differ && patch_tree_fresh_patcher.

Lemma andb_true_l (a b : bool) : a && b = true -> a = true.
Proof. destruct a; [reflexivity|discriminate]. Qed.

Lemma state_shape_parts :
  state_shape_ok = true ->
  shape_ok differ_shape = true /\ patcher_ns_from_tree = true /\
  diff_formatter_stateless = true /\ old_formatter_ns_reset = true.
Proof.
  unfold state_shape_ok. intros H. repeat (apply andb_true_iff in H; destruct H as [H ?]).
  repeat split; assumption.
Qed.

(* ---------------------------------------------------------------------- *)
(* The theorems at the shape generated on this build (premise: state_shape_ok) *)
Section AtGeneratedShape.
Hypothesis Hok : state_shape_ok = true.

Let Hsh : shape_ok differ_shape = true := proj1 (state_shape_parts Hok).

Section D.
Variables T M S : Type.
Variable match_fn : T -> T -> M.
Variable script_fn : T -> T -> M -> S * T * M.
Variable m_empty : M.
Variable m_is_empty : M -> bool.
Notation step := (DifferState.step T M S match_fn script_fn m_empty m_is_empty differ_shape).
Notation reachable := (DifferState.reachable T M S match_fn script_fn m_empty m_is_empty differ_shape).

Theorem gen_differ_history (ops : list (op T)) (s : dstate T M) (l r : T) :
  reachable ops s ->
  output (step s (ODiff (Some l) (Some r))) = OScript (fst (fst (script_fn l r (match_fn l r)))).
Proof. exact (differ_history T M S match_fn script_fn m_empty m_is_empty differ_shape Hsh ops s l r). Qed.

Theorem gen_differ_any_state (s : dstate T M) (l r : T) :
  output (step s (ODiff (Some l) (Some r))) = OScript (fst (fst (script_fn l r (match_fn l r)))) /\
  output (step s (ODiff (Some l) (Some r))) =
    diff_trees T M S match_fn script_fn m_empty m_is_empty differ_shape l r.
Proof.
  split.
  - exact (differ_diff_any_state T M S match_fn script_fn m_empty m_is_empty differ_shape Hsh s l r).
  - exact (differ_reuse_eq_fresh T M S match_fn script_fn m_empty m_is_empty differ_shape Hsh s l r).
Qed.

Theorem gen_differ_repeat (s : dstate T M) (l r : T) :
  let script := OScript (fst (fst (script_fn l r (match_fn l r)))) in
  let l' := snd (fst (script_fn l r (match_fn l r))) in
  let m' := snd (script_fn l r (match_fn l r)) in
  (* the same call twice *)
  output (step (state_after (step s (ODiff (Some l) (Some r)))) (ODiff (Some l) (Some r))) =
    output (step s (ODiff (Some l) (Some r))) /\
  (* match(l, r) returns the matching of (l, r); match() again answers from the cache *)
  output (step s (OMatch (Some l) (Some r))) = OMatches (match_fn l r) /\
  output (step (state_after (step s (OMatch (Some l) (Some r)))) (OMatch None None)) = OMatches (match_fn l r) /\
  (* match(l, r); diff()   and   set_trees(l, r); diff()   give the script of (l, r) *)
  output (step (state_after (step s (OMatch (Some l) (Some r)))) (ODiff None None)) = script /\
  output (step (state_after (step s (OSetTrees (Some l) (Some r)))) (ODiff None None)) = script /\
  (* HISTORY DEPENDENT: diff(l, r); diff()  re-runs the generator on the consumed copy l'
     and the matching state m' the first run left behind *)
  output (step (state_after (step s (ODiff (Some l) (Some r)))) (ODiff None None)) =
    OScript (fst (fst (script_fn l' r m'))).
Proof.
  cbn zeta.
  refine (conj _ (conj _ (conj _ (conj _ (conj _ _))))).
  - exact (differ_repeat_same T M S match_fn script_fn m_empty m_is_empty differ_shape Hsh s l r).
  - exact (proj1 (differ_match_cached T M S match_fn script_fn m_empty m_is_empty differ_shape Hsh s l r)).
  - exact (proj1 (proj2 (differ_match_cached T M S match_fn script_fn m_empty m_is_empty differ_shape Hsh s l r))).
  - exact (differ_match_then_diff T M S match_fn script_fn m_empty m_is_empty differ_shape Hsh s l r).
  - exact (differ_set_trees_then_diff T M S match_fn script_fn m_empty m_is_empty differ_shape Hsh s l r).
  - exact (differ_noarg_after_consumed T M S match_fn script_fn m_empty m_is_empty differ_shape Hsh s l r).
Qed.

Theorem gen_differ_trace (s : dstate T M) (docs : list (T * T)) :
  trace T M S match_fn script_fn m_empty m_is_empty differ_shape s
        (map (fun p => ODiff (Some (fst p)) (Some (snd p))) docs) =
  map (fun p => OScript (fst (fst (script_fn (fst p) (snd p) (match_fn (fst p) (snd p)))))) docs.
Proof. exact (differ_trace_args T M S match_fn script_fn m_empty m_is_empty differ_shape Hsh s docs). Qed.

Theorem gen_differ_noarg_unconsumed (ops : list (op T)) (s : dstate T M) (l r : T) :
  reachable ops s -> d_left s = Some l -> d_right s = Some r -> d_consumed s = false ->
  output (step s (ODiff None None)) = OScript (fst (fst (script_fn l r (match_fn l r)))).
Proof. exact (differ_noarg_unconsumed T M S match_fn script_fn m_empty m_is_empty differ_shape Hsh ops s l r). Qed.

Theorem gen_differ_no_trees :
  step d_init (OMatch None None) = (DS None None (Some m_empty) false, OError DifferState.EAttributeError) /\
  step (DS None None (Some m_empty) false) (OMatch None None) =
    (DS None None (Some m_empty) false, OMatches m_empty) /\
  step d_init (ODiff None None) = (DS None None (Some m_empty) false, OError DifferState.EAttributeError) /\
  step (DS None None (Some m_empty) false) (ODiff None None) =
    (DS None None (Some m_empty) false, OError DifferState.EAttributeError).
Proof. exact (differ_no_trees T M S match_fn script_fn m_empty m_is_empty differ_shape Hsh). Qed.

Theorem gen_differ_bad_args (s : dstate T M) (ol or : option T) :
  is_some ol && is_some or = false -> is_some ol || is_some or = true ->
  step s (OMatch ol or) = (DS None None None false, OError DifferState.ETypeError) /\
  step s (ODiff ol or) = (DS None None None false, OError DifferState.ETypeError) /\
  step s (OSetTrees ol or) = (DS None None None false, OError DifferState.ETypeError).
Proof. exact (differ_bad_args T M S match_fn script_fn m_empty m_is_empty differ_shape Hsh s ol or). Qed.
End D.

Theorem gen_patcher_history (Tr A R NS : Type) (nsmap_of : Tr -> NS) (ns_empty : NS)
        (run_actions : NS -> Tr -> list A -> R * NS) (st1 st2 : pobj NS) (t : Tr) (acts : list A) :
  result (patch_obj Tr A R NS nsmap_of ns_empty run_actions patcher_ns_from_tree st1 t acts) =
  result (patch_obj Tr A R NS nsmap_of ns_empty run_actions patcher_ns_from_tree st2 t acts) /\
  result (patch_obj Tr A R NS nsmap_of ns_empty run_actions patcher_ns_from_tree st1 t acts) =
  patch_tree Tr A R NS nsmap_of ns_empty run_actions patcher_ns_from_tree t acts.
Proof.
  rewrite (proj1 (proj2 (state_shape_parts Hok))). split.
  - apply patcher_history.
  - apply patcher_reuse_eq_fresh.
Qed.

Theorem gen_patcher_is_dsl_patch sig asserts_on root progs (st : pobj nsenv) (f : forest)
        (nsm : list (option str * str)) (acts : list gaction) :
  result (patch_obj _ _ _ _ dsl_nsmap_of [] (dsl_run sig asserts_on root progs)
                    patcher_ns_from_tree st (f, nsm) acts) =
  PatcherDSL.patch sig asserts_on root progs f nsm acts.
Proof. rewrite (proj1 (proj2 (state_shape_parts Hok))). apply patcher_is_dsl_patch. Qed.

Theorem gen_formatter_history (A Tr Out NS : Type) (fmt_diff : list A -> Out)
        (fmt_stateful : dfobj -> list A -> option Tr -> dfobj * Out)
        (old_ns_of : option Tr -> NS) (old_run : NS -> option Tr -> list A -> Out * NS) (ns_empty : NS)
        (d1 d2 : dfobj) (x1 x2 : xdfobj NS) (acts : list A) (o1 o2 orig : option Tr) :
  (* 'diff' *)
  snd (diff_format A Tr Out fmt_diff fmt_stateful diff_formatter_stateless d1 acts o1) = fmt_diff acts /\
  snd (diff_format A Tr Out fmt_diff fmt_stateful diff_formatter_stateless d1 acts o1) =
  snd (diff_format A Tr Out fmt_diff fmt_stateful diff_formatter_stateless d2 acts o2) /\
  fst (diff_format A Tr Out fmt_diff fmt_stateful diff_formatter_stateless d1 acts o1) = d1 /\
  (* 'old' *)
  snd (old_format A Tr Out NS old_ns_of old_run ns_empty old_formatter_ns_reset x1 acts orig) =
    fst (old_run (old_ns_of orig) orig acts) /\
  snd (old_format A Tr Out NS old_ns_of old_run ns_empty old_formatter_ns_reset x1 acts orig) =
  snd (old_format A Tr Out NS old_ns_of old_run ns_empty old_formatter_ns_reset x2 acts orig).
Proof.
  pose proof (state_shape_parts Hok) as (_ & _ & Hd & Ho). rewrite Hd, Ho.
  destruct (diff_formatter_history A Tr Out fmt_diff fmt_stateful d1 d2 acts o1 o2) as (H1 & H2 & H3).
  destruct (old_formatter_history A Tr Out NS old_ns_of old_run ns_empty x1 x2 acts orig) as (H4 & H5).
  exact (conj H1 (conj H2 (conj H3 (conj H4 H5)))).
Qed.

End AtGeneratedShape.
