(* Proofs about the PlaceholderMaker model, part 4: the round trip, the states
   in its scope, fuel, and the text-level form of "same element, same placeholder". *)
From Coq Require Import List NArith Bool Lia Arith.
Import ListNotations.
Require Import XV.Placeholder XV.PlaceholderProofs XV.PlaceholderRound XV.PlaceholderUndo.
Local Open Scope N_scope.

(* The states in the scope of the round trip: the table invariants, the
   invariant on table elements, and a non-empty table (the constructor files
   six entries). *)
Definition ph_wf (tt fmt : list str) (s : state) : Prop := ph_inv s /\ good tt fmt s /\ p2t s <> [].

(* the explicit guard: after this document the counter is still inside the
   private use area (the code's comment: more than 6400 placeholders bleed out) *)
Definition room (tt fmt : list str) (s : state) (T : xtree) : Prop :=
  ctr (fst (do_tree tt fmt s T)) <= PUA_END.

Lemma ext_nonempty : forall s s', ext s s' -> p2t s <> [] -> p2t s' <> [].
Proof.
  intros s s' (_ & X & _) H. destruct (p2t s) as [|[c [[e ty] cl]] r] eqn:E; [congruence|].
  destruct (X c e ty cl) as [e' H']; [rewrite E; cbn; rewrite N.eqb_refl; reflexivity|].
  intro Z. rewrite Z in H'. discriminate.
Qed.

Lemma do_tree_wf : forall tt fmt s T, ph_wf tt fmt s -> ph_wf tt fmt (fst (do_tree tt fmt s T)).
Proof.
  intros tt fmt s T (I & G & N). destruct (do_tree tt fmt s T) as [s' T'] eqn:E. cbn [fst].
  destruct (do_tree_spec _ _ _ _ _ _ E I G) as (I' & X & G' & _). split; [exact I'|]. split; [exact G'|].
  eapply ext_nonempty; eauto.
Qed.

Theorem roundtrip_fuel : forall tt fmt s T s' T1,
  ph_wf tt fmt s -> no_pua T -> room tt fmt s T -> do_tree tt fmt s T = (s', T1) ->
  forall fuel, (xsize T < fuel)%nat ->
    exists T2, undo_tree_fuel fuel s' T1 = Ok T2 /\ tree_equiv T2 T.
Proof.
  intros tt fmt s T s' T1 (I & G & N) NP R E fuel LF. unfold room in R. rewrite E in R. cbn [fst] in R.
  destruct (do_tree_spec _ _ _ _ _ _ E I G) as (I' & X & G' & D & ->).
  assert (N' : p2t s' <> []) by (eapply ext_nonempty; eauto).
  destruct (undo_main tt fmt s' I' G' R N' (xsize T) T (le_n _) NP) as [_ PB].
  destruct fuel as [|f]; [lia|].
  destruct (PB f false D ltac:(lia)) as (T2 & U & EQ).
  exists T2. unfold undo_tree_fuel. rewrite U. cbn [bind fst]. split; [reflexivity | exact EQ].
Qed.
