(* Proofs about the PlaceholderMaker model, part 4: the round trip, the states
   in its scope, fuel, and the text-level form of "same element, same placeholder". *)
From Coq Require Import List NArith Bool Lia Arith.
Import ListNotations.
Require Import XV.Placeholder XV.PlaceholderProofs XV.PlaceholderRound XV.PlaceholderUndo.
Local Open Scope N_scope.

(* The states in the scope of the round trip: the table invariants, the
   invariant on table elements, and a non-empty table (the constructor files
   six entries). *)
Definition ph_wf (tt fmt : list str) (s : state) : Prop := ph_inv s /\ good tt fmt s /\ p2t s <> [].

(* the explicit guard: after this document the counter is still inside the
   private use area (the code's comment: more than 6400 placeholders bleed out) *)
Definition room (tt fmt : list str) (s : state) (T : xtree) : Prop :=
  ctr (fst (do_tree tt fmt s T)) <= PUA_END.

Lemma ext_nonempty : forall s s', ext s s' -> p2t s <> [] -> p2t s' <> [].
Proof.
  intros s s' (_ & X & _) H. destruct (p2t s) as [|[c [[e ty] cl]] r] eqn:E; [congruence|].
  destruct (X c e ty cl) as [e' H']; [try rewrite E; cbn; rewrite N.eqb_refl; reflexivity|].
  intro Z. rewrite Z in H'. discriminate.
Qed.

Lemma do_tree_wf : forall tt fmt s T, ph_wf tt fmt s -> ph_wf tt fmt (fst (do_tree tt fmt s T)).
Proof.
  intros tt fmt s T (I & G & N). destruct (do_tree tt fmt s T) as [s' T'] eqn:E. cbn [fst].
  destruct (do_tree_spec _ _ _ _ _ _ E I G) as (I' & X & G' & _). split; [exact I'|]. split; [exact G'|].
  eapply ext_nonempty; eauto.
Qed.

Theorem roundtrip_fuel : forall tt fmt s T s' T1,
  ph_wf tt fmt s -> no_pua T -> room tt fmt s T -> do_tree tt fmt s T = (s', T1) ->
  forall fuel, (xheight T < fuel)%nat ->
    exists T2, undo_tree_fuel fuel s' T1 = Ok T2 /\ tree_equiv T2 T.
Proof.
  intros tt fmt s T s' T1 (I & G & N) NP R E fuel LF. unfold room in R. rewrite E in R. cbn [fst] in R.
  destruct (do_tree_spec _ _ _ _ _ _ E I G) as (I' & X & G' & D & ->).
  assert (N' : p2t s' <> []) by (eapply ext_nonempty; eauto).
  destruct (undo_main tt fmt s' I' G' R N' (xsize T) T (le_n _) NP) as [_ PB].
  destruct fuel as [|f]; [lia|].
  destruct (PB f false D ltac:(lia)) as (T2 & U & EQ).
  exists T2. unfold undo_tree_fuel. rewrite U. cbn [bind fst]. split; [reflexivity | exact EQ].
Qed.

(* ------------------------------------------------ which states are in scope *)
(* get_placeholder is not meant to be called from outside; if it is, filing a
   T_OPEN entry whose element has children takes the maker out of scope (the
   children would be duplicated by undo). *)
Definition safe_op (o : op) : Prop :=
  match o with
  | OpGet el TOpen _ => xkids el = []
  | _ => True
  end.

Lemma good_empty : forall tt fmt, good tt fmt (mkst [] [] PLACEHOLDER_START).
Proof. intros tt fmt c e ty cl k H. discriminate. Qed.

Lemma gp_wf : forall tt fmt s el ty cl s' c m,
  gp s el el ty cl = (s', c, m) -> ph_inv s -> good tt fmt s -> (ty = TOpen -> xkids el = []) ->
  ph_inv s' /\ good tt fmt s' /\ ext s s'.
Proof.
  intros tt fmt s el ty cl s' c m G I GD K. destruct (gp_ok _ _ _ _ _ _ _ _ G I) as [I' X].
  split; [exact I'|]. split; [|exact X]. eapply gp_good; eauto.
  destruct ty; cbn; auto.
Qed.

Lemma init_pair_wf : forall tt fmt s name, ph_inv s -> good tt fmt s ->
  ph_inv (init_pair s name) /\ good tt fmt (init_pair s name).
Proof.
  intros tt fmt s name I G. unfold init_pair.
  destruct (gp s _ _ TClose None) as [[s1 c] m1] eqn:G1.
  destruct (gp s1 _ _ TOpen (Some c)) as [[s2 c2] m2] eqn:G2.
  destruct (gp_wf tt fmt _ _ _ _ _ _ _ G1 I G ltac:(discriminate)) as (I1 & GD1 & _).
  destruct (gp_wf tt fmt _ _ _ _ _ _ _ G2 I1 GD1 ltac:(reflexivity)) as (I2 & GD2 & _). auto.
Qed.

Lemma ph_wf_init : forall tt fmt, ph_wf tt fmt ph_init.
Proof.
  intros tt fmt. unfold ph_init.
  destruct (init_pair_wf tt fmt _ s_insert ph_inv_empty (good_empty tt fmt)) as [I1 G1].
  destruct (init_pair_wf tt fmt _ s_delete I1 G1) as [I2 G2].
  destruct (init_pair_wf tt fmt _ s_replace I2 G2) as [I3 G3].
  split; [exact I3|]. split; [exact G3|]. vm_compute. discriminate.
Qed.

Lemma entry_open_childless : forall tt fmt s ph e cl,
  ph_inv s -> good tt fmt s -> p2t_get (p2t s) ph = Some (e, TOpen, cl) -> xkids e = [].
Proof.
  intros tt fmt s ph e cl ((_ & I2) & _) G P. destruct (I2 _ _ _ _ P) as [k L].
  exact (proj1 (G _ _ _ _ _ P L)).
Qed.

Lemma mark_diff_wf : forall tt fmt s ph a at_ s' c,
  mark_diff fmt s ph a at_ = Ok (s', c) -> ph_wf tt fmt s -> ph_wf tt fmt s'.
Proof.
  intros tt fmt s ph a at_ s' c E (I & G & N). unfold mark_diff in E.
  destruct (p2t_get (p2t s) ph) as [[[el ty] cl]|] eqn:P; [|discriminate].
  destruct ty.
  - destruct (gp s _ _ TOpen cl) as [[s1 c1] m] eqn:G1. inversion E; subst.
    destruct (gp_wf tt fmt _ _ _ _ _ _ _ G1 I G) as (I1 & GD1 & X1).
    { intros _. cbn [with_attrs xkids]. eapply entry_open_childless; eauto. }
    split; [exact I1|]. split; [exact GD1|]. eapply ext_nonempty; eauto.
  - inversion E; subst. split; auto.
  - destruct (gp s _ _ TSingle cl) as [[s1 c1] m] eqn:G1. inversion E; subst.
    destruct (gp_wf tt fmt _ _ _ _ _ _ _ G1 I G ltac:(discriminate)) as (I1 & GD1 & X1).
    split; [exact I1|]. split; [exact GD1|]. eapply ext_nonempty; eauto.
Qed.

Lemma wrap_diff_wf : forall tt fmt s x a at_ s' r,
  wrap_diff s x a at_ = Ok (s', r) -> ph_wf tt fmt s -> ph_wf tt fmt s'.
Proof.
  intros tt fmt s x a at_ s' r E (I & G & N). unfold wrap_diff in E. destruct (diff_tags a) as [open_ph close_ph].
  destruct at_ as [|kv at_]; [inversion E; subst; split; auto|].
  destruct (p2t_get (p2t s) open_ph) as [[[el ty] cl]|] eqn:P; [|discriminate].
  destruct (gp s _ _ ty cl) as [[s1 c1] m] eqn:G1. inversion E; subst.
  destruct (gp_wf tt fmt _ _ _ _ _ _ _ G1 I G) as (I1 & GD1 & X1).
  { intros ->. cbn [with_attrs xkids]. eapply entry_open_childless; eauto. }
  split; [exact I1|]. split; [exact GD1|]. eapply ext_nonempty; eauto.
Qed.

Lemma ph_step_wf : forall tt fmt s o, safe_op o -> ph_wf tt fmt s -> ph_wf tt fmt (ph_step tt fmt s o).
Proof.
  intros tt fmt s o SO W. destruct o as [el ty cl|ph a at_|x a at_|T]; cbn [ph_step].
  - destruct W as (I & G & N). unfold get_placeholder. destruct (gp s el el ty cl) as [[s1 c1] m] eqn:G1. cbn [fst].
    destruct (gp_wf tt fmt _ _ _ _ _ _ _ G1 I G) as (I1 & GD1 & X1).
    { intros ->. exact SO. }
    split; [exact I1|]. split; [exact GD1|]. eapply ext_nonempty; eauto.
  - destruct (mark_diff fmt s ph a at_) as [[s' c]|e] eqn:E; [eapply mark_diff_wf; eauto | exact W].
  - destruct (wrap_diff s x a at_) as [[s' c]|e] eqn:E; [eapply wrap_diff_wf; eauto | exact W].
  - apply do_tree_wf. exact W.
Qed.

Theorem wf_reachable : forall tt fmt ops, Forall safe_op ops -> ph_wf tt fmt (fold_left (ph_step tt fmt) ops ph_init).
Proof.
  intros tt fmt ops. generalize (ph_wf_init tt fmt). generalize ph_init.
  induction ops as [|o ops IH]; intros s W FO; cbn [fold_left]; [exact W|].
  inversion FO; subst. apply IH; [apply ph_step_wf; assumption | assumption].
Qed.

(* ------------------------------------------------------ fuel is only fuel *)
Definition ubody (s : state) (U : bool -> xtree -> res (xtree * list xtree)) (has_parent : bool) (e : xtree)
  : res (xtree * list xtree) :=
  match p2t s with
  | [] => Ok (e, [])
  | _ :: _ =>
    let ustr (x : str) : res (str * list xtree) :=
      let segs := split_string s x in
      us_loop s (fun el => bind (U false el) (fun r => Ok (fst r))) (S (length segs)) segs [] [] in
    let ucontent (cs : list xtree) : res (list xtree) :=
      mapM (fun c => bind (U true c) (fun r => Ok (fst r))) cs in
    let '(XNode tag attrs text tail kids) := e in
    bind (match otxt text with
          | [] => Ok (text, kids)
          | _ :: _ =>
            bind (ustr (otxt text)) (fun '(rt, cs) =>
              if str_eqb (otxt text) rt then Ok (text, kids)
              else bind (ucontent cs) (fun cs' => Ok (ornone rt, cs' ++ kids)))
          end) (fun '(text1, kids1) =>
    bind (mapM (fun c => bind (U true c) (fun r => Ok (fst r :: snd r))) kids1) (fun kk =>
    let kids2 := concat kk in
    match tail with
    | [] => Ok (XNode tag attrs text1 tail kids2, [])
    | _ :: _ =>
      bind (ustr tail) (fun '(rt, cs) =>
        if str_eqb tail rt then Ok (XNode tag attrs text1 tail kids2, [])
        else if has_parent
             then bind (ucontent cs) (fun cs' => Ok (XNode tag attrs text1 rt kids2, cs'))
             else Err ENoParent)
    end))
  end.

Lemma undo_element_body : forall f s hp e, undo_element (S f) s hp e = ubody s (undo_element f s) hp e.
Proof. reflexivity. Qed.

Lemma bind_ok_inv : forall (A B : Type) (m : res A) (k : A -> res B) r,
  bind m k = Ok r -> exists a, m = Ok a /\ k a = Ok r.
Proof. intros A B [a|e] k r H; cbn in H; [eauto | discriminate]. Qed.

Lemma mapM_mono : forall (A B : Type) (f g : A -> res B) l r,
  (forall a b, f a = Ok b -> g a = Ok b) -> mapM f l = Ok r -> mapM g l = Ok r.
Proof.
  intros A B f g l. induction l as [|a l IH]; intros r M H; cbn [mapM] in *; [exact H|].
  apply bind_ok_inv in H. destruct H as (b & Hb & H). apply bind_ok_inv in H. destruct H as (r' & Hr & H).
  rewrite (M _ _ Hb). cbn [bind]. rewrite (IH _ M Hr). exact H.
Qed.

Lemma us_loop_mono : forall s (uel uel' : xtree -> res xtree),
  (forall a b, uel a = Ok b -> uel' a = Ok b) ->
  forall n segs rtext acc r, us_loop s uel n segs rtext acc = Ok r -> us_loop s uel' n segs rtext acc = Ok r.
Proof.
  intros s uel uel' M. induction n as [|n IH]; intros segs rtext acc r H; destruct segs as [|sg rest]; cbn [us_loop] in *;
    try exact H.
  destruct sg as [|c sg']; [apply IH; exact H|].
  destruct (match sg' with [] => p2t_get (p2t s) c | _ :: _ => None end) as [[[el ty] cl]|].
  - destruct ty.
    + destruct (take_until cl rest []) as [[nt rest']|]; [|exact H].
      apply bind_ok_inv in H. destruct H as (e' & He & H). rewrite (M _ _ He). cbn [bind]. apply IH. exact H.
    + apply bind_ok_inv in H. destruct H as (e' & He & H). rewrite (M _ _ He). cbn [bind]. apply IH. exact H.
    + apply bind_ok_inv in H. destruct H as (e' & He & H). rewrite (M _ _ He). cbn [bind]. apply IH. exact H.
  - destruct acc; apply IH; exact H.
Qed.

Lemma ubody_mono : forall s (U U' : bool -> xtree -> res (xtree * list xtree)),
  (forall b x r, U b x = Ok r -> U' b x = Ok r) ->
  forall hp e r, ubody s U hp e = Ok r -> ubody s U' hp e = Ok r.
Proof.
  intros s U U' M hp e r H. unfold ubody in *. destruct (p2t s) as [|p0 pr]; [exact H|].
  destruct e as [tag attrs text tail kids].
  assert (M1 : forall b a x, bind (U b a) (fun r => Ok (fst r)) = Ok x -> bind (U' b a) (fun r => Ok (fst r)) = Ok x).
  { intros b a x Hx. apply bind_ok_inv in Hx. destruct Hx as (y & Hy & Hx). rewrite (M _ _ _ Hy). exact Hx. }
  assert (M2 : forall a x, bind (U true a) (fun r => Ok (fst r :: snd r)) = Ok x ->
                           bind (U' true a) (fun r => Ok (fst r :: snd r)) = Ok x).
  { intros a x Hx. apply bind_ok_inv in Hx. destruct Hx as (y & Hy & Hx). rewrite (M _ _ _ Hy). exact Hx. }
  assert (MS : forall x y,
     us_loop s (fun el => bind (U false el) (fun r => Ok (fst r))) (S (length (split_string s x))) (split_string s x) [] [] = Ok y ->
     us_loop s (fun el => bind (U' false el) (fun r => Ok (fst r))) (S (length (split_string s x))) (split_string s x) [] [] = Ok y).
  { intros x y. apply us_loop_mono. intros a b. apply M1. }
  cbv zeta in *.
  apply bind_ok_inv in H. destruct H as ([text1 kids1] & H1 & H).
  assert (H1' : match otxt text with
          | [] => Ok (text, kids)
          | _ :: _ =>
            bind (us_loop s (fun el => bind (U' false el) (fun r => Ok (fst r))) (S (length (split_string s (otxt text)))) (split_string s (otxt text)) [] [])
              (fun '(rt, cs) =>
              if str_eqb (otxt text) rt then Ok (text, kids)
              else bind (mapM (fun c => bind (U' true c) (fun r => Ok (fst r))) cs) (fun cs' => Ok (ornone rt, cs' ++ kids)))
          end = Ok (text1, kids1)).
  { destruct (otxt text) as [|c0 r0]; [exact H1|].
    apply bind_ok_inv in H1. destruct H1 as ([rt cs] & Ha & H1). rewrite (MS _ _ Ha). cbn [bind].
    destruct (str_eqb (c0 :: r0) rt); [exact H1|].
    apply bind_ok_inv in H1. destruct H1 as (cs' & Hb & H1).
    rewrite (mapM_mono _ _ _ _ _ _ (M1 true) Hb). exact H1. }
  rewrite H1'. cbn [bind].
  apply bind_ok_inv in H. destruct H as (kk & H2 & H). rewrite (mapM_mono _ _ _ _ _ _ M2 H2). cbn [bind].
  destruct tail as [|c1 r1]; [exact H|].
  apply bind_ok_inv in H. destruct H as ([rt cs] & Ha & H). rewrite (MS _ _ Ha). cbn [bind].
  destruct (str_eqb (c1 :: r1) rt); [exact H|]. destruct hp; [|exact H].
  apply bind_ok_inv in H. destruct H as (cs' & Hb & H). rewrite (mapM_mono _ _ _ _ _ _ (M1 true) Hb). exact H.
Qed.

Lemma undo_element_mono1 : forall s f hp e r, undo_element f s hp e = Ok r -> undo_element (S f) s hp e = Ok r.
Proof.
  intros s. induction f as [|f IH]; intros hp e r H; [discriminate|].
  rewrite undo_element_body in *. eapply ubody_mono; [|exact H]. intros b x y. apply IH.
Qed.
Lemma undo_element_mono : forall s f f' hp e r, (f <= f')%nat -> undo_element f s hp e = Ok r -> undo_element f' s hp e = Ok r.
Proof.
  intros s f f' hp e r L H. induction L as [|f' L IH]; [exact H | apply undo_element_mono1; exact IH].
Qed.

Lemma undo_tree_fuel_mono : forall s f f' T r, (f <= f')%nat -> undo_tree_fuel f s T = Ok r -> undo_tree_fuel f' s T = Ok r.
Proof.
  intros s f f' T r L H. unfold undo_tree_fuel in *. apply bind_ok_inv in H. destruct H as (x & Hx & H).
  rewrite (undo_element_mono s f f' _ _ _ L Hx). exact H.
Qed.

Lemma undo_tree_eq : forall s T, undo_tree s T = undo_tree_fuel (default_fuel s T) s T.
Proof. reflexivity. Qed.

(* With the default fuel, undo_tree either runs out of fuel or returns the document. *)
Theorem roundtrip_default_fuel : forall tt fmt s T s' T1 T2,
  ph_wf tt fmt s -> no_pua T -> room tt fmt s T -> do_tree tt fmt s T = (s', T1) ->
  undo_tree s' T1 = Ok T2 -> tree_equiv T2 T.
Proof.
  intros tt fmt s T s' T1 T2 W NP R E U. rewrite undo_tree_eq in U. revert U. generalize (default_fuel s' T1). intros f0 U.
  destruct (roundtrip_fuel tt fmt s T s' T1 W NP R E (f0 + S (xheight T))%nat ltac:(lia)) as (T3 & U3 & EQ).
  assert (L : (f0 <= f0 + S (xheight T))%nat) by lia.
  pose proof (undo_tree_fuel_mono s' _ _ _ _ L U) as U4. rewrite U4 in U3. inversion U3. subst. exact EQ.
Qed.

(* undo_tree as it is executed: documents nested less deeply than UNDO_DEPTH *)
Theorem roundtrip_thm : forall tt fmt s T s' T1,
  ph_wf tt fmt s -> no_pua T -> room tt fmt s T -> (xheight T < UNDO_DEPTH)%nat ->
  do_tree tt fmt s T = (s', T1) ->
  exists T2, undo_tree s' T1 = Ok T2 /\ tree_equiv T2 T.
Proof.
  intros tt fmt s T s' T1 W NP R H E. rewrite undo_tree_eq.
  apply (roundtrip_fuel tt fmt s T s' T1 W NP R E). unfold default_fuel. apply Nat.lt_le_trans with (m := UNDO_DEPTH); [exact H|].
  apply Nat.le_trans with (m := (UNDO_DEPTH + 2 * tsize T1)%nat); apply Nat.le_add_r.
Qed.

(* --------------------------- same element, same text, in any later document *)
Definition flat_covP (fmt : list str) (c : xtree) : Prop :=
  forall s s' txt mk, flat_kid fmt s c = (s', txt, mk) -> ph_inv s ->
    fcov fmt (t2p s') c = true /\ txt = enc fmt (t2p s') c.

Lemma flat_kids_cov_of : forall fmt ks, Forall (flat_covP fmt) ks ->
  forall s s' txt mk, flat_kids fmt s ks = (s', txt, mk) -> ph_inv s ->
    forallb (fcov fmt (t2p s')) ks = true /\ txt = enc_kids fmt (t2p s') ks.
Proof.
  intros fmt ks F. induction F as [|k ks Hk _ IH]; intros s s' txt mk E I; cbn [flat_kids] in E.
  - inversion E; subst. auto.
  - destruct (flat_kid fmt s k) as [[s1 t1] m1] eqn:E1. destruct (flat_kids fmt s1 ks) as [[s2 t2] m2] eqn:E2.
    inversion E; subst. clear E.
    destruct (Hk _ _ _ _ E1 I) as (F1 & T1).
    destruct (flat_kid_ok _ _ _ _ _ _ E1 I) as [I1 X1].
    destruct (IH _ _ _ _ E2 I1) as (F2 & T2).
    destruct (flat_kids_ok _ _ _ _ _ _ E2 I1) as [I2 X2].
    destruct (fcov_mono fmt _ _ k (ext_kext _ _ X2) F1) as [F1' T1'].
    split.
    + cbn [forallb]. rewrite F1', F2. reflexivity.
    + unfold enc_kids. cbn [map concat]. rewrite T1'. subst. reflexivity.
Qed.

Lemma flat_kid_cov : forall fmt c, flat_covP fmt c.
Proof.
  intros fmt c. induction c as [tag attrs text tail kids IH] using xtree_ind2. intros s s' txt mk E I.
  rewrite flat_kid_unfold in E. cbv zeta in E. cbn [fcov enc]. cbv zeta. destruct (mem tag fmt).
  - destruct (gp s _ _ TClose None) as [[s1 phc] m1] eqn:G1.
    destruct (gp s1 _ _ TOpen (Some phc)) as [[s2 pho] m2] eqn:G2.
    destruct (flat_kids fmt s2 kids) as [[s3 inner] mk3] eqn:E3. inversion E; subst. clear E.
    destruct (gp_ok _ _ _ _ _ _ _ _ G1 I) as [I1 X1].
    destruct (gp_ok _ _ _ _ _ _ _ _ G2 I1) as [I2 X2].
    destruct (flat_kids_ok _ _ _ _ _ _ E3 I2) as [I3 X3].
    destruct (flat_kids_cov_of fmt kids IH _ _ _ _ E3 I2) as (F3 & T3).
    pose proof (gp_bound _ _ _ _ _ _ _ _ G1) as L1. pose proof (gp_bound _ _ _ _ _ _ _ _ G2) as L2.
    apply (ext_kext _ _ X2) in L1. apply (ext_kext _ _ X3) in L1. apply (ext_kext _ _ X3) in L2.
    unfold phd. rewrite L1, L2. split; [exact F3|]. subst. reflexivity.
  - destruct (gp s _ _ TSingle None) as [[s1 ph] miss] eqn:G1. inversion E; subst. clear E.
    pose proof (gp_bound _ _ _ _ _ _ _ _ G1) as L1. unfold phd. rewrite L1. split; reflexivity.
Qed.

(* when every key is bound already, do_element allocates nothing and writes the bound placeholders *)
Lemma flat_kid_hits : forall fmt c s, fcov fmt (t2p s) c = true ->
  exists mk, flat_kid fmt s c = (s, enc fmt (t2p s) c, mk).
Proof.
  intros fmt c. induction c as [tag attrs text tail kids IH] using xtree_ind2. intros s FC.
  rewrite flat_kid_unfold. cbv zeta. cbn [fcov enc] in *. cbv zeta in *. destruct (mem tag fmt).
  - destruct (t2p_get (t2p s) (knorm (XNode tag attrs text [] kids), TClose, None)) as [phc|] eqn:L1; [|discriminate].
    destruct (t2p_get (t2p s) (knorm (XNode tag attrs text [] kids), TOpen, Some phc)) as [pho|] eqn:L2; [|discriminate].
    rewrite (gp_hit _ _ _ _ _ _ L1), (gp_hit _ _ _ _ _ _ L2). unfold phd. rewrite L1, L2.
    assert (K : exists mk, flat_kids fmt s kids = (s, concat (map (enc fmt (t2p s)) kids), mk)).
    { clear L1 L2. induction IH as [|k ks Hk _ IHks]; cbn [flat_kids map concat forallb] in *; [eauto|].
      apply andb_true_iff in FC. destruct FC as [F1 F2]. destruct (Hk s F1) as [m1 E1]. destruct (IHks F2) as [m2 E2].
      rewrite E1, E2. eauto. }
    destruct K as [mk K]. rewrite K. eauto.
  - destruct (t2p_get (t2p s) (knorm (XNode tag attrs text [] kids), TSingle, None)) as [ph|] eqn:L1; [|discriminate].
    rewrite (gp_hit _ _ _ _ _ _ L1). unfold phd. rewrite L1. eauto.
Qed.
Lemma flat_kids_hits : forall fmt ks s, forallb (fcov fmt (t2p s)) ks = true ->
  exists mk, flat_kids fmt s ks = (s, enc_kids fmt (t2p s) ks, mk).
Proof.
  intros fmt ks s. induction ks as [|k ks IH]; cbn [flat_kids forallb]; intro FC; [unfold enc_kids; cbn; eauto|].
  apply andb_true_iff in FC. destruct FC as [F1 F2]. destruct (flat_kid_hits fmt k s F1) as [m1 E1].
  destruct (IH F2) as [m2 E2]. rewrite E1, E2. unfold enc_kids. cbn [map concat]. eauto.
Qed.

(* The children of a text element that do_element has replaced by placeholders
   once are replaced by the very same string, allocating nothing, whenever they
   are met again -- in any later document, whatever the maker did in between. *)
Theorem same_text_thm : forall tt fmt s ks s1 txt mk ops,
  ph_inv s -> flat_kids fmt s ks = (s1, txt, mk) ->
  let s2 := fold_left (ph_step tt fmt) ops s1 in
  exists mk', flat_kids fmt s2 ks = (s2, txt, mk').
Proof.
  intros tt fmt s ks s1 txt mk ops I E s2.
  destruct (flat_kids_cov_of fmt ks (proj2 (Forall_forall _ _) (fun c _ => flat_kid_cov fmt c)) _ _ _ _ E I) as [FC T].
  destruct (flat_kids_ok _ _ _ _ _ _ E I) as [I1 X1].
  destruct (fold_ok tt fmt ops s1 I1) as [I2 X2]. fold s2 in I2, X2.
  destruct (fcov_kids_mono fmt _ _ ks (ext_kext _ _ X2) FC) as [FC2 T2].
  destruct (flat_kids_hits fmt ks s2 FC2) as [mk' H]. exists mk'. rewrite H, T2, T. reflexivity.
Qed.

(* ------------------------- the round trip needs more than the table invariants *)
Definition wit_b : xtree := XNode [98] [] None [] [XNode [105] [] None [] []].        (* <b><i/></b> *)
Definition wit_T : xtree := XNode [112] [] None [] [wit_b].                              (* <p><b><i/></b></p> *)
Definition wit_s : state :=
  fold_left (ph_step [[112]] [[98]]) [OpGet wit_b TClose None; OpGet wit_b TOpen (Some 57351)] ph_init.

Theorem roundtrip_ph_inv_only_refuted :
  exists tt fmt s T, ph_inv s /\ no_pua T /\ room tt fmt s T /\
    exists T2, undo_tree (fst (do_tree tt fmt s T)) (snd (do_tree tt fmt s T)) = Ok T2 /\ ~ tree_equiv T2 T.
Proof.
  exists [[112]], [[98]], wit_s, wit_T. split; [apply (fold_ok [[112]] [[98]] _ ph_init ph_inv_init)|].
  split; [reflexivity|]. split; [vm_compute; discriminate|].
  eexists. split; [vm_compute; reflexivity|]. vm_compute. discriminate.
Qed.

(* ------------------------------------- room: two placeholders per element *)
Fixpoint rcount (fmt : list str) (c : xtree) : nat :=
  match c with
  | XNode tag _ _ _ kids => S (if mem tag fmt then list_sum (map (rcount fmt) kids) else 0)
  end.
Fixpoint dwcost (tt fmt : list str) (post : bool) (t : xtree) : nat :=
  match t with
  | XNode tag _ _ _ kids =>
    let live :=
      if mem tag tt then
        match kids with
        | [] => O
        | _ :: _ => (list_sum (map (rcount fmt) kids) + list_sum (map (dwcost tt fmt true) kids))%nat
        end
      else list_sum (map (dwcost tt fmt false) kids) in
    if post then if mem tag fmt then list_sum (map (dwcost tt fmt true) kids) else live else live
  end.

Lemma lsum_cons : forall a l, list_sum (a :: l) = (a + list_sum l)%nat.
Proof. reflexivity. Qed.

Lemma flat_kids_ctr_of : forall fmt ks,
  Forall (fun c => forall s s' txt mk, flat_kid fmt s c = (s', txt, mk) -> ctr s' <= ctr s + 2 * N.of_nat (rcount fmt c)) ks ->
  forall s s' txt mk, flat_kids fmt s ks = (s', txt, mk) -> ctr s' <= ctr s + 2 * N.of_nat (list_sum (map (rcount fmt) ks)).
Proof.
  intros fmt ks F. induction F as [|k ks Hk _ IH]; intros s s' txt mk E; cbn [flat_kids] in E.
  - inversion E; subst. cbn. lia.
  - destruct (flat_kid fmt s k) as [[s1 t1] m1] eqn:E1. destruct (flat_kids fmt s1 ks) as [[s2 t2] m2] eqn:E2.
    inversion E; subst. specialize (Hk _ _ _ _ E1). specialize (IH _ _ _ _ E2). cbn [map]. rewrite lsum_cons. lia.
Qed.
Lemma flat_kid_ctr : forall fmt c s s' txt mk, flat_kid fmt s c = (s', txt, mk) -> ctr s' <= ctr s + 2 * N.of_nat (rcount fmt c).
Proof.
  intros fmt c. induction c as [tag attrs text tail kids IH] using xtree_ind2. intros s s' txt mk E.
  rewrite flat_kid_unfold in E. cbv zeta in E. cbn [rcount]. destruct (mem tag fmt).
  - destruct (gp s _ _ TClose None) as [[s1 phc] m1] eqn:G1.
    destruct (gp s1 _ _ TOpen (Some phc)) as [[s2 pho] m2] eqn:G2.
    destruct (flat_kids fmt s2 kids) as [[s3 inner] mk3] eqn:E3. inversion E; subst.
    pose proof (gp_ctr _ _ _ _ _ _ _ _ G1). pose proof (gp_ctr _ _ _ _ _ _ _ _ G2).
    pose proof (flat_kids_ctr_of fmt kids IH _ _ _ _ E3). lia.
  - destruct (gp s _ _ TSingle None) as [[s1 ph] miss] eqn:G1. inversion E; subst.
    pose proof (gp_ctr _ _ _ _ _ _ _ _ G1). lia.
Qed.
Lemma flat_kids_ctr : forall fmt ks s s' txt mk, flat_kids fmt s ks = (s', txt, mk) ->
  ctr s' <= ctr s + 2 * N.of_nat (list_sum (map (rcount fmt) ks)).
Proof. intros fmt ks. apply flat_kids_ctr_of. apply Forall_forall. intros c _. apply flat_kid_ctr. Qed.

Definition dw_ctrP (tt fmt : list str) (t : xtree) : Prop :=
  forall post s marks s' mk' t', dw tt fmt post s marks t = (s', mk', t') -> ctr s' <= ctr s + 2 * N.of_nat (dwcost tt fmt post t).

Lemma dw_post_kids_ctr_of : forall tt fmt ks, Forall (dw_ctrP tt fmt) ks ->
  forall s mk s' mk', dw_post_kids tt fmt s mk ks = (s', mk') -> ctr s' <= ctr s + 2 * N.of_nat (list_sum (map (dwcost tt fmt true) ks)).
Proof.
  intros tt fmt ks F. induction F as [|k ks Hk _ IH]; intros s mk s' mk' E; cbn [dw_post_kids] in E.
  - inversion E; subst. cbn. lia.
  - destruct (dw tt fmt true s mk k) as [[s1 mk1] k'] eqn:E1. specialize (Hk _ _ _ _ _ _ E1). specialize (IH _ _ _ _ E).
    cbn [map]. rewrite lsum_cons. lia.
Qed.
Lemma dw_live_kids_ctr_of : forall tt fmt ks, Forall (dw_ctrP tt fmt) ks ->
  forall s s' ks', dw_live_kids tt fmt s ks = (s', ks') -> ctr s' <= ctr s + 2 * N.of_nat (list_sum (map (dwcost tt fmt false) ks)).
Proof.
  intros tt fmt ks F. induction F as [|k ks Hk _ IH]; intros s s' ks' E; cbn [dw_live_kids] in E.
  - inversion E; subst. cbn. lia.
  - destruct (dw tt fmt false s [] k) as [[s1 mk1] k'] eqn:E1. destruct (dw_live_kids tt fmt s1 ks) as [s2 r] eqn:E2.
    inversion E; subst. specialize (Hk _ _ _ _ _ _ E1). specialize (IH _ _ _ E2). cbn [map]. rewrite lsum_cons. lia.
Qed.
Lemma store_final_ctr : forall s c0 t', ctr (store_final s c0 t') = ctr s.
Proof. intros. unfold store_final. destruct (t2p_get (t2p s) _); reflexivity. Qed.

Lemma dw_ctr : forall tt fmt t, dw_ctrP tt fmt t.
Proof.
  intros tt fmt t. induction t as [tag attrs text tail kids IH] using xtree_ind2.
  assert (LIVE : forall s tail' s' t', dw_live tt fmt s tag attrs text tail' kids = (s', t') ->
            ctr s' <= ctr s + 2 * N.of_nat (if mem tag tt then match kids with [] => O | _ :: _ =>
                 (list_sum (map (rcount fmt) kids) + list_sum (map (dwcost tt fmt true) kids))%nat end
               else list_sum (map (dwcost tt fmt false) kids))).
  { intros s tail' s' t' E. unfold dw_live in E. destruct (mem tag tt).
    - destruct kids as [|k0 ks0]; [inversion E; subst; lia|].
      destruct (flat_kids fmt s (k0 :: ks0)) as [[s1 txt1] mk] eqn:E1.
      destruct (dw_post_kids tt fmt s1 mk (k0 :: ks0)) as [s2 mk2] eqn:E2. inversion E; subst.
      pose proof (flat_kids_ctr _ _ _ _ _ _ E1). pose proof (dw_post_kids_ctr_of tt fmt _ IH _ _ _ _ E2). lia.
    - destruct (dw_live_kids tt fmt s kids) as [s1 kids'] eqn:E1. inversion E; subst.
      exact (dw_live_kids_ctr_of tt fmt _ IH _ _ _ E1). }
  intros post s marks s' mk' t' E. rewrite dw_unfold in E. cbn [dwcost]. cbv zeta.
  destruct post; [destruct (mem tag fmt)|].
  - destruct (dw_post_kids tt fmt s marks kids) as [s1 mk1] eqn:E1. inversion E; subst.
    exact (dw_post_kids_ctr_of tt fmt _ IH _ _ _ _ E1).
  - destruct (dw_live tt fmt s tag attrs text [] kids) as [s1 t1] eqn:E1. specialize (LIVE _ _ _ _ E1).
    destruct marks as [|[|] rest]; inversion E; subst; try rewrite store_final_ctr; exact LIVE.
  - destruct (dw_live tt fmt s tag attrs text tail kids) as [s1 t1] eqn:E1. inversion E; subst. exact (LIVE _ _ _ _ E1).
Qed.

Lemma list_sum_le : forall (f g : xtree -> nat) ks, Forall (fun k => (f k <= g k)%nat) ks ->
  (list_sum (map f ks) <= list_sum (map g ks))%nat.
Proof. intros f g ks F. induction F; [apply le_n|]. cbn [map]. rewrite !lsum_cons. lia. Qed.
Lemma list_sum_plus : forall (f g : xtree -> nat) ks,
  (list_sum (map f ks) + list_sum (map g ks) = list_sum (map (fun k => f k + g k) ks))%nat.
Proof. intros f g ks. induction ks; [reflexivity|]. cbn [map]. rewrite !lsum_cons. lia. Qed.
Lemma xsizes_sum : forall ks, xsizes ks = list_sum (map xsize ks).
Proof. induction ks as [|k ks IH]; cbn [xsizes map]; [reflexivity | rewrite lsum_cons, IH; reflexivity]. Qed.

Lemma cost_bound : forall tt fmt t,
  (dwcost tt fmt false t + 1 <= xsize t)%nat /\ (dwcost tt fmt true t + rcount fmt t <= xsize t)%nat.
Proof.
  intros tt fmt t. induction t as [tag attrs text tail kids IH] using xtree_ind2.
  rewrite xsize_unfold, xsizes_sum. cbn [dwcost rcount]. cbv zeta.
  assert (A : (list_sum (map (rcount fmt) kids) + list_sum (map (dwcost tt fmt true) kids) <= list_sum (map xsize kids))%nat).
  { rewrite list_sum_plus. apply list_sum_le. eapply Forall_impl; [|exact IH]. cbn. intros k [_ H]. lia. }
  assert (B : (list_sum (map (dwcost tt fmt false) kids) <= list_sum (map xsize kids))%nat).
  { apply list_sum_le. eapply Forall_impl; [|exact IH]. cbn. intros k [H _]. lia. }
  assert (L : ((if mem tag tt then match kids with [] => O | _ :: _ =>
                 (list_sum (map (rcount fmt) kids) + list_sum (map (dwcost tt fmt true) kids))%nat end
               else list_sum (map (dwcost tt fmt false) kids)) <= list_sum (map xsize kids))%nat).
  { destruct (mem tag tt); [destruct kids; [cbn; lia | exact A] | exact B]. }
  split; [lia|]. destruct (mem tag fmt); lia.
Qed.

(* fewer than (0xF8FF - counter) / 2 elements in the document is room enough *)
Theorem room_sufficient : forall tt fmt s T,
  ctr s + 2 * N.of_nat (xsize T) <= PUA_END -> room tt fmt s T.
Proof.
  intros tt fmt s T H. unfold room, do_tree. destruct (dw tt fmt false s [] T) as [[s' mk'] T'] eqn:E. cbn [fst].
  pose proof (dw_ctr tt fmt T _ _ _ _ _ _ E). pose proof (proj1 (cost_bound tt fmt T)). lia.
Qed.

(* ------------------------ "for any document" is false: private-use characters *)
(* <p>a&#xE001;b</p>: U+E001 is the built-in close placeholder of diff:insert; a
   NEW maker that has replaced nothing turns the character into an element. *)
Definition pua_T1 : xtree := XNode [112] [] (Some [97; 57345; 98]) [] [].
(* <p>a&#xE002;b</p>: U+E002 is an open placeholder; undo_string runs off the end
   of the segment list looking for its close (IndexError). *)
Definition pua_T2 : xtree := XNode [112] [] (Some [97; 57346; 98]) [] [].

Theorem roundtrip_any_document_refuted :
  (exists T2, room [[112]] [[98]] ph_init pua_T1 /\
     undo_tree (fst (do_tree [[112]] [[98]] ph_init pua_T1)) (snd (do_tree [[112]] [[98]] ph_init pua_T1)) = Ok T2 /\
     ~ tree_equiv T2 pua_T1) /\
  (room [[112]] [[98]] ph_init pua_T2 /\
     undo_tree (fst (do_tree [[112]] [[98]] ph_init pua_T2)) (snd (do_tree [[112]] [[98]] ph_init pua_T2)) = Err EIndex).
Proof.
  split.
  - eexists. split; [vm_compute; discriminate|]. split; [vm_compute; reflexivity|]. vm_compute. discriminate.
  - split; [vm_compute; discriminate | vm_compute; reflexivity].
Qed.
