(* XmlFmtProofs9 -- the ACCEPT side, part 4: along a script (C09).

   * [decode_render]   what the formatter's dispatch makes of the namedtuple the differ yields;
   * [accept_step]     one action, any kind;
   * [accept_script]   the whole script: the working tree stands for the forest the documented
                       semantics (run_spec) produces;
   * [accept_format]   accepting every marked change in the output of xml_format gives the
                       document of that forest (attributes included, exactly; texts up to
                       whitespace normalisation when normalize & WS_TEXT).
   No axioms. *)
From Coq Require Import List NArith ZArith Bool Arith Lia.
Import ListNotations.
Require Import XV.Str XV.Json XV.TextFormat XV.Forest XV.Matcher XV.Differ XV.Spec XV.Path XV.WF XV.ForestProofs XV.TreeProofs
               XV.AttrProofs XV.PathProofs XV.PatcherProofs XV.Render XV.XmlFmt XV.Projections
               XV.XmlFmtProofs0 XV.XmlFmtProofs1 XV.XmlFmtProofs2 XV.XmlFmtProofsR2 XV.XmlFmtProofs3 XV.XmlFmtProofs4 XV.XmlFmtProofs5
               XV.XmlFmtProofs6 XV.XmlFmtProofs7 XV.XmlFmtProofs8.
Require XV.Placeholder XV.PlaceholderUndo.
Local Open Scope nat_scope.

Section Script.
Variable c : cfg.
Variable o : oracle.
Variable rootns : list (option str * str).
Variable pe : penv.
Variable root : id.
Let ws := ws_text c.

(* what the dispatch of handle_action makes of a rendered action *)
Definition dact_of (f : forest) (a : iact) : fres dact :=
  match a with
  | IInsert t tag pos _ => FOk (DInsertNode (gpath pe root f t) tag pos)
  | IInsertComment _ _ _ _ => FErr FAttributeError
  | IMove n t pos => FOk (DMoveNode (gpath pe root f n) (gpath pe root f t) pos)
  | IDelete n => FOk (DDeleteNode (gpath pe root f n))
  | IRename n tag => FOk (DRenameNode (gpath pe root f n) tag)
  | IText n t => FOk (DTextIn (gpath pe root f n) t)
  | ITail n t => FOk (DTextAfter (gpath pe root f n) t)
  | IUpdAttr n k v => FOk (DUpdAttr (gpath pe root f n) k v)
  | IInsAttr n k v => FOk (DInsAttr (gpath pe root f n) k v)
  | IDelAttr n k => FOk (DDelAttr (gpath pe root f n) k)
  | IRenAttr n k k' => FOk (DRenAttr (gpath pe root f n) k k')
  | IInsNs p u => FOk (DInsNs p u)
  | IDelNs _ => FOk DDelNs
  end.

Lemma p_nat_of_nat n : p_nat (PInt (Z.of_nat n)) = FOk n.
Proof. unfold p_nat. destruct (Z.ltb_spec (Z.of_nat n) 0); [lia|]. now rewrite Nat2Z.id. Qed.

Lemma po_str_po t : po_str (po t) = FOk t.
Proof. destruct t; reflexivity. Qed.

Lemma decode_render f a : decode (render pe root f a) = dact_of f a.
Proof.
  destruct a; cbn [render dact_of]; unfold decode, gp, pn, gpath;
    cbn [ga_ctor ga_fields ctor_is]; cbn -[p_nat po_str path_to_str getpath];
    rewrite ?p_nat_of_nat, ?po_str_po; reflexivity.
Qed.

Definition names_plain (a : iact) : Prop :=
  match a with
  | IUpdAttr _ k _ | IInsAttr _ k _ | IDelAttr _ k => plain_name k
  | IRenAttr _ k k' => plain_name k /\ plain_name k'
  | _ => True
  end.

(* one action *)
Theorem accept_step f st d a f' D st' :
  ainv c rootns pe root f st d -> tinv (fs_ph st) ->
  spec_apply root f a = Some f' -> dact_of f a = FOk D -> step_ok rootns st D -> room_ok c st D ->
  handle_d c o rootns st D = FOk st' ->
  exists d', erase d' = fs_tree st' /\ rel ws f' d' /\ did d' = root /\ alive_d d' = true /\ nstep a d d'.
Proof.
  intros HI Hph Hs HD Hok Hroom H.
  destruct a; cbn [dact_of] in HD; inversion HD; subst D; clear HD.
  - exact (accept_Insert c o rootns pe root f st d _ _ _ _ f' st' HI Hs H).
  - exact (accept_Move c o rootns pe root f st d _ _ _ f' st' HI Hs H).
  - exact (accept_Delete c o rootns pe root f st d _ f' st' HI Hs H).
  - exact (accept_Rename c o rootns pe root f st d _ _ f' st' HI Hs H).
  - exact (accept_Text c o rootns pe root f st d _ _ f' st' HI Hph Hok Hroom Hs H).
  - exact (accept_Tail c o rootns pe root f st d _ _ f' st' HI Hph Hok Hroom Hs H).
  - exact (accept_UpdAttr c o rootns pe root f st d _ _ _ f' st' HI Hok Hs H).
  - exact (accept_InsAttr c o rootns pe root f st d _ _ _ f' st' HI Hok Hs H).
  - exact (accept_DelAttr c o rootns pe root f st d _ _ f' st' HI Hok Hs H).
  - destruct Hok as [Hk1 Hk2]. exact (accept_RenAttr c o rootns pe root f st d _ _ _ f' st' HI Hk1 Hk2 Hs H).
  - cbn [spec_apply] in Hs. inversion Hs; subst f'. cbn [handle_d] in H. unfold handle_InsertNamespace in H.
    inversion H; subst st'. cbn [fs_tree]. exists d.
    split; [apply (ai_erase _ _ _ _ _ _ _ HI)|]. split; [apply (ai_rel _ _ _ _ _ _ _ HI)|].
    split; [apply (ai_root _ _ _ _ _ _ _ HI)|split; [apply (ai_alive _ _ _ _ _ _ _ HI)|intros n' x' Hx; now left]].
  - cbn [spec_apply] in Hs. inversion Hs; subst f'. cbn [handle_d] in H. inversion H; subst st'. exists d.
    split; [apply (ai_erase _ _ _ _ _ _ _ HI)|]. split; [apply (ai_rel _ _ _ _ _ _ _ HI)|].
    split; [apply (ai_root _ _ _ _ _ _ _ HI)|split; [apply (ai_alive _ _ _ _ _ _ _ HI)|intros n' x' Hx; now left]].
Qed.

(* the namespace environment and the printable names along the script (as PatcherProofs.script_ok,
   with the formatter's own _nsmap: the root's declarations first, then the inserted ones, last first) *)
Definition ns_after (a : iact) (ns : list (option str * str)) : list (option str * str) :=
  match a with IInsNs p u => ns ++ [(p, u)] | _ => ns end.

Fixpoint fscript_ok (ns : list (option str * str)) (f : forest) (script : list iact) : Prop :=
  match script with
  | [] => True
  | a :: r =>
      env_agrees pe (some_ns rootns ++ some_ns (rev ns)) f root /\ names_ok pe f root /\
      match spec_apply root f a with
      | Some f' => fscript_ok (ns_after a ns) f' r
      | None => True
      end
  end.

Lemma handle_d_ns st a f D st' : dact_of f a = FOk D -> handle_d c o rootns st D = FOk st' ->
  fs_ns st' = ns_after a (fs_ns st).
Proof.
  intros HD H. destruct a; cbn [dact_of] in HD; inversion HD; subst D; clear HD; cbn [handle_d ns_after] in *;
    try (unfold handle_InsertNode, handle_MoveNode, handle_DeleteNode, handle_RenameNode, handle_UpdateTextIn,
           handle_UpdateTextAfter, handle_UpdateAttrib, handle_InsertAttrib, handle_DeleteAttrib, handle_RenameAttrib in H).
  all: try (apply fbind_ok in H as (p & _ & H); apply upd_node_inv in H as (? & ? & _ & _ & ->); reflexivity).
  - (* Move *)
    apply fbind_ok in H as (pn & _ & H). apply fbind_ok in H as (cp & _ & H). apply fbind_ok in H as (pt & _ & H).
    apply fbind_ok in H as (tg & _ & H). inversion H; reflexivity.
  - (* TextIn *)
    apply fbind_ok in H as (p & _ & H). apply fbind_ok in H as (nn & _ & H).
    destruct (is_inserted nn); [inversion H; reflexivity|].
    apply fbind_ok in H as ([[s' out] any] & _ & H). inversion H; reflexivity.
  - (* TextAfter *)
    apply fbind_ok in H as (p & _ & H). apply fbind_ok in H as (nn & _ & H).
    destruct p; apply fbind_ok in H as ([[s' out] any] & _ & H); inversion H; reflexivity.
  - unfold handle_InsertNamespace in H. inversion H; reflexivity.
  - inversion H; reflexivity.
Qed.

Theorem accept_script script : forall f st d gs fT st',
  wf_forest f root -> erase d = fs_tree st -> rel ws f d -> did d = root -> alive_d d = true ->
  tinv (fs_ph st) ->
  run_spec root f script = Some fT -> render_script pe root f script = Some gs ->
  fscript_ok (fs_ns st) f script -> Forall names_plain script ->
  run_ok c o rootns st gs ->
  handle_all c o rootns st gs = FOk st' ->
  wf_forest fT root /\
  exists d', erase d' = fs_tree st' /\ rel ws fT d' /\ did d' = root /\ alive_d d' = true.
Proof.
  induction script as [|a r IH]; intros f st d gs fT st' Hwf He HR Hid Hal Hph Hrun Hren Hok Hnp Hro H.
  - cbn [run_spec render_script] in *. inversion Hrun; inversion Hren; subst. cbn [handle_all] in H. inversion H; subst.
    split; [exact Hwf|eauto].
  - cbn [run_spec render_script fscript_ok] in *.
    destruct (spec_apply root f a) as [f1|] eqn:Hspec; [|discriminate].
    destruct (render_script pe root f1 r) as [gs'|] eqn:Hren'; [|discriminate].
    cbn [option_map] in Hren. inversion Hren; subst gs. clear Hren.
    destruct Hok as (Henv & Hnm & Hok). inversion Hnp as [|? ? Hnp1 Hnpr]; subst.
    cbn [handle_all] in H. apply fbind_ok in H as (st1 & E1 & H).
    rewrite handle_action_decode, decode_render in E1.
    cbn [run_ok] in Hro. rewrite decode_render in Hro.
    destruct (dact_of f a) as [D|e] eqn:ED; [|discriminate]. cbn [fbind] in E1. destruct Hro as (Hs & Hroom & Hr).
    assert (HI : ainv c rootns pe root f st d) by (constructor; assumption).
    destruct (accept_step f st d a f1 D st1 HI Hph Hspec ED Hs Hroom E1) as (d1 & He1 & HR1 & Hid1 & Hal1 & _).
    destruct (step_ph c o rootns st D st1 Hph Hs Hroom E1) as (Hph1 & _).
    apply (IH f1 st1 d1 gs' fT st'); auto.
    + eapply spec_apply_wf; eauto.
    + rewrite (handle_d_ns st a f D st1 ED E1). exact Hok.
Qed.
End Script.

(* ------------------------------------------------------------------ *)
(** * The start: a comment-free forest and its document *)

Definition node_of (l : label) : xtree := XNode (lab_tag l) (lattrs l) (ltext l) (otxt (ltail l)) [].
Fixpoint dt_of (k : nat) (f : forest) (n : id) : dt :=
  match k with
  | O => DN n (node_of (flab f n)) []
  | S k' => DN n (node_of (flab f n)) (map (dt_of k' f) (fkids f n))
  end.

(* no attribute of the document is in the diff namespace *)
Inductive nodiff : xtree -> Prop :=
| NDf tag attrs text tail kids :
    Forall (fun kv : str * str => is_diff_name (fst kv) = false) attrs -> Forall nodiff kids ->
    nodiff (XNode tag attrs text tail kids).

Lemma plain_attrs_id a : Forall (fun kv : str * str => is_diff_name (fst kv) = false) a -> plain_attrs a = a.
Proof.
  unfold plain_attrs. induction 1 as [|kv a H _ IH]; [reflexivity|]. cbn [filter]. rewrite H. cbn [negb]. now rewrite IH.
Qed.

Lemma filter_all {A} (p : A -> bool) l : (forall x, In x l -> p x = true) -> filter p l = l.
Proof.
  induction l as [|x l IH]; intros H; [reflexivity|]. cbn [filter]. rewrite (H x (or_introl eq_refl)).
  f_equal. apply IH. intros y Hy. apply H. now right.
Qed.

Lemma erase_dt_of f : forall k n, fin f n k -> (forall m, desc f n m -> is_comment (ltag (flab f m)) = false) ->
  erase (dt_of k f n) = remove_comments (to_tree k f n).
Proof.
  induction k as [|k IH]; intros n HF HC; [inversion HF|].
  cbn [dt_of to_tree]. rewrite remove_comments_unfold.
  - rewrite erase_node. unfold node_of, with_kids. cbn [xtag xattrs xtext xtail]. f_equal. rewrite !map_map.
    apply map_ext_in. intros m Hm. apply IH; [eapply fin_kid; eauto|].
    intros x Hx. apply HC. eapply desc_trans; [apply desc_child; exact Hm|exact Hx].
  - apply Forall_forall. intros t Ht. apply in_map_iff in Ht as (m & <- & Hm). rewrite to_tree_label.
    apply HC, desc_child, Hm.
Qed.

Lemma rel_init ws0 f : forall k n, fin f n k -> (forall m, desc f n m -> is_comment (ltag (flab f m)) = false) ->
  nodiff (erase (dt_of k f n)) -> PlaceholderUndo.npua (erase (dt_of k f n)) = true ->
  rel ws0 f (dt_of k f n) /\ alive_d (dt_of k f n) = true.
Proof.
  induction k as [|k IH]; intros n HF HC HN HP; [inversion HF|].
  cbn [dt_of] in *. rewrite erase_node in HN, HP. unfold node_of, with_kids in *. cbn [xtag xattrs xtext xtail] in HN, HP.
  inversion HN as [? ? ? ? ? Ha Hk]; subst. cbn [PlaceholderUndo.npua] in HP.
  apply andb_true_iff in HP as [HP Hpk]. apply andb_true_iff in HP as [Ht Htl].
  assert (Hel : is_comment (ltag (flab f n)) = false) by (apply HC; constructor).
  assert (Hkids : forall m, In m (fkids f n) -> rel ws0 f (dt_of k f m) /\ alive_d (dt_of k f m) = true).
  { intros m Hm. apply IH.
    - eapply fin_kid; eauto.
    - intros x Hx. apply HC. eapply desc_trans; [apply desc_child; exact Hm|exact Hx].
    - rewrite Forall_forall in Hk. apply Hk. rewrite map_map. apply in_map_iff. exists m. auto.
    - rewrite forallb_forall in Hpk. apply Hpk. rewrite map_map. apply in_map_iff. exists m. auto. }
  split.
  - constructor.
    + unfold lab_ok. cbn [xtag xattrs xtext xtail]. repeat split.
      * unfold lab_tag. destruct (ltag (flab f n)); [reflexivity|discriminate].
      * symmetry. apply plain_attrs_id, Ha.
      * unfold txt_ok. rewrite (astr_plain _ Ht). destruct (ltext (flab f n)); reflexivity.
      * unfold txt_ok. rewrite (astr_plain _ Htl). destruct (ltail (flab f n)); reflexivity.
    + assert (E : filter alive_d (map (dt_of k f) (fkids f n)) = map (dt_of k f) (fkids f n)).
      { apply filter_all. intros x Hx. apply in_map_iff in Hx as (m & <- & Hm). apply Hkids, Hm. }
      rewrite E, map_map. clear. induction (fkids f n) as [|m r IHr]; [reflexivity|]. cbn [map]. f_equal; [destruct k; reflexivity|exact IHr].
    + apply Forall_forall. intros x Hx _. apply in_map_iff in Hx as (m & <- & Hm). apply Hkids, Hm.
  - unfold alive_d, alive_w, is_deleted, ahas. cbn [dlab xattrs].
    rewrite <- (plain_attrs_id _ Ha), aget_plain_attrs; [reflexivity|apply is_diff_dname].
Qed.

(* ------------------------------------------------------------------ *)
(** * C09: accepting every marked change *)

Lemma nodiff_unmarked : forall W, nodiff W -> unmarked W.
Proof.
  induction W as [tag attrs text tail kids IH] using Placeholder.xtree_ind2. intros H. inversion H as [? ? ? ? ? Ha Hk]; subst.
  constructor.
  - rewrite <- (plain_attrs_id _ Ha). apply aget_plain_attrs, is_diff_dname.
  - rewrite <- (plain_attrs_id _ Ha). apply aget_plain_attrs, is_diff_dname.
  - rewrite Forall_forall in *. intros k Hin. apply IH; auto.
Qed.

Theorem accept_format c o rootns pe root L script gs fT T :
  wf_forest L root -> (forall m, desc L root m -> is_comment (ltag (flab L m)) = false) ->
  let W := remove_comments (doc_tree L root) in
  PlaceholderUndo.npua W = true -> clean_tags W -> nodiff W ->
  run_spec root L script = Some fT -> render_script pe root L script = Some gs ->
  fscript_ok rootns pe root [(Some DIFF_PREFIX, DIFF_NS)] L script -> Forall names_plain script ->
  run_ok c o rootns (FS W ph_init [(Some DIFF_PREFIX, DIFF_NS)]) gs ->
  xml_format c o rootns ph_init gs W = FOk T ->
  xequiv (ws_text c) (accept T) (remove_comments (doc_tree fT root)).
Proof.
  intros Hwf HC W HP HCl HN Hrun Hren Hok Hnp Hro H.
  set (d0 := dt_of (S (fnext L)) L root).
  assert (HF : fin L root (S (fnext L))) by (eapply fin_mono; [apply (fin_root L root Hwf)|lia]).
  assert (E0 : erase d0 = W) by (apply (erase_dt_of L _ root HF HC)).
  destruct (rel_init (ws_text c) L _ root HF HC ltac:(fold d0; rewrite E0; exact HN) ltac:(fold d0; rewrite E0; exact HP)) as [HR0 Ha0].
  fold d0 in HR0, Ha0.
  unfold xml_format in H. apply fbind_ok in H as (st & E & H).
  destruct (handle_all_ph c o rootns gs (FS W ph_init [(Some DIFF_PREFIX, DIFF_NS)]) st tinv_init Hro E) as [HS _].
  set (S := fs_ph st) in *.
  assert (HW : winv S W).
  { split; [apply npua_run_tree, HP|exact HCl| |].
    - unfold W, doc_tree. cbn [to_tree]. rewrite remove_comments_unfold.
      + cbn [xtail]. rewrite (wf_root_tail _ _ Hwf). reflexivity.
      + apply Forall_forall. intros t Ht. apply in_map_iff in Ht as (m & <- & Hm). rewrite to_tree_label. apply HC, desc_child, Hm.
    - pose proof (nodiff_unmarked W HN) as HU. destruct W as [wt wa wx wl wk]. inversion HU as [? ? ? ? ? Hx _ _]; subst.
      unfold is_inserted, ahas. cbn [xattrs]. now rewrite Hx. }
  destruct (accept_script c o rootns pe root script L (FS W ph_init [(Some DIFF_PREFIX, DIFF_NS)]) d0 gs fT st
              Hwf E0 HR0 eq_refl Ha0 tinv_init Hrun Hren Hok Hnp Hro E) as (HwfT & d' & Ed & HRT & HidT & HalT).
  destruct (handle_all_reject c o rootns S gs HS (FS W ph_init [(Some DIFF_PREFIX, DIFF_NS)]) st HW tinv_init Hro E (sext_refl _)) as (I & _).
  destruct (finalize_run S HS (fs_tree st) (wi_run _ _ I) (wi_tags _ _ I) (wi_tail _ _ I)) as (T' & F & A & _).
  rewrite F in H. inversion H; subst T'. unfold xequiv.
  rewrite A, canon_drop_set_tail, !canon_drop, <- Ed. f_equal.
  rewrite <- HidT. apply rel_tree; [exact HRT|].
  rewrite HidT. eapply fin_mono; [apply (fin_root fT root HwfT)|lia].
Qed.
