(* PatcherProofs.v -- the patcher half of C01/C04/C05: the handler programs
   generated from xmldiff/patch.py perform the documented action whenever the
   paths they are given are the getpath strings of the intended nodes.

   Structure:
   (a) [expected_progs]: the 13 handler programs as the current source yields
       them, written by hand; all lemmas are about THOSE;
   (b) [patcher_progs_expected : patcher_progs = expected_progs], by computation:
       the obligation that breaks when a handler is edited (e.g. detaching the
       node before resolving the target in MoveNode, or dropping namespaces=);
   (c) the interpreter respects pointwise equality of forests ([handle_action_ext]);
   (d) [patcher_refines_spec]: for every identity-level action that the
       documented semantics accepts, the handler run on the rendered action
       succeeds and yields the documented tree (pointwise) and environment --
       for either value of asserts_on;
   (e) [patcher_asserts_unreachable]: python -O makes no difference there;
   (f) [spec_apply_wf]: the documented semantics preserves wf_forest;
   (g) [patch_replays_script]: Patcher.patch replays a whole rendered script.

   Namespace actions: InsertNamespace with prefix None (default namespace) makes
   the generated handler fail (nsmap[None], modelled as PTypeError); it is
   excluded by the explicit hypothesis [ns_named]. *)
From Coq Require Import List NArith ZArith Bool Arith Lia.
Import ListNotations.
Require Import XV.Str XV.Json XV.TextFormat XV.Forest XV.Matcher XV.Differ XV.Spec XV.WF
               XV.ForestProofs XV.TreeProofs XV.AttrProofs XV.Path XV.PatcherDSL XV.Render
               XV.Gen.TextTables XV.Gen.PatcherProg XV.PathProofs.

(* ------------------------------------------------------------------ *)
(** * (a) the expected handler programs                                *)
(* ------------------------------------------------------------------ *)
Definition fn_node : str := [110;111;100;101]%N.
Definition fn_target : str := [116;97;114;103;101;116]%N.
Definition fn_tag : str := [116;97;103]%N.
Definition fn_position : str := [112;111;115;105;116;105;111;110]%N.
Definition fn_text : str := [116;101;120;116]%N.
Definition fn_name : str := [110;97;109;101]%N.
Definition fn_value : str := [118;97;108;117;101]%N.
Definition fn_oldname : str := [111;108;100;110;97;109;101]%N.
Definition fn_newname : str := [110;101;119;110;97;109;101]%N.
Definition fn_prefix : str := [112;114;101;102;105;120]%N.
Definition fn_uri : str := [117;114;105]%N.

Definition prog_DeleteNode := [PResolve 0 fn_node true; PDetach 0].
Definition prog_InsertNode := [PResolve 0 fn_target true; PMakeElement 1 0 fn_tag; PInsertAt 0 fn_position 1].
Definition prog_RenameNode := [PResolve 0 fn_node true; PSetTag 0 fn_tag].
(* both paths are resolved BEFORE the node is detached; both with namespaces= *)
Definition prog_MoveNode := [PResolve 0 fn_node true; PResolve 1 fn_target true; PDetach 0;
                             PInsertAt 1 fn_position 0].
Definition prog_UpdateTextIn := [PResolve 0 fn_node true; PSetText 0 fn_text].
Definition prog_UpdateTextAfter := [PResolve 0 fn_node true; PSetTail 0 fn_text].
Definition prog_UpdateAttrib := [PResolve 0 fn_node true; PAssertHas 0 fn_name; PSetAttr 0 fn_name fn_value].
Definition prog_DeleteAttrib := [PResolve 0 fn_node true; PDelAttr 0 fn_name].
Definition prog_InsertAttrib := [PResolve 0 fn_node true; PAssertLacks 0 fn_name; PSetAttr 0 fn_name fn_value].
Definition prog_RenameAttrib := [PResolve 0 fn_node true; PAssertHas 0 fn_oldname; PAssertLacks 0 fn_newname;
                                 PCopyAttr 0 fn_newname fn_oldname; PDelAttr 0 fn_oldname].
Definition prog_InsertComment := [PResolve 0 fn_target true; PMakeComment 1 fn_text; PInsertAt 0 fn_position 1].
Definition prog_InsertNamespace := [PBindPrefix fn_prefix fn_uri].
Definition prog_DeleteNamespace := [PNop].

Definition expected_progs : list (str * list pinstr) :=
  [ (n_DeleteNode, prog_DeleteNode); (n_InsertNode, prog_InsertNode); (n_RenameNode, prog_RenameNode);
    (n_MoveNode, prog_MoveNode); (n_UpdateTextIn, prog_UpdateTextIn);
    (n_UpdateTextAfter, prog_UpdateTextAfter); (n_UpdateAttrib, prog_UpdateAttrib);
    (n_DeleteAttrib, prog_DeleteAttrib); (n_InsertAttrib, prog_InsertAttrib);
    (n_RenameAttrib, prog_RenameAttrib); (n_InsertComment, prog_InsertComment);
    (n_InsertNamespace, prog_InsertNamespace); (n_DeleteNamespace, prog_DeleteNamespace) ].

(* ------------------------------------------------------------------ *)
(** * (b) the generated programs are the expected ones                  *)
(* ------------------------------------------------------------------ *)
Theorem patcher_progs_expected : patcher_progs = expected_progs.
Proof. vm_compute. reflexivity. Qed.

(* ------------------------------------------------------------------ *)
(** * (c) the interpreter respects pointwise equality of forests        *)
(* ------------------------------------------------------------------ *)
Lemma ext_refl f : forest_ext_eq f f.
Proof. split; [reflexivity|split; intros; reflexivity]. Qed.

Lemma ext_sym f g : forest_ext_eq f g -> forest_ext_eq g f.
Proof. intros (H1 & H2 & H3). split; [symmetry; exact H1|split; intros n; symmetry; auto]. Qed.

Lemma ext_trans f g h : forest_ext_eq f g -> forest_ext_eq g h -> forest_ext_eq f h.
Proof.
  intros (H1 & H2 & H3) (K1 & K2 & K3).
  split; [congruence|split; intros n; [rewrite H2; apply K2|rewrite H3; apply K3]].
Qed.

Lemma find_ext {A} (p q : A -> bool) l : (forall x, p x = q x) -> find p l = find q l.
Proof. intros H. induction l as [|a l IH]; cbn [find]; [reflexivity|]. rewrite H, IH. reflexivity. Qed.

Lemma parentof_ext f g n : forest_ext_eq f g -> parentof f n = parentof g n.
Proof.
  intros (H1 & H2 & H3). unfold parentof. rewrite H1. apply find_ext. intros p. rewrite H2. reflexivity.
Qed.

Lemma upd_ext {A} (f g : id -> A) k v : (forall x, f x = g x) -> forall x, upd f k v x = upd g k v x.
Proof. intros H x. unfold upd. destruct (Nat.eqb x k); [reflexivity|apply H]. Qed.

Lemma detach_ext f g n : forest_ext_eq f g -> forest_ext_eq (detach f n) (detach g n).
Proof.
  intros H. pose proof H as (H1 & H2 & H3). unfold detach. rewrite <- (parentof_ext f g n H).
  destruct (parentof f n) as [p|]; [|exact H].
  split; [exact H1|]. split; [|exact H3].
  cbn [set_kids fkids]. rewrite (H2 p). apply upd_ext. exact H2.
Qed.

Lemma insert_at_ext f g p pos n : forest_ext_eq f g -> forest_ext_eq (insert_at f p pos n) (insert_at g p pos n).
Proof.
  intros (H1 & H2 & H3). unfold insert_at. split; [exact H1|]. split; [|exact H3].
  cbn [set_kids fkids]. rewrite (H2 p). apply upd_ext. exact H2.
Qed.

Lemma alloc_ext f g l : forest_ext_eq f g ->
  forest_ext_eq (fst (alloc f l)) (fst (alloc g l)) /\ snd (alloc f l) = snd (alloc g l).
Proof.
  intros (H1 & H2 & H3). unfold alloc. cbn [fst snd]. rewrite H1. split; [|reflexivity].
  split; [reflexivity|]. split; cbn [fkids flab]; apply upd_ext; assumption.
Qed.

Lemma set_lab_ext f g n l : forest_ext_eq f g -> forest_ext_eq (set_lab f n l) (set_lab g n l).
Proof.
  intros (H1 & H2 & H3). split; [exact H1|]. split; [exact H2|]. cbn [set_lab flab]. apply upd_ext. exact H3.
Qed.

Lemma set_label_ext f g n k : forest_ext_eq f g -> forest_ext_eq (set_label f n k) (set_label g n k).
Proof.
  intros H. unfold set_label, labof. destruct H as (H1 & H2 & H3). rewrite (H3 n).
  apply set_lab_ext. split; [exact H1|split; assumption].
Qed.

Lemma filter_test_ext e f g t l : (forall n, flab f n = flab g n) -> filter_test e f t l = filter_test e g t l.
Proof.
  intros H. induction l as [|n r IH]; [reflexivity|]. cbn [filter_test]. unfold labof. rewrite (H n), IH. reflexivity.
Qed.

Lemma eval_steps_ext e f g : forest_ext_eq f g -> forall p c, eval_steps e f p c = eval_steps e g p c.
Proof.
  intros (H1 & H2 & H3). induction p as [|s r IH]; intros c; [reflexivity|].
  cbn [eval_steps].
  replace (map (fun c0 => step_from e f s (kidsof f c0)) c) with (map (fun c0 => step_from e g s (kidsof g c0)) c).
  - destruct (all_some (map (fun c0 => step_from e g s (kidsof g c0)) c)); [apply IH|reflexivity].
  - apply map_ext. intros a. unfold step_from, kidsof. rewrite (H2 a), (filter_test_ext e f g _ _ H3). reflexivity.
Qed.

Lemma eval_all_ext e f g root p : forest_ext_eq f g -> eval_all e f root p = eval_all e g root p.
Proof.
  intros H. destruct p as [|s r]; [reflexivity|]. cbn [eval_all]. unfold step_from.
  destruct H as (H1 & H2 & H3). rewrite (filter_test_ext e f g _ _ H3).
  destruct (option_map (select_idx (st_idx s)) (filter_test e g (st_test s) [root])); [|reflexivity].
  apply eval_steps_ext. split; [exact H1|split; assumption].
Qed.

Definition ps_ext (s1 s2 : pstate) : Prop :=
  forest_ext_eq (ps_f s1) (ps_f s2) /\ ps_env s1 = ps_env s2 /\ forall v, ps_vars s1 v = ps_vars s2 v.
Definition pres_ext (r1 r2 : pres pstate) : Prop :=
  match r1, r2 with
  | POk a, POk b => ps_ext a b
  | PErr e1, PErr e2 => e1 = e2
  | _, _ => False
  end.

Lemma ps_ext_refl s : ps_ext s s.
Proof. split; [apply ext_refl|split; [reflexivity|intros; reflexivity]]. Qed.

Lemma pbind_ext {A} (r : pres A) (k1 k2 : A -> pres pstate) :
  (forall a, r = POk a -> pres_ext (k1 a) (k2 a)) -> pres_ext (pbind r k1) (pbind r k2).
Proof. intros H. destruct r as [a|e]; cbn [pbind]; [apply H; reflexivity|reflexivity]. Qed.

Lemma pbind_ext2 (r1 r2 : pres pstate) (k1 k2 : pstate -> pres pstate) :
  pres_ext r1 r2 -> (forall a b, ps_ext a b -> pres_ext (k1 a) (k2 b)) -> pres_ext (pbind r1 k1) (pbind r2 k2).
Proof.
  intros H K. destruct r1 as [a|e], r2 as [b|e']; cbn [pbind pres_ext] in *; try contradiction.
  - apply K. exact H.
  - exact H.
Qed.

Lemma get_var_ext s1 s2 v : ps_ext s1 s2 -> get_var s1 v = get_var s2 v.
Proof. intros (_ & _ & H). unfold get_var. rewrite (H v). reflexivity. Qed.

Lemma with_f_ext s1 s2 f g : ps_ext s1 s2 -> forest_ext_eq f g -> ps_ext (with_f s1 f) (with_f s2 g).
Proof. intros (_ & H2 & H3) H. split; [exact H|split; assumption]. Qed.

Lemma set_var_ext s1 s2 v n : ps_ext s1 s2 -> ps_ext (set_var s1 v n) (set_var s2 v n).
Proof.
  intros (H1 & H2 & H3). split; [exact H1|]. split; [exact H2|].
  intros x. cbn [set_var ps_vars]. destruct (Nat.eqb x v); [reflexivity|apply H3].
Qed.

Lemma labof_ext f g n : forest_ext_eq f g -> labof f n = labof g n.
Proof. intros (_ & _ & H). apply H. Qed.

Section Ext.
Variable sig : list (str * list str).
Variable b : bool.
Variable root : id.

Lemma step_instr_ext a s1 s2 i : ps_ext s1 s2 ->
  pres_ext (step_instr sig b root a s1 i) (step_instr sig b root a s2 i).
Proof.
  intros H. pose proof H as (Hf & He & Hv).
  destruct i; cbn [step_instr]; rewrite <- ?(get_var_ext s1 s2 _ H).
  - (* PResolve *)
    apply pbind_ext. intros ps _. destruct (path_of_str ps) as [p|]; [|reflexivity].
    rewrite <- He, <- (eval_all_ext _ (ps_f s1) (ps_f s2) root p Hf).
    destruct (eval_all (if with_ns then ps_env s1 else []) (ps_f s1) root p) as [[|n r]|]; try reflexivity.
    apply set_var_ext. exact H.
  - (* PDetach *)
    apply pbind_ext. intros n _. rewrite <- (parentof_ext _ _ n Hf).
    destruct (parentof (ps_f s1) n); [|reflexivity].
    apply with_f_ext; [exact H|]. apply detach_ext. exact Hf.
  - (* PInsertAt *)
    apply pbind_ext. intros tn _. apply pbind_ext. intros n _. apply pbind_ext. intros pos _.
    rewrite <- (labof_ext _ _ tn Hf). destruct (is_comment (ltag (labof (ps_f s1) tn))); [reflexivity|].
    apply with_f_ext; [exact H|]. apply insert_at_ext. exact Hf.
  - (* PMakeElement *)
    apply pbind_ext. intros _ _. apply pbind_ext. intros tag _.
    destruct (alloc_ext (ps_f s1) (ps_f s2) (Lab (TElem tag) [] None None) Hf) as [E1 E2].
    rewrite (alloc_eta (ps_f s1)), (alloc_eta (ps_f s2)).
    rewrite (alloc_eta (ps_f s1)), (alloc_eta (ps_f s2)) in E2. cbn [snd] in E2. rewrite E2.
    apply set_var_ext. apply with_f_ext; [exact H|exact E1].
  - (* PMakeComment *)
    apply pbind_ext. intros txt _.
    destruct (alloc_ext (ps_f s1) (ps_f s2) (Lab TComment [] txt None) Hf) as [E1 E2].
    rewrite (alloc_eta (ps_f s1)), (alloc_eta (ps_f s2)).
    rewrite (alloc_eta (ps_f s1)), (alloc_eta (ps_f s2)) in E2. cbn [snd] in E2. rewrite E2.
    apply set_var_ext. apply with_f_ext; [exact H|exact E1].
  - (* PSetTag *)
    apply pbind_ext. intros n _. apply pbind_ext. intros tag _.
    apply with_f_ext; [exact H|]. apply set_label_ext. exact Hf.
  - (* PSetText *)
    apply pbind_ext. intros n _. apply pbind_ext. intros t _.
    apply with_f_ext; [exact H|]. apply set_label_ext. exact Hf.
  - (* PSetTail *)
    apply pbind_ext. intros n _. apply pbind_ext. intros t _.
    apply with_f_ext; [exact H|]. apply set_label_ext. exact Hf.
  - (* PAssertHas *)
    apply pbind_ext. intros n _. apply pbind_ext. intros k _.
    rewrite <- (labof_ext _ _ n Hf).
    destruct (negb b || ahas (lattrs (labof (ps_f s1) n)) k); [exact H|reflexivity].
  - (* PAssertLacks *)
    apply pbind_ext. intros n _. apply pbind_ext. intros k _.
    rewrite <- (labof_ext _ _ n Hf).
    destruct (negb b || negb (ahas (lattrs (labof (ps_f s1) n)) k)); [exact H|reflexivity].
  - (* PSetAttr *)
    apply pbind_ext. intros n _. apply pbind_ext. intros k _. apply pbind_ext. intros x _.
    apply with_f_ext; [exact H|]. apply set_label_ext. exact Hf.
  - (* PDelAttr *)
    apply pbind_ext. intros n _. apply pbind_ext. intros k _.
    rewrite <- (labof_ext _ _ n Hf). destruct (ahas (lattrs (labof (ps_f s1) n)) k); [|reflexivity].
    apply with_f_ext; [exact H|]. apply set_label_ext. exact Hf.
  - (* PCopyAttr *)
    apply pbind_ext. intros n _. apply pbind_ext. intros k' _. apply pbind_ext. intros k _.
    rewrite <- (labof_ext _ _ n Hf). destruct (aget (lattrs (labof (ps_f s1) n)) k); [|reflexivity].
    apply with_f_ext; [exact H|]. apply set_label_ext. exact Hf.
  - (* PBindPrefix *)
    apply pbind_ext. intros p _. apply pbind_ext. intros u _.
    destruct p as [p|]; [|reflexivity].
    split; [exact Hf|]. split; [cbn [ps_env]; rewrite He; reflexivity|exact Hv].
  - (* PNop *)
    exact H.
Qed.

Lemma run_prog_ext a prog : forall s1 s2, ps_ext s1 s2 ->
  pres_ext (run_prog sig b root a s1 prog) (run_prog sig b root a s2 prog).
Proof.
  induction prog as [|i r IH]; intros s1 s2 H; cbn [run_prog]; [exact H|].
  apply pbind_ext2; [apply step_instr_ext; exact H|]. intros x y Hxy. apply IH. exact Hxy.
Qed.

Lemma handle_action_ext progs a s1 s2 :
  forest_ext_eq (ps_f s1) (ps_f s2) -> ps_env s1 = ps_env s2 ->
  pres_ext (handle_action sig b root progs s1 a) (handle_action sig b root progs s2 a).
Proof.
  intros Hf He. unfold handle_action.
  destruct (find (fun p => str_eqb (fst p) (ga_ctor a)) progs) as [[c prog]|]; [|reflexivity].
  apply pbind_ext2.
  - apply run_prog_ext. split; [exact Hf|]. split; [exact He|intros; reflexivity].
  - intros x y Hxy. exact Hxy.
Qed.
End Ext.

(* ------------------------------------------------------------------ *)
(** * (d) each handler performs the documented action                   *)
(* ------------------------------------------------------------------ *)
Definition env_after (a : iact) (env : nsenv) : nsenv :=
  match a with IInsNs (Some p) u => env_set env p u | _ => env end.
(* InsertNamespace actions carry a prefix (not the default namespace) *)
Definition ns_named (a : iact) : Prop :=
  match a with IInsNs None _ => False | _ => True end.

Lemma str_field_of a n s : field actions_sig a n = Some (PStr s) -> str_field actions_sig a n = POk s.
Proof. unfold str_field. intros ->. reflexivity. Qed.

Lemma ostr_field_of a n o : field actions_sig a n = Some (po o) -> ostr_field actions_sig a n = POk o.
Proof. unfold ostr_field. intros ->. destruct o; reflexivity. Qed.

Lemma nat_field_of a n k : field actions_sig a n = Some (pn k) -> nat_field actions_sig a n = POk k.
Proof.
  unfold nat_field, pn. intros ->.
  destruct (Z.ltb_spec (Z.of_nat k) 0) as [H|H]; [lia|]. rewrite Nat2Z.id. reflexivity.
Qed.

Lemma pbind_ret {A} (r : pres A) : pbind r (fun x => POk x) = r.
Proof. destruct r; reflexivity. Qed.

Section Handlers.
Variable b : bool.          (* asserts_on: the proofs go through for either value *)
Variable root : id.
Variable pe : penv.

Lemma handle_expected s a c prog :
  find (fun p => str_eqb (fst p) (ga_ctor a)) expected_progs = Some (c, prog) ->
  handle_action actions_sig b root expected_progs s a
  = run_prog actions_sig b root a (PS (ps_f s) (ps_env s) (fun _ => None)) prog.
Proof. intros H. unfold handle_action. rewrite H. apply pbind_ret. Qed.

Definition resolves (env : nsenv) (f : forest) (ps : str) (n : id) : Prop :=
  exists p, path_of_str ps = Some p /\ eval_all env f root p = Some [n].

Lemma alive_In f n : alive f root n = true -> In n (doc_nodes f root).
Proof. unfold alive. apply mem_In. Qed.

Lemma resolves_getpath env f n :
  wf_forest f root -> env_agrees pe env f root -> names_ok pe f root -> alive f root n = true ->
  resolves env f (path_to_str (getpath pe f root n)) n.
Proof.
  intros Hwf He Hn Ha. apply alive_In in Ha. exists (getpath pe f root n).
  split; [apply path_roundtrip; assumption|]. apply (getpath_unique pe env f root n Hwf Ha He).
Qed.

Lemma alive_lt f n : wf_forest f root -> alive f root n = true -> n < fnext f.
Proof.
  intros Hwf Ha. apply (alive_iff f root n Hwf) in Ha.
  eapply desc_lt; [exact Hwf|apply (wf_root_lt _ _ Hwf)|exact Ha].
Qed.

Lemma alive_parent f n : wf_forest f root -> alive f root n = true -> n <> root ->
  exists p, parentof f n = Some p.
Proof.
  intros Hwf Ha Hne. apply (alive_iff f root n Hwf) in Ha.
  apply desc_last in Ha as [->|(p & Hd & Hin)]; [congruence|].
  exists p. eapply parentof_of_In; [exact Hwf| |exact Hin].
  eapply desc_lt; [exact Hwf|apply (wf_root_lt _ _ Hwf)|exact Hd].
Qed.

Ltac prun := cbn [run_prog step_instr pbind get_var set_var with_f ps_f ps_env ps_vars Nat.eqb].
Ltac sfield := match goal with |- context [str_field actions_sig ?a ?n] =>
                 rewrite (str_field_of a n _ eq_refl) end; prun.
Ltac ofield := match goal with |- context [ostr_field actions_sig ?a ?n] =>
                 rewrite (ostr_field_of a n _ eq_refl) end; prun.
Ltac nfield := match goal with |- context [nat_field actions_sig ?a ?n] =>
                 rewrite (nat_field_of a n _ eq_refl) end; prun.

Lemma labof_set_label f n g : labof (set_label f n g) n = g (labof f n).
Proof. unfold set_label, labof. cbn [set_lab flab]. apply upd_same. Qed.

Lemma set_label_twice_ext f n g1 g2 L :
  g2 (g1 (labof f n)) = L -> forest_ext_eq (set_label (set_label f n g1) n g2) (set_lab f n L).
Proof.
  intros H. split; [reflexivity|]. split; [reflexivity|]. intros x.
  unfold set_label at 1. rewrite labof_set_label, H. unfold set_label.
  cbn [set_lab flab]. unfold upd. destruct (Nat.eqb x n); reflexivity.
Qed.

Lemma is_elem_not_comment f n : is_elem f n = true -> is_comment (ltag (labof f n)) = false.
Proof. unfold is_elem. apply negb_true_iff. Qed.

Ltac start_handler c prog :=
  cbn [render]; rewrite (handle_expected _ (GA c _) _ prog eq_refl);
  cbn [ps_f ps_env]; unfold prog; prun.
Ltac resolve_with Hp Hev := sfield; rewrite Hp; prun; rewrite Hev; prun.
Ltac finish_refl :=
  eexists; split; [reflexivity|]; cbn [ps_f ps_env with_f env_after];
  split; [apply ext_refl|reflexivity].

Theorem handlers_refine_spec env f vars ia f' :
  wf_forest f root -> env_agrees pe env f root -> names_ok pe f root -> ns_named ia ->
  spec_apply root f ia = Some f' ->
  exists s', handle_action actions_sig b root expected_progs (PS f env vars) (render pe root f ia) = POk s'
             /\ forest_ext_eq (ps_f s') f' /\ ps_env s' = env_after ia env.
Proof.
  intros Hwf He Hnm Hns Hspec.
  destruct ia as [t tag pos n|t pos txt n|n t pos|n|n tag|n txt|n txt|n k v|n k v|n k|n k k'|p u|p];
    cbn [spec_apply] in Hspec.
  - (* IInsert *)
    destruct (alive f root t && is_elem f t && Nat.leb pos (length (kidsof f t)) && Nat.eqb n (fnext f)) eqn:C;
      [|discriminate].
    cbn [alloc] in Hspec. inversion Hspec; subst f'. clear Hspec.
    apply andb_true_iff in C as [C C4]. apply andb_true_iff in C as [C C3]. apply andb_true_iff in C as [C1 C2].
    apply Nat.eqb_eq in C4. subst n.
    destruct (resolves_getpath env f t Hwf He Hnm C1) as (p & Hp & Hev).
    pose proof (alive_lt f t Hwf C1) as Hlt. apply is_elem_not_comment in C2.
    start_handler n_InsertNode prog_InsertNode. resolve_with Hp Hev.
    sfield. cbn [alloc]. prun. nfield.
    unfold labof at 1. cbn [flab]. rewrite upd_other by lia. fold (labof f t). rewrite C2.
    finish_refl.
  - (* IInsertComment *)
    destruct (alive f root t && is_elem f t && Nat.leb pos (length (kidsof f t)) && Nat.eqb n (fnext f)) eqn:C;
      [|discriminate].
    cbn [alloc] in Hspec. inversion Hspec; subst f'. clear Hspec.
    apply andb_true_iff in C as [C C4]. apply andb_true_iff in C as [C C3]. apply andb_true_iff in C as [C1 C2].
    apply Nat.eqb_eq in C4. subst n.
    destruct (resolves_getpath env f t Hwf He Hnm C1) as (p & Hp & Hev).
    pose proof (alive_lt f t Hwf C1) as Hlt. apply is_elem_not_comment in C2.
    start_handler n_InsertComment prog_InsertComment. resolve_with Hp Hev.
    ofield. cbn [alloc]. prun. nfield.
    unfold labof at 1. cbn [flab]. rewrite upd_other by lia. fold (labof f t). rewrite C2.
    finish_refl.
  - (* IMove *)
    destruct (alive f root n && negb (Nat.eqb n root) && alive f root t && is_elem f t
              && negb (mem t (subtree (S (fnext f)) f n))
              && Nat.leb pos (length (remove_id n (kidsof f t)))) eqn:C; [|discriminate].
    inversion Hspec; subst f'. clear Hspec.
    apply andb_true_iff in C as [C C6]. apply andb_true_iff in C as [C C5]. apply andb_true_iff in C as [C C4].
    apply andb_true_iff in C as [C C3]. apply andb_true_iff in C as [C1 C2].
    apply negb_true_iff, Nat.eqb_neq in C2.
    destruct (resolves_getpath env f n Hwf He Hnm C1) as (p & Hp & Hev).
    destruct (resolves_getpath env f t Hwf He Hnm C3) as (p2 & Hp2 & Hev2).
    destruct (alive_parent f n Hwf C1 C2) as [q Hq]. apply is_elem_not_comment in C4.
    start_handler n_MoveNode prog_MoveNode. resolve_with Hp Hev. resolve_with Hp2 Hev2.
    rewrite Hq. prun. nfield.
    unfold labof at 1. rewrite flab_detach. fold (labof f t). rewrite C4.
    finish_refl.
  - (* IDelete *)
    destruct (alive f root n && negb (Nat.eqb n root) && match kidsof f n with [] => true | _ => false end) eqn:C;
      [|discriminate].
    inversion Hspec; subst f'. clear Hspec.
    apply andb_true_iff in C as [C C3]. apply andb_true_iff in C as [C1 C2].
    apply negb_true_iff, Nat.eqb_neq in C2.
    destruct (resolves_getpath env f n Hwf He Hnm C1) as (p & Hp & Hev).
    destruct (alive_parent f n Hwf C1 C2) as [q Hq].
    start_handler n_DeleteNode prog_DeleteNode. resolve_with Hp Hev.
    rewrite Hq. finish_refl.
  - (* IRename *)
    destruct (alive f root n && is_elem f n) eqn:C; [|discriminate].
    cbv zeta in Hspec. inversion Hspec; subst f'. clear Hspec.
    apply andb_true_iff in C as [C1 C2].
    destruct (resolves_getpath env f n Hwf He Hnm C1) as (p & Hp & Hev).
    start_handler n_RenameNode prog_RenameNode. resolve_with Hp Hev.
    sfield. finish_refl.
  - (* IText *)
    destruct (alive f root n) eqn:C1; [|discriminate].
    cbv zeta in Hspec. inversion Hspec; subst f'. clear Hspec.
    destruct (resolves_getpath env f n Hwf He Hnm C1) as (p & Hp & Hev).
    start_handler n_UpdateTextIn prog_UpdateTextIn. resolve_with Hp Hev.
    ofield. finish_refl.
  - (* ITail *)
    destruct (alive f root n && negb (Nat.eqb n root)) eqn:C; [|discriminate].
    cbv zeta in Hspec. inversion Hspec; subst f'. clear Hspec.
    apply andb_true_iff in C as [C1 C2].
    destruct (resolves_getpath env f n Hwf He Hnm C1) as (p & Hp & Hev).
    start_handler n_UpdateTextAfter prog_UpdateTextAfter. resolve_with Hp Hev.
    ofield. finish_refl.
  - (* IUpdAttr *)
    cbv zeta in Hspec.
    destruct (alive f root n && is_elem f n && ahas (lattrs (labof f n)) k) eqn:C; [|discriminate].
    inversion Hspec; subst f'. clear Hspec.
    apply andb_true_iff in C as [C C3]. apply andb_true_iff in C as [C1 C2].
    destruct (resolves_getpath env f n Hwf He Hnm C1) as (p & Hp & Hev).
    start_handler n_UpdateAttrib prog_UpdateAttrib. resolve_with Hp Hev.
    repeat sfield. rewrite C3, orb_true_r. prun.
    finish_refl.
  - (* IInsAttr *)
    cbv zeta in Hspec.
    destruct (alive f root n && is_elem f n && negb (ahas (lattrs (labof f n)) k)) eqn:C; [|discriminate].
    inversion Hspec; subst f'. clear Hspec.
    apply andb_true_iff in C as [C C3]. apply andb_true_iff in C as [C1 C2].
    destruct (resolves_getpath env f n Hwf He Hnm C1) as (p & Hp & Hev).
    start_handler n_InsertAttrib prog_InsertAttrib. resolve_with Hp Hev.
    repeat sfield. rewrite C3, orb_true_r. prun.
    finish_refl.
  - (* IDelAttr *)
    cbv zeta in Hspec.
    destruct (alive f root n && is_elem f n && ahas (lattrs (labof f n)) k) eqn:C; [|discriminate].
    inversion Hspec; subst f'. clear Hspec.
    apply andb_true_iff in C as [C C3]. apply andb_true_iff in C as [C1 C2].
    destruct (resolves_getpath env f n Hwf He Hnm C1) as (p & Hp & Hev).
    start_handler n_DeleteAttrib prog_DeleteAttrib. resolve_with Hp Hev.
    repeat sfield. rewrite C3.
    finish_refl.
  - (* IRenAttr *)
    cbv zeta in Hspec.
    destruct (aget (lattrs (labof f n)) k) as [v|] eqn:Ek; [|discriminate].
    destruct (alive f root n && is_elem f n && negb (ahas (lattrs (labof f n)) k')) eqn:C; [|discriminate].
    inversion Hspec; subst f'. clear Hspec.
    apply andb_true_iff in C as [C C3]. apply andb_true_iff in C as [C1 C2].
    destruct (resolves_getpath env f n Hwf He Hnm C1) as (p & Hp & Hev).
    assert (Hk : ahas (lattrs (labof f n)) k = true) by (unfold ahas; rewrite Ek; reflexivity).
    assert (Hk2 : ahas (aput (lattrs (labof f n)) k' v) k = true).
    { unfold ahas. rewrite aget_aput. destruct (str_eqb k' k); [reflexivity|]. rewrite Ek. reflexivity. }
    start_handler n_RenameAttrib prog_RenameAttrib. resolve_with Hp Hev.
    repeat sfield. rewrite Hk, orb_true_r. prun. rewrite C3, orb_true_r. prun. rewrite Ek. prun.
    rewrite labof_set_label. cbn [lattrs]. rewrite Hk2.
    eexists. split; [reflexivity|]. cbn [ps_f ps_env with_f env_after]. split; [|reflexivity].
    unfold set_attrs_f. apply set_label_twice_ext. reflexivity.
  - (* IInsNs *)
    inversion Hspec; subst f'. clear Hspec.
    destruct p as [p|]; [|contradiction].
    start_handler n_InsertNamespace prog_InsertNamespace.
    ofield. sfield. finish_refl.
  - (* IDelNs *)
    inversion Hspec; subst f'. clear Hspec.
    start_handler n_DeleteNamespace prog_DeleteNamespace.
    finish_refl.
Qed.
End Handlers.

Theorem patcher_refines_spec pe env f root vars b ia f' :
  wf_forest f root -> env_agrees pe env f root -> names_ok pe f root -> ns_named ia ->
  spec_apply root f ia = Some f' ->
  exists s', handle_action actions_sig b root patcher_progs (PS f env vars) (render pe root f ia) = POk s'
             /\ forest_ext_eq (ps_f s') f' /\ ps_env s' = env_after ia env.
Proof. rewrite patcher_progs_expected. apply handlers_refine_spec. Qed.

(* the same when the patcher's tree is only pointwise equal to the tree the
   action was rendered in (needed along a script) *)
Theorem patcher_refines_spec_ext pe env f g root vars b ia f' :
  wf_forest f root -> env_agrees pe env f root -> names_ok pe f root -> ns_named ia ->
  forest_ext_eq g f -> spec_apply root f ia = Some f' ->
  exists s', handle_action actions_sig b root patcher_progs (PS g env vars) (render pe root f ia) = POk s'
             /\ forest_ext_eq (ps_f s') f' /\ ps_env s' = env_after ia env.
Proof.
  intros Hwf He Hnm Hns Hext Hspec.
  destruct (patcher_refines_spec pe env f root vars b ia f' Hwf He Hnm Hns Hspec) as (s0 & H0 & Hf0 & He0).
  pose proof (handle_action_ext actions_sig b root patcher_progs (render pe root f ia)
                (PS g env vars) (PS f env vars) Hext eq_refl) as Hx.
  rewrite H0 in Hx.
  destruct (handle_action actions_sig b root patcher_progs (PS g env vars) (render pe root f ia)) as [s'|e];
    cbn [pres_ext] in Hx; [|contradiction].
  destruct Hx as (Hf & Hev & _). exists s'. split; [reflexivity|].
  split; [eapply ext_trans; eauto|congruence].
Qed.

(* ------------------------------------------------------------------ *)
(** * (e) python -O                                                     *)
(* ------------------------------------------------------------------ *)
Lemma step_instr_asserts sig root a s i s' :
  step_instr sig true root a s i = POk s' -> step_instr sig false root a s i = POk s'.
Proof.
  destruct i; try (intros H; exact H); cbn [step_instr].
  - destruct (get_var s v) as [n|e]; cbn [pbind]; [|intros H; exact H].
    destruct (str_field sig a field) as [k|e]; cbn [pbind negb orb]; [|intros H; exact H].
    destruct (ahas (lattrs (labof (ps_f s) n)) k); intros H; [exact H|discriminate].
  - destruct (get_var s v) as [n|e]; cbn [pbind]; [|intros H; exact H].
    destruct (str_field sig a field) as [k|e]; cbn [pbind negb orb]; [|intros H; exact H].
    destruct (negb (ahas (lattrs (labof (ps_f s) n)) k)); intros H; [exact H|discriminate].
Qed.

Lemma run_prog_asserts sig root a prog : forall s s',
  run_prog sig true root a s prog = POk s' -> run_prog sig false root a s prog = POk s'.
Proof.
  induction prog as [|i r IH]; intros s s'; cbn [run_prog]; [intros H; exact H|].
  destruct (step_instr sig true root a s i) as [s1|e] eqn:E; cbn [pbind]; [|discriminate].
  rewrite (step_instr_asserts sig root a s i s1 E). cbn [pbind]. apply IH.
Qed.

Lemma handle_action_asserts sig root progs s a s' :
  handle_action sig true root progs s a = POk s' -> handle_action sig false root progs s a = POk s'.
Proof.
  unfold handle_action. destruct (find (fun p => str_eqb (fst p) (ga_ctor a)) progs) as [[c prog]|];
    [|intros H; exact H].
  rewrite !pbind_ret. apply run_prog_asserts.
Qed.

Theorem patcher_asserts_unreachable pe env f root vars ia f' :
  wf_forest f root -> env_agrees pe env f root -> names_ok pe f root -> ns_named ia ->
  spec_apply root f ia = Some f' ->
  handle_action actions_sig false root patcher_progs (PS f env vars) (render pe root f ia)
  = handle_action actions_sig true root patcher_progs (PS f env vars) (render pe root f ia).
Proof.
  intros Hwf He Hnm Hns Hspec.
  destruct (patcher_refines_spec pe env f root vars true ia f' Hwf He Hnm Hns Hspec) as (s' & H & _).
  rewrite H. apply handle_action_asserts. exact H.
Qed.

(* ------------------------------------------------------------------ *)
(** * (f) the documented semantics preserves well-formedness            *)
(* ------------------------------------------------------------------ *)
Lemma alive_lt' root f n : wf_forest f root -> alive f root n = true -> n < fnext f.
Proof.
  intros Hwf Ha. apply (alive_iff f root n Hwf) in Ha.
  eapply desc_lt; [exact Hwf|apply (wf_root_lt _ _ Hwf)|exact Ha].
Qed.

Lemma wf_set_attrs f root n a :
  wf_forest f root -> n < fnext f -> is_elem f n = true -> NoDup (map fst a) ->
  wf_forest (set_attrs_f f n a) root.
Proof.
  intros Hwf Hn Hel Hnd. unfold set_attrs_f. apply is_elem_not_comment in Hel. unfold labof in *.
  apply wf_set_lab; cbn [ltag ltail lattrs]; try assumption.
  - intros ->. split; [exact Hel|apply (wf_root_tail _ _ Hwf)].
  - intros H. rewrite H in Hel. discriminate.
Qed.

Theorem spec_apply_wf root f a f' :
  wf_forest f root -> spec_apply root f a = Some f' -> wf_forest f' root.
Proof.
  intros Hwf Hspec.
  destruct a as [t tag pos n|t pos txt n|n t pos|n|n tag|n txt|n txt|n k v|n k v|n k|n k k'|p u|p];
    cbn [spec_apply] in Hspec.
  - destruct (alive f root t && is_elem f t && Nat.leb pos (length (kidsof f t)) && Nat.eqb n (fnext f)) eqn:C;
      [|discriminate].
    cbn [alloc] in Hspec. inversion Hspec; subst f'. clear Hspec.
    apply andb_true_iff in C as [C C4]. apply andb_true_iff in C as [C C3]. apply andb_true_iff in C as [C1 C2].
    apply Nat.eqb_eq in C4. subst n.
    apply (wf_ins f root (Lab (TElem tag) [] None None) t pos Hwf).
    + eapply alive_lt'; eauto.
    + apply is_elem_not_comment. exact C2.
    + discriminate.
    + constructor.
  - destruct (alive f root t && is_elem f t && Nat.leb pos (length (kidsof f t)) && Nat.eqb n (fnext f)) eqn:C;
      [|discriminate].
    cbn [alloc] in Hspec. inversion Hspec; subst f'. clear Hspec.
    apply andb_true_iff in C as [C C4]. apply andb_true_iff in C as [C C3]. apply andb_true_iff in C as [C1 C2].
    apply Nat.eqb_eq in C4. subst n.
    apply (wf_ins f root (Lab TComment [] txt None) t pos Hwf).
    + eapply alive_lt'; eauto.
    + apply is_elem_not_comment. exact C2.
    + reflexivity.
    + constructor.
  - destruct (alive f root n && negb (Nat.eqb n root) && alive f root t && is_elem f t
              && negb (mem t (subtree (S (fnext f)) f n))
              && Nat.leb pos (length (remove_id n (kidsof f t)))) eqn:C; [|discriminate].
    inversion Hspec; subst f'. clear Hspec.
    apply andb_true_iff in C as [C C6]. apply andb_true_iff in C as [C C5]. apply andb_true_iff in C as [C C4].
    apply andb_true_iff in C as [C C3]. apply andb_true_iff in C as [C1 C2].
    apply negb_true_iff, Nat.eqb_neq in C2.
    apply (wf_move f root n t pos Hwf C2).
    + eapply alive_lt'; eauto.
    + eapply alive_lt'; eauto.
    + apply is_elem_not_comment. exact C4.
  - destruct (alive f root n && negb (Nat.eqb n root) && match kidsof f n with [] => true | _ => false end);
      [|discriminate].
    inversion Hspec; subst f'. apply wf_detach. exact Hwf.
  - destruct (alive f root n && is_elem f n) eqn:C; [|discriminate].
    cbv zeta in Hspec. inversion Hspec; subst f'. clear Hspec.
    apply andb_true_iff in C as [C1 C2]. pose proof (alive_lt' root f n Hwf C1) as Hlt.
    unfold labof. apply wf_set_lab; cbn [ltag ltail lattrs]; try assumption.
    + intros ->. split; [reflexivity|apply (wf_root_tail _ _ Hwf)].
    + discriminate.
    + apply (wf_attrs _ _ Hwf). exact Hlt.
  - destruct (alive f root n) eqn:C1; [|discriminate].
    cbv zeta in Hspec. inversion Hspec; subst f'. clear Hspec.
    pose proof (alive_lt' root f n Hwf C1) as Hlt.
    unfold labof. apply wf_set_lab; cbn [ltag ltail lattrs]; try assumption.
    + intros ->. split; [apply (wf_root_elem _ _ Hwf)|apply (wf_root_tail _ _ Hwf)].
    + apply (wf_comment _ _ Hwf). exact Hlt.
    + apply (wf_attrs _ _ Hwf). exact Hlt.
  - destruct (alive f root n && negb (Nat.eqb n root)) eqn:C; [|discriminate].
    cbv zeta in Hspec. inversion Hspec; subst f'. clear Hspec.
    apply andb_true_iff in C as [C1 C2]. apply negb_true_iff, Nat.eqb_neq in C2.
    pose proof (alive_lt' root f n Hwf C1) as Hlt.
    unfold labof. apply wf_set_lab; cbn [ltag ltail lattrs]; try assumption.
    + intros E. contradiction.
    + apply (wf_comment _ _ Hwf). exact Hlt.
    + apply (wf_attrs _ _ Hwf). exact Hlt.
  - cbv zeta in Hspec.
    destruct (alive f root n && is_elem f n && ahas (lattrs (labof f n)) k) eqn:C; [|discriminate].
    inversion Hspec; subst f'. clear Hspec.
    apply andb_true_iff in C as [C C3]. apply andb_true_iff in C as [C1 C2].
    pose proof (alive_lt' root f n Hwf C1) as Hlt.
    apply wf_set_attrs; try assumption. apply aput_NoDup. apply (wf_attrs _ _ Hwf). exact Hlt.
  - cbv zeta in Hspec.
    destruct (alive f root n && is_elem f n && negb (ahas (lattrs (labof f n)) k)) eqn:C; [|discriminate].
    inversion Hspec; subst f'. clear Hspec.
    apply andb_true_iff in C as [C C3]. apply andb_true_iff in C as [C1 C2].
    pose proof (alive_lt' root f n Hwf C1) as Hlt.
    apply wf_set_attrs; try assumption. apply aput_NoDup. apply (wf_attrs _ _ Hwf). exact Hlt.
  - cbv zeta in Hspec.
    destruct (alive f root n && is_elem f n && ahas (lattrs (labof f n)) k) eqn:C; [|discriminate].
    inversion Hspec; subst f'. clear Hspec.
    apply andb_true_iff in C as [C C3]. apply andb_true_iff in C as [C1 C2].
    pose proof (alive_lt' root f n Hwf C1) as Hlt.
    apply wf_set_attrs; try assumption. apply adel_NoDup. apply (wf_attrs _ _ Hwf). exact Hlt.
  - cbv zeta in Hspec.
    destruct (aget (lattrs (labof f n)) k) as [v|] eqn:Ek; [|discriminate].
    destruct (alive f root n && is_elem f n && negb (ahas (lattrs (labof f n)) k')) eqn:C; [|discriminate].
    inversion Hspec; subst f'. clear Hspec.
    apply andb_true_iff in C as [C C3]. apply andb_true_iff in C as [C1 C2].
    pose proof (alive_lt' root f n Hwf C1) as Hlt.
    apply wf_set_attrs; try assumption. apply adel_NoDup, aput_NoDup. apply (wf_attrs _ _ Hwf). exact Hlt.
  - inversion Hspec; subst f'. exact Hwf.
  - inversion Hspec; subst f'. exact Hwf.
Qed.

(* ------------------------------------------------------------------ *)
(** * (g) Patcher.patch replays a rendered script                       *)
(* ------------------------------------------------------------------ *)
(* the invariant that has to hold along the script: before each action, in the
   tree and environment reached so far, the prefixes printed by pe are bound
   (env_agrees: in particular an InsertNamespace action precedes the first use
   of a new prefix), the names are printable, and no InsertNamespace is for the
   default namespace *)
Fixpoint script_ok (pe : penv) (root : id) (env : nsenv) (f : forest) (script : list iact) : Prop :=
  match script with
  | [] => True
  | a :: r =>
      env_agrees pe env f root /\ names_ok pe f root /\ ns_named a /\
      match spec_apply root f a with
      | Some f' => script_ok pe root (env_after a env) f' r
      | None => True
      end
  end.

Definition ns_prefix_named (script : list iact) : Prop := Forall ns_named script.

Lemma script_ok_ns_named pe root script : forall env f T,
  run_spec root f script = Some T -> script_ok pe root env f script -> ns_prefix_named script.
Proof.
  induction script as [|a r IH]; intros env f T Hrun Hok; [constructor|].
  cbn [run_spec script_ok] in *. destruct Hok as (_ & _ & Hns & Hok).
  destruct (spec_apply root f a) as [f1|]; [|discriminate].
  constructor; [exact Hns|]. eapply IH; eauto.
Qed.

(* Patcher.__init__/patch: the root nsmap without the default namespace *)
Definition nsmap_env (m : list (option str * str)) : nsenv :=
  flat_map (fun kv => match fst kv with Some p => [(p, snd kv)] | None => [] end) m.

Lemma patch_loop_replays pe root b script : forall g f env vars gs T,
  wf_forest f root -> forest_ext_eq g f -> script_ok pe root env f script ->
  run_spec root f script = Some T -> render_script pe root f script = Some gs ->
  exists s', patch_loop actions_sig b root patcher_progs (PS g env vars) gs = POk s'
             /\ forest_ext_eq (ps_f s') T.
Proof.
  induction script as [|a r IH]; intros g f env vars gs T Hwf Hext Hok Hrun Hren.
  - cbn [run_spec render_script] in *. inversion Hrun; inversion Hren; subst.
    cbn [patch_loop]. eexists. split; [reflexivity|exact Hext].
  - cbn [run_spec render_script script_ok] in *. destruct Hok as (He & Hnm & Hns & Hok).
    destruct (spec_apply root f a) as [f1|] eqn:Hspec; [|discriminate].
    destruct (render_script pe root f1 r) as [gs'|] eqn:Hren'; [|discriminate].
    cbn [option_map] in Hren. inversion Hren; subst gs. clear Hren.
    destruct (patcher_refines_spec_ext pe env f g root vars b a f1 Hwf He Hnm Hns Hext Hspec)
      as (s1 & H1 & Hf1 & He1).
    cbn [patch_loop]. rewrite H1. cbn [pbind].
    destruct s1 as [g1 env1 vars1]. cbn [ps_f ps_env] in *. subst env1.
    apply (IH g1 f1 (env_after a env) vars1 gs' T);
      [eapply spec_apply_wf; eauto|exact Hf1|exact Hok|exact Hrun|exact Hren'].
Qed.

Corollary patch_replays_script pe root L root_nsmap script T gs :
  wf_forest L root -> run_spec root L script = Some T -> render_script pe root L script = Some gs ->
  script_ok pe root (nsmap_env root_nsmap) L script ->
  exists T', patch actions_sig true root patcher_progs L root_nsmap gs = POk T' /\ forest_ext_eq T' T.
Proof.
  intros Hwf Hrun Hren Hok. unfold patch.
  destruct (patch_loop_replays pe root true script L L (nsmap_env root_nsmap) (fun _ => None) gs T
              Hwf (ext_refl L) Hok Hrun Hren) as (s' & H & Hf).
  fold (nsmap_env root_nsmap). rewrite H. cbn [pbind]. exists (ps_f s'). split; [reflexivity|exact Hf].
Qed.

(* python -O: the same result *)
Corollary patch_replays_script_O pe root L root_nsmap script T gs :
  wf_forest L root -> run_spec root L script = Some T -> render_script pe root L script = Some gs ->
  script_ok pe root (nsmap_env root_nsmap) L script ->
  exists T', patch actions_sig false root patcher_progs L root_nsmap gs = POk T' /\ forest_ext_eq T' T.
Proof.
  intros Hwf Hrun Hren Hok. unfold patch.
  destruct (patch_loop_replays pe root false script L L (nsmap_env root_nsmap) (fun _ => None) gs T
              Hwf (ext_refl L) Hok Hrun Hren) as (s' & H & Hf).
  fold (nsmap_env root_nsmap). rewrite H. cbn [pbind]. exists (ps_f s'). split; [reflexivity|exact Hf].
Qed.

(* boolean versions, so that the side conditions can be checked by computation *)
Definition ns_namedb (a : iact) : bool := match a with IInsNs None _ => false | _ => true end.
Fixpoint script_okb (pe : penv) (root : id) (env : nsenv) (f : forest) (script : list iact) : bool :=
  match script with
  | [] => true
  | a :: r =>
      env_agreesb pe env f root && names_okb pe f root && ns_namedb a &&
      match spec_apply root f a with
      | Some f' => script_okb pe root (env_after a env) f' r
      | None => true
      end
  end.

Lemma ns_namedb_iff a : ns_namedb a = true <-> ns_named a.
Proof. destruct a as [| | | | | | | | | | |[p|] u|]; cbn; split; intros H; try exact I; try reflexivity; try discriminate; contradiction. Qed.

Lemma script_okb_sound pe root script : forall env f,
  script_okb pe root env f script = true -> script_ok pe root env f script.
Proof.
  induction script as [|a r IH]; intros env f H; [exact I|].
  cbn [script_okb script_ok] in *.
  apply andb_true_iff in H as [H H4]. apply andb_true_iff in H as [H H3]. apply andb_true_iff in H as [H1 H2].
  split; [apply env_agreesb_iff; exact H1|]. split; [apply names_okb_iff; exact H2|].
  split; [apply ns_namedb_iff; exact H3|].
  destruct (spec_apply root f a) as [f'|]; [apply IH; exact H4|exact I].
Qed.
