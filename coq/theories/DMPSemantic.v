(* diff_cleanupSemanticLossless and diff_cleanupSemantic keep both projections
   of a diff; diff_cleanupSemantic (as repaired) never returns an empty segment. *)
From Coq Require Import List ZArith NArith Bool Lia.
Import ListNotations.
Require Import XV.DMP XV.DMPBase XV.DMPCommon XV.DMPMerge.
Local Open Scope Z_scope.

Definition preserves (d0 d : list seg) : Prop := forall k, good_keep k -> proj k d = proj k d0.

Lemma preserves_refl d : preserves d d.
Proof. intros k _. reflexivity. Qed.

Lemma preserves_trans d0 d1 d2 : preserves d0 d1 -> preserves d1 d2 -> preserves d0 d2.
Proof. intros H1 H2 k Hk. now rewrite (H2 k Hk), (H1 k Hk). Qed.

(* replacing a window of the list by one with the same projections *)
Lemma preserves_window d0 pre mid mid' post :
  preserves d0 (pre ++ mid ++ post) -> (forall k, good_keep k -> proj k mid' = proj k mid) ->
  preserves d0 (pre ++ mid' ++ post).
Proof.
  intros H Hm k Hk. rewrite <- (H k Hk). rewrite !proj_app. now rewrite (Hm k Hk).
Qed.

(* ------------------------------------------------------------------ *)
(** * diff_cleanupSemanticLossless *)

Section Lossless.
  Variable cc : charcls.

  (* an edit between two equalities: what the shifting must keep *)
  Definition tri_ok (K1 K2 : str) (L : nat) (a m b : str) : Prop :=
    a ++ m ++ b = K1 /\ a ++ b = K2 /\ length m = L.

  Lemma shift_loop_spec K1 K2 L e1 ed e2 fuel b1 bed b2 :
    tri_ok K1 K2 L e1 ed e2 ->
    loop fuel (lossless_shift_step cc)
         (e1, ed, e2, e1, ed, e2, semantic_score cc e1 ed + semantic_score cc ed e2) = Ok (b1, bed, b2) ->
    tri_ok K1 K2 L b1 bed b2 /\ ((b1, bed, b2) = (e1, ed, e2) \/ b1 <> []).
  Proof.
    intros H0.
    apply (loop_inv (fun s : lstate => let '(x1, xd, x2, y1, yd, y2, _) := s in
                       tri_ok K1 K2 L x1 xd x2 /\ tri_ok K1 K2 L y1 yd y2 /\
                       ((y1, yd, y2) = (e1, ed, e2) \/ y1 <> []))
                    (fun r : str * str * str => let '(y1, yd, y2) := r in
                       tri_ok K1 K2 L y1 yd y2 /\ ((y1, yd, y2) = (e1, ed, e2) \/ y1 <> []))).
    - intros [[[[[[x1 xd] x2] y1] yd] y2] bs] s' (Hx & Hy & Hi) Hs. unfold lossless_shift_step in Hs.
      destruct xd as [|c xd']; [discriminate|]. destruct x2 as [|c2 x2']; [discriminate|].
      destruct (N.eqb c c2) eqn:Ec; [|discriminate]. apply N.eqb_eq in Ec. subst c2.
      assert (Hn : tri_ok K1 K2 L (x1 ++ [c]) (xd' ++ [c]) x2').
      { destruct Hx as (A & B & C). unfold tri_ok. rewrite <- !app_assoc. cbn [app]. repeat split.
        - rewrite <- A. reflexivity.
        - rewrite <- B. reflexivity.
        - rewrite app_length. cbn in *. lia. }
      destruct (semantic_score cc (x1 ++ [c]) (xd' ++ [c]) + semantic_score cc (xd' ++ [c]) x2' >=? bs); ok_inv.
      + repeat split; try apply Hn. right. destruct x1; discriminate.
      + repeat split; try apply Hn; try apply Hy. assumption.
    - intros [[[[[[x1 xd] x2] y1] yd] y2] bs] [[r1 rd] r2] (Hx & Hy & Hi) Hs. unfold lossless_shift_step in Hs.
      destruct xd as [|c xd'].
      { ok_inv. split; assumption. }
      destruct x2 as [|c2 x2'].
      { ok_inv. split; assumption. }
      destruct (N.eqb c c2).
      + destruct (semantic_score cc (x1 ++ [c]) (xd' ++ [c2]) + semantic_score cc (xd' ++ [c2]) x2' >=? bs); discriminate.
      + ok_inv. split; assumption.
    - repeat split; try apply H0. now left.
  Qed.

  Variable d0 : list seg.

  Definition inv_ll (s : list seg * Z) : Prop := let '(d, p) := s in 1 <= p /\ preserves d0 d.

  Lemma proj_tri k o1 a m b a' m' b' K1 K2 L L' :
    good_keep k -> tri_ok K1 K2 L a m b -> tri_ok K1 K2 L' a' m' b' ->
    proj k ([(EQUAL, a')] ++ (o1, m') :: [(EQUAL, b')]) = proj k ((EQUAL, a) :: (o1, m) :: [(EQUAL, b)]).
  Proof.
    intros Hk (A & B & _) (A' & B' & _). cbn [app].
    rewrite !proj_cons, proj_nil, !(gk_eq _ Hk), !app_nil_r.
    destruct (k o1); cbn [app]; congruence.
  Qed.

  Lemma inv_ll_step s s' : inv_ll s -> lossless_step cc s = Ok (inl s') -> inv_ll s'.
  Proof.
    destruct s as [d p]. intros (Hp & Hpres) Hs. unfold lossless_step in Hs.
    destruct (p <? zlen d - 1) eqn:Elt; cbn [negb] in Hs; [|discriminate].
    destruct (window3 d p) as (pre & [o0 t0] & [o1 t1] & [o2 t2] & post & -> & Hpre); [lia|lia|].
    rewrite get0 in Hs by lia. cbn [bind] in Hs.
    rewrite get2 in Hs by lia. cbn [bind] in Hs.
    destruct (is_equal o0 && is_equal o2) eqn:Eeq.
    2:{ ok_inv. split; [lia|assumption]. }
    apply andb_true_iff in Eeq as [E0 E2].
    destruct o0; try discriminate. destruct o2; try discriminate.
    rewrite get1 in Hs by lia. cbn [bind] in Hs.
    inv_bind Hs as co Eco.
    apply commonSuffix_spec in Eco as (c & r0 & r1 & Ht0 & Ht1 & Hc & _).
    set (K1 := t0 ++ t1 ++ t2). set (K2 := t0 ++ t2). set (L := length t1).
    (* the triple after shifting left *)
    assert (Htri : exists e1 ed e2,
      (if negb (co =? 0)
       then (slice_to t0 (- co), slice_from t1 (- co) ++ slice_to t1 (- co), slice_from t1 (- co) ++ t2)
       else (t0, t1, t2)) = (e1, ed, e2) /\ tri_ok K1 K2 L e1 ed e2 /\ (e1 = [] -> t0 <> [] -> e2 <> [])).
    { destruct (co =? 0) eqn:Eco; cbn [negb].
      - exists t0, t1, t2. split; [reflexivity|]. split; [repeat split|]. congruence.
      - assert (Hcn : c <> []). { intros ->. change (zlen (@nil N)) with 0 in Hc. lia. }
        exists r0, (c ++ r1), (c ++ t2). split.
        + rewrite Ht0, Ht1. rewrite !slice_to_app_neg, slice_from_app_neg by (auto; lia). reflexivity.
        + split.
          * subst K1 K2 L. rewrite Ht0, Ht1. unfold tri_ok. rewrite <- !app_assoc, !app_length. repeat split. lia.
          * intros _ _ Hx. apply app_eq_nil in Hx as [Hx _]. contradiction. }
    destruct Htri as (e1 & ed & e2 & Heq & Htri & Hne).
    rewrite Heq in Hs. clear Heq.
    inv_bind Hs as best Eb. destruct best as [[b1 bed] b2].
    apply (shift_loop_spec K1 K2 L) in Eb as [Hb Hbi]; [|assumption].
    assert (Hinit : tri_ok K1 K2 L t0 t1 t2) by (repeat split).
    destruct (str_eqb t0 b1) eqn:Et0; cbn [negb] in Hs.
    { ok_inv. split; [lia|assumption]. }
    apply str_eqb_neq in Et0.
    assert (Hwin : forall mid', (forall k, good_keep k -> proj k mid' = proj k ((EQUAL, t0) :: (o1, t1) :: [(EQUAL, t2)])) ->
                   preserves d0 (pre ++ mid' ++ post)).
    { intros mid' Hm. apply (preserves_window d0 pre ((EQUAL, t0) :: (o1, t1) :: [(EQUAL, t2)])); assumption. }
    destruct (str_eqb b1 []) eqn:Eb1; cbn [negb bind] in Hs.
    - (* the first equality disappears *)
      apply str_eqb_eq in Eb1. subst b1.
      assert (Hb2 : b2 <> []).
      { destruct Hbi as [Hbi|Hbi]; [|congruence]. inversion Hbi; subst. apply Hne; [reflexivity|]. congruence. }
      rewrite del0 in Hs by lia. cbn [bind] in Hs.
      rewrite get0 in Hs by lia. cbn [bind] in Hs.
      rewrite set0 in Hs by lia. cbn [bind] in Hs.
      destruct (str_eqb b2 []) eqn:Eb2; [apply str_eqb_eq in Eb2; congruence|]. cbn [negb bind] in Hs.
      rewrite get1 in Hs by lia. cbn [bind] in Hs.
      rewrite set1 in Hs by lia. cbn [bind] in Hs. ok_inv.
      split; [lia|].
      apply (Hwin ((o1, bed) :: [(EQUAL, b2)])). intros k Hk.
      rewrite <- (proj_tri k o1 t0 t1 t2 [] bed b2 K1 K2 L L Hk Hinit Hb).
      cbn [app]. rewrite !proj_cons. rewrite (gk_eq _ Hk). reflexivity.
    - (* the first equality stays *)
      apply str_eqb_neq in Eb1.
      rewrite set0 in Hs by lia. cbn [bind] in Hs.
      rewrite get1 in Hs by lia. cbn [bind] in Hs.
      rewrite set1 in Hs by lia. cbn [bind] in Hs.
      destruct (str_eqb b2 []) eqn:Eb2; cbn [negb bind] in Hs.
      + apply str_eqb_eq in Eb2. subst b2.
        rewrite del2 in Hs by lia. cbn [bind] in Hs. ok_inv.
        split; [lia|].
        apply (Hwin ((EQUAL, b1) :: [(o1, bed)])). intros k Hk.
        rewrite <- (proj_tri k o1 t0 t1 t2 b1 bed [] K1 K2 L L Hk Hinit Hb).
        cbn [app]. rewrite !proj_cons, !proj_nil. rewrite (gk_eq _ Hk). now rewrite !app_nil_r.
      + rewrite get2 in Hs by lia. cbn [bind] in Hs.
        rewrite set2 in Hs by lia. cbn [bind] in Hs. ok_inv.
        split; [lia|].
        apply (Hwin ((EQUAL, b1) :: (o1, bed) :: [(EQUAL, b2)])). intros k Hk.
        now rewrite <- (proj_tri k o1 t0 t1 t2 b1 bed b2 K1 K2 L L Hk Hinit Hb).
  Qed.

  Lemma inv_ll_exit s d : inv_ll s -> lossless_step cc s = Ok (inr d) -> preserves d0 d.
  Proof.
    destruct s as [d' p]. intros (Hp & Hpres) Hs. unfold lossless_step in Hs.
    destruct (p <? zlen d' - 1) eqn:Elt; cbn [negb] in Hs.
    - exfalso. bind_discr Hs.
    - ok_inv. assumption.
  Qed.
End Lossless.

Lemma cleanupSemanticLossless_spec cc d d' : cleanupSemanticLossless cc d = Ok d' -> preserves d d'.
Proof.
  unfold cleanupSemanticLossless.
  apply (loop_inv (inv_ll d) (preserves d)).
  - apply inv_ll_step.
  - apply inv_ll_exit.
  - split; [lia|apply preserves_refl].
Qed.

(* ------------------------------------------------------------------ *)
(** * diff_cleanupSemantic: the loop that eliminates small equalities *)

Section Sem1.
  Variable d0 : list seg.

  Definition inv_s1 (s : sstate) : Prop :=
    let '(d, eqs, lastEq, p, _, _, _, _, _) := s in
    preserves d0 d /\ 0 <= p /\ Forall (fun e => 0 <= e) eqs /\
    (forall le, lastEq = Some le -> exists e eqs', eqs = e :: eqs' /\ py_get d e = Ok (EQUAL, le)).

  Lemma inv_s1_step s s' : inv_s1 s -> sem1_step s = Ok (inl s') -> inv_s1 s'.
  Proof.
    destruct s as [[[[[[[[d eqs] lastEq] p] li1] ld1] li2] ld2] ch].
    intros (Hpres & Hp & Heqs & Hlast) Hs. unfold sem1_step in Hs.
    destruct (p <? zlen d) eqn:Elt; cbn [negb] in Hs; [|discriminate].
    inv_bind Hs as ot Eot. destruct ot as [o t].
    destruct (is_equal o) eqn:Eo.
    - destruct o; try discriminate. ok_inv.
      split; [assumption|]. split; [lia|]. split; [constructor; assumption|].
      intros le Hle. inversion Hle; subst. exists p, eqs. split; [reflexivity|assumption].
    - set (li2' := if is_insert o then li2 + zlen t else li2) in Hs.
      set (ld2' := if is_insert o then ld2 else ld2 + zlen t) in Hs.
      destruct (truthy lastEq && _ && _) eqn:Econd.
      + apply andb_true_iff in Econd as [Econd _]. apply andb_true_iff in Econd as [Etr _].
        destruct lastEq as [le|]; [|discriminate]. destruct le as [|c0 le']; [discriminate|].
        set (le := c0 :: le') in *.
        destruct (Hlast le eq_refl) as (e & eqs1 & -> & Hget).
        inversion Heqs as [|? ? He Heqs1]; subst.
        apply py_get_split in Hget as (pre & post & -> & Hpre); [|assumption].
        rewrite ins0 in Hs by lia.
        rewrite get1 in Hs by lia. cbn [bind] in Hs.
        rewrite set1 in Hs by lia. cbn [bind] in Hs. ok_inv.
        split.
        { change (pre ++ (DELETE, le) :: (INSERT, le) :: post) with (pre ++ ((DELETE, le) :: [(INSERT, le)]) ++ post).
          apply (preserves_window d0 pre [(EQUAL, le)]); [assumption|].
          intros k Hk. rewrite !proj_cons, proj_nil, (gk_eq _ Hk), (gk_xor _ Hk).
          destruct (k INSERT); cbn; now rewrite ?app_nil_r. }
        split.
        { destruct eqs1 as [|e1 [|e2 eqs2]]; try lia.
          inversion Heqs1 as [|? ? _ H2]; subst. inversion H2; subst. lia. }
        split.
        { destruct eqs1 as [|e1 eqs2]; [constructor|]. inversion Heqs1; subst. assumption. }
        intros ? Hx. discriminate.
      + ok_inv. split; [assumption|]. split; [lia|]. split; assumption.
  Qed.

  Lemma inv_s1_exit s d ch : inv_s1 s -> sem1_step s = Ok (inr (d, ch)) -> preserves d0 d.
  Proof.
    destruct s as [[[[[[[[d' eqs] lastEq] p] li1] ld1] li2] ld2] ch'].
    intros (Hpres & _) Hs. unfold sem1_step in Hs.
    destruct (p <? zlen d') eqn:Elt; cbn [negb] in Hs.
    - exfalso. bind_discr Hs.
    - ok_inv. assumption.
  Qed.
End Sem1.

(* ------------------------------------------------------------------ *)
(** * diff_cleanupSemantic: the overlap loop *)

Section Sem2.
  Variable d0 : list seg.

  Definition inv_s2 (s : list seg * Z) : Prop := let '(d, p) := s in 1 <= p /\ preserves d0 d.

  Lemma inv_s2_step s s' : inv_s2 s -> sem2_step s = Ok (inl s') -> inv_s2 s'.
  Proof.
    destruct s as [d p]. intros (Hp & Hpres) Hs. unfold sem2_step in Hs.
    destruct (p <? zlen d) eqn:Elt; cbn [negb] in Hs; [|discriminate].
    destruct (window2 d p) as (pre & [o0 x] & [o1 y] & post & -> & Hpre); [lia|lia|].
    rewrite get0 in Hs by lia. cbn [bind] in Hs.
    rewrite get1 in Hs by lia. cbn [bind] in Hs.
    destruct (is_delete o0 && is_insert o1) eqn:Eops.
    2:{ ok_inv. split; [lia|assumption]. }
    apply andb_true_iff in Eops as [E0 E1].
    destruct o0; try discriminate. destruct o1; try discriminate.
    inv_bind Hs as ov1 Eov1. inv_bind Hs as ov2 Eov2.
    apply commonOverlap_spec in Eov1 as (a1 & c1 & b1 & Hx1 & Hy1 & Hc1).
    apply commonOverlap_spec in Eov2 as (a2 & c2 & b2 & Hy2 & Hx2 & Hc2).
    subst ov1 ov2.
    assert (Hwin : forall mid', (forall k, good_keep k -> proj k mid' = proj k ((DELETE, x) :: [(INSERT, y)])) ->
                   preserves d0 (pre ++ mid' ++ post)).
    { intros mid' Hm. apply (preserves_window d0 pre ((DELETE, x) :: [(INSERT, y)])); assumption. }
    destruct (zlen c1 >=? zlen c2).
    - destruct ((2 * zlen c1 >=? zlen x) || (2 * zlen c1 >=? zlen y)).
      + rewrite ins1 in Hs by lia.
        rewrite set0 in Hs by lia. cbn [bind] in Hs.
        rewrite set2 in Hs by lia. cbn [bind] in Hs. ok_inv.
        split; [lia|].
        pose proof (zlen_nonneg a1).
        replace (slice_to y (zlen c1)) with c1 by (rewrite Hy1; symmetry; apply slice_to_app; reflexivity).
        replace (slice_from y (zlen c1)) with b1 by (rewrite Hy1; symmetry; apply slice_from_app; reflexivity).
        replace (slice_to x (zlen x - zlen c1)) with a1
          by (rewrite Hx1; symmetry; apply slice_to_app; rewrite zlen_app; lia).
        apply (Hwin ((DELETE, a1) :: (EQUAL, c1) :: [(INSERT, b1)])). intros k Hk.
        rewrite !proj_cons, proj_nil, (gk_eq _ Hk), (gk_xor _ Hk), Hx1, Hy1.
        destruct (k INSERT); cbn; now rewrite ?app_nil_r.
      + ok_inv. split; [lia|assumption].
    - destruct ((2 * zlen c2 >=? zlen x) || (2 * zlen c2 >=? zlen y)).
      + rewrite ins1 in Hs by lia.
        rewrite set0 in Hs by lia. cbn [bind] in Hs.
        rewrite set2 in Hs by lia. cbn [bind] in Hs. ok_inv.
        split; [lia|].
        pose proof (zlen_nonneg a2).
        replace (slice_to x (zlen c2)) with c2 by (rewrite Hx2; symmetry; apply slice_to_app; reflexivity).
        replace (slice_from x (zlen c2)) with b2 by (rewrite Hx2; symmetry; apply slice_from_app; reflexivity).
        replace (slice_to y (zlen y - zlen c2)) with a2
          by (rewrite Hy2; symmetry; apply slice_to_app; rewrite zlen_app; lia).
        apply (Hwin ((INSERT, a2) :: (EQUAL, c2) :: [(DELETE, b2)])). intros k Hk.
        rewrite !proj_cons, proj_nil, (gk_eq _ Hk), (gk_xor _ Hk), Hx2, Hy2.
        destruct (k INSERT); cbn; now rewrite ?app_nil_r.
      + ok_inv. split; [lia|assumption].
  Qed.

  Lemma inv_s2_exit s d : inv_s2 s -> sem2_step s = Ok (inr d) -> preserves d0 d.
  Proof.
    destruct s as [d' p]. intros (Hp & Hpres) Hs. unfold sem2_step in Hs.
    destruct (p <? zlen d') eqn:Elt; cbn [negb] in Hs.
    - exfalso. bind_discr Hs.
    - ok_inv. assumption.
  Qed.
End Sem2.

(* ------------------------------------------------------------------ *)
(** * diff_cleanupSemantic *)

Lemma cleanupSemantic_pre_spec cc d d' : cleanupSemantic_pre cc d = Ok d' -> preserves d d'.
Proof.
  unfold cleanupSemantic_pre. intros H.
  inv_bind H as r1 E1. destruct r1 as [d1 ch].
  assert (H1 : preserves d d1).
  { revert E1. apply (loop_inv (inv_s1 d) (fun r : list seg * bool => let '(d1, _) := r in preserves d d1)).
    - apply inv_s1_step.
    - intros s [dd cc'] Hi Hs. eapply inv_s1_exit; eassumption.
    - split; [apply preserves_refl|]. split; [lia|]. split; [constructor|]. intros le Hle. discriminate. }
  inv_bind H as d2 E2.
  assert (H2 : preserves d d2).
  { destruct ch.
    - apply cleanupMerge_spec in E2 as [E2 _]. eapply preserves_trans; eassumption.
    - ok_inv. assumption. }
  apply cleanupSemanticLossless_spec in H. eapply preserves_trans; eassumption.
Qed.

Lemma cleanupSemantic_overlap_spec d d' : cleanupSemantic_overlap d = Ok d' -> preserves d d'.
Proof.
  unfold cleanupSemantic_overlap.
  apply (loop_inv (inv_s2 d) (preserves d)).
  - apply inv_s2_step.
  - apply inv_s2_exit.
  - split; [lia|apply preserves_refl].
Qed.

Lemma filter_nonempty_spec (d : list seg) :
  preserves d (filter (fun s => negb (is_empty_seg s)) d) /\
  Forall nonempty (filter (fun s => negb (is_empty_seg s)) d).
Proof.
  set (f := fun s : seg => negb (is_empty_seg s)).
  induction d as [|[o t] d [IH1 IH2]]; [split; [apply preserves_refl|constructor]|].
  change (filter f ((o, t) :: d)) with (if f (o, t) then (o, t) :: filter f d else filter f d).
  destruct t as [|c t].
  - change (f (o, [])) with false. cbv iota.
    split; [|assumption]. intros k Hk. rewrite proj_cons, (IH1 k Hk). now destruct (k o).
  - change (f (o, c :: t)) with true. cbv iota. split.
    + intros k Hk. now rewrite !proj_cons, (IH1 k Hk).
    + constructor; [discriminate|assumption].
Qed.

Lemma existsb_empty_false (d : list seg) : existsb is_empty_seg d = false -> Forall nonempty d.
Proof.
  induction d as [|[o t] d IH]; cbn; intros H; [constructor|].
  apply orb_false_iff in H as [H1 H2]. constructor; [|auto].
  unfold is_empty_seg in H1. cbn in H1. destruct t; [discriminate|]. discriminate.
Qed.

Theorem cleanupSemantic_spec cc d d' : diff_cleanupSemantic cc d = Ok d' ->
  preserves d d' /\ Forall nonempty d'.
Proof.
  unfold diff_cleanupSemantic. intros H.
  inv_bind H as d1 E1. inv_bind H as d2 E2.
  apply cleanupSemantic_pre_spec in E1. apply cleanupSemantic_overlap_spec in E2.
  assert (H12 : preserves d d2) by (eapply preserves_trans; eassumption).
  destruct (existsb is_empty_seg d2) eqn:Ee.
  - destruct (filter_nonempty_spec d2) as [F1 F2].
    apply cleanupMerge_spec in H as [M1 M2]. split; [|auto].
    eapply preserves_trans; [eassumption|]. eapply preserves_trans; eassumption.
  - ok_inv. split; [assumption|]. now apply existsb_empty_false.
Qed.

Corollary cleanupSemantic_t12 cc d d' : diff_cleanupSemantic cc d = Ok d' ->
  t1 d' = t1 d /\ t2 d' = t2 d /\ Forall (fun s => snd s <> []) d'.
Proof.
  intros H. apply cleanupSemantic_spec in H as [P N].
  split; [|split].
  - rewrite !t1_proj. apply P, good_keep1.
  - rewrite !t2_proj. apply P, good_keep2.
  - exact N.
Qed.

Corollary cleanupMerge_t12 d d' : cleanupMerge d = Ok d' ->
  t1 d' = t1 d /\ t2 d' = t2 d /\ (Forall (fun s => snd s <> []) d -> Forall (fun s => snd s <> []) d').
Proof.
  intros H. apply cleanupMerge_spec in H as [P N].
  split; [|split].
  - rewrite !t1_proj. apply P, good_keep1.
  - rewrite !t2_proj. apply P, good_keep2.
  - exact N.
Qed.
