(* XmlFmtDiffer -- the XML formatter on the differ's OWN scripts (text_tags = []): the run-level premises of the
   C08 / C09 / C10 theorems are theorems here, so that the statements are about the two documents, the matching and the
   configuration only.

   For every valid matching m, with  script = namespace prologue ++ out (gen_script [] R rootR L rootL m)
   (XV.Differ, the model of Differ.diff; the prologue as Differ.diff emits it):
   * [differ_fscript_ok]   fscript_ok (from PrefixProofs.differ_script_ok: ns_decl_ok / doc_names_ok);
   * [differ_script_side]  no node is text-updated, tail-updated or renamed twice (every right node is visited once, the
                           updates of a visit aim at the node's partner, partners are distinct); the strings the actions
                           carry are strings of the documents, hence plain under [doc_okb];
   * [differ_budget]       the new texts are texts / tails of the right document, each used at most once;
   * [differ_run_ok]       run_ok;
   * [differ_format]       xml_format returns FOk T, out_clean T, accept T ~ R, reject T ~ L (without attributes).
   Document conditions: [doc_okb] (XmlFmtDiffer3: elements only -- prepare() has removed the comments --, tags / attribute
   names / values / texts / tails without private-use characters, tags and attribute names outside the diff namespace),
   ns_decl_ok / doc_names_ok (PrefixProofs), and with use_replace [text_size R <= 6393].
   No axioms. *)
From Coq Require Import List NArith ZArith Bool Arith Lia.
Import ListNotations.
Require Import XV.Str XV.Json XV.TextFormat XV.Forest XV.LCS XV.Matcher XV.Differ XV.Spec XV.Path XV.WF XV.ForestProofs XV.TreeProofs
               XV.AttrProofs XV.PathProofs XV.PatcherProofs XV.Render XV.DifferFrame XV.DifferCounters XV.DifferSound
               XV.PipelineProofs XV.PrefixProofs
               XV.XmlFmt XV.Projections
               XV.XmlFmtProofs0 XV.XmlFmtProofs1 XV.XmlFmtProofs2 XV.XmlFmtProofsR2 XV.XmlFmtProofs3 XV.XmlFmtProofs4 XV.XmlFmtProofs5
               XV.XmlFmtProofs6 XV.XmlFmtProofs7 XV.XmlFmtProofs8 XV.XmlFmtProofs9 XV.XmlFmtProofsB XV.XmlFmtProofsC XV.XmlFmtProofsD
               XV.XmlFmtDiffer1 XV.XmlFmtDiffer2 XV.XmlFmtDiffer3.
Require XV.Placeholder XV.PlaceholderUndo.
Local Open Scope nat_scope.

(* the characters of the texts and tails of a document, node by node in breadth-first order *)
Definition text_size (R : forest) (rootR : id) : N :=
  fold_right (fun y acc => (node_text_size R y + acc)%N) 0%N (bfs R (S (fnext R)) [rootR]).

Lemma fold_right_map_fst (g : id -> N) (parts : list (id * list iact)) :
  fold_right (fun p acc => (g (fst p) + acc)%N) 0%N parts = fold_right (fun y acc => (g y + acc)%N) 0%N (map fst parts).
Proof. induction parts as [|p ps IH]; [reflexivity|]. cbn [fold_right map]. now rewrite IH. Qed.

Lemma budget_ns l : forallb is_ns_action l = true -> budget l = 0%N.
Proof.
  induction l as [|a l IH]; intros H; [reflexivity|]. cbn [forallb] in H. apply andb_true_iff in H as [Ha Hl].
  rewrite budget_cons, (IH Hl). destruct a; try discriminate; reflexivity.
Qed.

Section Differ.
Variable c : cfg.
Variable o : oracle.
Variable pe : penv.
Variables L R : forest.
Variables rootL rootR : id.
Variables lns rns : nsmap.
Variable m : list (id * id).
Variable pro : list iact.
Hypothesis HwfL : wf_forest L rootL.
Hypothesis HwfR : wf_forest R rootR.
Hypothesis Hvm : valid_matching L R rootL rootR m.
Hypothesis Hpro : ns_prologue lns rns = Some pro.
Hypothesis Hdecl : ns_decl_ok pe lns rns L rootL R rootR.
Hypothesis HnL : doc_names_ok pe L rootL.
Hypothesis HnR : doc_names_ok pe R rootR.
Hypothesis HdL : doc_okb L = true.
Hypothesis HdR : doc_okb R = true.

Let s := gen_script [] R rootR L rootL m.
Let script := pro ++ out s.
Let W := remove_comments (doc_tree L rootL).
Let NS0 : list (option str * str) := [(Some DIFF_PREFIX, DIFF_NS)].

Lemma pro_ns : forallb is_ns_action pro = true.
Proof. eapply ns_prologue_all_ns; eauto. Qed.

Lemma differ_run_spec : run_spec rootL L script = Some (Differ.W s).
Proof.
  destruct (gen_script_replay [] L R rootL rootR m HwfL HwfR Hvm) as (_ & H2 & _).
  unfold script. rewrite run_spec_app, (run_spec_ns rootL L pro pro_ns). exact H2.
Qed.

Lemma pro_acts : Forall (pro_act lns) pro.
Proof. destruct Hdecl as (_ & Hdef & _). exact (prologue_acts lns rns pro Hdef Hpro). Qed.

Lemma pro_tgts g : (forall p u, g (IInsNs p u) = []) -> (forall p, g (IDelNs p) = []) -> tgts g pro = [].
Proof.
  intros H1 H2. apply tgts_none. intros a Ha. pose proof pro_acts as F. rewrite Forall_forall in F. specialize (F a Ha).
  destruct a; cbn [pro_act] in F; try contradiction; auto.
Qed.

(* the blocks of the script *)
Lemma differ_parts : exists rf parts dels,
  out s = flat_map snd parts ++ map IDelete dels /\ map fst parts = bfs R (S (fnext R)) [rootR] /\
  Forall (part_ok R rf) parts /\ (forall x x' w, rf x = Some w -> rf x' = Some w -> x = x').
Proof. exact (gen_script_parts [] L R rootL rootR m HwfL HwfR Hvm). Qed.

Lemma bfs_lab y : In y (bfs R (S (fnext R)) [rootR]) -> lab_okb (flab R y) = true.
Proof.
  intros Hy. destruct (bfs_spec R rootR HwfR) as (_ & Hm & _). apply Hm in Hy.
  apply (doc_ok_lab R y HdR). eapply desc_lt; [exact HwfR|apply (wf_root_lt _ _ HwfR)|exact Hy].
Qed.

Lemma differ_lit : Forall lit_ok script.
Proof.
  unfold script. apply Forall_app. split.
  - pose proof pro_acts as F. eapply Forall_impl; [|exact F]. intros a Ha. destruct a; cbn [pro_act lit_ok] in *; try contradiction; exact I.
  - destruct differ_parts as (rf & parts & dels & E & Ep & FP & _). rewrite E. apply Forall_app. split.
    + apply Forall_forall. intros a Ha. apply in_flat_map in Ha as ([y acts] & Hp & Ha). cbn [snd] in Ha.
      rewrite Forall_forall in FP. destruct (FP _ Hp) as (Fq & _). cbn [fst snd] in Fq. rewrite Forall_forall in Fq.
      apply (vq_lit R y rf a); [|apply Fq, Ha]. apply bfs_lab. rewrite <- Ep. apply in_map_iff. exists (y, acts). auto.
    + apply Forall_forall. intros a Ha. apply in_map_iff in Ha as (n & <- & _). exact I.
Qed.

Lemma differ_all : Forall (fun a => act_ok a /\ iact_plain a /\ names_plain a) script.
Proof.
  pose proof differ_lit as FL.
  pose proof (keys_run Pk rootL script L _ HwfL (doc_keys_ok L HdL) differ_run_spec
                (Forall_impl _ lit_new FL)) as FK.
  apply Forall_forall. intros a Ha. rewrite Forall_forall in FL, FK. apply lit_all; auto.
Qed.

Theorem differ_script_side : script_side script.
Proof.
  destruct differ_parts as (rf & parts & dels & E & Ep & FP & Hinj).
  assert (Hnd : NoDup (map fst parts)) by (rewrite Ep; apply (bfs_spec R rootR HwfR)).
  destruct (parts_nodup R rf parts dels Hinj Hnd FP) as (N1 & N2 & N3).
  constructor.
  - unfold script. rewrite tgts_app, (pro_tgts ttext (fun _ _ => eq_refl) (fun _ => eq_refl)), E. exact N1.
  - unfold script. rewrite tgts_app, (pro_tgts ttail (fun _ _ => eq_refl) (fun _ => eq_refl)), E. exact N2.
  - unfold script. rewrite tgts_app, (pro_tgts tren (fun _ _ => eq_refl) (fun _ => eq_refl)), E. exact N3.
  - eapply Forall_impl; [|exact differ_all]. intros a Ha. apply Ha.
Qed.

Theorem differ_budget : (budget script <= text_size R rootR)%N.
Proof.
  destruct differ_parts as (rf & parts & dels & E & Ep & FP & Hinj).
  unfold script. rewrite budget_app.
  rewrite (budget_ns pro pro_ns), E. cbn [N.add]. etransitivity; [apply (parts_budget R rf parts dels Hinj FP)|].
  unfold text_size. rewrite <- Ep, fold_right_map_fst. apply N.le_refl.
Qed.

Theorem differ_fscript_ok : fscript_ok lns pe rootL NS0 L script.
Proof.
  pose proof (differ_script_ok pe [] L R rootL rootR lns rns m pro HwfL HwfR Hpro Hdecl HnL HnR) as Hok. fold s in Hok. fold script in Hok.
  apply (fscript_of_script_ok lns pe rootL script (nsmap_env lns) NS0 L Hok).
  - intros q w H. rewrite env_get_app. change (some_ns lns) with (nsmap_env lns). now rewrite H.
  - unfold script. apply Forall_app. split.
    + pose proof pro_acts as F. eapply Forall_impl; [|exact F]. intros a Ha.
      destruct a as [| | | | | | | | | | |[q|] u|]; cbn [pro_act ns_new] in *; try exact I; try contradiction.
      change (some_ns lns) with (nsmap_env lns). rewrite env_get_nsmap_env. exact Ha.
    + pose proof differ_lit as FL. unfold script in FL. apply Forall_app in FL as [_ FL].
      destruct differ_parts as (rf & parts & dels & E & _ & FP & _).
      apply Forall_forall. intros a Ha. destruct a as [| | | | | | | | | | |[q|] u|]; try exact I.
      exfalso. rewrite E in Ha. apply in_app_or in Ha as [Ha|Ha].
      * apply in_flat_map in Ha as ([y acts] & Hp & Ha). rewrite Forall_forall in FP. destruct (FP _ Hp) as (Fq & _).
        rewrite Forall_forall in Fq. exact (Fq _ Ha).
      * apply in_map_iff in Ha as (n & En & _). discriminate.
Qed.

Lemma differ_render : exists gs, render_script pe rootL L script = Some gs.
Proof. exact (render_script_total pe rootL script L _ differ_run_spec). Qed.

(* the initial decorated tree *)
Let d0 := dt_of (S (fnext L)) L rootL.
Lemma d0_facts : fin L rootL (S (fnext L)) /\ erase d0 = W /\
  PlaceholderUndo.npua W = true /\ clean_tags W /\ nodiff W /\ wclean W /\
  (forall x, desc L rootL x -> is_comment (ltag (flab L x)) = false).
Proof.
  assert (HF : fin L rootL (S (fnext L))) by (eapply fin_mono; [apply (fin_root L rootL HwfL)|lia]).
  assert (HC : forall x, desc L rootL x -> is_comment (ltag (flab L x)) = false) by (apply (doc_no_comments L rootL HwfL HdL)).
  assert (E0 : erase d0 = W) by (apply (erase_dt_of L _ rootL HF HC)).
  destruct (doc_tree_ok L rootL HwfL HdL (S (fnext L)) rootL HF ltac:(constructor)) as (T1 & T2 & T3 & T4).
  fold d0 in T1, T2, T3, T4. rewrite E0 in T1, T2, T3, T4. auto 10.
Qed.

Hypothesis Hroom : c_replace c = true -> (text_size R rootR <= 6393)%N.

Theorem differ_run_ok gs : render_script pe rootL L script = Some gs ->
  run_ok c o lns (FS W ph_init NS0) gs.
Proof.
  intros Hren. destruct d0_facts as (HF & E0 & HP & HCl & HN & HWc & HC).
  destruct (rel_init (ws_text c) L _ rootL HF HC ltac:(fold d0; rewrite E0; exact HN) ltac:(fold d0; rewrite E0; exact HP)) as [HR0 Ha0].
  fold d0 in HR0, Ha0.
  apply (gen_run_ok c o lns pe rootL script L (FS W ph_init NS0) d0 gs (Differ.W s) HwfL E0 HR0 eq_refl Ha0 tinv_init
           (J_init L rootL HwfL HdL script _) differ_script_side); cbn [fs_ph fs_ns].
  - intros Hr. pose proof differ_budget. specialize (Hroom Hr). change (Placeholder.ctr ph_init) with 57350%N.
    unfold Placeholder.PUA_END. lia.
  - exact differ_run_spec.
  - exact Hren.
  - exact differ_fscript_ok.
Qed.

(* C08 + C09 + C10 (tags, structure, texts, tails) for the differ's own script *)
Theorem differ_format :
  exists gs T, render_script pe rootL L script = Some gs /\
    xml_format c o lns ph_init gs W = FOk T /\ out_clean T = true /\
    xequiv (ws_text c) (accept T) (remove_comments (doc_tree R rootR)) /\
    xequiv (ws_text c) (erase_attrs (reject T)) (erase_attrs W).
Proof.
  destruct differ_render as [gs Hren]. destruct d0_facts as (HF & E0 & HP & HCl & HN & HWc & HC).
  pose proof (differ_run_ok gs Hren) as Hro.
  pose proof differ_all as FA.
  assert (Fnp : Forall names_plain script) by (eapply Forall_impl; [|exact FA]; intros a Ha; apply Ha).
  assert (Fip : Forall iact_plain script) by (eapply Forall_impl; [|exact FA]; intros a Ha; apply Ha).
  destruct (format_total_clean c o lns pe rootL L script gs (Differ.W s) HwfL HC HP HCl HN HWc differ_run_spec Hren
              differ_fscript_ok Fnp Fip Hro) as (T & HT & Hclean).
  exists gs, T. split; [exact Hren|]. split; [exact HT|]. split; [exact Hclean|]. split.
  - destruct (gen_script_replay [] L R rootL rootR m HwfL HwfR Hvm) as (_ & _ & Heq). fold s in Heq.
    apply doc_equiv_nil in Heq.
    eapply xequiv_trans; [apply (accept_format c o lns pe rootL L script gs (Differ.W s) T HwfL HC HP HCl HN differ_run_spec Hren differ_fscript_ok Fnp Hro HT)|].
    apply tree_equivb_xequiv, Heq.
  - apply (reject_format c o lns gs W T HP HCl (nodiff_unmarked W HN) Hro HT).
Qed.
End Differ.

(* the same with the boolean document conditions (checkable by computation) *)
Theorem differ_format_b c o pe L R rootL rootR lns rns m pro :
  wf_forest L rootL -> wf_forest R rootR -> valid_matching L R rootL rootR m ->
  ns_prologue lns rns = Some pro ->
  ns_decl_okb pe lns rns L rootL R rootR = true ->
  doc_names_okb pe L rootL = true -> doc_names_okb pe R rootR = true ->
  doc_okb L = true -> doc_okb R = true ->
  (c_replace c = true -> (text_size R rootR <= 6393)%N) ->
  let script := pro ++ out (gen_script [] R rootR L rootL m) in
  let W := remove_comments (doc_tree L rootL) in
  exists gs T, render_script pe rootL L script = Some gs /\
    xml_format c o lns ph_init gs W = FOk T /\ out_clean T = true /\
    xequiv (ws_text c) (accept T) (remove_comments (doc_tree R rootR)) /\
    xequiv (ws_text c) (erase_attrs (reject T)) (erase_attrs W).
Proof.
  intros HwfL HwfR Hvm Hpro Hd HnL HnR HdL HdR Hroom.
  apply (differ_format c o pe L R rootL rootR lns rns m pro HwfL HwfR Hvm Hpro
           (ns_decl_okb_sound pe lns rns L rootL R rootR Hd)
           (proj1 (doc_names_okb_iff pe L rootL) HnL) (proj1 (doc_names_okb_iff pe R rootR) HnR) HdL HdR Hroom).
Qed.

Theorem differ_run_ok_b c o pe L R rootL rootR lns rns m pro gs :
  wf_forest L rootL -> wf_forest R rootR -> valid_matching L R rootL rootR m ->
  ns_prologue lns rns = Some pro ->
  ns_decl_okb pe lns rns L rootL R rootR = true ->
  doc_names_okb pe L rootL = true -> doc_names_okb pe R rootR = true ->
  doc_okb L = true -> doc_okb R = true ->
  (c_replace c = true -> (text_size R rootR <= 6393)%N) ->
  render_script pe rootL L (pro ++ out (gen_script [] R rootR L rootL m)) = Some gs ->
  run_ok c o lns (FS (remove_comments (doc_tree L rootL)) ph_init [(Some DIFF_PREFIX, DIFF_NS)]) gs.
Proof.
  intros HwfL HwfR Hvm Hpro Hd HnL HnR HdL HdR Hroom.
  apply (differ_run_ok c o pe L R rootL rootR lns rns m pro HwfL HwfR Hvm Hpro
           (ns_decl_okb_sound pe lns rns L rootL R rootR Hd)
           (proj1 (doc_names_okb_iff pe L rootL) HnL) (proj1 (doc_names_okb_iff pe R rootR) HnR) HdL HdR Hroom).
Qed.

(* ------------------------------------------------------------------ *)
(** * Non-vacuity: <a><b>xy</b>t<c/></a>  ->  <a k="1"><b>xz</b>t<d/></a>, matching a-a, b-b, c-d *)

Definition dx_L : forest := mk_forest [(0, [1; 2])]
  [(0, Lab (TElem [97%N]) [] None None); (1, Lab (TElem [98%N]) [] (Some [120%N;121%N]) (Some [116%N])); (2, Lab (TElem [99%N]) [] None None)] 3.
Definition dx_R : forest := mk_forest [(0, [1; 2])]
  [(0, Lab (TElem [97%N]) [([107%N], [49%N])] None None); (1, Lab (TElem [98%N]) [] (Some [120%N;122%N]) (Some [116%N])); (2, Lab (TElem [100%N]) [] None None)] 3.
Definition dx_m : list (id * id) := [(0, 0); (1, 1); (2, 2)].
Definition dx_pe : penv := fun _ => None.
Definition dx_o : oracle :=
  Orc {| DMP.isalnum := fun c => (97 <=? c)%N && (c <=? 122)%N; DMP.isspace := fun c => (c =? 32)%N |} (fun _ => false).

Lemma dx_premises :
  wf_forest dx_L 0 /\ wf_forest dx_R 0 /\ valid_matching dx_L dx_R 0 0 dx_m /\ ns_prologue [] [] = Some [] /\
  ns_decl_okb dx_pe [] [] dx_L 0 dx_R 0 = true /\ doc_names_okb dx_pe dx_L 0 = true /\ doc_names_okb dx_pe dx_R 0 = true /\
  doc_okb dx_L = true /\ doc_okb dx_R = true /\ (text_size dx_R 0%nat <= 6393)%N.
Proof.
  split; [apply wf_forestb_sound; vm_compute; reflexivity|]. split; [apply wf_forestb_sound; vm_compute; reflexivity|].
  split; [apply valid_matchingb_sound; vm_compute; reflexivity|]. repeat split; vm_compute; try reflexivity; discriminate.
Qed.

Example dx_format (c : cfg) : c_tt c = [] ->
  exists gs T, render_script dx_pe 0 dx_L (out (gen_script [] dx_R 0 dx_L 0 dx_m)) = Some gs /\
    xml_format c dx_o [] ph_init gs (remove_comments (doc_tree dx_L 0)) = FOk T /\ out_clean T = true /\
    xequiv (ws_text c) (accept T) (remove_comments (doc_tree dx_R 0)) /\
    xequiv (ws_text c) (erase_attrs (reject T)) (erase_attrs (remove_comments (doc_tree dx_L 0))).
Proof.
  intros _. destruct dx_premises as (A1 & A2 & A3 & A4 & A5 & A6 & A7 & A8 & A9 & A10).
  exact (differ_format_b c dx_o dx_pe dx_L dx_R 0 0 [] [] dx_m [] A1 A2 A3 A4 A5 A6 A7 A8 A9 (fun _ => A10)).
Qed.

(* ------------------------------------------------------------------ *)
(** * The three properties separately (statements of Properties/C08.v, C09.v, C10.v) *)

Section Three.
Variables (c : cfg) (o : oracle) (pe : penv) (L R : forest) (rootL rootR : id) (lns rns : nsmap) (m : list (id * id)) (pro : list iact).
Hypothesis HwfL : wf_forest L rootL.
Hypothesis HwfR : wf_forest R rootR.
Hypothesis Hvm : valid_matching L R rootL rootR m.
Hypothesis Hpro : ns_prologue lns rns = Some pro.
Hypothesis Hd : ns_decl_okb pe lns rns L rootL R rootR = true.
Hypothesis HnL : doc_names_okb pe L rootL = true.
Hypothesis HnR : doc_names_okb pe R rootR = true.
Hypothesis HdL : doc_okb L = true.
Hypothesis HdR : doc_okb R = true.
Hypothesis Hroom : c_replace c = true -> (text_size R rootR <= 6393)%N.
Let script := pro ++ out (gen_script [] R rootR L rootL m).
Let W := remove_comments (doc_tree L rootL).

Theorem differ_total_clean :
  exists gs T, render_script pe rootL L script = Some gs /\ xml_format c o lns ph_init gs W = FOk T /\ out_clean T = true.
Proof.
  destruct (differ_format_b c o pe L R rootL rootR lns rns m pro HwfL HwfR Hvm Hpro Hd HnL HnR HdL HdR Hroom) as (gs & T & A & B & C & _).
  exists gs, T. auto.
Qed.

Theorem differ_accept :
  exists gs T, render_script pe rootL L script = Some gs /\ xml_format c o lns ph_init gs W = FOk T /\
               xequiv (ws_text c) (accept T) (remove_comments (doc_tree R rootR)).
Proof.
  destruct (differ_format_b c o pe L R rootL rootR lns rns m pro HwfL HwfR Hvm Hpro Hd HnL HnR HdL HdR Hroom) as (gs & T & A & B & _ & C & _).
  exists gs, T. auto.
Qed.

Theorem differ_reject :
  exists gs T, render_script pe rootL L script = Some gs /\ xml_format c o lns ph_init gs W = FOk T /\
               xequiv (ws_text c) (erase_attrs (reject T)) (erase_attrs W).
Proof.
  destruct (differ_format_b c o pe L R rootL rootR lns rns m pro HwfL HwfR Hvm Hpro Hd HnL HnR HdL HdR Hroom) as (gs & T & A & B & _ & _ & C).
  exists gs, T. auto.
Qed.
End Three.
