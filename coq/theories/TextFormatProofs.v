(* Property C02: DiffParser.parse (DiffFormatter.format acts) = acts.

   The proof is generic in the tables that the translator extracts from the
   Python source: everything the round trip needs of them is expressed by the
   boolean checker [tables_ok], which is re-evaluated on the generated tables
   (Properties/C02.v) on every run. *)
From Coq Require Import List NArith ZArith Bool Lia PeanoNat.
Import ListNotations.
Require Import XV.Str XV.Json XV.TextFormat XV.StrProofs XV.JsonProofs.
Local Open Scope N_scope.

(* ================================================================== *)
(** * The table checker                                                *)
(* ================================================================== *)

(* Characters allowed in an action keyword: a-z, 0-9, '-' and '_'.  None of
   them is a comma, a quote, white space or a line break. *)
Definition kw_char (c : N) : bool :=
  ((97 <=? c) && (c <=? 122)) || ((48 <=? c) && (c <=? 57)) || (c =? 45) || (c =? 95).
Definition kw_ok (k : str) : bool :=
  match k with [] => false | _ => forallb kw_char k end.

(* The i-th, (i+1)-th, ... constructor arguments [args] of a parser handler:
   argument number i is read from parameter [idx]; the formatter must emit, at
   position [idx], the field whose index in the signature is i, and encode it
   with the encoder that the parser undoes. *)
Fixpoint args_ok (fields : list (str * enc)) (sig : list str) (i : nat)
                 (args : list (nat * enc)) : bool :=
  match args with
  | [] => true
  | a :: r =>
      match nth_error fields (fst a) with
      | Some f =>
          enc_eqb (snd a) (snd f)
          && match index_of (fst f) sig with Some j => Nat.eqb j i | None => false end
          && args_ok fields sig (S i) r
      | None => false
      end
  end.

Definition count_str (x : str) (l : list str) : nat := length (filter (str_eqb x) l).

Fixpoint nodup_strs (l : list str) : bool :=
  match l with
  | [] => true
  | x :: r => negb (existsb (str_eqb x) r) && nodup_strs r
  end.

Definition fmt_entry_ok (T : text_tables) (fe : fmt_entry) : bool :=
  kw_ok (fe_keyword fe) &&
  match find_parse T (fe_keyword fe), sig_fields T (fe_ctor fe) with
  | Some pe, Some sig =>
      (* the handler the parser dispatches to builds the same action class *)
      str_eqb (pe_ctor pe) (fe_ctor fe)
      (* ... takes as many parameters as the formatter emits fields *)
      && Nat.eqb (pe_nparams pe) (length (fe_fields fe))
      (* ... passes as many constructor arguments as the class has fields *)
      && Nat.eqb (length (pe_args pe)) (length sig)
      (* ... each taken from the right parameter and decoded the right way *)
      && args_ok (fe_fields fe) sig 0 (pe_args pe)
      (* the formatter only reads fields that exist *)
      && forallb (fun f => match index_of (fst f) sig with Some _ => true | None => false end)
                 (fe_fields fe)
      (* every signature field is emitted exactly once *)
      && Nat.eqb (length (fe_fields fe)) (length sig)
      && forallb (fun n => Nat.eqb (count_str n (map fst (fe_fields fe))) 1) sig
      && nodup_strs sig
  | _, _ => false
  end.

Definition tables_ok (T : text_tables) : bool :=
  str_eqb (tt_line_sep T) [10]
  && str_eqb (tt_pre T) [91]
  && str_eqb (tt_post T) [93]
  && str_eqb (tt_field_sep T) [44; 32]
  && forallb (fmt_entry_ok T) (tt_fmt T)
  && nodup_strs (map fe_ctor (tt_fmt T))
  && nodup_strs (map fe_keyword (tt_fmt T))
  && nodup_strs (map fst (tt_sig T))
  && nodup_strs (map pe_method (tt_parse T)).

(* ================================================================== *)
(** * Well-formed actions                                              *)
(* ================================================================== *)

(* A value that is written verbatim (node xpaths, tag and attribute names,
   namespace prefixes and URIs): no comma, no double quote, no line-break
   character, no leading or trailing white space, and when it begins with a brace (a Clark
   name {uri}local) the brace is closed.  The empty string is fine. *)
Definition raw_char (c : N) : Prop := c <> 44 /\ c <> 34 /\ is_linebreak c = false.
Definition clark_closed (s : str) : Prop :=
  match s with c :: r => c = 123 -> In 125 r | [] => True end.
Definition raw_ok (s : str) : Prop := Forall raw_char s /\ strip s = s /\ clark_closed s.

Definition raw_charb (c : N) : bool := negb (c =? 44) && negb (c =? 34) && negb (is_linebreak c).
Definition clark_closedb (s : str) : bool :=
  match s with c :: r => negb (c =? 123) || existsb (N.eqb 125) r | [] => true end.
Definition raw_okb (s : str) : bool := forallb raw_charb s && str_eqb (strip s) s && clark_closedb s.

(* ... or, more generally, a value that DiffParser._split reads as ONE field: every comma stands inside a closed
   double-quoted literal (with backslash escapes) -- hand-written paths such as /doc/para[@id="intro, part 1"] -- or
   inside the braces of a Clark name at the beginning of the field, {tag:example.org,2005:x}name (the namespace part
   may hold any character but a closing brace).
   [balc s in_clark in_string escaped blank]: scanning s in the splitter's state (blank: the field so far is white
   space only) ends outside a literal and outside the braces without meeting a separator. *)
Fixpoint balc (s : str) (k i e blank : bool) : bool :=
  match s with
  | [] => negb i && negb k
  | c :: r =>
      if k then balc r (negb (c =? 125)) i e (is_space c && blank)
      else if i then
        if e then balc r false true false (is_space c && blank)
        else if c =? 92 then balc r false true true (is_space c && blank)
        else if c =? 34 then balc r false false false (is_space c && blank)
        else balc r false true false (is_space c && blank)
      else if c =? 44 then false
      else balc r ((c =? 123) && blank) (c =? 34) e (is_space c && blank)
  end.
Definition rawq_ok (s : str) : Prop := balc s false false false true = true /\ no_lb s /\ strip s = s.
Definition rawq_okb (s : str) : bool :=
  balc s false false false true && forallb (fun c => negb (is_linebreak c)) s && str_eqb (strip s) s.

(* no comma, no quote, and never at the beginning of a field: the scan goes straight through *)
Lemma balc_plain s : Forall (fun c => c <> 44 /\ c <> 34) s -> balc s false false false false = true.
Proof.
  induction 1 as [|c s [H1 H2] Hs IH]; [reflexivity|]. cbn [balc].
  apply N.eqb_neq in H1, H2. rewrite H1, H2. rewrite !andb_false_r. exact IH.
Qed.

Lemma balc_clark s : Forall (fun c => c <> 44 /\ c <> 34) s -> In 125 s -> balc s true false false false = true.
Proof.
  induction 1 as [|c s Hc Hs IH]; intros Hin; [destruct Hin|]. cbn [balc]. rewrite andb_false_r.
  destruct (c =? 125) eqn:E; cbn [negb].
  - apply balc_plain, Hs.
  - apply IH. destruct Hin as [->|Hin]; [discriminate|exact Hin].
Qed.

Lemma lstrip_len s : (length (lstrip s) <= length s)%nat.
Proof. induction s as [|c s IH]; [apply le_n|]. cbn [lstrip]. destruct (is_space c); cbn [length]; lia. Qed.
Lemma strip_len s : (length (strip s) <= length s)%nat.
Proof.
  unfold strip, rstrip. rewrite rev_length.
  etransitivity; [apply lstrip_len|]. rewrite rev_length. apply lstrip_len.
Qed.
Lemma strip_hd c r : strip (c :: r) = c :: r -> is_space c = false.
Proof.
  intros H. destruct (is_space c) eqn:E; [|reflexivity].
  rewrite (strip_space_cons c r E) in H. pose proof (strip_len r) as L. rewrite H in L. cbn [length] in L. lia.
Qed.

Lemma raw_rawq s : raw_ok s -> rawq_ok s.
Proof.
  intros (Hc & Hs & Hk). split; [|split; [|exact Hs]].
  - assert (Hp : Forall (fun c => c <> 44 /\ c <> 34) s)
      by (eapply Forall_impl; [|exact Hc]; intros c (H1 & H2 & _); auto).
    destruct s as [|c r]; [reflexivity|].
    inversion Hp as [|? ? [H1 H2] Hr]; subst. cbn [balc].
    apply N.eqb_neq in H1, H2. rewrite H1, H2. rewrite (strip_hd _ _ Hs). cbn [andb]. rewrite andb_true_r.
    destruct (c =? 123) eqn:E.
    + apply balc_clark; [exact Hr|]. apply Hk. apply N.eqb_eq, E.
    + apply balc_plain, Hr.
  - eapply Forall_impl; [|exact Hc]. intros c (_ & _ & H3). exact H3.
Qed.

Lemma rawq_okb_spec s : rawq_okb s = true <-> rawq_ok s.
Proof.
  unfold rawq_okb, rawq_ok, no_lb. rewrite !andb_true_iff, str_eqb_eq, forallb_forall, Forall_forall.
  split.
  - intros [[H1 H2] H3]. split; [exact H1|]. split; [|exact H3]. intros c Hc. apply negb_true_iff, H2, Hc.
  - intros (H1 & H2 & H3). split; [split; [exact H1|]|exact H3]. intros c Hc. apply negb_true_iff, H2, Hc.
Qed.

(* a Clark name whose namespace part holds commas, quotes, anything but a closing brace and a line break *)
Lemma clark_rawq u l :
  ~ In 125 u -> no_lb u -> Forall (fun c => 33 <= c <= 126 /\ c <> 44 /\ c <> 34) l -> l <> [] ->
  rawq_ok (123 :: u ++ 125 :: l).
Proof.
  intros Hu Hlb Hl Hne. split; [|split].
  - cbn [balc]. change (123 =? 44) with false. change (123 =? 34) with false. change (123 =? 123) with true.
    change (is_space 123) with false. cbn [andb]. cbv match.
    assert (G : forall u, ~ In 125 u -> balc (u ++ 125 :: l) true false false false = true).
    { clear -Hl. induction u as [|c u IH]; intros Hu; cbn [app balc]; rewrite ?andb_false_r.
      - change (125 =? 125) with true. cbn [negb]. apply balc_plain.
        eapply Forall_impl; [|exact Hl]. intros c (_ & H1 & H2). auto.
      - destruct (c =? 125) eqn:E; [apply N.eqb_eq in E; subst; exfalso; apply Hu; left; reflexivity|].
        cbn [negb]. apply IH. intros H. apply Hu. right. exact H. }
    apply G, Hu.
  - constructor; [reflexivity|]. apply Forall_app. split; [exact Hlb|]. constructor; [reflexivity|].
    eapply Forall_impl; [|exact Hl]. intros c (H1 & _). apply is_linebreak_printable. lia.
  - destruct (exists_last Hne) as (l' & z & ->).
    replace (123 :: u ++ 125 :: l' ++ [z]) with (123 :: (u ++ 125 :: l') ++ [z])
      by (rewrite <- app_assoc; reflexivity).
    apply strip_delimited; [reflexivity|].
    apply Forall_app in Hl as [_ Hz]. inversion Hz as [|? ? (Hz1 & _) _]; subst. apply is_space_graph. lia.
Qed.

Definition wf_val (e : enc) (v : pyval) : Prop :=
  match e, v with
  | ERaw, PStr s => rawq_ok s
  | EJson, PStr s => Forall xml_char s        (* arbitrary text *)
  | EJson, PNone => True
  | EInt, PInt _ => True                      (* any integer *)
  | _, _ => False
  end.

Definition wf_valb (e : enc) (v : pyval) : bool :=
  match e, v with
  | ERaw, PStr s => raw_okb s
  | EJson, PStr s => forallb xml_charb s
  | EJson, PNone => true
  | EInt, PInt _ => true
  | _, _ => false
  end.

(* the value of the field that formatter slot [f] = (field name, encoder)
   reads is well formed for that encoder *)
Definition field_ok (sig : list str) (vals : list pyval) (f : str * enc) : Prop :=
  match index_of (fst f) sig with
  | Some i => match nth_error vals i with Some v => wf_val (snd f) v | None => False end
  | None => False
  end.

Definition field_okb (sig : list str) (vals : list pyval) (f : str * enc) : bool :=
  match index_of (fst f) sig with
  | Some i => match nth_error vals i with Some v => wf_valb (snd f) v | None => false end
  | None => false
  end.

Definition wf_action (T : text_tables) (a : gaction) : Prop :=
  match find_fmt T (ga_ctor a), sig_fields T (ga_ctor a) with
  | Some fe, Some sig =>
      length (ga_fields a) = length sig /\
      Forall (field_ok sig (ga_fields a)) (fe_fields fe)
  | _, _ => False
  end.

Definition wf_actionb (T : text_tables) (a : gaction) : bool :=
  match find_fmt T (ga_ctor a), sig_fields T (ga_ctor a) with
  | Some fe, Some sig =>
      Nat.eqb (length (ga_fields a)) (length sig)
      && forallb (field_okb sig (ga_fields a)) (fe_fields fe)
  | _, _ => false
  end.

Lemma clark_closedb_spec s : clark_closedb s = true <-> clark_closed s.
Proof.
  destruct s as [|c r]; cbn [clark_closedb clark_closed]; [tauto|].
  rewrite orb_true_iff, negb_true_iff, N.eqb_neq, existsb_exists. split.
  - intros [H|(x & Hx & E)] Hc; [contradiction|]. apply N.eqb_eq in E. subst x. exact Hx.
  - intros H. destruct (N.eq_dec c 123) as [E|E]; [right|left; exact E].
    exists 125. split; [apply H, E|apply N.eqb_refl].
Qed.

Lemma raw_okb_spec s : raw_okb s = true <-> raw_ok s.
Proof.
  unfold raw_okb, raw_ok. rewrite !andb_true_iff, str_eqb_eq, forallb_forall, Forall_forall, clark_closedb_spec.
  split.
  - intros [[H1 H2] H3]. split; [|split; assumption]. intros c Hc. specialize (H1 c Hc).
    unfold raw_charb, raw_char in *.
    apply andb_true_iff in H1 as [H1 H4]. apply andb_true_iff in H1 as [H1 H5].
    apply negb_true_iff in H1, H4, H5. apply N.eqb_neq in H1, H5. auto.
  - intros (H1 & H2 & H3). split; [split; [|assumption]|assumption]. intros c Hc. specialize (H1 c Hc).
    unfold raw_charb, raw_char in *.
    destruct H1 as (H1 & H4 & H5). apply N.eqb_neq in H1, H4. rewrite H1, H4, H5. reflexivity.
Qed.

(* wf_valb / field_okb / wf_actionb: the PLAIN sufficient test (raw fields without any comma or quote), used where the
   fields are names and paths of documents; wf_valqb / field_okqb / wf_actionqb decide wf_val / wf_action exactly *)
Lemma wf_valb_spec e v : wf_valb e v = true -> wf_val e v.
Proof.
  destruct e, v; cbn [wf_valb wf_val]; try discriminate; auto.
  - intros H. apply raw_rawq, raw_okb_spec, H.
  - rewrite forallb_forall, Forall_forall. intros H c Hc. apply xml_charb_spec, H, Hc.
Qed.

Lemma field_okb_spec sig vals f : field_okb sig vals f = true -> field_ok sig vals f.
Proof.
  unfold field_okb, field_ok. destruct (index_of (fst f) sig) as [i|]; [|discriminate].
  destruct (nth_error vals i) as [v|]; [apply wf_valb_spec|discriminate].
Qed.

Lemma wf_actionb_spec T a : wf_actionb T a = true -> wf_action T a.
Proof.
  unfold wf_actionb, wf_action.
  destruct (find_fmt T (ga_ctor a)) as [fe|]; [|discriminate].
  destruct (sig_fields T (ga_ctor a)) as [sig|]; [|discriminate].
  rewrite andb_true_iff, Nat.eqb_eq, forallb_forall, Forall_forall.
  intros [H1 H2]; (split; [exact H1|]); intros f Hf; apply field_okb_spec, H2, Hf.
Qed.

Definition wf_valqb (e : enc) (v : pyval) : bool :=
  match e, v with
  | ERaw, PStr s => rawq_okb s
  | EJson, PStr s => forallb xml_charb s
  | EJson, PNone => true
  | EInt, PInt _ => true
  | _, _ => false
  end.
Definition field_okqb (sig : list str) (vals : list pyval) (f : str * enc) : bool :=
  match index_of (fst f) sig with
  | Some i => match nth_error vals i with Some v => wf_valqb (snd f) v | None => false end
  | None => false
  end.
Definition wf_actionqb (T : text_tables) (a : gaction) : bool :=
  match find_fmt T (ga_ctor a), sig_fields T (ga_ctor a) with
  | Some fe, Some sig =>
      Nat.eqb (length (ga_fields a)) (length sig)
      && forallb (field_okqb sig (ga_fields a)) (fe_fields fe)
  | _, _ => false
  end.

Lemma wf_valqb_spec e v : wf_valqb e v = true <-> wf_val e v.
Proof.
  destruct e, v; cbn [wf_valqb wf_val]; try (split; [discriminate|contradiction]);
    try (split; auto; fail).
  - apply rawq_okb_spec.
  - rewrite forallb_forall, Forall_forall. split; intros H c Hc; apply xml_charb_spec, H, Hc.
Qed.
Lemma field_okqb_spec sig vals f : field_okqb sig vals f = true <-> field_ok sig vals f.
Proof.
  unfold field_okqb, field_ok. destruct (index_of (fst f) sig) as [i|]; [|split; [discriminate|contradiction]].
  destruct (nth_error vals i) as [v|]; [apply wf_valqb_spec|split; [discriminate|contradiction]].
Qed.
Lemma wf_actionqb_spec T a : wf_actionqb T a = true <-> wf_action T a.
Proof.
  unfold wf_actionqb, wf_action.
  destruct (find_fmt T (ga_ctor a)) as [fe|]; [|split; [discriminate|contradiction]].
  destruct (sig_fields T (ga_ctor a)) as [sig|]; [|split; [discriminate|contradiction]].
  rewrite andb_true_iff, Nat.eqb_eq, forallb_forall, Forall_forall.
  split; intros [H1 H2]; (split; [exact H1|]); intros f Hf; apply field_okqb_spec, H2, Hf.
Qed.

Lemma wf_actionsb_spec T acts : forallb (wf_actionb T) acts = true -> Forall (wf_action T) acts.
Proof.
  rewrite forallb_forall, Forall_forall. intros H a Ha. apply wf_actionb_spec, H, Ha.
Qed.

(* ================================================================== *)
(** * Small list / monad lemmas                                        *)
(* ================================================================== *)

Lemma mapM_inv {A B} (f : A -> res B) l : forall ys,
  mapM f l = Ok ys -> Forall2 (fun x y => f x = Ok y) l ys.
Proof.
  induction l as [|x l IH]; intros ys H; cbn [mapM] in H.
  - injection H as <-. constructor.
  - destruct (f x) as [y|e] eqn:Ex; cbn [bind] in H; [|discriminate].
    destruct (mapM f l) as [ys'|e] eqn:El; cbn [bind] in H; [|discriminate].
    injection H as <-. constructor; [exact Ex|apply IH; reflexivity].
Qed.

Lemma mapM_intro {A B} (f : A -> res B) l ys :
  Forall2 (fun x y => f x = Ok y) l ys -> mapM f l = Ok ys.
Proof.
  induction 1 as [|x y l ys Hx _ IH]; [reflexivity|].
  cbn [mapM]. rewrite Hx, IH. reflexivity.
Qed.

Lemma mapM_total {A B} (f : A -> res B) l :
  Forall (fun x => exists y, f x = Ok y) l -> exists ys, mapM f l = Ok ys.
Proof.
  induction 1 as [|x l [y Hy] _ [ys IH]]; [exists []; reflexivity|].
  exists (y :: ys). cbn [mapM]. rewrite Hy, IH. reflexivity.
Qed.

Lemma Forall2_Forall_l {A B} (P : A -> Prop) (R : A -> B -> Prop) l l' :
  Forall P l -> Forall2 R l l' -> Forall2 (fun x y => P x /\ R x y) l l'.
Proof.
  intros HP HR. induction HR as [|x y l l' Hxy _ IH]; [constructor|].
  inversion HP; subst. constructor; [split; assumption|apply IH; assumption].
Qed.

Lemma Forall2_impl {A B} (R R' : A -> B -> Prop) l l' :
  (forall x y, R x y -> R' x y) -> Forall2 R l l' -> Forall2 R' l l'.
Proof. intros H HR. induction HR; constructor; auto. Qed.

Lemma Forall2_nth_l {A B} (R : A -> B -> Prop) l l' :
  Forall2 R l l' -> forall i x, nth_error l i = Some x ->
  exists y, nth_error l' i = Some y /\ R x y.
Proof.
  induction 1 as [|x0 y0 l l' H0 _ IH]; intros i x Hi.
  - destruct i; discriminate.
  - destruct i as [|i]; cbn [nth_error] in *.
    + injection Hi as <-. exists y0. split; [reflexivity|exact H0].
    + apply IH. exact Hi.
Qed.

Lemma Forall2_len {A B} (R : A -> B -> Prop) l l' : Forall2 R l l' -> length l = length l'.
Proof. induction 1; cbn [length]; congruence. Qed.

Lemma Forall2_r {A B} (P : B -> Prop) (R : A -> B -> Prop) l l' :
  (forall x y, R x y -> P y) -> Forall2 R l l' -> Forall P l'.
Proof. intros H HR. induction HR; constructor; eauto. Qed.

Lemma skipn_nth {A} (l : list A) : forall i v,
  nth_error l i = Some v -> skipn i l = v :: skipn (S i) l.
Proof.
  induction l as [|x l IH]; intros i v H.
  - destruct i; discriminate.
  - destruct i as [|i]; cbn [nth_error] in H.
    + injection H as ->. reflexivity.
    + cbn [skipn]. rewrite (IH i v H). reflexivity.
Qed.

Lemma enc_eqb_true a b : enc_eqb a b = true -> a = b.
Proof. destruct a, b; cbn; congruence. Qed.

(* ================================================================== *)
(** * The parameter splitter                                           *)
(* ================================================================== *)

(* A string over which DiffParser._split, started outside a string literal,
   ends outside a string literal without having split. *)
Definition neutral (p : str) : Prop :=
  forall r part parts, blankb part = true ->
    split_aux (p ++ r) part false false false parts = split_aux r (rev p ++ part) false false false parts.

Lemma neutral_plain p : Forall (fun c => c <> 44 /\ c <> 34 /\ c <> 123) p -> neutral p.
Proof.
  intros H r part parts _. revert part.
  induction H as [|c p (H1 & H2 & H3) Hp IH]; intros part.
  - reflexivity.
  - cbn [app split_aux]. apply N.eqb_neq in H1, H2, H3. rewrite H1, H2, H3. cbn [andb]. cbv match.
    rewrite IH. cbn [rev]. rewrite <- app_assoc. reflexivity.
Qed.

Lemma blankb_cons c part : blankb (c :: part) = is_space c && blankb part.
Proof. reflexivity. Qed.

Lemma balc_split s : forall k i e part, (i = false -> e = false) -> balc s k i e (blankb part) = true ->
  forall r parts, split_aux (s ++ r) part k i e parts = split_aux r (rev s ++ part) false false false parts.
Proof.
  induction s as [|c s IH]; intros k i e part Hie H r parts.
  - cbn [balc] in H. apply andb_true_iff in H as [Hi Hk]. apply negb_true_iff in Hi, Hk. subst i k.
    rewrite (Hie eq_refl). reflexivity.
  - cbn [balc] in H. cbn [app split_aux rev]. rewrite <- app_assoc. cbn [app].
    rewrite <- blankb_cons in H.
    destruct k.
    + apply IH; [exact Hie|exact H].
    + destruct i.
      * destruct e; [apply IH; [discriminate|exact H]|].
        destruct (c =? 92); [apply IH; [discriminate|exact H]|].
        destruct (c =? 34); [apply IH; [reflexivity|exact H]|apply IH; [discriminate|exact H]].
      * rewrite (Hie eq_refl) in *. destruct (c =? 44); [discriminate|].
        apply IH; [|exact H]. intros _. reflexivity.
Qed.

Lemma bal_neutral s : balc s false false false true = true -> neutral s.
Proof.
  intros H r part parts Hb. apply (balc_split s false false false part (fun _ => eq_refl)). rewrite Hb. exact H.
Qed.

Lemma split_instr s : forall esc e',
  instr s esc = Some e' ->
  forall r part parts,
    split_aux (s ++ r) part false true esc parts = split_aux r (rev s ++ part) false true e' parts.
Proof.
  induction s as [|c s IH]; intros esc e' H r part parts.
  - cbn [instr] in H. injection H as ->. reflexivity.
  - cbn [instr] in H. cbn [app split_aux rev]. rewrite <- app_assoc. cbn [app].
    destruct esc; [apply IH; exact H|].
    destruct (c =? 92); [apply IH; exact H|].
    destruct (c =? 34); [discriminate|apply IH; exact H].
Qed.

Lemma neutral_dumps_str s : neutral (dumps_str s).
Proof.
  intros r part parts _. unfold dumps_str.
  change ((34 :: flat_map esc_char s ++ [34]) ++ r)
    with (34 :: (flat_map esc_char s ++ [34]) ++ r).
  rewrite <- app_assoc. cbn [split_aux].
  change (34 =? 44) with false. change (34 =? 34) with true. change (34 =? 123) with false. cbn [andb]. cbv match.
  rewrite (split_instr _ false false (instr_flat s)).
  cbn [app split_aux]. change (34 =? 92) with false. change (34 =? 34) with true. cbv match.
  f_equal. cbn [rev]. rewrite rev_app_distr. cbn [rev app]. rewrite <- app_assoc. reflexivity.
Qed.

Lemma split_join ps : forall p part parts,
  blankb part = true -> neutral p -> Forall neutral ps ->
  split_aux (join [44; 32] (p :: ps)) part false false false parts
  = rev parts ++ (rev part ++ p) :: map (cons 32) ps.
Proof.
  induction ps as [|q ps IH]; intros p part parts Hb Hp Hps.
  - cbn [join map]. rewrite <- (app_nil_r p) at 1. rewrite (Hp _ _ _ Hb).
    cbn [split_aux rev]. rewrite rev_app_distr, rev_involutive. reflexivity.
  - inversion Hps as [|? ? Hq Hps']; subst.
    rewrite join_cons2. rewrite (Hp _ _ _ Hb). cbn [app split_aux].
    change (44 =? 44) with true. change (32 =? 44) with false. change (32 =? 34) with false.
    change (32 =? 123) with false. cbn [andb].
    cbv match. rewrite (IH q [32] _ eq_refl Hq Hps').
    cbn [rev map app]. rewrite rev_app_distr, rev_involutive, <- app_assoc. reflexivity.
Qed.

(* ================================================================== *)
(** * One field: encode, then (after splitting and stripping) decode    *)
(* ================================================================== *)

Record part_ok (p : str) : Prop :=
  { po_neutral : neutral p; po_strip : strip p = p; po_nolb : no_lb p }.

Lemma part_ok_chars p : Forall (fun c => 33 <= c <= 126 /\ c <> 44 /\ c <> 34 /\ c <> 123) p -> part_ok p.
Proof.
  intros H. split.
  - apply neutral_plain. eapply Forall_impl; [|exact H]. intros c (H1 & H2 & H3 & H4). repeat split; assumption.
  - apply strip_no_sp. eapply Forall_impl; [|exact H]. intros c (H1 & H2 & H3 & H4).
    apply is_space_graph. exact H1.
  - eapply Forall_impl; [|exact H]. intros c (H1 & H2 & H3 & H4). apply is_linebreak_printable. lia.
Qed.

Lemma encode_ok e v p :
  wf_val e v -> encode e v = Ok p -> part_ok p /\ decode e p = Ok v.
Proof.
  intros Hwf Henc. destruct e, v; cbn [wf_val] in Hwf; try contradiction;
    cbn [encode] in Henc; injection Henc as <-.
  - (* ERaw *) destruct Hwf as (Hb & Hl & Hs). split; [|reflexivity]. split.
    + apply bal_neutral, Hb.
    + exact Hs.
    + exact Hl.
  - (* EJson, str *) split.
    + split; [apply neutral_dumps_str|apply strip_dumps_str|apply dumps_str_no_lb].
    + cbn [decode dumps]. rewrite loads_dumps_str by assumption. reflexivity.
  - (* EJson, None *) split; [|reflexivity].
    apply part_ok_chars. cbn [dumps]. unfold j_null. repeat constructor; lia.
  - (* EInt *) split.
    + apply part_ok_chars. eapply Forall_impl; [|apply str_of_Z_chars].
      intros c Hc. unfold int_char in Hc. lia.
    + cbn [decode]. rewrite int_of_str_of_Z. reflexivity.
Qed.

Lemma encode_total e v : wf_val e v -> exists p, encode e v = Ok p.
Proof.
  destruct e, v; cbn [wf_val]; intros H; try contradiction; eexists; reflexivity.
Qed.

Lemma kw_char_range c : kw_char c = true -> 33 <= c <= 126 /\ c <> 44 /\ c <> 34 /\ c <> 123.
Proof.
  unfold kw_char. intros H.
  repeat (apply orb_true_iff in H as [H|H]).
  - apply andb_true_iff in H as [H1 H2]. apply N.leb_le in H1, H2. lia.
  - apply andb_true_iff in H as [H1 H2]. apply N.leb_le in H1, H2. lia.
  - apply N.eqb_eq in H. lia.
  - apply N.eqb_eq in H. lia.
Qed.

Lemma kw_ok_part k : kw_ok k = true -> part_ok k.
Proof.
  intros H. apply part_ok_chars. apply Forall_forall. intros c Hc.
  apply kw_char_range. unfold kw_ok in H. destruct k; [discriminate|].
  rewrite forallb_forall in H. apply H, Hc.
Qed.

Lemma no_lb_join sep ps : no_lb sep -> Forall no_lb ps -> no_lb (join sep ps).
Proof.
  intros Hs H. induction H as [|p ps Hp Hps IH]; [constructor|].
  destruct ps as [|q ps]; [exact Hp|].
  rewrite join_cons2. apply Forall_app. split; [exact Hp|].
  apply Forall_app. split; [exact Hs|exact IH].
Qed.

(* ================================================================== *)
(** * The round trip, generically in the tables                        *)
(* ================================================================== *)

Section Generic.
Variable T : text_tables.
Hypothesis Hok : tables_ok T = true.

Lemma tables_ok_inv :
  tt_line_sep T = [10] /\ tt_pre T = [91] /\ tt_post T = [93] /\ tt_field_sep T = [44; 32]
  /\ forall fe, In fe (tt_fmt T) -> fmt_entry_ok T fe = true.
Proof.
  unfold tables_ok in Hok.
  repeat (apply andb_true_iff in Hok as [Hok ?]).
  repeat split; try (apply str_eqb_true; assumption).
  apply forallb_forall. assumption.
Qed.

(* what a formatter slot relates: the emitted text [p] is the encoding of the
   value of the field at signature index i *)
Definition slot_rel (sig : list str) (vals : list pyval) (f : str * enc) (p : str) : Prop :=
  exists i v, index_of (fst f) sig = Some i /\ nth_error vals i = Some v /\
              wf_val (snd f) v /\ encode (snd f) v = Ok p.

Lemma format_action_inv a line :
  wf_action T a -> format_action T a = Ok line ->
  exists fe sig parts,
    find_fmt T (ga_ctor a) = Some fe /\ sig_fields T (ga_ctor a) = Some sig /\
    length (ga_fields a) = length sig /\
    line = 91 :: join [44; 32] (fe_keyword fe :: parts) ++ [93] /\
    Forall2 (slot_rel sig (ga_fields a)) (fe_fields fe) parts.
Proof.
  destruct tables_ok_inv as (_ & Hpre & Hpost & Hsep & _).
  unfold wf_action, format_action. intros Hwf Hf.
  destruct (find_fmt T (ga_ctor a)) as [fe|] eqn:Efe; [|contradiction].
  destruct (sig_fields T (ga_ctor a)) as [sig|] eqn:Esig; [|contradiction].
  destruct Hwf as [Hlen Hfields].
  destruct (mapM _ (fe_fields fe)) as [parts|e] eqn:Em; cbn [bind] in Hf; [|discriminate].
  injection Hf as <-. rewrite Hpre, Hpost, Hsep.
  exists fe, sig, parts. repeat split; try assumption.
  apply mapM_inv in Em.
  eapply Forall2_impl; [|apply (Forall2_Forall_l _ _ _ _ Hfields Em)].
  intros f p [Hfo Hb]. unfold field_ok in Hfo. unfold field_value in Hb.
  rewrite Esig in Hb.
  destruct (index_of (fst f) sig) as [i|] eqn:Ei; [|contradiction].
  destruct (nth_error (ga_fields a) i) as [v|] eqn:Ev; [|contradiction].
  cbn [bind] in Hb. exists i, v. repeat split; assumption.
Qed.

Lemma args_decode fields sig vals parts :
  Forall2 (fun f p => exists i v, index_of (fst f) sig = Some i /\ nth_error vals i = Some v /\
                                  decode (snd f) p = Ok v) fields parts ->
  forall args i,
    args_ok fields sig i args = true -> (i + length args = length vals)%nat ->
    mapM (fun a : nat * enc => match nth_error parts (fst a) with
                               | Some p => decode (snd a) p
                               | None => Err ETypeError
                               end) args = Ok (skipn i vals).
Proof.
  intros HF. induction args as [|a args IH]; intros i Hargs Hlen.
  - cbn [length] in Hlen. rewrite Nat.add_0_r in Hlen. subst i.
    rewrite skipn_all. reflexivity.
  - cbn [args_ok] in Hargs.
    destruct (nth_error fields (fst a)) as [f|] eqn:Ef; [|discriminate].
    apply andb_true_iff in Hargs as [Hargs Hrest].
    apply andb_true_iff in Hargs as [Henc Hidx].
    apply enc_eqb_true in Henc.
    destruct (index_of (fst f) sig) as [j|] eqn:Ej; [|discriminate].
    apply Nat.eqb_eq in Hidx. subst j.
    destruct (Forall2_nth_l _ _ _ HF _ _ Ef) as (p & Hp & i' & v & Hi' & Hv & Hdec).
    rewrite Ej in Hi'. injection Hi' as <-.
    cbn [mapM]. rewrite Hp, Henc, Hdec. cbn [bind].
    cbn [length] in Hlen. rewrite (IH (S i) Hrest) by lia. cbn [bind].
    rewrite (skipn_nth _ _ _ Hv). reflexivity.
Qed.

Lemma merge_rest_id n ps : length ps = n -> merge_rest n ps = ps.
Proof.
  intros H. destruct n as [|m]; [reflexivity|]. unfold merge_rest.
  rewrite (proj2 (Nat.ltb_ge _ _)) by lia.
  rewrite <- (firstn_skipn m ps) at 3. f_equal.
  assert (L : length (skipn m ps) = 1%nat) by (rewrite skipn_length; lia).
  destruct (skipn m ps) as [|x [|y l]]; try discriminate. reflexivity.
Qed.

Definition bracketed (l : str) : Prop := exists body, l = 91 :: body ++ [93].

Lemma make_action_format a line :
  wf_action T a -> format_action T a = Ok line ->
  make_action T line = Ok a /\ bracketed line /\ no_lb line.
Proof.
  intros Hwf Hf.
  destruct tables_ok_inv as (_ & _ & _ & _ & Hentries).
  destruct (format_action_inv a line Hwf Hf)
    as (fe & sig & parts & Efe & Esig & Hlen & -> & Hslots).
  (* the table facts for this entry *)
  pose proof (find_some _ _ Efe) as [Hin Hctor]. apply str_eqb_true in Hctor.
  pose proof (Hentries fe Hin) as He. unfold fmt_entry_ok in He.
  apply andb_true_iff in He as [Hkw He].
  destruct (find_parse T (fe_keyword fe)) as [pe|] eqn:Epe; [|discriminate].
  rewrite Hctor, Esig in He.
  repeat (apply andb_true_iff in He as [He ?]).
  match goal with H : args_ok _ _ _ _ = true |- _ => rename H into Hargs end.
  match goal with H : Nat.eqb (pe_nparams pe) _ = true |- _ => apply Nat.eqb_eq in H; rename H into Hnp end.
  match goal with H : Nat.eqb (length (pe_args pe)) _ = true |- _ => apply Nat.eqb_eq in H; rename H into Hna end.
  apply str_eqb_true in He. rename He into Hpector.
  (* the emitted parts *)
  assert (Hparts : Forall part_ok parts).
  { eapply Forall2_r; [|exact Hslots].
    intros f p (i & v & _ & _ & Hw & Hencd). apply (encode_ok _ _ _ Hw Hencd). }
  assert (Hdec : Forall2 (fun f p => exists i v, index_of (fst f) sig = Some i /\
                                       nth_error (ga_fields a) i = Some v /\
                                       decode (snd f) p = Ok v) (fe_fields fe) parts).
  { eapply Forall2_impl; [|exact Hslots].
    intros f p (i & v & Hi & Hv & Hw & Hencd). exists i, v.
    repeat split; try assumption. apply (encode_ok _ _ _ Hw Hencd). }
  pose proof (kw_ok_part _ Hkw) as Hkwp.
  split; [|split].
  - unfold make_action. cbn [tl]. rewrite removelast_last.
    unfold split_params.
    rewrite split_join;
      [|reflexivity|apply Hkwp|eapply Forall_impl; [|exact Hparts]; intros p Hp; apply Hp].
    cbn [rev app map]. rewrite (po_strip _ Hkwp).
    replace (map strip (map (cons 32) parts)) with parts.
    2:{ rewrite map_map. clear -Hparts. induction Hparts as [|p ps Hp _ IH]; [reflexivity|].
        cbn [map]. rewrite <- IH. rewrite strip_space_cons by reflexivity.
        rewrite (po_strip _ Hp). reflexivity. }
    rewrite Epe.
    assert (Hlp : length parts = pe_nparams pe) by (rewrite Hnp; symmetry; apply (Forall2_len _ _ _ Hslots)).
    replace (if pe_rest pe then merge_rest (pe_nparams pe) parts else parts) with parts
      by (destruct (pe_rest pe); [symmetry; apply merge_rest_id, Hlp|reflexivity]).
    rewrite Hlp.
    rewrite Nat.eqb_refl. cbn [negb].
    rewrite (args_decode _ _ _ _ Hdec (pe_args pe) 0%nat Hargs) by (cbn [Nat.add]; lia).
    cbn [bind skipn]. rewrite Hpector. destruct a; reflexivity.
  - exists (join [44; 32] (fe_keyword fe :: parts)). reflexivity.
  - constructor; [reflexivity|]. apply Forall_app. split; [|repeat constructor].
    apply no_lb_join; [repeat constructor|].
    constructor; [apply Hkwp|]. eapply Forall_impl; [|exact Hparts]. intros p Hp. apply Hp.
Qed.

Lemma parse_lines_cons l r a :
  bracketed l -> make_action T l = Ok a ->
  parse_lines T [] (l :: r) = bind (parse_lines T [] r) (fun as_ => Ok (a :: as_)).
Proof.
  intros [body ->] Hm. cbn [parse_lines app].
  change (91 =? 91) with true. cbn [negb]. cbv match.
  change (91 :: body ++ [93]) with ((91 :: body) ++ [93]) at 1.
  rewrite last_last. change (93 =? 93) with true. cbn [negb]. cbv match.
  rewrite Hm. reflexivity.
Qed.

Lemma parse_lines_ok acts lines :
  Forall2 (fun a l => make_action T l = Ok a /\ bracketed l) acts lines ->
  parse_lines T [] lines = Ok acts.
Proof.
  induction 1 as [|a l acts lines [Hm Hb] _ IH]; [reflexivity|].
  rewrite (parse_lines_cons _ _ _ Hb Hm), IH. reflexivity.
Qed.

Theorem parse_format_generic_aux acts text :
  Forall (wf_action T) acts -> format T acts = Ok text ->
  parse T text = Ok acts /\ length (splitlines text) = length acts.
Proof.
  intros Hwf Hf.
  destruct tables_ok_inv as (Hls & _).
  unfold format in Hf.
  destruct (mapM (format_action T) acts) as [lines|e] eqn:Em; cbn [bind] in Hf; [|discriminate].
  injection Hf as <-. rewrite Hls.
  apply mapM_inv in Em.
  pose proof (Forall2_Forall_l _ _ _ _ Hwf Em) as HF.
  assert (HG : Forall2 (fun a l => make_action T l = Ok a /\ bracketed l /\ no_lb l) acts lines).
  { eapply Forall2_impl; [|exact HF]. intros a l [Hw Hl]. apply make_action_format; assumption. }
  assert (Hsl : splitlines (join [10] lines) = lines).
  { apply splitlines_join. eapply Forall2_r; [|exact HG].
    intros a l (_ & [body ->] & Hn). split; [discriminate|exact Hn]. }
  unfold parse. rewrite Hsl. split.
  - apply parse_lines_ok. eapply Forall2_impl; [|exact HG]. intros a l (H1 & H2 & _). split; assumption.
  - symmetry. apply (Forall2_len _ _ _ HG).
Qed.

Theorem format_total_generic_aux acts :
  Forall (wf_action T) acts -> exists text, format T acts = Ok text.
Proof.
  intros Hwf. unfold format.
  destruct (mapM_total (format_action T) acts) as [lines Hl].
  - eapply Forall_impl; [|exact Hwf]. intros a Ha.
    unfold wf_action in Ha. unfold format_action.
    destruct (find_fmt T (ga_ctor a)) as [fe|]; [|contradiction].
    destruct (sig_fields T (ga_ctor a)) as [sig|] eqn:Esig; [|contradiction].
    destruct Ha as [_ Hfields].
    destruct (mapM_total (fun fe' : str * enc => bind (field_value T a (fst fe')) (encode (snd fe')))
                         (fe_fields fe)) as [parts Hp].
    + eapply Forall_impl; [|exact Hfields]. intros f Hfo.
      unfold field_ok in Hfo. unfold field_value. rewrite Esig.
      destruct (index_of (fst f) sig) as [i|]; [|contradiction].
      destruct (nth_error (ga_fields a) i) as [v|]; [|contradiction].
      cbn [bind]. apply encode_total. exact Hfo.
    + rewrite Hp. cbn [bind]. eexists. reflexivity.
  - rewrite Hl. cbn [bind]. eexists. reflexivity.
Qed.

End Generic.

Theorem parse_format_generic : forall T acts text,
  tables_ok T = true -> Forall (wf_action T) acts ->
  format T acts = Ok text ->
  parse T text = Ok acts /\ length (splitlines text) = length acts.
Proof. intros T acts text Hok. apply parse_format_generic_aux. exact Hok. Qed.

Theorem format_total_generic : forall T acts,
  tables_ok T = true -> Forall (wf_action T) acts -> exists text, format T acts = Ok text.
Proof. intros T acts Hok. apply format_total_generic_aux. Qed.
