(* XmlFmtProofs8 -- the ACCEPT side, part 3: one action.

   [accept_step]: the spec-level action ia is applicable to the forest f the working tree
   stands for (spec_apply root f ia = Some f'), the formatter handles the namedtuple the
   differ yields for it (render pe root f ia: every node written as utils.getpath(node) in the
   tree as it is before the action) -- then the new working tree stands for f'.
   Side conditions: [step_ok] (XmlFmtProofs4), the namespace environment agrees with the
   prefix policy, printable names.
   No axioms. *)
From Coq Require Import List NArith ZArith Bool Arith Lia.
Import ListNotations.
Require Import XV.Str XV.Json XV.TextFormat XV.Forest XV.Matcher XV.Differ XV.Spec XV.Path XV.WF XV.ForestProofs XV.TreeProofs
               XV.AttrProofs XV.PathProofs XV.Render XV.XmlFmt XV.Projections
               XV.XmlFmtProofs0 XV.XmlFmtProofs1 XV.XmlFmtProofs2 XV.XmlFmtProofsR2 XV.XmlFmtProofs3 XV.XmlFmtProofs4
               XV.XmlFmtProofs6 XV.XmlFmtProofs7.
Require XV.Placeholder XV.PlaceholderUndo.
Require XV.DMP XV.DMPBase.
Local Open Scope nat_scope.

(* ------------------------------------------------------------------ *)
(** * Plain attributes under the attribute handlers *)

Lemma plain_attrs_app a b : plain_attrs (a ++ b) = plain_attrs a ++ plain_attrs b.
Proof. apply filter_app. Qed.

Lemma aget_plain a k : plain_name k -> aget (plain_attrs a) k = aget a k.
Proof.
  intros Hk. unfold plain_attrs. induction a as [|[k' v] a IH]; [reflexivity|].
  cbn [filter fst aget]. destruct (str_eqb k k') eqn:E.
  - apply streqb_true in E. subst k'. unfold plain_name in Hk. rewrite Hk. cbn [negb aget]. now rewrite streqb_refl.
  - destruct (is_diff_name k'); cbn [negb aget]; [exact IH|]. now rewrite E.
Qed.

Lemma ahas_plain a k : plain_name k -> ahas (plain_attrs a) k = ahas a k.
Proof. intros H. unfold ahas. now rewrite aget_plain. Qed.

Lemma plain_attrs_map_put a k v : plain_name k ->
  plain_attrs (map (fun kv : str * str => if str_eqb k (fst kv) then (k, v) else kv) a)
  = map (fun kv : str * str => if str_eqb k (fst kv) then (k, v) else kv) (plain_attrs a).
Proof.
  intros Hk. unfold plain_attrs. induction a as [|[k' v'] a IH]; [reflexivity|].
  cbn [map filter fst]. destruct (str_eqb k k') eqn:E.
  - apply streqb_true in E. subst k'. cbn [fst]. unfold plain_name in Hk. rewrite Hk. cbn [negb map fst].
    rewrite streqb_refl. f_equal. exact IH.
  - cbn [fst]. destruct (is_diff_name k'); cbn [negb map fst]; [exact IH|]. rewrite E. f_equal. exact IH.
Qed.

Lemma plain_attrs_aput a k v : plain_name k -> plain_attrs (aput a k v) = aput (plain_attrs a) k v.
Proof.
  intros Hk. unfold aput. rewrite (ahas_plain a k Hk). destruct (ahas a k).
  - apply plain_attrs_map_put, Hk.
  - rewrite plain_attrs_app. unfold plain_attrs at 2. cbn [filter fst]. unfold plain_name in Hk. now rewrite Hk.
Qed.

Lemma plain_attrs_aput_diff a k v : is_diff_name k = true -> plain_attrs (aput a k v) = plain_attrs a.
Proof.
  intros Hk. unfold aput. destruct (ahas a k).
  - unfold plain_attrs. induction a as [|[k' v'] a IH]; [reflexivity|]. cbn [map filter fst].
    destruct (str_eqb k k') eqn:E.
    + apply streqb_true in E. subst k'. cbn [fst]. rewrite Hk. cbn [negb]. exact IH.
    + cbn [fst]. destruct (is_diff_name k'); cbn [negb]; [exact IH|f_equal; exact IH].
  - rewrite plain_attrs_app. unfold plain_attrs at 2. cbn [filter fst]. rewrite Hk. cbn [negb]. now rewrite app_nil_r.
Qed.

Lemma filter_comm {A} (p q : A -> bool) l : filter p (filter q l) = filter q (filter p l).
Proof.
  induction l as [|x l IH]; [reflexivity|]. cbn [filter].
  destruct (q x) eqn:Eq; destruct (p x) eqn:Ep; cbn [filter]; rewrite ?Eq, ?Ep, IH; reflexivity.
Qed.

Lemma plain_attrs_adel a k : plain_attrs (adel a k) = adel (plain_attrs a) k.
Proof. unfold plain_attrs, adel. apply filter_comm. Qed.

Lemma plain_attrs_extend a action v : plain_attrs (extend_diff_attr a action v) = plain_attrs a.
Proof. unfold extend_diff_attr. apply plain_attrs_aput_diff, is_diff_dname. Qed.

(* ------------------------------------------------------------------ *)
(** * The state invariant of the accept side *)

Section Acc.
Variable c : cfg.
Variable o : oracle.
Variable rootns : list (option str * str).
Variable pe : penv.
Variable root : id.
Let ws := ws_text c.

Record ainv (f : forest) (st : fstate) (d : dt) : Prop := {
  ai_wf : wf_forest f root;
  ai_erase : erase d = fs_tree st;
  ai_rel : rel ws f d;
  ai_root : did d = root;
  ai_alive : alive_d d = true;
  ai_env : env_agrees pe (env_of rootns st) f root;
  ai_names : names_ok pe f root }.

(* what one action does to the live nodes (id, own fields): every live node of d' is a live node of d, or the node the
   action targets / creates, as the handler leaves it *)
Definition nstep (a : iact) (d d' : dt) : Prop :=
  forall n' x', In (n', x') (lnodes d') ->
    In (n', x') (lnodes d) \/
    match a with
    | IInsert _ tag _ nid => n' = nid /\ x' = XNode tag [(INSERT_NAME, [])] None [] []
    | IMove n _ _ => n' = n /\ exists x, In (n, x) (lnodes d) /\ x' = with_attrs x (aput (xattrs x) INSERT_NAME [])
    | IRename n tag => n' = n /\ exists x, In (n, x) (lnodes d) /\ x' = h_RenameNode x tag
    | IText n _ => n' = n /\ exists x, In (n, x) (lnodes d) /\ xtag x' = xtag x /\ xattrs x' = xattrs x /\ xtail x' = xtail x
    | ITail n _ => n' = n /\ exists x, In (n, x) (lnodes d) /\ xtag x' = xtag x /\ xattrs x' = xattrs x /\ xtext x' = xtext x
    | IUpdAttr n k v => n' = n /\ exists x, In (n, x) (lnodes d) /\ h_UpdateAttrib x k v = FOk x'
    | IInsAttr n k v => n' = n /\ exists x, In (n, x) (lnodes d) /\ h_InsertAttrib x k v = FOk x'
    | IDelAttr n k => n' = n /\ exists x, In (n, x) (lnodes d) /\ h_DeleteAttrib x k = FOk x'
    | IRenAttr n k k' => n' = n /\ exists x, In (n, x) (lnodes d) /\ h_RenameAttrib x k k' = FOk x'
    | _ => False
    end.

(* one node relabelled in place *)
Lemma nodes_relabel d q n node kids node' :
  dlpath d q -> dget_at d q = Some (DN n node kids) ->
  In (n, node) (lnodes d) /\
  forall n' x', In (n', x') (lnodes (dmap_at q (fun _ => DN n node' kids) d)) ->
                In (n', x') (lnodes d) \/ (n' = n /\ x' = node').
Proof.
  intros HL HG. pose proof (lnodes_sub q d _ HL HG) as Hsub. split; [apply Hsub; rewrite lnodes_unfold; now left|].
  intros n' x' H. apply lnodes_dmap_at in H as [H|(k & Ek & H)]; [now left|].
  rewrite HG in Ek. inversion Ek; subst k. rewrite lnodes_unfold in H. destruct H as [H|H]; [inversion H; now right|].
  left. apply Hsub. rewrite lnodes_unfold. now right.
Qed.

Lemma resolve_node f st d n : ainv f st d -> alive f root n = true ->
  exists q kn, resolve rootns st (path_to_str (getpath pe f root n)) = FOk q /\
               dlpath d q /\ dget_at d q = Some kn /\ did kn = n.
Proof.
  intros [Hwf He HR Hid Ha Henv Hnm] Hal.
  assert (Hd : desc f root n) by (apply alive_iff; assumption).
  unfold resolve. rewrite (path_roundtrip pe f root n Hwf (proj2 (doc_nodes_iff f root n Hwf) Hd) Hnm).
  rewrite <- He. apply (resolve_getpath ws f root pe _ Hwf Henv d n HR Hid Ha Hd).
Qed.

(* the root of the decorated tree is the node with id root, and only it *)
Lemma root_pos f st d q k : ainv f st d -> dlpath d q -> dget_at d q = Some k -> did k = root -> q = [].
Proof.
  intros [Hwf He HR Hid Ha Henv Hnm] HL HG Hk. destruct q as [|i q]; [reflexivity|exfalso].
  cbn [dlpath dget_at] in *. destruct HL as (kc & Hc & Hac & HL). rewrite Hc in HG.
  destruct d as [n node kids]. cbn [did dkids] in *.
  inversion HR as [? ? ? _ HK HA]; subst n0 node0 kids0. rewrite Hid in HK. rewrite Forall_forall in HA.
  assert (Hin : In kc kids) by (eapply nth_error_In; eauto).
  assert (Hck : In (did kc) (fkids f root)) by (rewrite <- HK; apply in_map, filter_In; auto).
  pose proof (lids_sub q kc k HL HG) as Hsub.
  assert (Hr : In root (lids kc)) by (apply Hsub; destruct k as [nk ? ?]; rewrite lids_unfold; cbn [did] in Hk; rewrite Hk; now left).
  pose proof (lids_desc ws f kc (HA kc Hin Hac) root Hr) as D.
  eapply (no_cycle f root root (did kc) Hwf); [constructor|exact Hck|exact D].
Qed.

Lemma erase_dmap_const d q k k' : dget_at d q = Some k ->
  erase (dmap_at q (fun _ => k') d) = map_at q (fun _ => erase k') (erase d).
Proof.
  intros G. rewrite erase_dmap_at. apply map_at_ext. intros x _. now rewrite G.
Qed.

Lemma dmap_root q k k' d : dget_at d q = Some k -> did k' = did k -> alive_d k' = alive_d k ->
  did (dmap_at q (fun _ => k') d) = did d /\ alive_d (dmap_at q (fun _ => k') d) = alive_d d.
Proof.
  intros G H1 H2. destruct q as [|i q]; cbn [dmap_at dget_at] in *.
  - inversion G; subst. auto.
  - destruct (nth_error (dkids d) i); [destruct d; auto|auto].
Qed.

Lemma dmap_root_eq q k k' d r : dget_at d q = Some k -> did k' = did k -> alive_d k' = alive_d k ->
  did d = r -> alive_d d = true ->
  did (dmap_at q (fun _ => k') d) = r /\ alive_d (dmap_at q (fun _ => k') d) = true.
Proof. intros G H1 H2 H3 H4. destruct (dmap_root q k k' d G H1 H2) as [A B]. split; congruence. Qed.

Lemma ainv_NoDup f st d : ainv f st d -> NoDup (lids d).
Proof.
  intros [Hwf He HR Hid Ha Henv Hnm]. apply (lids_NoDup ws f root Hwf d HR). rewrite Hid. constructor.
Qed.

(* only the label of the node with id n changes *)
Lemma label_step f st d q n node kids node' L' :
  ainv f st d -> dlpath d q -> dget_at d q = Some (DN n node kids) ->
  alive_w node' = alive_w node -> lab_ok ws (set_lab f n L') n node' ->
  let d' := dmap_at q (fun _ => DN n node' kids) d in
  rel ws (set_lab f n L') d' /\ did d' = root /\ alive_d d' = true.
Proof.
  intros HI HL HG Ha HLab d'. pose proof (ainv_NoDup f st d HI) as ND. destruct HI as [Hwf He HR Hid Hal Henv Hnm].
  pose proof (rel_get ws f q d _ HR HL HG) as HRk.
  assert (NDk : NoDup (lids (DN n node kids))).
  { pose proof (lids_sub q d _ HL HG) as Hsub. clear - ND HL HG. revert d ND HL HG.
    induction q as [|i q IH]; intros d ND HL HG; cbn [dlpath dget_at] in *.
    - inversion HG; subst. exact ND.
    - destruct HL as (kc & Hc & Hac & HL). rewrite Hc in HG. apply (IH kc); [|exact HL|exact HG].
      destruct d as [m nd ks]. cbn [dkids] in Hc. rewrite lids_unfold in ND. inversion ND as [|? ? _ NDk]; subst.
      assert (Hin : In kc ks) by (eapply nth_error_In; eauto).
      clear - NDk Hin Hac. unfold klids in NDk. induction ks as [|y r IHr]; [contradiction|].
      cbn [flat_map] in NDk. apply NoDup_app_iff in NDk as (N1 & N2 & _).
      destruct Hin as [->|Hin]; [now rewrite Hac in N1|auto]. }
  assert (HRk' : rel ws (set_lab f n L') (DN n node' kids)).
  { inversion HRk as [? ? ? _ HK HA]; subst. constructor; [exact HLab|exact HK|].
    rewrite lids_unfold in NDk. inversion NDk as [|? ? Hn _]; subst.
    rewrite Forall_forall in *. intros k Hin Hak. apply (rel_frame ws f _ k (HA k Hin Hak)).
    intros x Hx. split; [|reflexivity]. rewrite flab_set_lab.
    destruct (Nat.eqb x n) eqn:E; [|reflexivity]. apply Nat.eqb_eq in E. subst x.
    exfalso. apply Hn. eapply klids_In; eauto. }
  split.
  - apply (rel_replace ws f _ q d (DN n node kids) (DN n node' kids) HR ND HL HG eq_refl Ha HRk').
    intros x Hx Hnx. split; [|reflexivity]. rewrite flab_set_lab.
    destruct (Nat.eqb x n) eqn:E; [|reflexivity]. apply Nat.eqb_eq in E. subst x.
    exfalso. apply Hnx. rewrite lids_unfold. now left.
  - apply (dmap_root_eq q (DN n node kids) (DN n node' kids) d root HG eq_refl Ha Hid Hal).
Qed.

(* ---- the handlers only look at the node's own fields ---- *)
Lemma erase_node n node kids : erase (DN n node kids) = with_kids node (map erase kids).
Proof. reflexivity. Qed.

Lemma alive_w_attrs node a : aget a DELETE_NAME = aget (xattrs node) DELETE_NAME ->
  alive_w (with_attrs node a) = alive_w node.
Proof. intros H. unfold alive_w, is_deleted, ahas. destruct node. cbn [with_attrs xattrs] in *. now rewrite H. Qed.

Lemma aget_extend_other a action v k : k <> dname (action ++ s_attr_suffix) ->
  aget (extend_diff_attr a action v) k = aget a k.
Proof. apply extend_get. Qed.

Lemma rel_inv f n node kids : rel ws f (DN n node kids) ->
  lab_ok ws f n node /\ map did (filter alive_d kids) = fkids f n /\ Forall (fun k => alive_d k = true -> rel ws f k) kids.
Proof. intros H. inversion H; subst. auto. Qed.

Lemma lab_of_rel f n node kids : rel ws f (DN n node kids) -> lab_ok ws f n node.
Proof. intros H. inversion H; subst. assumption. Qed.

(* a handler that rewrites the attributes of the node with id n *)
Lemma attrs_action f st d n a' L' st' p (h : xtree -> fres xtree) :
  ainv f st d -> alive f root n = true ->
  (forall node, lab_ok ws f n node ->
     h node = FOk (with_attrs node (a' (xattrs node))) /\
     (forall ks, h (with_kids node ks) = FOk (with_attrs (with_kids node ks) (a' (xattrs node)))) /\
     aget (a' (xattrs node)) DELETE_NAME = aget (xattrs node) DELETE_NAME /\
     lattrs L' = plain_attrs (a' (xattrs node))) ->
  ltag L' = ltag (flab f n) -> ltext L' = ltext (flab f n) -> ltail L' = ltail (flab f n) ->
  resolve rootns st (path_to_str (getpath pe f root n)) = FOk p ->
  upd_node st p h = FOk st' ->
  exists d', erase d' = fs_tree st' /\ rel ws (set_lab f n L') d' /\ did d' = root /\ alive_d d' = true /\
    forall n' x', In (n', x') (lnodes d') -> In (n', x') (lnodes d) \/ (n' = n /\ exists x, In (n, x) (lnodes d) /\ h x = FOk x').
Proof.
  intros HI Hal Hh Htag Htext Htail Er H.
  destruct (resolve_node f st d n HI Hal) as (q & kn & Er' & HL & HG & Hk). rewrite Er in Er'. inversion Er'; subst p. clear Er'.
  apply upd_node_inv in H as (x & x' & G & E & ->).
  rewrite <- (ai_erase _ _ _ HI), get_at_erase, HG in G. cbn [option_map] in G. inversion G; subst x. clear G.
  destruct kn as [n0 node kids]. cbn [did] in Hk. subst n0.
  pose proof (lab_of_rel f n node kids (rel_get ws f q d _ (ai_rel _ _ _ HI) HL HG)) as HLab.
  destruct (Hh node HLab) as (_ & Hks & Hdel & Hattrs).
  rewrite erase_node, Hks in E. inversion E; subst x'. clear E.
  set (node' := with_attrs node (a' (xattrs node))).
  destruct (label_step f st d q n node kids node' L' HI HL HG) as (HR' & Hid' & Hal').
  - apply alive_w_attrs, Hdel.
  - destruct HLab as (M1 & M2 & M3 & M4). unfold lab_ok. rewrite flab_set_lab, Nat.eqb_refl.
    destruct node as [tg at_ tx tl ks]. cbn [node' with_attrs xtag xattrs xtext xtail] in *.
    rewrite Htag, Htext, Htail. auto.
  - exists (dmap_at q (fun _ => DN n node' kids) d). split; [|split; [exact HR'|split; [exact Hid'|split; [exact Hal'|]]]].
    + rewrite (erase_dmap_const d q _ _ HG), (ai_erase _ _ _ HI). cbn [fs_tree]. apply map_at_ext. intros x _.
      rewrite erase_node. destruct node; reflexivity.
    + destruct (nodes_relabel d q n node kids node' HL HG) as [Hin Hn]. intros n' x' Hx.
      destruct (Hn n' x' Hx) as [H0|[-> ->]]; [now left|right]. split; [reflexivity|]. exists node. split; [exact Hin|].
      apply (Hh node HLab).
Qed.

Definition gpath (f : forest) (n : id) : str := path_to_str (getpath pe f root n).

Lemma DELETE_neq_attr action : action = Placeholder.s_delete \/ action = s_add \/ action = s_rename \/ action = s_update ->
  DELETE_NAME <> dname (action ++ s_attr_suffix).
Proof. intros [->|[->|[->| ->]]] E; apply dname_inj in E; discriminate. Qed.

Lemma aget_plain_some f n node k : lab_ok ws f n node -> plain_name k -> ahas (lattrs (flab f n)) k = ahas (xattrs node) k.
Proof. intros (_ & M2 & _) Hk. rewrite M2. apply ahas_plain, Hk. Qed.

Lemma and3 (b1 b2 b3 : bool) : b1 && b2 && b3 = true -> b1 = true /\ b2 = true /\ b3 = true.
Proof. intros H. apply andb_true_iff in H as [H H3]. apply andb_true_iff in H as [H1 H2]. auto. Qed.

Theorem accept_UpdAttr f st d n k v f' st' :
  ainv f st d -> plain_name k -> spec_apply root f (IUpdAttr n k v) = Some f' ->
  handle_d c o rootns st (DUpdAttr (gpath f n) k v) = FOk st' ->
  exists d', erase d' = fs_tree st' /\ rel ws f' d' /\ did d' = root /\ alive_d d' = true /\ nstep (IUpdAttr n k v) d d'.
Proof.
  intros HI Hk Hs H. cbn [spec_apply] in Hs. unfold nstep.
  destruct (alive f root n && is_elem f n && ahas (lattrs (labof f n)) k) eqn:C; [|discriminate].
  apply and3 in C as (C1 & C2 & C3). inversion Hs; subst f'. clear Hs.
  cbn [handle_d] in H. unfold handle_UpdateAttrib in H. apply fbind_ok in H as (p & Er & H).
  unfold set_attrs_f.
  apply (attrs_action f st d n
           (fun a => match aget a k with Some old => extend_diff_attr (aput a k v) s_update (k ++ 58%N :: old) | None => a end)
           _ st' p (fun x => h_UpdateAttrib x k v) HI C1); try reflexivity; try assumption.
  intros node HLab. pose proof (aget_plain_some f n node k HLab Hk) as Eh. unfold labof in C3. rewrite C3 in Eh.
  unfold ahas in Eh. unfold h_UpdateAttrib.
  destruct (aget (xattrs node) k) as [old|] eqn:Eg; [|discriminate].
  split; [reflexivity|]. split; [intros ks; destruct node; cbn [with_kids xattrs] in *; now rewrite Eg|]. split.
  - rewrite aget_extend_other by (apply DELETE_neq_attr; auto). apply aget_aput_other.
    intros E; symmetry in E; revert E; apply plain_name_neq, Hk.
  - cbn [lattrs]. destruct HLab as (_ & M2 & _). unfold labof. rewrite M2, plain_attrs_extend, plain_attrs_aput; auto.
Qed.

Theorem accept_InsAttr f st d n k v f' st' :
  ainv f st d -> plain_name k -> spec_apply root f (IInsAttr n k v) = Some f' ->
  handle_d c o rootns st (DInsAttr (gpath f n) k v) = FOk st' ->
  exists d', erase d' = fs_tree st' /\ rel ws f' d' /\ did d' = root /\ alive_d d' = true /\ nstep (IInsAttr n k v) d d'.
Proof.
  intros HI Hk Hs H. cbn [spec_apply] in Hs. unfold nstep.
  destruct (alive f root n && is_elem f n && negb (ahas (lattrs (labof f n)) k)) eqn:C; [|discriminate].
  apply and3 in C as (C1 & C2 & C3). inversion Hs; subst f'. clear Hs.
  cbn [handle_d] in H. unfold handle_InsertAttrib in H. apply fbind_ok in H as (p & Er & H).
  unfold set_attrs_f.
  apply (attrs_action f st d n (fun a => extend_diff_attr (aput a k v) s_add k)
           _ st' p (fun x => h_InsertAttrib x k v) HI C1); try reflexivity; try assumption.
  intros node HLab. unfold h_InsertAttrib.
  split; [reflexivity|]. split; [intros ks; destruct node; reflexivity|]. split.
  - rewrite aget_extend_other by (apply DELETE_neq_attr; auto). apply aget_aput_other.
    intros E; symmetry in E; revert E; apply plain_name_neq, Hk.
  - cbn [lattrs]. destruct HLab as (_ & M2 & _). unfold labof. rewrite M2, plain_attrs_extend, plain_attrs_aput; auto.
Qed.

Theorem accept_DelAttr f st d n k f' st' :
  ainv f st d -> plain_name k -> spec_apply root f (IDelAttr n k) = Some f' ->
  handle_d c o rootns st (DDelAttr (gpath f n) k) = FOk st' ->
  exists d', erase d' = fs_tree st' /\ rel ws f' d' /\ did d' = root /\ alive_d d' = true /\ nstep (IDelAttr n k) d d'.
Proof.
  intros HI Hk Hs H. cbn [spec_apply] in Hs. unfold nstep.
  destruct (alive f root n && is_elem f n && ahas (lattrs (labof f n)) k) eqn:C; [|discriminate].
  apply and3 in C as (C1 & C2 & C3). inversion Hs; subst f'. clear Hs.
  cbn [handle_d] in H. unfold handle_DeleteAttrib in H. apply fbind_ok in H as (p & Er & H).
  unfold set_attrs_f.
  apply (attrs_action f st d n (fun a => extend_diff_attr (adel a k) Placeholder.s_delete k)
           _ st' p (fun x => h_DeleteAttrib x k) HI C1); try reflexivity; try assumption.
  intros node HLab. pose proof (aget_plain_some f n node k HLab Hk) as Eh. unfold labof in C3. rewrite C3 in Eh.
  unfold h_DeleteAttrib. rewrite <- Eh.
  split; [reflexivity|]. split; [intros ks; destruct node; cbn [with_kids xattrs] in *; now rewrite <- Eh|]. split.
  - rewrite aget_extend_other by (apply DELETE_neq_attr; auto). apply aget_adel_other.
    intros E; symmetry in E; revert E; apply plain_name_neq, Hk.
  - cbn [lattrs]. destruct HLab as (_ & M2 & _). unfold labof. rewrite M2, plain_attrs_extend, plain_attrs_adel; auto.
Qed.

Theorem accept_RenAttr f st d n k k' f' st' :
  ainv f st d -> plain_name k -> plain_name k' -> spec_apply root f (IRenAttr n k k') = Some f' ->
  handle_d c o rootns st (DRenAttr (gpath f n) k k') = FOk st' ->
  exists d', erase d' = fs_tree st' /\ rel ws f' d' /\ did d' = root /\ alive_d d' = true /\ nstep (IRenAttr n k k') d d'.
Proof.
  intros HI Hk Hk' Hs H. cbn [spec_apply] in Hs. unfold nstep.
  destruct (aget (lattrs (labof f n)) k) as [v|] eqn:Ev; [|discriminate].
  destruct (alive f root n && is_elem f n && negb (ahas (lattrs (labof f n)) k')) eqn:C; [|discriminate].
  apply and3 in C as (C1 & C2 & C3). inversion Hs; subst f'. clear Hs.
  cbn [handle_d] in H. unfold handle_RenameAttrib in H. apply fbind_ok in H as (p & Er & H).
  unfold set_attrs_f.
  apply (attrs_action f st d n
           (fun a => match aget a k with Some v0 => extend_diff_attr (adel (aput a k' v0) k) s_rename (k ++ 58%N :: k') | None => a end)
           _ st' p (fun x => h_RenameAttrib x k k') HI C1); try reflexivity; try assumption.
  intros node HLab. destruct HLab as (M1 & M2 & M3).
  assert (Eg : aget (xattrs node) k = Some v).
  { rewrite <- (aget_plain (xattrs node) k Hk), <- M2. exact Ev. }
  unfold h_RenameAttrib. rewrite Eg.
  split; [reflexivity|]. split; [intros ks; destruct node; cbn [with_kids xattrs] in *; now rewrite Eg|]. split.
  - rewrite aget_extend_other by (apply DELETE_neq_attr; auto). rewrite aget_adel_other, aget_aput_other; [reflexivity| |];
      intros E; symmetry in E; revert E; apply plain_name_neq; assumption.
  - cbn [lattrs]. unfold labof. rewrite M2, plain_attrs_extend, plain_attrs_adel, plain_attrs_aput; auto.
Qed.

(* a handler that rewrites the node with id n into (g node), its children untouched *)
Lemma node_action f st d n L' st' q node kids node' :
  ainv f st d -> dlpath d q -> dget_at d q = Some (DN n node kids) ->
  fs_tree st' = map_at q (fun _ => with_kids node' (map erase kids)) (fs_tree st) ->
  alive_w node' = alive_w node -> lab_ok ws (set_lab f n L') n node' ->
  exists d', erase d' = fs_tree st' /\ rel ws (set_lab f n L') d' /\ did d' = root /\ alive_d d' = true /\
    In (n, node) (lnodes d) /\
    forall n' x', In (n', x') (lnodes d') -> In (n', x') (lnodes d) \/ (n' = n /\ x' = node').
Proof.
  intros HI HL HG Et Ha HLab.
  destruct (label_step f st d q n node kids node' L' HI HL HG Ha HLab) as (HR' & Hid' & Hal').
  exists (dmap_at q (fun _ => DN n node' kids) d). split; [|split; [exact HR'|split; [exact Hid'|split; [exact Hal'|]]]].
  - rewrite (erase_dmap_const d q _ _ HG), (ai_erase _ _ _ HI), Et. reflexivity.
  - apply (nodes_relabel d q n node kids node' HL HG).
Qed.

Lemma node_at_dt f st d q kn : ainv f st d -> dget_at d q = Some kn -> node_at (fs_tree st) q = FOk (erase kn).
Proof. intros HI HG. unfold node_at. rewrite <- (ai_erase _ _ _ HI), get_at_erase, HG. reflexivity. Qed.

Theorem accept_Rename f st d n tag f' st' :
  ainv f st d -> spec_apply root f (IRename n tag) = Some f' ->
  handle_d c o rootns st (DRenameNode (gpath f n) tag) = FOk st' ->
  exists d', erase d' = fs_tree st' /\ rel ws f' d' /\ did d' = root /\ alive_d d' = true /\ nstep (IRename n tag) d d'.
Proof.
  intros HI Hs H. cbn [spec_apply] in Hs.
  destruct (alive f root n && is_elem f n) eqn:C; [|discriminate]. apply andb_true_iff in C as [C1 C2].
  inversion Hs; subst f'. clear Hs.
  cbn [handle_d] in H. unfold handle_RenameNode in H. apply fbind_ok in H as (p & Er & H).
  destruct (resolve_node f st d n HI C1) as (q & kn & Er' & HL & HG & Hk). unfold gpath in Er. rewrite Er in Er'. inversion Er'; subst p. clear Er'.
  unfold upd_node in H. rewrite (node_at_dt f st d q kn HI HG) in H. cbn [fbind] in H. inversion H; subst st'. clear H.
  destruct kn as [n0 node kids]. cbn [did] in Hk. subst n0.
  pose proof (lab_of_rel f n node kids (rel_get ws f q d _ (ai_rel _ _ _ HI) HL HG)) as (M1 & M2 & M3 & M4).
  match goal with |- exists d', erase d' = fs_tree ?S /\ _ =>
    pose proof (node_action f st d n (Lab (TElem tag) (lattrs (labof f n)) (ltext (labof f n)) (ltail (labof f n))) S q node kids (h_RenameNode node tag) HI HL HG) as NA end.
  destruct NA as (d' & A1 & A2 & A3 & A4 & Hin & Hn);
    [| | |exists d'; repeat (split; [assumption|]); intros n' x' Hx; destruct (Hn n' x' Hx) as [H0|[-> ->]]; [now left|right; split; [reflexivity|exists node; auto]]].
  - cbn [fs_tree]. apply map_at_ext. intros x _. rewrite erase_node. destruct node; reflexivity.
  - unfold h_RenameNode. destruct node as [tg at_ tx tl ks]. unfold alive_w, is_deleted, ahas. cbn [with_tag with_attrs xattrs xtag].
    rewrite aget_aput_other; [reflexivity|]. intros E; apply dname_inj in E; discriminate.
  - unfold lab_ok. rewrite flab_set_lab, Nat.eqb_refl. unfold labof. cbn [ltag lattrs ltext ltail].
    destruct node as [tg at_ tx tl ks]. unfold h_RenameNode. cbn [with_tag with_attrs xtag xattrs xtext xtail] in *.
    rewrite plain_attrs_aput_diff by apply is_diff_dname. auto.
Qed.

Lemma otxt_opt (t : option str) : match t with Some x => x | None => [] end = otxt t.
Proof. destruct t; reflexivity. Qed.

Theorem accept_Text f st d n t f' st' :
  ainv f st d -> tinv (fs_ph st) -> step_ok rootns st (DTextIn (gpath f n) t) ->
  room_ok c st (DTextIn (gpath f n) t) ->
  spec_apply root f (IText n t) = Some f' ->
  handle_d c o rootns st (DTextIn (gpath f n) t) = FOk st' ->
  exists d', erase d' = fs_tree st' /\ rel ws f' d' /\ did d' = root /\ alive_d d' = true /\ nstep (IText n t) d d'.
Proof.
  intros HI Hph [Htxt Hold] Hroom Hs H. cbn [spec_apply room_ok] in Hs, Hroom.
  destruct (alive f root n) eqn:C1; [|discriminate]. inversion Hs; subst f'. clear Hs.
  cbn [handle_d] in H. unfold handle_UpdateTextIn in H. apply fbind_ok in H as (p & Er & H).
  destruct (resolve_node f st d n HI C1) as (q & kn & Er' & HL & HG & Hk). unfold gpath in Er. rewrite Er in Er'. inversion Er'; subst p. clear Er'.
  rewrite (node_at_dt f st d q kn HI HG) in H. cbn [fbind] in H.
  assert (Gq : get_at (fs_tree st) q = Some (erase kn)) by (rewrite <- (ai_erase _ _ _ HI), get_at_erase, HG; reflexivity).
  specialize (Hold q (erase kn) Er Gq).
  destruct kn as [n0 node kids]. cbn [did] in Hk. subst n0.
  pose proof (lab_of_rel f n node kids (rel_get ws f q d _ (ai_rel _ _ _ HI) HL HG)) as (M1 & M2 & M3 & M4).
  assert (Hins : is_inserted (erase (DN n node kids)) = is_inserted node) by (destruct node; reflexivity).
  assert (Htx : xtext (erase (DN n node kids)) = xtext node) by (destruct node; reflexivity).
  rewrite Hins, Htx in *.
  assert (Hfin : forall newtext, txt_ok ws t (astr (otxt newtext)) ->
            fs_tree st' = map_at q (fun _ => with_kids (with_text node newtext) (map erase kids)) (fs_tree st) ->
            exists d', erase d' = fs_tree st' /\ rel ws (set_lab f n (Lab (ltag (labof f n)) (lattrs (labof f n)) t (ltail (labof f n)))) d'
                       /\ did d' = root /\ alive_d d' = true /\ nstep (IText n t) d d').
  { intros newtext Hok Et.
    destruct (node_action f st d n (Lab (ltag (labof f n)) (lattrs (labof f n)) t (ltail (labof f n))) st' q node kids (with_text node newtext) HI HL HG Et)
      as (d' & A1 & A2 & A3 & A4 & Hin & Hn);
      [| |exists d'; repeat (split; [assumption|]); intros n' x' Hx; destruct (Hn n' x' Hx) as [H0|[-> ->]];
           [now left|right; split; [reflexivity|exists node; split; [exact Hin|destruct node; auto]]]].
    - destruct node; reflexivity.
    - unfold lab_ok. rewrite flab_set_lab, Nat.eqb_refl. unfold labof. cbn [ltag lattrs ltext ltail].
      destruct node as [tg at_ tx tl ks]. cbn [with_text xtag xattrs xtext xtail] in *. auto. }
  destruct (is_inserted node) eqn:Ei.
  - inversion H; subst st'. clear H. apply (Hfin t).
    + unfold txt_ok. rewrite otxt_opt, (astr_plain _ Htxt). reflexivity.
    + cbn [fs_tree]. apply map_at_ext. intros x Hx. rewrite Gq in Hx. inversion Hx; subst x. cbn [erase]. destruct node; reflexivity.
  - destruct (make_diff_tags_gen c o (fs_ph st) _ _ false Hph (Hold eq_refl) Htxt Hroom)
      as (s' & dd & Em & Hs' & _ & _ & Fd & T1 & T2 & _).
    rewrite Em in H. cbn [fbind] in H. inversion H; subst st'. clear H.
    set (newtext := if match dd with [] => false | _ => true end then Some (encp dd) else None).
    assert (Hnt : otxt newtext = encp dd) by (unfold newtext; destruct dd; reflexivity).
    apply (Hfin newtext).
    + unfold txt_ok. rewrite otxt_opt, Hnt, (astr_encp s' dd Hs' Fd), T2. symmetry. apply ntxt_norm_if.
    + cbn [fs_tree]. apply map_at_ext. intros x Hx. rewrite Gq in Hx. inversion Hx; subst x. cbn [erase]. destruct node; reflexivity.
Qed.

Theorem accept_Tail f st d n t f' st' :
  ainv f st d -> tinv (fs_ph st) -> step_ok rootns st (DTextAfter (gpath f n) t) ->
  room_ok c st (DTextAfter (gpath f n) t) ->
  spec_apply root f (ITail n t) = Some f' ->
  handle_d c o rootns st (DTextAfter (gpath f n) t) = FOk st' ->
  exists d', erase d' = fs_tree st' /\ rel ws f' d' /\ did d' = root /\ alive_d d' = true /\ nstep (ITail n t) d d'.
Proof.
  intros HI Hph [Htxt Hold] Hroom Hs H. cbn [spec_apply room_ok] in Hs, Hroom.
  destruct (alive f root n && negb (Nat.eqb n root)) eqn:C; [|discriminate]. apply andb_true_iff in C as [C1 C2].
  inversion Hs; subst f'. clear Hs.
  cbn [handle_d] in H. unfold handle_UpdateTextAfter in H. apply fbind_ok in H as (p & Er & H).
  destruct (resolve_node f st d n HI C1) as (q & kn & Er' & HL & HG & Hk). unfold gpath in Er. rewrite Er in Er'. inversion Er'; subst p. clear Er'.
  rewrite (node_at_dt f st d q kn HI HG) in H. cbn [fbind] in H.
  assert (Gq : get_at (fs_tree st) q = Some (erase kn)) by (rewrite <- (ai_erase _ _ _ HI), get_at_erase, HG; reflexivity).
  destruct (Hold q (erase kn) Er Gq) as [Hq Hpl].
  assert (Hm : forall (x y : fres fstate), match q with [] => x | _ :: _ => y end = y) by (destruct q; [congruence|reflexivity]).
  rewrite Hm in H. clear Hm.
  destruct kn as [n0 node kids]. cbn [did] in Hk. subst n0.
  pose proof (lab_of_rel f n node kids (rel_get ws f q d _ (ai_rel _ _ _ HI) HL HG)) as (M1 & M2 & M3 & M4).
  assert (Htl : xtail (erase (DN n node kids)) = xtail node) by (destruct node; reflexivity).
  rewrite Htl in *.
  destruct (make_diff_tags_gen c o (fs_ph st) _ _ true Hph Hpl Htxt Hroom)
    as (s' & dd & Em & Hs' & _ & _ & Fd & T1 & T2 & _).
  rewrite Em in H. cbn [fbind] in H. inversion H; subst st'. clear H.
  match goal with |- exists d', erase d' = fs_tree ?S /\ _ =>
    pose proof (node_action f st d n (Lab (ltag (labof f n)) (lattrs (labof f n)) (ltext (labof f n)) t) S q node kids (with_tail node (encp dd)) HI HL HG) as NA end.
  destruct NA as (d' & A1 & A2 & A3 & A4 & Hin & Hn);
    [| | |exists d'; repeat (split; [assumption|]); intros n' x' Hx; destruct (Hn n' x' Hx) as [H0|[-> ->]];
          [now left|right; split; [reflexivity|exists node; split; [exact Hin|destruct node; auto]]]].
  - cbn [fs_tree]. apply map_at_ext. intros x Hx. rewrite Gq in Hx. inversion Hx; subst x. cbn [erase]. destruct node; reflexivity.
  - destruct node; reflexivity.
  - unfold lab_ok. rewrite flab_set_lab, Nat.eqb_refl. unfold labof. cbn [ltag lattrs ltext ltail].
    destruct node as [tg at_ tx tl ks]. cbn [with_tail xtag xattrs xtext xtail] in *. repeat split; auto.
    unfold txt_ok. rewrite otxt_opt, (astr_encp s' dd Hs' Fd), T2. symmetry. apply ntxt_norm_if.
Qed.

(* ------------------------------------------------------------------ *)
(** * Structural actions *)

Lemma lids_lt f st d x : ainv f st d -> In x (lids d) -> x < fnext f.
Proof.
  intros [Hwf He HR Hid Ha Henv Hnm] Hx. pose proof (lids_desc ws f d HR x Hx) as D. rewrite Hid in D.
  eapply desc_lt; [exact Hwf|apply (wf_root_lt _ _ Hwf)|exact D].
Qed.

(* the child list of the node with id t changes *)
Lemma kids_step f f' d q t node kids kids' :
  rel ws f d -> NoDup (lids d) -> did d = root -> alive_d d = true ->
  dlpath d q -> dget_at d q = Some (DN t node kids) ->
  flab f' t = flab f t -> map did (filter alive_d kids') = fkids f' t ->
  Forall (fun k => alive_d k = true -> rel ws f' k) kids' ->
  (forall x, In x (lids d) -> ~ In x (lids (DN t node kids)) -> flab f' x = flab f x /\ fkids f' x = fkids f x) ->
  let d' := dmap_at q (fun _ => DN t node kids') d in
  rel ws f' d' /\ did d' = root /\ alive_d d' = true.
Proof.
  intros HR ND Hid Hal HL HG Hlab Hk HA HF d'.
  pose proof (rel_get ws f q d _ HR HL HG) as HRk. pose proof (lab_of_rel f t node kids HRk) as HLab.
  split.
  - apply (rel_replace ws f f' q d (DN t node kids) (DN t node kids') HR ND HL HG eq_refl eq_refl); [|exact HF].
    constructor; [|exact Hk|exact HA]. unfold lab_ok in *. rewrite Hlab. exact HLab.
  - apply (dmap_root_eq q (DN t node kids) (DN t node kids') d root HG eq_refl eq_refl Hid Hal).
Qed.

Lemma filter_erase ks : filter alive_w (map erase ks) = map erase (filter alive_d ks).
Proof.
  induction ks as [|d r IH]; [reflexivity|]. cbn [map filter]. rewrite alive_erase.
  destruct (alive_d d); cbn [map]; [f_equal|]; exact IH.
Qed.

Lemma lidx_erase ks i : lidx alive_w (map erase ks) i = lidx alive_d ks i.
Proof. unfold lidx. rewrite firstn_map, filter_erase, map_length. reflexivity. Qed.

Lemma map_insert_kid {A B} (g : A -> B) i x l : map g (insert_kid i x l) = insert_kid i (g x) (map g l).
Proof. unfold insert_kid. rewrite map_app. cbn [map]. now rewrite firstn_map, skipn_map. Qed.

(* the real insert position, on the decorated children *)
Lemma rip_dt ks pos x : pos <= length (filter alive_d ks) -> alive_d x = true ->
  let r := real_insert_position (map erase ks) pos in
  map did (filter alive_d (insert_kid r x ks)) = insert_kid pos (did x) (map did (filter alive_d ks)).
Proof.
  intros Hp Hx r.
  assert (Hp' : pos <= length (filter alive_w (map erase ks))) by (rewrite filter_erase, map_length; exact Hp).
  destruct (rip_spec (map erase ks) pos Hp') as [Hr Hl]. fold r in Hr, Hl. rewrite map_length in Hr. rewrite lidx_erase in Hl.
  rewrite (filter_insert_kid alive_d ks r x Hr Hx), Hl, map_insert_kid. reflexivity.
Qed.

Lemma and4 (b1 b2 b3 b4 : bool) : b1 && b2 && b3 && b4 = true -> b1 = true /\ b2 = true /\ b3 = true /\ b4 = true.
Proof. intros H. apply andb_true_iff in H as [H H4]. apply and3 in H. tauto. Qed.

Theorem accept_Insert f st d t tag pos newid f' st' :
  ainv f st d -> spec_apply root f (IInsert t tag pos newid) = Some f' ->
  handle_d c o rootns st (DInsertNode (gpath f t) tag pos) = FOk st' ->
  exists d', erase d' = fs_tree st' /\ rel ws f' d' /\ did d' = root /\ alive_d d' = true /\ nstep (IInsert t tag pos newid) d d'.
Proof.
  intros HI Hs H. cbn [spec_apply] in Hs.
  destruct (alive f root t && is_elem f t && Nat.leb pos (length (kidsof f t)) && Nat.eqb newid (fnext f)) eqn:C; [|discriminate].
  apply and4 in C as (C1 & C2 & C3 & C4). apply Nat.eqb_eq in C4. subst newid. apply Nat.leb_le in C3.
  change (let '(w, _) := alloc f (Lab (TElem tag) [] None None) in Some (insert_at w t pos (fnext f)))
    with (Some (ins_f f (Lab (TElem tag) [] None None) t pos)) in Hs.
  inversion Hs; subst f'. clear Hs.
  cbn [handle_d] in H. unfold handle_InsertNode in H. apply fbind_ok in H as (p & Er & H).
  destruct (resolve_node f st d t HI C1) as (q & kn & Er' & HL & HG & Hk). unfold gpath in Er. rewrite Er in Er'. inversion Er'; subst p. clear Er'.
  unfold upd_node in H. rewrite (node_at_dt f st d q kn HI HG) in H. cbn [fbind] in H. inversion H; subst st'. clear H.
  destruct kn as [t0 tnode tkids]. cbn [did] in Hk. subst t0.
  pose proof (ainv_NoDup f st d HI) as ND.
  pose proof (rel_get ws f q d _ (ai_rel _ _ _ HI) HL HG) as HRt. inversion HRt as [? ? ? HLab HK HA]; subst.
  set (newnode := XNode tag [(INSERT_NAME, [])] None [] []).
  set (newd := DN (fnext f) newnode []).
  set (r := real_insert_position (map erase tkids) pos).
  assert (Ht : t < fnext f).
  { apply (lids_lt f st d t HI). apply (lids_sub q d _ HL HG). rewrite lids_unfold. now left. }
  set (f' := ins_f f (Lab (TElem tag) [] None None) t pos).
  assert (Hfresh : forall x, In x (lids d) -> x <> fnext f) by (intros x Hx; pose proof (lids_lt f st d x HI Hx); lia).
  destruct (kids_step f f' d q t tnode tkids (insert_kid r newd tkids) (ai_rel _ _ _ HI) ND (ai_root _ _ _ HI) (ai_alive _ _ _ HI) HL HG)
    as (HR' & Hid' & Hal').
  - unfold f'. rewrite flab_ins. destruct (Nat.eqb t (fnext f)) eqn:E; [apply Nat.eqb_eq in E; lia|reflexivity].
  - unfold f'. rewrite (fkids_ins_t f _ t pos Ht). unfold ins_at. fold (insert_kid pos (fnext f) (fkids f t)).
    rewrite <- HK. apply (rip_dt tkids pos newd); [|reflexivity].
    rewrite <- (map_length did), HK. exact C3.
  - apply Forall_insert_kid.
    + rewrite Forall_forall in *. intros k Hin Hak. apply (rel_frame ws f f' k (HA k Hin Hak)).
      intros x Hx.
      assert (Hxd : In x (lids d)).
      { apply (lids_sub q d _ HL HG). rewrite lids_unfold. right. eapply klids_In; eauto. }
      assert (Hxt : x <> t).
      { intros ->. pose proof (lids_sub q d _ HL HG) as Hsub.
        assert (NDt : NoDup (lids (DN t tnode tkids))).
        { apply (lids_NoDup ws f root (ai_wf _ _ _ HI) _ HRt). cbn [did]. apply alive_iff; [apply (ai_wf _ _ _ HI)|exact C1]. }
        rewrite lids_unfold in NDt. inversion NDt as [|? ? Hn _]; subst. apply Hn. eapply klids_In; eauto. }
      unfold f'. rewrite flab_ins, (fkids_ins_other f _ t pos x Hxt (Hfresh x Hxd)).
      destruct (Nat.eqb x (fnext f)) eqn:E; [apply Nat.eqb_eq in E; exfalso; exact (Hfresh x Hxd E)|auto].
    + intros _. constructor.
      * unfold lab_ok, f'. rewrite flab_ins, Nat.eqb_refl. cbn [ltag lattrs ltext ltail newnode xtag xattrs xtext xtail otxt].
        repeat split; reflexivity.
      * unfold f'. now rewrite (fkids_ins_new f _ t pos Ht).
      * constructor.
  - intros x Hx Hnx.
    assert (Hxt : x <> t) by (intros ->; apply Hnx; rewrite lids_unfold; now left).
    unfold f'. rewrite flab_ins, (fkids_ins_other f _ t pos x Hxt (Hfresh x Hx)).
    destruct (Nat.eqb x (fnext f)) eqn:E; [apply Nat.eqb_eq in E; exfalso; exact (Hfresh x Hx E)|auto].
  - exists (dmap_at q (fun _ => DN t tnode (insert_kid r newd tkids)) d). split; [|split; [exact HR'|split; [exact Hid'|split; [exact Hal'|]]]].
    + rewrite (erase_dmap_const d q _ _ HG), (ai_erase _ _ _ HI). cbn [fs_tree]. apply map_at_ext. intros x _.
      rewrite !erase_node. unfold h_InsertNode. rewrite map_insert_kid.
      destruct tnode as [tg at_ tx tl ks]. cbn [with_kids xtag xattrs xtext xtail xkids]. reflexivity.
    + intros n' x' Hx. pose proof (lnodes_sub q d _ HL HG) as Hsub.
      apply lnodes_dmap_at in Hx as [Hx|(k & Ek & Hx)]; [now left|].
      rewrite HG in Ek. inversion Ek; subst k. rewrite lnodes_unfold in Hx. destruct Hx as [Hx|Hx].
      * left. apply Hsub. rewrite lnodes_unfold. left. exact Hx.
      * apply klnodes_insert_kid in Hx as [Hx|[_ Hx]]; [left; apply Hsub; rewrite lnodes_unfold; now right|].
        right. unfold newd in Hx. rewrite lnodes_unfold in Hx. destruct Hx as [Hx|[]]. inversion Hx; subst. split; reflexivity.
Qed.

(* ---- the parent of a live position ---- *)
Lemma dlpath_snoc_inv : forall q d kn, q <> [] -> dlpath d q -> dget_at d q = Some kn ->
  exists qp i par, q = qp ++ [i] /\ dlpath d qp /\ dget_at d qp = Some par /\
                   nth_error (dkids par) i = Some kn /\ alive_d kn = true.
Proof.
  induction q as [|j q IH]; intros d kn Hne HL HG; [congruence|]. cbn [dlpath dget_at] in *.
  destruct HL as (k & Hk & Ha & HL). rewrite Hk in HG. destruct q as [|j' q'].
  - cbn in HG. inversion HG; subst kn. exists [], j, d. cbn. auto.
  - destruct (IH k kn ltac:(discriminate) HL HG) as (qp & i & par & E & HLp & HGp & Hn & Hal).
    exists (j :: qp), i, par. rewrite E. cbn [app dlpath dget_at]. rewrite Hk. split; [reflexivity|]. split; [eauto|auto].
Qed.

Lemma dmap_at_snoc : forall qp d par i kn kn', dget_at d qp = Some par -> nth_error (dkids par) i = Some kn ->
  dmap_at (qp ++ [i]) (fun _ => kn') d
  = dmap_at qp (fun _ => DN (did par) (dlab par) (set_nth i kn' (dkids par))) d.
Proof.
  induction qp as [|j qp IH]; intros d par i kn kn' HG Hn; cbn [app dget_at dmap_at] in *.
  - inversion HG; subst par. rewrite Hn. reflexivity.
  - destruct (nth_error (dkids d) j) as [k|]; [|discriminate]. now rewrite (IH k par i kn kn' HG Hn).
Qed.

Lemma remove_id_nth n l j : NoDup l -> nth_error l j = Some n -> remove_id n l = remove_nth j l.
Proof.
  revert j; induction l as [|y l IH]; intros [|j] ND E; cbn [nth_error] in E; try discriminate.
  - inversion E; subst y. inversion ND as [|? ? Hn ND']; subst. unfold remove_id, remove_nth. cbn [filter firstn skipn app].
    rewrite Nat.eqb_refl. cbn [negb]. apply remove_id_notin, Hn.
  - inversion ND as [|? ? Hn ND']; subst. unfold remove_id, remove_nth in *. cbn [filter firstn skipn app].
    destruct (Nat.eqb y n) eqn:Ey.
    + apply Nat.eqb_eq in Ey. subst y. exfalso. apply Hn. eapply nth_error_In; eauto.
    + cbn [negb]. f_equal. apply IH; assumption.
Qed.

Lemma map_remove_nth {A B} (g : A -> B) j l : map g (remove_nth j l) = remove_nth j (map g l).
Proof. unfold remove_nth. now rewrite map_app, firstn_map, skipn_map. Qed.

Lemma detach_other f n p x : wf_forest f root -> In n (fkids f p) -> p < fnext f -> x < fnext f -> x <> p ->
  fkids (detach f n) x = fkids f x.
Proof.
  intros Hwf Hin Hp Hx Hne. rewrite (fkids_detach f root n x Hwf Hx). apply remove_id_notin.
  intros Hin'. apply Hne. eapply (wf_uparent f root Hwf); eauto.
Qed.

(* marking the node that stands for n as deleted: the tree now stands for (detach f n) *)
Lemma mark_dead f st d q n node nkids node' :
  ainv f st d -> q <> [] -> dlpath d q -> dget_at d q = Some (DN n node nkids) -> alive_w node' = false ->
  let d1 := dmap_at q (fun _ => DN n node' nkids) d in
  rel ws (detach f n) d1 /\ did d1 = root /\ alive_d d1 = true.
Proof.
  intros HI Hne HL HG Hdead d1. pose proof (ainv_NoDup f st d HI) as ND. pose proof (ai_wf _ _ _ HI) as Hwf.
  destruct (dlpath_snoc_inv q d _ Hne HL HG) as (qp & i & par & -> & HLp & HGp & Hn & Hal).
  destruct par as [p pnode pkids]. cbn [dkids] in Hn.
  unfold d1. rewrite (dmap_at_snoc qp d _ i _ _ HGp Hn). cbn [did dlab dkids].
  pose proof (rel_get ws f qp d _ (ai_rel _ _ _ HI) HLp HGp) as HRp. inversion HRp as [? ? ? HLab HK HA]; subst.
  assert (Hsubp : incl (lids (DN p pnode pkids)) (lids d)) by (eapply lids_sub; eauto).
  assert (Hp : p < fnext f) by (apply (lids_lt f st d p HI), Hsubp; rewrite lids_unfold; now left).
  assert (Hin : In (DN n node nkids) pkids) by (eapply nth_error_In; eauto).
  assert (Hnp : In n (fkids f p)).
  { rewrite <- HK. change n with (did (DN n node nkids)). apply in_map, filter_In. auto. }
  assert (NDp : NoDup (lids (DN p pnode pkids))).
  { apply (lids_NoDup ws f root Hwf _ HRp). cbn [did]. pose proof (lids_desc ws f d (ai_rel _ _ _ HI) p) as D.
    rewrite (ai_root _ _ _ HI) in D. apply D, Hsubp. rewrite lids_unfold. now left. }
  apply (kids_step f (detach f n) d qp p pnode pkids _ (ai_rel _ _ _ HI) ND (ai_root _ _ _ HI) (ai_alive _ _ _ HI) HLp HGp).
  - now rewrite flab_detach.
  - rewrite (fkids_detach f root n p Hwf Hp), <- HK.
    assert (Hd' : alive_d (DN n node' nkids) = false) by exact Hdead.
    rewrite (filter_set_nth_dead alive_d pkids i _ _ Hn Hal Hd'), map_remove_nth.
    symmetry. apply remove_id_nth.
    + rewrite HK. apply (wf_kids_nodup _ _ Hwf p Hp).
    + rewrite nth_error_map, (nth_filter alive_d pkids i _ Hn Hal). reflexivity.
  - apply Forall_forall. intros y Hy Hay. apply In_nth_error in Hy as [j Hj].
    destruct (Nat.eq_dec j i) as [->|Hji].
    + rewrite nth_error_set_nth_same in Hj by (eapply nth_error_Some_lt; eauto). inversion Hj; subst y.
      unfold alive_d in Hay. cbn [dlab] in Hay. congruence.
    + rewrite nth_error_set_nth_other in Hj by congruence.
      assert (Hyin : In y pkids) by (eapply nth_error_In; eauto). rewrite Forall_forall in HA.
      apply (rel_frame ws f (detach f n) y (HA y Hyin Hay)). intros x Hx.
      rewrite flab_detach. split; [reflexivity|].
      assert (Hxp : In x (klids pkids)) by (eapply klids_In; eauto).
      apply (detach_other f n p x Hwf Hnp Hp).
      * apply (lids_lt f st d x HI), Hsubp. rewrite lids_unfold. now right.
      * intros ->. rewrite lids_unfold in NDp. inversion NDp; subst. contradiction.
  - intros x Hx Hnx. rewrite flab_detach. split; [reflexivity|].
    apply (detach_other f n p x Hwf Hnp Hp); [apply (lids_lt f st d x HI Hx)|].
    intros ->. apply Hnx. rewrite lids_unfold. now left.
Qed.

Theorem accept_Delete f st d n f' st' :
  ainv f st d -> spec_apply root f (IDelete n) = Some f' ->
  handle_d c o rootns st (DDeleteNode (gpath f n)) = FOk st' ->
  exists d', erase d' = fs_tree st' /\ rel ws f' d' /\ did d' = root /\ alive_d d' = true /\ nstep (IDelete n) d d'.
Proof.
  intros HI Hs H. cbn [spec_apply] in Hs.
  destruct (alive f root n && negb (Nat.eqb n root) && match kidsof f n with [] => true | _ => false end) eqn:C; [|discriminate].
  apply and3 in C as (C1 & C2 & C3). inversion Hs; subst f'. clear Hs.
  apply negb_true_iff, Nat.eqb_neq in C2.
  cbn [handle_d] in H. unfold handle_DeleteNode in H. apply fbind_ok in H as (p & Er & H).
  destruct (resolve_node f st d n HI C1) as (q & kn & Er' & HL & HG & Hk). unfold gpath in Er. rewrite Er in Er'. inversion Er'; subst p. clear Er'.
  unfold upd_node in H. rewrite (node_at_dt f st d q kn HI HG) in H. cbn [fbind] in H. inversion H; subst st'. clear H.
  destruct kn as [n0 node nkids]. cbn [did] in Hk. subst n0.
  assert (Hq : q <> []).
  { intros ->. cbn in HG. inversion HG as [E]. rewrite E in *. pose proof (ai_root _ _ _ HI) as Hr. cbn [did] in Hr. congruence. }
  destruct (mark_dead f st d q n node nkids (delete_node node) HI Hq HL HG) as (HR' & Hid' & Hal').
  - unfold alive_w, is_deleted, ahas, delete_node. destruct node. cbn [with_attrs xattrs]. now rewrite aget_aput, streqb_refl.
  - exists (dmap_at q (fun _ => DN n (delete_node node) nkids) d). split; [|split; [exact HR'|split; [exact Hid'|split; [exact Hal'|]]]].
    + rewrite (erase_dmap_const d q _ _ HG), (ai_erase _ _ _ HI). cbn [fs_tree]. apply map_at_ext. intros x _.
      rewrite !erase_node. destruct node; reflexivity.
    + intros n' x' Hx. left. revert Hx. apply (lnodes_dmap_dead q d _ _ Hq HG).
      unfold alive_d. cbn [dlab]. unfold alive_w, is_deleted, ahas, delete_node. destruct node. cbn [with_attrs xattrs]. now rewrite aget_aput, streqb_refl.
Qed.

(* ---- positions that do not pass through a rewritten node ---- *)
Fixpoint is_prefix (a b : pos) : bool :=
  match a, b with
  | [], _ => true
  | i :: a', j :: b' => Nat.eqb i j && is_prefix a' b'
  | _ :: _, [] => false
  end.

Lemma is_prefix_app a b : is_prefix a b = true -> exists r, b = a ++ r.
Proof.
  revert b; induction a as [|i a IH]; intros b H; [exists b; reflexivity|].
  destruct b as [|j b]; [discriminate|]. cbn in H. apply andb_true_iff in H as [H1 H2]. apply Nat.eqb_eq in H1. subst j.
  destruct (IH b H2) as [r ->]. exists r. reflexivity.
Qed.

Lemma dlpath_app_inv : forall a d r k, dlpath d (a ++ r) -> dget_at d (a ++ r) = Some k ->
  exists ka, dlpath d a /\ dget_at d a = Some ka /\ dlpath ka r /\ dget_at ka r = Some k.
Proof.
  induction a as [|i a IH]; intros d r k HL HG; cbn [app dlpath dget_at] in *.
  - exists d. auto.
  - destruct HL as (kc & Hc & Ha & HL). rewrite Hc in HG. destruct (IH kc r k HL HG) as (ka & H1 & H2 & H3 & H4).
    exists ka. rewrite Hc. split; [eauto|auto].
Qed.

Lemma dmap_other : forall qn qt d g kt, qn <> [] -> is_prefix qn qt = false ->
  dlpath d qt -> dget_at d qt = Some kt ->
  dlpath (dmap_at qn g d) qt /\ exists kt1, dget_at (dmap_at qn g d) qt = Some kt1 /\ did kt1 = did kt.
Proof.
  induction qn as [|i qn IH]; intros qt d g kt Hne Hp HL HG; [congruence|].
  cbn [dmap_at]. destruct (nth_error (dkids d) i) as [ki|] eqn:Ei; [|eauto].
  destruct qt as [|j qt]; cbn [dlpath dget_at] in *.
  - split; [exact I|]. inversion HG; subst kt. eexists. split; [reflexivity|]. destruct d; reflexivity.
  - cbn [is_prefix] in Hp. destruct HL as (kc & Hc & Ha & HL). rewrite Hc in HG. cbn [dkids].
    destruct (Nat.eq_dec i j) as [->|Hij].
    + rewrite Nat.eqb_refl in Hp. cbn [andb] in Hp. rewrite Ei in Hc. inversion Hc; subst kc.
      rewrite nth_error_set_nth_same by (eapply nth_error_Some_lt; eauto).
      destruct qn as [|i' qn']; [discriminate|].
      destruct (IH qt ki g kt ltac:(discriminate) Hp HL HG) as (HL' & kt1 & HG' & Hd).
      split; [|exists kt1; auto]. eexists. split; [reflexivity|]. split; [|exact HL'].
      cbn [dmap_at]. destruct (nth_error (dkids ki) i'); [destruct ki; exact Ha|exact Ha].
    + rewrite nth_error_set_nth_other by congruence. rewrite Hc. split; [eauto|eauto].
Qed.

Lemma lids_lt' f d x : wf_forest f root -> rel ws f d -> did d = root -> In x (lids d) -> x < fnext f.
Proof.
  intros Hwf HR Hid Hx. pose proof (lids_desc ws f d HR x Hx) as D. rewrite Hid in D.
  eapply desc_lt; [exact Hwf|apply (wf_root_lt _ _ Hwf)|exact D].
Qed.

Lemma and6 (b1 b2 b3 b4 b5 b6 : bool) : b1 && b2 && b3 && b4 && b5 && b6 = true ->
  b1 = true /\ b2 = true /\ b3 = true /\ b4 = true /\ b5 = true /\ b6 = true.
Proof. intros H. apply andb_true_iff in H as [H H6]. apply andb_true_iff in H as [H H5]. apply and4 in H. tauto. Qed.

Theorem accept_Move f st d n t pos f' st' :
  ainv f st d -> spec_apply root f (IMove n t pos) = Some f' ->
  handle_d c o rootns st (DMoveNode (gpath f n) (gpath f t) pos) = FOk st' ->
  exists d', erase d' = fs_tree st' /\ rel ws f' d' /\ did d' = root /\ alive_d d' = true /\ nstep (IMove n t pos) d d'.
Proof.
  intros HI Hs H. cbn [spec_apply] in Hs.
  destruct (alive f root n && negb (Nat.eqb n root) && alive f root t && is_elem f t
            && negb (Forest.mem t (subtree (S (fnext f)) f n)) && Nat.leb pos (length (remove_id n (kidsof f t)))) eqn:C; [|discriminate].
  apply and6 in C as (C1 & C2 & C3 & C4 & C5 & C6). inversion Hs; subst f'. clear Hs.
  apply negb_true_iff, Nat.eqb_neq in C2. apply negb_true_iff in C5. apply Nat.leb_le in C6.
  pose proof (ai_wf _ _ _ HI) as Hwf. pose proof (ainv_NoDup f st d HI) as ND.
  cbn [handle_d] in H. unfold handle_MoveNode in H. apply fbind_ok in H as (pn & Ern & H).
  destruct (resolve_node f st d n HI C1) as (qn & kn & Er' & HLn & HGn & Hkn). unfold gpath in Ern. rewrite Ern in Er'. inversion Er'; subst pn. clear Er'.
  rewrite (node_at_dt f st d qn kn HI HGn) in H. cbn [fbind] in H.
  apply fbind_ok in H as (pt & Ert & H).
  destruct (resolve_node f st d t HI C3) as (qt & kt & Er' & HLt & HGt & Hkt). unfold gpath in Ert. rewrite Ert in Er'. inversion Er'; subst pt. clear Er'.
  destruct kn as [n0 node nkids]. cbn [did] in Hkn. subst n0.
  assert (Hqn : qn <> []).
  { intros ->. cbn in HGn. inversion HGn as [E]. rewrite E in *. pose proof (ai_root _ _ _ HI) as Hr. cbn [did] in Hr. congruence. }
  (* phase 1: the original is marked deleted *)
  set (dead := DN n (delete_node node) nkids).
  assert (Hdead : alive_w (delete_node node) = false).
  { unfold alive_w, is_deleted, ahas, delete_node. destruct node. cbn [with_attrs xattrs]. now rewrite aget_aput, streqb_refl. }
  destruct (mark_dead f st d qn n node nkids (delete_node node) HI Hqn HLn HGn Hdead) as (HR1 & Hid1 & Hal1).
  set (d1 := dmap_at qn (fun _ => dead) d).
  change (dmap_at qn (fun _ : dt => DN n (delete_node node) nkids) d) with d1 in HR1, Hid1, Hal1.
  set (f1 := detach f n) in *.
  assert (Hwf1 : wf_forest f1 root) by (apply wf_detach, Hwf).
  assert (Et1 : map_at qn delete_node (fs_tree st) = erase d1).
  { unfold d1. rewrite (erase_dmap_const d qn _ _ HGn), (ai_erase _ _ _ HI). apply map_at_ext. intros x Hx.
    rewrite <- (ai_erase _ _ _ HI), get_at_erase, HGn in Hx. inversion Hx; subst x. unfold dead. cbn [erase]. destruct node; reflexivity. }
  rewrite Et1 in H.
  (* the target is not inside the moved subtree *)
  pose proof (rel_get ws f qn d _ (ai_rel _ _ _ HI) HLn HGn) as HRn.
  assert (Htn : ~ In t (lids (DN n node nkids))).
  { intros Hin. pose proof (lids_desc ws f _ HRn t Hin) as D. cbn [did] in D.
    assert (Hs : In t (subtree (S (fnext f)) f n)).
    { apply subtree_complete; [|exact D]. eapply fin_mono; [apply (fin_alive f root n Hwf); apply alive_iff; assumption|lia]. }
    apply mem_In in Hs. congruence. }
  assert (Hpre : is_prefix qn qt = false).
  { destruct (is_prefix qn qt) eqn:E; [|reflexivity]. exfalso. apply is_prefix_app in E as [r ->].
    destruct (dlpath_app_inv qn d r kt HLt HGt) as (ka & _ & Ga & Lr & Gr). rewrite HGn in Ga. inversion Ga; subst ka.
    apply Htn. apply (lids_sub r _ kt Lr Gr). destruct kt as [t0 ? ?]. cbn [did] in Hkt. subst t0. rewrite lids_unfold. now left. }
  destruct (dmap_other qn qt d (fun _ => dead) kt Hqn Hpre HLt HGt) as (HLt1 & kt1 & HGt1 & Hkt1).
  fold d1 in HLt1, HGt1. rewrite Hkt in Hkt1. destruct kt1 as [t0 tnode tkids1]. cbn [did] in Hkt1. subst t0.
  assert (Gt1 : node_at (erase d1) qt = FOk (erase (DN t tnode tkids1))).
  { unfold node_at. rewrite get_at_erase, HGt1. reflexivity. }
  rewrite Gt1 in H. cbn [fbind] in H. inversion H; subst st'. clear H. cbn [fs_tree].
  (* phase 2: the copy is inserted below the target *)
  set (copyd := DN n (with_attrs node (aput (xattrs node) INSERT_NAME [])) nkids).
  set (r := real_insert_position (map erase tkids1) pos).
  pose proof (lids_NoDup ws f1 root Hwf1 d1 HR1 ltac:(rewrite Hid1; constructor)) as ND1.
  pose proof (rel_get ws f1 qt d1 _ HR1 HLt1 HGt1) as HRt1. destruct (rel_inv f1 t tnode tkids1 HRt1) as (HLab1 & HK1 & HA1).
  assert (Ht : t < fnext f).
  { apply (lids_lt f st d t HI). apply (lids_sub qt d kt HLt HGt). destruct kt as [t0 ? ?]. cbn [did] in Hkt. subst t0. rewrite lids_unfold. now left. }
  assert (Hn : n < fnext f).
  { apply (lids_lt f st d n HI). apply (lids_sub qn d _ HLn HGn). rewrite lids_unfold. now left. }
  assert (Hnt : n <> t) by (intros ->; apply Htn; rewrite lids_unfold; now left).
  set (f' := insert_at f1 t pos n).
  assert (Fl : forall x, flab f' x = flab f x) by (intros x; unfold f', f1, insert_at; cbn; now rewrite flab_detach).
  assert (Fl1 : forall x, flab f' x = flab f1 x) by (intros x; reflexivity).
  assert (Fk : forall x, x <> t -> fkids f' x = fkids f1 x) by (intros x Hx; unfold f', insert_at; cbn; now rewrite upd_other).
  assert (NDt1 : NoDup (lids (DN t tnode tkids1))).
  { apply (lids_NoDup ws f1 root Hwf1 _ HRt1). cbn [did]. pose proof (lids_desc ws f1 d1 HR1 t) as D. rewrite Hid1 in D.
    apply D. apply (lids_sub qt d1 _ HLt1 HGt1). rewrite lids_unfold. now left. }
  (* the subtree that moves stands for the same nodes in f' *)
  destruct (rel_inv f n node nkids HRn) as (HLabn & HKn & HAn).
  assert (NDn : NoDup (lids (DN n node nkids))).
  { apply (lids_NoDup ws f root Hwf _ HRn). cbn [did]. apply alive_iff; assumption. }
  assert (Hnn : ~ In n (fkids f n)).
  { intros Hin. eapply (no_cycle f root n n Hwf); [apply alive_iff; assumption|exact Hin|constructor]. }
  assert (Hkn_f' : fkids f' n = fkids f n).
  { rewrite (Fk n Hnt). unfold f1. rewrite (fkids_detach f root n n Hwf Hn). apply remove_id_notin, Hnn. }
  assert (HRcopy : rel ws f' copyd).
  { unfold copyd. constructor.
    - destruct HLabn as (M1 & M2 & M3 & M4). unfold lab_ok. rewrite Fl.
      destruct node as [tg at_ tx tl ks]. cbn [with_attrs xtag xattrs xtext xtail] in *.
      rewrite plain_attrs_aput_diff by apply is_diff_dname. auto.
    - rewrite Hkn_f'. exact HKn.
    - rewrite Forall_forall in *. intros k Hin Hak. apply (rel_frame ws f f' k (HAn k Hin Hak)).
      intros x Hx. split; [apply Fl|].
      assert (Hxn : In x (lids (DN n node nkids))) by (rewrite lids_unfold; right; eapply klids_In; eauto).
      assert (Hxt : x <> t) by (intros ->; exact (Htn Hxn)).
      rewrite (Fk x Hxt). unfold f1.
      assert (Hxl : x < fnext f) by (apply (lids_lt f st d x HI), (lids_sub qn d _ HLn HGn), Hxn).
      rewrite (fkids_detach f root n x Hwf Hxl). apply remove_id_notin. intros Hnx.
      (* n a child of x and x below n: a cycle *)
      pose proof (lids_desc ws f _ HRn x Hxn) as Dnx. cbn [did] in Dnx.
      eapply (no_cycle f root x n Hwf); [|exact Hnx|exact Dnx].
      eapply desc_trans; [apply alive_iff; [exact Hwf|exact C1]|exact Dnx]. }
  destruct (kids_step f1 f' d1 qt t tnode tkids1 (insert_kid r copyd tkids1) HR1 ND1 Hid1 Hal1 HLt1 HGt1) as (HR' & Hid' & Hal').
  - apply Fl1.
  - unfold f', insert_at. cbn. rewrite upd_same. fold (insert_kid pos n (fkids f1 t)). rewrite <- HK1.
    apply (rip_dt tkids1 pos copyd).
    + rewrite <- (map_length did), HK1. unfold f1. rewrite (fkids_detach f root n t Hwf Ht). exact C6.
    + assert (Hakn : alive_d (DN n node nkids) = true)
        by (destruct (dlpath_snoc_inv qn d _ Hqn HLn HGn) as (? & ? & ? & _ & _ & _ & _ & Hal0); exact Hal0).
      unfold copyd, alive_d in *. cbn [dlab] in *. unfold alive_w, is_deleted, ahas in *.
      destruct node as [tg at_ tx tl ks]. cbn [with_attrs xattrs] in *.
      rewrite aget_aput_other by (intros E; apply dname_inj in E; discriminate). exact Hakn.
  - apply Forall_insert_kid; [|intros _; exact HRcopy].
    rewrite Forall_forall in *. intros k Hin Hak. apply (rel_frame ws f1 f' k (HA1 k Hin Hak)).
    intros x Hx. split; [apply Fl1|]. apply Fk. intros ->.
    rewrite lids_unfold in NDt1. inversion NDt1 as [|? ? Hnin _]; subst. apply Hnin. eapply klids_In; eauto.
  - intros x Hx Hnx. split; [apply Fl1|]. apply Fk. intros ->. apply Hnx. rewrite lids_unfold. now left.
  - exists (dmap_at qt (fun _ => DN t tnode (insert_kid r copyd tkids1)) d1). split; [|split; [exact HR'|split; [exact Hid'|split; [exact Hal'|]]]].
    + rewrite (erase_dmap_const d1 qt _ _ HGt1). apply map_at_ext. intros x Hx.
      rewrite get_at_erase, HGt1 in Hx. inversion Hx; subst x.
      rewrite !erase_node. rewrite map_insert_kid.
      destruct tnode as [tg at_ tx tl ks]. destruct node as [ng nat_ nx nl nks].
      cbn [with_kids with_attrs xtag xattrs xtext xtail xkids copyd erase]. reflexivity.
    + assert (Hd1 : incl (lnodes d1) (lnodes d)).
      { unfold d1. apply (lnodes_dmap_dead qn d _ _ Hqn HGn). exact Hdead. }
      pose proof (lnodes_sub qn d _ HLn HGn) as Hsubn. pose proof (lnodes_sub qt d1 _ HLt1 HGt1) as Hsubt.
      intros n' x' Hx. apply lnodes_dmap_at in Hx as [Hx|(k & Ek & Hx)]; [left; apply Hd1, Hx|].
      rewrite HGt1 in Ek. inversion Ek; subst k. rewrite lnodes_unfold in Hx. destruct Hx as [Hx|Hx].
      * left. apply Hd1, Hsubt. rewrite lnodes_unfold. left. exact Hx.
      * apply klnodes_insert_kid in Hx as [Hx|[_ Hx]]; [left; apply Hd1, Hsubt; rewrite lnodes_unfold; now right|].
        unfold copyd in Hx. rewrite lnodes_unfold in Hx. destruct Hx as [Hx|Hx].
        -- right. inversion Hx; subst. split; [reflexivity|]. exists node. split; [|reflexivity].
           apply Hsubn. rewrite lnodes_unfold. now left.
        -- left. apply Hsubn. rewrite lnodes_unfold. now right.
Qed.

(* the move handler returns (used for C08) *)
Lemma exists_move_result f st d n t pos :
  ainv f st d ->
  alive f root n && negb (Nat.eqb n root) && alive f root t && is_elem f t
    && negb (Forest.mem t (subtree (S (fnext f)) f n)) && Nat.leb pos (length (remove_id n (kidsof f t))) = true ->
  exists st', handle_d c o rootns st (DMoveNode (gpath f n) (gpath f t) pos) = FOk st'.
Proof.
  intros HI C. apply and6 in C as (C1 & C2 & C3 & C4 & C5 & C6).
  apply negb_true_iff, Nat.eqb_neq in C2. apply negb_true_iff in C5.
  pose proof (ai_wf _ _ _ HI) as Hwf.
  destruct (resolve_node f st d n HI C1) as (qn & kn & Ern & HLn & HGn & Hkn).
  destruct (resolve_node f st d t HI C3) as (qt & kt & Ert & HLt & HGt & Hkt).
  cbn [handle_d]. unfold handle_MoveNode, gpath. rewrite Ern. cbn [fbind].
  rewrite (node_at_dt f st d qn kn HI HGn). cbn [fbind]. rewrite Ert. cbn [fbind].
  destruct kn as [n0 node nkids]. cbn [did] in Hkn. subst n0.
  assert (Hqn : qn <> []).
  { intros ->. cbn in HGn. inversion HGn as [E]. rewrite E in *. pose proof (ai_root _ _ _ HI) as Hr. cbn [did] in Hr. congruence. }
  set (dead := DN n (delete_node node) nkids).
  set (d1 := dmap_at qn (fun _ => dead) d).
  assert (Et1 : map_at qn delete_node (fs_tree st) = erase d1).
  { unfold d1. rewrite (erase_dmap_const d qn _ _ HGn), (ai_erase _ _ _ HI). apply map_at_ext. intros x Hx.
    rewrite <- (ai_erase _ _ _ HI), get_at_erase, HGn in Hx. inversion Hx; subst x. unfold dead. cbn [erase]. destruct node; reflexivity. }
  rewrite Et1.
  pose proof (rel_get ws f qn d _ (ai_rel _ _ _ HI) HLn HGn) as HRn.
  assert (Htn : ~ In t (lids (DN n node nkids))).
  { intros Hin. pose proof (lids_desc ws f _ HRn t Hin) as D. cbn [did] in D.
    assert (Hs : In t (subtree (S (fnext f)) f n)).
    { apply subtree_complete; [|exact D]. eapply fin_mono; [apply (fin_alive f root n Hwf); apply alive_iff; assumption|lia]. }
    apply mem_In in Hs. congruence. }
  assert (Hpre : is_prefix qn qt = false).
  { destruct (is_prefix qn qt) eqn:E; [|reflexivity]. exfalso. apply is_prefix_app in E as [r ->].
    destruct (dlpath_app_inv qn d r kt HLt HGt) as (ka & _ & Ga & Lr & Gr). rewrite HGn in Ga. inversion Ga; subst ka.
    apply Htn. apply (lids_sub r _ kt Lr Gr). destruct kt as [t0 ? ?]. cbn [did] in Hkt. subst t0. rewrite lids_unfold. now left. }
  destruct (dmap_other qn qt d (fun _ => dead) kt Hqn Hpre HLt HGt) as (HLt1 & kt1 & HGt1 & Hkt1).
  fold d1 in HGt1. unfold node_at. rewrite get_at_erase, HGt1. cbn [option_map fbind]. eauto.
Qed.
End Acc.
