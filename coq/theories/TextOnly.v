(* TextOnly.v -- documents that differ only in texts and tails (property C14,
   "with whitespace normalisation off, re-indenting is reported as text changes,
   and that script still round-trips").

   [same_doc_mod_text L R]: same ids (pre-order numbering), same child lists,
   same tags, attribute lists equal up to order; the text and the tail of every
   node are ARBITRARY on both sides.

   [text_only_differences_text_only_script]: if moreover the similarity strings
   (Differ.node_text) of corresponding nodes agree and corresponding comments
   have the same text, then under every option set and the oracle laws of C03
     - match() returns the identity matching,
     - diff() returns a script made of UpdateTextIn / UpdateTextAfter actions
       only: exactly one IText n (text of n in R) for each node whose text
       differs, one ITail n (tail of n in R) for each node whose tail differs,
       in breadth-first order ([text_acts]); it is empty iff all texts and tails
       are equal,
     - replaying the script on L (Spec.run_spec, the documented meaning of the
       actions) succeeds, gives the differ's working tree, and that tree is the
       right document (doc_equiv) -- instance of DifferSound.gen_script_replay.
   The node_text hypothesis is discharged for white-space-only differences in
   TextOnlyWs.v ([node_text_reindent], [reindent_text_only_script]). *)
From Coq Require Import List NArith ZArith Bool Arith Lia Sorting.Sorted Sorting.Permutation.
Import ListNotations.
Require Import XV.Str XV.Forest XV.LCS XV.LCSProofs XV.Matcher XV.MatcherProofs XV.Differ XV.Spec XV.WF
               XV.ForestProofs XV.TreeProofs XV.AttrProofs XV.DifferSound
               XV.EqualDocsBase XV.EqualDocsMatch XV.EqualDocsScript XV.EqualDocs.

Definition same_doc_mod_text (L R : forest) : Prop :=
  fnext L = fnext R /\
  (forall n, n < fnext L -> fkids L n = fkids R n) /\
  (forall n, n < fnext L -> ltag (flab L n) = ltag (flab R n) /\
                            Permutation (lattrs (flab L n)) (lattrs (flab R n))).

Definition is_text_action (a : iact) : Prop :=
  match a with IText _ _ | ITail _ _ => True | _ => False end.

(* the text actions of one node: update_node_text *)
Definition text_acts (L R : forest) (n : id) : list iact :=
  (if ostr_eqb (ltext (flab L n)) (ltext (flab R n)) then [] else [IText n (ltext (flab R n))]) ++
  (if ostr_eqb (ltail (flab L n)) (ltail (flab R n)) then [] else [ITail n (ltail (flab R n))]).

(* ------------------------------------------------------------------ *)
(** * Generic facts                                                     *)
(* ------------------------------------------------------------------ *)
Lemma ostr_eqb_eq a b : ostr_eqb a b = true <-> a = b.
Proof. apply mp_ostr_eqb_eq. Qed.

Lemma ostr_eqb_neq a b : ostr_eqb a b = false <-> a <> b.
Proof.
  split.
  - intros H E. apply ostr_eqb_eq in E. congruence.
  - intros H. destruct (ostr_eqb a b) eqn:E; [|reflexivity]. apply ostr_eqb_eq in E. contradiction.
Qed.

Lemma desc_kids_eq f g a n : fkids f = fkids g -> desc f a n -> desc g a n.
Proof. intros E. apply desc_ext. intros p. rewrite E. reflexivity. Qed.

Lemma parentof_kids_eq f g n : fkids f = fkids g -> fnext f = fnext g -> parentof f n = parentof g n.
Proof. intros E1 E2. unfold parentof. rewrite E1, E2. reflexivity. Qed.

Lemma parentof_mod L R n : same_doc_mod_text L R -> parentof R n = parentof L n.
Proof.
  intros (Hn & Hk & _). unfold parentof. rewrite <- Hn. apply find_ext_in.
  intros p Hp. apply in_seq in Hp. rewrite Hk by lia. reflexivity.
Qed.

Lemma desc_mod L R root a n :
  wf_forest L root -> same_doc_mod_text L R -> a < fnext L -> (desc L a n <-> desc R a n).
Proof.
  intros Hwf (Hn & Hk & _) Ha. split; intros Hd.
  - induction Hd as [|b c Hd IH Hin]; [constructor|].
    eapply desc_step; [exact IH|]. rewrite <- Hk; [exact Hin|]. eapply desc_lt; eauto.
  - induction Hd as [|b c Hd IH Hin]; [constructor|].
    eapply desc_step; [exact IH|]. rewrite Hk; [exact Hin|]. eapply desc_lt; eauto.
Qed.

(* update_node_text in full *)
Lemma upd_text_spec R s n :
  let l := labof (W s) n in let r := labof R n in
  let s' := upd_text R s n n in
  l2r s' = l2r s /\ r2l s' = r2l s /\ serr s' = serr s /\
  fkids (W s') = fkids (W s) /\ fnext (W s') = fnext (W s) /\
  (forall x, flab (W s') x =
             if Nat.eqb x n then Lab (ltag l) (lattrs l) (ltext r) (ltail r) else flab (W s) x) /\
  out s' = out s ++
    (if ostr_eqb (ltext l) (ltext r) then [] else [IText n (ltext r)]) ++
    (if ostr_eqb (ltail l) (ltail r) then [] else [ITail n (ltail r)]).
Proof.
  cbv zeta. unfold upd_text.
  destruct (ostr_eqb (ltext (labof (W s) n)) (ltext (labof R n))) eqn:E1.
  - destruct (ostr_eqb (ltail (labof (W s) n)) (ltail (labof R n))) eqn:E2.
    + do 5 (split; [reflexivity|]). split; [|cbn [app]; rewrite app_nil_r; reflexivity].
      intros x. destruct (Nat.eqb_spec x n) as [->|_]; [|reflexivity].
      apply ostr_eqb_eq in E1, E2. unfold labof in *. rewrite <- E1, <- E2.
      destruct (flab (W s) n); reflexivity.
    + cbn [withW emit W l2r r2l serr out set_lab fkids fnext flab app].
      do 5 (split; [reflexivity|]). split; [|reflexivity].
      intros x. unfold upd. destruct (Nat.eqb_spec x n) as [->|_]; [|reflexivity].
      apply ostr_eqb_eq in E1. unfold labof in *. rewrite <- E1. reflexivity.
  - cbn [withW emit W l2r r2l serr out].
    assert (El : labof (set_lab (W s) n
                   (Lab (ltag (labof (W s) n)) (lattrs (labof (W s) n)) (ltext (labof R n))
                        (ltail (labof (W s) n)))) n
                 = Lab (ltag (labof (W s) n)) (lattrs (labof (W s) n)) (ltext (labof R n))
                       (ltail (labof (W s) n))).
    { unfold labof. rewrite flab_set_lab, Nat.eqb_refl. reflexivity. }
    rewrite El. cbn [ltail ltag lattrs ltext].
    destruct (ostr_eqb (ltail (labof (W s) n)) (ltail (labof R n))) eqn:E2.
    + cbn [withW emit W l2r r2l serr out set_lab fkids fnext flab app].
      do 5 (split; [reflexivity|]). split; [|reflexivity].
      intros x. unfold upd. destruct (Nat.eqb_spec x n) as [->|_]; [|reflexivity].
      apply ostr_eqb_eq in E2. rewrite <- E2. reflexivity.
    + cbn [withW emit W l2r r2l serr out set_lab fkids fnext flab app].
      do 5 (split; [reflexivity|]). split; [|rewrite <- app_assoc; reflexivity].
      intros x. unfold upd. destruct (Nat.eqb x n); reflexivity.
Qed.

(* ------------------------------------------------------------------ *)
(** * The script                                                        *)
(* ------------------------------------------------------------------ *)
Section TScript.
Variable ign : list str.
Variables L R : forest.
Variable root : id.
Variable ms : list id.

Hypothesis Hwf : wf_forest L root.
Hypothesis HwfR : wf_forest R root.
Hypothesis Hmod : same_doc_mod_text L R.
Hypothesis Hnd : NoDup ms.
Hypothesis Hcover : forall x, In x ms <-> desc L root x /\ x <> root.

Definition idm : list (id * id) := map (fun x => (x, x)) ms ++ [(root, root)].

Lemma Hid : identity_matching L root idm.
Proof. apply identity_of_diag, Hcover. Qed.

Lemma doc_lt' x : desc L root x -> x < fnext L.
Proof. apply (desc_lt_root L root Hwf). Qed.

Lemma idm_valid : valid_matching L R root root idm.
Proof.
  assert (Hroot : ~ In root ms) by (intros H; apply Hcover in H as [_ H]; congruence).
  unfold valid_matching, idm. rewrite !map_app, !map_map. cbn [map fst snd].
  rewrite map_id.
  split; [apply MatcherProofs.NoDup_snoc; assumption|].
  split; [apply MatcherProofs.NoDup_snoc; assumption|].
  split; [apply in_or_app; right; left; reflexivity|].
  assert (Hd : forall l r, In (l, r) (map (fun x => (x, x)) ms ++ [(root, root)]) ->
               l = r /\ desc L root l).
  { intros l r Hin. apply in_app_or in Hin as [Hin|[E|[]]].
    - apply in_map_iff in Hin as (y & E & Hy). injection E as <- <-. split; [reflexivity|].
      apply Hcover, Hy.
    - injection E as <- <-. split; [reflexivity|constructor]. }
  split.
  - intros l r Hin. destruct (Hd l r Hin) as [<- Hl]. split; [exact Hl|].
    apply (desc_mod L R root root l Hwf Hmod (wf_root_lt L root Hwf)). exact Hl.
  - intros l r Hin _. destruct (Hd l r Hin) as [<- Hl].
    destruct Hmod as (_ & _ & Hlab). destruct (Hlab l (doc_lt' l Hl)) as [E _].
    rewrite E. reflexivity.
Qed.

(* the invariant of the main loop: V = the nodes visited so far *)
Definition TInv (V : list id) (s : st) : Prop :=
  l2r s = l2r0 idm /\ r2l s = r2l0 idm /\ serr s = false /\
  fkids (W s) = fkids L /\ fnext (W s) = fnext L /\
  (forall x, ltag (flab (W s) x) = ltag (flab L x) /\ lattrs (flab (W s) x) = lattrs (flab L x)) /\
  (forall x, In x V -> ltext (flab (W s) x) = ltext (flab R x) /\ ltail (flab (W s) x) = ltail (flab R x)) /\
  (forall x, ~ In x V -> ltext (flab (W s) x) = ltext (flab L x) /\ ltail (flab (W s) x) = ltail (flab L x)) /\
  out s = flat_map (text_acts L R) V.

Lemma TInv_init : TInv [] (init_state L idm).
Proof.
  unfold TInv, init_state. cbn [W l2r r2l serr out flat_map].
  do 5 (split; [reflexivity|]). split; [intros x; split; reflexivity|].
  split; [intros x []|]. split; [intros x _; split; reflexivity|reflexivity].
Qed.

Lemma kid_parent x c : desc L root x -> In c (fkids L x) -> parentof L c = Some x.
Proof. intros Hd Hc. eapply parentof_of_In; [exact Hwf|apply doc_lt', Hd|exact Hc]. Qed.

(* align_children only sets in-order marks *)
Lemma align_marks s n :
  l2r s = l2r0 idm -> r2l s = r2l0 idm -> fkids (W s) = fkids L -> fnext (W s) = fnext L ->
  desc L root n ->
  exists iL iR, align R s n n = St (W s) (l2r s) (r2l s) iL iR (out s) (serr s).
Proof.
  intros Hl Hr Hk Hn Hd. pose proof (doc_lt' n Hd) as Hlt.
  assert (HpW : forall x, parentof (W s) x = parentof L x)
    by (intros x; apply parentof_kids_eq; assumption).
  assert (HkR : kidsof R n = kidsof L n).
  { destruct Hmod as (_ & H & _). unfold kidsof. symmetry. apply H, Hlt. }
  assert (Hnoop : forall iL iR,
    St (W s) (l2r s) (r2l s) iL iR (out s) (serr s) = St (W s) (l2r s) (r2l s) iL iR (out s) (serr s))
    by reflexivity.
  unfold align.
  set (lch := filter _ (kidsof (W s) n)).
  set (rch := filter _ (kidsof R n)).
  assert (El : lch = kidsof L n).
  { unfold lch, kidsof. rewrite Hk. apply filter_all. intros c Hc.
    rewrite Hl, (l2r0_doc L root idm Hid c) by (eapply desc_step; eauto).
    rewrite (parentof_mod L R c Hmod), (kid_parent n c Hd Hc). cbn [oid_eqb]. apply Nat.eqb_refl. }
  assert (Er : rch = kidsof L n).
  { unfold rch. rewrite HkR. apply filter_all. intros c Hc.
    rewrite Hr, (r2l0_doc L root idm Hid c) by (eapply desc_step; eauto).
    rewrite HpW, (kid_parent n c Hd Hc). cbn [oid_eqb]. apply Nat.eqb_refl. }
  rewrite El, Er. clear lch rch El Er.
  destruct (kidsof L n) as [|c0 ks0] eqn:Ek.
  { exists (inoL s), (inoR s). destruct s; reflexivity. }
  cbv iota. set (ks := c0 :: ks0) in *.
  assert (Hkd : forall a, In a ks -> desc L root a).
  { intros a Ha. eapply desc_step; [exact Hd|]. fold (kidsof L n). rewrite Ek. exact Ha. }
  assert (Hself : forall a, In a ks -> oid_eqb (l2r s a) (Some a) = true).
  { intros a Ha. rewrite Hl, (l2r0_doc L root idm Hid a) by (apply Hkd, Ha).
    cbn [oid_eqb]. apply Nat.eqb_refl. }
  destruct (lcs_seq (fun x y => oid_eqb (l2r s x) (Some y)) ks ks) as [ps|] eqn:Hlcs.
  - assert (Hps : ps = map (fun i => (i, i)) (zrange (length ks) 0)).
    { apply (lcs_seq_refl (fun x y => oid_eqb (l2r s x) (Some y)) ks ps); [| |exact Hlcs].
      - intros a b Ha Hb _. split; apply Hself; assumption.
      - exact Hself. }
    destruct (fold_mark (fun p => nth_id ks (fst p)) (fun p => nth_id ks (snd p)) ps s)
      as (H1 & H2 & H3 & H4 & H5 & H6). cbv zeta in H1, H2, H3, H4, H5, H6.
    set (s1 := fold_left (fun s p => mark s (nth_id ks (fst p)) (nth_id ks (snd p))) ps s) in *.
    rewrite fold_left_id.
    + exists (inoL s1), (inoR s1). rewrite <- H1, <- H2, <- H3, <- H4, <- H5. destruct s1; reflexivity.
    + intros c Hc. rewrite H6; [reflexivity|].
      apply In_nth_error in Hc as (k & Hk'). apply in_map_iff.
      exists (Z.of_nat k, Z.of_nat k). cbn [fst]. split.
      * unfold nth_id. rewrite Nat2Z.id. apply nth_error_nth. exact Hk'.
      * rewrite Hps. apply in_map_iff. exists (Z.of_nat k). split; [reflexivity|].
        apply zrange_In. assert (k < length ks) by (apply nth_error_Some; rewrite Hk'; discriminate). lia.
  - exfalso. destruct (lcs_seq_total (fun x y => oid_eqb (l2r s x) (Some y)) ks ks) as [ps Hps].
    congruence.
Qed.

(* one iteration of the main loop *)
Lemma visit_text V s n :
  TInv V s -> desc L root n -> ~ In n V -> TInv (V ++ [n]) (visit ign R s n).
Proof.
  intros (Hl & Hr & He & Hk & Hn & Hta & Hvis & Hunv & Hout) Hd Hnv.
  pose proof (doc_lt' n Hd) as Hlt.
  destruct Hmod as (_ & _ & Hlab). destruct (Hlab n Hlt) as [Htag Hperm].
  assert (Hpar : oid_eqb (match parentof R n with Some rp => r2l s rp | None => None end)
                         (parentof (W s) n) = true).
  { rewrite (parentof_mod L R n Hmod), (parentof_kids_eq (W s) L n Hk Hn), Hr.
    destruct (Nat.eq_dec n root) as [->|Hne].
    - rewrite (parentof_root L root Hwf). reflexivity.
    - destruct (parentof_doc L root n Hwf Hd Hne) as (p & Ep & Hp & _).
      rewrite Ep, (r2l0_doc L root idm Hid p Hp). cbn [oid_eqb]. apply Nat.eqb_refl. }
  assert (Hr2l : r2l s n = Some n) by (rewrite Hr; apply (r2l0_doc L root idm Hid n Hd)).
  unfold visit. cbv zeta. rewrite Hr2l, Hpar.
  rewrite upd_tag_noop by (unfold labof; rewrite (proj1 (Hta n)); exact Htag).
  rewrite upd_attr_noop.
  2:{ unfold cur_attrs, labof. rewrite (proj2 (Hta n)).
      apply aget_perm; [apply (wf_attrs L root Hwf n Hlt)|exact Hperm]. }
  destruct (align_marks s n Hl Hr Hk Hn Hd) as (iL & iR & Ea). rewrite Ea.
  set (s2 := St (W s) (l2r s) (r2l s) iL iR (out s) (serr s)).
  replace (r2l s2 n) with (Some n) by (symmetry; exact Hr2l).
  destruct (upd_text_spec R s2 n) as (U1 & U2 & U3 & U4 & U5 & U6 & U7). cbv zeta in U1, U2, U3, U4, U5, U6, U7.
  set (s3 := upd_text R s2 n n) in *. cbn [s2 W l2r r2l serr out] in U1, U2, U3, U4, U5, U6, U7.
  destruct (Hunv n Hnv) as [Htx Htl]. unfold labof in U6, U7.
  unfold TInv. rewrite U1, U2, U3, U4, U5.
  split; [exact Hl|]. split; [exact Hr|]. split; [exact He|]. split; [exact Hk|]. split; [exact Hn|].
  split; [|split; [|split]].
  - intros x. rewrite U6. destruct (Nat.eqb_spec x n) as [->|_]; [|apply Hta].
    cbn [ltag lattrs]. apply Hta.
  - intros x Hx. rewrite U6. destruct (Nat.eqb_spec x n) as [->|Hne]; [cbn [ltext ltail]; split; reflexivity|].
    apply Hvis. apply in_app_or in Hx as [Hx|[E|[]]]; [exact Hx|congruence].
  - intros x Hx. rewrite U6. destruct (Nat.eqb_spec x n) as [->|Hne].
    + exfalso. apply Hx. apply in_or_app. right; left; reflexivity.
    + apply Hunv. intros H. apply Hx. apply in_or_app. left; exact H.
  - rewrite U7, Hout, flat_map_app. cbn [flat_map]. rewrite app_nil_r.
    unfold text_acts. rewrite Htx, Htl. reflexivity.
Qed.

Lemma fold_text : forall rest V s,
  TInv V s -> NoDup rest -> (forall x, In x rest -> desc L root x /\ ~ In x V) ->
  TInv (V ++ rest) (fold_left (visit ign R) rest s).
Proof.
  induction rest as [|n rest IH]; intros V s HI Hnd' Hr; cbn [fold_left].
  - rewrite app_nil_r. exact HI.
  - inversion Hnd' as [|? ? Hn Hnd'']; subst.
    destruct (Hr n (or_introl eq_refl)) as [Hd Hnv].
    replace (V ++ n :: rest) with ((V ++ [n]) ++ rest) by (rewrite <- app_assoc; reflexivity).
    apply IH; [apply visit_text; assumption|exact Hnd''|].
    intros x Hx. destruct (Hr x (or_intror Hx)) as [Hdx Hnvx]. split; [exact Hdx|].
    intros H. apply in_app_or in H as [H|[E|[]]]; [contradiction|]. subst x. contradiction.
Qed.

Definition B : list id := bfs R (S (fnext R)) [root].

Lemma B_desc x : In x B <-> desc L root x.
Proof.
  destruct (bfs_spec R root HwfR) as (_ & H & _). fold B in H. rewrite H. symmetry.
  apply (desc_mod L R root root x Hwf Hmod (wf_root_lt L root Hwf)).
Qed.

Lemma B_NoDup : NoDup B.
Proof. apply (bfs_spec R root HwfR). Qed.

Theorem gen_script_text :
  let s := gen_script ign R root L root idm in
  TInv B s.
Proof.
  cbv zeta. unfold gen_script. fold B.
  pose proof (fold_text B [] (init_state L idm) TInv_init B_NoDup) as HI.
  cbn [app] in HI.
  assert (HB : forall x, In x B -> desc L root x /\ ~ In x []) by (intros x Hx; split; [apply B_desc, Hx|intros []]).
  specialize (HI HB).
  set (s1 := fold_left (visit ign R) B (init_state L idm)) in *.
  unfold delete_phase. rewrite fold_left_id; [exact HI|].
  intros n Hn. destruct HI as (Hl & _ & _ & Hk & _).
  apply rpost_desc in Hn. apply (desc_kids_eq _ L _ _ Hk) in Hn.
  rewrite Hl, (l2r0_doc L root idm Hid n Hn). reflexivity.
Qed.

(* what the invariant says about the script *)
Lemma script_text_only : Forall is_text_action (flat_map (text_acts L R) B).
Proof.
  apply Forall_forall. intros a Ha. apply in_flat_map in Ha as (n & _ & Ha).
  unfold text_acts in Ha. apply in_app_or in Ha as [Ha|Ha].
  - destruct (ostr_eqb _ _); [destruct Ha|]. destruct Ha as [<-|[]]. exact I.
  - destruct (ostr_eqb _ _); [destruct Ha|]. destruct Ha as [<-|[]]. exact I.
Qed.

Lemma script_text_In n t :
  In (IText n t) (flat_map (text_acts L R) B) <->
  desc L root n /\ ltext (labof L n) <> ltext (labof R n) /\ t = ltext (labof R n).
Proof.
  unfold labof. rewrite in_flat_map. split.
  - intros (x & Hx & Ha). unfold text_acts in Ha. apply in_app_or in Ha as [Ha|Ha].
    + destruct (ostr_eqb (ltext (flab L x)) (ltext (flab R x))) eqn:E; [destruct Ha|].
      destruct Ha as [Ea|[]]. injection Ea as <- <-.
      split; [apply B_desc, Hx|]. split; [apply ostr_eqb_neq, E|reflexivity].
    + destruct (ostr_eqb (ltail (flab L x)) (ltail (flab R x))); [destruct Ha|].
      destruct Ha as [Ea|[]]. discriminate.
  - intros (Hd & Hne & ->). exists n. split; [apply B_desc, Hd|].
    unfold text_acts. apply in_or_app. left. apply ostr_eqb_neq in Hne. rewrite Hne. left; reflexivity.
Qed.

Lemma script_tail_In n t :
  In (ITail n t) (flat_map (text_acts L R) B) <->
  desc L root n /\ ltail (labof L n) <> ltail (labof R n) /\ t = ltail (labof R n).
Proof.
  unfold labof. rewrite in_flat_map. split.
  - intros (x & Hx & Ha). unfold text_acts in Ha. apply in_app_or in Ha as [Ha|Ha].
    + destruct (ostr_eqb (ltext (flab L x)) (ltext (flab R x))); [destruct Ha|].
      destruct Ha as [Ea|[]]. discriminate.
    + destruct (ostr_eqb (ltail (flab L x)) (ltail (flab R x))) eqn:E; [destruct Ha|].
      destruct Ha as [Ea|[]]. injection Ea as <- <-.
      split; [apply B_desc, Hx|]. split; [apply ostr_eqb_neq, E|reflexivity].
  - intros (Hd & Hne & ->). exists n. split; [apply B_desc, Hd|].
    unfold text_acts. apply in_or_app. right. apply ostr_eqb_neq in Hne. rewrite Hne. left; reflexivity.
Qed.

Lemma script_empty_iff :
  flat_map (text_acts L R) B = [] <->
  forall n, desc L root n -> ltext (labof L n) = ltext (labof R n) /\ ltail (labof L n) = ltail (labof R n).
Proof.
  unfold labof. split.
  - intros E n Hd.
    destruct (ostr_eqb (ltext (flab L n)) (ltext (flab R n))) eqn:E1.
    + destruct (ostr_eqb (ltail (flab L n)) (ltail (flab R n))) eqn:E2.
      * split; apply ostr_eqb_eq; assumption.
      * exfalso. apply ostr_eqb_neq in E2.
        assert (H : In (ITail n (ltail (flab R n))) (flat_map (text_acts L R) B))
          by (apply script_tail_In; auto).
        rewrite E in H. destruct H.
    + exfalso. apply ostr_eqb_neq in E1.
      assert (H : In (IText n (ltext (flab R n))) (flat_map (text_acts L R) B))
        by (apply script_text_In; auto).
      rewrite E in H. destruct H.
  - intros H. assert (G : forall l, (forall x, In x l -> desc L root x) -> flat_map (text_acts L R) l = []).
    { induction l as [|x l IH]; intros Hl; cbn [flat_map]; [reflexivity|].
      rewrite IH by (intros y Hy; apply Hl; right; exact Hy).
      destruct (H x (Hl x (or_introl eq_refl))) as [E1 E2]. unfold text_acts.
      rewrite (proj2 (ostr_eqb_eq _ _) E1), (proj2 (ostr_eqb_eq _ _) E2). reflexivity. }
    apply G. intros x Hx. apply B_desc, Hx.
Qed.

Theorem diff_given_text lns :
  ns_ok lns ->
  exists Wf,
    diff_given ign R root L root lns lns idm = Some (flat_map (text_acts L R) B, Wf) /\
    run_spec root L (flat_map (text_acts L R) B) = Some Wf /\
    doc_equiv ign Wf root R root.
Proof.
  intros Hns. unfold diff_given. rewrite (ns_prologue_same lns Hns).
  pose proof gen_script_text as HI. cbv zeta in HI.
  destruct (gen_script_replay ign L R root root idm Hwf HwfR idm_valid) as (G1 & G2 & G3).
  cbv zeta in G1, G2, G3.
  set (s := gen_script ign R root L root idm) in *.
  destruct HI as (_ & _ & _ & _ & _ & _ & _ & _ & Hout).
  rewrite G1. cbn [app]. rewrite Hout in *. exists (W s). auto.
Qed.

End TScript.

(* ------------------------------------------------------------------ *)
(** * Main theorem                                                      *)
(* ------------------------------------------------------------------ *)
Theorem text_only_differences_text_only_script :
  forall (sim : Type) (sim_ltb sim_leb : sim -> sim -> bool) (sim_is_one : sim -> bool)
         (zero one : sim) (leaf_sim : str -> str -> sim) (combine : sim -> nat -> nat -> sim)
         (o : mopts sim) (L R : forest) (root : id) (lns : nsmap),
  (* oracle laws: those of C03 *)
  (forall s, sim_is_one (leaf_sim s s) = true) ->
  (forall m n, sim_is_one m = true -> 0 < n -> sim_is_one (combine m n n) = true) ->
  sim_is_one one = true ->
  (forall x, sim_is_one x = true -> sim_ltb zero x = true) ->
  (forall x, sim_is_one x = true -> sim_leb (oF sim o) x = true) ->
  (ofast sim o = true -> sim_leb (oF sim o) zero = false) ->
  (ofast sim o = true ->
   forall s t n x n', 0 < n -> sim_leb (oF sim o) (combine (leaf_sim s t) 0 n) = true ->
                      sim_is_one x = true -> 0 < n' ->
                      sim_leb (oF sim o) (combine x 0 n') = true) ->
  (* the documents: same shape, tags and attributes; texts and tails arbitrary *)
  wf_forest L root -> wf_forest R root ->
  same_doc_mod_text L R ->
  (* the similarity strings of corresponding nodes agree *)
  (forall n, desc L root n -> node_text sim o R n = node_text sim o L n) ->
  (* corresponding comments have the same text (None = "") *)
  (forall n, desc L root n -> is_comment (ltag (flab L n)) = true ->
             otext (ltext (flab R n)) = otext (ltext (flab L n))) ->
  (forall k v, In (k, v) lns -> ns_get lns k = Some v) ->
  exists m script Wf,
    match_nodes sim sim_ltb sim_leb sim_is_one zero one leaf_sim combine o L R root root = Some m /\
    (forall l r, In (l, r) m -> l = r) /\
    (forall n, desc L root n -> In (n, n) m) /\
    diff_given (oignored sim o) R root L root lns lns m = Some (script, Wf) /\
    (* the script, exactly: the text actions of each node, in breadth-first order *)
    script = flat_map (text_acts L R) (bfs R (S (fnext R)) [root]) /\
    Forall is_text_action script /\
    (forall n t, In (IText n t) script <->
                 desc L root n /\ ltext (labof L n) <> ltext (labof R n) /\ t = ltext (labof R n)) /\
    (forall n t, In (ITail n t) script <->
                 desc L root n /\ ltail (labof L n) <> ltail (labof R n) /\ t = ltail (labof R n)) /\
    (script = [] <->
     forall n, desc L root n -> ltext (labof L n) = ltext (labof R n) /\
                                ltail (labof L n) = ltail (labof R n)) /\
    (* round trip *)
    run_spec root L script = Some Wf /\
    doc_equiv (oignored sim o) Wf root R root.
Proof.
  intros sim sim_ltb sim_leb sim_is_one zero one leaf_sim combine o L R root lns
         H1 H2 H3 H4 H5 H6 H7 Hwf HwfR Hmod Hnt Hcm Hns.
  assert (Hsim : sim_doc sim o L R root).
  { destruct Hmod as (A1 & A2 & A3). split; [exact A1|]. split; [exact A2|]. split; [exact A3|].
    split; assumption. }
  destruct (match_identity_gen sim sim_ltb sim_leb sim_is_one zero one leaf_sim combine o L R root
              Hwf Hsim H1 H2 H3 H4 H5 H6 H7) as (ms & Hm & Hnd & Hcover).
  pose proof (Hid L root ms Hcover) as Hidm.
  destruct (diff_given_text (oignored sim o) L R root ms Hwf HwfR Hmod Hnd Hcover lns Hns)
    as (Wf & Hd & Hrun & Heq).
  exists (idm root ms), (flat_map (text_acts L R) (B R root)), Wf.
  split; [exact Hm|]. split; [apply Hidm|]. split; [apply Hidm|]. split; [exact Hd|].
  split; [reflexivity|]. split; [apply script_text_only|].
  split; [apply (script_text_In L R root Hwf HwfR Hmod)|].
  split; [apply (script_tail_In L R root Hwf HwfR Hmod)|].
  split; [apply (script_empty_iff L R root Hwf HwfR Hmod)|].
  split; assumption.
Qed.

(* ------------------------------------------------------------------ *)
(** * A concrete instance                                               *)
(* ------------------------------------------------------------------ *)
(* <r><a>x</a><b><c/></b></r>  against its re-indented copy
   <r>\n  <a>x</a>\n  <b>\n    <c/>\n  </b>\n</r>   (whitespace normalisation off:
   the indentation is kept as texts and tails); oracle and options of
   EqualDocs.v (similarities in percent). *)
Definition ws_nl (k : nat) : option str := Some (10%N :: repeat 32%N k).
Definition ex_ws_doc (indented : bool) : forest :=
  let w := fun t : option str => if indented then t else None in
  mk_forest [(0, [1; 2]); (2, [3])]
            [(0, Lab (TElem [114%N]) [] (w (ws_nl 2)) None);
             (1, Lab (TElem [97%N]) [] (Some [120%N]) (w (ws_nl 2)));
             (2, Lab (TElem [98%N]) [] (w (ws_nl 4)) (w (ws_nl 0)));
             (3, Lab (TElem [99%N]) [] None (w (ws_nl 2)))] 4.
Definition ex_ws_script : list iact :=
  [IText 0 (ws_nl 2); ITail 1 (ws_nl 2); IText 2 (ws_nl 4); ITail 2 (ws_nl 0); ITail 3 (ws_nl 2)].

Lemma ex_ws_wf b : wf_forest (ex_ws_doc b) 0.
Proof. apply wf_forestb_sound. destruct b; vm_compute; reflexivity. Qed.

Lemma ex_ws_mod : same_doc_mod_text (ex_ws_doc false) (ex_ws_doc true).
Proof.
  split; [reflexivity|]. split.
  - intros n Hn. do 4 (destruct n as [|n]; [reflexivity|]). cbn in Hn. lia.
  - intros n Hn. do 4 (destruct n as [|n]; [split; [reflexivity|apply Permutation_refl]|]).
    cbn in Hn. lia.
Qed.

Lemma ex_ws_node_text F fast best n : desc (ex_ws_doc false) 0 n ->
  node_text nat (ex_opts F fast best) (ex_ws_doc true) n
  = node_text nat (ex_opts F fast best) (ex_ws_doc false) n.
Proof.
  intros Hd. pose proof (desc_lt_root _ _ (ex_ws_wf false) n Hd) as Hn.
  do 4 (destruct n as [|n]; [vm_compute; reflexivity|]). cbn in Hn. lia.
Qed.

Lemma ex_ws_comments n : desc (ex_ws_doc false) 0 n ->
  is_comment (ltag (flab (ex_ws_doc false) n)) = true ->
  otext (ltext (flab (ex_ws_doc true) n)) = otext (ltext (flab (ex_ws_doc false) n)).
Proof.
  intros Hd. pose proof (desc_lt_root _ _ (ex_ws_wf false) n Hd) as Hn.
  do 4 (destruct n as [|n]; [vm_compute; discriminate|]). cbn in Hn. lia.
Qed.

Lemma ex_ws_computes :
  let L := ex_ws_doc false in
  let R := ex_ws_doc true in
  let idm := [(1, 1); (3, 3); (2, 2); (0, 0)] in
  let run := fun F fast best =>
    match_nodes nat Nat.ltb Nat.leb (fun x => Nat.eqb x 100) 0 100 ex_leaf ex_comb
                (ex_opts F fast best) L R 0 0 in
  run 50 false false = Some idm /\ run 50 false true = Some idm /\
  run 50 true false = Some idm /\ run 80 true false = Some idm /\
  option_map fst (diff_given [] R 0 L 0 ex_lns ex_lns idm) = Some ex_ws_script /\
  Forall is_text_action ex_ws_script /\
  match run_spec 0 L ex_ws_script with
  | Some Wf => tree_equivb (doc_tree Wf 0) (doc_tree R 0)
  | None => false
  end = true.
Proof.
  cbv zeta. repeat split; try (vm_compute; reflexivity).
  repeat constructor.
Qed.
