(* Basic lemmas for the DMP model: results, loops, Python list operations,
   slices, the two projections t1/t2 of a diff. *)
From Coq Require Import List ZArith NArith Bool Lia.
Import ListNotations.
Require Import XV.DMP.
Local Open Scope Z_scope.

(* ------------------------------------------------------------------ *)
(** * result / bind *)

Lemma bind_ok {A B} (e : result A) (f : A -> result B) b :
  bind e f = Ok b -> exists a, e = Ok a /\ f a = Ok b.
Proof. destruct e; cbn; intros H; [eauto | discriminate]. Qed.

(* decompose hypotheses of the form [bind e f = Ok b] *)
Tactic Notation "inv_bind" hyp(H) :=
  let a := fresh "v" in let E := fresh "E" in
  apply bind_ok in H; destruct H as (a & E & H).

(* decompose an equation between tuples/options into its components and
   substitute only the variables that occur as one side of a component *)
Ltac eq_subst H :=
  lazymatch type of H with
  | (?a, ?b) = (?c, ?d) =>
      let H1 := fresh "Hq" in let H2 := fresh "Hq" in
      assert (H1 : a = c) by congruence; assert (H2 : b = d) by congruence; clear H;
      eq_subst H1; eq_subst H2
  | Some ?a = Some ?b =>
      let H1 := fresh "Hq" in assert (H1 : a = b) by congruence; clear H; eq_subst H1
  | ?x = ?y => first [ is_var y; subst y | is_var x; subst x | idtac ]
  end.

Tactic Notation "inv_bind" hyp(H) "as" ident(a) ident(E) :=
  apply bind_ok in H; destruct H as (a & E & H).

Ltac ok_inv :=
  repeat match goal with
  | H : Ok ?a = Ok ?b |- _ =>
      let H1 := fresh "Hq" in assert (H1 : a = b) by congruence; clear H; eq_subst H1
  | H : Err _ = Ok _ |- _ => discriminate H
  | H : inl ?a = inl ?b |- _ =>
      let H1 := fresh "Hq" in assert (H1 : a = b) by congruence; clear H; eq_subst H1
  | H : inr ?a = inr ?b |- _ =>
      let H1 := fresh "Hq" in assert (H1 : a = b) by congruence; clear H; eq_subst H1
  | H : inl _ = inr _ |- _ => discriminate H
  | H : inr _ = inl _ |- _ => discriminate H
  end.

(* [H : <loop body> = Ok (inr _)] where every path of the body that is still possible ends in
   [Ok (inl _)] or an error: close the goal by walking through the body *)
Ltac bind_discr H :=
  repeat first
    [ discriminate H
    | inv_bind H
    | match type of H with
      | context [match ?x with _ => _ end] => destruct x
      end ].

(* ------------------------------------------------------------------ *)
(** * loops *)

Lemma loop_inv {St R} (Inv : St -> Prop) (Post : R -> Prop) (step : St -> result (St + R)) :
  (forall s s', Inv s -> step s = Ok (inl s') -> Inv s') ->
  (forall s r, Inv s -> step s = Ok (inr r) -> Post r) ->
  forall fuel s r, Inv s -> loop fuel step s = Ok r -> Post r.
Proof.
  intros Hs He. induction fuel as [|f IH]; intros s r Hi H; cbn in H; [discriminate|].
  destruct (step s) as [[s'|r']|] eqn:E; cbn in H; try discriminate.
  - exact (IH s' r (Hs _ _ Hi E) H).
  - ok_inv. exact (He _ _ Hi E).
Qed.

Lemma for_loop_inv {St R A} (Inv : St -> Prop) (Post : R -> Prop) (body : A -> St -> result (St + R)) :
  (forall x s s', Inv s -> body x s = Ok (inl s') -> Inv s') ->
  (forall x s r, Inv s -> body x s = Ok (inr r) -> Post r) ->
  forall xs s res, Inv s -> for_loop xs body s = Ok res ->
    match res with inl s' => Inv s' | inr r => Post r end.
Proof.
  intros Hs He. induction xs as [|x xs IH]; intros s res Hi H; cbn in H.
  - ok_inv. assumption.
  - destruct (body x s) as [[s'|r']|] eqn:E; cbn in H; try discriminate.
    + exact (IH s' res (Hs _ _ _ Hi E) H).
    + ok_inv. exact (He _ _ _ Hi E).
Qed.

(* ------------------------------------------------------------------ *)
(** * zlen *)

Lemma zlen_nil {A} : zlen (@nil A) = 0. Proof. reflexivity. Qed.
Lemma zlen_cons {A} (x : A) l : zlen (x :: l) = zlen l + 1.
Proof. unfold zlen. cbn [length]. lia. Qed.
Lemma zlen_app {A} (a b : list A) : zlen (a ++ b) = zlen a + zlen b.
Proof. unfold zlen. rewrite app_length. lia. Qed.
Lemma zlen_nonneg {A} (l : list A) : 0 <= zlen l.
Proof. unfold zlen. lia. Qed.
Lemma zlen_0 {A} (l : list A) : zlen l = 0 -> l = [].
Proof. destruct l; [reflexivity|]. rewrite zlen_cons. pose proof (zlen_nonneg l). lia. Qed.
Lemma zlen_rev {A} (l : list A) : zlen (rev l) = zlen l.
Proof. unfold zlen. now rewrite rev_length. Qed.

Lemma zlen_sing {A} (x : A) : zlen [x] = 1. Proof. reflexivity. Qed.

#[export] Hint Rewrite @zlen_sing @zlen_cons @zlen_app @zlen_rev : zl.

(* [rewrite zlen_nil] may pick the literal 0 (convertible to zlen []) as its instance *)
Ltac znil := repeat match goal with
  | |- context [@zlen ?A []] => change (@zlen A []) with 0
  | H : context [@zlen ?A []] |- _ => change (@zlen A []) with 0 in H
  end.

Ltac zl := autorewrite with zl in *; znil.
Ltac zlia := autorewrite with zl in *; znil;
  repeat match goal with
  | |- context [zlen ?l] => lazymatch goal with H : 0 <= zlen l |- _ => fail | _ => pose proof (zlen_nonneg l) end
  | _ : context [zlen ?l] |- _ => lazymatch goal with H : 0 <= zlen l |- _ => fail | _ => pose proof (zlen_nonneg l) end
  end; lia.

Lemma to_nat_zlen {A} (l : list A) : Z.to_nat (zlen l) = length l.
Proof. unfold zlen. lia. Qed.

(* ------------------------------------------------------------------ *)
(** * str_eqb, prefixb *)

Lemma str_eqb_eq a b : str_eqb a b = true <-> a = b.
Proof.
  revert b. induction a as [|x a IH]; destruct b as [|y b]; cbn; split; intros H; try easy.
  - apply andb_true_iff in H as [H1 H2]. apply N.eqb_eq in H1. apply IH in H2. congruence.
  - inversion H; subst. rewrite N.eqb_refl. cbn. now apply IH.
Qed.

Lemma str_eqb_refl a : str_eqb a a = true.
Proof. now apply str_eqb_eq. Qed.

Lemma str_eqb_neq a b : str_eqb a b = false <-> a <> b.
Proof.
  split; intros H.
  - intros ->. rewrite str_eqb_refl in H. discriminate.
  - destruct (str_eqb a b) eqn:E; [|reflexivity]. apply str_eqb_eq in E. contradiction.
Qed.

Lemma prefixb_spec p s : prefixb p s = true <-> exists r, s = p ++ r.
Proof.
  revert s. induction p as [|x p IH]; intros s; cbn.
  - split; [eauto | reflexivity].
  - destruct s as [|y s]; cbn.
    + split; [discriminate | intros (r & H); discriminate].
    + split.
      * intros H. apply andb_true_iff in H as [H1 H2]. apply N.eqb_eq in H1. apply IH in H2 as (r & ->).
        exists r. now subst.
      * intros (r & H). inversion H; subst. rewrite N.eqb_refl. cbn. apply IH. eauto.
Qed.

(* ------------------------------------------------------------------ *)
(** * Python list operations on a list with a known decomposition *)

Section PyOps.
  Context {A : Type}.
  Implicit Types (l pre post : list A) (x y z v : A).

  Lemma nth_error_mid pre x post : nth_error (pre ++ x :: post) (length pre) = Some x.
  Proof. rewrite nth_error_app2 by lia. now rewrite Nat.sub_diag. Qed.

  Lemma firstn_mid pre l : firstn (length pre) (pre ++ l) = pre.
  Proof. rewrite firstn_app, Nat.sub_diag, firstn_all. cbn. now rewrite app_nil_r. Qed.

  Lemma skipn_mid pre l : skipn (length pre) (pre ++ l) = l.
  Proof. rewrite skipn_app, Nat.sub_diag, skipn_all. reflexivity. Qed.

  Lemma skipn_mid_S pre x l : skipn (S (length pre)) (pre ++ x :: l) = l.
  Proof.
    replace (S (length pre)) with (length (pre ++ [x])) by (rewrite app_length; cbn; lia).
    replace (pre ++ x :: l) with ((pre ++ [x]) ++ l) by (now rewrite <- app_assoc).
    apply skipn_mid.
  Qed.

  Lemma get0 pre x post i : i = zlen pre -> py_get (pre ++ x :: post) i = Ok x.
  Proof.
    intros ->. unfold py_get, normi, in_range.
    pose proof (zlen_nonneg pre). pose proof (zlen_nonneg post).
    destruct (zlen pre <? 0) eqn:E1; [lia|].
    rewrite zlen_app, zlen_cons.
    destruct (0 <=? zlen pre) eqn:E2; [|lia].
    destruct (zlen pre <? zlen pre + (zlen post + 1)) eqn:E3; [|lia]. cbn [andb].
    rewrite to_nat_zlen, nth_error_mid. reflexivity.
  Qed.

  Lemma set0 pre x post i v : i = zlen pre -> py_set (pre ++ x :: post) i v = Ok (pre ++ v :: post).
  Proof.
    intros ->. unfold py_set, normi, in_range.
    pose proof (zlen_nonneg pre). pose proof (zlen_nonneg post).
    destruct (zlen pre <? 0) eqn:E1; [lia|].
    rewrite zlen_app, zlen_cons.
    destruct (0 <=? zlen pre) eqn:E2; [|lia].
    destruct (zlen pre <? zlen pre + (zlen post + 1)) eqn:E3; [|lia]. cbn [andb].
    rewrite to_nat_zlen, firstn_mid, skipn_mid_S. reflexivity.
  Qed.

  Lemma del0 pre x post i : i = zlen pre -> py_del (pre ++ x :: post) i = Ok (pre ++ post).
  Proof.
    intros ->. unfold py_del, normi, in_range.
    pose proof (zlen_nonneg pre). pose proof (zlen_nonneg post).
    destruct (zlen pre <? 0) eqn:E1; [lia|].
    rewrite zlen_app, zlen_cons.
    destruct (0 <=? zlen pre) eqn:E2; [|lia].
    destruct (zlen pre <? zlen pre + (zlen post + 1)) eqn:E3; [|lia]. cbn [andb].
    rewrite to_nat_zlen, firstn_mid, skipn_mid_S. reflexivity.
  Qed.

  Lemma clampi_in len i : 0 <= i <= len -> clampi len i = i.
  Proof. intros H. unfold clampi. destruct (i <? 0) eqn:E; lia. Qed.

  Lemma ins0 pre post i v : i = zlen pre -> py_insert (pre ++ post) i v = pre ++ v :: post.
  Proof.
    intros ->. unfold py_insert.
    pose proof (zlen_nonneg pre). pose proof (zlen_nonneg post).
    rewrite clampi_in by (rewrite zlen_app; lia).
    rewrite to_nat_zlen, firstn_mid, skipn_mid. reflexivity.
  Qed.

  Lemma slice_assign0 pre mid post i j new :
    i = zlen pre -> j = zlen pre + zlen mid ->
    py_slice_assign (pre ++ mid ++ post) i j new = pre ++ new ++ post.
  Proof.
    intros -> ->. unfold py_slice_assign.
    pose proof (zlen_nonneg pre). pose proof (zlen_nonneg post). pose proof (zlen_nonneg mid).
    rewrite !clampi_in by (rewrite !zlen_app; lia).
    rewrite Z.max_r by lia.
    rewrite to_nat_zlen, firstn_mid.
    replace (Z.to_nat (zlen pre + zlen mid)) with (length (pre ++ mid)) by (rewrite app_length; unfold zlen; lia).
    rewrite (app_assoc pre mid post), skipn_mid. reflexivity.
  Qed.

  (* the general inversion: a successful l[i] with i >= 0 splits the list *)
  Lemma py_get_split l i x : py_get l i = Ok x -> 0 <= i ->
    exists pre post, l = pre ++ x :: post /\ zlen pre = i.
  Proof.
    unfold py_get, normi, in_range. intros H Hi.
    destruct (i <? 0) eqn:E1; [lia|].
    destruct ((0 <=? i) && (i <? zlen l)) eqn:E2; [|discriminate].
    destruct (nth_error l (Z.to_nat i)) eqn:E3; [|discriminate]. ok_inv.
    apply nth_error_split in E3 as (pre & post & -> & Hl).
    exists pre, post. split; [reflexivity|]. unfold zlen. lia.
  Qed.

  Lemma py_get_range l i x : py_get l i = Ok x -> 0 <= i -> i < zlen l.
  Proof.
    intros H Hi. apply py_get_split in H as (pre & post & -> & <-); [|assumption].
    pose proof (zlen_nonneg post). rewrite zlen_app, zlen_cons. lia.
  Qed.

  (* l[-1] *)
  Lemma get_last pre x : py_get (pre ++ [x]) (-1) = Ok x.
  Proof.
    unfold py_get, normi, in_range. pose proof (zlen_nonneg pre).
    rewrite zlen_app, zlen_sing. change (-1 <? 0) with true. cbv iota.
    destruct (0 <=? -1 + (zlen pre + 1)) eqn:E1; [|lia].
    destruct (-1 + (zlen pre + 1) <? zlen pre + 1) eqn:E2; [|lia]. cbn [andb].
    replace (Z.to_nat (-1 + (zlen pre + 1))) with (length pre) by (unfold zlen; lia).
    now rewrite nth_error_mid.
  Qed.

  Lemma py_get_last_inv l x : py_get l (-1) = Ok x -> exists pre, l = pre ++ [x].
  Proof.
    destruct l as [|a l] using rev_ind.
    - unfold py_get. cbn. discriminate.
    - rewrite get_last. intros H. ok_inv. eauto.
  Qed.

  Lemma py_pop_app pre x : py_pop (pre ++ [x]) = Ok pre.
  Proof.
    unfold py_pop. destruct (pre ++ [x]) eqn:E.
    - destruct pre; discriminate.
    - rewrite <- E. now rewrite removelast_last.
  Qed.
End PyOps.

(* offsets 1 and 2 from a known prefix *)
Section PyOps12.
  Context {A : Type}.
  Implicit Types (l pre post : list A) (x y z v : A).

  Lemma app_cons1 pre x l : pre ++ x :: l = (pre ++ [x]) ++ l.
  Proof. now rewrite <- app_assoc. Qed.

  Lemma get1 pre x y post i : i = zlen pre + 1 -> py_get (pre ++ x :: y :: post) i = Ok y.
  Proof. intros ->. rewrite app_cons1. apply get0. now rewrite zlen_app, zlen_sing. Qed.
  Lemma get2 pre x y z post i : i = zlen pre + 2 -> py_get (pre ++ x :: y :: z :: post) i = Ok z.
  Proof. intros ->. rewrite app_cons1. apply get1. rewrite zlen_app, zlen_sing. lia. Qed.

  Lemma set1 pre x y post i v : i = zlen pre + 1 -> py_set (pre ++ x :: y :: post) i v = Ok (pre ++ x :: v :: post).
  Proof. intros ->. rewrite app_cons1, (app_cons1 pre x (v :: post)). apply set0. now rewrite zlen_app, zlen_sing. Qed.
  Lemma set2 pre x y z post i v : i = zlen pre + 2 ->
    py_set (pre ++ x :: y :: z :: post) i v = Ok (pre ++ x :: y :: v :: post).
  Proof. intros ->. rewrite app_cons1, (app_cons1 pre x (y :: v :: post)). apply set1. rewrite zlen_app, zlen_sing. lia. Qed.

  Lemma del1 pre x y post i : i = zlen pre + 1 -> py_del (pre ++ x :: y :: post) i = Ok (pre ++ x :: post).
  Proof. intros ->. rewrite app_cons1, (app_cons1 pre x post). apply del0. now rewrite zlen_app, zlen_sing. Qed.
  Lemma del2 pre x y z post i : i = zlen pre + 2 -> py_del (pre ++ x :: y :: z :: post) i = Ok (pre ++ x :: y :: post).
  Proof. intros ->. rewrite app_cons1, (app_cons1 pre x (y :: post)). apply del1. rewrite zlen_app, zlen_sing. lia. Qed.

  Lemma ins1 pre x post i v : i = zlen pre + 1 -> py_insert (pre ++ x :: post) i v = pre ++ x :: v :: post.
  Proof. intros ->. rewrite app_cons1, (app_cons1 pre x (v :: post)). apply ins0. now rewrite zlen_app, zlen_sing. Qed.

  (* windows *)
  Lemma window2 l p : 1 <= p -> p < zlen l ->
    exists pre x y post, l = pre ++ x :: y :: post /\ zlen pre = p - 1.
  Proof.
    intros H1 H2.
    assert (Hs : l = firstn (Z.to_nat (p - 1)) l ++ skipn (Z.to_nat (p - 1)) l) by (now rewrite firstn_skipn).
    assert (Hl : length (firstn (Z.to_nat (p - 1)) l) = Z.to_nat (p - 1)).
    { rewrite firstn_length. unfold zlen in H2. lia. }
    destruct (skipn (Z.to_nat (p - 1)) l) as [|x [|y post]] eqn:E.
    - exfalso. apply (f_equal (@length A)) in E. rewrite skipn_length in E. unfold zlen in H2. cbn in E. lia.
    - exfalso. apply (f_equal (@length A)) in E. rewrite skipn_length in E. unfold zlen in H2. cbn in E. lia.
    - exists (firstn (Z.to_nat (p - 1)) l), x, y, post. split; [assumption|]. unfold zlen. lia.
  Qed.

  Lemma window3 l p : 1 <= p -> p < zlen l - 1 ->
    exists pre x y z post, l = pre ++ x :: y :: z :: post /\ zlen pre = p - 1.
  Proof.
    intros H1 H2.
    destruct (window2 l p) as (pre & x & y & post & -> & Hp); [lia|lia|].
    destruct post as [|z post].
    - exfalso. rewrite zlen_app, !zlen_cons in H2. znil. lia.
    - exists pre, x, y, z, post. split; [reflexivity|assumption].
  Qed.

  Lemma window1 l p : 0 <= p -> p < zlen l ->
    exists pre x post, l = pre ++ x :: post /\ zlen pre = p.
  Proof.
    intros H1 H2.
    assert (Hs : l = firstn (Z.to_nat p) l ++ skipn (Z.to_nat p) l) by (now rewrite firstn_skipn).
    assert (Hl : length (firstn (Z.to_nat p) l) = Z.to_nat p).
    { rewrite firstn_length. unfold zlen in H2. lia. }
    destruct (skipn (Z.to_nat p) l) as [|x post] eqn:E.
    - exfalso. apply (f_equal (@length A)) in E. rewrite skipn_length in E. unfold zlen in H2. cbn in E. lia.
    - exists (firstn (Z.to_nat p) l), x, post. split; [assumption|]. unfold zlen. lia.
  Qed.
End PyOps12.

(* ------------------------------------------------------------------ *)
(** * slices *)

Section Slices.
  Context {A : Type}.
  Implicit Types (s a b : list A).

  Lemma slice_to_from s i : slice_to s i ++ slice_from s i = s.
  Proof. unfold slice_to, slice_from. apply firstn_skipn. Qed.

  Lemma clampi_range len i : 0 <= len -> 0 <= clampi len i <= len.
  Proof. intros H. unfold clampi. destruct (i <? 0) eqn:E; lia. Qed.

  Lemma slice_to_len s i : zlen (slice_to s i) = clampi (zlen s) i.
  Proof.
    unfold slice_to. pose proof (clampi_range (zlen s) i (zlen_nonneg s)).
    unfold zlen in *. rewrite firstn_length. lia.
  Qed.

  Lemma slice_from_len s i : zlen (slice_from s i) = zlen s - clampi (zlen s) i.
  Proof.
    unfold slice_from. pose proof (clampi_range (zlen s) i (zlen_nonneg s)).
    unfold zlen in *. rewrite skipn_length. lia.
  Qed.

  (* slices of a concatenation at the seam *)
  Lemma slice_to_app a b i : i = zlen a -> slice_to (a ++ b) i = a.
  Proof.
    intros ->. unfold slice_to. pose proof (zlen_nonneg a). pose proof (zlen_nonneg b).
    rewrite clampi_in by (rewrite zlen_app; lia). rewrite to_nat_zlen. apply firstn_mid.
  Qed.
  Lemma slice_from_app a b i : i = zlen a -> slice_from (a ++ b) i = b.
  Proof.
    intros ->. unfold slice_from. pose proof (zlen_nonneg a). pose proof (zlen_nonneg b).
    rewrite clampi_in by (rewrite zlen_app; lia). rewrite to_nat_zlen. apply skipn_mid.
  Qed.
  (* negative bounds: s[-n:] and s[:-n] *)
  Lemma slice_to_app_neg a b i : i = - zlen b -> b <> [] -> slice_to (a ++ b) i = a.
  Proof.
    intros -> Hb. unfold slice_to, clampi. pose proof (zlen_nonneg a). pose proof (zlen_nonneg b).
    assert (0 < zlen b). { destruct b; [congruence|]. rewrite zlen_cons. pose proof (zlen_nonneg b). lia. }
    destruct (- zlen b <? 0) eqn:E; [|lia].
    rewrite zlen_app. replace (Z.max 0 (- zlen b + (zlen a + zlen b))) with (zlen a) by lia.
    rewrite to_nat_zlen. apply firstn_mid.
  Qed.
  Lemma slice_from_app_neg a b i : i = - zlen b -> b <> [] -> slice_from (a ++ b) i = b.
  Proof.
    intros -> Hb. unfold slice_from, clampi. pose proof (zlen_nonneg a). pose proof (zlen_nonneg b).
    assert (0 < zlen b). { destruct b; [congruence|]. rewrite zlen_cons. pose proof (zlen_nonneg b). lia. }
    destruct (- zlen b <? 0) eqn:E; [|lia].
    rewrite zlen_app. replace (Z.max 0 (- zlen b + (zlen a + zlen b))) with (zlen a) by lia.
    rewrite to_nat_zlen. apply skipn_mid.
  Qed.

End Slices.

(* ------------------------------------------------------------------ *)
(** * The two projections of a diff *)

Definition proj (keep : op -> bool) (d : list seg) : str :=
  concat (map snd (filter (fun s => keep (fst s)) d)).

Lemma proj_nil k : proj k [] = [].
Proof. reflexivity. Qed.
Lemma proj_app k a b : proj k (a ++ b) = proj k a ++ proj k b.
Proof. unfold proj. now rewrite filter_app, map_app, concat_app. Qed.
Lemma proj_cons k o s d : proj k ((o, s) :: d) = (if k o then s else []) ++ proj k d.
Proof. unfold proj. cbn. destruct (k o); reflexivity. Qed.

Record good_keep (k : op -> bool) : Prop := { gk_eq : k EQUAL = true; gk_xor : k DELETE = negb (k INSERT) }.

Definition keep1 (o : op) : bool := negb (is_insert o).
Definition keep2 (o : op) : bool := negb (is_delete o).
Lemma good_keep1 : good_keep keep1. Proof. split; reflexivity. Qed.
Lemma good_keep2 : good_keep keep2. Proof. split; reflexivity. Qed.

Lemma t1_proj d : t1 d = proj keep1 d. Proof. reflexivity. Qed.
Lemma t2_proj d : t2 d = proj keep2 d. Proof. reflexivity. Qed.

(* a statement about both projections from one about every good [keep] *)
Lemma both_proj (d d' : list seg) :
  (forall k, good_keep k -> proj k d' = proj k d) -> t1 d' = t1 d /\ t2 d' = t2 d.
Proof. intros H. split; [apply (H keep1 good_keep1) | apply (H keep2 good_keep2)]. Qed.

Definition nonempty (s : seg) : Prop := snd s <> [].
