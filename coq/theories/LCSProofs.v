(* Proofs about the model of xmldiff.utils.longest_common_subsequence (LCS.v):
   totality, validity and maximality, for an ARBITRARY index relation eqf.   *)
From Coq Require Import List ZArith Lia Bool Sorting.Sorted FinFun.
Import ListNotations.
Require Import XV.LCS.
Local Open Scope Z_scope.

Definition lt2 (p q : Z * Z) := fst p < fst q /\ snd p < snd q.

Definition common_subseq (eqf : Z -> Z -> bool) (n m : Z) (qs : list (Z*Z)) : Prop :=
  StronglySorted lt2 qs /\
  Forall (fun p => 0 <= fst p < n /\ 0 <= snd p < m /\ eqf (fst p) (snd p) = true) qs.

(* ------------------------------------------------------------------ *)
(** * Chains inside boxes                                               *)
(* ------------------------------------------------------------------ *)
Section Chains.
Variable eqf : Z -> Z -> bool.

Definition chain (h : hist) := StronglySorted lt2 h.

Definition inbox (lx ly hx hy : Z) (p : Z * Z) :=
  lx <= fst p < hx /\ ly <= snd p < hy /\ eqf (fst p) (snd p) = true.

(* common subsequence of the index box [lx,hx) x [ly,hy) *)
Definition cs (lx ly hx hy : Z) (qs : hist) := chain qs /\ Forall (inbox lx ly hx hy) qs.

Lemma chain_snoc h p : chain h -> Forall (fun q => lt2 q p) h -> chain (h ++ [p]).
Proof.
  unfold chain. induction h as [|a h IH]; intros Hc Hf; simpl.
  - constructor; constructor.
  - inversion Hc as [|? ? Hc' Ha]; subst. inversion Hf as [|? ? Hap Hf']; subst.
    constructor; [apply IH; assumption|].
    apply Forall_app; split; [assumption| constructor; [assumption|constructor]].
Qed.

Lemma chain_snoc_inv h p : chain (h ++ [p]) -> chain h /\ Forall (fun q => lt2 q p) h.
Proof.
  unfold chain. induction h as [|a h IH]; simpl; intros Hc.
  - split; constructor.
  - inversion Hc as [|? ? Hc' Ha]; subst. destruct (IH Hc') as [H1 H2].
    apply Forall_app in Ha as [Ha1 Ha2]. inversion Ha2; subst.
    split; constructor; assumption.
Qed.

Lemma chain_app l1 l2 :
  chain l1 -> chain l2 -> (forall a b, In a l1 -> In b l2 -> lt2 a b) -> chain (l1 ++ l2).
Proof.
  unfold chain. induction l1 as [|a l1 IH]; simpl; intros H1 H2 H; [assumption|].
  inversion H1 as [|? ? H1' Ha]; subst. constructor.
  - apply IH; auto.
  - apply Forall_app; split; [assumption|]. apply Forall_forall. intros b Hb. apply H; auto.
Qed.

Lemma cs_app lx ly mx my hx hy l1 l2 :
  cs lx ly mx my l1 -> cs mx my hx hy l2 -> lx <= mx -> ly <= my -> mx <= hx -> my <= hy ->
  cs lx ly hx hy (l1 ++ l2).
Proof.
  intros [C1 F1] [C2 F2] ? ? ? ?. split.
  - apply chain_app; auto. intros a b Ha Hb.
    rewrite Forall_forall in F1, F2. specialize (F1 a Ha). specialize (F2 b Hb).
    unfold inbox, lt2 in *. intuition lia.
  - apply Forall_app; split.
    + eapply Forall_impl; [|exact F1]. unfold inbox. intros ? (? & ? & ?). repeat split; [lia..|assumption].
    + eapply Forall_impl; [|exact F2]. unfold inbox. intros ? (? & ? & ?). repeat split; [lia..|assumption].
Qed.

Lemma cs_nil lx ly hx hy : cs lx ly hx hy [].
Proof. split; constructor. Qed.

Lemma cs_weaken lx ly hx hy lx' ly' hx' hy' l :
  cs lx ly hx hy l -> lx' <= lx -> ly' <= ly -> hx <= hx' -> hy <= hy' -> cs lx' ly' hx' hy' l.
Proof.
  intros [C F] ? ? ? ?. split; [exact C|].
  eapply Forall_impl; [|exact F]. unfold inbox. intros ? (? & ? & ?). repeat split; [lia..|assumption].
Qed.

(* Dropping k elements at the front moves a chain into the box shrunk by k. *)
Lemma cs_drop_front (k : nat) : forall lx ly hx hy qs,
  cs lx ly hx hy qs ->
  exists qs', cs (lx + Z.of_nat k) (ly + Z.of_nat k) hx hy qs' /\
              (length qs <= k + length qs')%nat.
Proof.
  induction k as [|k IH]; intros lx ly hx hy qs H.
  - exists qs. split; [|lia]. eapply cs_weaken; [exact H| lia..].
  - destruct (IH _ _ _ _ _ H) as (q1 & [C1 F1] & L1).
    destruct q1 as [|p r].
    + exists []. split; [apply cs_nil|simpl in *; lia].
    + exists r. split; [|simpl in *; lia].
      inversion C1 as [|? ? Cr Hp]; subst. inversion F1 as [|? ? Fp Fr]; subst.
      split; [exact Cr|].
      rewrite Forall_forall in *. intros q Hq. specialize (Hp q Hq). specialize (Fr q Hq).
      unfold inbox, lt2 in *. intuition lia.
Qed.

Lemma list_snoc_case {A} (l : list A) : l = [] \/ exists l' a, l = l' ++ [a].
Proof.
  induction l as [|a l _] using rev_ind; [left; reflexivity|right; eauto].
Qed.

Lemma cs_drop_back (k : nat) : forall lx ly hx hy qs,
  cs lx ly hx hy qs ->
  exists qs', cs lx ly (hx - Z.of_nat k) (hy - Z.of_nat k) qs' /\
              (length qs <= k + length qs')%nat.
Proof.
  induction k as [|k IH]; intros lx ly hx hy qs H.
  - exists qs. split; [|lia]. eapply cs_weaken; [exact H| lia..].
  - destruct (IH _ _ _ _ _ H) as (q1 & [C1 F1] & L1).
    destruct (list_snoc_case q1) as [->|(r & p & ->)].
    + exists []. split; [apply cs_nil|simpl in *; lia].
    + exists r. rewrite app_length in L1. split; [|simpl in *; lia].
      apply chain_snoc_inv in C1 as [Cr Hp]. apply Forall_app in F1 as [Fr Fp].
      inversion Fp as [|? ? Fp' _]; subst.
      split; [exact Cr|].
      rewrite Forall_forall in *. intros q Hq. specialize (Hp q Hq). specialize (Fr q Hq).
      unfold inbox, lt2 in *. intuition lia.
Qed.

Lemma cs_empty_box lx ly hx hy qs : cs lx ly hx hy qs -> hx <= lx \/ hy <= ly -> qs = [].
Proof.
  intros [_ F] H. destruct qs as [|p r]; [reflexivity|].
  inversion F as [|? ? Fp _]; subst. unfold inbox in Fp. lia.
Qed.

(* ------------------------------------------------------------------ *)
(** * zrange / combine                                                  *)
(* ------------------------------------------------------------------ *)
Lemma zrange_In n : forall a i, In i (zrange n a) <-> a <= i < a + Z.of_nat n.
Proof.
  induction n as [|n IH]; intros a i; simpl zrange.
  - simpl. lia.
  - simpl In. rewrite IH. lia.
Qed.

Lemma zrange_NoDup n : forall a, NoDup (zrange n a).
Proof.
  induction n as [|n IH]; intros a; simpl; constructor; [|apply IH].
  rewrite zrange_In. lia.
Qed.

Lemma zrange_length n : forall a, length (zrange n a) = n.
Proof. induction n; intros; simpl; auto. Qed.

Lemma map_diag_combine n : forall a,
  map (fun e : Z => (e, e)) (zrange n a) = combine (zrange n a) (zrange n a).
Proof. induction n as [|n IH]; intros a; simpl; [reflexivity|]. rewrite IH. reflexivity. Qed.

Lemma combine_zrange_length n : forall a b,
  length (combine (zrange n a) (zrange n b)) = n.
Proof. intros. rewrite combine_length, !zrange_length. lia. Qed.

Lemma cs_combine_zrange n : forall a b,
  (forall j, 0 <= j < Z.of_nat n -> eqf (a + j) (b + j) = true) ->
  cs a b (a + Z.of_nat n) (b + Z.of_nat n) (combine (zrange n a) (zrange n b)).
Proof.
  induction n as [|n IH]; intros a b H; simpl; [apply cs_nil|].
  assert (IH' : cs (a + 1) (b + 1) (a + Z.of_nat (S n)) (b + Z.of_nat (S n))
                   (combine (zrange n (a + 1)) (zrange n (b + 1)))).
  { replace (a + Z.of_nat (S n)) with (a + 1 + Z.of_nat n) by lia.
    replace (b + Z.of_nat (S n)) with (b + 1 + Z.of_nat n) by lia.
    apply IH. intros j Hj.
    replace (a + 1 + j) with (a + (j + 1)) by lia.
    replace (b + 1 + j) with (b + (j + 1)) by lia. apply H. lia. }
  change (cs a b (a + Z.of_nat (S n)) (b + Z.of_nat (S n))
             ([(a, b)] ++ combine (zrange n (a + 1)) (zrange n (b + 1)))).
  eapply cs_app with (mx := a + 1) (my := b + 1); [|exact IH'|lia..].
  split; [repeat constructor|]. constructor; [|constructor].
  unfold inbox; simpl. specialize (H 0). rewrite !Z.add_0_r in H.
  split; [lia|]. split; [lia|]. apply H. lia.
Qed.

(* ------------------------------------------------------------------ *)
(** * Trimming loops                                                    *)
(* ------------------------------------------------------------------ *)
Lemma trim_start_spec fuel : forall s le re,
  s <= le -> s <= re ->
  let s' := trim_start eqf fuel s le re in
  s <= s' /\ s' <= le /\ s' <= re /\ (forall i, s <= i < s' -> eqf i i = true).
Proof.
  induction fuel as [|f IH]; intros s le re Hl Hr; simpl.
  - repeat split; try lia.
  - destruct ((s <? le) && (s <? re) && eqf s s) eqn:C.
    + apply andb_prop in C as [C C3]. apply andb_prop in C as [C1 C2].
      apply Z.ltb_lt in C1. apply Z.ltb_lt in C2.
      destruct (IH (s + 1) le re) as (I1 & I2 & I3 & I4); try lia.
      repeat split; try lia. intros i Hi.
      destruct (Z.eq_dec i s) as [->|]; [exact C3|apply I4; lia].
    + repeat split; try lia.
Qed.

Lemma trim_end_spec fuel : forall s le re le' re',
  s <= le -> s <= re ->
  trim_end eqf fuel s le re = (le', re') ->
  s <= le' /\ s <= re' /\ le' <= le /\ le - le' = re - re' /\
  (forall j, 0 <= j < le - le' -> eqf (le' + j) (re' + j) = true).
Proof.
  induction fuel as [|f IH]; intros s le re le' re' Hl Hr E; simpl in E.
  - inversion E; subst. repeat split; try lia.
  - destruct ((s <? le) && (s <? re) && eqf (le - 1) (re - 1)) eqn:C.
    + apply andb_prop in C as [C C3]. apply andb_prop in C as [C1 C2].
      apply Z.ltb_lt in C1. apply Z.ltb_lt in C2.
      apply IH in E; try lia. destruct E as (I1 & I2 & I3 & I4 & I5).
      repeat split; try lia. intros j Hj.
      destruct (Z.eq_dec j (le - 1 - le')) as [->|]; [|apply I5; lia].
      replace (le' + (le - 1 - le')) with (le - 1) by lia.
      replace (re' + (le - 1 - le')) with (re - 1) by lia. exact C3.
    + inversion E; subst. repeat split; try lia.
Qed.

End Chains.

(* ------------------------------------------------------------------ *)
(** * The greedy (Myers) main loop on the trimmed box                   *)
(* ------------------------------------------------------------------ *)
Section Myers.
Variable eqf : Z -> Z -> bool.
Variables start lmax rmax : Z.
Hypothesis Hlmax : 0 <= lmax.
Hypothesis Hrmax : 0 <= rmax.

Notation seed := [(1, (0, @nil (Z * Z)))].

(* common subsequences of the trimmed box, in absolute indices *)
Definition csT := cs eqf start start (start + lmax) (start + rmax).

(* a history valid strictly below the absolute point (bx, by_) *)
Definition okh (bx by_ : Z) (h : hist) :=
  csT h /\ Forall (fun p => fst p < bx /\ snd p < by_) h.

Definition stopped (x y : Z) :=
  (x <? lmax) && (y <? rmax) && eqf (x + start) (y + start) = false.

Lemma okh_mono bx by_ bx' by' h :
  okh bx by_ h -> bx <= bx' -> by_ <= by' -> okh bx' by' h.
Proof.
  intros [H1 H2] ? ?. split; [assumption|].
  eapply Forall_impl; [|exact H2]. simpl. intros; lia.
Qed.

Lemma snake_spec fuel : forall x y h x' y' h',
  0 <= x -> 0 <= y -> okh (x + start) (y + start) h ->
  snake eqf fuel start lmax rmax x y h = (x', y', h') ->
  okh (x' + start) (y' + start) h' /\ x <= x' /\ y' - x' = y - x /\
  Z.of_nat (length h') = Z.of_nat (length h) + (x' - x) /\
  (lmax - x < Z.of_nat fuel -> stopped x' y').
Proof.
  induction fuel as [|f IH]; intros x y h x' y' h' Hx Hy Hok E; cbn [snake] in E.
  - inversion E; subst. repeat split; try lia; try apply Hok.
    intros Hf. unfold stopped. destruct (Z.ltb_spec x' lmax); [lia|reflexivity].
  - destruct ((x <? lmax) && (y <? rmax) && eqf (x + start) (y + start)) eqn:C.
    + pose proof C as C0.
      apply andb_prop in C as [C C3]. apply andb_prop in C as [C1 C2].
      apply Z.ltb_lt in C1. apply Z.ltb_lt in C2.
      apply IH in E; try lia.
      * destruct E as (E1 & E2 & E3 & E4 & E5).
        rewrite app_length in E4. cbn [length] in E4.
        split; [exact E1|]. repeat split; try lia.
        intros Hf. apply E5. lia.
      * destruct Hok as [[H1 H2] H4]. split; [split|].
        -- apply chain_snoc; [assumption|]. eapply Forall_impl; [|exact H4].
           unfold lt2; simpl; intros; lia.
        -- apply Forall_app; split; [assumption|]. constructor; [|constructor].
           unfold inbox; simpl. repeat split; try lia. exact C3.
        -- apply Forall_app; split.
           ++ eapply Forall_impl; [|exact H4]. simpl; intros; lia.
           ++ constructor; [simpl; lia|constructor].
    + inversion E; subst. repeat split; try lia; try apply Hok.
      intros _. exact C.
Qed.

(* Edit-graph paths: reach d x y  <->  the (relative) point (x,y) is reachable
   from (0,0) by a path with exactly d non-diagonal steps, diagonal steps being
   allowed only on matching pairs. *)
Inductive reach : Z -> Z -> Z -> Prop :=
| reach0 : reach 0 0 0
| reachD d x y : reach d x y -> x < lmax -> y < rmax ->
                 eqf (x + start) (y + start) = true -> reach d (x + 1) (y + 1)
| reachR d x y : reach d x y -> x < lmax -> reach (d + 1) (x + 1) y
| reachB d x y : reach d x y -> y < rmax -> reach (d + 1) x (y + 1).

(* k is one of the diagonals visited in round d: k = -d, -d+2, ..., d *)
Definition diag (d k : Z) := exists i, 0 <= i <= d /\ k = 2 * i - d.

Lemma reach_bounds d x y : reach d x y ->
  0 <= d /\ 0 <= x <= lmax /\ 0 <= y <= rmax /\ diag d (x - y).
Proof.
  unfold diag.
  induction 1 as [|d x y Hr (I1 & I2 & I3 & i & I4 & I5) Hx Hy Hm
                   |d x y Hr (I1 & I2 & I3 & i & I4 & I5) Hx
                   |d x y Hr (I1 & I2 & I3 & i & I4 & I5) Hy].
  - repeat split; try lia. exists 0. lia.
  - repeat split; try lia. exists i. lia.
  - repeat split; try lia. exists (i + 1). lia.
  - repeat split; try lia. exists i. lia.
Qed.

Lemma reach_Rn (n : nat) : forall d x y, reach d x y -> x + Z.of_nat n <= lmax ->
  reach (d + Z.of_nat n) (x + Z.of_nat n) y.
Proof.
  induction n as [|n IH]; intros d x y Hr Hx.
  - cbn [Z.of_nat]. rewrite !Z.add_0_r. exact Hr.
  - replace (d + Z.of_nat (S n)) with (d + Z.of_nat n + 1) by lia.
    replace (x + Z.of_nat (S n)) with (x + Z.of_nat n + 1) by lia.
    apply reachR; [apply IH; [assumption|lia]|lia].
Qed.

Lemma reach_Bn (n : nat) : forall d x y, reach d x y -> y + Z.of_nat n <= rmax ->
  reach (d + Z.of_nat n) x (y + Z.of_nat n).
Proof.
  induction n as [|n IH]; intros d x y Hr Hy.
  - cbn [Z.of_nat]. rewrite !Z.add_0_r. exact Hr.
  - replace (d + Z.of_nat (S n)) with (d + Z.of_nat n + 1) by lia.
    replace (y + Z.of_nat (S n)) with (y + Z.of_nat n + 1) by lia.
    apply reachB; [apply IH; [assumption|lia]|lia].
Qed.

Lemma reach_to d x y x2 y2 : reach d x y -> x <= x2 <= lmax -> y <= y2 <= rmax ->
  reach (d + (x2 - x) + (y2 - y)) x2 y2.
Proof.
  intros Hr Hx Hy.
  pose proof (reach_Rn (Z.to_nat (x2 - x)) d x y Hr) as H1.
  replace (Z.of_nat (Z.to_nat (x2 - x))) with (x2 - x) in H1 by lia.
  replace (x + (x2 - x)) with x2 in H1 by lia.
  pose proof (reach_Bn (Z.to_nat (y2 - y)) _ _ _ (H1 ltac:(lia))) as H2.
  replace (Z.of_nat (Z.to_nat (y2 - y))) with (y2 - y) in H2 by lia.
  replace (y + (y2 - y)) with y2 in H2 by lia.
  apply H2. lia.
Qed.

(* A common subsequence with q pairs yields a path with lmax+rmax-2q
   non-diagonal steps. *)
Lemma reach_of_chain : forall qs d x y, reach d x y ->
  cs eqf (x + start) (y + start) (start + lmax) (start + rmax) qs ->
  reach (d + (lmax - x) + (rmax - y) - 2 * Z.of_nat (length qs)) lmax rmax.
Proof.
  induction qs as [|[a b] qs IH]; intros d x y Hr [C F].
  - cbn [length Z.of_nat]. rewrite Z.mul_0_r, Z.sub_0_r.
    pose proof (reach_bounds _ _ _ Hr). apply reach_to; [assumption|lia..].
  - inversion C as [|? ? C' Hab]; subst. inversion F as [|? ? Fab F']; subst.
    unfold inbox in Fab; cbn [fst snd] in Fab. destruct Fab as (Fa & Fb & Fm).
    pose proof (reach_bounds _ _ _ Hr) as Hb.
    assert (R1 : reach (d + (a - start - x) + (b - start - y)) (a - start) (b - start))
      by (apply reach_to; [assumption|lia..]).
    assert (R2 : reach (d + (a - start - x) + (b - start - y)) (a - start + 1) (b - start + 1)).
    { apply reachD; [exact R1|lia|lia|].
      replace (a - start + start) with a by lia.
      replace (b - start + start) with b by lia. exact Fm. }
    apply IH in R2.
    + replace (d + (lmax - x) + (rmax - y) - 2 * Z.of_nat (length ((a, b) :: qs)))
        with (d + (a - start - x) + (b - start - y) + (lmax - (a - start + 1)) +
              (rmax - (b - start + 1)) - 2 * Z.of_nat (length qs))
        by (cbn [length]; lia).
      exact R2.
    + split; [exact C'|].
      rewrite Forall_forall in *. intros q Hq. specialize (Hab q Hq). specialize (F' q Hq).
      unfold inbox, lt2 in *. cbn [fst snd] in *. intuition lia.
Qed.

(* Property of the entry (x, h) stored for diagonal k in round d *)
Record E (d k x : Z) (h : hist) : Prop := {
  E_x : 0 <= x;
  E_y : 0 <= x - k;
  E_ok : okh (x + start) (x - k + start) h;
  E_len : 2 * Z.of_nat (length h) + d = x + (x - k);
  E_stop : stopped x (x - k);
  E_fr : forall px py, reach d px py -> px - py = k -> px <= x }.

(* Property of the point from which the snake of (d, k) starts *)
Definition pre (d k x : Z) (h : hist) :=
  0 <= x /\ 0 <= x - k /\ okh (x + start) (x - k + start) h /\
  2 * Z.of_nat (length h) + d = x + (x - k) /\
  (forall d0 px py, reach d0 px py -> d0 + 1 = d ->
     (px + 1 - py = k -> px + 1 <= x) /\ (px - (py + 1) = k -> px <= x)).

Definition after_snake (k : Z) (f : fmap) (x0 : Z) (h0 : hist) : res :=
  let '(x', y', h') :=
    snake eqf (Z.to_nat (lmax + rmax + 1)) start lmax rmax x0 (x0 - k) h0 in
  if (lmax <=? x') && (rmax <=? y') then Found h' else Cont ((k, (x', h')) :: f).

Definition ok_res (d k : Z) (f : fmap) (r : res) : Prop :=
  match r with
  | Err => False
  | Found h => exists x, E d k x h /\ lmax <= x /\ rmax <= x - k
  | Cont f' => exists x h, f' = (k, (x, h)) :: f /\ E d k x h /\
                           ~ (lmax <= x /\ rmax <= x - k)
  end.

Lemma after_snake_ok d k f x0 h0 : pre d k x0 h0 -> ok_res d k f (after_snake k f x0 h0).
Proof.
  intros (P1 & P2 & P3 & P4 & P5). unfold after_snake.
  destruct (snake eqf (Z.to_nat (lmax + rmax + 1)) start lmax rmax x0 (x0 - k) h0)
    as [[x' y'] h'] eqn:S.
  apply snake_spec in S; auto. destruct S as (S1 & S2 & S3 & S4 & S5).
  assert (y' = x' - k) by lia. subst y'.
  assert (S5' : stopped x' (x' - k)) by (apply S5; lia).
  assert (HE : E d k x' h').
  { constructor; try lia; auto.
    assert (G : forall d' px py, reach d' px py -> d' = d -> px - py = k -> px <= x').
    { intros d' px py Hr.
      induction Hr as [|d1 px py Hr IH Hx Hy Hm|d1 px py Hr IH Hx|d1 px py Hr IH Hy];
        intros Hd Hk.
      - lia.
      - specialize (IH Hd ltac:(lia)).
        destruct (Z.eq_dec px x') as [->|]; [|lia].
        exfalso. unfold stopped in S5'.
        replace (x' - k) with py in S5' by lia.
        rewrite Hm in S5'.
        apply Z.ltb_lt in Hx, Hy. rewrite Hx, Hy in S5'. discriminate.
      - destruct (P5 d1 px py Hr ltac:(lia)) as [A _]. specialize (A ltac:(lia)). lia.
      - destruct (P5 d1 px py Hr ltac:(lia)) as [_ A]. specialize (A ltac:(lia)). lia. }
    intros px py Hr Hk. eapply G; eauto. }
  destruct ((lmax <=? x') && (rmax <=? x' - k)) eqn:C; cbn [ok_res].
  - apply andb_prop in C as [C1 C2]. apply Z.leb_le in C1, C2. exists x'. auto.
  - exists x', h'. split; [reflexivity|]. split; [exact HE|].
    intros [A B]. apply Z.leb_le in A, B. rewrite A, B in C. discriminate.
Qed.

Lemma kstep_unfold d k f :
  kstep eqf start lmax rmax d k f =
  let down := (k =? - d) ||
              (negb (k =? d) &&
               match flook f (k - 1), flook f (k + 1) with
               | Some (a, _), Some (b, _) => a <? b
               | _, _ => false
               end) in
  match (if down then flook f (k + 1) else flook f (k - 1)) with
  | None => Err
  | Some (oldx, h) => after_snake k f (if down then oldx else oldx + 1) h
  end.
Proof. reflexivity. Qed.

(* state after a completed round d *)
Definition After (d : Z) (f : fmap) :=
  forall k, diag d k ->
    exists x h, flook f k = Some (x, h) /\ E d k x h /\ ~ (lmax <= x /\ rmax <= x - k).

Definition Final (d : Z) (h : hist) :=
  exists k x, diag d k /\ E d k x h /\ lmax <= x /\ rmax <= x - k.

Lemma pre_down d k b hb :
  E (d - 1) (k + 1) b hb ->
  (forall px py, reach (d - 1) px py -> px - py = k - 1 -> px < b) ->
  pre d k b hb.
Proof.
  intros [B1 B2 B3 B4 B5 B6] Hlow.
  split; [lia|]. split; [lia|]. split; [eapply okh_mono; [exact B3|lia..]|].
  split; [lia|]. intros d0 px py Hr Hd. assert (d0 = d - 1) by lia. subst d0. split; intros Hk.
  - specialize (Hlow px py Hr ltac:(lia)). lia.
  - apply (B6 px py Hr). lia.
Qed.

Lemma pre_right d k a ha :
  E (d - 1) (k - 1) a ha ->
  (forall px py, reach (d - 1) px py -> px - py = k + 1 -> px <= a + 1) ->
  pre d k (a + 1) ha.
Proof.
  intros [B1 B2 B3 B4 B5 B6] Hup.
  split; [lia|]. split; [lia|]. split; [eapply okh_mono; [exact B3|lia..]|].
  split; [lia|]. intros d0 px py Hr Hd. assert (d0 = d - 1) by lia. subst d0. split; intros Hk.
  - specialize (B6 px py Hr ltac:(lia)). lia.
  - apply (Hup px py Hr). lia.
Qed.

Lemma kstep_ok d k f : 1 <= d -> diag d k -> After (d - 1) f ->
  ok_res d k f (kstep eqf start lmax rmax d k f).
Proof.
  intros Hd (i & Hi & Hk) HA. rewrite kstep_unfold. cbv zeta.
  destruct (Z.eq_dec k (- d)) as [Ekd|Nkd]; [|destruct (Z.eq_dec k d) as [Ekd|Nkd']].
  - (* lowest diagonal: down *)
    assert (E1 : (k =? - d) = true) by (apply Z.eqb_eq; lia). rewrite E1. cbn [orb].
    destruct (HA (k + 1)) as (b & hb & Fb & Eb & _); [exists 0; lia|]. rewrite Fb.
    apply after_snake_ok. apply pre_down; [exact Eb|].
    intros px py Hr Hq. apply reach_bounds in Hr as (_ & _ & _ & j & Hj1 & Hj2). lia.
  - (* highest diagonal: right *)
    assert (E1 : (k =? - d) = false) by (apply Z.eqb_neq; lia).
    assert (E2 : (k =? d) = true) by (apply Z.eqb_eq; lia). rewrite E1, E2. cbn [orb negb andb].
    destruct (HA (k - 1)) as (a & ha & Fa & Ea & _); [exists (d - 1); lia|]. rewrite Fa.
    apply after_snake_ok. apply pre_right; [exact Ea|].
    intros px py Hr Hq. apply reach_bounds in Hr as (_ & _ & _ & j & Hj1 & Hj2). lia.
  - assert (E1 : (k =? - d) = false) by (apply Z.eqb_neq; lia).
    assert (E2 : (k =? d) = false) by (apply Z.eqb_neq; lia). rewrite E1, E2. cbn [orb negb andb].
    destruct (HA (k - 1)) as (a & ha & Fa & Ea & _); [exists (i - 1); lia|].
    destruct (HA (k + 1)) as (b & hb & Fb & Eb & _); [exists i; lia|].
    rewrite Fa, Fb. destruct (Z.ltb_spec a b) as [Hab|Hab].
    + apply after_snake_ok. apply pre_down; [exact Eb|].
      intros px py Hr Hq. pose proof (E_fr _ _ _ _ Ea px py Hr Hq). lia.
    + apply after_snake_ok. apply pre_right; [exact Ea|].
      intros px py Hr Hq. pose proof (E_fr _ _ _ _ Eb px py Hr Hq). lia.
Qed.

Lemma kloop_ok d : 1 <= d -> forall ks f,
  (forall k, In k ks -> diag d k) -> NoDup ks -> After (d - 1) f ->
  match kloop eqf ks start lmax rmax d f with
  | Err => False
  | Found h => Final d h
  | Cont f' =>
      (forall k', ~ In k' ks -> flook f' k' = flook f k') /\
      (forall k, In k ks -> exists x h, flook f' k = Some (x, h) /\ E d k x h /\
                                        ~ (lmax <= x /\ rmax <= x - k))
  end.
Proof.
  intros Hd. induction ks as [|k r IH]; intros f Hks Hnd HA; cbn [kloop].
  - split; [reflexivity|intros k []].
  - pose proof (kstep_ok d k f Hd (Hks k (or_introl eq_refl)) HA) as HK.
    inversion Hnd as [|? ? Hnin Hnd']; subst.
    destruct (kstep eqf start lmax rmax d k f) as [h|f1|]; cbn [ok_res] in HK.
    + destruct HK as (x & HE & H1 & H2). exists k, x. split; [apply Hks; left; reflexivity|auto].
    + destruct HK as (x & h & -> & HE & Hnf).
      assert (HA1 : After (d - 1) ((k, (x, h)) :: f)).
      { intros k' Hk'. cbn [flook]. destruct (Z.eqb_spec k' k) as [->|_]; [|apply HA; exact Hk'].
        exfalso. destruct Hk' as (i & Hi & Hik).
        destruct (Hks k (or_introl eq_refl)) as (j & Hj & Hjk). lia. }
      specialize (IH _ (fun k0 H0 => Hks k0 (or_intror H0)) Hnd' HA1).
      destruct (kloop eqf r start lmax rmax d ((k, (x, h)) :: f)) as [h'|f'|]; auto.
      destruct IH as [I1 I2]. split.
      * intros k' Hn. rewrite I1 by (intro; apply Hn; right; assumption).
        cbn [flook]. destruct (Z.eqb_spec k' k) as [->|_]; [|reflexivity].
        exfalso. apply Hn. left; reflexivity.
      * intros k0 [<-|Hin]; [|apply I2; exact Hin].
        rewrite I1 by exact Hnin. cbn [flook]. rewrite Z.eqb_refl. exists x, h. auto.
    + exact HK.
Qed.

Lemma kvals_In d k : 0 <= d -> In k (kvals d) <-> diag d k.
Proof.
  intros Hd. unfold kvals, diag. rewrite in_map_iff. split.
  - intros (i & <- & Hin). apply zrange_In in Hin. exists i. lia.
  - intros (i & Hi & ->). exists i. split; [lia|]. apply zrange_In. lia.
Qed.

Lemma kvals_NoDup d : NoDup (kvals d).
Proof.
  unfold kvals. apply Injective_map_NoDup; [|apply zrange_NoDup].
  intros x y H. lia.
Qed.

Definition ok_round (d : Z) (r : res) : Prop :=
  match r with Err => False | Found h => Final d h | Cont f' => After d f' end.

Definition Start (d : Z) (f : fmap) := (d = 0 /\ f = seed) \/ (1 <= d /\ After (d - 1) f).

Lemma round0_ok : ok_round 0 (kloop eqf (kvals 0) start lmax rmax 0 seed).
Proof.
  change (kvals 0) with [0]. cbn [kloop].
  assert (K : kstep eqf start lmax rmax 0 0 seed = after_snake 0 seed 0 []) by reflexivity.
  rewrite K.
  assert (P : pre 0 0 0 []).
  { split; [lia|]. split; [lia|]. split; [split; [apply cs_nil|constructor]|].
    split; [cbn [length]; lia|].
    intros d0 px py Hr Hd. apply reach_bounds in Hr. lia. }
  pose proof (after_snake_ok 0 0 seed 0 [] P) as HK.
  destruct (after_snake 0 seed 0 []) as [h|f1|]; cbn [ok_res ok_round] in *.
  - destruct HK as (x & HE & H1 & H2). exists 0, x. split; [exists 0; lia|auto].
  - destruct HK as (x & h & -> & HE & Hnf). intros k (i & Hi & Hk).
    assert (i = 0) by lia. subst i k. exists x, h. split; [reflexivity|auto].
  - exact HK.
Qed.

Lemma round_ok d f : Start d f -> ok_round d (kloop eqf (kvals d) start lmax rmax d f).
Proof.
  intros [[-> ->]|[Hd HA]]; [apply round0_ok|].
  pose proof (kloop_ok d Hd (kvals d) f
                (fun k H => proj1 (kvals_In d k ltac:(lia)) H) (kvals_NoDup d) HA) as H.
  destruct (kloop eqf (kvals d) start lmax rmax d f) as [h|f'|]; cbn [ok_round]; auto.
  destruct H as [_ H]. intros k Hk. apply H. apply kvals_In; [lia|exact Hk].
Qed.

Lemma After_noreach d f : After d f -> ~ reach d lmax rmax.
Proof.
  intros HA Hr. pose proof (reach_bounds _ _ _ Hr) as (_ & _ & _ & Hdg).
  destruct (HA _ Hdg) as (x & h & _ & HE & Hnf).
  pose proof (E_fr _ _ _ _ HE _ _ Hr eq_refl). lia.
Qed.

Lemma After_last f : ~ After (lmax + rmax) f.
Proof.
  intros HA. destruct (HA (lmax - rmax)) as (x & h & _ & HE & Hnf); [exists lmax; lia|].
  pose proof (E_len _ _ _ _ HE). lia.
Qed.

Lemma dloop_ok : forall fuel d f,
  0 <= d -> Start d f -> Z.of_nat fuel + d = lmax + rmax + 1 ->
  (forall d', d' < d -> ~ reach d' lmax rmax) ->
  exists h dF, dloop eqf fuel start lmax rmax d f = Some h /\ Final dF h /\
               (forall d', d' < dF -> ~ reach d' lmax rmax).
Proof.
  induction fuel as [|fu IH]; intros d f Hd HS Hf Hnr.
  - exfalso. destruct HS as [[-> _]|[_ HA]]; [lia|].
    replace (d - 1) with (lmax + rmax) in HA by lia. exact (After_last _ HA).
  - cbn [dloop]. pose proof (round_ok d f HS) as HR.
    destruct (kloop eqf (kvals d) start lmax rmax d f) as [h|f'|]; cbn [ok_round] in HR.
    + exists h, d. auto.
    + apply IH; [lia| |lia|].
      * right. split; [lia|]. replace (d + 1 - 1) with d by lia. exact HR.
      * intros d' Hd'. destruct (Z.eq_dec d' d) as [->|]; [|apply Hnr; lia].
        eapply After_noreach; eauto.
    + contradiction.
Qed.

Theorem myers_main :
  exists h, dloop eqf (Z.to_nat (lmax + rmax + 1)) start lmax rmax 0 seed = Some h /\
            csT h /\ forall qs, csT qs -> (length qs <= length h)%nat.
Proof.
  destruct (dloop_ok (Z.to_nat (lmax + rmax + 1)) 0 seed) as (h & dF & Hdl & HF & Hnr);
    [lia|left; auto|lia| |].
  { intros d' Hd' Hr. apply reach_bounds in Hr. lia. }
  exists h. split; [exact Hdl|]. destruct HF as (k & x & Hdg & HE & Hx & Hy).
  split; [apply (E_ok _ _ _ _ HE)|].
  intros qs Hqs.
  assert (Hr : reach (0 + (lmax - 0) + (rmax - 0) - 2 * Z.of_nat (length qs)) lmax rmax).
  { apply reach_of_chain; [constructor|]. eapply cs_weaken; [exact Hqs|lia..]. }
  pose proof (E_len _ _ _ _ HE) as HL.
  destruct (Z_lt_le_dec (0 + (lmax - 0) + (rmax - 0) - 2 * Z.of_nat (length qs)) dF) as [Hlt|Hge].
  - exfalso. exact (Hnr _ Hlt Hr).
  - lia.
Qed.

End Myers.

(* ------------------------------------------------------------------ *)
(** * The complete function                                             *)
(* ------------------------------------------------------------------ *)
Section Top.
Variable eqf : Z -> Z -> bool.

Lemma common_subseq_cs n m qs : common_subseq eqf n m qs <-> cs eqf 0 0 n m qs.
Proof. reflexivity. Qed.

Theorem lcs_spec n m : 0 <= n -> 0 <= m ->
  exists ps, lcs eqf n m = Some ps /\ cs eqf 0 0 n m ps /\
             forall qs, cs eqf 0 0 n m qs -> (length qs <= length ps)%nat.
Proof.
  intros Hn Hm. unfold lcs. cbv zeta.
  set (N0 := Z.to_nat (Z.min n m + 1)).
  pose proof (trim_start_spec eqf N0 0 n m Hn Hm) as TS. cbv zeta in TS.
  set (start := trim_start eqf N0 0 n m) in *.
  destruct TS as (S1 & S2 & S3 & S4).
  destruct (trim_end eqf N0 start n m) as [lend rend] eqn:TE.
  apply trim_end_spec in TE; [|lia..]. destruct TE as (T1 & T2 & T3 & T4 & T5).
  (* prefix and suffix produced by trimming *)
  assert (Hpre : cs eqf 0 0 start start (map (fun e : Z => (e, e)) (zrange (Z.to_nat start) 0))).
  { rewrite map_diag_combine.
    eapply cs_weaken; [apply cs_combine_zrange|lia..].
    intros j Hj. change (0 + j) with j. apply S4. lia. }
  assert (Hsuf : cs eqf lend rend n m
                    (combine (zrange (Z.to_nat (n - lend)) lend) (zrange (Z.to_nat (m - rend)) rend))).
  { replace (m - rend) with (n - lend) by lia.
    eapply cs_weaken; [apply cs_combine_zrange|lia..].
    intros j Hj. apply T5. lia. }
  (* any common subsequence is bounded through the trimmed box *)
  assert (Hmax : forall h : hist,
            (forall qs, cs eqf start start lend rend qs -> (length qs <= length h)%nat) ->
            forall qs, cs eqf 0 0 n m qs ->
              (length qs <= Z.to_nat start + length h + Z.to_nat (n - lend))%nat).
  { intros h Hh qs Hqs.
    destruct (cs_drop_front eqf (Z.to_nat start) _ _ _ _ _ Hqs) as (q1 & Hq1 & L1).
    destruct (cs_drop_back eqf (Z.to_nat (n - lend)) _ _ _ _ _ Hq1) as (q2 & Hq2 & L2).
    assert (Hq2' : cs eqf start start lend rend q2) by (eapply cs_weaken; [exact Hq2|lia..]).
    specialize (Hh _ Hq2'). lia. }
  destruct (Z.eqb_spec (lend - start + (rend - start)) 0) as [Hz|Hnz].
  - (* everything was trimmed *)
    assert (lend = start) by lia. assert (rend = start) by lia. assert (m = n) by lia. subst lend rend m.
    eexists. split; [reflexivity|]. split.
    + rewrite map_diag_combine.
      eapply cs_weaken; [apply cs_combine_zrange|lia..].
      intros j Hj. change (0 + j) with j.
      destruct (Z_lt_le_dec j start) as [Hlt|Hge]; [apply S4; lia|].
      specialize (T5 (j - start) ltac:(lia)).
      replace (start + (j - start)) with j in T5 by lia. exact T5.
    + intros qs Hqs. specialize (Hmax [] ).
      rewrite map_length, zrange_length.
      assert (Hnil : forall qs, cs eqf start start start start qs -> (length qs <= length (@nil (Z*Z)))%nat).
      { intros q Hq. apply cs_empty_box in Hq; [subst; simpl; lia|lia]. }
      specialize (Hmax Hnil qs Hqs). cbn [length] in Hmax. lia.
  - assert (Hl : 0 <= lend - start) by lia. assert (Hr : 0 <= rend - start) by lia.
    destruct (myers_main eqf start (lend - start) (rend - start) Hl Hr) as (h & Hd & Hcs & Hopt).
    rewrite Hd. eexists. split; [reflexivity|].
    unfold csT in Hcs, Hopt.
    replace (start + (lend - start)) with lend in * by lia.
    replace (start + (rend - start)) with rend in * by lia.
    split.
    + eapply cs_app; [exact Hpre| |lia..].
      eapply cs_app; [exact Hcs|exact Hsuf|lia..].
    + intros qs Hqs. specialize (Hmax h Hopt qs Hqs).
      rewrite !app_length, map_length, zrange_length.
      replace (m - rend) with (n - lend) by lia. rewrite combine_zrange_length. lia.
Qed.

Theorem lcs_total n m : 0 <= n -> 0 <= m -> exists ps, lcs eqf n m = Some ps.
Proof. intros Hn Hm. destruct (lcs_spec n m Hn Hm) as (ps & H & _). eauto. Qed.

Theorem lcs_valid n m ps : 0 <= n -> 0 <= m -> lcs eqf n m = Some ps -> common_subseq eqf n m ps.
Proof.
  intros Hn Hm H. destruct (lcs_spec n m Hn Hm) as (ps' & H' & Hv & _).
  rewrite H in H'. inversion H'; subst. exact Hv.
Qed.

Theorem lcs_maximal n m ps qs : 0 <= n -> 0 <= m -> lcs eqf n m = Some ps ->
  common_subseq eqf n m qs -> (length qs <= length ps)%nat.
Proof.
  intros Hn Hm H Hqs. destruct (lcs_spec n m Hn Hm) as (ps' & H' & _ & Hmx).
  rewrite H in H'. inversion H'; subst. apply Hmx. exact Hqs.
Qed.

End Top.

(* ------------------------------------------------------------------ *)
(** * List-level corollaries for [lcs_seq]                              *)
(* ------------------------------------------------------------------ *)
Section Seq.
Context {A B : Type}.
Variable eqfn : A -> B -> bool.
Variable xs : list A.
Variable ys : list B.

(* the pair of indices p designates elements of xs and ys related by eqfn *)
Definition matching_pair (p : Z * Z) : Prop :=
  0 <= fst p /\ 0 <= snd p /\
  exists a b, nth_error xs (Z.to_nat (fst p)) = Some a /\
              nth_error ys (Z.to_nat (snd p)) = Some b /\ eqfn a b = true.

(* ps is (the index list of) a common subsequence of xs and ys w.r.t. eqfn *)
Definition seq_common_subseq (ps : list (Z * Z)) : Prop :=
  StronglySorted lt2 ps /\ Forall matching_pair ps.

Definition seq_eqf : Z -> Z -> bool :=
  fun i j => match nth_error xs (Z.to_nat i), nth_error ys (Z.to_nat j) with
             | Some a, Some b => eqfn a b
             | _, _ => false
             end.

Lemma seq_common_subseq_iff ps :
  seq_common_subseq ps <->
  common_subseq seq_eqf (Z.of_nat (length xs)) (Z.of_nat (length ys)) ps.
Proof.
  split; intros [C F]; (split; [exact C|]); (eapply Forall_impl; [|exact F]); intros p.
  - intros (H1 & H2 & a & b & Ha & Hb & Hab).
    assert (Z.to_nat (fst p) < length xs)%nat by (apply nth_error_Some; rewrite Ha; discriminate).
    assert (Z.to_nat (snd p) < length ys)%nat by (apply nth_error_Some; rewrite Hb; discriminate).
    split; [lia|]. split; [lia|]. unfold seq_eqf. rewrite Ha, Hb. exact Hab.
  - intros (H1 & H2 & H3). unfold seq_eqf in H3.
    destruct (nth_error xs (Z.to_nat (fst p))) as [a|] eqn:Ha; [|discriminate].
    destruct (nth_error ys (Z.to_nat (snd p))) as [b|] eqn:Hb; [|discriminate].
    split; [lia|]. split; [lia|]. exists a, b. auto.
Qed.

Theorem lcs_seq_total : exists ps, lcs_seq eqfn xs ys = Some ps.
Proof. apply (lcs_total seq_eqf); lia. Qed.

Theorem lcs_seq_valid ps : lcs_seq eqfn xs ys = Some ps -> seq_common_subseq ps.
Proof.
  intros H. apply seq_common_subseq_iff. apply (lcs_valid seq_eqf); [lia|lia|exact H].
Qed.

Theorem lcs_seq_maximal ps qs :
  lcs_seq eqfn xs ys = Some ps -> seq_common_subseq qs -> (length qs <= length ps)%nat.
Proof.
  intros H Hq. apply seq_common_subseq_iff in Hq.
  eapply (lcs_maximal seq_eqf); [| |exact H|exact Hq]; lia.
Qed.

End Seq.
