(* json.dumps (ensure_ascii) on str/None/int and json.loads restricted to what
   DiffParser can meet.  Model only -- no proofs in this file. *)
From Coq Require Import List NArith ZArith Bool.
Import ListNotations.
Require Import XV.Str.
Local Open Scope N_scope.

Definition hexd (d : N) : N := if d <? 10 then 48 + d else 87 + d.   (* lowercase *)
Definition hex4 (n : N) : str :=
  [hexd ((n / 4096) mod 16); hexd ((n / 256) mod 16); hexd ((n / 16) mod 16); hexd (n mod 16)].
Definition uesc (n : N) : str := 92 :: 117 :: hex4 n.

(* one character of ESCAPE_ASCII / c_encode_basestring_ascii *)
Definition esc_char (c : N) : str :=
  if c =? 34 then [92; 34]
  else if c =? 92 then [92; 92]
  else if c =? 10 then [92; 110]
  else if c =? 13 then [92; 114]
  else if c =? 9 then [92; 116]
  else if c =? 8 then [92; 98]
  else if c =? 12 then [92; 102]
  else if (32 <=? c) && (c <=? 126) then [c]
  else if c <? 65536 then uesc c
  else let v := c - 65536 in uesc (55296 + v / 1024) ++ uesc (56320 + v mod 1024).

Definition dumps_str (s : str) : str := 34 :: flat_map esc_char s ++ [34].

Inductive pyval := PStr (s : str) | PNone | PInt (z : Z).

Definition j_null : str := [110; 117; 108; 108].
Definition dumps (v : pyval) : str :=
  match v with
  | PStr s => dumps_str s
  | PNone => j_null
  | PInt z => str_of_Z z
  end.

(* ---- loads ---- *)
Definition hexval (c : N) : option N :=
  if (48 <=? c) && (c <=? 57) then Some (c - 48)
  else if (97 <=? c) && (c <=? 102) then Some (c - 87)
  else if (65 <=? c) && (c <=? 70) then Some (c - 55)
  else None.
Definition hex4val (a b c d : N) : option N :=
  match hexval a, hexval b, hexval c, hexval d with
  | Some x, Some y, Some z, Some w => Some (x * 4096 + y * 256 + z * 16 + w)
  | _, _, _, _ => None
  end.
Definition simple_esc (c : N) : option N :=
  if c =? 34 then Some 34 else if c =? 92 then Some 92 else if c =? 47 then Some 47
  else if c =? 98 then Some 8 else if c =? 102 then Some 12 else if c =? 110 then Some 10
  else if c =? 114 then Some 13 else if c =? 116 then Some 9 else None.

(* scanstring (strict): s is the text after the opening quote; acc is the decoded
   prefix, reversed.  Result: decoded string and the text after the closing quote. *)
Fixpoint scanstring (acc : str) (s : str) : option (str * str) :=
  match s with
  | [] => None                                   (* unterminated *)
  | c :: r =>
      if c =? 34 then Some (rev acc, r)
      else if c <? 32 then None                  (* invalid control character *)
      else if c =? 92 then
        match r with
        | [] => None
        | e :: r1 =>
            if e =? 117 then
              match r1 with
              | h1 :: h2 :: h3 :: h4 :: r2 =>
                  match hex4val h1 h2 h3 h4 with
                  | None => None
                  | Some u =>
                      if (55296 <=? u) && (u <=? 56319) then
                        match r2 with
                        | b :: u' :: g1 :: g2 :: g3 :: g4 :: r3 =>
                            if (b =? 92) && (u' =? 117) then
                              match hex4val g1 g2 g3 g4 with
                              | None => None
                              | Some u2 =>
                                  if (56320 <=? u2) && (u2 <=? 57343)
                                  then scanstring (65536 + (u - 55296) * 1024 + (u2 - 56320) :: acc) r3
                                  else scanstring (u :: acc) r2
                              end
                            else scanstring (u :: acc) r2
                        | _ => scanstring (u :: acc) r2
                        end
                      else scanstring (u :: acc) r2
                  end
              | _ => None
              end
            else match simple_esc e with
                 | Some d => scanstring (d :: acc) r1
                 | None => None
                 end
        end
      else scanstring (c :: acc) r
  end.

Definition is_json_ws (c : N) : bool := (c =? 32) || (c =? 9) || (c =? 10) || (c =? 13).
Fixpoint skip_ws (s : str) : str :=
  match s with c :: r => if is_json_ws c then skip_ws r else s | [] => [] end.

(* JOther: a JSON value that is neither a string nor null, or input on which
   this model does not claim to know CPython's answer (numbers, arrays, ...). *)
Inductive jres := JVal (v : pyval) | JOther | JErr.

Definition loads (s0 : str) : jres :=
  match skip_ws s0 with
  | [] => JErr
  | c :: r =>
      if c =? 34 then
        match scanstring [] r with
        | Some (v, rest) => match skip_ws rest with [] => JVal (PStr v) | _ => JErr end
        | None => JErr
        end
      else if c =? 110 then
        match r with
        | a :: b :: d :: rest =>
            if (a =? 117) && (b =? 108) && (d =? 108)
            then match skip_ws rest with [] => JVal PNone | _ => JErr end
            else JErr
        | _ => JErr
        end
      else JOther
  end.
