(* XmlFmtProofsC -- C08, "completes": under the hypotheses of the accept refinement every handler
   returns (no ValueError from _xpath, no KeyError from the attribute handlers, no failed assert); the text
   diff itself returns (DMPBisect5.bisect_safe_holds, DMPTotalSem.cleanupSemantic_total, DMPRealign.join_total,
   through XmlFmtProofsR2.make_diff_tags_gen).  text_tags = [], with or without use_replace.
   No axioms. *)
From Coq Require Import List NArith ZArith Bool Arith Lia.
Import ListNotations.
Require Import XV.Str XV.Json XV.TextFormat XV.Forest XV.Matcher XV.Differ XV.Spec XV.Path XV.WF XV.ForestProofs XV.TreeProofs
               XV.AttrProofs XV.PathProofs XV.PatcherProofs XV.Render XV.XmlFmt XV.Projections
               XV.XmlFmtProofs0 XV.XmlFmtProofs1 XV.XmlFmtProofs2 XV.XmlFmtProofsR2 XV.XmlFmtProofs3 XV.XmlFmtProofs4 XV.XmlFmtProofs5
               XV.XmlFmtProofs6 XV.XmlFmtProofs7 XV.XmlFmtProofs8 XV.XmlFmtProofs9 XV.XmlFmtProofsB.
Require XV.Placeholder XV.PlaceholderUndo.
Require XV.DMP XV.DMPBase XV.DMPMain XV.DMPSemantic XV.DMPTotal XV.DMPTotalMain XV.DMPTotalSem.
Local Open Scope nat_scope.

Lemma of_dmp_total {A} (r : DMP.result A) : DMPTotal.total r -> exists a, r = DMP.Ok a /\ of_dmp r = FOk a.
Proof. intros [a ->]. exists a. auto. Qed.

Theorem make_diff_tags_total c o s left right in_tail :
  tinv s -> plain left -> plain right ->
  (c_replace c = true -> (Placeholder.ctr s + N.of_nat (length (norm_if c right)) <= Placeholder.PUA_END)%N) ->
  exists r, make_diff_tags c o s left right in_tail = FOk r.
Proof.
  intros H Hl Hr Hroom. destruct (make_diff_tags_gen c o s left right in_tail H Hl Hr Hroom) as (s' & ps & E & _). eauto.
Qed.

Section Progress.
Variable c : cfg.
Variable o : oracle.
Variable rootns : list (option str * str).
Variable pe : penv.
Variable root : id.
Let ws := ws_text c.

Lemma upd_node_ok st p n h n' : node_at (fs_tree st) p = FOk n -> h n = FOk n' ->
  exists st', upd_node st p h = FOk st'.
Proof. intros E1 E2. unfold upd_node. rewrite E1. cbn [fbind]. rewrite E2. cbn [fbind]. eauto. Qed.

(* every handler returns *)
Theorem progress_step f st d a f' D :
  ainv c rootns pe root f st d -> tinv (fs_ph st) ->
  spec_apply root f a = Some f' -> dact_of pe root f a = FOk D -> step_ok rootns st D -> room_ok c st D ->
  exists st', handle_d c o rootns st D = FOk st'.
Proof.
  intros HI Hph Hs HD Hok Hroom.
  destruct a; cbn [dact_of] in HD; inversion HD; subst D; clear HD; cbn [spec_apply handle_d room_ok] in *.
  - (* Insert *)
    destruct (alive f root target && is_elem f target && Nat.leb pos (length (kidsof f target)) && Nat.eqb newid (fnext f)) eqn:C; [|discriminate].
    apply and4 in C as (C1 & _). destruct (resolve_node c rootns pe root f st d target HI C1) as (q & kn & Er & HL & HG & Hk).
    unfold handle_InsertNode, gpath. rewrite Er. cbn [fbind].
    eapply upd_node_ok; [apply (node_at_dt c rootns pe root f st d q kn HI HG)|reflexivity].
  - (* Move *)
    destruct (alive f root n && negb (Nat.eqb n root) && alive f root target && is_elem f target
              && negb (Forest.mem target (subtree (S (fnext f)) f n)) && Nat.leb pos (length (remove_id n (kidsof f target)))) eqn:C; [|discriminate].
    destruct (exists_move_result c o rootns pe root f st d n target pos HI C) as [st' E]. exists st'. exact E.
  - (* Delete *)
    destruct (alive f root n && negb (Nat.eqb n root) && match kidsof f n with [] => true | _ => false end) eqn:C; [|discriminate].
    apply and3 in C as (C1 & _). destruct (resolve_node c rootns pe root f st d n HI C1) as (q & kn & Er & HL & HG & Hk).
    unfold handle_DeleteNode, gpath. rewrite Er. cbn [fbind].
    eapply upd_node_ok; [apply (node_at_dt c rootns pe root f st d q kn HI HG)|reflexivity].
  - (* Rename *)
    destruct (alive f root n && is_elem f n) eqn:C; [|discriminate]. apply andb_true_iff in C as [C1 _].
    destruct (resolve_node c rootns pe root f st d n HI C1) as (q & kn & Er & HL & HG & Hk).
    unfold handle_RenameNode, gpath. rewrite Er. cbn [fbind].
    eapply upd_node_ok; [apply (node_at_dt c rootns pe root f st d q kn HI HG)|reflexivity].
  - (* Text *)
    destruct (alive f root n) eqn:C1; [|discriminate]. destruct Hok as [Htxt Hold].
    destruct (resolve_node c rootns pe root f st d n HI C1) as (q & kn & Er & HL & HG & Hk).
    unfold handle_UpdateTextIn, gpath. rewrite Er. cbn [fbind].
    rewrite (node_at_dt c rootns pe root f st d q kn HI HG). cbn [fbind].
    assert (Gq : get_at (fs_tree st) q = Some (erase kn)) by (rewrite <- (ai_erase _ _ _ _ _ _ _ HI), get_at_erase, HG; reflexivity).
    destruct (is_inserted (erase kn)) eqn:Ei; [eauto|].
    destruct (make_diff_tags_total c o (fs_ph st) (otxt (xtext (erase kn))) (otxt t) false Hph (Hold q (erase kn) Er Gq Ei) Htxt Hroom) as ([[s' out] any] & ->).
    cbn [fbind]. eauto.
  - (* Tail *)
    destruct (alive f root n && negb (Nat.eqb n root)) eqn:C; [|discriminate]. apply andb_true_iff in C as [C1 _].
    destruct Hok as [Htxt Hold].
    destruct (resolve_node c rootns pe root f st d n HI C1) as (q & kn & Er & HL & HG & Hk).
    unfold handle_UpdateTextAfter, gpath. rewrite Er. cbn [fbind].
    rewrite (node_at_dt c rootns pe root f st d q kn HI HG). cbn [fbind].
    assert (Gq : get_at (fs_tree st) q = Some (erase kn)) by (rewrite <- (ai_erase _ _ _ _ _ _ _ HI), get_at_erase, HG; reflexivity).
    destruct (Hold q (erase kn) Er Gq) as [Hq Hpl].
    destruct q as [|i q]; [congruence|].
    destruct (make_diff_tags_total c o (fs_ph st) (xtail (erase kn)) (otxt t) true Hph Hpl Htxt Hroom) as ([[s' out] any] & ->).
    cbn [fbind]. eauto.
  - (* UpdAttr *)
    destruct (alive f root n && is_elem f n && ahas (lattrs (labof f n)) k) eqn:C; [|discriminate].
    apply and3 in C as (C1 & C2 & C3).
    destruct (resolve_node c rootns pe root f st d n HI C1) as (q & kn & Er & HL & HG & Hk).
    unfold handle_UpdateAttrib, gpath. rewrite Er. cbn [fbind].
    destruct kn as [n0 node kids]. cbn [did] in Hk. subst n0.
    pose proof (lab_of_rel c f n node kids (rel_get ws f q d _ (ai_rel _ _ _ _ _ _ _ HI) HL HG)) as HLab.
    pose proof (aget_plain_some c f n node k HLab Hok) as Eh. unfold labof in C3. rewrite C3 in Eh. unfold ahas in Eh.
    destruct node as [a1 a2 a3 a4 a5]. cbn [xattrs] in Eh. destruct (aget a2 k) as [old|] eqn:Eg; [|discriminate].
    eapply upd_node_ok; [apply (node_at_dt c rootns pe root f st d q _ HI HG)|].
    unfold h_UpdateAttrib. rewrite erase_node. cbn [with_kids xattrs]. rewrite Eg. reflexivity.
  - (* InsAttr *)
    destruct (alive f root n && is_elem f n && negb (ahas (lattrs (labof f n)) k)) eqn:C; [|discriminate].
    apply and3 in C as (C1 & _).
    destruct (resolve_node c rootns pe root f st d n HI C1) as (q & kn & Er & HL & HG & Hk).
    unfold handle_InsertAttrib, gpath. rewrite Er. cbn [fbind].
    eapply upd_node_ok; [apply (node_at_dt c rootns pe root f st d q kn HI HG)|reflexivity].
  - (* DelAttr *)
    destruct (alive f root n && is_elem f n && ahas (lattrs (labof f n)) k) eqn:C; [|discriminate].
    apply and3 in C as (C1 & C2 & C3).
    destruct (resolve_node c rootns pe root f st d n HI C1) as (q & kn & Er & HL & HG & Hk).
    unfold handle_DeleteAttrib, gpath. rewrite Er. cbn [fbind].
    destruct kn as [n0 node kids]. cbn [did] in Hk. subst n0.
    pose proof (lab_of_rel c f n node kids (rel_get ws f q d _ (ai_rel _ _ _ _ _ _ _ HI) HL HG)) as HLab.
    pose proof (aget_plain_some c f n node k HLab Hok) as Eh. unfold labof in C3. rewrite C3 in Eh.
    destruct node as [a1 a2 a3 a4 a5]. cbn [xattrs] in Eh.
    eapply upd_node_ok; [apply (node_at_dt c rootns pe root f st d q _ HI HG)|].
    unfold h_DeleteAttrib. rewrite erase_node. cbn [with_kids xattrs]. rewrite <- Eh. reflexivity.
  - (* RenAttr *)
    destruct (aget (lattrs (labof f n)) k) as [v|] eqn:Ev; [|discriminate].
    destruct (alive f root n && is_elem f n && negb (ahas (lattrs (labof f n)) k')) eqn:C; [|discriminate].
    apply and3 in C as (C1 & _). destruct Hok as [Hk1 Hk2].
    destruct (resolve_node c rootns pe root f st d n HI C1) as (q & kn & Er & HL & HG & Hk).
    unfold handle_RenameAttrib, gpath. rewrite Er. cbn [fbind].
    destruct kn as [n0 node kids]. cbn [did] in Hk. subst n0.
    pose proof (lab_of_rel c f n node kids (rel_get ws f q d _ (ai_rel _ _ _ _ _ _ _ HI) HL HG)) as (M1 & M2 & M3).
    assert (Eg : aget (xattrs node) k = Some v) by (rewrite <- (aget_plain (xattrs node) k Hk1), <- M2; exact Ev).
    destruct node as [a1 a2 a3 a4 a5]. cbn [xattrs] in Eg.
    eapply upd_node_ok; [apply (node_at_dt c rootns pe root f st d q _ HI HG)|].
    unfold h_RenameAttrib. rewrite erase_node. cbn [with_kids xattrs]. rewrite Eg. reflexivity.
  - unfold handle_InsertNamespace. eauto.
  - eauto.
Qed.
End Progress.

(* one step: everything finalize needs is kept *)
Theorem step_invariants S c o rootns st d st' :
  tinv S -> winv S (fs_tree st) -> wclean (fs_tree st) -> tinv (fs_ph st) -> sext (fs_ph st') S ->
  step_ok rootns st d -> room_ok c st d -> act_plain d -> handle_d c o rootns st d = FOk st' ->
  winv S (fs_tree st') /\ wclean (fs_tree st') /\ tinv (fs_ph st') /\ sext (fs_ph st) (fs_ph st').
Proof.
  intros HS HW HC Hph HX Hok Hroom Hpl H.
  destruct (step_reject S HS c o rootns st d st' HW Hph HX Hok Hroom H) as (A & [B1 B2] & _).
  split; [exact A|]. split; [exact (step_clean c o rootns st d st' HC Hok Hpl H)|]. split; assumption.
Qed.

(* ------------------------------------------------------------------ *)
(** * Along a script *)

Definition iact_plain (a : iact) : Prop :=
  match a with
  | IInsert _ tag _ _ | IRename _ tag => plain tag /\ is_diff_name tag = false
  | IInsertComment _ _ _ _ => False           (* XMLFormatter has no handler for it *)
  | IUpdAttr _ k v | IInsAttr _ k v => plain k /\ plain v
  | IDelAttr _ k => plain k
  | IRenAttr _ k k' => plain k /\ plain k'
  | _ => True
  end.

Lemma iact_plain_dact pe root f a : iact_plain a -> exists D, dact_of pe root f a = FOk D /\ act_plain D.
Proof. destruct a; cbn [iact_plain dact_of act_plain]; intros H; try contradiction; eauto. Qed.

Section Total.
Variable c : cfg.
Variable o : oracle.
Variable rootns : list (option str * str).
Variable pe : penv.
Variable root : id.
Let ws := ws_text c.

Theorem total_script script : forall f st d gs fT,
  wf_forest f root -> erase d = fs_tree st -> rel ws f d -> did d = root -> alive_d d = true ->
  wclean (fs_tree st) -> tinv (fs_ph st) ->
  run_spec root f script = Some fT -> render_script pe root f script = Some gs ->
  fscript_ok rootns pe root (fs_ns st) f script -> Forall names_plain script -> Forall iact_plain script ->
  run_ok c o rootns st gs ->
  exists st', handle_all c o rootns st gs = FOk st' /\ wclean (fs_tree st').
Proof.
  induction script as [|a r IH]; intros f st d gs fT Hwf He HR Hid Hal HC Hph Hrun Hren Hok Hnp Hip Hro.
  - cbn [run_spec render_script] in *. inversion Hren as [Egs]. cbn [handle_all]. eauto.
  - cbn [run_spec render_script fscript_ok] in *.
    destruct (spec_apply root f a) as [f1|] eqn:Hspec; [|discriminate].
    destruct (render_script pe root f1 r) as [gs'|] eqn:Hren'; [|discriminate].
    cbn [option_map] in Hren. inversion Hren; subst gs. clear Hren.
    destruct Hok as (Henv & Hnm & Hok). apply Forall_cons_iff in Hnp as [Hnp1 Hnpr]. apply Forall_cons_iff in Hip as [Hip1 Hipr].
    destruct (iact_plain_dact pe root f a Hip1) as (D & ED & HpD).
    cbn [run_ok] in Hro. rewrite decode_render, ED in Hro. destruct Hro as (Hs & Hroom & Hr).
    assert (HI : ainv c rootns pe root f st d) by (constructor; assumption).
    destruct (progress_step c o rootns pe root f st d a f1 D HI Hph Hspec ED Hs Hroom) as [st1 E1].
    destruct (accept_step c o rootns pe root f st d a f1 D st1 HI Hph Hspec ED Hs Hroom E1) as (d1 & He1 & HR1 & Hid1 & Hal1 & _).
    destruct (step_ph c o rootns st D st1 Hph Hs Hroom E1) as (Hph1 & _).
    pose proof (step_clean c o rootns st D st1 HC Hs HpD E1) as HC1.
    destruct (IH f1 st1 d1 gs' fT) as (st' & E' & R2); auto.
    + eapply spec_apply_wf; eauto.
    + rewrite (handle_d_ns c o rootns pe root st a f D st1 ED E1). exact Hok.
    + exists st'. cbn [handle_all]. rewrite handle_action_decode, decode_render, ED. cbn [fbind]. rewrite E1. cbn [fbind]. auto.
Qed.

(* wclean of a document without diff-namespace names and without private-use characters in names / values *)
Definition doc_clean (W : xtree) : Prop := wclean W.

Theorem format_total_clean L script gs fT :
  wf_forest L root -> (forall m, desc L root m -> is_comment (ltag (flab L m)) = false) ->
  let W := remove_comments (doc_tree L root) in
  PlaceholderUndo.npua W = true -> clean_tags W -> nodiff W -> wclean W ->
  run_spec root L script = Some fT -> render_script pe root L script = Some gs ->
  fscript_ok rootns pe root [(Some DIFF_PREFIX, DIFF_NS)] L script ->
  Forall names_plain script -> Forall iact_plain script ->
  run_ok c o rootns (FS W ph_init [(Some DIFF_PREFIX, DIFF_NS)]) gs ->
  exists T, xml_format c o rootns ph_init gs W = FOk T /\ out_clean T = true.
Proof.
  intros Hwf HC W HP HCl HN HWc Hrun Hren Hok Hnp Hip Hro.
  set (d0 := dt_of (S (fnext L)) L root).
  assert (HF : fin L root (S (fnext L))) by (eapply fin_mono; [apply (fin_root L root Hwf)|lia]).
  assert (E0 : erase d0 = W) by (apply (erase_dt_of L _ root HF HC)).
  destruct (rel_init (ws_text c) L _ root HF HC ltac:(fold d0; rewrite E0; exact HN) ltac:(fold d0; rewrite E0; exact HP)) as [HR0 Ha0].
  fold d0 in HR0, Ha0.
  destruct (total_script script L (FS W ph_init [(Some DIFF_PREFIX, DIFF_NS)]) d0 gs fT
              Hwf E0 HR0 eq_refl Ha0 HWc tinv_init Hrun Hren Hok Hnp Hip Hro) as (st' & E & Cn).
  destruct (handle_all_ph c o rootns gs (FS W ph_init [(Some DIFF_PREFIX, DIFF_NS)]) st' tinv_init Hro E) as [HS _].
  set (S := fs_ph st') in *.
  assert (HW : winv S W).
  { split; [apply npua_run_tree, HP|exact HCl| |].
    - unfold W, doc_tree. cbn [to_tree]. rewrite remove_comments_unfold.
      + cbn [xtail]. rewrite (wf_root_tail _ _ Hwf). reflexivity.
      + apply Forall_forall. intros t Ht. apply in_map_iff in Ht as (m & <- & Hm). rewrite to_tree_label. apply HC, desc_child, Hm.
    - pose proof (nodiff_unmarked W HN) as HU. destruct W as [wt wa wx wl wk]. inversion HU as [? ? ? ? ? Hx _ _]; subst.
      unfold is_inserted, ahas. cbn [xattrs]. now rewrite Hx. }
  destruct (handle_all_reject c o rootns S gs HS (FS W ph_init [(Some DIFF_PREFIX, DIFF_NS)]) st' HW tinv_init Hro E (sext_refl _)) as (I & _).
  destruct (finalize_clean S HS (fs_tree st') I Cn) as (T & F & O).
  exists T. unfold xml_format. rewrite E. cbn [fbind]. auto.
Qed.
End Total.
