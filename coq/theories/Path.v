(* The XPath subset that libxml2's xmlGetNodePath / utils.getpath emit and that
   the patcher evaluates: absolute paths of child steps with node tests
   name, prefix:name, *, comment(), each with an optional positional predicate.
   Model only -- no proofs in this file. *)
From Coq Require Import List NArith ZArith Bool Arith.
Import ListNotations.
Require Import XV.Str XV.Forest.
Local Open Scope N_scope.

Inductive ntest := NName (prefix : option str) (local : str) | NStar | NComment.
Record step := Step { st_test : ntest; st_idx : option nat }.   (* 1-based index *)
Definition path := list step.

(* prefix -> URI, as passed in namespaces= *)
Definition nsenv := list (str * str).
Fixpoint env_get (e : nsenv) (p : str) : option str :=
  match e with
  | [] => None
  | (k, v) :: r => if str_eqb k p then Some v else env_get r p
  end.
Definition env_set (e : nsenv) (p u : str) : nsenv := (p, u) :: e.

(* ---- parsing ---- *)
Fixpoint split_on (c : N) (s : str) (cur : str) : list str :=
  match s with
  | [] => [rev cur]
  | x :: r => if x =? c then rev cur :: split_on c r [] else split_on c r (x :: cur)
  end.

Definition s_comment : str := [99;111;109;109;101;110;116;40;41].   (* "comment()" *)

(* name[idx]  ->  (name, Some idx) *)
Definition split_index (s : str) : option (str * option nat) :=
  match split_on 91 s [] with
  | [name] => Some (name, None)
  | [name; rest] =>
      match rev rest with
      | c :: digits_rev =>
          if c =? 93 then
            match nat_of_digits (rev digits_rev) with
            | Some n => Some (name, Some (N.to_nat n))
            | None => None
            end
          else None
      | [] => None
      end
  | _ => None
  end.

Definition parse_test (name : str) : option ntest :=
  if str_eqb name [42] then Some NStar
  else if str_eqb name s_comment then Some NComment
  else match split_on 58 name [] with
       | [l] => match l with [] => None | _ => Some (NName None l) end
       | [p; l] => match p, l with
                   | [], _ | _, [] => None
                   | _, _ => Some (NName (Some p) l)
                   end
       | _ => None
       end.

Definition parse_step (s : str) : option step :=
  match split_index s with
  | Some (name, idx) => match parse_test name with
                        | Some t => Some (Step t idx)
                        | None => None
                        end
  | None => None
  end.

Fixpoint all_some {A} (l : list (option A)) : option (list A) :=
  match l with
  | [] => Some []
  | Some x :: r => option_map (cons x) (all_some r)
  | None :: _ => None
  end.

Definition path_of_str (s : str) : option path :=
  match s with
  | c :: r => if c =? 47 then all_some (map parse_step (split_on 47 r [])) else None
  | [] => None
  end.

(* ---- evaluation ---- *)
Inductive xerr := XUndefinedPrefix | XSyntax.

Definition clark (uri local : str) : str := 123 :: uri ++ 125 :: local.

(* Some true / Some false, or None when the prefix is not bound *)
Definition test_matches (e : nsenv) (t : ntest) (tag : tagt) : option bool :=
  match t, tag with
  | NComment, TComment => Some true
  | NComment, _ => Some false
  | NStar, TElem _ => Some true
  | NStar, _ => Some false
  | NName None l, TElem n => Some (str_eqb n l)
  | NName (Some p) l, tg =>
      match env_get e p with
      | None => None
      | Some u => Some (match tg with TElem n => str_eqb n (clark u l) | TComment => false end)
      end
  | NName None _, TComment => Some false
  end.

Fixpoint filter_test (e : nsenv) (f : forest) (t : ntest) (l : list id) : option (list id) :=
  match l with
  | [] => Some []
  | n :: r =>
      match test_matches e t (ltag (labof f n)), filter_test e f t r with
      | Some b, Some rest => Some (if b then n :: rest else rest)
      | _, _ => None
      end
  end.

Definition select_idx (idx : option nat) (l : list id) : list id :=
  match idx with
  | None => l
  | Some O => []
  | Some (S k) => match nth_error l k with Some x => [x] | None => [] end
  end.

(* one step applied to one context: the matching children, position predicate applied *)
Definition step_from (e : nsenv) (f : forest) (s : step) (pool : list id) : option (list id) :=
  option_map (select_idx (st_idx s)) (filter_test e f (st_test s) pool).

Fixpoint eval_steps (e : nsenv) (f : forest) (p : path) (cands : list id) : option (list id) :=
  match p with
  | [] => Some cands
  | s :: r =>
      match all_some (map (fun c => step_from e f s (kidsof f c)) cands) with
      | Some ls => eval_steps e f r (concat ls)
      | None => None
      end
  end.

(* all nodes selected by an absolute path, in document order; None = undefined prefix.
   The first step is tested against the root element (children of the document node). *)
Definition eval_all (e : nsenv) (f : forest) (root : id) (p : path) : option (list id) :=
  match p with
  | [] => Some []
  | s :: r => match step_from e f s [root] with
              | Some c => eval_steps e f r c
              | None => None
              end
  end.

Definition last_indexed (p : path) : bool :=
  match rev p with s :: _ => match st_idx s with Some _ => true | None => false end | [] => false end.

(* ---- generation: lxml's getpath (libxml2 xmlGetNodePath) + utils.getpath ---- *)
(* penv: namespace URI -> the prefix lxml prints for it; None = the default
   namespace (libxml2 then prints the step as "*").  The model assumes ONE
   prefix per URI in the document (see DESIGN.md, trusted base). *)
Definition penv := str -> option str.

(* "{uri}local" -> (Some uri, local); "local" -> (None, local) *)
Fixpoint split_brace (s acc : str) : option (str * str) :=
  match s with
  | [] => None
  | c :: r => if c =? 125 then Some (rev acc, r) else split_brace r (c :: acc)
  end.
Definition unclark (name : str) : option str * str :=
  match name with
  | c :: r => if c =? 123 then match split_brace r [] with
                               | Some (u, l) => (Some u, l)
                               | None => (None, name)
                               end
              else (None, name)
  | [] => (None, name)
  end.

Definition test_of (pe : penv) (t : tagt) : ntest :=
  match t with
  | TComment => NComment
  | TElem name =>
      match unclark name with
      | (None, l) => NName None l
      | (Some u, l) => match pe u with Some p => NName (Some p) l | None => NStar end
      end
  end.

(* siblings that libxml2 counts together with a node of tag t *)
Definition same_kind (pe : penv) (t t' : tagt) : bool :=
  match test_of pe t with
  | NComment => is_comment t'
  | NStar => negb (is_comment t')
  | NName _ _ => tag_eqb t t'
  end.

Fixpoint count_before (f : forest) (pe : penv) (t : tagt) (n : id) (sibs : list id) (k : nat) : nat :=
  match sibs with
  | [] => k
  | s :: r => if Nat.eqb s n then k
              else count_before f pe t n r (if same_kind pe t (ltag (labof f s)) then S k else k)
  end.

(* the step for node n among its siblings `sibs` (which contain n) *)
Definition step_of (f : forest) (pe : penv) (n : id) (sibs : list id) : step :=
  let t := ltag (labof f n) in
  let total := length (filter (fun s => same_kind pe t (ltag (labof f s))) sibs) in
  Step (test_of pe t)
       (if Nat.leb total 1 then None else Some (S (count_before f pe t n sibs 0))).

Fixpoint path_up (fuel : nat) (f : forest) (pe : penv) (root n : id) (acc : path) : path :=
  match fuel with
  | O => acc
  | S fu =>
      if Nat.eqb n root then step_of f pe n [root] :: acc
      else match parentof f n with
           | Some p => path_up fu f pe root p (step_of f pe n (kidsof f p) :: acc)
           | None => acc
           end
  end.

Definition force_last_index (p : path) : path :=
  match rev p with
  | s :: r => rev (Step (st_test s) (match st_idx s with Some i => Some i | None => Some 1%nat end) :: r)
  | [] => []
  end.

(* utils.getpath(node) *)
Definition getpath (pe : penv) (f : forest) (root n : id) : path :=
  force_last_index (path_up (S (fnext f)) f pe root n []).

(* printing *)
Definition test_to_str (t : ntest) : str :=
  match t with
  | NStar => [42]
  | NComment => s_comment
  | NName None l => l
  | NName (Some p) l => p ++ 58 :: l
  end.
Definition step_to_str (s : step) : str :=
  test_to_str (st_test s) ++
  match st_idx s with Some i => 91 :: str_of_N (N.of_nat i) ++ [93] | None => [] end.
Definition path_to_str (p : path) : str := flat_map (fun s => 47 :: step_to_str s) p.
