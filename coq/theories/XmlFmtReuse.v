(* XmlFmtReuse -- the placeholder maker of an XMLFormatter along a run WITHOUT use_replace: it does not change at all.
   (With use_replace it grows by one diff:replace opener per replaced segment: XmlFmtProofs4.step_ph.)
   Together with TextTagsFlat.do_tree_flat (prepare() leaves the maker alone when no text-tag element has element
   children) this says that such a formatter object is, after a whole diff, in the state of a newly made one.
   No axioms. *)
From Coq Require Import List NArith ZArith Bool Arith Lia.
Import ListNotations.
Require Import XV.Str XV.Json XV.TextFormat XV.Forest XV.Matcher XV.Differ XV.Path XV.WF XV.AttrProofs XV.XmlFmt XV.Projections
               XV.XmlFmtProofs0 XV.XmlFmtProofs1 XV.XmlFmtProofs2 XV.XmlFmtProofsR2 XV.XmlFmtProofs3 XV.XmlFmtProofs4 XV.XmlFmtProofs5.
Require XV.Placeholder XV.PlaceholderUndo.
Local Open Scope nat_scope.

Section Reuse.
Variable c : cfg.
Variable o : oracle.
Variable rootns : list (option str * str).
Hypothesis Hnr : c_replace c = false.

Theorem step_ph_same st d st' :
  tinv (fs_ph st) -> step_ok rootns st d -> room_ok c st d -> handle_d c o rootns st d = FOk st' -> fs_ph st' = fs_ph st.
Proof.
  intros Hph0 Hok Hroom H.
  destruct d; cbn [handle_d step_ok room_ok] in *;
    try (unfold handle_DeleteNode, handle_InsertNode, handle_RenameNode, handle_UpdateAttrib, handle_DeleteAttrib,
           handle_InsertAttrib, handle_RenameAttrib in H;
         apply fbind_ok in H as (p & _ & H); apply (upd_node_ph _ _ _ _ H)).
  - (* MoveNode *)
    unfold handle_MoveNode in H. apply fbind_ok in H as (pn & _ & H). apply fbind_ok in H as (cp & _ & H).
    apply fbind_ok in H as (pt & _ & H). cbv zeta in H. apply fbind_ok in H as (tg0 & _ & H). inversion H; subst st'. reflexivity.
  - (* UpdateTextIn *)
    destruct Hok as [Htxt Hold]. unfold handle_UpdateTextIn in H. apply fbind_ok in H as (p & Ep & H).
    unfold node_at in H. destruct (get_at (fs_tree st) p) as [n|] eqn:G; [|discriminate]. cbn [fbind] in H.
    destruct (is_inserted n) eqn:Ei; [inversion H; subst st'; reflexivity|].
    destruct (make_diff_tags_gen c o (fs_ph st) _ _ false Hph0 (Hold p n Ep G Ei) Htxt Hroom)
      as (s' & ps & Em & _ & _ & _ & _ & _ & _ & Hsame & _).
    rewrite Em in H. cbn [fbind] in H. inversion H; subst st'. cbn [fs_ph]. exact (Hsame Hnr).
  - (* UpdateTextAfter *)
    destruct Hok as [Htxt Hold]. unfold handle_UpdateTextAfter in H. apply fbind_ok in H as (p & Ep & H).
    unfold node_at in H. destruct (get_at (fs_tree st) p) as [n|] eqn:G; [|discriminate]. cbn [fbind] in H.
    destruct (Hold p n Ep G) as [Hp Hpl]. destruct p as [|i p]; [congruence|].
    destruct (make_diff_tags_gen c o (fs_ph st) _ _ true Hph0 Hpl Htxt Hroom)
      as (s' & ps & Em & _ & _ & _ & _ & _ & _ & Hsame & _).
    rewrite Em in H. cbn [fbind] in H. inversion H; subst st'. cbn [fs_ph]. exact (Hsame Hnr).
  - (* InsertNamespace *)
    unfold handle_InsertNamespace in H. inversion H; subst st'. reflexivity.
  - (* DeleteNamespace *)
    inversion H; subst st'. reflexivity.
Qed.

Theorem handle_all_ph_same script : forall st st',
  tinv (fs_ph st) -> run_ok c o rootns st script -> handle_all c o rootns st script = FOk st' -> fs_ph st' = fs_ph st.
Proof.
  induction script as [|a r IH]; intros st st' Hph Hok H; cbn [handle_all] in H.
  - inversion H; subst. reflexivity.
  - apply fbind_ok in H as (st1 & E1 & H). rewrite handle_action_decode in E1.
    cbn [run_ok] in Hok. destruct (decode a) as [d|e]; [|discriminate]. cbn [fbind] in E1.
    destruct Hok as (Hs & Hroom & Hr).
    pose proof (step_ph_same st d st1 Hph Hs Hroom E1) as X1.
    assert (P1 : tinv (fs_ph st1)) by (rewrite X1; exact Hph).
    rewrite (IH st1 st' P1 (Hr st1 E1) H). exact X1.
Qed.
End Reuse.
