(* XmlFmtProofsR2 -- _make_diff_tags without text tags, WITH or without use_replace: the maker grows.

   With use_replace a delete/insert pair becomes one diff:replace wrapper whose opener is a placeholder
   allocated on the spot (its table element carries old-text); the maker state therefore threads through
   the handlers.  This file:
   * [tinv s]      what the maker looks like without text tags: the six built-in placeholders, then only
                   diff:replace openers [relem old] with plain old text; counter within the range;
   * [piece]       a marked-up string as a list of pieces: plain / inserted / deleted text (PS) or a
                   replaced text (PR c new old), [encp] its string, [pt1]/[pt2] the old / new text;
   * [rstr s]      the string read with every change rejected (needs the table: old-text);
                   [astr] (XmlFmtProofs1) reads it accepted, without the table;
   * [make_diff_tags_gen]  the string written is [encp ps] with pt1 = old text, pt2 = new text (normalised
                   when normalize & WS_TEXT) -- uses C16: diff_main_spec, cleanupSemantic_t12, join_spec;
   * [astr_encp], [rstr_encp].
   No axioms. *)
From Coq Require Import List NArith ZArith Bool Arith Lia.
Import ListNotations.
Require Import XV.Str XV.Json XV.TextFormat XV.Forest XV.Matcher XV.Differ XV.Path XV.WF XV.AttrProofs XV.XmlFmt XV.Projections
               XV.XmlFmtProofs1 XV.XmlFmtProofs2.
Require XV.Placeholder XV.PlaceholderProofs XV.PlaceholderRound XV.PlaceholderUndo XV.PlaceholderFinal.
Require XV.DMP XV.DMPBase XV.DMPMain XV.DMPSemantic XV.DMPRealign XV.DMPTotal XV.DMPTotalMain XV.DMPTotalSem XV.DMPBisect5.
Local Open Scope N_scope.

Notation p2t_get := Placeholder.p2t_get.
Notation p2t := Placeholder.p2t.
Notation t2p_get := Placeholder.t2p_get.
Notation t2p := Placeholder.t2p.
Notation ctr := Placeholder.ctr.
Notation TOpen := Placeholder.TOpen.
Notation PUA_END := Placeholder.PUA_END.

Definition relem (old : str) : xtree := XNode (Placeholder.DIFF_NS_BRACED ++ Placeholder.s_replace) [(s_old_text, old)] None [] [].

(* entries are kept as they are *)
Definition sext (s s' : pstate) : Prop := forall c e, p2t_get (p2t s) c = Some e -> p2t_get (p2t s') c = Some e.
Lemma sext_refl s : sext s s. Proof. intros c e H. exact H. Qed.
Lemma sext_trans a b c : sext a b -> sext b c -> sext a c. Proof. intros H1 H2 x e H. auto. Qed.

Definition base6 : list N := [57345; 57346; 57347; 57348; 57349; 57350].

Record tinv (s : pstate) : Prop := {
  ti_inv : PlaceholderProofs.ph_inv s;
  ti_room : ctr s <= PUA_END;
  ti_base : forall c, In c base6 -> p2t_get (p2t s) c = p2t_get (p2t ph_init) c;
  ti_rest : forall c e ty cl, p2t_get (p2t s) c = Some (e, ty, cl) -> 57350 < c ->
            ty = TOpen /\ cl = Some REP_C /\ exists old, plain old /\ e = relem old;
  ti_keys : forall old c, t2p_get (t2p s) (relem old, TOpen, Some REP_C) = Some c ->
            p2t_get (p2t s) c = Some (relem old, TOpen, Some REP_C) }.

Lemma ph_init_t2p_relem old : t2p_get (t2p ph_init) (relem old, TOpen, Some REP_C) = None.
Proof. vm_compute. reflexivity. Qed.

Lemma tinv_init : tinv ph_init.
Proof.
  constructor.
  - exact (proj1 (PlaceholderFinal.ph_wf_init [] [])).
  - vm_compute. discriminate.
  - reflexivity.
  - intros c e ty cl H Hc. rewrite ph_init_p2t in H. cbn [Placeholder.p2t_get] in H.
    repeat match type of H with (if N.eqb c ?k then _ else _) = _ => destruct (N.eqb_spec c k); [lia|] end. discriminate.
  - intros old c H. rewrite ph_init_t2p_relem in H. discriminate.
Qed.

Lemma tinv_nemp s : tinv s -> p2t s <> [].
Proof.
  intros H E. pose proof (ti_base s H 57345 ltac:(cbn; tauto)) as B. rewrite E, ph_init_p2t in B. discriminate.
Qed.

Lemma tinv_ge s : tinv s -> 57350 <= ctr s.
Proof.
  intros H. pose proof (ti_base s H 57350 ltac:(cbn; tauto)) as B. rewrite ph_init_p2t in B. cbn in B.
  destruct (ti_inv s H) as (_ & _ & (C1 & _)). destruct (C1 _ _ B). lia.
Qed.

Lemma tinv_plain_none s c : tinv s -> okc c = true -> p2t_get (p2t s) c = None.
Proof. intros H Hc. apply (PlaceholderUndo.okc_no_entry s (ti_inv s H) (ti_room s H) c Hc). Qed.

Lemma knorm_relem old : Placeholder.knorm (relem old) = relem old.
Proof. reflexivity. Qed.

Lemma t2p_mkst a b c : t2p (Placeholder.mkst a b c) = b. Proof. reflexivity. Qed.

(* allocating (or finding) the opener of a diff:replace with a given old text *)
Lemma gp_relem s old s' c m : tinv s -> plain old ->
  Placeholder.gp s (relem old) (relem old) TOpen (Some REP_C) = (s', c, m) -> ctr s' <= PUA_END ->
  tinv s' /\ sext s s' /\ p2t_get (p2t s') c = Some (relem old, TOpen, Some REP_C) /\ 57350 < c /\ ctr s <= ctr s'.
Proof.
  intros H Hold G Hroom. pose proof (PlaceholderProofs.gp_inv _ _ _ _ _ _ _ _ G (ti_inv s H)) as I'.
  destruct (t2p_get (t2p s) (Placeholder.knorm (relem old), TOpen, Some REP_C)) as [c0|] eqn:L.
  - rewrite (PlaceholderProofs.gp_hit _ _ _ _ _ _ L) in G. inversion G; subst s' c0 m.
    rewrite knorm_relem in L. pose proof (ti_keys s H old c L) as E.
    split; [exact H|]. split; [apply sext_refl|]. split; [exact E|].
    destruct (ti_inv s H) as (_ & _ & (C1 & _)). destruct (C1 _ _ E) as [Lo Hi]. split; [|lia].
    destruct (N.ltb_spec 57350 c) as [|Hle]; [assumption|exfalso].
    assert (Hb : In c base6).
    { unfold Placeholder.PLACEHOLDER_START in Lo. cbn [base6 In].
      lia. }
    rewrite (ti_base s H c Hb), ph_init_p2t in E. cbn [base6 In] in Hb.
    destruct Hb as [<-|[<-|[<-|[<-|[<-|[<-|[]]]]]]]; cbn in E; discriminate.
  - rewrite (PlaceholderProofs.gp_miss _ _ _ _ _ L) in G. inversion G; subst s' c m. clear G. cbn [Placeholder.ctr] in Hroom.
    pose proof (tinv_ge s H) as Hge.
    assert (Hold_keys : forall x e, p2t_get (p2t s) x = Some e -> x <> ctr s + 1).
    { intros x e Hx. destruct (ti_inv s H) as (_ & _ & (C1 & _)). destruct (C1 _ _ Hx). lia. }
    assert (SX : sext s (Placeholder.mkst ((ctr s + 1, (relem old, TOpen, Some REP_C)) :: p2t s)
                                         (((Placeholder.knorm (relem old), TOpen, Some REP_C), ctr s + 1) :: t2p s) (ctr s + 1))).
    { intros x e Hx. cbn [Placeholder.p2t Placeholder.p2t_get]. destruct (N.eqb_spec x (ctr s + 1)); [exfalso; eapply Hold_keys; eauto|exact Hx]. }
    split; [|split; [exact SX|split; [cbn; now rewrite N.eqb_refl|cbn [Placeholder.ctr]; lia]]].
    constructor.
    + exact I'.
    + exact Hroom.
    + intros x Hx. cbn [Placeholder.p2t Placeholder.p2t_get].
      destruct (N.eqb_spec x (ctr s + 1)) as [->|_]; [|apply (ti_base s H x Hx)].
      exfalso. cbn [base6 In] in Hx. lia.
    + intros x e ty cl Hx Hc. cbn [Placeholder.p2t Placeholder.p2t_get] in Hx.
      destruct (N.eqb_spec x (ctr s + 1)); [|apply (ti_rest s H x e ty cl Hx Hc)].
      inversion Hx; subst. split; [reflexivity|]. split; [reflexivity|]. eauto.
    + intros old' x Hx. cbn [Placeholder.p2t Placeholder.p2t_get].
      change ((if Placeholder.key_eqb (relem old', TOpen, Some REP_C) (relem old, TOpen, Some REP_C) then Some (ctr s + 1)
              else t2p_get (t2p s) (relem old', TOpen, Some REP_C)) = Some x) in Hx.
      destruct (Placeholder.key_eqb (relem old', TOpen, Some REP_C) (relem old, TOpen, Some REP_C)) eqn:Ek.
      * inversion Hx; subst x. rewrite N.eqb_refl. apply PlaceholderProofs.key_eqb_eq in Ek. inversion Ek; subst. reflexivity.
      * pose proof (ti_keys s H old' x Hx) as E. destruct (N.eqb_spec x (ctr s + 1)); [exfalso; eapply Hold_keys; eauto|exact E].
Qed.

(* ------------------------------------------------------------------ *)
(** * Pieces *)

Inductive piece := PS (sg : DMP.op * str) | PR (c : N) (new old : str).

Definition piece_ok (s : pstate) (p : piece) : Prop :=
  match p with
  | PS sg => plain (snd sg)
  | PR c new old => plain new /\ plain old /\ p2t_get (p2t s) c = Some (relem old, TOpen, Some REP_C) /\ 57350 < c
  end.
Definition enc_piece (p : piece) : str :=
  match p with PS sg => enc_seg sg | PR c new old => c :: new ++ [REP_C] end.
Definition encp (ps : list piece) : str := concat (map enc_piece ps).
Definition pt1 (ps : list piece) : str :=
  concat (map (fun p => match p with PS (o, t) => if DMP.is_insert o then [] else t | PR _ _ old => old end) ps).
Definition pt2 (ps : list piece) : str :=
  concat (map (fun p => match p with PS (o, t) => if DMP.is_delete o then [] else t | PR _ new _ => new end) ps).

Lemma piece_ok_ext s s' p : sext s s' -> piece_ok s p -> piece_ok s' p.
Proof. intros X. destruct p; cbn; [auto|]. intros (A & B & C & D). repeat split; auto. Qed.

Lemma pt1_cons p d : pt1 (p :: d) = match p with PS (o, t) => if DMP.is_insert o then [] else t | PR _ _ old => old end ++ pt1 d.
Proof. reflexivity. Qed.
Lemma pt2_cons p d : pt2 (p :: d) = match p with PS (o, t) => if DMP.is_delete o then [] else t | PR _ new _ => new end ++ pt2 d.
Proof. reflexivity. Qed.
Lemma encp_cons p d : encp (p :: d) = enc_piece p ++ encp d.
Proof. reflexivity. Qed.
Lemma encp_app a b : encp (a ++ b) = encp a ++ encp b.
Proof. unfold encp. now rewrite map_app, concat_app. Qed.
Lemma pt1_app a b : pt1 (a ++ b) = pt1 a ++ pt1 b.
Proof. unfold pt1. now rewrite map_app, concat_app. Qed.
Lemma pt2_app a b : pt2 (a ++ b) = pt2 a ++ pt2 b.
Proof. unfold pt2. now rewrite map_app, concat_app. Qed.

(* ------------------------------------------------------------------ *)
(** * Reading a marked-up string with every change rejected *)

Lemma rold_plain s c : tinv s -> okc c = true -> rold s c = None.
Proof. intros H Hc. unfold rold. now rewrite (tinv_plain_none s c H Hc). Qed.

Lemma rstr_go_plain s b x r : tinv s -> plain x -> rstr_go s b (x ++ r) = (if b then [] else x) ++ rstr_go s b r.
Proof.
  intros H. induction x as [|c x IH]; intros Hx; cbn [app rstr_go]; [destruct b; reflexivity|].
  apply plain_cons in Hx as [Hc Hx].
  rewrite (okc_neq c INS_O Hc eq_refl), (okc_neq c INS_C Hc eq_refl), (okc_neq c REP_C Hc eq_refl). cbn [orb].
  rewrite (rold_plain s c H Hc), (okc_pua c Hc), (IH Hx). destruct b; reflexivity.
Qed.

Lemma rold_base s : tinv s -> rold s DEL_O = None /\ rold s DEL_C = None.
Proof.
  intros H. unfold rold. rewrite (ti_base s H DEL_O ltac:(cbn; tauto)), (ti_base s H DEL_C ltac:(cbn; tauto)), ph_init_p2t. split; reflexivity.
Qed.

Lemma rstr_encp_app s ps : tinv s -> Forall (piece_ok s) ps -> forall r,
  rstr s (encp ps ++ r) = pt1 ps ++ rstr s r.
Proof.
  intros H. unfold rstr. induction 1 as [|p ps Hp _ IH]; intros r; [reflexivity|].
  unfold encp, pt1. cbn [map concat]. fold (encp ps). fold (pt1 ps). rewrite <- app_assoc.
  destruct (rold_base s H) as [RB1 RB2].
  destruct p as [[o t]|c new old]; cbn [piece_ok snd] in Hp; cbn [enc_piece].
  - destruct o; unfold enc_seg; cbn [fst snd DMP.is_insert].
    + (* DELETE *) cbn [app rstr_go]. change (N.eqb DEL_O INS_O) with false. change (N.eqb DEL_O INS_C || N.eqb DEL_O REP_C) with false.
      cbv iota. rewrite RB1. change (is_pua DEL_O) with true. cbv iota.
      rewrite <- app_assoc. rewrite (rstr_go_plain s false t _ H Hp). rewrite <- app_assoc. f_equal.
      cbn [app rstr_go]. change (N.eqb DEL_C INS_O) with false. change (N.eqb DEL_C INS_C || N.eqb DEL_C REP_C) with false.
      cbv iota. rewrite RB2. change (is_pua DEL_C) with true. cbv iota. apply IH.
    + (* INSERT *) cbn [app rstr_go]. change (N.eqb INS_O INS_O) with true. cbv iota.
      rewrite <- app_assoc. rewrite (rstr_go_plain s true t _ H Hp). cbn [app rstr_go].
      change (N.eqb INS_C INS_O) with false. change (N.eqb INS_C INS_C || N.eqb INS_C REP_C) with true. cbv iota. apply IH.
    + (* EQUAL *) rewrite (rstr_go_plain s false t _ H Hp). rewrite <- app_assoc. f_equal. apply IH.
  - destruct Hp as (Hn & Ho & He & Hc).
    cbn [app rstr_go].
    assert (N1 : N.eqb c INS_O = false) by (apply N.eqb_neq; unfold INS_O; lia).
    assert (N2 : N.eqb c INS_C || N.eqb c REP_C = false).
    { apply orb_false_iff. split; apply N.eqb_neq; unfold INS_C, REP_C; lia. }
    rewrite N1, N2. unfold rold at 1. rewrite He. cbn [relem xattrs aget]. rewrite N.eqb_refl, streqb_refl. cbn [app].
    rewrite <- !app_assoc. f_equal. rewrite (rstr_go_plain s true new _ H Hn). cbn [app rstr_go].
    change (N.eqb REP_C INS_O) with false. change (N.eqb REP_C INS_C || N.eqb REP_C REP_C) with true. cbv iota. apply IH.
Qed.

Theorem rstr_encp s ps : tinv s -> Forall (piece_ok s) ps -> rstr s (encp ps) = pt1 ps.
Proof. intros H F. rewrite <- (app_nil_r (encp ps)), (rstr_encp_app s ps H F). cbn. now rewrite app_nil_r. Qed.

Lemma astr_encp_app s ps : tinv s -> Forall (piece_ok s) ps -> forall r,
  astr (encp ps ++ r) = pt2 ps ++ astr r.
Proof.
  intros H. unfold astr. induction 1 as [|p ps Hp _ IH]; intros r; [reflexivity|].
  unfold encp, pt2. cbn [map concat]. fold (encp ps). fold (pt2 ps). rewrite <- app_assoc.
  destruct p as [[o t]|c new old]; cbn [piece_ok snd] in Hp; cbn [enc_piece].
  - pose proof (astr_enc_app [(o, t)] ltac:(constructor; [exact Hp|constructor]) (encp ps ++ r)) as E.
    unfold astr, enc in E. cbn [map concat] in E. rewrite app_nil_r in E. rewrite E.
    rewrite DMPBase.t2_proj, DMPBase.proj_cons, DMPBase.proj_nil, app_nil_r. unfold DMPBase.keep2.
    destruct o; cbn [DMP.is_delete negb]; rewrite <- ?app_assoc; cbn [app]; try f_equal; apply IH.
  - destruct Hp as (Hn & Ho & He & Hc).
    cbn [app astr_go].
    assert (N1 : N.eqb c DEL_O = false) by (apply N.eqb_neq; unfold DEL_O; lia).
    assert (N2 : N.eqb c DEL_C = false) by (apply N.eqb_neq; unfold DEL_C; lia).
    assert (N3 : is_pua c = true).
    { unfold is_pua. pose proof (ti_room s H). destruct (ti_inv s H) as (_ & _ & (C1 & _)). destruct (C1 _ _ He) as [_ Hc'].
      unfold Placeholder.PUA_END in *.
      destruct (N.ltb_spec 57344 c); [|lia]. destruct (N.leb_spec c 63743); [reflexivity|lia]. }
    rewrite N1, N2, N3. rewrite <- app_assoc. rewrite astr_go_keep by exact Hn. rewrite <- app_assoc. f_equal.
    cbn [app astr_go]. change (N.eqb REP_C DEL_O) with false. change (N.eqb REP_C DEL_C) with false.
    change (is_pua REP_C) with true. cbv iota. apply IH.
Qed.

Theorem astr_encp s ps : tinv s -> Forall (piece_ok s) ps -> astr (encp ps) = pt2 ps.
Proof. intros H F. rewrite <- (app_nil_r (encp ps)), (astr_encp_app s ps H F). cbn. now rewrite app_nil_r. Qed.

(* ------------------------------------------------------------------ *)
(** * The segments of the text diff *)

Definition jplain (j : DMP.jseg) : Prop :=
  match j with DMP.JS _ t => plain t | DMP.JR new old => plain new /\ plain old /\ new <> [] end.
Definition nJR (js : list DMP.jseg) : N :=
  N.of_nat (length (filter (fun j => match j with DMP.JR _ _ => true | _ => false end) js)).

Lemma nJR_cons j js : nJR (j :: js) = (match j with DMP.JR _ _ => 1 | _ => 0 end) + nJR js.
Proof. unfold nJR. cbn [filter]. destruct j; cbn [length]; lia. Qed.

Lemma nJR_le js : Forall jplain js -> nJR js <= N.of_nat (length (DMP.jt2 js)).
Proof.
  induction 1 as [|j js Hj _ IH]; [cbn; lia|]. rewrite nJR_cons.
  unfold DMP.jt2. cbn [map concat]. fold (DMP.jt2 js). rewrite app_length.
  destruct j as [o t|new old]; [lia|]. destruct Hj as (_ & _ & Hn). destruct new; [congruence|cbn [length]; lia].
Qed.

(* what _join_delete_insert returns is made of the segments it is given *)
Definition jfrom (d : list DMP.seg) (j : DMP.jseg) : Prop :=
  match j with
  | DMP.JS o t => In t (map snd d)
  | DMP.JR new old => In new (map snd d) /\ In old (map snd d)
  end.

Lemma jfrom_cons s d j : jfrom d j -> jfrom (s :: d) j.
Proof. destruct j; cbn [jfrom map In]; tauto. Qed.

Lemma join_aux_from : forall d skip l k, DMP.join_aux d skip = (l, k) -> Forall (jfrom d) l.
Proof.
  induction d as [|s1 d IH]; intros skip l k H; [cbn in H; inversion H; constructor|].
  destruct d as [|s2 r]; [cbn in H; inversion H; constructor|].
  rewrite DMPRealign.join_aux_cons2 in H. destruct skip.
  - apply IH in H. eapply Forall_impl; [|exact H]. intros j. apply jfrom_cons.
  - assert (W : forall l' kk, DMP.join_aux (s2 :: r) kk = (l', k) -> Forall (jfrom (s1 :: s2 :: r)) l').
    { intros l' kk E. apply IH in E. eapply Forall_impl; [|exact E]. intros j. apply jfrom_cons. }
    destruct (fst s1), (fst s2);
      match type of H with
      | (let '(_, _) := DMP.join_aux ?dd ?b in _) = _ => destruct (DMP.join_aux dd b) as [l' kk] eqn:Ej
      end; inversion H; subst; (constructor; [|eapply W; exact Ej]); cbn [jfrom map In]; tauto.
Qed.

Lemma last_opt_in {A} (l : list A) x : DMP.last_opt l = Some x -> In x l.
Proof. unfold DMP.last_opt. destruct l; [discriminate|]. apply nth_error_In. Qed.

Lemma join_from d j : join_delete_insert d = DMP.Ok j -> Forall (jfrom d) j.
Proof.
  unfold join_delete_insert. destruct d as [|s0 d0]; [intros H; inversion H; constructor|].
  set (d := s0 :: d0). unfold DMP.join_delete_insert. destruct (DMP.join_aux d false) as [l sk] eqn:Ej.
  pose proof (join_aux_from d false l sk Ej) as F. unfold d at 1. fold d.
  destruct sk; [intros H; inversion H; subst; exact F|].
  destruct (DMP.last_opt d) as [[o t]|] eqn:El; [|discriminate]. intros H; inversion H; subst.
  apply Forall_app. split; [exact F|]. constructor; [|constructor]. cbn [jfrom].
  apply last_opt_in in El. apply (in_map snd) in El. exact El.
Qed.

Lemma jt1_JS d : DMP.jt1 (map (fun sg : DMP.seg => DMP.JS (fst sg) (snd sg)) d) = DMP.t1 d.
Proof.
  rewrite DMPBase.t1_proj. induction d as [|[o t] d IH]; [reflexivity|].
  rewrite DMPBase.proj_cons, <- IH. unfold DMP.jt1. cbn [map concat fst snd]. unfold DMPBase.keep1. now destruct (DMP.is_insert o).
Qed.
Lemma jt2_JS d : DMP.jt2 (map (fun sg : DMP.seg => DMP.JS (fst sg) (snd sg)) d) = DMP.t2 d.
Proof.
  rewrite DMPBase.t2_proj. induction d as [|[o t] d IH]; [reflexivity|].
  rewrite DMPBase.proj_cons, <- IH. unfold DMP.jt2. cbn [map concat fst snd]. unfold DMPBase.keep2. now destruct (DMP.is_delete o).
Qed.

Lemma cls_plain s c : tinv s -> okc c = true -> cls_of s c = None.
Proof. intros H Hc. unfold cls_of. now rewrite (tinv_plain_none s c H Hc). Qed.

(* the text diff handed to the marking loop: total, and it spells the two texts *)
Theorem text_diff_gen c o s left right : tinv s -> plain left -> plain right ->
  exists ds, text_diff c o s left right = FOk ds /\
             DMP.jt1 ds = norm_if c left /\ DMP.jt2 ds = norm_if c right /\ Forall jplain ds /\
             (c_replace c = false -> nJR ds = 0).
Proof.
  intros HS Hl Hrt. pose proof DMPBisect5.bisect_safe_holds as Hbis. unfold text_diff. fold (norm_if c left). fold (norm_if c right).
  destruct (DMPTotalMain.diff_main_total (o_cc o) (o_clock o) (norm_if c left) (norm_if c right) Hbis) as [d0 E0].
  rewrite E0. cbn [of_dmp fbind].
  destruct (DMPTotalSem.cleanupSemantic_total (o_cc o) d0) as [d1 E1]. rewrite E1. cbn [of_dmp fbind].
  apply DMPMain.diff_main_spec in E0 as (A1 & A2 & _).
  apply DMPSemantic.cleanupSemantic_t12 in E1 as (B1 & B2 & B3).
  assert (P1 : plain (DMP.t1 d1)) by (rewrite B1, A1; apply norm_if_plain, Hl).
  assert (P2 : plain (DMP.t2 d1)) by (rewrite B2, A2; apply norm_if_plain, Hrt).
  pose proof (segs_plain d1 P1 P2) as SP.
  assert (SO : Forall (seg_ok (cls_of s)) d1).
  { rewrite Forall_forall in *. intros sg Hin. split; [|apply B3, Hin].
    intros ch Hc. apply (cls_plain s ch HS). specialize (SP _ Hin). apply plain_Forall in SP.
    rewrite Forall_forall in SP. apply SP, Hc. }
  rewrite (realign_plain _ _ SO). cbn [of_dmp fbind].
  assert (Hfrom : forall t, In t (map snd d1) -> plain t /\ t <> []).
  { intros t Ht. apply in_map_iff in Ht as (sg & <- & Hin). rewrite Forall_forall in SP, B3. split; [apply SP, Hin|apply B3, Hin]. }
  destruct (c_replace c).
  - pose proof (DMPRealign.join_total d1) as [j Ej].
    assert (Ej' : join_delete_insert d1 = DMP.Ok j).
    { unfold join_delete_insert. destruct d1; [|exact Ej]. cbn in Ej. exact Ej. }
    rewrite Ej'. cbn [of_dmp]. exists j. split; [reflexivity|].
    apply DMPRealign.join_spec in Ej as [J1 J2]. split; [congruence|]. split; [congruence|].
    split; [|discriminate].
    pose proof (join_from d1 j Ej') as F. eapply Forall_impl; [|exact F].
    intros [oo t|new old]; cbn [jfrom jplain].
    + intros Hin. apply Hfrom, Hin.
    + intros [Hn Ho]. destruct (Hfrom _ Hn), (Hfrom _ Ho). auto.
  - eexists. split; [reflexivity|]. rewrite jt1_JS, jt2_JS. split; [congruence|]. split; [congruence|].
    split. { apply Forall_map. eapply Forall_impl; [|exact SP]. intros sg Hsg. exact Hsg. }
    intros _. unfold nJR. clear. induction d1 as [|x d1 IH]; [reflexivity|]. exact IH.
Qed.

(* ------------------------------------------------------------------ *)
(** * The marking loop *)

Lemma is_placeholder_tinv s x : tinv s -> plain x -> is_placeholder s x = None.
Proof.
  intros H Hx. unfold is_placeholder. destruct x as [|c [|c' r]]; try reflexivity.
  apply plain_cons in Hx as [Hc _]. unfold Placeholder.is_ph. now rewrite (tinv_plain_none s c H Hc).
Qed.

Definition piece_of (j : DMP.jseg) (c : N) : piece :=
  match j with DMP.JS o t => PS (o, t) | DMP.JR new old => PR c new old end.

Lemma mdt_seg_gen fmt in_tail s out any j : tinv s -> jplain j ->
  ctr s + (match j with DMP.JR _ _ => 1 | _ => 0 end) <= PUA_END ->
  exists s' p, mdt_seg fmt in_tail (s, out, any) j = FOk (s', out ++ enc_piece p, true) /\
     tinv s' /\ sext s s' /\ ctr s <= ctr s' /\ ctr s' <= ctr s + (match j with DMP.JR _ _ => 1 | _ => 0 end) /\
     piece_ok s' p /\ pt1 [p] = DMP.jt1 [j] /\ pt2 [p] = DMP.jt2 [j].
Proof.
  intros H Hj Hroom. destruct j as [oo t|new old]; cbn [jplain] in Hj.
  - exists s, (PS (oo, t)). unfold enc_piece, enc_seg. cbn [fst snd].
    assert (R : tinv s /\ sext s s /\ ctr s <= ctr s /\ ctr s <= ctr s + 0 /\ piece_ok s (PS (oo, t)) /\
                pt1 [PS (oo, t)] = DMP.jt1 [DMP.JS oo t] /\ pt2 [PS (oo, t)] = DMP.jt2 [DMP.JS oo t]).
    { split; [exact H|]. split; [apply sext_refl|]. split; [lia|]. split; [lia|]. split; [exact Hj|]. split; reflexivity. }
    destruct oo; cbn [mdt_seg]; (split; [|exact R]); try reflexivity;
      unfold mdt_marked; rewrite (is_placeholder_tinv s t H Hj); reflexivity.
  - destruct Hj as (Hn & Ho & Hne). cbn [mdt_seg]. unfold mdt_marked. rewrite (is_placeholder_tinv s new H Hn).
    unfold Placeholder.wrap_diff. cbn [Placeholder.diff_tags].
    pose proof (ti_base s H 57350 ltac:(cbn; tauto)) as B. rewrite ph_init_p2t in B. cbn [Placeholder.p2t_get N.eqb Pos.eqb] in B.
    rewrite B.
    change (Placeholder.with_attrs (Placeholder.diff_elem Placeholder.s_replace)
              (Placeholder.set_attrs (xattrs (Placeholder.diff_elem Placeholder.s_replace)) [(s_old_text, old)])) with (relem old).
    destruct (Placeholder.gp s (relem old) (relem old) TOpen (Some 57349)) as [[s' c] m] eqn:G.
    pose proof (PlaceholderProofs.gp_ctr _ _ _ _ _ _ _ _ G) as Hc.
    destruct (gp_relem s old s' c m H Ho G ltac:(lia)) as (H' & X & E & Hlo & Hmono).
    exists s', (PR c new old). cbn [of_ph fbind enc_piece]. split; [reflexivity|].
    split; [exact H'|]. split; [exact X|]. split; [exact Hmono|]. split; [exact Hc|].
    split; [cbn [piece_ok]; auto|]. split; reflexivity.
Qed.

Lemma mdt_loop_gen fmt in_tail js : Forall jplain js -> forall s out any, tinv s -> ctr s + nJR js <= PUA_END ->
  exists s' ps, mdt_loop fmt in_tail (s, out, any) js = FOk (s', out ++ encp ps, match js with [] => any | _ => true end) /\
     tinv s' /\ sext s s' /\ ctr s <= ctr s' /\ ctr s' <= ctr s + nJR js /\
     Forall (piece_ok s') ps /\ pt1 ps = DMP.jt1 js /\ pt2 ps = DMP.jt2 js /\ length ps = length js.
Proof.
  induction 1 as [|j js Hj _ IH]; intros s out any H Hroom.
  - exists s, []. cbn [mdt_loop]. unfold encp. cbn [map concat]. rewrite app_nil_r. split; [reflexivity|].
    split; [exact H|]. split; [apply sext_refl|]. unfold nJR. cbn. repeat split; try lia. constructor.
  - rewrite nJR_cons in Hroom.
    destruct (mdt_seg_gen fmt in_tail s out any j H Hj ltac:(lia)) as (s1 & p & E1 & H1 & X1 & M1 & C1 & P1 & T1 & T2).
    destruct (IH s1 (out ++ enc_piece p) true H1 ltac:(lia)) as (s' & ps & E2 & H2 & X2 & M2 & C2 & P2 & U1 & U2 & L).
    exists s', (p :: ps). cbn [mdt_loop]. rewrite E1. cbn [fbind]. unfold Placeholder.str, Str.str in *. rewrite E2.
    split. { unfold encp. cbn [map concat]. fold (encp ps). rewrite <- app_assoc. destruct js; reflexivity. }
    split; [exact H2|]. split; [eapply sext_trans; eauto|]. split; [lia|]. split; [rewrite nJR_cons; lia|].
    split; [constructor; [eapply piece_ok_ext; eauto|exact P2]|].
    split. { change (p :: ps) with ([p] ++ ps). change (j :: js) with ([j] ++ js). rewrite pt1_app, T1, U1. unfold DMP.jt1. now rewrite map_app, concat_app. }
    split. { change (p :: ps) with ([p] ++ ps). change (j :: js) with ([j] ++ js). rewrite pt2_app, T2, U2. unfold DMP.jt2. now rewrite map_app, concat_app. }
    cbn [length]. now rewrite L.
Qed.

Lemma mdt_loop_noJR fmt in_tail js : Forall jplain js -> nJR js = 0 -> forall s out any r, tinv s ->
  mdt_loop fmt in_tail (s, out, any) js = FOk r -> fst (fst r) = s.
Proof.
  induction 1 as [|j js Hj _ IH]; intros Z s out any r H E2; cbn [mdt_loop] in E2; [inversion E2; reflexivity|].
  rewrite nJR_cons in Z. destruct j as [oo t|new old]; [|lia]. cbn [jplain] in Hj.
  assert (E1 : mdt_seg fmt in_tail (s, out, any) (DMP.JS oo t) = FOk (s, out ++ enc_seg (oo, t), true)).
  { unfold enc_seg. cbn [fst snd]. destruct oo; cbn [mdt_seg]; try reflexivity;
      unfold mdt_marked; rewrite (is_placeholder_tinv s t H Hj); reflexivity. }
  rewrite E1 in E2. cbn [fbind] in E2. eapply IH; [lia|exact H|exact E2].
Qed.

(* _make_diff_tags without text tags: total; the string it writes is a run [encp ps] whose rejected reading is the old
   text and whose accepted reading is the new text (both normalised when normalize & WS_TEXT); the maker grows by one
   diff:replace opener per replaced segment at most *)
Theorem make_diff_tags_gen c o s left right in_tail : tinv s -> plain left -> plain right ->
  (c_replace c = true -> ctr s + N.of_nat (length (norm_if c right)) <= PUA_END) ->
  exists s' ps, make_diff_tags c o s left right in_tail = FOk (s', encp ps, match ps with [] => false | _ => true end) /\
     tinv s' /\ sext s s' /\ ctr s <= ctr s' /\
     Forall (piece_ok s') ps /\ pt1 ps = norm_if c left /\ pt2 ps = norm_if c right /\
     (c_replace c = false -> s' = s) /\ ctr s' <= ctr s + N.of_nat (length (norm_if c right)).
Proof.
  intros H Hl Hrt Hroom. unfold make_diff_tags.
  destruct (text_diff_gen c o s left right H Hl Hrt) as (ds & E & J1 & J2 & F & Z). rewrite E. cbn [fbind].
  pose proof (nJR_le ds F) as Hn. rewrite J2 in Hn.
  assert (Hroom' : ctr s + nJR ds <= PUA_END).
  { destruct (c_replace c); [specialize (Hroom eq_refl); lia|]. rewrite (Z eq_refl). pose proof (ti_room s H). lia. }
  destruct (mdt_loop_gen (c_fmt c) in_tail ds F s [] false H Hroom') as (s' & ps & E2 & H2 & X2 & M2 & C2 & P2 & U1 & U2 & L).
  exists s', ps. unfold Placeholder.str, Str.str in *. rewrite E2. cbn [app].
  split. { destruct ds, ps; cbn [length] in L; try discriminate; reflexivity. }
  split; [exact H2|]. split; [exact X2|]. split; [exact M2|]. split; [exact P2|].
  split; [congruence|]. split; [congruence|].
  split; [|lia].
  intros Hr. exact (mdt_loop_noJR (c_fmt c) in_tail ds F (Z Hr) s [] false _ H E2).
Qed.

(* normalisation does not lengthen a text *)
Lemma cleanup_ws_len x : forall b, (length (cleanup_ws_aux b x) <= length x)%nat.
Proof.
  induction x as [|ch r IH]; intros b; cbn [cleanup_ws_aux length]; [lia|].
  destruct (is_space ch); [destruct b|]; cbn [length]; [specialize (IH true)|specialize (IH true)|specialize (IH false)]; lia.
Qed.
Lemma lstrip_len x : (length (lstrip x) <= length x)%nat.
Proof. induction x as [|ch r IH]; cbn [lstrip length]; [lia|]. destruct (is_space ch); cbn [length]; lia. Qed.
Lemma norm_if_len c x : (length (norm_if c x) <= length x)%nat.
Proof.
  unfold norm_if. destruct (ws_text c); [|lia]. unfold normalize_text, Str.strip, rstrip, cleanup_whitespace.
  rewrite rev_length. etransitivity; [apply lstrip_len|]. rewrite rev_length. etransitivity; [apply lstrip_len|]. apply cleanup_ws_len.
Qed.

(* the same, said with the two readings *)
Theorem text_update_readings c o s left right in_tail :
  tinv s -> plain left -> plain right ->
  (c_replace c = true -> ctr s + N.of_nat (length (norm_if c right)) <= PUA_END) ->
  exists s' ps, make_diff_tags c o s left right in_tail = FOk (s', encp ps, match ps with [] => false | _ => true end) /\
     tinv s' /\ sext s s' /\ Forall (piece_ok s') ps /\
     rstr s' (encp ps) = norm_if c left /\ astr (encp ps) = norm_if c right.
Proof.
  intros H Hl Hr Hroom.
  destruct (make_diff_tags_gen c o s left right in_tail H Hl Hr Hroom) as (s' & ps & E & H' & X & _ & F & T1 & T2 & _).
  exists s', ps. split; [exact E|]. split; [exact H'|]. split; [exact X|]. split; [exact F|].
  split; [rewrite (rstr_encp s' ps H' F); exact T1|rewrite (astr_encp s' ps H' F); exact T2].
Qed.
