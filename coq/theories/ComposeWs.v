(* ComposeWs.v -- connecting the white-space model (Whitespace.v, C14) to the
   differ (C03): the lxml view of a parsed document as an id-indexed forest.

   - [tree_of_item]: the element tree lxml builds from the parser's item tree:
     element.text = the run before the first child node, child.tail = the run
     following the child; comments are leaves with their text;
   - [forest_of_tree]: pre-order numbering (root = 0) of an immutable tree, as
     the front end of the model does;
   - [forest_of_tree_wf]: the result is a well-formed forest (WF.wf_forest)
     whenever the root is an element, comments are leaves without attributes and
     attribute names are distinct ([tree_good]);
   - [forest_of_item_wf]: in particular for every item tree whose root is an
     element and whose attribute names are distinct ([attrs_distinct]);
   - [reindent_same_forest], [reindent_empty_script]: with blank stripping on,
     a document and any re-indentation of it are THE SAME forest, hence
     (C03_equal_empty) get the empty edit script. *)
From Coq Require Import List NArith ZArith Arith Bool Lia Sorting.Permutation.
Import ListNotations.
Require Import XV.Str XV.Forest XV.Matcher XV.Differ XV.Spec XV.WF XV.AttrProofs XV.EqualDocsBase XV.EqualDocs
               XV.Pipeline XV.Whitespace XV.WhitespaceProofs.

(* ------------------------------------------------------------------ *)
(** * The lxml view of an item tree                                     *)
(* ------------------------------------------------------------------ *)
Fixpoint tree_of_item (x : item) (tail : option str) : tree :=
  match x with
  | IElem t a c =>
      Node (Lab (TElem t) a (leading_text c) tail)
           ((fix go (l : list item) : list tree :=
               match l with
               | [] => []
               | Whitespace.IText _ :: r => go r
               | y :: r => tree_of_item y (leading_text r) :: go r
               end) c)
  | IComment s => Node (Lab TComment [] (Some s) tail) []
  | Whitespace.IText s => Node (Lab TComment [] (Some s) tail) []   (* a run is not a node: never used *)
  end.

(* ------------------------------------------------------------------ *)
(** * Pre-order numbering                                               *)
(* ------------------------------------------------------------------ *)
Fixpoint tsize (t : tree) : nat :=
  match t with Node _ ks => S (list_sum (map tsize ks)) end.

(* the ids of the roots of consecutive subtrees starting at id m *)
Fixpoint kid_ids (m : id) (ks : list tree) : list id :=
  match ks with [] => [] | k :: r => m :: kid_ids (m + tsize k) r end.

Definition entry := (label * list id)%type.

Fixpoint flatten (n : id) (t : tree) : list entry :=
  match t with
  | Node l ks =>
      (l, kid_ids (S n) ks) ::
      (fix go (m : id) (ks : list tree) : list entry :=
         match ks with [] => [] | k :: r => flatten m k ++ go (m + tsize k) r end) (S n) ks
  end.

(* entry number i describes node i *)
Definition forest_of_tree (t : tree) : forest :=
  let es := flatten 0 t in
  Forest (fun x => match nth_error es x with Some e => snd e | None => [] end)
         (fun x => match nth_error es x with Some e => fst e | None => empty_label end)
         (length es).

Definition forest_of_item (x : item) : forest := forest_of_tree (tree_of_item x None).

(* ------------------------------------------------------------------ *)
(** * Induction on trees; flatten                                       *)
(* ------------------------------------------------------------------ *)
Lemma tree_ind2 (P : tree -> Prop) :
  (forall l ks, Forall P ks -> P (Node l ks)) -> forall t, P t.
Proof.
  intros H. fix IH 1. intros [l ks]. apply H.
  induction ks as [|k r IHr]; [constructor|constructor; [apply IH|exact IHr]].
Qed.

Fixpoint flatten_list (m : id) (ks : list tree) : list entry :=
  match ks with [] => [] | k :: r => flatten m k ++ flatten_list (m + tsize k) r end.

Lemma flatten_eq n l ks : flatten n (Node l ks) = (l, kid_ids (S n) ks) :: flatten_list (S n) ks.
Proof.
  reflexivity.
Qed.

Lemma tsize_pos t : 1 <= tsize t.
Proof. destruct t; cbn; lia. Qed.

Lemma flatten_length t : forall n, length (flatten n t) = tsize t.
Proof.
  induction t as [l ks IH] using tree_ind2. intros n. rewrite flatten_eq. cbn [length tsize]. f_equal.
  generalize (S n). induction IH as [|k r Hk _ IHr]; intros m; [reflexivity|].
  cbn [flatten_list map].
  change (list_sum (tsize k :: map tsize r)) with (tsize k + list_sum (map tsize r)).
  rewrite app_length, Hk, IHr. reflexivity.
Qed.

Definition K (es : list entry) : list id := flat_map snd es.

Lemma K_app a b : K (a ++ b) = K a ++ K b.
Proof. apply flat_map_app. Qed.

(* every node other than the root is the child of exactly one node *)
Lemma flatten_kids_perm t : forall n, Permutation (K (flatten n t)) (seq (S n) (tsize t - 1)).
Proof.
  induction t as [l ks IH] using tree_ind2. intros n. rewrite flatten_eq.
  unfold K. cbn [flat_map snd tsize]. fold (K (flatten_list (S n) ks)).
  replace (S (list_sum (map tsize ks)) - 1) with (list_sum (map tsize ks)) by lia.
  generalize (S n). induction IH as [|k r Hk _ IHr]; intros m; [constructor|].
  cbn [kid_ids flatten_list map].
  change (list_sum (tsize k :: map tsize r)) with (tsize k + list_sum (map tsize r)). rewrite K_app, seq_app.
  pose proof (tsize_pos k) as Hp.
  assert (Es : seq m (tsize k) = m :: seq (S m) (tsize k - 1)).
  { destruct (tsize k) as [|s]; [lia|]. cbn [seq]. replace (S s - 1) with s by lia. reflexivity. }
  rewrite Es.
  cbn [app]. constructor.
  eapply Permutation_trans; [apply Permutation_app_swap_app|].
  apply Permutation_app; [apply Hk|apply IHr].
Qed.

(* ------------------------------------------------------------------ *)
(** * Labels                                                            *)
(* ------------------------------------------------------------------ *)
Definition node_okb (l : label) (ks : list tree) : bool :=
  (negb (is_comment (ltag l)) || (is_nil ks && is_nil (lattrs l)))
  && nodupb str_eqb (map fst (lattrs l)).
Fixpoint tree_goodb (t : tree) : bool :=
  match t with Node l ks => node_okb l ks && forallb tree_goodb ks end.

Definition entry_good (e : entry) : Prop :=
  (is_comment (ltag (fst e)) = true -> snd e = [] /\ lattrs (fst e) = []) /\
  NoDup (map fst (lattrs (fst e))).

Lemma flatten_good t : tree_goodb t = true -> forall n, Forall entry_good (flatten n t).
Proof.
  induction t as [l ks IH] using tree_ind2. cbn [tree_goodb]. intros H n.
  apply andb_true_iff in H as [H1 H2]. rewrite flatten_eq. constructor.
  - unfold node_okb in H1. apply andb_true_iff in H1 as [H1 H3]. split; cbn [fst snd].
    + intros Hc. rewrite Hc in H1. cbn in H1. apply andb_true_iff in H1 as [A B].
      destruct ks; [|discriminate]. destruct (lattrs l); [|discriminate]. split; reflexivity.
    + apply (nodupb_sound str_eqb); [|exact H3]. intros a b ->. apply streqb_refl.
  - clear H1. generalize (S n). induction IH as [|k r Hk _ IHr]; intros m; [constructor|].
    cbn [forallb] in H2. apply andb_true_iff in H2 as [G1 G2]. cbn [flatten_list].
    apply Forall_app. split; [apply Hk, G1|apply IHr, G2].
Qed.

(* ------------------------------------------------------------------ *)
(** * The forest of a good tree is well formed                          *)
(* ------------------------------------------------------------------ *)
Lemma flat_map_nth {A B} (g : A -> list B) (es : list A) : forall pre,
  flat_map (fun x => match nth_error (pre ++ es) x with Some e => g e | None => [] end)
           (seq (length pre) (length es)) = flat_map g es.
Proof.
  induction es as [|e es IH]; intros pre; [reflexivity|]. cbn [length seq flat_map].
  rewrite nth_error_app2 by lia. rewrite Nat.sub_diag. cbn [nth_error]. f_equal.
  specialize (IH (pre ++ [e])). rewrite <- app_assoc, app_length in IH. cbn [app length] in IH.
  rewrite Nat.add_1_r in IH. exact IH.
Qed.

Definition root_good (t : tree) : Prop :=
  match t with Node l _ => is_comment (ltag l) = false /\ ltail l = None end.

Lemma flab_root t : flab (forest_of_tree t) 0 = match t with Node l _ => l end.
Proof. destruct t. reflexivity. Qed.

Theorem forest_of_tree_wf t :
  tree_goodb t = true -> root_good t -> wf_forest (forest_of_tree t) 0.
Proof.
  intros Hg Hr. unfold forest_of_tree. set (es := flatten 0 t).
  assert (Hlen : length es = tsize t) by apply flatten_length.
  pose proof (tsize_pos t) as Hpos.
  set (f := Forest _ _ (length es)).
  assert (Hall : all_kids f = K es).
  { unfold all_kids, K. cbn [fkids fnext f]. apply (flat_map_nth snd es []). }
  pose proof (flatten_kids_perm t 0) as HP. fold es in HP. rewrite <- Hall in HP.
  assert (Hnd : NoDup (all_kids f)) by (eapply Permutation_NoDup; [apply Permutation_sym, HP|apply seq_NoDup]).
  assert (Hrange : forall c, In c (all_kids f) -> 1 <= c < tsize t).
  { intros c Hc. apply (Permutation_in _ HP) in Hc. apply in_seq in Hc. lia. }
  destruct (NoDup_flat_map_inv _ _ Hnd) as [Hnd1 Hnd2].
  assert (Hseq : forall p, p < fnext f -> In p (seq 0 (fnext f))) by (intros p Hp; apply in_seq; lia).
  assert (Hin : forall p c, p < fnext f -> In c (fkids f p) -> In c (all_kids f)).
  { intros p c Hp Hc. apply in_flat_map. exists p. split; [apply Hseq; exact Hp|exact Hc]. }
  pose proof (flatten_good t Hg 0) as HG. fold es in HG. rewrite Forall_forall in HG.
  assert (Hent : forall n, n < fnext f -> exists e, nth_error es n = Some e /\ entry_good e).
  { intros n Hn. cbn [fnext f] in Hn. destruct (nth_error es n) as [e|] eqn:E.
    - exists e. split; [reflexivity|]. apply HG. eapply nth_error_In; eauto.
    - apply nth_error_None in E. lia. }
  constructor.
  - cbn [fnext f]. lia.
  - intros p c Hp Hc. cbn [fnext f]. specialize (Hrange c (Hin p c Hp Hc)). lia.
  - intros p Hp. apply Hnd1, Hseq, Hp.
  - intros p q c Hp Hq Hcp Hcq. eapply Hnd2; eauto. apply seq_NoDup.
  - intros p Hp Hc. specialize (Hrange 0 (Hin p 0 Hp Hc)). lia.
  - change (flab f 0) with (flab (forest_of_tree t) 0). rewrite flab_root. destruct t; apply Hr.
  - change (flab f 0) with (flab (forest_of_tree t) 0). rewrite flab_root. destruct t; apply Hr.
  - intros n Hn Hc. destruct (Hent n Hn) as (e & E & [G1 _]). cbn [flab fkids f] in *. rewrite E in *.
    apply G1, Hc.
  - intros n Hn. destruct (Hent n Hn) as (e & E & [_ G2]). cbn [flab f]. rewrite E. exact G2.
Qed.

(* ------------------------------------------------------------------ *)
(** * Item trees                                                        *)
(* ------------------------------------------------------------------ *)
Fixpoint attrs_distinctb (x : item) : bool :=
  match x with
  | IElem _ a c => nodupb str_eqb (map fst a) && forallb attrs_distinctb c
  | _ => true
  end.

Definition is_elem_item (x : item) : bool := match x with IElem _ _ _ => true | _ => false end.

Lemma tree_of_item_good x : attrs_distinctb x = true -> forall tail, tree_goodb (tree_of_item x tail) = true.
Proof.
  induction x as [s | s | t a c IH] using item_ind'; intros H tail; try reflexivity.
  cbn [attrs_distinctb] in H. apply andb_true_iff in H as [H1 H2].
  cbn [tree_of_item tree_goodb]. apply andb_true_iff. split.
  - unfold node_okb. cbn [ltag lattrs is_comment negb orb andb]. exact H1.
  - clear H1. induction IH as [|y r Hy _ IHr]; [reflexivity|].
    cbn [forallb] in H2. apply andb_true_iff in H2 as [G1 G2].
    destruct y as [s | t' a' c' | s]; [apply IHr, G2| |].
    + cbn [forallb]. rewrite (Hy G1), (IHr G2). reflexivity.
    + cbn [forallb]. rewrite (Hy G1), (IHr G2). reflexivity.
Qed.

Lemma strip_items_distinct (f : item -> item) l :
  Forall (fun y => attrs_distinctb y = true -> attrs_distinctb (f y) = true) l ->
  forallb attrs_distinctb l = true ->
  forall e s, forallb attrs_distinctb (strip_items f e s l) = true.
Proof.
  induction 1 as [|y r Hy _ IHr]; intros H e s; [reflexivity|].
  cbn [forallb] in H. apply andb_true_iff in H as [G1 G2].
  destruct y as [t | t a c | t].
  - rewrite strip_items_text. destruct (_ && _); [apply IHr, G2|].
    cbn [forallb attrs_distinctb andb]. apply IHr, G2.
  - rewrite strip_items_node by reflexivity. cbn [forallb]. rewrite (Hy G1), (IHr G2). reflexivity.
  - rewrite strip_items_node by reflexivity. cbn [forallb]. rewrite (Hy G1), (IHr G2). reflexivity.
Qed.

Lemma strip_distinct x : attrs_distinctb x = true -> attrs_distinctb (strip_blank x) = true.
Proof.
  unfold strip_blank. induction x as [s | s | t a c IH] using item_ind'; intros H; try exact H.
  cbn [attrs_distinctb strip_item] in *. apply andb_true_iff in H as [H1 H2]. rewrite H1. cbn [andb].
  apply strip_items_distinct; assumption.
Qed.

Theorem forest_of_item_wf x :
  is_elem_item x = true -> attrs_distinctb x = true -> wf_forest (forest_of_item x) 0.
Proof.
  intros He Hd. apply forest_of_tree_wf; [apply tree_of_item_good, Hd|].
  destruct x; try discriminate. cbn. split; reflexivity.
Qed.

(* ------------------------------------------------------------------ *)
(** * Re-indentation is invisible to the differ when blanks are stripped *)
(* ------------------------------------------------------------------ *)
Theorem reindent_same_forest s T :
  layered T = true ->
  forest_of_item (strip_blank (reindent s T)) = forest_of_item (strip_blank T).
Proof. intros H. rewrite (reindent_invisible s T H). reflexivity. Qed.

Theorem reindent_empty_script :
  forall (sim : Type) (sim_ltb sim_leb : sim -> sim -> bool) (sim_is_one : sim -> bool)
         (zero one : sim) (leaf_sim : str -> str -> sim) (combine : sim -> nat -> nat -> sim)
         (o : mopts sim) (s : scheme) (T : item) (lns : nsmap),
  (forall s, sim_is_one (leaf_sim s s) = true) ->
  (forall m n, sim_is_one m = true -> 0 < n -> sim_is_one (combine m n n) = true) ->
  sim_is_one one = true ->
  (forall x, sim_is_one x = true -> sim_ltb zero x = true) ->
  (forall x, sim_is_one x = true -> sim_leb (oF sim o) x = true) ->
  (ofast sim o = true -> sim_leb (oF sim o) zero = false) ->
  (ofast sim o = true ->
   forall s t n x n', 0 < n -> sim_leb (oF sim o) (combine (leaf_sim s t) 0 n) = true ->
                      sim_is_one x = true -> 0 < n' ->
                      sim_leb (oF sim o) (combine x 0 n') = true) ->
  layered T = true -> is_elem_item T = true -> attrs_distinctb T = true ->
  (forall k v, In (k, v) lns -> ns_get lns k = Some v) ->
  let L := forest_of_item (strip_blank T) in
  let R := forest_of_item (strip_blank (reindent s T)) in
  wf_forest L 0 /\ R = L /\
  diff_model sim sim_ltb sim_leb sim_is_one zero one leaf_sim combine o L R 0 0 lns lns = Some ([], L).
Proof.
  intros sim sim_ltb sim_leb sim_is_one zero one leaf_sim combine o s T lns
         H1 H2 H3 H4 H5 H6 H7 Hlay Hel Hd Hns L R.
  assert (HR : R = L) by (apply reindent_same_forest, Hlay).
  assert (Hwf : wf_forest L 0).
  { apply forest_of_item_wf; [|apply strip_distinct, Hd]. destruct T; try discriminate. reflexivity. }
  split; [exact Hwf|]. split; [exact HR|]. rewrite HR.
  destruct (equal_docs_empty_script sim sim_ltb sim_leb sim_is_one zero one leaf_sim combine
              o L L 0 lns H1 H2 H3 H4 H5 H6 H7 Hwf (same_doc_refl L) Hns) as (m & Hm & _ & _ & Hdg).
  unfold diff_model. rewrite Hm. exact Hdg.
Qed.
