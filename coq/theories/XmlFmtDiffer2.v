(* XmlFmtDiffer2 -- what the differ's script is made of, visit by visit (for the formatter's side conditions).

   * [visit_xq]      the actions one visit of the breadth-first phase appends: the rename targets the partner the
                     right node had when the visit began, the text / tail updates the partner it has when the visit
                     ends, and they carry the tag / text / tail of the right node; attribute literals come from the
                     right node's attributes; no delete, no namespace action;
   * [bfs_parts]     the whole breadth-first phase as one block of actions per right node, each block with at most one
                     rename, one text update, one tail update, all aimed at the FINAL partner of the node;
   * [differ_script_side], [differ_budget], ...: the conditions of XmlFmtDiffer1 for [out (gen_script ..)].
   No axioms. *)
From Coq Require Import List NArith ZArith Bool Arith Lia.
Import ListNotations.
Require Import XV.Str XV.Json XV.TextFormat XV.Forest XV.LCS XV.Matcher XV.Differ XV.Spec XV.WF XV.ForestProofs XV.TreeProofs
               XV.AttrProofs XV.DifferFrame XV.DifferInv XV.DifferAlign XV.DifferCounters XV.DifferSound
               XV.Compose XV.ComposeProofs XV.PipelineProofs.
Local Open Scope nat_scope.

(* ------------------------------------------------------------------ *)
(** * One visit *)

Section VisitActs.
Variable ign : list str.
Variable R : forest.
Variable y : id.
Variables rf0 rf1 : id -> option id.

Definition vq (a : iact) : Prop :=
  match a with
  | IInsert _ tag _ _ => ltag (flab R y) = TElem tag
  | IInsertComment _ _ _ _ => ltag (flab R y) = TComment
  | IRename n tag => ltag (flab R y) = TElem tag /\ rf0 y = Some n
  | IText n t => t = ltext (flab R y) /\ rf1 y = Some n
  | ITail n t => t = ltail (flab R y) /\ rf1 y = Some n
  | IUpdAttr _ k v | IInsAttr _ k v => In (k, v) (lattrs (flab R y))
  | IRenAttr _ _ k' => In k' (map fst (lattrs (flab R y)))
  | IDelete _ | IInsNs _ _ | IDelNs _ => False
  | IMove _ _ _ | IDelAttr _ _ => True
  end.

Definition ext_q (s s' : st) : Prop := exists acts, out s' = out s ++ acts /\ Forall vq acts.

Lemma xq_refl s : ext_q s s.
Proof. exists []. rewrite app_nil_r. split; [reflexivity|constructor]. Qed.
Lemma xq_same s s' : out s' = out s -> ext_q s s'.
Proof. intros E. exists []. rewrite app_nil_r. split; [exact E|constructor]. Qed.
Lemma xq_one s s' a : out s' = out s ++ [a] -> vq a -> ext_q s s'.
Proof. intros E H. exists [a]. split; [exact E|]. constructor; [exact H|constructor]. Qed.
Lemma xq_trans s1 s2 s3 : ext_q s1 s2 -> ext_q s2 s3 -> ext_q s1 s3.
Proof.
  intros (a1 & E1 & F1) (a2 & E2 & F2). exists (a1 ++ a2).
  split; [rewrite E2, E1, app_assoc; reflexivity|]. apply Forall_app. split; assumption.
Qed.
Lemma xq_fold {K} (f : st -> K -> st) ks :
  (forall s k, In k ks -> ext_q s (f s k)) -> forall s, ext_q s (fold_left f ks s).
Proof.
  induction ks as [|k ks IH]; intros Hstep s; cbn [fold_left]; [apply xq_refl|].
  eapply xq_trans; [apply Hstep; left; reflexivity|]. apply IH. intros t x Hx. apply Hstep. right; exact Hx.
Qed.

Lemma upd_attr_xq s ln : ext_q s (upd_attr ign R s ln y).
Proof.
  destruct (upd_attr_lift ign R s ln y) as (E & _).
  eexists. split; [exact E|]. apply Forall_forall. intros a Ha.
  apply in_map_iff in Ha as (x & <- & Hx).
  pose proof (attr_run_lit ign (lattrs (labof R y)) (cur_attrs s ln)) as HF.
  rewrite Forall_forall in HF. specialize (HF x Hx).
  destruct x as [k v|k v|k|k k']; cbn [lift vq attr_lit] in *; auto.
Qed.

Lemma upd_tag_xq s ln : rf0 y = Some ln -> ext_q s (upd_tag R s ln y).
Proof.
  intros H0. unfold upd_tag. destruct (tag_eqb _ _); [apply xq_refl|].
  destruct (ltag (labof R y)) as [t|] eqn:Et; [|apply xq_same; reflexivity].
  eapply xq_one; [reflexivity|]. cbn [vq]. split; [exact Et|exact H0].
Qed.

Lemma upd_text_xq s ln : rf1 y = Some ln -> ext_q s (upd_text R s ln y).
Proof.
  intros H1. unfold upd_text.
  set (s1 := if ostr_eqb (ltext (labof (W s) ln)) (ltext (labof R y)) then s else _).
  assert (X1 : ext_q s s1).
  { unfold s1. destruct (ostr_eqb _ _); [apply xq_refl|]. eapply xq_one; [reflexivity|]. cbn [vq]. split; [reflexivity|exact H1]. }
  eapply xq_trans; [exact X1|]. cbv zeta.
  destruct (ostr_eqb (ltail (labof (W s1) ln)) (ltail (labof R y))); [apply xq_refl|].
  eapply xq_one; [reflexivity|]. cbn [vq]. split; [reflexivity|exact H1].
Qed.

Lemma align_body_xq s c : ext_q s (align_body R s c).
Proof.
  unfold align_body. destruct (inoL s c); [apply xq_refl|].
  destruct (l2r s c) as [r|]; [|apply xq_same; reflexivity].
  destruct (find_pos R s r) as [pos|]; [|apply xq_same; reflexivity].
  destruct (parentof R r) as [rt|]; [|apply xq_same; reflexivity].
  destruct (r2l s rt) as [lt|]; [|apply xq_same; reflexivity].
  eapply xq_one; [reflexivity|exact I].
Qed.

Lemma align_xq s ln rn : ext_q s (align R s ln rn).
Proof.
  rewrite align_unfold. cbv zeta. rewrite match_nil2.
  destruct (_ || _); [apply xq_refl|].
  destruct (lcs_seq _ _ _) as [ps|]; [|apply xq_same; reflexivity].
  eapply xq_trans; [|apply xq_fold; intros; apply align_body_xq].
  apply xq_same. apply fold_out_same. intros; reflexivity.
Qed.

Lemma finish_xq s ln : rf1 y = r2l (finish R s ln y) y -> ext_q s (finish R s ln y).
Proof.
  unfold finish. cbv zeta. intros H1. eapply xq_trans; [apply align_xq|].
  destruct (r2l (align R s ln y) y) as [ln'|] eqn:E; [|apply xq_same; reflexivity].
  apply upd_text_xq. rewrite H1.
  destruct (upd_text_fields R (align R s ln y) ln' y) as (_ & F2 & _). cbv zeta in F2. rewrite F2. exact E.
Qed.

Lemma visit_xq s : rf0 y = r2l s y -> rf1 y = r2l (visit ign R s y) y -> ext_q s (visit ign R s y).
Proof.
  intros H0 H1. rewrite visit_shape in *. cbv zeta in *.
  destruct (r2l s y) as [c|].
  - eapply xq_trans; [|apply finish_xq; exact H1]. eapply xq_trans; [|apply upd_attr_xq].
    eapply xq_trans; [|apply upd_tag_xq; exact H0].
    destruct (oid_eqb _ _); [apply xq_refl|].
    destruct (match parentof R y with Some rp => r2l s rp | None => None end) as [lt|];
      [|apply xq_same; reflexivity].
    destruct (find_pos R s y); [eapply xq_one; [reflexivity|exact I]|apply xq_same; reflexivity].
  - destruct (match parentof R y with Some rp => r2l s rp | None => None end) as [lt|];
      [|eapply xq_trans; [|apply finish_xq; exact H1]; apply xq_same; reflexivity].
    destruct (find_pos R s y) as [pos|];
      [|eapply xq_trans; [|apply finish_xq; exact H1]; apply xq_same; reflexivity].
    eapply xq_trans; [|apply finish_xq; exact H1]. eapply xq_trans; [|apply upd_attr_xq].
    eapply xq_one; [apply do_ins_out|].
    unfold new_act, labof. destruct (ltag (flab R y)) eqn:Et; cbn [fst vq]; first [reflexivity|exact Et|rewrite Et; reflexivity].
Qed.
End VisitActs.

Lemma vq_impl R y rf0 rf1 rf a :
  (forall n, rf0 y = Some n -> rf y = Some n) -> (forall n, rf1 y = Some n -> rf y = Some n) ->
  vq R y rf0 rf1 a -> vq R y rf rf a.
Proof. intros H0 H1. destruct a; cbn [vq]; try tauto; intros [A B]; split; auto. Qed.

(* ------------------------------------------------------------------ *)
(** * The breadth-first phase, one block per right node *)

Section Parts.
Variable ign : list str.
Variable R : forest.
Variables rootL rootR : id.
Hypothesis HwfR : wf_forest R rootR.
Variable Orig : id -> Prop.

Definition part_ok (rf : id -> option id) (p : id * list iact) : Prop :=
  Forall (vq R (fst p) rf rf) (snd p) /\
  cnt is_ren (snd p) <= 1 /\ cnt is_text (snd p) <= 1 /\ cnt is_tail (snd p) <= 1.

Lemma bfs_parts B : bfs_ok R rootR B -> forall rest P s,
  B = P ++ rest -> Inv R rootL rootR Orig P P P s ->
  let s' := fold_left (visit ign R) rest s in
  exists parts, out s' = out s ++ flat_map snd parts /\ map fst parts = rest /\
                Forall (part_ok (r2l s')) parts /\ (forall x, In x P -> r2l s' x = r2l s x) /\
                Inv R rootL rootR Orig B B B s'.
Proof.
  intros HB. induction rest as [|y rest IH]; intros P s E HI.
  - rewrite app_nil_r in E. subst P. cbn. exists []. cbn. rewrite app_nil_r. split; [reflexivity|]. split; [reflexivity|]. split; [constructor|]. split; [reflexivity|exact HI].
  - cbn [fold_left].
    destruct (bfs_prefix_facts R rootR HwfR B P y rest HB E) as (F1 & F2 & F3 & F4 & F5).
    destruct (visit_ok ign R rootL rootR HwfR Orig false
                (fun Pp Pa Pm s0 ln rn HI0 H1 H2 H3 H4 => proj1 (proj2 (align_ok R rootL rootR HwfR Orig Pp Pa Pm s0 ln rn HI0 H1 H2 H3 H4)))
                P s y HI F1 F2 F3 F4 F5) as (V1 & V2 & (ln & V3 & V4) & V5 & V6 & V7 & V8 & V9 & V10 & V11).
    set (s1 := visit ign R s y) in *.
    destruct (visit_xq ign R y (r2l s) (r2l s1) s eq_refl eq_refl) as (acts1 & E1 & Q1). fold s1 in E1.
    destruct (IH (P ++ [y]) s1) as (parts & E2 & Ep & FP & Hpres & HIB); [rewrite E, <- app_assoc; reflexivity|exact V1|].
    set (s' := fold_left (visit ign R) rest s1) in *.
    exists ((y, acts1) :: parts). cbn [flat_map map snd fst].
    split; [rewrite E2, E1, <- app_assoc; reflexivity|]. split; [now rewrite Ep|].
    split; [|split; [|exact HIB]].
    + constructor; [|exact FP]. unfold part_ok. cbn [fst snd].
      assert (Hy' : r2l s' y = r2l s1 y) by (apply Hpres, in_or_app; right; now left).
      split.
      * eapply Forall_impl; [|exact Q1]. intros a. apply vq_impl.
        -- intros n Hn. rewrite Hy'.
           apply (I_bij _ _ _ _ _ _ _ _ V1). rewrite V7.
           ++ apply (I_bij _ _ _ _ _ _ _ _ HI). exact Hn.
           ++ apply (Inv_r2l_lt _ _ _ HwfR _ _ _ _ _ HI _ _ Hn).
        -- intros n Hn. rewrite Hy'. exact Hn.
      * destruct V9 as (_ & _ & _ & D4 & D5 & D6 & _). rewrite E1, !cnt_app in D4, D5, D6. lia.
    + intros x Hx. rewrite Hpres by (apply in_or_app; now left). apply V5. intros ->. contradiction.
Qed.
End Parts.

(* the whole script: one block per right node in breadth-first order, then the deletes *)
Theorem gen_script_parts ign L R rootL rootR m :
  wf_forest L rootL -> wf_forest R rootR -> valid_matching L R rootL rootR m ->
  exists (rf : id -> option id) (parts : list (id * list iact)) (dels : list id),
    out (gen_script ign R rootR L rootL m) = flat_map snd parts ++ map IDelete dels /\
    map fst parts = bfs R (S (fnext R)) [rootR] /\
    Forall (part_ok R rf) parts /\
    (forall x x' w, rf x = Some w -> rf x' = Some w -> x = x').
Proof.
  intros HwfL HwfR Hvm.
  pose proof (Inv_init R rootL rootR HwfR (desc L rootL) L m HwfL Hvm (fun n H => H)) as HI0.
  set (B := bfs R (S (fnext R)) [rootR]).
  destruct (bfs_parts ign R rootL rootR HwfR (desc L rootL) B (bfs_spec R rootR HwfR) B [] (init_state L m) eq_refl HI0)
    as (parts & E1 & Ep & FP & _ & HIB).
  set (s1 := fold_left (visit ign R) B (init_state L m)) in *.
  destruct (delete_loop_out (rpost (S (fnext (W s1))) (W s1) rootL) s1) as [Eo _].
  exists (r2l s1), parts, (filter (unmb s1) (rpost (S (fnext (W s1))) (W s1) rootL)).
  split.
  - change (gen_script ign R rootR L rootL m) with (delete_phase rootL s1). rewrite delete_phase_unfold, Eo, E1. reflexivity.
  - split; [exact Ep|]. split; [exact FP|].
    intros x x' w H1 H2. exact (Inv_inj_r R rootL rootR (desc L rootL) B B B s1 HIB x x' w H1 H2).
Qed.
