(* json.loads (json.dumps v) = v on the values DiffFormatter emits, and the
   lexical shape of json.dumps output (printable ASCII, balanced for the
   DiffParser._split automaton).  Property C02. *)
From Coq Require Import List NArith ZArith Bool Lia.
Import ListNotations.
Require Import XV.Str XV.Json XV.StrProofs.
Local Open Scope N_scope.

(* Code points a Python str obtained from XML can hold: no surrogates. *)
Definition xml_char (c : N) : Prop := c < 55296 \/ (57344 <= c /\ c <= 1114111).
Definition xml_charb (c : N) : bool := (c <? 55296) || ((57344 <=? c) && (c <=? 1114111)).

Lemma xml_charb_spec c : xml_charb c = true <-> xml_char c.
Proof.
  unfold xml_charb, xml_char. rewrite orb_true_iff, andb_true_iff, N.ltb_lt, !N.leb_le.
  reflexivity.
Qed.

(* ---------- hex digits ---------- *)

Lemma hexd_range d : d < 16 -> 48 <= hexd d <= 57 \/ 97 <= hexd d <= 102.
Proof. intros H. unfold hexd. destruct (N.ltb_spec d 10); lia. Qed.

Lemma hexval_hexd d : d < 16 -> hexval (hexd d) = Some d.
Proof.
  intros H. unfold hexd. destruct (N.ltb_spec d 10) as [Hlt|Hge]; unfold hexval.
  - decide_cmp. cbn [andb]. f_equal; lia.
  - decide_cmp. cbn [andb]. f_equal; lia.
Qed.

Lemma hex4_sum n : n < 65536 ->
  (n / 4096) mod 16 * 4096 + (n / 256) mod 16 * 256 + (n / 16) mod 16 * 16 + n mod 16 = n.
Proof.
  intros H.
  assert (E1 : n / 4096 < 16) by (apply N.div_lt_upper_bound; lia).
  rewrite (N.mod_small (n / 4096) 16) by assumption.
  assert (E2 : n / 256 = (n / 4096) * 16 + (n / 256) mod 16).
  { replace (n / 4096) with (n / 256 / 16) by (rewrite N.div_div by lia; reflexivity).
    pose proof (N.div_mod (n / 256) 16). lia. }
  assert (E3 : n / 16 = (n / 256) * 16 + (n / 16) mod 16).
  { replace (n / 256) with (n / 16 / 16) by (rewrite N.div_div by lia; reflexivity).
    pose proof (N.div_mod (n / 16) 16). lia. }
  pose proof (N.div_mod n 16). lia.
Qed.

Lemma hex4val_hex4 n : n < 65536 ->
  hex4val (hexd ((n / 4096) mod 16)) (hexd ((n / 256) mod 16))
          (hexd ((n / 16) mod 16)) (hexd (n mod 16)) = Some n.
Proof.
  intros H. unfold hex4val.
  rewrite !hexval_hexd by (apply N.mod_lt; lia).
  f_equal. apply hex4_sum. exact H.
Qed.

(* ---------- scanstring on one escape unit ---------- *)

Lemma scan_plain c acc r :
  c <> 34 -> 32 <= c -> c <> 92 -> scanstring acc (c :: r) = scanstring (c :: acc) r.
Proof. intros H1 H2 H3. cbn [scanstring]. decide_cmp. reflexivity. Qed.

Lemma scan_u acc h1 h2 h3 h4 r u :
  hex4val h1 h2 h3 h4 = Some u ->
  (55296 <=? u) && (u <=? 56319) = false ->
  scanstring acc (92 :: 117 :: h1 :: h2 :: h3 :: h4 :: r) = scanstring (u :: acc) r.
Proof.
  intros H1 H2.
  change (scanstring acc (92 :: 117 :: h1 :: h2 :: h3 :: h4 :: r)) with
    (match hex4val h1 h2 h3 h4 with
     | None => None
     | Some u =>
         if (55296 <=? u) && (u <=? 56319) then
           match r with
           | b :: u' :: g1 :: g2 :: g3 :: g4 :: r3 =>
               if (b =? 92) && (u' =? 117) then
                 match hex4val g1 g2 g3 g4 with
                 | None => None
                 | Some u2 =>
                     if (56320 <=? u2) && (u2 <=? 57343)
                     then scanstring (65536 + (u - 55296) * 1024 + (u2 - 56320) :: acc) r3
                     else scanstring (u :: acc) r
                 end
               else scanstring (u :: acc) r
           | _ => scanstring (u :: acc) r
           end
         else scanstring (u :: acc) r
     end).
  rewrite H1, H2. reflexivity.
Qed.

Lemma scan_pair acc h1 h2 h3 h4 g1 g2 g3 g4 r u u2 :
  hex4val h1 h2 h3 h4 = Some u -> 55296 <= u <= 56319 ->
  hex4val g1 g2 g3 g4 = Some u2 -> 56320 <= u2 <= 57343 ->
  scanstring acc (92 :: 117 :: h1 :: h2 :: h3 :: h4 :: 92 :: 117 :: g1 :: g2 :: g3 :: g4 :: r)
  = scanstring (65536 + (u - 55296) * 1024 + (u2 - 56320) :: acc) r.
Proof.
  intros H1 R1 H2 R2.
  change (scanstring acc (92 :: 117 :: h1 :: h2 :: h3 :: h4 :: 92 :: 117 :: g1 :: g2 :: g3 :: g4 :: r)) with
    (match hex4val h1 h2 h3 h4 with
     | None => None
     | Some u =>
         if (55296 <=? u) && (u <=? 56319) then
           match hex4val g1 g2 g3 g4 with
           | None => None
           | Some u2 =>
               if (56320 <=? u2) && (u2 <=? 57343)
               then scanstring (65536 + (u - 55296) * 1024 + (u2 - 56320) :: acc) r
               else scanstring (u :: acc) (92 :: 117 :: g1 :: g2 :: g3 :: g4 :: r)
           end
         else scanstring (u :: acc) (92 :: 117 :: g1 :: g2 :: g3 :: g4 :: r)
     end).
  rewrite H1, H2. decide_cmp. reflexivity.
Qed.

Lemma uesc_eq n :
  uesc n = [92; 117; hexd ((n / 4096) mod 16); hexd ((n / 256) mod 16);
            hexd ((n / 16) mod 16); hexd (n mod 16)].
Proof. reflexivity. Qed.

Lemma scan_esc_char c acc r :
  xml_char c -> scanstring acc (esc_char c ++ r) = scanstring (c :: acc) r.
Proof.
  intros Hx. unfold esc_char.
  destruct (N.eqb_spec c 34) as [->|N34]; [reflexivity|].
  destruct (N.eqb_spec c 92) as [->|N92]; [reflexivity|].
  destruct (N.eqb_spec c 10) as [->|N10]; [reflexivity|].
  destruct (N.eqb_spec c 13) as [->|N13]; [reflexivity|].
  destruct (N.eqb_spec c 9) as [->|N9]; [reflexivity|].
  destruct (N.eqb_spec c 8) as [->|N8]; [reflexivity|].
  destruct (N.eqb_spec c 12) as [->|N12]; [reflexivity|].
  destruct ((32 <=? c) && (c <=? 126)) eqn:Hp.
  - apply andb_true_iff in Hp as [Hp1 Hp2]. apply N.leb_le in Hp1.
    cbn [app]. apply scan_plain; assumption.
  - destruct (N.ltb_spec c 65536) as [Hlt|Hge].
    + rewrite uesc_eq. cbn [app]. apply scan_u; [apply hex4val_hex4; exact Hlt|].
      unfold xml_char in Hx. apply andb_false_iff.
      destruct Hx as [Hx|Hx]; [left; apply N.leb_gt; lia|right; apply N.leb_gt; lia].
    + cbv zeta. unfold xml_char in Hx.
      assert (Hv : c - 65536 < 1048576) by lia.
      assert (Hq : (c - 65536) / 1024 < 1024) by (apply N.div_lt_upper_bound; lia).
      assert (Hm : (c - 65536) mod 1024 < 1024) by (apply N.mod_lt; lia).
      pose proof (N.div_mod (c - 65536) 1024) as Hdm.
      set (q := (c - 65536) / 1024) in *. set (m := (c - 65536) mod 1024) in *.
      rewrite !uesc_eq. cbn [app].
      rewrite (scan_pair acc _ _ _ _ _ _ _ _ r (55296 + q) (56320 + m));
        [ | apply hex4val_hex4; lia | lia | apply hex4val_hex4; lia | lia ].
      f_equal. f_equal. lia.
Qed.

Lemma scan_flat s : forall acc r,
  Forall xml_char s ->
  scanstring acc (flat_map esc_char s ++ 34 :: r) = Some (rev acc ++ s, r).
Proof.
  induction s as [|c s IH]; intros acc r H.
  - cbn [flat_map app scanstring]. change (34 =? 34) with true. cbv match.
    rewrite app_nil_r. reflexivity.
  - inversion H as [|? ? Hc Hs]; subst.
    cbn [flat_map]. rewrite <- app_assoc. rewrite scan_esc_char by assumption.
    rewrite IH by assumption. cbn [rev]. rewrite <- app_assoc. reflexivity.
Qed.

Theorem loads_dumps_str s : Forall xml_char s -> loads (dumps_str s) = JVal (PStr s).
Proof.
  intros H. unfold loads, dumps_str.
  change (skip_ws (34 :: flat_map esc_char s ++ [34])) with (34 :: flat_map esc_char s ++ [34]).
  change (34 =? 34) with true. cbv match.
  rewrite scan_flat by assumption. reflexivity.
Qed.

Lemma loads_null : loads j_null = JVal PNone.
Proof. reflexivity. Qed.

(* ---------- lexical shape of dumps_str ---------- *)

Definition printable (c : N) : Prop := 32 <= c <= 126.

Lemma hexd_printable d : d < 16 -> printable (hexd d).
Proof. intros H. pose proof (hexd_range d H). unfold printable. lia. Qed.

Lemma uesc_printable n : Forall printable (uesc n).
Proof.
  rewrite uesc_eq.
  repeat (constructor; [first [unfold printable; lia | apply hexd_printable, N.mod_lt; lia]|]).
  constructor.
Qed.

Lemma esc_char_printable c : Forall printable (esc_char c).
Proof.
  unfold esc_char.
  destruct (c =? 34); [repeat constructor; unfold printable; lia|].
  destruct (c =? 92); [repeat constructor; unfold printable; lia|].
  destruct (c =? 10); [repeat constructor; unfold printable; lia|].
  destruct (c =? 13); [repeat constructor; unfold printable; lia|].
  destruct (c =? 9); [repeat constructor; unfold printable; lia|].
  destruct (c =? 8); [repeat constructor; unfold printable; lia|].
  destruct (c =? 12); [repeat constructor; unfold printable; lia|].
  destruct ((32 <=? c) && (c <=? 126)) eqn:Hp.
  - apply andb_true_iff in Hp as [Hp1 Hp2]. apply N.leb_le in Hp1. apply N.leb_le in Hp2.
    constructor; [unfold printable; lia|constructor].
  - destruct (c <? 65536); [apply uesc_printable|].
    cbv zeta. apply Forall_app. split; apply uesc_printable.
Qed.

Lemma dumps_str_printable s : Forall printable (dumps_str s).
Proof.
  unfold dumps_str. constructor; [unfold printable; lia|].
  apply Forall_app. split.
  - induction s as [|c s IH]; [constructor|].
    cbn [flat_map]. apply Forall_app. split; [apply esc_char_printable|exact IH].
  - constructor; [unfold printable; lia|constructor].
Qed.

Lemma dumps_str_no_lb s : no_lb (dumps_str s).
Proof.
  eapply Forall_impl; [|apply dumps_str_printable].
  intros c Hc. apply is_linebreak_printable. exact Hc.
Qed.

Lemma strip_dumps_str s : strip (dumps_str s) = dumps_str s.
Proof. unfold dumps_str. apply strip_delimited; reflexivity. Qed.

(* The automaton of DiffParser._split inside a string literal:
   None = the literal was left; Some e = still inside, e = "escaped" flag. *)
Fixpoint instr (s : str) (esc : bool) : option bool :=
  match s with
  | [] => Some esc
  | c :: r => if esc then instr r false
              else if c =? 92 then instr r true
              else if c =? 34 then None
              else instr r false
  end.

Lemma instr_app a : forall b e e1, instr a e = Some e1 -> instr (a ++ b) e = instr b e1.
Proof.
  induction a as [|c a IH]; intros b e e1 H.
  - cbn [instr] in H. injection H as ->. reflexivity.
  - cbn [app instr] in *. destruct e; [apply IH; exact H|].
    destruct (c =? 92); [apply IH; exact H|].
    destruct (c =? 34); [discriminate|apply IH; exact H].
Qed.

Lemma instr_plain c r : c <> 92 -> c <> 34 -> instr (c :: r) false = instr r false.
Proof. intros H1 H2. cbn [instr]. decide_cmp. reflexivity. Qed.

Lemma instr_hexd d r : d < 16 -> instr (hexd d :: r) false = instr r false.
Proof. intros H. pose proof (hexd_range d H). apply instr_plain; lia. Qed.

Lemma instr_uesc n r : instr (uesc n ++ r) false = instr r false.
Proof.
  rewrite uesc_eq. cbn [app].
  change (instr (92 :: 117 :: ?x) false) with (instr x false).
  rewrite !instr_hexd by (apply N.mod_lt; lia). reflexivity.
Qed.

Lemma instr_esc_char c r : instr (esc_char c ++ r) false = instr r false.
Proof.
  unfold esc_char.
  destruct (N.eqb_spec c 34) as [->|N34]; [reflexivity|].
  destruct (N.eqb_spec c 92) as [->|N92]; [reflexivity|].
  destruct (c =? 10); [reflexivity|].
  destruct (c =? 13); [reflexivity|].
  destruct (c =? 9); [reflexivity|].
  destruct (c =? 8); [reflexivity|].
  destruct (c =? 12); [reflexivity|].
  destruct ((32 <=? c) && (c <=? 126)).
  - cbn [app]. apply instr_plain; assumption.
  - destruct (c <? 65536); [apply instr_uesc|].
    cbv zeta. rewrite <- app_assoc, !instr_uesc. reflexivity.
Qed.

Lemma instr_flat s : instr (flat_map esc_char s) false = Some false.
Proof.
  induction s as [|c s IH]; [reflexivity|].
  cbn [flat_map]. rewrite instr_esc_char. exact IH.
Qed.
