(* Executable Gallina model of the text-diff engine bundled with xmldiff
   (xmldiff/diff_match_patch.py: diff_main and everything it calls, and
   diff_cleanupSemantic) and of the two post-processing steps of the XML
   formatter (formatting.py: XMLFormatter._realign_placeholders and
   _join_delete_insert).

   NO PROOFS IN THIS FILE.  Lemmas live in DMPBase.v / DMPMerge.v / ... and the
   property statements in Properties/C16.v.

   Conventions
   * a Python str is a [list N] of code points; a diff is a [list (op * str)];
   * Python indices are [Z]; negative indices and slices behave as in Python
     ([py_get], [py_set], [slice], ...): an index out of range is [Err IndexError];
   * every [while] loop is [loop fuel step init]: [step] is the loop test
     followed by the loop body; running out of fuel is [Err OutOfFuel];
   * the wall clock: diff_main reads time.time() once to fix the deadline; each
     later test [time.time() > deadline] (only diff_bisect has one) is answered
     by the oracle [clock : nat -> bool] (true = deadline passed), indexed by a
     counter of tests made so far that is threaded through the recursion;
   * str.isalnum / str.isspace (used only by the cosmetic scoring function of
     diff_cleanupSemanticLossless) are parameters [cc : charcls]. *)
From Coq Require Import List ZArith NArith Bool Lia.
Import ListNotations.
Local Open Scope Z_scope.

(* ------------------------------------------------------------------ *)
(** * Results and errors *)

Inductive error := OutOfFuel | IndexError | AssertionError | UnboundLocalError | TypeError | Unsupported.
Inductive result (A : Type) := Ok (a : A) | Err (e : error).
Arguments Ok {A} a.
Arguments Err {A} e.

Definition bind {A B} (r : result A) (f : A -> result B) : result B :=
  match r with Ok a => f a | Err e => Err e end.

Notation "x <- e1 ;; e2" := (bind e1 (fun x => e2))
  (at level 61, e1 at next level, right associativity).
Notation "' p <- e1 ;; e2" := (bind e1 (fun x => let 'p := x in e2))
  (at level 61, p pattern, e1 at next level, right associativity).

(* while-loops: [step s] = inl s' (next iteration) | inr r (loop left with r) *)
Fixpoint loop {St R : Type} (fuel : nat) (step : St -> result (St + R)) (s : St) : result R :=
  match fuel with
  | O => Err OutOfFuel
  | S f => match step s with
           | Err e => Err e
           | Ok (inl s') => loop f step s'
           | Ok (inr r) => Ok r
           end
  end.

(* for-loops over a precomputed range; the body may leave early with inr *)
Fixpoint for_loop {St R A : Type} (xs : list A) (body : A -> St -> result (St + R)) (s : St)
  : result (St + R) :=
  match xs with
  | [] => Ok (inl s)
  | x :: r => match body x s with
              | Err e => Err e
              | Ok (inl s') => for_loop r body s'
              | Ok (inr v) => Ok (inr v)
              end
  end.

(* ------------------------------------------------------------------ *)
(** * Strings, Python indexing and slicing *)

Notation str := (list N).

Definition zlen {A} (l : list A) : Z := Z.of_nat (length l).

Fixpoint str_eqb (a b : str) : bool :=
  match a, b with
  | [], [] => true
  | x :: a', y :: b' => N.eqb x y && str_eqb a' b'
  | _, _ => false
  end.

(* normalisation of a slice bound *)
Definition clampi (len i : Z) : Z := if i <? 0 then Z.max 0 (i + len) else Z.min i len.

(* s[i:] , s[:j] , s[i:j] *)
Definition slice_from {A} (s : list A) (i : Z) : list A := skipn (Z.to_nat (clampi (zlen s) i)) s.
Definition slice_to {A} (s : list A) (j : Z) : list A := firstn (Z.to_nat (clampi (zlen s) j)) s.
Definition slice {A} (s : list A) (i j : Z) : list A :=
  let i' := clampi (zlen s) i in
  let j' := clampi (zlen s) j in
  firstn (Z.to_nat (j' - i')) (skipn (Z.to_nat i') s).

(* normalisation of an index (l[i]) *)
Definition normi (len i : Z) : Z := if i <? 0 then i + len else i.
Definition in_range (len i : Z) : bool := (0 <=? i) && (i <? len).

Definition py_get {A} (l : list A) (i : Z) : result A :=
  let i' := normi (zlen l) i in
  if in_range (zlen l) i' then
    match nth_error l (Z.to_nat i') with Some x => Ok x | None => Err IndexError end
  else Err IndexError.

Definition py_set {A} (l : list A) (i : Z) (v : A) : result (list A) :=
  let i' := normi (zlen l) i in
  if in_range (zlen l) i' then
    Ok (firstn (Z.to_nat i') l ++ v :: skipn (S (Z.to_nat i')) l)
  else Err IndexError.

Definition py_del {A} (l : list A) (i : Z) : result (list A) :=
  let i' := normi (zlen l) i in
  if in_range (zlen l) i' then
    Ok (firstn (Z.to_nat i') l ++ skipn (S (Z.to_nat i')) l)
  else Err IndexError.

(* list.insert never fails: the position is clamped like a slice bound *)
Definition py_insert {A} (l : list A) (i : Z) (v : A) : list A :=
  let i' := Z.to_nat (clampi (zlen l) i) in
  firstn i' l ++ v :: skipn i' l.

(* l[i:j] = new *)
Definition py_slice_assign {A} (l : list A) (i j : Z) (new : list A) : list A :=
  let i' := clampi (zlen l) i in
  let j' := Z.max i' (clampi (zlen l) j) in
  firstn (Z.to_nat i') l ++ new ++ skipn (Z.to_nat j') l.

(* l.pop() with the popped value discarded *)
Definition py_pop {A} (l : list A) : result (list A) :=
  match l with [] => Err IndexError | _ => Ok (removelast l) end.

(* str.startswith / str.find / str.endswith *)
Fixpoint prefixb (p s : str) : bool :=
  match p, s with
  | [], _ => true
  | x :: p', y :: s' => N.eqb x y && prefixb p' s'
  | _ :: _, [] => false
  end.

Fixpoint find_aux (p s : str) (i : Z) : Z :=
  if prefixb p s then i
  else match s with [] => -1 | _ :: s' => find_aux p s' (i + 1) end.

(* s.find(p, start) *)
Definition find_from (p s : str) (start : Z) : Z :=
  let st := clampi (zlen s) start in
  if zlen s <? start then -1 else find_aux p (skipn (Z.to_nat st) s) st.
Definition find (p s : str) : Z := find_from p s 0.

Definition endswithb (s p : str) : bool :=
  (zlen p <=? zlen s) && str_eqb (skipn (length s - length p) s) p.

(* ------------------------------------------------------------------ *)
(** * Diffs *)

Inductive op := DELETE | INSERT | EQUAL.      (* -1, 1, 0 *)
Definition op_code (o : op) : Z := match o with DELETE => -1 | INSERT => 1 | EQUAL => 0 end.
Definition is_insert (o : op) : bool := match o with INSERT => true | _ => false end.
Definition is_delete (o : op) : bool := match o with DELETE => true | _ => false end.
Definition is_equal (o : op) : bool := match o with EQUAL => true | _ => false end.
Notation seg := (op * str)%type.

(* ------------------------------------------------------------------ *)
(** * diff_commonPrefix, diff_commonSuffix, diff_commonOverlap *)

Definition cp_step (t1 t2 : str) (s : Z * Z * Z * Z) : result ((Z * Z * Z * Z) + Z) :=
  let '(pmin, pmax, pmid, pstart) := s in
  if pmin <? pmid then
    let '(pmin, pmax, pstart) :=
      if str_eqb (slice t1 pstart pmid) (slice t2 pstart pmid)
      then (pmid, pmax, pmid) else (pmin, pmid, pstart) in
    Ok (inl (pmin, pmax, (pmax - pmin) / 2 + pmin, pstart))
  else Ok (inr pmid).

Definition commonPrefix (t1 t2 : str) : result Z :=
  match t1, t2 with
  | x :: _, y :: _ =>
      if N.eqb x y then
        let m := Z.min (zlen t1) (zlen t2) in
        loop (Z.to_nat (2 * m + 3)) (cp_step t1 t2) (0, m, m, 0)
      else Ok 0
  | _, _ => Ok 0
  end.

Definition cs_step (t1 t2 : str) (s : Z * Z * Z * Z) : result ((Z * Z * Z * Z) + Z) :=
  let '(pmin, pmax, pmid, pend) := s in
  if pmin <? pmid then
    let '(pmin, pmax, pend) :=
      if str_eqb (slice t1 (- pmid) (zlen t1 - pend)) (slice t2 (- pmid) (zlen t2 - pend))
      then (pmid, pmax, pmid) else (pmin, pmid, pend) in
    Ok (inl (pmin, pmax, (pmax - pmin) / 2 + pmin, pend))
  else Ok (inr pmid).

Definition commonSuffix (t1 t2 : str) : result Z :=
  match t1, t2 with
  | [], _ | _, [] => Ok 0
  | _, _ =>
      c1 <- py_get t1 (-1) ;;
      c2 <- py_get t2 (-1) ;;
      if N.eqb c1 c2 then
        let m := Z.min (zlen t1) (zlen t2) in
        loop (Z.to_nat (2 * m + 3)) (cs_step t1 t2) (0, m, m, 0)
      else Ok 0
  end.

Definition co_step (t1 t2 : str) (s : Z * Z) : result ((Z * Z) + Z) :=
  let '(best, length) := s in
  let pattern := slice_from t1 (- length) in
  let found := find pattern t2 in
  if found =? -1 then Ok (inr best)
  else
    let length := length + found in
    if (found =? 0) || str_eqb (slice_from t1 (- length)) (slice_to t2 length)
    then Ok (inl (length, length + 1))
    else Ok (inl (best, length)).

Definition commonOverlap (text1 text2 : str) : result Z :=
  let l1 := zlen text1 in
  let l2 := zlen text2 in
  if (l1 =? 0) || (l2 =? 0) then Ok 0
  else
    let t1 := if l1 >? l2 then slice_from text1 (- l2) else text1 in
    let t2 := if l1 >? l2 then text2 else if l1 <? l2 then slice_to text2 l1 else text2 in
    let text_length := Z.min l1 l2 in
    if str_eqb t1 t2 then Ok text_length
    else loop (Z.to_nat (text_length + 2)) (co_step t1 t2) (0, 1).

(* ------------------------------------------------------------------ *)
(** * diff_halfMatch (Diff_Timeout = 1.0 > 0, as the formatter leaves it) *)

Definition hm_t := (str * str * str * str * str)%type.

Definition hm_common (h : option hm_t) : str :=
  match h with None => [] | Some (_, _, _, _, c) => c end.

Definition hmi_step (longtext shorttext seed : str) (i : Z) (s : Z * option hm_t)
  : result ((Z * option hm_t) + option hm_t) :=
  let '(j, best) := s in
  if negb (j =? -1) then
    pl <- commonPrefix (slice_from longtext i) (slice_from shorttext j) ;;
    sl <- commonSuffix (slice_to longtext i) (slice_to shorttext j) ;;
    let best' :=
      if zlen (hm_common best) <? sl + pl then
        Some (slice_to longtext (i - sl), slice_from longtext (i + pl),
              slice_to shorttext (j - sl), slice_from shorttext (j + pl),
              slice shorttext (j - sl) j ++ slice shorttext j (j + pl))
      else best in
    Ok (inl (find_from seed shorttext (j + 1), best'))
  else Ok (inr best).

Definition halfMatchI (longtext shorttext : str) (i : Z) : result (option hm_t) :=
  let seed := slice longtext i (i + zlen longtext / 4) in
  best <- loop (Z.to_nat (zlen shorttext + 2)) (hmi_step longtext shorttext seed i)
               (find seed shorttext, None) ;;
  if zlen (hm_common best) * 2 >=? zlen longtext then
    match best with
    | None => Err UnboundLocalError      (* best_longtext_a was never assigned *)
    | Some h => Ok (Some h)
    end
  else Ok None.

Definition halfMatch (text1 text2 : str) : result (option hm_t) :=
  let swap := zlen text1 >? zlen text2 in
  let longtext := if swap then text1 else text2 in
  let shorttext := if swap then text2 else text1 in
  if (zlen longtext <? 4) || (zlen shorttext * 2 <? zlen longtext) then Ok None
  else
    hm1 <- halfMatchI longtext shorttext ((zlen longtext + 3) / 4) ;;
    hm2 <- halfMatchI longtext shorttext ((zlen longtext + 1) / 2) ;;
    let hm :=
      match hm1, hm2 with
      | None, None => None
      | Some h, None => Some h
      | None, Some h => Some h
      | Some h1, Some h2 => if zlen (hm_common hm1) >? zlen (hm_common hm2) then Some h1 else Some h2
      end in
    match hm with
    | None => Ok None
    | Some (la, lb, sa, sb, c) => if swap then Ok (Some (la, lb, sa, sb, c)) else Ok (Some (sa, sb, la, lb, c))
    end.

(* ------------------------------------------------------------------ *)
(** * diff_bisect (without the recursive calls of diff_bisectSplit) *)

Definition range2 (a b : Z) : list Z :=       (* range(a, b, 2) *)
  map (fun i => a + 2 * Z.of_nat i) (seq 0 (Z.to_nat ((b - a + 1) / 2))).

Inductive kres := KFound (x y : Z) | KNone.

Section Bisect.
  Variables text1 text2 : str.
  Let n1 := zlen text1.
  Let n2 := zlen text2.
  Let max_d := (n1 + n2 + 1) / 2.
  Let v_offset := max_d.
  Let v_length := 2 * max_d.
  Let delta := n1 - n2.
  Let front := negb (delta mod 2 =? 0).

  (* while x1 < text1_length and y1 < text2_length and text1[x1] == text2[y1] *)
  Definition snake1_step (s : Z * Z) : result ((Z * Z) + (Z * Z)) :=
    let '(x, y) := s in
    if (x <? n1) && (y <? n2) then
      c1 <- py_get text1 x ;;
      c2 <- py_get text2 y ;;
      if N.eqb c1 c2 then Ok (inl (x + 1, y + 1)) else Ok (inr (x, y))
    else Ok (inr (x, y)).

  (* ... and text1[-x2 - 1] == text2[-y2 - 1] *)
  Definition snake2_step (s : Z * Z) : result ((Z * Z) + (Z * Z)) :=
    let '(x, y) := s in
    if (x <? n1) && (y <? n2) then
      c1 <- py_get text1 (- x - 1) ;;
      c2 <- py_get text2 (- y - 1) ;;
      if N.eqb c1 c2 then Ok (inl (x + 1, y + 1)) else Ok (inr (x, y))
    else Ok (inr (x, y)).

  Definition snake_fuel : nat := Z.to_nat (n1 + n2 + 3).

  (* x = v[k_offset + 1] or v[k_offset - 1] + 1 *)
  Definition pick_x (v : list Z) (d k k_offset : Z) : result Z :=
    down <- (if k =? - d then Ok true
             else if negb (k =? d) then
                    a <- py_get v (k_offset - 1) ;;
                    b <- py_get v (k_offset + 1) ;;
                    Ok (a <? b)
                  else Ok false) ;;
    if down then py_get v (k_offset + 1)
    else a <- py_get v (k_offset - 1) ;; Ok (a + 1).

  (* state of one k-loop: (v, kstart, kend) *)
  Definition k1_body (v2 : list Z) (d : Z) (k1 : Z) (s : list Z * Z * Z)
    : result ((list Z * Z * Z) + (Z * Z)) :=
    let '(v1, k1start, k1end) := s in
    let k1_offset := v_offset + k1 in
    x1 <- pick_x v1 d k1 k1_offset ;;
    let y1 := x1 - k1 in
    '(x1, y1) <- loop snake_fuel snake1_step (x1, y1) ;;
    v1 <- py_set v1 k1_offset x1 ;;
    if x1 >? n1 then Ok (inl (v1, k1start, k1end + 2))
    else if y1 >? n2 then Ok (inl (v1, k1start + 2, k1end))
    else if front then
      let k2_offset := v_offset + delta - k1 in
      if (k2_offset >=? 0) && (k2_offset <? v_length) then
        e <- py_get v2 k2_offset ;;
        if negb (e =? -1) then
          let x2 := n1 - e in
          if x1 >=? x2 then Ok (inr (x1, y1)) else Ok (inl (v1, k1start, k1end))
        else Ok (inl (v1, k1start, k1end))
      else Ok (inl (v1, k1start, k1end))
    else Ok (inl (v1, k1start, k1end)).

  Definition k2_body (v1 : list Z) (d : Z) (k2 : Z) (s : list Z * Z * Z)
    : result ((list Z * Z * Z) + (Z * Z)) :=
    let '(v2, k2start, k2end) := s in
    let k2_offset := v_offset + k2 in
    x2 <- pick_x v2 d k2 k2_offset ;;
    let y2 := x2 - k2 in
    '(x2, y2) <- loop snake_fuel snake2_step (x2, y2) ;;
    v2 <- py_set v2 k2_offset x2 ;;
    if x2 >? n1 then Ok (inl (v2, k2start, k2end + 2))
    else if y2 >? n2 then Ok (inl (v2, k2start + 2, k2end))
    else if negb front then
      let k1_offset := v_offset + delta - k2 in
      if (k1_offset >=? 0) && (k1_offset <? v_length) then
        e <- py_get v1 k1_offset ;;
        if negb (e =? -1) then
          let x1 := e in
          let y1 := v_offset + x1 - k1_offset in
          let x2 := n1 - x2 in
          if x1 >=? x2 then Ok (inr (x1, y1)) else Ok (inl (v2, k2start, k2end))
        else Ok (inl (v2, k2start, k2end))
      else Ok (inl (v2, k2start, k2end))
    else Ok (inl (v2, k2start, k2end)).

  (* state of the d-loop: d, v1, v2, k1start, k1end, k2start, k2end, clock tests so far *)
  Definition bstate := (Z * list Z * list Z * Z * Z * Z * Z * nat)%type.

  Definition d_step (clock : nat -> bool) (s : bstate) : result (bstate + (kres * nat)) :=
    let '(d, v1, v2, k1start, k1end, k2start, k2end, tick) := s in
    if negb (d <? max_d) then Ok (inr (KNone, tick))      (* range(max_d) exhausted *)
    else if clock tick then Ok (inr (KNone, S tick))      (* time.time() > deadline: break *)
    else
      let tick := S tick in
      r1 <- for_loop (range2 (- d + k1start) (d + 1 - k1end)) (k1_body v2 d) (v1, k1start, k1end) ;;
      match r1 with
      | inr (x, y) => Ok (inr (KFound x y, tick))
      | inl (v1, k1start, k1end) =>
          r2 <- for_loop (range2 (- d + k2start) (d + 1 - k2end)) (k2_body v1 d) (v2, k2start, k2end) ;;
          match r2 with
          | inr (x, y) => Ok (inr (KFound x y, tick))
          | inl (v2, k2start, k2end) =>
              Ok (inl (d + 1, v1, v2, k1start, k1end, k2start, k2end, tick))
          end
      end.

  Definition bisect_core (clock : nat -> bool) (tick : nat) : result (kres * nat) :=
    let v0 := repeat (-1) (Z.to_nat v_length) in
    v1 <- py_set v0 (v_offset + 1) 0 ;;
    let v2 := v1 in
    loop (Z.to_nat (max_d + 1)) (d_step clock) (0, v1, v2, 0, 0, 0, 0, tick).
End Bisect.

(* ------------------------------------------------------------------ *)
(** * diff_cleanupMerge *)

(* first pass; state: diffs, pointer, count_delete, count_insert, text_delete, text_insert *)
Definition mstate := (list seg * Z * Z * Z * str * str)%type.

(* "Factor out any common prefixies." *)
Definition merge_prefix (d : list seg) (p cd ci : Z) (td ti : str) : result (list seg * Z * str * str) :=
  cl <- commonPrefix ti td ;;
  if negb (cl =? 0) then
    let x := p - cd - ci - 1 in
    c <- (if x >=? 0 then '(ox, _) <- py_get d x ;; Ok (is_equal ox) else Ok false) ;;
    '(d, p) <- (if c then
                  '(ox, tx) <- py_get d x ;;
                  d' <- py_set d x (ox, tx ++ slice_to ti cl) ;;
                  Ok (d', p)
                else Ok (py_insert d 0 (EQUAL, slice_to ti cl), p + 1)) ;;
    Ok (d, p, slice_from td cl, slice_from ti cl)
  else Ok (d, p, td, ti).

(* "Factor out any common suffixies." *)
Definition merge_suffix (d : list seg) (p : Z) (td ti : str) : result (list seg * str * str) :=
  cl <- commonSuffix ti td ;;
  if negb (cl =? 0) then
    '(o, t) <- py_get d p ;;
    d' <- py_set d p (o, slice_from ti (- cl) ++ t) ;;
    Ok (d', slice_to td (- cl), slice_to ti (- cl))
  else Ok (d, td, ti).

Definition merge_new_ops (td ti : str) : list seg :=
  (if negb (zlen td =? 0) then [(DELETE, td)] else []) ++
  (if negb (zlen ti =? 0) then [(INSERT, ti)] else []).

Definition merge1_step (s : mstate) : result (mstate + list seg) :=
  let '(d, p, cd, ci, td, ti) := s in
  if negb (p <? zlen d) then Ok (inr d)
  else
    '(o, t) <- py_get d p ;;
    match o with
    | INSERT => Ok (inl (d, p + 1, cd, ci + 1, td, ti ++ t))
    | DELETE => Ok (inl (d, p + 1, cd + 1, ci, td ++ t, ti))
    | EQUAL =>
        if cd + ci >? 1 then
          '(d, p, td, ti) <-
             (if negb (cd =? 0) && negb (ci =? 0) then
                '(d, p, td, ti) <- merge_prefix d p cd ci td ti ;;
                '(d, td, ti) <- merge_suffix d p td ti ;;
                Ok (d, p, td, ti)
              else Ok (d, p, td, ti)) ;;
          let new_ops := merge_new_ops td ti in
          let p := p - (cd + ci) in
          let d := py_slice_assign d p (p + cd + ci) new_ops in
          Ok (inl (d, p + zlen new_ops + 1, 0, 0, [], []))
        else
          c <- (if negb (p =? 0) then '(o', _) <- py_get d (p - 1) ;; Ok (is_equal o') else Ok false) ;;
          if c then
            '(o1, t1) <- py_get d (p - 1) ;;
            '(_, t0) <- py_get d p ;;
            d' <- py_set d (p - 1) (o1, t1 ++ t0) ;;
            d'' <- py_del d' p ;;
            Ok (inl (d'', p, 0, 0, [], []))
          else Ok (inl (d, p + 1, 0, 0, [], []))
    end.

(* second pass; state: diffs, pointer, changes *)
Definition merge2_step (s : list seg * Z * bool) : result ((list seg * Z * bool) + (list seg * bool)) :=
  let '(d, p, changes) := s in
  if negb (p <? zlen d - 1) then Ok (inr (d, changes))
  else
    '(o0, t0) <- py_get d (p - 1) ;;
    '(o2, t2) <- py_get d (p + 1) ;;
    if is_equal o0 && is_equal o2 then
      '(o1, t1) <- py_get d p ;;
      if endswithb t1 t0 then
        d <- (if negb (str_eqb t0 []) then
                d' <- py_set d p (o1, t0 ++ slice_to t1 (- zlen t0)) ;;
                py_set d' (p + 1) (o2, t0 ++ t2)
              else Ok d) ;;
        d <- py_del d (p - 1) ;;
        Ok (inl (d, p + 1, true))
      else if prefixb t2 t1 then
        d <- py_set d (p - 1) (o0, t0 ++ t2) ;;
        d <- py_set d p (o1, slice_from t1 (zlen t2) ++ t2) ;;
        d <- py_del d (p + 1) ;;
        Ok (inl (d, p + 1, true))
      else Ok (inl (d, p + 1, changes))
    else Ok (inl (d, p + 1, changes)).

Definition merge_once (d : list seg) : result (list seg * bool) :=
  let d := d ++ [(EQUAL, [])] in
  d <- loop (S (length d)) merge1_step (d, 0, 0, 0, [], []) ;;
  '(_, tl) <- py_get d (-1) ;;
  d <- (if str_eqb tl [] then py_pop d else Ok d) ;;
  loop (S (length d)) merge2_step (d, 1, false).

(* "If shifts were made, the diff needs reordering and another shift sweep." *)
Fixpoint cleanupMerge_f (fuel : nat) (d : list seg) : result (list seg) :=
  match fuel with
  | O => Err OutOfFuel
  | S f => '(d, changes) <- merge_once d ;;
           if changes then cleanupMerge_f f d else Ok d
  end.

Definition total_len (d : list seg) : nat := fold_right (fun s n => (length (snd s) + n)%nat) O d.

Definition cleanupMerge (d : list seg) : result (list seg) :=
  cleanupMerge_f (length d + total_len d + 3) d.

(* ------------------------------------------------------------------ *)
(** * diff_cleanupSemanticLossless *)

Record charcls := { isalnum : N -> bool; isspace : N -> bool }.

Definition last_opt {A} (l : list A) : option A :=
  match l with [] => None | _ => nth_error l (length l - 1) end.

Definition CR : N := 13%N.
Definition LF : N := 10%N.

(* BLANKLINEEND = \n\r?\n$  (search)      BLANKLINESTART = ^\r?\n\r?\n  (match) *)
Definition blank_line_end (one : str) : bool :=
  endswithb one [LF; LF] || endswithb one [LF; CR; LF].
Definition blank_line_start (two : str) : bool :=
  prefixb [LF; LF] two || prefixb [LF; CR; LF] two || prefixb [CR; LF; LF] two || prefixb [CR; LF; CR; LF] two.

Definition semantic_score (cc : charcls) (one two : str) : Z :=
  match last_opt one, two with
  | None, _ | _, [] => 6
  | Some char1, char2 :: _ =>
      let nonAlphaNumeric1 := negb (isalnum cc char1) in
      let nonAlphaNumeric2 := negb (isalnum cc char2) in
      let whitespace1 := nonAlphaNumeric1 && isspace cc char1 in
      let whitespace2 := nonAlphaNumeric2 && isspace cc char2 in
      let lineBreak1 := whitespace1 && (N.eqb char1 CR || N.eqb char1 LF) in
      let lineBreak2 := whitespace2 && (N.eqb char2 CR || N.eqb char2 LF) in
      let blankLine1 := lineBreak1 && blank_line_end one in
      let blankLine2 := lineBreak2 && blank_line_start two in
      if blankLine1 || blankLine2 then 5
      else if lineBreak1 || lineBreak2 then 4
      else if nonAlphaNumeric1 && negb whitespace1 && whitespace2 then 3
      else if whitespace1 || whitespace2 then 2
      else if nonAlphaNumeric1 || nonAlphaNumeric2 then 1
      else 0
  end.

(* state: equality1, edit, equality2, bestEquality1, bestEdit, bestEquality2, bestScore *)
Definition lstate := (str * str * str * str * str * str * Z)%type.

Definition lossless_shift_step (cc : charcls) (s : lstate) : result (lstate + (str * str * str)) :=
  let '(e1, ed, e2, b1, bed, b2, bs) := s in
  match ed, e2 with
  | c :: ed', c2 :: e2' =>
      if N.eqb c c2 then
        let e1 := e1 ++ [c] in
        let ed := ed' ++ [c2] in
        let e2 := e2' in
        let score := semantic_score cc e1 ed + semantic_score cc ed e2 in
        if score >=? bs then Ok (inl (e1, ed, e2, e1, ed, e2, score))
        else Ok (inl (e1, ed, e2, b1, bed, b2, bs))
      else Ok (inr (b1, bed, b2))
  | _, _ => Ok (inr (b1, bed, b2))
  end.

Definition lossless_step (cc : charcls) (s : list seg * Z) : result ((list seg * Z) + list seg) :=
  let '(d, p) := s in
  if negb (p <? zlen d - 1) then Ok (inr d)
  else
    '(o0, t0) <- py_get d (p - 1) ;;
    '(o2, t2) <- py_get d (p + 1) ;;
    if is_equal o0 && is_equal o2 then
      '(_, t1) <- py_get d p ;;
      let equality1 := t0 in
      let edit := t1 in
      let equality2 := t2 in
      co <- commonSuffix equality1 edit ;;
      let '(equality1, edit, equality2) :=
        if negb (co =? 0) then
          let commonString := slice_from edit (- co) in
          (slice_to equality1 (- co), commonString ++ slice_to edit (- co), commonString ++ equality2)
        else (equality1, edit, equality2) in
      let bs := semantic_score cc equality1 edit + semantic_score cc edit equality2 in
      '(b1, bed, b2) <- loop (S (S (length equality2))) (lossless_shift_step cc)
                             (equality1, edit, equality2, equality1, edit, equality2, bs) ;;
      if negb (str_eqb t0 b1) then
        '(d, p) <- (if negb (str_eqb b1 []) then
                      d' <- py_set d (p - 1) (o0, b1) ;; Ok (d', p)
                    else d' <- py_del d (p - 1) ;; Ok (d', p - 1)) ;;
        '(oe, _) <- py_get d p ;;
        d <- py_set d p (oe, bed) ;;
        '(d, p) <- (if negb (str_eqb b2 []) then
                      '(on, _) <- py_get d (p + 1) ;;
                      d' <- py_set d (p + 1) (on, b2) ;; Ok (d', p)
                    else d' <- py_del d (p + 1) ;; Ok (d', p - 1)) ;;
        Ok (inl (d, p + 1))
      else Ok (inl (d, p + 1))
    else Ok (inl (d, p + 1)).

Definition cleanupSemanticLossless (cc : charcls) (d : list seg) : result (list seg) :=
  loop (S (length d)) (lossless_step cc) (d, 1).

(* ------------------------------------------------------------------ *)
(** * diff_cleanupSemantic *)

(* first loop; state: diffs, equalities (top of the stack first), lastEquality, pointer,
   length_insertions1, length_deletions1, length_insertions2, length_deletions2, changes *)
Definition sstate := (list seg * list Z * option str * Z * Z * Z * Z * Z * bool)%type.

Definition truthy (s : option str) : bool :=
  match s with Some (_ :: _) => true | _ => false end.

Definition sem1_step (s : sstate) : result (sstate + (list seg * bool)) :=
  let '(d, eqs, lastEq, p, li1, ld1, li2, ld2, changes) := s in
  if negb (p <? zlen d) then Ok (inr (d, changes))
  else
    '(o, t) <- py_get d p ;;
    if is_equal o then
      Ok (inl (d, p :: eqs, Some t, p + 1, li2, ld2, 0, 0, changes))
    else
      let li2 := if is_insert o then li2 + zlen t else li2 in
      let ld2 := if is_insert o then ld2 else ld2 + zlen t in
      if truthy lastEq
         && (zlen (match lastEq with Some e => e | None => [] end) <=? Z.max li1 ld1)
         && (zlen (match lastEq with Some e => e | None => [] end) <=? Z.max li2 ld2) then
        let le := match lastEq with Some e => e | None => [] end in
        match eqs with
        | [] => Err IndexError                       (* equalities[-1] *)
        | e :: eqs1 =>
            let d := py_insert d e (DELETE, le) in
            '(_, t') <- py_get d (e + 1) ;;
            d <- py_set d (e + 1) (INSERT, t') ;;
            let eqs2 := match eqs1 with [] => [] | _ :: r => r end in
            let p := match eqs2 with [] => -1 | e2 :: _ => e2 end in
            Ok (inl (d, eqs2, None, p + 1, 0, 0, 0, 0, true))
        end
      else Ok (inl (d, eqs, lastEq, p + 1, li1, ld1, li2, ld2, changes)).

(* overlap loop *)
Definition sem2_step (s : list seg * Z) : result ((list seg * Z) + list seg) :=
  let '(d, p) := s in
  if negb (p <? zlen d) then Ok (inr d)
  else
    '(o0, deletion) <- py_get d (p - 1) ;;
    '(o1, insertion) <- py_get d p ;;
    if is_delete o0 && is_insert o1 then
      ov1 <- commonOverlap deletion insertion ;;
      ov2 <- commonOverlap insertion deletion ;;
      if ov1 >=? ov2 then
        if (2 * ov1 >=? zlen deletion) || (2 * ov1 >=? zlen insertion) then
          let d := py_insert d p (EQUAL, slice_to insertion ov1) in
          d <- py_set d (p - 1) (DELETE, slice_to deletion (zlen deletion - ov1)) ;;
          d <- py_set d (p + 1) (INSERT, slice_from insertion ov1) ;;
          Ok (inl (d, p + 3))
        else Ok (inl (d, p + 2))
      else
        if (2 * ov2 >=? zlen deletion) || (2 * ov2 >=? zlen insertion) then
          let d := py_insert d p (EQUAL, slice_to deletion ov2) in
          d <- py_set d (p - 1) (INSERT, slice_to insertion (zlen insertion - ov2)) ;;
          d <- py_set d (p + 1) (DELETE, slice_from deletion ov2) ;;
          Ok (inl (d, p + 3))
        else Ok (inl (d, p + 2))
    else Ok (inl (d, p + 1)).

(* everything before the overlap loop *)
Definition cleanupSemantic_pre (cc : charcls) (d : list seg) : result (list seg) :=
  let n := length d in
  '(d, changes) <- loop (S ((n + 1) * (2 * n + 2))) sem1_step (d, [], None, 0, 0, 0, 0, 0, false) ;;
  d <- (if changes then cleanupMerge d else Ok d) ;;
  cleanupSemanticLossless cc d.

Definition cleanupSemantic_overlap (d : list seg) : result (list seg) :=
  loop (S (length d)) sem2_step (d, 1).

Definition is_empty_seg (s : seg) : bool := match snd s with [] => true | _ => false end.

Definition diff_cleanupSemantic (cc : charcls) (d : list seg) : result (list seg) :=
  d <- cleanupSemantic_pre cc d ;;
  d <- cleanupSemantic_overlap d ;;
  (* "Drop such empty edits": if any(not text ...): diffs[:] = [d for d in diffs if d[1]]; diff_cleanupMerge(diffs) *)
  if existsb is_empty_seg d then cleanupMerge (filter (fun s => negb (is_empty_seg s)) d)
  else Ok d.

(* ------------------------------------------------------------------ *)
(** * diff_linesToChars, diff_charsToLines *)

Fixpoint index_of (line : str) (arr : list str) (i : Z) : option Z :=
  match arr with
  | [] => None
  | l :: r => if str_eqb line l then Some i else index_of line r (i + 1)
  end.

(* lineHash: every entry of lineArray except the blank entry 0 *)
Definition hash_lookup (line : str) (lineArray : list str) : option Z :=
  index_of line (skipn 1 lineArray) 1.

(* state: lineArray, chars, lineStart, lineEnd *)
Definition munge_step (text : str) (maxLines : Z) (s : list str * str * Z * Z)
  : result ((list str * str * Z * Z) + (list str * str)) :=
  let '(lineArray, chars, lineStart, lineEnd) := s in
  if lineEnd <? zlen text - 1 then
    let lineEnd := find_from [LF] text lineStart in
    let lineEnd := if lineEnd =? -1 then zlen text - 1 else lineEnd in
    let line := slice text lineStart (lineEnd + 1) in
    match hash_lookup line lineArray with
    | Some k => Ok (inl (lineArray, chars ++ [Z.to_N k], lineEnd + 1, lineEnd))
    | None =>
        let '(line, lineEnd) :=
          if zlen lineArray =? maxLines then (slice_from text lineStart, zlen text) else (line, lineEnd) in
        let lineArray := lineArray ++ [line] in
        Ok (inl (lineArray, chars ++ [Z.to_N (zlen lineArray - 1)], lineEnd + 1, lineEnd))
    end
  else Ok (inr (lineArray, chars)).

Definition munge (text : str) (maxLines : Z) (lineArray : list str) : result (list str * str) :=
  loop (S (S (length text))) (munge_step text maxLines) (lineArray, [], 0, -1).

Definition linesToChars (text1 text2 : str) : result (str * str * list str) :=
  '(la, chars1) <- munge text1 666666 [[]] ;;
  '(la, chars2) <- munge text2 1114111 la ;;
  Ok (chars1, chars2, la).

Fixpoint expand_chars (lineArray : list str) (cs : str) : result str :=
  match cs with
  | [] => Ok []
  | c :: r => l <- py_get lineArray (Z.of_N c) ;; rest <- expand_chars lineArray r ;; Ok (l ++ rest)
  end.

Fixpoint charsToLines (lineArray : list str) (d : list seg) : result (list seg) :=
  match d with
  | [] => Ok []
  | (o, t) :: r => t' <- expand_chars lineArray t ;; r' <- charsToLines lineArray r ;; Ok ((o, t') :: r')
  end.

(* ------------------------------------------------------------------ *)
(** * diff_main, diff_compute, diff_lineMode, diff_bisect, diff_bisectSplit *)

(* a (recursive) call of diff_main: checklines, clock tests so far, text1, text2 *)
Definition rec_t := bool -> nat -> str -> str -> result (list seg * nat).

Section Main.
  Variable cc : charcls.
  Variable clock : nat -> bool.
  Variable rec : rec_t.

  Definition bisectSplit (tick : nat) (text1 text2 : str) (x y : Z) : result (list seg * nat) :=
    '(diffs, tick) <- rec false tick (slice_to text1 x) (slice_to text2 y) ;;
    '(diffsb, tick) <- rec false tick (slice_from text1 x) (slice_from text2 y) ;;
    Ok (diffs ++ diffsb, tick).

  Definition bisect (tick : nat) (text1 text2 : str) : result (list seg * nat) :=
    '(r, tick) <- bisect_core text1 text2 clock tick ;;
    match r with
    | KFound x y => bisectSplit tick text1 text2 x y
    | KNone => Ok ([(DELETE, text1); (INSERT, text2)], tick)
    end.

  (* the re-diff loop of diff_lineMode; state: diffs, pointer, count_delete,
     count_insert, text_delete, text_insert, clock tests so far *)
  Definition lmstate := (list seg * Z * Z * Z * str * str * nat)%type.

  Definition linemode_step (s : lmstate) : result (lmstate + (list seg * nat)) :=
    let '(d, p, cd, ci, td, ti, tick) := s in
    if negb (p <? zlen d) then Ok (inr (d, tick))
    else
      '(o, t) <- py_get d p ;;
      match o with
      | INSERT => Ok (inl (d, p + 1, cd, ci + 1, td, ti ++ t, tick))
      | DELETE => Ok (inl (d, p + 1, cd + 1, ci, td ++ t, ti, tick))
      | EQUAL =>
          if (cd >=? 1) && (ci >=? 1) then
            '(sub, tick) <- rec false tick td ti ;;
            let d := py_slice_assign d (p - cd - ci) p sub in
            let p := p - cd - ci + zlen sub in
            Ok (inl (d, p + 1, 0, 0, [], [], tick))
          else Ok (inl (d, p + 1, 0, 0, [], [], tick))
      end.

  Definition lineMode (tick : nat) (text1 text2 : str) : result (list seg * nat) :=
    '(chars1, chars2, lineArray) <- linesToChars text1 text2 ;;
    '(d, tick) <- rec false tick chars1 chars2 ;;
    d <- charsToLines lineArray d ;;
    d <- diff_cleanupSemantic cc d ;;
    let d := d ++ [(EQUAL, [])] in
    '(d, tick) <- loop (S (length d)) linemode_step (d, 0, 0, 0, [], [], tick) ;;
    d <- py_pop d ;;
    Ok (d, tick).

  Definition compute (checklines : bool) (tick : nat) (text1 text2 : str) : result (list seg * nat) :=
    match text1, text2 with
    | [], _ => Ok ([(INSERT, text2)], tick)
    | _, [] => Ok ([(DELETE, text1)], tick)
    | _, _ =>
        let swap := zlen text1 >? zlen text2 in
        let longtext := if swap then text1 else text2 in
        let shorttext := if swap then text2 else text1 in
        let i := find shorttext longtext in
        if negb (i =? -1) then
          let o := if swap then DELETE else INSERT in
          Ok ([(o, slice_to longtext i); (EQUAL, shorttext); (o, slice_from longtext (i + zlen shorttext))], tick)
        else if zlen shorttext =? 1 then
          Ok ([(DELETE, text1); (INSERT, text2)], tick)
        else
          hm <- halfMatch text1 text2 ;;
          match hm with
          | Some (text1_a, text1_b, text2_a, text2_b, mid_common) =>
              '(diffs_a, tick) <- rec checklines tick text1_a text2_a ;;
              '(diffs_b, tick) <- rec checklines tick text1_b text2_b ;;
              Ok (diffs_a ++ [(EQUAL, mid_common)] ++ diffs_b, tick)
          | None =>
              if checklines && (zlen text1 >? 100) && (zlen text2 >? 100)
              then lineMode tick text1 text2
              else bisect tick text1 text2
          end
    end.

  Definition main_body (checklines : bool) (tick : nat) (text1 text2 : str) : result (list seg * nat) :=
    if str_eqb text1 text2 then
      match text1 with [] => Ok ([], tick) | _ => Ok ([(EQUAL, text1)], tick) end
    else
      commonlength <- commonPrefix text1 text2 ;;
      let commonprefix := slice_to text1 commonlength in
      let text1 := slice_from text1 commonlength in
      let text2 := slice_from text2 commonlength in
      commonlength <- commonSuffix text1 text2 ;;
      let '(commonsuffix, text1, text2) :=
        if commonlength =? 0 then ([], text1, text2)
        else (slice_from text1 (- commonlength), slice_to text1 (- commonlength), slice_to text2 (- commonlength)) in
      '(diffs, tick) <- compute checklines tick text1 text2 ;;
      let diffs := match commonprefix with [] => diffs | _ => (EQUAL, commonprefix) :: diffs end in
      let diffs := match commonsuffix with [] => diffs | _ => diffs ++ [(EQUAL, commonsuffix)] end in
      diffs <- cleanupMerge diffs ;;
      Ok (diffs, tick).
End Main.

(* the recursion of diff_main -> diff_compute -> diff_main/diff_lineMode/diff_bisect -> diff_main
   is cut by fuel (bounds the nesting depth of calls) *)
Fixpoint diff_main_f (cc : charcls) (clock : nat -> bool) (fuel : nat) : rec_t :=
  match fuel with
  | O => fun _ _ _ _ => Err OutOfFuel
  | S f => main_body cc clock (diff_main_f cc clock f)
  end.

Definition main_fuel (a b : str) : nat := 2 * (length a + length b) + 4.

(* diff_main(text1, text2) with checklines=True, Diff_Timeout=1.0, deadline=None *)
Definition diff_main (cc : charcls) (clock : nat -> bool) (a b : str) : result (list seg) :=
  '(d, _) <- diff_main_f cc clock (main_fuel a b) true 0%nat a b ;;
  Ok d.

(* ------------------------------------------------------------------ *)
(** * XMLFormatter._realign_placeholders *)

Inductive ttype := T_OPEN | T_CLOSE | T_SINGLE.
(* placeholder2tag: code point -> (ttype, close_ph) *)
Definition cls_t := N -> option (ttype * option N).

Definition flush (cur : str) : list str := match cur with [] => [] | _ => [rev cur] end.

(* PlaceholderMaker.split_string without the empty pieces (which the caller skips):
   maximal runs of ordinary characters, and each placeholder on its own *)
Fixpoint split_acc (cls : cls_t) (text : str) (cur : str) : list str :=
  match text with
  | [] => flush cur
  | c :: r => match cls c with
              | Some _ => flush cur ++ [c] :: split_acc cls r []
              | None => split_acc cls r (c :: cur)
              end
  end.
Definition split_string (cls : cls_t) (text : str) : list str := split_acc cls text [].

(* the stack holds (op, entry.close_ph) of the open tags, innermost first *)
Definition rstack := list (op * option N).

(* stack_op, stack_entry = _stack_pop()
   while stack_entry is not None and stack_entry.close_ph != seg: ... *)
Fixpoint close_loop (c : N) (stack : rstack) (nd : list seg) : result (option op * rstack * list seg) :=
  match stack with
  | [] => Ok (None, [], nd)
  | (sop, cl) :: rest =>
      match cl with
      | Some clc => if N.eqb clc c then Ok (Some sop, rest, nd)
                    else close_loop c rest (nd ++ [(sop, [clc])])
      | None => Err TypeError   (* an OPEN entry without close_ph; PlaceholderMaker never builds one *)
      end
  end.

Definition realign_seg (cls : cls_t) (o : op) (sg : str) (s : list seg * rstack) : result (list seg * rstack) :=
  let '(nd, stack) := s in
  match sg with
  | [c] =>
      match cls c with
      | None => Ok (nd ++ [(o, sg)], stack)
      | Some (T_SINGLE, _) => Ok (nd ++ [(o, sg)], stack)
      | Some (T_OPEN, cl) => Ok (nd ++ [(o, sg)], (o, cl) :: stack)
      | Some (T_CLOSE, _) =>
          '(sop, stack, nd) <- close_loop c stack nd ;;
          match sop with
          | None => Ok (nd, stack)
          | Some so => if op_code so <=? op_code o then Ok (nd ++ [(o, sg)], stack)
                       else Err AssertionError
          end
      end
  | _ => Ok (nd ++ [(o, sg)], stack)
  end.

Fixpoint realign_segs (cls : cls_t) (o : op) (sgs : list str) (s : list seg * rstack) : result (list seg * rstack) :=
  match sgs with
  | [] => Ok s
  | sg :: r => s' <- realign_seg cls o sg s ;; realign_segs cls o r s'
  end.

Fixpoint realign_loop (cls : cls_t) (d : list seg) (s : list seg * rstack) : result (list seg * rstack) :=
  match d with
  | [] => Ok s
  | (o, t) :: r => s' <- realign_segs cls o (split_string cls t) s ;; realign_loop cls r s'
  end.

Definition realign (cls : cls_t) (d : list seg) : result (list seg) :=
  '(nd, _) <- realign_loop cls d ([], []) ;; Ok nd.

(* ------------------------------------------------------------------ *)
(** * XMLFormatter._join_delete_insert *)

Inductive jseg := JS (o : op) (t : str) | JR (new old : str).    (* (op, text) | (DIFF_REPLACE, new, old) *)

(* for i in range(len(diffs) - 1), carrying skip_next *)
Fixpoint join_aux (d : list seg) (skip : bool) : list jseg * bool :=
  match d with
  | s1 :: ((s2 :: _) as r) =>
      if skip then join_aux r false
      else match fst s1, fst s2 with
           | INSERT, DELETE => let '(l, k) := join_aux r true in (JR (snd s1) (snd s2) :: l, k)
           | DELETE, INSERT => let '(l, k) := join_aux r true in (JR (snd s2) (snd s1) :: l, k)
           | _, _ => let '(l, k) := join_aux r false in (JS (fst s1) (snd s1) :: l, k)
           end
  | _ => ([], skip)
  end.

Definition join_delete_insert (d : list seg) : result (list jseg) :=
  let '(l, skip) := join_aux d false in
  match d with
  | [] => Ok l                                (* if diffs and not skip_next: ... *)
  | _ => if skip then Ok l
         else match last_opt d with
              | None => Err IndexError        (* diffs[-1]; unreachable: diffs is not empty here *)
              | Some (o, t) => Ok (l ++ [JS o t])
              end
  end.

(* ------------------------------------------------------------------ *)
(** * Specification vocabulary (used by the statements in Properties/C16.v) *)

(* the old text: equal + delete segments; the new text: equal + insert segments *)
Definition t1 (d : list seg) : str := concat (map snd (filter (fun s => negb (is_insert (fst s))) d)).
Definition t2 (d : list seg) : str := concat (map snd (filter (fun s => negb (is_delete (fst s))) d)).

(* the same for the output of _join_delete_insert: REPLACE(new, old) is old on the t1 side, new on the t2 side *)
Definition jt1 (j : list jseg) : str :=
  concat (map (fun x => match x with JS o t => if is_insert o then [] else t | JR new old => old end) j).
Definition jt2 (j : list jseg) : str :=
  concat (map (fun x => match x with JS o t => if is_delete o then [] else t | JR new old => new end) j).

(* a text without its CLOSE placeholders / without its OPEN and CLOSE placeholders *)
Definition is_close (cls : cls_t) (c : N) : bool :=
  match cls c with Some (T_CLOSE, _) => true | _ => false end.
Definition is_open (cls : cls_t) (c : N) : bool :=
  match cls c with Some (T_OPEN, _) => true | _ => false end.
Definition erase_close (cls : cls_t) (s : str) : str := filter (fun c => negb (is_close cls c)) s.
Definition erase_oc (cls : cls_t) (s : str) : str := filter (fun c => negb (is_open cls c || is_close cls c)) s.

(* what PlaceholderMaker.get_placeholder guarantees: the close_ph of an OPEN entry is a CLOSE entry *)
Definition wf_cls (cls : cls_t) : Prop :=
  forall c cl, cls c = Some (T_OPEN, Some cl) -> is_close cls cl = true.
