(* XmlFmtNames3 -- C08, first clause, for the differ's OWN scripts: premises about the two documents only.
   With the conditions of XmlFmtDiffer.differ_format and, in addition, element and attribute names that are plain XML
   names (doc_xnb: non-empty, made of name characters, no colon -- i.e. documents without namespaces), the XML
   formatter returns a tree T of the printing fragment, and the string XMLFormatter.render prints for it
   (pretty_print = False) parses back to T.   No axioms. *)
From Coq Require Import List NArith ZArith Bool Arith Lia.
Import ListNotations.
Require Import XV.Str XV.Json XV.TextFormat XV.Forest XV.LCS XV.Matcher XV.Differ XV.Spec XV.Path XV.WF XV.ForestProofs XV.TreeProofs
               XV.AttrProofs XV.PathProofs XV.PatcherProofs XV.Render XV.DifferFrame XV.DifferCounters XV.DifferSound
               XV.PipelineProofs XV.PrefixProofs
               XV.XmlFmt XV.Projections
               XV.XmlFmtProofs0 XV.XmlFmtProofs1 XV.XmlFmtProofs2 XV.XmlFmtProofsR2 XV.XmlFmtProofs3 XV.XmlFmtProofs4 XV.XmlFmtProofs5
               XV.XmlFmtProofs6 XV.XmlFmtProofs7 XV.XmlFmtProofs8 XV.XmlFmtProofs9 XV.XmlFmtProofsB XV.XmlFmtProofsC XV.XmlFmtProofsD
               XV.XmlFmtDiffer1 XV.XmlFmtDiffer2 XV.XmlFmtDiffer3 XV.XmlFmtDiffer XV.XmlFmtNames XV.XmlFmtNames2.
Require XV.Placeholder XV.PlaceholderUndo XV.Serialize XV.SerializeProofs XV.SerializeDoc XV.SerializeDocProofs.
Local Open Scope nat_scope.

(* a label whose tag and attribute names are plain XML names *)
Definition lab_xnb (l : label) : bool :=
  match ltag l with TElem t => Serialize.plain_name t | TComment => false end
  && forallb (fun kv : str * str => Serialize.plain_name (fst kv)) (lattrs l).
Definition doc_xnb (f : forest) : bool := forallb (fun n => lab_xnb (flab f n)) (seq 0 (fnext f)).

Lemma lab_xn_inv l : lab_xnb l = true ->
  (exists t, ltag l = TElem t /\ Serialize.plain_name t = true) /\
  (forall k v, In (k, v) (lattrs l) -> Serialize.plain_name k = true).
Proof.
  unfold lab_xnb. intros H. apply andb_true_iff in H as [H1 H2]. split.
  - destruct (ltag l) as [t|]; [eauto|discriminate].
  - intros k v Hin. rewrite forallb_forall in H2. apply (H2 _ Hin).
Qed.

Lemma doc_xn_lab f n : doc_xnb f = true -> n < fnext f -> lab_xnb (flab f n) = true.
Proof. unfold doc_xnb. rewrite forallb_forall. intros H Hn. apply H, in_seq. lia. Qed.

Section DocTree.
Variable f : forest.
Variable root : id.
Hypothesis Hwf : wf_forest f root.
Hypothesis Hdoc : doc_xnb f = true.

Lemma desc_xn n : desc f root n -> lab_xnb (flab f n) = true.
Proof. intros D. apply (doc_xn_lab f n Hdoc). eapply desc_lt; [exact Hwf|apply (wf_root_lt _ _ Hwf)|exact D]. Qed.

Theorem doc_tree_wn : forall k n, fin f n k -> desc f root n -> wn (erase (dt_of k f n)).
Proof.
  induction k as [|k IH]; intros n HF D; [inversion HF|]. rewrite erase_dt_S.
  destruct (lab_xn_inv _ (desc_xn n D)) as ((t & Et & Pt) & HA).
  unfold lab_tag. rewrite Et. constructor.
  - unfold own_wn. cbn [xtag xattrs]. split; [apply an_plain, Pt|].
    unfold ans. apply forallb_forall. intros [k0 v0] Hin. cbn [fst]. apply an_plain, (HA k0 v0 Hin).
  - cbn [xkids]. apply Forall_forall. intros x Hx. apply in_map_iff in Hx as (c & <- & Hc).
    apply IH; [eapply fin_kid; eauto|eapply desc_step; eauto].
Qed.
End DocTree.

(* the literals an action takes from the right document are names of the right document *)
Lemma vq_names R y rf a : lab_xnb (flab R y) = true -> vq R y rf rf a -> iact_names a.
Proof.
  intros Hl H. destruct (lab_xn_inv _ Hl) as ((t & Et & Pt) & HA).
  destruct a; cbn [vq iact_names] in *; try exact I; try contradiction.
  - rewrite Et in H. inversion H; subst. exact Pt.
  - destruct H as [H _]. rewrite Et in H. inversion H; subst. exact Pt.
  - apply (HA _ _ H).
  - apply (HA _ _ H).
  - apply in_map_iff in H as ([k0 v0] & <- & Hin). apply (HA k0 v0 Hin).
Qed.

Section Differ.
Variable c : cfg.
Variable o : oracle.
Variable pe : penv.
Variables L R : forest.
Variables rootL rootR : id.
Variables lns rns : nsmap.
Variable m : list (id * id).
Variable pro : list iact.
Hypothesis HwfL : wf_forest L rootL.
Hypothesis HwfR : wf_forest R rootR.
Hypothesis Hvm : valid_matching L R rootL rootR m.
Hypothesis Hpro : ns_prologue lns rns = Some pro.
Hypothesis Hdecl : ns_decl_ok pe lns rns L rootL R rootR.
Hypothesis HnL : doc_names_ok pe L rootL.
Hypothesis HnR : doc_names_ok pe R rootR.
Hypothesis HdL : doc_okb L = true.
Hypothesis HdR : doc_okb R = true.
Hypothesis HxL : doc_xnb L = true.
Hypothesis HxR : doc_xnb R = true.
Hypothesis Hroom : c_replace c = true -> (text_size R rootR <= 6393)%N.

Let s := gen_script [] R rootR L rootL m.
Let script := pro ++ out s.
Let W := remove_comments (doc_tree L rootL).
Let NS0 : list (option str * str) := [(Some DIFF_PREFIX, DIFF_NS)].

Lemma differ_names : Forall iact_names script.
Proof.
  unfold script. apply Forall_app. split.
  - assert (F : Forall (pro_act lns) pro) by (eapply pro_acts; eassumption). eapply Forall_impl; [|exact F].
    intros a Ha. destruct a; cbn [pro_act iact_names] in *; try contradiction; exact I.
  - destruct (differ_parts L R rootL rootR m HwfL HwfR Hvm) as (rf & parts & dels & E & Ep & FP & _). fold s in E. rewrite E.
    apply Forall_app. split.
    + apply Forall_forall. intros a Ha. apply in_flat_map in Ha as ([y acts] & Hp & Ha). cbn [snd] in Ha.
      rewrite Forall_forall in FP. destruct (FP _ Hp) as (Fq & _). cbn [fst snd] in Fq. rewrite Forall_forall in Fq.
      apply (vq_names R y rf a); [|apply Fq, Ha].
      assert (Hy : In y (bfs R (S (fnext R)) [rootR])) by (rewrite <- Ep; apply in_map_iff; exists (y, acts); auto).
      destruct (bfs_spec R rootR HwfR) as (_ & Hm & _). apply Hm in Hy.
      apply (doc_xn_lab R y HxR). eapply desc_lt; [exact HwfR|apply (wf_root_lt _ _ HwfR)|exact Hy].
    + apply Forall_forall. intros a Ha. apply in_map_iff in Ha as (n & <- & _). exact I.
Qed.

(* C08, all clauses, for the differ's own script: completes, clean, and the printed string parses back *)
Theorem differ_prints :
  exists gs T, render_script pe rootL L script = Some gs /\
    xml_format c o lns ph_init gs W = FOk T /\ out_clean T = true /\ SerializeDoc.dnode_ok T = true /\
    forall P, SerializeProofs.P_ok P ->
      Serialize.parse P (Serialize.pneed T) (SerializeDoc.render P T) = Some (SerializeProofs.nk T).
Proof.
  assert (Hr : exists gs, render_script pe rootL L script = Some gs) by (eapply differ_render; eassumption).
  destruct Hr as [gs Hren].
  destruct (d0_facts L rootL HwfL HdL) as (HF & E0 & HP & HCl & HN & HWc & HC).
  assert (Hro : run_ok c o lns (FS W ph_init NS0) gs) by (eapply differ_run_ok; eassumption).
  assert (FA : Forall (fun a => act_ok a /\ iact_plain a /\ names_plain a) script) by (eapply differ_all; eassumption).
  assert (Hrs : run_spec rootL L script = Some (Differ.W s)) by (eapply differ_run_spec; eassumption).
  assert (Hfs : fscript_ok lns pe rootL NS0 L script) by (eapply differ_fscript_ok; eassumption).
  assert (Fnp : Forall names_plain script) by (eapply Forall_impl; [|exact FA]; intros a Ha; apply Ha).
  assert (Fip : Forall iact_plain script) by (eapply Forall_impl; [|exact FA]; intros a Ha; apply Ha).
  assert (HWn : wn W).
  { unfold W. rewrite <- E0. apply (doc_tree_wn L rootL HwfL HxL (S (fnext L)) rootL HF). constructor. }
  destruct (format_total_names c o lns pe rootL L script gs (Differ.W s) HwfL HC HP HCl HN HWc HWn
              Hrs Hren Hfs Fnp Fip differ_names Hro) as (T & HT & Hclean & Hd).
  exists gs, T. split; [exact Hren|]. split; [exact HT|]. split; [exact Hclean|]. split; [exact Hd|].
  intros P HP0. apply SerializeDocProofs.render_parse; [exact HP0|exact Hd|apply le_n].
Qed.
End Differ.

Theorem differ_prints_b c o pe L R rootL rootR lns rns m pro :
  wf_forest L rootL -> wf_forest R rootR -> valid_matching L R rootL rootR m ->
  ns_prologue lns rns = Some pro ->
  ns_decl_okb pe lns rns L rootL R rootR = true ->
  doc_names_okb pe L rootL = true -> doc_names_okb pe R rootR = true ->
  doc_okb L = true -> doc_okb R = true -> doc_xnb L = true -> doc_xnb R = true ->
  (c_replace c = true -> (text_size R rootR <= 6393)%N) ->
  let script := pro ++ out (gen_script [] R rootR L rootL m) in
  let W := remove_comments (doc_tree L rootL) in
  exists gs T, render_script pe rootL L script = Some gs /\
    xml_format c o lns ph_init gs W = FOk T /\ out_clean T = true /\ SerializeDoc.dnode_ok T = true /\
    forall P, SerializeProofs.P_ok P ->
      Serialize.parse P (Serialize.pneed T) (SerializeDoc.render P T) = Some (SerializeProofs.nk T).
Proof.
  intros HwfL HwfR Hvm Hpro Hd HnL HnR HdL HdR HxL HxR Hroom.
  apply (differ_prints c o pe L R rootL rootR lns rns m pro HwfL HwfR Hvm Hpro
           (ns_decl_okb_sound pe lns rns L rootL R rootR Hd)
           (proj1 (doc_names_okb_iff pe L rootL) HnL) (proj1 (doc_names_okb_iff pe R rootR) HnR) HdL HdR HxL HxR Hroom).
Qed.
