(* XmlFmtNames -- C08, first clause: the result tree of XMLFormatter.format lies in the fragment the printing model
   (XV.SerializeDoc) reads back -- every element / attribute name is a name without prefix or one of the diff
   namespace (text_tags = [], with or without use_replace).

   * [wn W]            every tag and attribute name of the working tree is an XML name of the fragment (Serialize.any_name);
   * [step_names]      the handlers keep [wn], given actions whose tags / attribute names are plain XML names ([act_names]);
   * [names_exp]       finalize: the wrappers it builds are diff:insert / diff:delete / diff:replace (with old-text);
   * [format_names]    along a whole script.
   No axioms. *)
From Coq Require Import List NArith ZArith Bool Arith Lia.
Import ListNotations.
Require Import XV.Str XV.Json XV.TextFormat XV.Forest XV.Matcher XV.Differ XV.Spec XV.Path XV.WF XV.PathProofs XV.Render
               XV.AttrProofs XV.XmlFmt XV.Projections
               XV.XmlFmtProofs0 XV.XmlFmtProofs1 XV.XmlFmtProofs2 XV.XmlFmtProofsR2 XV.XmlFmtProofs3 XV.XmlFmtProofs4 XV.XmlFmtProofs5
               XV.XmlFmtProofs9 XV.XmlFmtProofsB XV.XmlFmtProofsC.
Require XV.Placeholder XV.PlaceholderUndo XV.Serialize XV.SerializeProofs XV.SerializeDoc.
Require XV.DMP XV.DMPBase.
Local Open Scope nat_scope.

Notation an := Serialize.any_name.
Notation pn := Serialize.plain_name.
Definition ans (a : list (str * str)) : bool := forallb (fun kv => an (fst kv)) a.

Definition own_wn (t : xtree) : Prop := an (xtag t) = true /\ ans (xattrs t) = true.
Inductive wn : xtree -> Prop :=
| WN t : own_wn t -> Forall wn (xkids t) -> wn t.

Lemma wn_iff t : wn t <-> own_wn t /\ Forall wn (xkids t).
Proof. split; [intros H; inversion H; auto|intros [H1 H2]; constructor; auto]. Qed.

Lemma wn_get t p n : wn t -> get_at t p = Some n -> wn n.
Proof. apply (local_get wn). intros x H. apply wn_iff in H. tauto. Qed.
Lemma wn_map_at t p n' : wn t -> wn n' -> wn (map_at p (fun _ => n') t).
Proof.
  apply (local_map_at wn own_wn).
  - intros x H1 H2. apply wn_iff. tauto.
  - intros x H. apply wn_iff in H. tauto.
  - intros x H. apply wn_iff in H. tauto.
  - intros x ks H. destruct x; exact H.
Qed.

(* ---- names ---- *)
Lemma an_dname l : pn l = true -> an (dname l) = true.
Proof. intros H. unfold dname, Serialize.any_name. rewrite SerializeProofs.strip_prefix_app. exact H. Qed.
Lemma an_plain k : pn k = true -> an k = true.
Proof. apply SerializeProofs.plain_any. Qed.

Lemma ans_aput a k v : ans a = true -> an k = true -> ans (aput a k v) = true.
Proof.
  intros Ha Hk. unfold ans, aput in *. destruct (ahas a k).
  - rewrite forallb_forall in *. intros x Hx. apply in_map_iff in Hx as (y & <- & Hy).
    destruct (str_eqb k (fst y)); [exact Hk|apply Ha, Hy].
  - rewrite forallb_forall in *. intros x Hx. apply in_app_or in Hx as [Hx|[<-|[]]]; [apply Ha, Hx|exact Hk].
Qed.
Lemma ans_adel a k : ans a = true -> ans (adel a k) = true.
Proof. intros Ha. unfold ans, adel in *. rewrite forallb_forall in *. intros x Hx. apply filter_In in Hx as [Hx _]. auto. Qed.

Lemma ans_extend a action v : action = Placeholder.s_delete \/ action = s_add \/ action = s_rename \/ action = s_update ->
  ans a = true -> ans (extend_diff_attr a action v) = true.
Proof.
  intros Hact Ha. unfold extend_diff_attr. apply ans_aput; [exact Ha|]. apply an_dname.
  destruct Hact as [->|[->|[->| ->]]]; reflexivity.
Qed.

(* ---- the names an action brings ---- *)
Definition act_names (d : dact) : Prop :=
  match d with
  | DInsertNode _ tag _ | DRenameNode _ tag => pn tag = true
  | DUpdAttr _ k _ | DInsAttr _ k _ => pn k = true
  | DRenAttr _ _ k' => pn k' = true
  | _ => True
  end.

Lemma wn_attrs n a : wn n -> ans a = true -> wn (with_attrs n a).
Proof.
  intros H Ha. apply wn_iff in H as [(H1 & _) Hk]. apply wn_iff. destruct n. cbn in *. unfold own_wn. cbn. auto.
Qed.
Lemma wn_own n : wn n -> an (xtag n) = true /\ ans (xattrs n) = true /\ Forall wn (xkids n).
Proof. intros H. apply wn_iff in H as [(H1 & H2) Hk]. auto. Qed.

Section StepNames.
Variable c : cfg.
Variable o : oracle.
Variable rootns : list (option str * str).

Theorem step_names st d st' :
  wn (fs_tree st) -> act_names d -> handle_d c o rootns st d = FOk st' -> wn (fs_tree st').
Proof.
  intros HC Hpl H. destruct d; cbn [handle_d act_names] in *.
  - (* DeleteNode *)
    unfold handle_DeleteNode in H. apply fbind_ok in H as (p & Ep & H).
    apply upd_node_inv in H as (n & n' & G & E & ->). inversion E; subst n'. cbn [fs_tree].
    pose proof (wn_get _ _ _ HC G) as Hn. destruct (wn_own n Hn) as (_ & Ha & _).
    apply wn_map_at; [exact HC|]. apply wn_attrs; [exact Hn|].
    apply ans_aput; [exact Ha|]. apply (an_dname Placeholder.s_delete). reflexivity.
  - (* InsertNode *)
    unfold handle_InsertNode in H. apply fbind_ok in H as (p & Ep & H).
    apply upd_node_inv in H as (n & n' & G & E & ->). inversion E; subst n'. cbn [fs_tree].
    pose proof (wn_get _ _ _ HC G) as Hn. destruct (wn_own n Hn) as (H1 & Ha & Hk).
    apply wn_map_at; [exact HC|]. apply wn_iff. unfold h_InsertNode. destruct n as [ntg nat_ ntx ntl nks].
    cbn [with_kids xtag xattrs xkids] in *. split; [unfold own_wn; cbn; auto|].
    apply Forall_insert_kid; [exact Hk|]. constructor; [|constructor].
    unfold own_wn. cbn [xtag xattrs]. split; [apply an_plain, Hpl|]. unfold ans. cbn [forallb fst].
    apply andb_true_iff. split; [|reflexivity]. apply (an_dname Placeholder.s_insert). reflexivity.
  - (* RenameNode *)
    unfold handle_RenameNode in H. apply fbind_ok in H as (p & Ep & H).
    apply upd_node_inv in H as (n & n' & G & E & ->). inversion E; subst n'. cbn [fs_tree].
    pose proof (wn_get _ _ _ HC G) as Hn. destruct (wn_own n Hn) as (H1 & Ha & Hk).
    apply wn_map_at; [exact HC|]. apply wn_iff. unfold h_RenameNode. destruct n as [ntg nat_ ntx ntl nks].
    cbn [with_tag with_attrs xtag xattrs xkids] in *. split; [|exact Hk]. unfold own_wn. cbn [xtag xattrs].
    split; [apply an_plain, Hpl|]. apply ans_aput; [exact Ha|]. apply (an_dname s_rename). reflexivity.
  - (* MoveNode *)
    unfold handle_MoveNode in H. apply fbind_ok in H as (pn_ & Epn & H).
    unfold node_at in H. destruct (get_at (fs_tree st) pn_) as [copy|] eqn:Gn; [|discriminate]. cbn [fbind] in H.
    apply fbind_ok in H as (pt & Ept & H).
    set (t1 := map_at pn_ delete_node (fs_tree st)) in *.
    destruct (get_at t1 pt) as [tgn|] eqn:Gt; [|discriminate]. cbn [fbind] in H. inversion H; subst st'. clear H. cbn [fs_tree].
    pose proof (wn_get _ _ _ HC Gn) as Hcp. destruct (wn_own copy Hcp) as (_ & Hca & _).
    assert (HC1 : wn t1).
    { unfold t1. rewrite (map_at_ext pn_ _ (fun _ => delete_node copy)) by (intros n0 Hn0; congruence).
      apply wn_map_at; [exact HC|]. apply wn_attrs; [exact Hcp|].
      apply ans_aput; [exact Hca|]. apply (an_dname Placeholder.s_delete). reflexivity. }
    pose proof (wn_get _ _ _ HC1 Gt) as Ht. destruct (wn_own tgn Ht) as (H1 & Ha & Hk).
    rewrite (map_at_ext pt _ (fun _ => with_kids tgn (insert_kid (real_insert_position (xkids tgn) pos)
               (with_attrs copy (aput (xattrs copy) INSERT_NAME [])) (xkids tgn))) t1) by (intros n0 Hn0; congruence).
    apply wn_map_at; [exact HC1|]. apply wn_iff. destruct tgn as [g1 g2 g3 g4 g5]. cbn [with_kids xtag xattrs xkids] in *.
    split; [unfold own_wn; cbn; auto|]. apply Forall_insert_kid; [exact Hk|].
    apply wn_attrs; [exact Hcp|]. apply ans_aput; [exact Hca|]. apply (an_dname Placeholder.s_insert). reflexivity.
  - (* UpdateTextIn *)
    unfold handle_UpdateTextIn in H. apply fbind_ok in H as (p & Ep & H).
    unfold node_at in H. destruct (get_at (fs_tree st) p) as [n|] eqn:G; [|discriminate]. cbn [fbind] in H.
    pose proof (wn_get _ _ _ HC G) as Hn.
    assert (Hw : forall x, wn (map_at p (fun n0 => with_text n0 x) (fs_tree st))).
    { intros x. rewrite (map_at_ext p _ (fun _ => with_text n x)) by (intros n0 Hn0; congruence).
      apply wn_map_at; [exact HC|]. apply wn_iff in Hn. apply wn_iff. destruct n; exact Hn. }
    destruct (is_inserted n); [inversion H; subst st'; apply Hw|].
    apply fbind_ok in H as ([[s' out] any] & Em & H). inversion H; subst st'. apply Hw.
  - (* UpdateTextAfter *)
    unfold handle_UpdateTextAfter in H. apply fbind_ok in H as (p & Ep & H).
    unfold node_at in H. destruct (get_at (fs_tree st) p) as [n|] eqn:G; [|discriminate]. cbn [fbind] in H.
    pose proof (wn_get _ _ _ HC G) as Hn.
    assert (Hw : forall g : xtree -> xtree, (forall x, xtag (g x) = xtag x /\ xattrs (g x) = xattrs x /\ xkids (g x) = xkids x) ->
                 wn (map_at p g (fs_tree st))).
    { intros g Hg. rewrite (map_at_ext p _ (fun _ => g n)) by (intros n0 Hn0; congruence).
      apply wn_map_at; [exact HC|]. apply wn_iff in Hn. apply wn_iff. destruct (Hg n) as (E1 & E2 & E3).
      unfold own_wn. rewrite E1, E2, E3. exact Hn. }
    assert (Hres : exists g : xtree -> xtree, fs_tree st' = map_at p g (fs_tree st) /\
                     forall x, xtag (g x) = xtag x /\ xattrs (g x) = xattrs x /\ xkids (g x) = xkids x).
    { destruct p; apply fbind_ok in H as ([[s' out] any] & Em & H); inversion H; subst st'; cbn [fs_tree].
      - exists (fun n0 => with_tail (with_text n0 (if any then Some (otxt (xtext n0) ++ out) else xtext n0)) []).
        split; [reflexivity|]. intros x; destruct x; cbn; auto.
      - exists (fun n0 => with_tail n0 out). split; [reflexivity|]. intros x; destruct x; cbn; auto. }
    destruct Hres as (g & -> & Hg). apply Hw, Hg.
  - (* UpdateAttrib *)
    unfold handle_UpdateAttrib in H. apply fbind_ok in H as (p & Ep & H).
    apply upd_node_inv in H as (n & n' & G & E & ->). unfold h_UpdateAttrib in E.
    destruct (aget (xattrs n) k) as [oldval|] eqn:Eg; [|discriminate]. inversion E; subst n'. cbn [fs_tree].
    pose proof (wn_get _ _ _ HC G) as Hn. destruct (wn_own n Hn) as (_ & Ha & _).
    apply wn_map_at; [exact HC|]. apply wn_attrs; [exact Hn|].
    apply ans_extend; [auto|]. apply ans_aput; [exact Ha|apply an_plain, Hpl].
  - (* DeleteAttrib *)
    unfold handle_DeleteAttrib in H. apply fbind_ok in H as (p & Ep & H).
    apply upd_node_inv in H as (n & n' & G & E & ->). unfold h_DeleteAttrib in E.
    destruct (ahas (xattrs n) k); [|discriminate]. inversion E; subst n'. cbn [fs_tree].
    pose proof (wn_get _ _ _ HC G) as Hn. destruct (wn_own n Hn) as (_ & Ha & _).
    apply wn_map_at; [exact HC|]. apply wn_attrs; [exact Hn|].
    apply ans_extend; [auto|apply ans_adel, Ha].
  - (* InsertAttrib *)
    unfold handle_InsertAttrib in H. apply fbind_ok in H as (p & Ep & H).
    apply upd_node_inv in H as (n & n' & G & E & ->). unfold h_InsertAttrib in E. inversion E; subst n'. cbn [fs_tree].
    pose proof (wn_get _ _ _ HC G) as Hn. destruct (wn_own n Hn) as (_ & Ha & _).
    apply wn_map_at; [exact HC|]. apply wn_attrs; [exact Hn|].
    apply ans_extend; [auto|]. apply ans_aput; [exact Ha|apply an_plain, Hpl].
  - (* RenameAttrib *)
    unfold handle_RenameAttrib in H. apply fbind_ok in H as (p & Ep & H).
    apply upd_node_inv in H as (n & n' & G & E & ->). unfold h_RenameAttrib in E.
    destruct (aget (xattrs n) k) as [v|] eqn:Eg; [|discriminate]. inversion E; subst n'. cbn [fs_tree].
    pose proof (wn_get _ _ _ HC G) as Hn. destruct (wn_own n Hn) as (_ & Ha & _).
    apply wn_map_at; [exact HC|]. apply wn_attrs; [exact Hn|].
    apply ans_extend; [auto|]. apply ans_adel, ans_aput; [exact Ha|apply an_plain, Hpl].
  - unfold handle_InsertNamespace in H. inversion H; subst st'. exact HC.
  - inversion H; subst st'. exact HC.
Qed.
End StepNames.

(* ------------------------------------------------------------------ *)
(** * finalize: the result tree lies in the printing fragment *)

Notation dok := SerializeDoc.dnode_ok.

Lemma an_not_special tag : an tag = true ->
  Placeholder.str_eqb tag Serialize.S_COMMENT = false /\ Serialize.strip_prefix Serialize.S_PI tag = None.
Proof.
  intros H. destruct (SerializeProofs.any_name_cases tag H) as [[Hp _]|(l & -> & _ & _)].
  - destruct (SerializeProofs.plain_head tag Hp) as (ch & r & -> & NC). split.
    + destruct (Placeholder.str_eqb (ch :: r) Serialize.S_COMMENT) eqn:E; [|reflexivity]. exfalso.
      apply PlaceholderProofs.str_eqb_eq in E. inversion E as [[E1 E2]]. revert E1. SerializeProofs.not_name_char NC.
    + unfold Serialize.S_PI. apply SerializeProofs.strip_prefix_head_neq. intro E. symmetry in E. revert E. SerializeProofs.not_name_char NC.
  - split; reflexivity.
Qed.

Lemma dok_elem tag attrs text tail kids : an tag = true ->
  dok (XNode tag attrs text tail kids) = an tag && ans attrs && forallb dok kids.
Proof. intros H. destruct (an_not_special tag H) as [E1 E2]. cbn [SerializeDoc.dnode_ok]. rewrite E1, E2. reflexivity. Qed.

Section WithS.
Variable S : pstate.
Hypothesis HS : tinv S.

Lemma exp_names d : forallb dok (snd (exp d)) = true.
Proof.
  induction d as [|pc d IH]; cbn [exp]; [reflexivity|].
  destruct (exp d) as [l ws]. cbn [snd] in *.
  destruct pc as [[op t]|cc new old]; [destruct op|]; cbn [snd forallb]; try exact IH; rewrite IH, andb_true_r; reflexivity.
Qed.

Lemma names_exp : forall W, wn W -> forall W' sibs, Exp S W W' sibs ->
  dok W' = true /\ forallb dok sibs = true.
Proof.
  induction W as [tag attrs text tail kids IH] using Placeholder.xtree_ind2.
  intros HC W' sibs HE. inversion HE as [? ? ? ? ? dt dl text1 kids' Hdt Et Hdl El Ht1 F2]; subst.
  destruct (wn_own _ HC) as (H1 & Ha & Hk). cbn [xtag xattrs xkids] in *.
  split; [|apply exp_names]. rewrite (dok_elem _ _ _ _ _ H1), H1, Ha. cbn [andb].
  rewrite forallb_app, exp_names. cbn [andb].
  clear - IH Hk F2. induction F2 as [|k r kids kids' X _ IHf]; [reflexivity|].
  inversion IH as [|? ? IHk IHr]; subst. inversion Hk as [|? ? Ck Cr]; subst.
  cbn [flat_map]. rewrite forallb_app. cbn [forallb]. destruct (IHk Ck _ _ X) as [A B]. rewrite A, B. cbn [andb]. apply IHf; assumption.
Qed.

Theorem finalize_names W T : winv S W -> wn W -> finalize S W = FOk T -> dok T = true.
Proof.
  intros HW HC HF.
  destruct (undo_exp S HS W (wi_run _ _ HW) (Placeholder.default_fuel S W) false) as (W' & sibs & E & X).
  - unfold Placeholder.default_fuel, Placeholder.UNDO_DEPTH. pose proof (xheight_le_tsize W). lia.
  - right. apply (wi_tail _ _ HW).
  - assert (EF : finalize S W = FOk W').
    { unfold finalize, Placeholder.undo_tree, Placeholder.undo_tree_fuel. rewrite E. reflexivity. }
    rewrite EF in HF. inversion HF; subst T. apply (names_exp W HC W' sibs X).
Qed.
End WithS.
