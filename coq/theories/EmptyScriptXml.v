(* EmptyScriptXml -- C03, third clause, for EVERY configuration of the XML formatter (text tags, formatting tags,
   use_replace, any normalize): for an empty edit script the formatter returns the (prepared) left document --
   prepare() replaces the content of text tags by placeholders in both documents, format() runs no handler, finalize()
   restores the left tree with the maker that has meanwhile also seen the right document.
   Composition of XV.XmlFmt.prepare / xml_format with the round trip of XV.Placeholder (PlaceholderRound / Undo / Final):
   the placeholders of the left document are still covered by the larger table (dcov_mono, dlive_mono).  No axioms. *)
From Coq Require Import List NArith Bool Arith Lia.
Import ListNotations.
Require Import XV.Str XV.Forest XV.XmlFmt.
Require Import XV.Placeholder XV.PlaceholderProofs XV.PlaceholderRound XV.PlaceholderUndo XV.PlaceholderFinal.
Local Open Scope N_scope.

(* undo with a LATER maker: the tree substituted with s1 is restored by any maker s2 that extends s1 within the
   private-use area *)
Theorem roundtrip_later : forall tt fmt s T s1 T1 s2,
  ph_wf tt fmt s -> no_pua T -> do_tree tt fmt s T = (s1, T1) ->
  ext s1 s2 -> ph_inv s2 -> good tt fmt s2 -> ctr s2 <= PUA_END ->
  forall fuel, (xheight T < fuel)%nat ->
    exists T2, undo_tree_fuel fuel s2 T1 = Ok T2 /\ tree_equiv T2 T.
Proof.
  intros tt fmt s T s1 T1 s2 (I & G & N) NP E X12 I2 G2 R2 fuel LF.
  destruct (do_tree_spec _ _ _ _ _ _ E I G) as (I1 & X & G1 & D & ->).
  assert (N1 : p2t s1 <> []) by (eapply ext_nonempty; eauto).
  assert (N2 : p2t s2 <> []) by (eapply ext_nonempty; eauto).
  pose proof (ext_kext _ _ X12) as K.
  pose proof (dcov_mono tt fmt _ _ T K false D) as D2.
  rewrite <- (dlive_mono tt fmt _ _ T K D).
  destruct (undo_main tt fmt s2 I2 G2 R2 N2 (xsize T) T (le_n _) NP) as [_ PB].
  destruct fuel as [|f]; [lia|].
  destruct (PB f false D2 ltac:(lia)) as (T2 & U & EQ).
  exists T2. unfold undo_tree_fuel. rewrite U. cbn [bind fst]. split; [reflexivity | exact EQ].
Qed.

Section Empty.
Variable c : cfg.
Variable o : oracle.
Variable rootns : list (option str * str).

(* the formatter on the EMPTY script: prepare, no handler, finalize *)
Theorem xml_format_empty_script : forall (L R : tree) s LP RP,
  prepare c L R = (s, LP, RP) ->
  no_pua (remove_comments L) ->
  ctr s <= PUA_END ->                                               (* room: fewer than 6394 placeholders in all *)
  (xheight (remove_comments L) < UNDO_DEPTH)%nat ->                  (* Python's recursion limit *)
  exists T, xml_format c o rootns s [] LP = FOk T /\ tree_equiv T (remove_comments L).
Proof.
  intros L R s LP RP EP NP RM H. unfold prepare in EP.
  destruct (do_tree (c_tt c) (c_fmt c) ph_init (remove_comments L)) as [s1 L1] eqn:E1.
  destruct (do_tree (c_tt c) (c_fmt c) s1 (remove_comments R)) as [s2 R1] eqn:E2.
  inversion EP; subst s LP RP. clear EP.
  pose proof (ph_wf_init (c_tt c) (c_fmt c)) as W0. pose proof W0 as (I0 & G0 & N0).
  destruct (do_tree_spec _ _ _ _ _ _ E1 I0 G0) as (I1 & X1 & G1 & _ & _).
  destruct (do_tree_spec _ _ _ _ _ _ E2 I1 G1) as (I2 & X2 & G2 & _ & _).
  destruct (roundtrip_later (c_tt c) (c_fmt c) ph_init (remove_comments L) s1 L1 s2 W0 NP E1 X2 I2 G2 RM
              (default_fuel s2 L1)) as (T2 & U & EQ).
  { unfold default_fuel. apply Nat.lt_le_trans with (m := UNDO_DEPTH); [exact H|].
    apply Nat.le_trans with (m := (UNDO_DEPTH + 2 * tsize L1)%nat); apply Nat.le_add_r. }
  exists T2. split; [|exact EQ].
  unfold xml_format. cbn [handle_all fbind fs_ph fs_tree]. unfold finalize. rewrite undo_tree_eq, U. reflexivity.
Qed.
End Empty.
