(* Differ.match() and node_ratio (xmldiff/diff.py).  Model only -- no proofs here.

   The similarity of two node texts (CPython difflib + floats) is an ORACLE:
   a Section variable `leaf_sim`, together with the arithmetic `combine` used for
   sqrt((m**2 + (count/child_count)**2)/2).  Everything else -- the comment rule,
   the unique-attribute rule, child_ratio over the current matching, node_text,
   the three matching strategies -- is modelled. *)
From Coq Require Import List NArith ZArith Bool Arith.
Import ListNotations.
Require Import XV.Str XV.Forest XV.LCS.

(* uniqueattrs entries: an attribute name, or a (tag, attribute) pair *)
Inductive uattr := UA (attr : str) | UTA (tag attr : str).

Fixpoint aget (l : list (str * str)) (k : str) : option str :=
  match l with
  | [] => None
  | (k', v) :: r => if str_eqb k k' then Some v else aget r k
  end.
Definition ahas (l : list (str * str)) (k : str) : bool :=
  match aget l k with Some _ => true | None => false end.

(* utils.post_order_traverse *)
Fixpoint post_order (fuel : nat) (f : forest) (n : id) : list id :=
  match fuel with
  | O => []
  | S fu => flat_map (post_order fu f) (kidsof f n) ++ [n]
  end.

Section Matcher.
Variable sim : Type.
Variables (sim_ltb sim_leb : sim -> sim -> bool) (sim_is_one : sim -> bool) (zero one : sim).
Variable leaf_sim : str -> str -> sim.
Variable combine : sim -> nat -> nat -> sim.

Record mopts := MOpts { oF : sim; ouniq : list uattr; ofast : bool; obest : bool; oignored : list str }.
Variable o : mopts.
Variables L R : forest.
Variables rootL rootR : id.

(* Differ.node_attribs: attributes minus the ignored ones *)
Definition node_attribs (attrs : list (str * str)) : list (str * str) :=
  filter (fun kv => negb (smem (fst kv) (oignored o))) attrs.

Definition otext (t : option str) : str := match t with Some s => s | None => [] end.

(* "}" -split()[-1] of a Clark name *)
Fixpoint after_last_brace (s acc : str) : str :=
  match s with
  | [] => acc
  | c :: r => if N.eqb c 125 then after_last_brace r r else after_last_brace r acc
  end.
Definition strip_ns (k : str) : str :=
  match k with
  | c :: _ => if N.eqb c 123 then after_last_brace k k else k
  | [] => k
  end.

(* node.xpath("text()"): the non-empty text and child tails, in document order *)
Definition text_nodes (f : forest) (n : id) : list str :=
  filter (fun s => negb (str_eqb s []))
         (otext (ltext (labof f n)) :: map (fun c => otext (ltail (labof f c))) (kidsof f n)).

Definition tag_str (t : tagt) : str := match t with TElem s => s | TComment => [] end.

(* Differ.node_text *)
Definition node_text (f : forest) (n : id) : str :=
  let lb := labof f n in
  let texts := tag_str (ltag lb) :: text_nodes f n
               ++ map (fun kv => strip_ns (fst kv) ++ [58%N] ++ snd kv)
                      (sort_attrs (node_attribs (lattrs lb))) in
  cleanup_whitespace (strip (join [32%N] texts)).

Definition l2rmap := id -> option id.

(* Differ.child_ratio: None when neither node has children *)
Fixpoint count_matched (l2r : l2rmap) (lkids rkids : list id) : nat :=
  match lkids with
  | [] => 0
  | lc :: rest =>
      match l2r lc with
      | Some rc => if mem rc rkids then S (count_matched l2r rest (remove_id rc rkids))
                   else count_matched l2r rest rkids
      | None => count_matched l2r rest rkids
      end
  end.
Definition child_ratio (l2r : l2rmap) (l r : id) : option (nat * nat) :=
  let lk := kidsof L l in let rk := kidsof R r in
  match lk, rk with
  | [], [] => None
  | _, _ => Some (count_matched l2r lk rk, Nat.max (length lk) (length rk))
  end.

(* the uniqueattrs loop of node_ratio (with the ignored-attribute guard): every
   applicable, non-ignored unique attribute present on either node must agree;
   `found` records that at least one was present *)
Fixpoint uniq_decide (us : list uattr) (lt rt : tagt) (la ra : list (str * str)) (found : bool) : option sim :=
  match us with
  | [] => if found then Some one else None
  | u :: rest =>
      let '(applies, attr) :=
        match u with
        | UA a => (true, a)
        | UTA t a => (tag_eqb (TElem t) lt && tag_eqb (TElem t) rt, a)
        end in
      if applies && negb (smem attr (oignored o)) && (ahas la attr || ahas ra attr)
      then if ostr_eqb (aget la attr) (aget ra attr)
           then uniq_decide rest lt rt la ra true
           else Some zero
      else uniq_decide rest lt rt la ra found
  end.

(* Differ.node_ratio *)
Definition node_ratio (l2r : l2rmap) (l r : id) : sim :=
  let ll := labof L l in let rl := labof R r in
  if is_comment (ltag ll) || is_comment (ltag rl) then
    if is_comment (ltag ll) && is_comment (ltag rl)
    then leaf_sim (otext (ltext ll)) (otext (ltext rl))
    else zero
  else
    match uniq_decide (ouniq o) (ltag ll) (ltag rl) (lattrs ll) (lattrs rl) false with
    | Some s => s
    | None =>
        let m := leaf_sim (node_text L l) (node_text R r) in
        match child_ratio l2r l r with
        | None => m
        | Some (c, n) => combine m c n
        end
    end.

Record mstate := MS { ms_matches : list (id * id);   (* in the order of Differ._matches *)
                      ms_l2r : l2rmap }.
Definition append_match (s : mstate) (l r : id) : mstate :=
  MS (ms_matches s ++ [(l, r)]) (upd (ms_l2r s) l (Some r)).

(* inner loop of the default strategy: scan candidates, keep the best, stop at 1.0 *)
Fixpoint best_cand (l2r : l2rmap) (l : id) (rs : list id) (mn : option id) (mx : sim) : option id * sim :=
  match rs with
  | [] => (mn, mx)
  | r :: rest =>
      let m := node_ratio l2r l r in
      let '(mn', mx') := if sim_ltb mx m then (Some r, m) else (mn, mx) in
      if sim_is_one m then (mn', mx') else best_cand l2r l rest mn' mx'
  end.

(* the final loop (lines 167-188) *)
Fixpoint default_loop (ls : list id) (rs : list id) (s : mstate) : mstate :=
  match ls with
  | [] => s
  | l :: rest =>
      let '(mn, mx) := best_cand (ms_l2r s) l rs None zero in
      if sim_leb (oF o) mx then
        match mn with
        | Some r => default_loop rest (remove_id r rs) (append_match s l r)
        | None => default_loop rest rs s      (* only reachable when F <= 0; excluded *)
        end
      else default_loop rest rs s
  end.

(* best_match, first stage: inner loop.  Result: inl r = perfect match found,
   inr (node, max) = the for-else branch *)
Fixpoint perfect_cand (l2r : l2rmap) (l : id) (rs : list id) (mn : option id) (mx : sim)
  : id + (option id * sim) :=
  match rs with
  | [] => inr (mn, mx)
  | r :: rest =>
      let m := node_ratio l2r l r in
      if sim_is_one m then inl r
      else if sim_ltb mx m then perfect_cand l2r l rest (Some r) m
      else perfect_cand l2r l rest mn mx
  end.
Fixpoint best_stage1 (ls rs : list id) (s : mstate) (un : list (id * option id * sim))
  : list id * mstate * list (id * option id * sim) :=
  match ls with
  | [] => (rs, s, un)
  | l :: rest =>
      match perfect_cand (ms_l2r s) l rs None zero with
      | inl r => best_stage1 rest (remove_id r rs) (append_match s l r) un
      | inr (mn, mx) => best_stage1 rest rs s (un ++ [(l, mn, mx)])
      end
  end.
Fixpoint best_stage2 (un : list (id * option id * sim)) (rs : list id) (s : mstate) (ls : list id)
  : list id * list id * mstate :=
  match un with
  | [] => (ls, rs, s)
  | (l, mn, mx) :: rest =>
      match mn with
      | Some r => if sim_leb (oF o) mx && mem r rs
                  then best_stage2 rest (remove_id r rs) (append_match s l r) ls
                  else best_stage2 rest rs s (ls ++ [l])
      | None => best_stage2 rest rs s (ls ++ [l])
      end
  end.

Definition nth_id (l : list id) (i : Z) : id := nth (Z.to_nat i) l 0.

(* remove the elements at the given (increasing) positions *)
Fixpoint drop_positions (i : nat) (ps : list nat) (l : list id) : list id :=
  match l with
  | [] => []
  | x :: r => if existsb (Nat.eqb i) ps then drop_positions (S i) ps r else x :: drop_positions (S i) ps r
  end.

Definition match_nodes : option (list (id * id)) :=
  let ls := remove_id rootL (post_order (S (fnext L)) L rootL) in
  let rs := remove_id rootR (post_order (S (fnext R)) R rootR) in
  let s0 := MS [] (fun _ => None) in
  let stage :=
    if ofast o then
      match lcs_seq (fun x y => sim_leb (oF o) (node_ratio (fun _ => None) x y)) ls rs with
      | None => None
      | Some ps =>
          let s1 := fold_left (fun s p => append_match s (nth_id ls (fst p)) (nth_id rs (snd p))) ps s0 in
          Some (drop_positions 0 (map (fun p => Z.to_nat (fst p)) ps) ls,
                drop_positions 0 (map (fun p => Z.to_nat (snd p)) ps) rs, s1)
      end
    else if obest o then
      let '(rs1, s1, un) := best_stage1 ls rs s0 [] in
      Some (best_stage2 un rs1 s1 [])
    else Some (ls, rs, s0) in
  match stage with
  | None => None
  | Some (ls', rs', s1) =>
      Some (ms_matches (append_match (default_loop ls' rs' s1) rootL rootR))
  end.

End Matcher.
