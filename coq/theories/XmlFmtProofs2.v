(* XmlFmtProofs2 -- _make_diff_tags without text tags and without use_replace.

   With text_tags = [] the maker stays [ph_init] (the six wrapper placeholders),
   texts are PLAIN (no character in the placeholder range) and:
   * [realign_plain]   _realign_placeholders is the identity on plain, non-empty segments;
   * [text_diff_spec]  the segments handed to the marking loop reconstruct the two
                       (normalised) texts: t1 = left, t2 = right   (uses C16: diff_main_spec,
                       cleanupSemantic_t12), are plain and non-empty;
   * [make_diff_tags_spec] the string written into node.text / tail is [enc d]:
                       EQUAL text | <ins> text </ins> | <del> text </del> with the fixed
                       placeholders, the maker is unchanged;
   * [astr_enc] / [rstr_enc]  reading that string with every change accepted gives t2 d,
                       with every change rejected gives t1 d.
   No axioms. *)
From Coq Require Import List NArith ZArith Bool Arith Lia.
Import ListNotations.
Require Import XV.Str XV.Json XV.TextFormat XV.Forest XV.Matcher XV.Differ XV.Path XV.WF XV.XmlFmt XV.Projections
               XV.XmlFmtProofs1.
Require XV.Placeholder XV.PlaceholderProofs XV.PlaceholderRound XV.PlaceholderUndo XV.PlaceholderFinal.
Require XV.DMP XV.DMPBase XV.DMPMain XV.DMPSemantic XV.DMPRealign.
Local Open Scope N_scope.

Notation okc := PlaceholderUndo.okc.
Notation plainb := PlaceholderUndo.plainb.
Notation ph_init := Placeholder.ph_init.

Definition plain (x : str) : Prop := plainb x = true.

Lemma plain_nil : plain [].
Proof. reflexivity. Qed.
Lemma plain_cons c x : plain (c :: x) <-> okc c = true /\ plain x.
Proof. unfold plain. cbn. apply andb_true_iff. Qed.
Lemma plain_app x y : plain (x ++ y) <-> plain x /\ plain y.
Proof. unfold plain, plainb. rewrite forallb_app. apply andb_true_iff. Qed.
Lemma plain_Forall x : plain x <-> Forall (fun c => okc c = true) x.
Proof. unfold plain, plainb. rewrite forallb_forall, Forall_forall. reflexivity. Qed.

(* ------------------------------------------------------------------ *)
(** * The initial maker *)

Lemma ph_init_p2t : Placeholder.p2t ph_init =
  [(57350, (Placeholder.diff_elem Placeholder.s_replace, Placeholder.TOpen, Some 57349));
   (57349, (Placeholder.diff_elem Placeholder.s_replace, Placeholder.TClose, None));
   (57348, (Placeholder.diff_elem Placeholder.s_delete, Placeholder.TOpen, Some 57347));
   (57347, (Placeholder.diff_elem Placeholder.s_delete, Placeholder.TClose, None));
   (57346, (Placeholder.diff_elem Placeholder.s_insert, Placeholder.TOpen, Some 57345));
   (57345, (Placeholder.diff_elem Placeholder.s_insert, Placeholder.TClose, None))].
Proof. vm_compute. reflexivity. Qed.

Lemma okc_range c : okc c = true -> c <= 57344 \/ 63743 < c.
Proof.
  unfold PlaceholderUndo.okc, Placeholder.PLACEHOLDER_START, Placeholder.PUA_END.
  intros H. apply orb_true_iff in H as [H|H]; [left; apply N.leb_le, H|right; apply N.ltb_lt, H].
Qed.

Lemma ph_init_get_plain c : okc c = true -> Placeholder.p2t_get (Placeholder.p2t ph_init) c = None.
Proof.
  intros H. apply okc_range in H. rewrite ph_init_p2t. cbn [Placeholder.p2t_get].
  repeat match goal with |- context [N.eqb c ?k] => destruct (N.eqb_spec c k); [lia|] end.
  reflexivity.
Qed.

Lemma ph_init_is_ph_plain c : okc c = true -> Placeholder.is_ph ph_init c = false.
Proof. intros H. unfold Placeholder.is_ph. now rewrite ph_init_get_plain. Qed.

Lemma cls_init_plain c : okc c = true -> cls_of ph_init c = None.
Proof. intros H. unfold cls_of. now rewrite ph_init_get_plain. Qed.

(* ------------------------------------------------------------------ *)
(** * _realign_placeholders on plain segments *)

Lemma split_acc_plain cls text : (forall c, In c text -> cls c = None) ->
  forall cur, DMP.split_acc cls text cur = DMP.flush (rev text ++ cur).
Proof.
  induction text as [|c r IH]; intros H cur; cbn [DMP.split_acc rev app]; [reflexivity|].
  rewrite (H c (or_introl eq_refl)). rewrite IH by (intros; apply H; now right).
  now rewrite <- app_assoc.
Qed.

Lemma split_string_plain cls text : (forall c, In c text -> cls c = None) -> text <> [] ->
  DMP.split_string cls text = [text].
Proof.
  intros H Hne. unfold DMP.split_string. rewrite split_acc_plain by exact H.
  rewrite app_nil_r. unfold DMP.flush. destruct (rev text) eqn:E.
  - apply (f_equal (@rev N)) in E. rewrite rev_involutive in E. contradiction.
  - rewrite <- E, rev_involutive. reflexivity.
Qed.

Lemma realign_seg_plain cls o sg nd st : (forall c, In c sg -> cls c = None) ->
  DMP.realign_seg cls o sg (nd, st) = DMP.Ok (nd ++ [(o, sg)], st).
Proof.
  intros H. unfold DMP.realign_seg. destruct sg as [|c [|c' r]]; try reflexivity.
  rewrite (H c (or_introl eq_refl)). reflexivity.
Qed.

Definition seg_ok (cls : DMP.cls_t) (sg : DMP.op * str) : Prop :=
  (forall c, In c (snd sg) -> cls c = None) /\ snd sg <> [].

Lemma realign_loop_plain cls d : Forall (seg_ok cls) d -> forall nd st,
  DMP.realign_loop cls d (nd, st) = DMP.Ok (nd ++ d, st).
Proof.
  induction 1 as [|[o t] d [H1 H2] _ IH]; intros nd st; cbn [DMP.realign_loop].
  - now rewrite app_nil_r.
  - cbn [snd] in *. rewrite (split_string_plain cls t H1 H2). cbn [DMP.realign_segs DMP.bind].
    rewrite (realign_seg_plain cls o t nd st H1). cbn [DMP.bind]. rewrite IH, <- app_assoc. reflexivity.
Qed.

Lemma realign_plain cls d : Forall (seg_ok cls) d -> DMP.realign cls d = DMP.Ok d.
Proof. intros H. unfold DMP.realign. rewrite (realign_loop_plain cls d H). reflexivity. Qed.

(* ------------------------------------------------------------------ *)
(** * Plain texts give plain segments *)

Lemma proj_plain k (d : list (DMP.op * str)) : plain (DMPBase.proj k d) ->
  Forall (fun sg => k (fst sg) = true -> plain (snd sg)) d.
Proof.
  induction d as [|[o t] d IH]; intros H; [constructor|].
  rewrite DMPBase.proj_cons in H. apply plain_app in H as [H1 H2].
  constructor; [|auto]. cbn [fst snd]. intros Hk. now rewrite Hk in H1.
Qed.

Lemma segs_plain (d : list (DMP.op * str)) : plain (DMP.t1 d) -> plain (DMP.t2 d) ->
  Forall (fun sg => plain (snd sg)) d.
Proof.
  intros H1 H2. rewrite DMPBase.t1_proj in H1. rewrite DMPBase.t2_proj in H2.
  apply proj_plain in H1. apply proj_plain in H2.
  rewrite Forall_forall in *. intros [o t] Hin. specialize (H1 _ Hin). specialize (H2 _ Hin).
  cbn [fst snd] in *. destruct o; [apply H1|apply H2|apply H1]; reflexivity.
Qed.

(* cleanup_whitespace(..).strip() keeps a text plain *)
Lemma okc_space : okc 32 = true.
Proof. reflexivity. Qed.

Lemma cleanup_ws_plain x : forall b, plain x -> plain (cleanup_ws_aux b x).
Proof.
  induction x as [|c r IH]; intros b H; cbn [cleanup_ws_aux]; [exact H|].
  apply plain_cons in H as [Hc Hr].
  destruct (is_space c); [destruct b|]; try (apply plain_cons; split; [first [exact okc_space|exact Hc]|]); auto.
Qed.

Lemma lstrip_plain x : plain x -> plain (lstrip x).
Proof.
  induction x as [|c r IH]; intros H; cbn [lstrip]; [exact H|].
  destruct (is_space c); [apply IH; apply plain_cons in H; tauto|exact H].
Qed.

Lemma rev_plain x : plain x -> plain (rev x).
Proof.
  intros H. apply plain_Forall. apply plain_Forall in H. rewrite Forall_forall in *.
  intros c Hc. apply H. now apply in_rev.
Qed.

Lemma normalize_text_plain x : plain x -> plain (normalize_text x).
Proof.
  intros H. unfold normalize_text, Str.strip, rstrip, cleanup_whitespace.
  apply rev_plain, lstrip_plain, rev_plain, lstrip_plain, cleanup_ws_plain, H.
Qed.

(* ------------------------------------------------------------------ *)
(** * The segments handed to the marking loop *)

Definition norm_if (c : cfg) (x : str) : str := if ws_text c then normalize_text x else x.

Lemma norm_if_plain c x : plain x -> plain (norm_if c x).
Proof. unfold norm_if. destruct (ws_text c); [apply normalize_text_plain|auto]. Qed.

Lemma of_dmp_ok {A} (r : DMP.result A) a : of_dmp r = FOk a -> r = DMP.Ok a.
Proof. destruct r as [x|[]]; cbn; intros H; inversion H; reflexivity. Qed.

Lemma fbind_ok {A B} (r : fres A) (f : A -> fres B) b : fbind r f = FOk b -> exists a, r = FOk a /\ f a = FOk b.
Proof. destruct r as [a|e]; cbn; [eauto|discriminate]. Qed.

Theorem text_diff_spec c o left right ds :
  c_replace c = false -> plain left -> plain right ->
  text_diff c o ph_init left right = FOk ds ->
  exists d, ds = map (fun sg : DMP.op * str => DMP.JS (fst sg) (snd sg)) d /\
            DMP.t1 d = norm_if c left /\ DMP.t2 d = norm_if c right /\
            Forall (fun sg => plain (snd sg) /\ snd sg <> []) d.
Proof.
  intros Hr Hl Hrt H. unfold text_diff in H. fold (norm_if c left) in H. fold (norm_if c right) in H.
  apply fbind_ok in H as (d0 & E0 & H). apply of_dmp_ok in E0.
  apply fbind_ok in H as (d1 & E1 & H). apply of_dmp_ok in E1.
  apply fbind_ok in H as (d2 & E2 & H). apply of_dmp_ok in E2.
  rewrite Hr in H. inversion H; subst ds; clear H.
  apply DMPMain.diff_main_spec in E0 as (A1 & A2 & _).
  apply DMPSemantic.cleanupSemantic_t12 in E1 as (B1 & B2 & B3).
  assert (P1 : plain (DMP.t1 d1)) by (rewrite B1, A1; apply norm_if_plain, Hl).
  assert (P2 : plain (DMP.t2 d1)) by (rewrite B2, A2; apply norm_if_plain, Hrt).
  pose proof (segs_plain d1 P1 P2) as SP.
  assert (SO : Forall (seg_ok (cls_of ph_init)) d1).
  { rewrite Forall_forall in *. intros sg Hin. split; [|apply B3, Hin].
    intros ch Hc. apply cls_init_plain. specialize (SP _ Hin). apply plain_Forall in SP.
    rewrite Forall_forall in SP. apply SP, Hc. }
  rewrite (realign_plain _ _ SO) in E2. inversion E2; subst d2.
  exists d1. split; [reflexivity|]. split; [congruence|]. split; [congruence|].
  rewrite Forall_forall in *. intros sg Hin. split; [apply SP, Hin|apply B3, Hin].
Qed.

(* ------------------------------------------------------------------ *)
(** * The marking loop *)

Definition enc_seg (sg : DMP.op * str) : str :=
  match fst sg with
  | DMP.EQUAL => snd sg
  | DMP.INSERT => INS_O :: snd sg ++ [INS_C]
  | DMP.DELETE => DEL_O :: snd sg ++ [DEL_C]
  end.
Definition enc (d : list (DMP.op * str)) : str := concat (map enc_seg d).

Lemma is_placeholder_plain x : plain x -> is_placeholder ph_init x = None.
Proof.
  intros H. unfold is_placeholder. destruct x as [|c [|c' r]]; try reflexivity.
  apply plain_cons in H as [Hc _]. now rewrite ph_init_is_ph_plain.
Qed.

Lemma mdt_seg_plain fmt in_tail out any (sg : DMP.op * str) : plain (snd sg) ->
  mdt_seg fmt in_tail (ph_init, out, any) (DMP.JS (fst sg) (snd sg)) = FOk (ph_init, out ++ enc_seg sg, true).
Proof.
  intros H. destruct sg as [o t]. cbn [fst snd] in *. unfold enc_seg. cbn [fst snd].
  destruct o; cbn [mdt_seg]; try reflexivity;
    unfold mdt_marked; rewrite (is_placeholder_plain t H); reflexivity.
Qed.

Lemma mdt_loop_plain fmt in_tail d : Forall (fun sg : DMP.op * str => plain (snd sg)) d -> forall out any,
  mdt_loop fmt in_tail (ph_init, out, any) (map (fun sg : DMP.op * str => DMP.JS (fst sg) (snd sg)) d)
  = FOk (ph_init, out ++ enc d, match d with [] => any | _ => true end).
Proof.
  induction 1 as [|sg d H _ IH]; intros out any; cbn [map mdt_loop].
  - unfold enc. cbn. now rewrite app_nil_r.
  - rewrite (mdt_seg_plain fmt in_tail out any sg H). cbn [fbind]. rewrite IH.
    unfold enc. cbn [map concat]. rewrite <- app_assoc. destruct d; reflexivity.
Qed.

Theorem make_diff_tags_spec c o left right in_tail r :
  c_replace c = false -> plain left -> plain right ->
  make_diff_tags c o ph_init left right in_tail = FOk r ->
  exists d, r = (ph_init, enc d, match d with [] => false | _ => true end) /\
            DMP.t1 d = norm_if c left /\ DMP.t2 d = norm_if c right /\
            Forall (fun sg => plain (snd sg) /\ snd sg <> []) d.
Proof.
  intros Hr Hl Hrt H. unfold make_diff_tags in H. apply fbind_ok in H as (ds & E & H).
  destruct (text_diff_spec c o left right ds Hr Hl Hrt E) as (d & -> & T1 & T2 & F).
  rewrite mdt_loop_plain in H by (eapply Forall_impl; [|exact F]; cbn; tauto).
  inversion H; subst r. exists d. cbn [app]. auto.
Qed.

(* ------------------------------------------------------------------ *)
(** * Reading the marked string *)

Lemma okc_neq c k : okc c = true -> okc k = false -> N.eqb c k = false.
Proof. intros H1 H2. destruct (N.eqb_spec c k); [subst; congruence|reflexivity]. Qed.

Lemma okc_pua c : okc c = true -> is_pua c = false.
Proof.
  intros H. apply okc_range in H. unfold is_pua. destruct H as [H|H].
  - destruct (N.ltb_spec 57344 c); [lia|reflexivity].
  - destruct (N.leb_spec c 63743); [lia|]. now rewrite andb_false_r.
Qed.

Lemma astr_go_keep x r : plain x -> astr_go false (x ++ r) = x ++ astr_go false r.
Proof.
  induction x as [|c x IH]; intros H; cbn [app astr_go]; [reflexivity|].
  apply plain_cons in H as [Hc Hx].
  rewrite (okc_neq c DEL_O Hc eq_refl), (okc_neq c DEL_C Hc eq_refl), (okc_pua c Hc). now rewrite IH.
Qed.
Lemma astr_go_skip x r : plain x -> astr_go true (x ++ r) = astr_go true r.
Proof.
  induction x as [|c x IH]; intros H; cbn [app astr_go]; [reflexivity|].
  apply plain_cons in H as [Hc Hx].
  rewrite (okc_neq c DEL_O Hc eq_refl), (okc_neq c DEL_C Hc eq_refl), (okc_pua c Hc). now rewrite IH.
Qed.

Lemma astr_plain x : plain x -> astr x = x.
Proof. intros H. unfold astr. rewrite <- (app_nil_r x) at 1. rewrite astr_go_keep by exact H. cbn. now rewrite app_nil_r. Qed.
Lemma astr_enc_app d : Forall (fun sg : DMP.op * str => plain (snd sg)) d -> forall r,
  astr (enc d ++ r) = DMP.t2 d ++ astr r.
Proof.
  unfold astr. induction 1 as [|[o t] d H _ IH]; intros r; [reflexivity|].
  unfold enc. cbn [map concat]. fold (enc d). rewrite <- app_assoc.
  rewrite DMPBase.t2_proj, DMPBase.proj_cons, <- DMPBase.t2_proj. cbn [snd] in H.
  destruct o; unfold enc_seg; cbn [fst snd DMPBase.keep2 DMP.is_delete negb].
  - (* DELETE *) cbn [app astr_go]. change (N.eqb DEL_O DEL_O) with true. cbv iota.
    rewrite <- app_assoc. rewrite astr_go_skip by exact H.
    cbn [app astr_go]. change (N.eqb DEL_C DEL_O) with false. change (N.eqb DEL_C DEL_C) with true. cbv iota.
    apply IH.
  - (* INSERT *) cbn [app astr_go]. change (N.eqb INS_O DEL_O) with false. change (N.eqb INS_O DEL_C) with false.
    change (is_pua INS_O) with true. cbv iota.
    rewrite <- app_assoc. rewrite astr_go_keep by exact H. rewrite <- app_assoc. f_equal.
    cbn [app astr_go]. change (N.eqb INS_C DEL_O) with false. change (N.eqb INS_C DEL_C) with false.
    change (is_pua INS_C) with true. cbv iota.
    apply IH.
  - (* EQUAL *) rewrite astr_go_keep by exact H. rewrite <- app_assoc. f_equal. apply IH.
Qed.

Theorem astr_enc d : Forall (fun sg : DMP.op * str => plain (snd sg)) d -> astr (enc d) = DMP.t2 d.
Proof. intros H. rewrite <- (app_nil_r (enc d)), astr_enc_app by exact H. cbn. now rewrite app_nil_r. Qed.
