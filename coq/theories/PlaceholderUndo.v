(* Proofs about the PlaceholderMaker model, part 3: undo_string re-parses what
   do_element wrote; undo_tree after do_tree gives back the document. *)
From Coq Require Import List NArith Bool Lia Arith.
Import ListNotations.
Require Import XV.Placeholder XV.PlaceholderProofs XV.PlaceholderRound.
Local Open Scope N_scope.

(* ------------------------------------------------ documents and equivalence *)
(* a character that can never be a placeholder while the counter stays in the
   private use area: outside (U+E000, U+F8FF] *)
Definition okc (c : N) : bool := (c <=? PLACEHOLDER_START) || (PUA_END <? c).
Definition plainb (l : str) : bool := forallb okc l.

Fixpoint npua (t : xtree) : bool :=
  match t with
  | XNode _ _ text tail kids => plainb (otxt text) && plainb tail && forallb npua kids
  end.
(* no character of T's texts and tails is a private-use code point of the placeholder range *)
Definition no_pua (T : xtree) : Prop := npua T = true.

(* absent and empty text identified *)
Fixpoint tnorm (t : xtree) : xtree :=
  match t with
  | XNode tag attrs text tail kids => XNode tag attrs (ornone (otxt text)) tail (map tnorm kids)
  end.
Definition tree_equiv (a b : xtree) : Prop := tnorm a = tnorm b.

Fixpoint xsizes (ks : list xtree) : nat :=
  match ks with [] => O | k :: r => (xsize k + xsizes r)%nat end.
Lemma xsize_unfold : forall tag attrs text tail kids,
  xsize (XNode tag attrs text tail kids) = S (xsizes kids).
Proof.
  intros. reflexivity.
Qed.
Lemma xsize_pos : forall t, (0 < xsize t)%nat.
Proof. destruct t. rewrite xsize_unfold. lia. Qed.
Lemma xsizes_in : forall k ks, In k ks -> (xsize k <= xsizes ks)%nat.
Proof.
  intros k ks. induction ks as [|a r IH]; cbn [In xsizes]; [tauto|]. intros [->|H]; [lia|]. apply IH in H. lia.
Qed.

Fixpoint xheights (ks : list xtree) : nat :=
  match ks with [] => O | k :: r => Nat.max (xheight k) (xheights r) end.
Lemma xheight_unfold : forall tag attrs text tail kids,
  xheight (XNode tag attrs text tail kids) = S (xheights kids).
Proof. intros. reflexivity. Qed.
Lemma xheights_in : forall k ks, In k ks -> (xheight k <= xheights ks)%nat.
Proof.
  intros k ks. induction ks as [|a r IH]; cbn [In xheights]; [tauto|]. intros [->|H]; [lia|]. apply IH in H. lia.
Qed.
Lemma xheights_map : forall (f : xtree -> xtree) ks, Forall (fun k => xheight (f k) = xheight k) ks ->
  xheights (map f ks) = xheights ks.
Proof. intros f ks F. induction F as [|k r Hk _ IH]; cbn [map xheights]; [reflexivity | rewrite Hk, IH; reflexivity]. Qed.

Lemma ornone_otxt_idem : forall x, otxt (ornone (otxt x)) = otxt x.
Proof. intros [[|c l]|]; reflexivity. Qed.
Lemma otxt_ornone : forall l, otxt (ornone l) = l.
Proof. intros [|c l]; reflexivity. Qed.

Lemma knorm_otxt : forall text (kids : list xtree),
  otxt (match text, kids with Some [], _ :: _ => None | x, _ => x end) = otxt text.
Proof. intros [[|c l]|] [|k ks]; reflexivity. Qed.

Lemma tnorm_knorm : forall t, tnorm (knorm t) = tnorm t.
Proof.
  induction t as [tag attrs text tail kids IH] using xtree_ind2. cbn [knorm tnorm].
  rewrite knorm_otxt. f_equal. rewrite map_map. apply map_ext_Forall. exact IH.
Qed.
Lemma xsizes_map : forall (f : xtree -> xtree) ks, Forall (fun k => xsize (f k) = xsize k) ks ->
  xsizes (map f ks) = xsizes ks.
Proof. intros f ks F. induction F as [|k r Hk _ IH]; cbn [map xsizes]; [reflexivity | rewrite Hk, IH; reflexivity]. Qed.
Lemma xsize_knorm : forall t, xsize (knorm t) = xsize t.
Proof.
  induction t as [tag attrs text tail kids IH] using xtree_ind2. cbn [knorm]. rewrite !xsize_unfold.
  f_equal. apply xsizes_map. exact IH.
Qed.
Lemma xsize_tnorm : forall t, xsize (tnorm t) = xsize t.
Proof.
  induction t as [tag attrs text tail kids IH] using xtree_ind2. cbn [tnorm]. rewrite !xsize_unfold.
  f_equal. apply xsizes_map. exact IH.
Qed.
Lemma xheight_tnorm : forall t, xheight (tnorm t) = xheight t.
Proof.
  induction t as [tag attrs text tail kids IH] using xtree_ind2. cbn [tnorm]. rewrite !xheight_unfold.
  f_equal. apply xheights_map. exact IH.
Qed.
Lemma npua_tnorm : forall t, npua (tnorm t) = npua t.
Proof.
  induction t as [tag attrs text tail kids IH] using xtree_ind2. cbn [tnorm npua].
  rewrite ornone_otxt_idem. f_equal.
  induction IH as [|k r Hk _ IHr]; cbn [map forallb]; [reflexivity | rewrite Hk, IHr; reflexivity].
Qed.
Lemma xtail_tnorm : forall t, xtail (tnorm t) = xtail t.
Proof. destruct t; reflexivity. Qed.
Lemma xtail_knorm : forall t, xtail (knorm t) = xtail t.
Proof. destruct t; reflexivity. Qed.

Lemma equiv_size : forall a b, tnorm a = tnorm b -> xsize a = xsize b.
Proof. intros a b H. rewrite <- (xsize_tnorm a), <- (xsize_tnorm b), H. reflexivity. Qed.
Lemma equiv_height : forall a b, tnorm a = tnorm b -> xheight a = xheight b.
Proof. intros a b H. rewrite <- (xheight_tnorm a), <- (xheight_tnorm b), H. reflexivity. Qed.
Lemma equiv_npua : forall a b, tnorm a = tnorm b -> npua a = npua b.
Proof. intros a b H. rewrite <- (npua_tnorm a), <- (npua_tnorm b), H. reflexivity. Qed.
Lemma equiv_tail : forall a b, tnorm a = tnorm b -> xtail a = xtail b.
Proof. intros a b H. rewrite <- (xtail_tnorm a), <- (xtail_tnorm b), H. reflexivity. Qed.
Lemma knorm_equiv : forall a b, knorm a = knorm b -> tnorm a = tnorm b.
Proof. intros a b H. rewrite <- (tnorm_knorm a), <- (tnorm_knorm b), H. reflexivity. Qed.

(* -------------------------------------------------------------- the section *)
Section Undo.
Variables (tt fmt : list str) (F : state).
Hypothesis INV : ph_inv F.
Hypothesis GD : good tt fmt F.
Hypothesis ROOM : ctr F <= PUA_END.
Hypothesis NEMP : p2t F <> [].

Lemma is_ph_not_okc : forall c, is_ph F c = true -> okc c = false.
Proof.
  intros c H. unfold is_ph in H. destruct (p2t_get (p2t F) c) as [e|] eqn:E; [|discriminate].
  destruct INV as (_ & _ & (C1 & _)). destruct (C1 _ _ E) as [Ha Hb]. unfold okc.
  apply orb_false_iff. split; [apply N.leb_gt; lia | apply N.ltb_ge; lia].
Qed.
Lemma okc_not_ph : forall c, okc c = true -> is_ph F c = false.
Proof. intros c H. destruct (is_ph F c) eqn:E; [apply is_ph_not_okc in E; congruence | reflexivity]. Qed.
Lemma okc_no_entry : forall c, okc c = true -> p2t_get (p2t F) c = None.
Proof.
  intros c H. apply okc_not_ph in H. unfold is_ph in H. destruct (p2t_get (p2t F) c); [discriminate | reflexivity].
Qed.
Lemma bound_is_ph : forall k c, t2p_get (t2p F) k = Some c -> is_ph F c = true.
Proof.
  intros [[el ty] cl] c H. destruct INV as ((I1 & _) & _). destruct (I1 _ _ _ _ H) as [e E]. unfold is_ph. rewrite E. reflexivity.
Qed.

(* ------------------------------------------------------------ split_string *)
Lemma split_plain : forall l, plainb l = true -> split_string F l = [l].
Proof.
  induction l as [|c r IH]; cbn [plainb forallb split_string]; [reflexivity|]. intro H.
  apply andb_true_iff in H. destruct H as [H1 H2]. rewrite (okc_not_ph _ H1). unfold plainb in IH. rewrite (IH H2). reflexivity.
Qed.
Lemma split_plain_ph : forall l c rest, plainb l = true -> is_ph F c = true ->
  split_string F (l ++ c :: rest) = l :: [c] :: split_string F rest.
Proof.
  induction l as [|x r IH]; intros c rest H P; cbn [app split_string].
  - rewrite P. reflexivity.
  - cbn [plainb forallb] in H. apply andb_true_iff in H. destruct H as [H1 H2]. rewrite (okc_not_ph _ H1).
    unfold plainb in IH. rewrite (IH _ _ H2 P). reflexivity.
Qed.
Lemma split_head : forall x, exists h t, split_string F x = h :: t /\ Forall (fun c => is_ph F c = false) h.
Proof.
  induction x as [|c r (h & t & E & P)]; cbn [split_string].
  - exists [], []. auto.
  - destruct (is_ph F c) eqn:PC.
    + exists [], ([c] :: split_string F r). auto.
    + rewrite E. exists (c :: h), t. auto.
Qed.
Lemma split_length_app : forall y z, (length (split_string F z) <= length (split_string F (y ++ z)))%nat.
Proof.
  induction y as [|c r IH]; intro z; cbn [app split_string]; [lia|].
  destruct (is_ph F c).
  - cbn [length]. specialize (IH z). lia.
  - destruct (split_head (r ++ z)) as (h & t & E & _). specialize (IH z). rewrite E in *. cbn [length] in *. lia.
Qed.

Lemma take_until_split : forall phc Y Z acc,
  is_ph F phc = true -> ~ In phc Y ->
  take_until (Some phc) (split_string F (Y ++ phc :: Z)) acc = Some (acc ++ Y, split_string F Z).
Proof.
  intros phc Y Z acc P. revert acc. induction Y as [|c Y' IH]; intros acc NI; cbn [app split_string].
  - rewrite P. cbn [take_until seg_is str_eqb]. rewrite N.eqb_refl. cbn. rewrite !app_nil_r. reflexivity.
  - assert (NE : c <> phc) by (intro; apply NI; left; auto).
    assert (NI' : ~ In phc Y') by (intro; apply NI; right; auto).
    destruct (is_ph F c) eqn:PC.
    + cbn [take_until seg_is str_eqb]. destruct (N.eqb c phc) eqn:E; [apply N.eqb_eq in E; congruence|].
      cbn [andb]. rewrite IH by exact NI'. rewrite app_nil_r. rewrite <- app_assoc. reflexivity.
    + destruct (split_head (Y' ++ phc :: Z)) as (h & t & E & PH). specialize (IH (acc ++ [c]) NI'). rewrite E in *.
      cbn [take_until] in *.
      assert (S1 : seg_is (Some phc) (c :: h) = false).
      { cbn [seg_is str_eqb]. destruct (N.eqb c phc) eqn:E2; [apply N.eqb_eq in E2; congruence | reflexivity]. }
      assert (S2 : seg_is (Some phc) h = false).
      { cbn [seg_is]. destruct (str_eqb h [phc]) eqn:E2; [|reflexivity]. apply str_eqb_eq in E2. subst h.
        inversion PH; subst. congruence. }
      rewrite S1. rewrite S2 in IH. rewrite <- app_assoc in IH. cbn [app] in IH. rewrite <- app_assoc in IH. exact IH.
Qed.

(* ------------------------------------------------------------- undo_string *)
Definition push_plain (pre rtext : str) (acc : list xtree) : str * list xtree :=
  match pre with
  | [] => (rtext, acc)
  | _ :: _ =>
    match acc with
    | e :: a => (rtext, tail_or e pre :: a)
    | [] => (match rtext with [] => pre | _ => rtext end, [])
    end
  end.

Lemma us_loop_plain : forall uel n pre rest rtext acc,
  plainb pre = true ->
  us_loop F uel (S n) (pre :: rest) rtext acc =
  us_loop F uel n rest (fst (push_plain pre rtext acc)) (snd (push_plain pre rtext acc)).
Proof.
  intros uel n pre rest rtext acc H. cbn [us_loop]. destruct pre as [|c p]; [reflexivity|].
  cbn [plainb forallb] in H. apply andb_true_iff in H. destruct H as [H1 _].
  assert (E : match p with [] => p2t_get (p2t F) c | _ :: _ => None end = None).
  { destruct p; [apply okc_no_entry; exact H1 | reflexivity]. }
  rewrite E. unfold push_plain. destruct acc; reflexivity.
Qed.
Lemma us_loop_nil : forall uel n rtext acc, us_loop F uel n [] rtext acc = Ok (rtext, rev acc).
Proof. intros. destruct n; reflexivity. Qed.

Definition kid_ok (uel : xtree -> res xtree) (k : xtree) : Prop :=
  match k with
  | XNode tag attrs text tail kids =>
    let k0 := XNode tag attrs text [] kids in
    let Y := otxt text ++ enc_kids fmt (t2p F) kids in
    plainb tail = true /\
    if mem tag fmt then
      exists phc pho, t2p_get (t2p F) (knorm k0, TClose, None) = Some phc /\
        t2p_get (t2p F) (knorm k0, TOpen, Some phc) = Some pho /\ ~ In phc Y /\
        exists k2, uel (XNode tag attrs (ornone Y) [] []) = Ok k2 /\ tnorm k2 = tnorm k0 /\ xtail k2 = []
    else
      exists ph e, t2p_get (t2p F) (knorm k0, TSingle, None) = Some ph /\
        p2t_get (p2t F) ph = Some (e, TSingle, None) /\
        exists k2, uel e = Ok k2 /\ tnorm k2 = tnorm k0 /\ xtail k2 = []
  end.

Lemma enc_fmt_form : forall tag attrs text tail kids phc pho,
  mem tag fmt = true ->
  t2p_get (t2p F) (knorm (XNode tag attrs text [] kids), TClose, None) = Some phc ->
  t2p_get (t2p F) (knorm (XNode tag attrs text [] kids), TOpen, Some phc) = Some pho ->
  enc fmt (t2p F) (XNode tag attrs text tail kids) = pho :: (otxt text ++ enc_kids fmt (t2p F) kids) ++ phc :: tail.
Proof.
  intros tag attrs text tail kids phc pho M L1 L2. cbn [enc]. cbv zeta. rewrite M. unfold phd. rewrite L1, L2.
  unfold enc_kids. rewrite <- app_assoc. reflexivity.
Qed.
Lemma enc_single_form : forall tag attrs text tail kids ph,
  mem tag fmt = false ->
  t2p_get (t2p F) (knorm (XNode tag attrs text [] kids), TSingle, None) = Some ph ->
  enc fmt (t2p F) (XNode tag attrs text tail kids) = ph :: tail.
Proof. intros tag attrs text tail kids ph M L1. cbn [enc]. cbv zeta. rewrite M. unfold phd. rewrite L1. reflexivity. Qed.

Lemma tail_or_equiv : forall a tag attrs text tail kids,
  tnorm a = tnorm (XNode tag attrs text [] kids) -> xtail a = [] ->
  tnorm (match tail with [] => a | _ :: _ => tail_or a tail end) = tnorm (XNode tag attrs text tail kids).
Proof.
  intros [t1 a1 x1 l1 k1] tag attrs text tail kids H T. cbn [xtail] in T. subst l1.
  destruct tail as [|c r]; [exact H|]. unfold tail_or. cbn [xtail xtag xattrs xtext xkids tnorm] in *.
  inversion H; subst. reflexivity.
Qed.

Lemma push_plain_elem : forall tail rtext k2 acc, xtail k2 = [] ->
  push_plain tail rtext (k2 :: acc) = (rtext, (match tail with [] => k2 | _ :: _ => tail_or k2 tail end) :: acc).
Proof. intros [|c r] rtext k2 acc H; reflexivity. Qed.

Lemma parse_kids : forall uel ks, Forall (kid_ok uel) ks ->
  forall pre rtext acc n, plainb pre = true ->
    (length (split_string F (pre ++ enc_kids fmt (t2p F) ks)) < n)%nat ->
    exists ks2,
      us_loop F uel n (split_string F (pre ++ enc_kids fmt (t2p F) ks)) rtext acc
      = Ok (fst (push_plain pre rtext acc), rev (snd (push_plain pre rtext acc)) ++ ks2)
      /\ Forall2 (fun a b => tnorm a = tnorm b) ks2 ks.
Proof.
  intros uel ks FK. induction FK as [|k ks Hk _ IH]; intros pre rtext acc n PL LEN.
  - unfold enc_kids in *. cbn [map concat] in *. rewrite app_nil_r in *. rewrite split_plain in * by exact PL.
    destruct n as [|n]; [cbn in LEN; lia|]. rewrite us_loop_plain by exact PL. rewrite us_loop_nil.
    exists []. rewrite app_nil_r. auto.
  - destruct k as [tag attrs text tail kids]. unfold kid_ok in Hk. cbv zeta in Hk. destruct Hk as [PT Hk].
    assert (EK : enc_kids fmt (t2p F) (XNode tag attrs text tail kids :: ks)
                 = enc fmt (t2p F) (XNode tag attrs text tail kids) ++ enc_kids fmt (t2p F) ks) by reflexivity.
    rewrite EK in *. clear EK.
    (* what happens once the element for this child has been appended *)
    assert (AFTER : forall n2 rtext' acc' k2,
              tnorm k2 = tnorm (XNode tag attrs text [] kids) -> xtail k2 = [] ->
              (length (split_string F (tail ++ enc_kids fmt (t2p F) ks)) < n2)%nat ->
              exists ks2, us_loop F uel n2 (split_string F (tail ++ enc_kids fmt (t2p F) ks)) rtext' (k2 :: acc')
                          = Ok (rtext', rev acc' ++ ks2)
                          /\ Forall2 (fun a b => tnorm a = tnorm b) ks2 (XNode tag attrs text tail kids :: ks)).
    { intros n2 rtext' acc' k2 E2 T2 L2. destruct (IH tail rtext' (k2 :: acc') n2 PT L2) as (ks2 & R & FA).
      rewrite (push_plain_elem _ _ _ _ T2) in R. cbn [fst snd rev] in R. rewrite <- app_assoc in R. cbn [app] in R.
      eexists. split; [exact R|]. constructor; [|exact FA]. apply tail_or_equiv; assumption. }
    destruct (mem tag fmt) eqn:MF.
    + destruct Hk as (phc & pho & L1 & L2 & NI & k2 & U2 & E2 & T2).
      rewrite (enc_fmt_form _ _ _ _ _ _ _ MF L1 L2) in *.
      assert (SHAPE : pre ++ (pho :: (otxt text ++ enc_kids fmt (t2p F) kids) ++ phc :: tail) ++ enc_kids fmt (t2p F) ks
                      = pre ++ pho :: ((otxt text ++ enc_kids fmt (t2p F) kids) ++ phc :: (tail ++ enc_kids fmt (t2p F) ks))).
      { cbn [app]. rewrite <- app_assoc. reflexivity. }
      rewrite SHAPE in *. clear SHAPE.
      pose proof (bound_is_ph _ _ L1) as P1. pose proof (bound_is_ph _ _ L2) as P2.
      rewrite (split_plain_ph _ _ _ PL P2) in *.
      pose proof (split_length_app (otxt text ++ enc_kids fmt (t2p F) kids) (phc :: tail ++ enc_kids fmt (t2p F) ks)) as SL.
      cbn [split_string] in SL. rewrite P1 in SL. cbn [length] in LEN, SL.
      destruct n as [|[|n2]]; try lia. rewrite us_loop_plain by exact PL.
      destruct INV as ((I1 & _) & _). destruct (I1 _ _ _ _ L2) as [e PE].
      pose proof (GD _ _ _ _ _ PE L2) as (GK & GT & GA). cbn [xtag xattrs knorm] in GT, GA.
      cbn [us_loop]. rewrite PE. rewrite (take_until_split _ _ _ _ P1 NI). cbn [app].
      assert (ST : set_text_tail e (ornone (otxt text ++ enc_kids fmt (t2p F) kids)) [] =
                   XNode tag attrs (ornone (otxt text ++ enc_kids fmt (t2p F) kids)) [] []).
      { unfold set_text_tail. rewrite GK, GT, GA. reflexivity. }
      rewrite ST, U2. cbn [bind].
      destruct (AFTER n2 (fst (push_plain pre rtext acc)) (snd (push_plain pre rtext acc)) k2 E2 T2) as (ks2 & R & FA); [lia|].
      exists ks2. split; assumption.
    + destruct Hk as (ph & e & L1 & PE & k2 & U2 & E2 & T2).
      rewrite (enc_single_form _ _ _ _ _ _ MF L1) in *.
      assert (SHAPE : pre ++ (ph :: tail) ++ enc_kids fmt (t2p F) ks = pre ++ ph :: (tail ++ enc_kids fmt (t2p F) ks)) by reflexivity.
      rewrite SHAPE in *. clear SHAPE.
      pose proof (bound_is_ph _ _ L1) as P1. rewrite (split_plain_ph _ _ _ PL P1) in *. cbn [length] in LEN.
      destruct n as [|[|n2]]; try lia. rewrite us_loop_plain by exact PL.
      cbn [us_loop]. rewrite PE. rewrite U2. cbn [bind].
      destruct (AFTER n2 (fst (push_plain pre rtext acc)) (snd (push_plain pre rtext acc)) k2 E2 T2) as (ks2 & R & FA); [lia|].
      exists ks2. split; assumption.
Qed.

(* ------------------------------------------------------------ undo_element *)
Definition u_cont (f : nat) (cs : list xtree) : res (list xtree) :=
  mapM (fun c => bind (undo_element f F true c) (fun r => Ok (fst r))) cs.
Definition u_text (f : nat) (text : option str) (kids : list xtree) : res (option str * list xtree) :=
  match otxt text with
  | [] => Ok (text, kids)
  | _ :: _ =>
    bind (undo_string f F (otxt text)) (fun '(rt, cs) =>
      if str_eqb (otxt text) rt then Ok (text, kids)
      else bind (u_cont f cs) (fun cs' => Ok (ornone rt, cs' ++ kids)))
  end.
Definition u_tail (f : nat) (hp : bool) (tag : str) (attrs : list (str * str)) (text1 : option str) (tail : str)
           (kids2 : list xtree) : res (xtree * list xtree) :=
  match tail with
  | [] => Ok (XNode tag attrs text1 tail kids2, [])
  | _ :: _ =>
    bind (undo_string f F tail) (fun '(rt, cs) =>
      if str_eqb tail rt then Ok (XNode tag attrs text1 tail kids2, [])
      else if hp then bind (u_cont f cs) (fun cs' => Ok (XNode tag attrs text1 rt kids2, cs'))
           else Err ENoParent)
  end.
Definition u_rest (f : nat) (hp : bool) (tag : str) (attrs : list (str * str)) (text1 : option str) (tail : str)
           (kids1 : list xtree) : res (xtree * list xtree) :=
  bind (mapM (fun c => bind (undo_element f F true c) (fun r => Ok (fst r :: snd r))) kids1)
       (fun kk => u_tail f hp tag attrs text1 tail (concat kk)).

Lemma undo_element_S : forall f hp tag attrs text tail kids,
  undo_element (S f) F hp (XNode tag attrs text tail kids) =
  bind (u_text f text kids) (fun '(text1, kids1) => u_rest f hp tag attrs text1 tail kids1).
Proof.
  intros. cbn [undo_element]. destruct (p2t F) as [|p0 pr] eqn:E; [congruence|]. reflexivity.
Qed.

Lemma ustr_plain : forall f x, plainb x = true -> undo_string f F x = Ok (x, []).
Proof.
  intros f x H. unfold undo_string. rewrite (split_plain _ H). cbn [length]. rewrite us_loop_plain by exact H.
  rewrite us_loop_nil. destruct x; reflexivity.
Qed.
Lemma u_text_plain : forall f text kids, plainb (otxt text) = true -> u_text f text kids = Ok (text, kids).
Proof.
  intros f text kids H. unfold u_text. destruct (otxt text) as [|c r] eqn:E; [reflexivity|].
  rewrite (ustr_plain _ _ H). cbn [bind]. rewrite str_eqb_refl. reflexivity.
Qed.
Lemma u_tail_plain : forall f hp tag attrs text1 tail kids2, plainb tail = true ->
  u_tail f hp tag attrs text1 tail kids2 = Ok (XNode tag attrs text1 tail kids2, []).
Proof.
  intros f hp tag attrs text1 tail kids2 H. unfold u_tail. destruct tail as [|c r]; [reflexivity|].
  rewrite (ustr_plain _ _ H). cbn [bind]. rewrite str_eqb_refl. reflexivity.
Qed.

Lemma mapM_kids_of : forall f ks ks2,
  Forall2 (fun c c2 => undo_element f F true c = Ok (c2, [])) ks ks2 ->
  mapM (fun c => bind (undo_element f F true c) (fun r => Ok (fst r :: snd r))) ks = Ok (map (fun c => [c]) ks2).
Proof.
  intros f ks ks2 H. induction H as [|c c2 ks ks2 Hc _ IH]; cbn [mapM map]; [reflexivity|].
  rewrite Hc. cbn [bind fst snd]. rewrite IH. reflexivity.
Qed.
Lemma u_cont_of : forall f ks ks2,
  Forall2 (fun c c2 => undo_element f F true c = Ok (c2, [])) ks ks2 -> u_cont f ks = Ok ks2.
Proof.
  intros f ks ks2 H. unfold u_cont. induction H as [|c c2 ks ks2 Hc _ IH]; cbn [mapM]; [reflexivity|].
  rewrite Hc. cbn [bind fst]. rewrite IH. reflexivity.
Qed.
Lemma concat_singletons : forall (A : Type) (l : list A), concat (map (fun c => [c]) l) = l.
Proof. induction l as [|a l IH]; cbn; [reflexivity | rewrite IH; reflexivity]. Qed.
Lemma Forall2_same : forall (A : Type) (R : A -> A -> Prop) l, Forall (fun x => R x x) l -> Forall2 R l l.
Proof. intros A R l H. induction H; constructor; auto. Qed.

(* a PUA-free tree is left alone *)
Lemma undo_id : forall t, npua t = true -> forall f hp, (xheight t <= f)%nat -> undo_element (S f) F hp t = Ok (t, []).
Proof.
  induction t as [tag attrs text tail kids IH] using xtree_ind2. intros NP f hp LF.
  cbn [npua] in NP. apply andb_true_iff in NP. destruct NP as [NP N3]. apply andb_true_iff in NP. destruct NP as [N1 N2].
  rewrite xheight_unfold in LF. destruct f as [|f]; [lia|].
  rewrite undo_element_S. rewrite (u_text_plain _ _ _ N1). cbn [bind]. unfold u_rest.
  assert (FA : Forall2 (fun c c2 => undo_element (S f) F true c = Ok (c2, [])) kids kids).
  { apply Forall2_same. rewrite Forall_forall in IH. apply Forall_forall. intros k Hk. apply IH; [exact Hk| |].
    - rewrite forallb_forall in N3. apply N3. exact Hk.
    - pose proof (xheights_in _ _ Hk). lia. }
  rewrite (mapM_kids_of _ _ _ FA). cbn [bind]. rewrite concat_singletons. apply u_tail_plain. exact N2.
Qed.

(* ------------------------------ which characters do_element can have written *)
Lemma plainb_in : forall l x, plainb l = true -> In x l -> okc x = true.
Proof. intros l x H I. unfold plainb in H. rewrite forallb_forall in H. auto. Qed.

Lemma enc_chars : forall d, npua d = true -> fcov fmt (t2p F) d = true ->
  forall x, In x (enc fmt (t2p F) d) ->
    okc x = true \/ exists el ty cl, t2p_get (t2p F) (knorm el, ty, cl) = Some x /\ (xsize el <= xsize d)%nat.
Proof.
  induction d as [tag attrs text tail kids IH] using xtree_ind2. intros NP FC x IN.
  cbn [npua] in NP. apply andb_true_iff in NP. destruct NP as [NP N3]. apply andb_true_iff in NP. destruct NP as [N1 N2].
  cbn [fcov] in FC. cbv zeta in FC. destruct (mem tag fmt) eqn:MF.
  - destruct (t2p_get (t2p F) (knorm (XNode tag attrs text [] kids), TClose, None)) as [phc|] eqn:L1; [|discriminate].
    destruct (t2p_get (t2p F) (knorm (XNode tag attrs text [] kids), TOpen, Some phc)) as [pho|] eqn:L2; [|discriminate].
    rewrite (enc_fmt_form _ _ _ _ _ _ _ MF L1 L2) in IN.
    destruct IN as [<-|IN].
    { right. exists (XNode tag attrs text [] kids), TOpen, (Some phc). split; [exact L2 | rewrite !xsize_unfold; lia]. }
    apply in_app_or in IN. destruct IN as [IN|IN].
    + apply in_app_or in IN. destruct IN as [IN|IN]; [left; exact (plainb_in _ _ N1 IN)|].
      unfold enc_kids in IN. apply in_concat in IN. destruct IN as (l & IL & IX).
      apply in_map_iff in IL. destruct IL as (k & <- & IK).
      rewrite Forall_forall in IH. rewrite forallb_forall in N3, FC.
      destruct (IH k IK (N3 k IK) (FC k IK) x IX) as [H|(el & ty & cl & H1 & H2)]; [left; exact H|].
      right. exists el, ty, cl. split; [exact H1|]. pose proof (xsizes_in _ _ IK). rewrite xsize_unfold. lia.
    + destruct IN as [<-|IN]; [|left; exact (plainb_in _ _ N2 IN)].
      right. exists (XNode tag attrs text [] kids), TClose, None. split; [exact L1 | rewrite !xsize_unfold; lia].
  - destruct (t2p_get (t2p F) (knorm (XNode tag attrs text [] kids), TSingle, None)) as [ph|] eqn:L1; [|discriminate].
    rewrite (enc_single_form _ _ _ _ _ _ MF L1) in IN. destruct IN as [<-|IN]; [|left; exact (plainb_in _ _ N2 IN)].
    right. exists (XNode tag attrs text [] kids), TSingle, None. split; [exact L1 | rewrite !xsize_unfold; lia].
Qed.

(* the close placeholder of an element does not occur between its own open and close *)
Lemma no_close_inside : forall tag attrs text kids phc,
  plainb (otxt text) = true -> forallb npua kids = true -> forallb (fcov fmt (t2p F)) kids = true ->
  t2p_get (t2p F) (knorm (XNode tag attrs text [] kids), TClose, None) = Some phc ->
  ~ In phc (otxt text ++ enc_kids fmt (t2p F) kids).
Proof.
  intros tag attrs text kids phc N1 N3 FC L1 IN.
  pose proof (is_ph_not_okc _ (bound_is_ph _ _ L1)) as NOK.
  apply in_app_or in IN. destruct IN as [IN|IN].
  - rewrite (plainb_in _ _ N1 IN) in NOK. discriminate.
  - unfold enc_kids in IN. apply in_concat in IN. destruct IN as (l & IL & IX).
    apply in_map_iff in IL. destruct IL as (k & <- & IK). rewrite forallb_forall in N3, FC.
    destruct (enc_chars k (N3 k IK) (FC k IK) _ IX) as [H|(el & ty & cl & H1 & H2)]; [congruence|].
    destruct INV as (_ & J & _). pose proof (J _ _ _ H1 L1) as EQ.
    assert (E1 : knorm el = knorm (XNode tag attrs text [] kids)) by congruence.
    pose proof (f_equal xsize E1) as SZ. rewrite !xsize_knorm in SZ. rewrite xsize_unfold in SZ.
    pose proof (xsizes_in _ _ IK). lia.
Qed.

Lemma enc_nonempty : forall k, enc fmt (t2p F) k <> [].
Proof. intros [tag attrs text tail kids]. cbn [enc]. cbv zeta. destruct (mem tag fmt); discriminate. Qed.
Lemma enc_kids_nonempty : forall k ks, enc_kids fmt (t2p F) (k :: ks) <> [].
Proof.
  intros k ks H. unfold enc_kids in H. cbn [map concat] in H. apply app_eq_nil in H. destruct H as [H _].
  exact (enc_nonempty _ H).
Qed.

(* ------------------------------------------------------- the main induction *)
Definition partA (t : xtree) : Prop :=
  forall x f hp, forallb (fcov fmt (t2p F)) (xkids t) = true ->
    otxt x = otxt (xtext t) ++ enc_kids fmt (t2p F) (xkids t) -> (xheight t <= f)%nat ->
    exists t2, undo_element (S f) F hp (XNode (xtag t) (xattrs t) x (xtail t) []) = Ok (t2, []) /\ tnorm t2 = tnorm t.
Definition partB (t : xtree) : Prop :=
  forall f hp, dcov tt fmt (t2p F) false t = true -> (xheight t <= f)%nat ->
    exists t2, undo_element (S f) F hp (dlive tt fmt (t2p F) t) = Ok (t2, []) /\ tnorm t2 = tnorm t.

Lemma kid_ok_of : forall n',
  (forall t, (xsize t <= n')%nat -> npua t = true -> partA t /\ partB t) ->
  forall f k, (xsize k <= n')%nat -> (xheight k <= f)%nat -> npua k = true -> fcov fmt (t2p F) k = true ->
    kid_ok (fun el => bind (undo_element (S f) F false el) (fun r => Ok (fst r))) k.
Proof.
  intros n' IH f [tag attrs text tail kids] LN LF NP FC.
  cbn [npua] in NP. apply andb_true_iff in NP. destruct NP as [NP N3]. apply andb_true_iff in NP. destruct NP as [N1 N2].
  unfold kid_ok. cbv zeta. split; [exact N2|]. cbn [fcov] in FC. cbv zeta in FC.
  set (k0 := XNode tag attrs text [] kids) in *.
  assert (SZ : xsize k0 = xsize (XNode tag attrs text tail kids)) by reflexivity.
  assert (HZ : xheight k0 = xheight (XNode tag attrs text tail kids)) by reflexivity.
  assert (NP0 : npua k0 = true) by (cbn [npua k0]; rewrite N1, N3; reflexivity).
  destruct (mem tag fmt) eqn:MF.
  - destruct (t2p_get (t2p F) (knorm k0, TClose, None)) as [phc|] eqn:L1; [|discriminate].
    destruct (t2p_get (t2p F) (knorm k0, TOpen, Some phc)) as [pho|] eqn:L2; [|discriminate].
    exists phc, pho. split; [reflexivity|]. split; [exact L2|].
    split; [apply (no_close_inside tag attrs text kids phc N1 N3 FC L1)|].
    destruct (IH k0 ltac:(lia) NP0) as [PA _].
    destruct (PA (ornone (otxt text ++ enc_kids fmt (t2p F) kids)) f false FC (otxt_ornone _) ltac:(lia)) as (t2 & U & E).
    cbn [k0 xtag xattrs xtail] in U. exists t2. rewrite U. cbn [bind fst]. split; [reflexivity|]. split; [exact E|].
    rewrite (equiv_tail _ _ E). reflexivity.
  - destruct (t2p_get (t2p F) (knorm k0, TSingle, None)) as [ph|] eqn:L1; [|discriminate].
    destruct INV as ((I1 & _) & _). destruct (I1 _ _ _ _ L1) as [e PE].
    pose proof (GD _ _ _ _ _ PE L1) as (c0 & KN & CASES). cbv beta iota in CASES.
    exists ph, e. split; [reflexivity|]. split; [exact PE|].
    pose proof (knorm_equiv _ _ KN) as EQ.
    assert (NPc : npua c0 = true) by (rewrite (equiv_npua _ _ EQ); exact NP0).
    assert (SZc : xsize c0 = xsize k0) by (apply equiv_size; exact EQ).
    assert (HZc : xheight c0 = xheight k0) by (apply equiv_height; exact EQ).
    assert (TLc : xtail c0 = []) by (rewrite (equiv_tail _ _ EQ); reflexivity).
    destruct CASES as [->|[-> DC]].
    + exists c0. rewrite (undo_id c0 NPc f false ltac:(lia)). cbn [bind fst]. auto.
    + destruct (IH c0 ltac:(lia) NPc) as [_ PB]. destruct (PB f false DC ltac:(lia)) as (t2 & U & E).
      exists t2. rewrite U. cbn [bind fst]. split; [reflexivity|]. split; [congruence|].
      rewrite (equiv_tail _ _ E). exact TLc.
Qed.

Lemma Forall2_in_l : forall (A B : Type) (R : A -> B -> Prop) l1 l2 a,
  Forall2 R l1 l2 -> In a l1 -> exists b, In b l2 /\ R a b.
Proof.
  intros A B R l1 l2 a H. induction H as [|x y l1 l2 Hxy _ IH]; cbn [In]; [tauto|].
  intros [<-|I]; [exists y; auto|]. destruct (IH I) as (b & Ib & Rb). exists b. auto.
Qed.
Lemma Forall2_map_eq : forall (A B : Type) (f : A -> B) l1 l2,
  Forall2 (fun a b => f a = f b) l1 l2 -> map f l1 = map f l2.
Proof. intros A B f l1 l2 H. induction H; cbn [map]; [reflexivity | congruence]. Qed.

Lemma undo_main : forall n t, (xsize t <= n)%nat -> npua t = true -> partA t /\ partB t.
Proof.
  induction n as [|n' IH]; intros t LE NP; [pose proof (xsize_pos t); lia|].
  destruct t as [tag attrs text tail kids]. rewrite xsize_unfold in LE.
  pose proof NP as NP'. cbn [npua] in NP'. apply andb_true_iff in NP'. destruct NP' as [NP' N3].
  apply andb_true_iff in NP'. destruct NP' as [N1 N2].
  assert (KSZ : forall k, In k kids -> (xsize k <= n')%nat) by (intros k Hk; pose proof (xsizes_in _ _ Hk); lia).
  assert (PA : partA (XNode tag attrs text tail kids)).
  { unfold partA. cbn [xkids xtext xtag xattrs xtail]. intros x f hp FC OX LF. rewrite xheight_unfold in LF.
    destruct f as [|f]; [lia|]. rewrite undo_element_S. unfold u_text.
    assert (PP : forall p, push_plain p [] [] = (p, [])) by (intros [|? ?]; reflexivity).
    destruct (otxt x) as [|c r] eqn:EX.
    - destruct kids as [|k ks]; [|exfalso; symmetry in OX; apply app_eq_nil in OX; destruct OX as [_ OX]; exact (enc_kids_nonempty _ _ OX)].
      cbn [bind]. unfold u_rest. cbn [mapM bind concat]. rewrite (u_tail_plain _ _ _ _ _ _ _ N2).
      eexists. split; [reflexivity|]. cbn [tnorm map]. rewrite EX. unfold enc_kids in OX. cbn [map concat] in OX.
      rewrite app_nil_r in OX. rewrite <- OX. reflexivity.
    - assert (KOK : Forall (kid_ok (fun el => bind (undo_element (S f) F false el) (fun r => Ok (fst r)))) kids).
      { apply Forall_forall. intros k Hk. rewrite forallb_forall in N3, FC.
        apply (kid_ok_of n' IH f k (KSZ k Hk)); auto. pose proof (xheights_in _ _ Hk). lia. }
      unfold undo_string. rewrite OX.
      destruct (parse_kids _ kids KOK (otxt text) [] [] (S (length (split_string F (otxt text ++ enc_kids fmt (t2p F) kids)))) N1
                  ltac:(lia)) as (ks2 & R & FA).
      rewrite R. rewrite PP. cbn [fst snd rev app bind].
      destruct kids as [|k ks].
      + inversion FA; subst. unfold enc_kids. cbn [map concat]. rewrite app_nil_r. rewrite str_eqb_refl.
        unfold u_rest. cbn [mapM bind concat]. rewrite (u_tail_plain _ _ _ _ _ _ _ N2).
        eexists. split; [reflexivity|]. cbn [tnorm map]. rewrite EX, OX. unfold enc_kids. cbn [map concat].
        rewrite app_nil_r. reflexivity.
      + destruct (str_eqb (otxt text ++ enc_kids fmt (t2p F) (k :: ks)) (otxt text)) eqn:SE.
        { exfalso. apply str_eqb_eq in SE. rewrite <- (app_nil_r (otxt text)) in SE at 2. apply app_inv_head in SE.
          exact (enc_kids_nonempty _ _ SE). }
        assert (FA2 : Forall2 (fun c c2 => undo_element (S f) F true c = Ok (c2, [])) ks2 ks2).
        { apply Forall2_same. apply Forall_forall. intros c2 Hc. destruct (Forall2_in_l _ _ _ _ _ _ FA Hc) as (k1 & Hk & E).
          apply undo_id.
          - rewrite (equiv_npua _ _ E). rewrite forallb_forall in N3. apply N3. exact Hk.
          - rewrite (equiv_height _ _ E). pose proof (xheights_in _ _ Hk). lia. }
        rewrite (u_cont_of _ _ _ FA2). cbn [bind]. rewrite app_nil_r. unfold u_rest.
        rewrite (mapM_kids_of _ _ _ FA2). cbn [bind]. rewrite concat_singletons.
        rewrite (u_tail_plain _ _ _ _ _ _ _ N2). eexists. split; [reflexivity|].
        cbn [tnorm]. rewrite otxt_ornone. f_equal. apply Forall2_map_eq. exact FA. }
  split; [exact PA|].
  unfold partB. intros f hp DC LF. rewrite xheight_unfold in LF. cbn [dlive]. cbn [dcov] in DC. cbv zeta in DC.
  destruct (mem tag tt).
  - destruct kids as [|k ks].
    + apply (fun H => ex_intro _ (XNode tag attrs text tail []) (conj H eq_refl)).
      apply undo_id; [exact NP | rewrite xheight_unfold; exact LF].
    + apply andb_true_iff in DC. destruct DC as [FC _].
      apply (PA (Some (otxt text ++ concat (map (enc fmt (t2p F)) (k :: ks)))) f hp FC eq_refl).
      rewrite xheight_unfold. exact LF.
  - destruct f as [|f]; [lia|]. rewrite undo_element_S. rewrite (u_text_plain _ _ _ N1). cbn [bind]. unfold u_rest.
    assert (KS : exists ks2, Forall2 (fun c c2 => undo_element (S f) F true c = Ok (c2, [])) (map (dlive tt fmt (t2p F)) kids) ks2
                             /\ map tnorm ks2 = map tnorm kids).
    { clear PA NP LE. induction kids as [|k ks IHk].
      - exists []. split; [constructor | reflexivity].
      - cbn [forallb] in N3, DC. apply andb_true_iff in N3, DC. destruct N3 as [Nk Nks]. destruct DC as [Dk Dks].
        cbn [xheights] in LF.
        destruct IHk as (ks2 & FA & EM); auto; [intros k1 H1; apply KSZ; right; exact H1 | lia|].
        destruct (IH k (KSZ k (or_introl eq_refl)) Nk) as [_ PB].
        destruct (PB f true Dk ltac:(lia)) as (k2 & U & E).
        exists (k2 :: ks2). split; [constructor; assumption | cbn [map]; congruence]. }
    destruct KS as (ks2 & FA & EM). rewrite (mapM_kids_of _ _ _ FA). cbn [bind]. rewrite concat_singletons.
    rewrite (u_tail_plain _ _ _ _ _ _ _ N2). eexists. split; [reflexivity|]. cbn [tnorm]. rewrite EM. reflexivity.
Qed.

End Undo.
