(* Ignorable white space (C14).

   A document, as the XML parser reads it, is a tree of items: maximal runs of
   character data, elements and comments.  (Assumptions of the representation:
   no DTD, no xml:space attribute, no CDATA sections / entity or character
   references inside the runs; every IText is one maximal run, so two ITexts are
   never adjacent and none is empty -- `wf_item`.)

   strip_item  : what etree.XMLParser(remove_blank_text=True) builds.  This is
                 libxml2's XML_PARSE_NOBLANKS, i.e. the heuristic of `areBlanks`
                 in libxml2's parser.c (2.14): a run of blanks (#x20 #x9 #xA #xD)
                 that is followed by '<' is dropped unless
                   - the element has no child yet and the next thing is its end
                     tag (the run is the element's only content), or
                   - character data was already kept in this element (which
                     covers areBlanks' "last child / first child is a text node").
                 Validated against lxml on every run (harness/props/C14.py).
   reindent    : re-indentation with newline + k spaces/tabs per level.
   layered     : every element has child nodes (elements, comments) or text, not both.
   Model only -- proofs are in WhitespaceProofs.v. *)
From Coq Require Import List NArith Bool Arith.
Import ListNotations.
Require Import XV.Str.
Local Open Scope N_scope.

Inductive item :=
| IText (s : str)
| IElem (tag : str) (attrs : list (str * str)) (content : list item)
| IComment (s : str).

Definition is_text (x : item) : bool := match x with IText _ => true | _ => false end.

(* IS_BLANK_CH *)
Definition is_blank_ch (c : N) : bool := (c =? 32) || (c =? 9) || (c =? 10) || (c =? 13).
Definition blank (s : str) : bool := forallb is_blank_ch s.

(* ---------------- remove_blank_text ---------------- *)

(* areBlanks, for a run of blanks.  `empty`: the element has no child yet;
   `seen`: character data has already been kept in this element (libxml2 then
   sets *ctxt->space = -2 and areBlanks answers 0 for the rest of the element);
   `rest`: what follows the run inside the element.
   areBlanks' remaining tests -- "the last child is a text node" and "the first
   child is a text node" -- are subsumed by `seen` in this representation: a text
   child exists only if character data was kept (first formulation of the model
   had only those two tests and disagreed with lxml on <r><b/>x<!--c--> </r>,
   where the final blank is kept; corrected after the correspondence check). *)
Definition drop_blank (empty seen : bool) (rest : list item) : bool :=
  negb seen &&
  match rest with
  | IText _ :: _ => false                       (* the next character is not '<' *)
  | [] => negb empty                            (* no child yet and "</" follows: only content, kept *)
  | _ => true
  end.

Definition strip_items (f : item -> item) :=
  fix go (empty seen : bool) (l : list item) : list item :=
    match l with
    | [] => []
    | IText s :: rest =>
        if blank s && drop_blank empty seen rest then go empty seen rest
        else IText s :: go false true rest
    | x :: rest => f x :: go false seen rest
    end.

Fixpoint strip_item (x : item) : item :=
  match x with
  | IElem t a c => IElem t a (strip_items strip_item true false c)
  | _ => x
  end.
Definition strip_blank := strip_item.

(* ---------------- re-indentation ---------------- *)

Record scheme := { sc_tabs : bool; sc_width : nat }.
Definition unit_char (s : scheme) : N := if sc_tabs s then 9 else 32.
(* the white space in front of a line at depth d *)
Definition indent (s : scheme) (d : nat) : str := 10 :: repeat (unit_char s) (sc_width s * d).

Definition structured (c : list item) : bool := existsb (fun x => negb (is_text x)) c.

(* every child node on its own line: existing runs between the nodes are replaced *)
Definition reindent_children (f : item -> item) (ind : str) :=
  fix go (l : list item) : list item :=
    match l with
    | [] => []
    | IText _ :: r => go r
    | x :: r => IText ind :: f x :: go r
    end.

Fixpoint reindent_item (s : scheme) (d : nat) (x : item) : item :=
  match x with
  | IElem t a c =>
      IElem t a (if structured c
                 then reindent_children (reindent_item s (S d)) (indent s (S d)) c ++ [IText (indent s d)]
                 else c)
  | _ => x
  end.
Definition reindent (s : scheme) (x : item) : item := reindent_item s 0 x.

(* ---------------- layered documents ---------------- *)

Fixpoint no_adjacent_texts (l : list item) : bool :=
  match l with
  | IText _ :: ((IText _ :: _) as r) => false
  | _ :: r => no_adjacent_texts r
  | [] => true
  end.

(* child nodes interleaved with ignorable white space, or at most one run of text *)
Definition layered_content (c : list item) : bool :=
  if structured c
  then forallb (fun y => match y with IText s => blank s | _ => true end) c && no_adjacent_texts c
  else (length c <=? 1)%nat.

Fixpoint layered (x : item) : bool :=
  match x with
  | IElem _ _ c => layered_content c && forallb layered c
  | _ => true
  end.

(* no ignorable white space at all: an element with child nodes has no text runs *)
Fixpoint compact (x : item) : bool :=
  match x with
  | IElem _ _ c => (if structured c then forallb (fun y => negb (is_text y)) c else true) && forallb compact c
  | _ => true
  end.

(* the representation invariant: runs are maximal and non-empty *)
Fixpoint wf_item (x : item) : bool :=
  match x with
  | IText s => negb (Nat.eqb (length s) 0)
  | IElem _ _ c => no_adjacent_texts c && forallb wf_item c
  | IComment _ => true
  end.

(* ---------------- the lxml view ---------------- *)

(* element.text: the run before the first child node *)
Definition leading_text (c : list item) : option str :=
  match c with IText s :: _ => Some s | _ => None end.
(* the tail of the last child node (or the text, if there is no child node) *)
Definition trailing_text (c : list item) : option str := leading_text (rev c).

(* descendant elements with their depth *)
Inductive desc : nat -> item -> nat -> item -> Prop :=
| desc_here d x : desc d x d x
| desc_child d t a c y d' z : In y c -> desc (S d) y d' z -> desc d (IElem t a c) d' z.

(* ---------------- equality test (for the correspondence) ---------------- *)

Fixpoint list_eqb' {A} (f : A -> A -> bool) (a b : list A) : bool :=
  match a, b with
  | [], [] => true
  | x :: a', y :: b' => f x y && list_eqb' f a' b'
  | _, _ => false
  end.
Fixpoint item_eqb (x y : item) : bool :=
  match x, y with
  | IText a, IText b => str_eqb a b
  | IComment a, IComment b => str_eqb a b
  | IElem t a c, IElem t' a' c' =>
      str_eqb t t' && list_eqb' (fun p q : str * str => str_eqb (fst p) (fst q) && str_eqb (snd p) (snd q)) a a'
      && (fix go (l l' : list item) : bool :=
            match l, l' with
            | [], [] => true
            | u :: r, v :: r' => item_eqb u v && go r r'
            | _, _ => false
            end) c c'
  | _, _ => false
  end.
