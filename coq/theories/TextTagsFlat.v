(* Text tags whose elements have no element children: prepare() leaves such documents (comments removed) and the
   placeholder maker untouched, for ANY choice of text tags and formatting tags.  The handlers of the formatter never
   look at text_tags (XmlFmt.v: c_tt occurs in prepare only), so every statement proved about xml_format on a
   prepared tree W with the initial maker -- C08_total_clean_*, C09_accept_*, C10_reject_* -- is a statement about
   every such configuration. *)
From Coq Require Import List NArith Bool.
Import ListNotations.
Require Import XV.Str XV.Placeholder XV.PlaceholderProofs.

(* no element whose tag is a text tag has children *)
Fixpoint tt_flat (tt : list str) (t : xtree) : bool :=
  match t with
  | XNode tag _ _ _ kids =>
      (negb (mem tag tt) || match kids with [] => true | _ => false end)
      && (fix go (ks : list xtree) : bool := match ks with [] => true | k :: r => tt_flat tt k && go r end) kids
  end.
Definition tt_flat_kids (tt : list str) (ks : list xtree) : bool := forallb (tt_flat tt) ks.

Lemma tt_flat_unfold tt tag attrs text tail kids :
  tt_flat tt (XNode tag attrs text tail kids) =
  (negb (mem tag tt) || match kids with [] => true | _ => false end) && tt_flat_kids tt kids.
Proof.
  reflexivity.
Qed.

Lemma dw_flat : forall tt fmt t s marks,
  tt_flat tt t = true -> dw tt fmt false s marks t = (s, marks, t).
Proof.
  intros tt fmt t. induction t as [tag attrs text tail kids IH] using xtree_ind2.
  intros s marks H. rewrite tt_flat_unfold in H. apply andb_true_iff in H as [H1 H2].
  rewrite dw_unfold. unfold dw_live.
  destruct (mem tag tt) eqn:Et.
  - cbn [negb orb] in H1. destruct kids; [reflexivity|discriminate].
  - assert (K : forall s, dw_live_kids tt fmt s kids = (s, kids)).
    { clear H1. unfold tt_flat_kids in H2. induction kids as [|k r IHr]; intros s0; [reflexivity|].
      cbn [forallb] in H2. apply andb_true_iff in H2 as [Hk Hr].
      inversion IH as [|? ? Pk Pr]; subst.
      cbn [dw_live_kids]. rewrite (Pk s0 [] Hk). rewrite (IHr Pr Hr). reflexivity. }
    rewrite K. reflexivity.
Qed.

Theorem do_tree_flat tt fmt s T : tt_flat tt T = true -> do_tree tt fmt s T = (s, T).
Proof. intros H. unfold do_tree. rewrite (dw_flat tt fmt T s [] H). reflexivity. Qed.
