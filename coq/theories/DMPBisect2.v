(* diff_bisect, part 2: what one k-loop of one half of the search does to its own state
   (independently of the other half): shape of the state after the loop, and the
   invariant [HI] of a half ("own invariant"). *)
From Coq Require Import List ZArith NArith Bool Lia.
Import ListNotations.
Require Import XV.DMP XV.DMPBase XV.DMPBisect1.
Local Open Scope Z_scope.

Section Own.
  Variables n1 n2 : Z.
  Variable M : Z -> Z -> bool.
  Variables delta off vlen : Z.

  Notation snake := (snake n1 n2 M).
  Notation scond := (scond n1 n2 M).
  Notation hbody := (hbody n1 n2 M delta off vlen).

  (* the value written on diagonal k at depth d *)
  Definition newval (f : Z -> Z) (d k : Z) : Z := fst (snake (pickx f d k) (pickx f d k - k)).

  Lemma pickx_ext f f' d k : f (k - 1) = f' (k - 1) -> f (k + 1) = f' (k + 1) -> pickx f d k = pickx f' d k.
  Proof. intros H1 H2. unfold pickx. now rewrite H1, H2. Qed.

  Lemma newval_ext f f' d k : f (k - 1) = f' (k - 1) -> f (k + 1) = f' (k + 1) -> newval f d k = newval f' d k.
  Proof. intros H1 H2. unfold newval. now rewrite (pickx_ext f f' d k H1 H2). Qed.

  Definition hitcond (chk : bool) (g : Z -> Z) (k x : Z) : Prop :=
    chk = true /\ 0 <= off + (delta - k) < vlen /\ g (delta - k) <> -1 /\ n1 <= x + g (delta - k).

  Lemma hbody_cases chk g d k f s e :
    let x := newval f d k in
    (hbody chk g d k f s e = HCont (upd f k x) s (e + 2) /\ n1 < x) \/
    (hbody chk g d k f s e = HCont (upd f k x) (s + 2) e /\ x <= n1 /\ n2 < x - k) \/
    (hbody chk g d k f s e = HCont (upd f k x) s e /\ x <= n1 /\ x - k <= n2 /\ ~ hitcond chk g k x) \/
    (hbody chk g d k f s e = HHit x (x - k) (delta - k) (g (delta - k)) /\ x <= n1 /\ x - k <= n2 /\ hitcond chk g k x).
  Proof.
    intros x. unfold hbody. fold (newval f d k). fold x.
    pose proof (snake_diag n1 n2 M (pickx f d k) (pickx f d k - k)) as (Hd & _ & _).
    assert (Hy : snd (snake (pickx f d k) (pickx f d k - k)) = x - k) by (unfold x, newval; lia).
    rewrite Hy.
    destruct (x >? n1) eqn:E1; [left; split; [reflexivity|bz; lia]|].
    destruct (x - k >? n2) eqn:E2; [right; left; split; [reflexivity|bz; lia]|].
    bz. right; right.
    unfold hitcond.
    assert (T : true = true) by reflexivity.
    destruct chk; cbn [andb];
      [|left; repeat split; try lia; try (intros (Hc & Hr & Hg & Hx); first [discriminate | bz; lia])].
    destruct (0 <=? off + (delta - k)) eqn:E3; cbn [andb];
      [|left; repeat split; try lia; try (intros (Hc & Hr & Hg & Hx); first [discriminate | bz; lia])].
    destruct (off + (delta - k) <? vlen) eqn:E4; cbn [andb];
      [|left; repeat split; try lia; try (intros (Hc & Hr & Hg & Hx); first [discriminate | bz; lia])].
    destruct (g (delta - k) =? -1) eqn:E5; cbn [negb andb];
      [left; repeat split; try lia; try (intros (Hc & Hr & Hg & Hx); first [discriminate | bz; lia])|].
    destruct (x + g (delta - k) >=? n1) eqn:E6; bz.
    - right. repeat split; try lia.
    - left. repeat split; try lia; try (intros (Hc & Hr & Hg & Hx); first [discriminate | bz; lia]).
  Qed.

  (* ---------------------------------------------------------------- *)
  (** ** the state after j iterations of the k-loop lo, lo+2, ..  of depth d *)

  Section Phase.
    Variables (chk : bool) (g : Z -> Z) (d lo : Z) (f0 : Z -> Z) (s0 e0 : Z).

    Definition nv (i : Z) : Z := newval f0 d (lo + 2 * i).

    Record Cur (j : Z) (f : Z -> Z) (s e : Z) : Prop := {
      cur_new : forall i, 0 <= i < j -> f (lo + 2 * i) = nv i;
      cur_old : forall k, (forall i, 0 <= i < j -> k <> lo + 2 * i) -> f k = f0 k;
      cur_se : s0 <= s /\ e0 <= e /\ (exists a b, s - s0 = 2 * a /\ e - e0 = 2 * b) /\ (s - s0) + (e - e0) <= 2 * j;
      cur_e : e0 < e -> exists i, 0 <= i < j /\ n1 < nv i /\ e - e0 <= 2 * (j - i);
      cur_s : s0 < s -> exists i, 0 <= i < j /\ nv i <= n1 /\ n2 < nv i - (lo + 2 * i) /\ s - s0 <= 2 * i + 2;
      cur_nohit : forall i, 0 <= i < j -> nv i <= n1 -> nv i - (lo + 2 * i) <= n2 -> ~ hitcond chk g (lo + 2 * i) (nv i)
    }.

    Lemma Cur_0 : Cur 0 f0 s0 e0.
    Proof.
      split.
      - intros i Hi. lia.
      - intros k _. reflexivity.
      - repeat split; try lia. exists 0, 0. lia.
      - lia.
      - lia.
      - intros i Hi. lia.
    Qed.

    Lemma Cur_newval j f s e : 0 <= j -> Cur j f s e -> newval f d (lo + 2 * j) = nv j.
    Proof.
      intros Hj C. unfold nv. apply newval_ext; apply (cur_old _ _ _ _ C); intros i Hi; lia.
    Qed.

    Lemma Cur_step j f s e f' s' e' : 0 <= j -> Cur j f s e ->
      hbody chk g d (lo + 2 * j) f s e = HCont f' s' e' -> Cur (j + 1) f' s' e'.
    Proof.
      intros Hj C Hb.
      pose proof (Cur_newval j f s e Hj C) as Hn.
      destruct C as [Cn Co (S1 & S2 & (a & b & Sa & Sb) & S3) Ce Cs Cnh].
      assert (Hf : forall x, f' = upd f (lo + 2 * j) x ->
                (forall i, 0 <= i < j + 1 -> f' (lo + 2 * i) = (if i =? j then x else nv i)) /\
                (forall k, (forall i, 0 <= i < j + 1 -> k <> lo + 2 * i) -> f' k = f0 k)).
      { intros x ->. split.
        - intros i Hi. destruct (i =? j) eqn:E; bz.
          + subst. apply upd_same.
          + rewrite upd_other by lia. apply Cn. lia.
        - intros k Hk. rewrite upd_other by (apply Hk; lia). apply Co. intros i Hi. apply Hk. lia. }
      destruct (hbody_cases chk g d (lo + 2 * j) f s e) as [(E & H1)|[(E & H1 & H2)|[(E & H1 & H2 & H3)|(E & _)]]];
        rewrite Hn in *; rewrite E in Hb; try discriminate; injection Hb as <- <- <-;
        destruct (Hf _ eq_refl) as [Hf1 Hf2].
      - split.
        + intros i Hi. rewrite Hf1 by assumption. destruct (i =? j) eqn:Ei; bz; now subst.
        + assumption.
        + repeat split; try lia. exists a, (b + 1). lia.
        + intros _. destruct (Z_lt_le_dec e0 e) as [Hlt|Hge].
          * destruct (Ce Hlt) as (i & Hi & Hv & Hc). exists i. repeat split; try lia; assumption.
          * exists j. repeat split; try lia; assumption.
        + intros Hlt. destruct (Cs Hlt) as (i & Hi & Hv). exists i. split; [lia|assumption].
        + intros i Hi G1 G2. destruct (Z.eq_dec i j) as [->|Hne]; [lia|]. apply Cnh; [lia|assumption|assumption].
      - split.
        + intros i Hi. rewrite Hf1 by assumption. destruct (i =? j) eqn:Ei; bz; now subst.
        + assumption.
        + repeat split; try lia. exists (a + 1), b. lia.
        + intros Hlt. destruct (Ce Hlt) as (i & Hi & Hv & Hc). exists i. repeat split; try lia; assumption.
        + intros _. exists j. repeat split; try lia; assumption.
        + intros i Hi G1 G2. destruct (Z.eq_dec i j) as [->|Hne]; [lia|]. apply Cnh; [lia|assumption|assumption].
      - split.
        + intros i Hi. rewrite Hf1 by assumption. destruct (i =? j) eqn:Ei; bz; now subst.
        + assumption.
        + repeat split; try lia. exists a, b. lia.
        + intros Hlt. destruct (Ce Hlt) as (i & Hi & Hv & Hc). exists i. repeat split; try lia; assumption.
        + intros Hlt. destruct (Cs Hlt) as (i & Hi & Hv). exists i. split; [lia|assumption].
        + intros i Hi G1 G2. destruct (Z.eq_dec i j) as [->|Hne]; [assumption|]. apply Cnh; [lia|assumption|assumption].
    Qed.

    (* outcome of the whole loop *)
    Lemma hiter_shape n : forall j f s e, 0 <= j -> Cur j f s e ->
      match hiter (hbody chk g d) n (lo + 2 * j) f s e with
      | HCont f' s' e' => Cur (j + Z.of_nat n) f' s' e'
      | HHit x y kk xo => exists i, j <= i < j + Z.of_nat n /\ x = nv i /\ y = x - (lo + 2 * i) /\
                            kk = delta - (lo + 2 * i) /\ xo = g kk /\ x <= n1 /\ y <= n2 /\
                            hitcond chk g (lo + 2 * i) x
      end.
    Proof.
      induction n as [|n IH]; intros j f s e Hj C.
      - cbn [hiter]. now replace (j + Z.of_nat 0) with j by lia.
      - cbn [hiter].
        destruct (hbody chk g d (lo + 2 * j) f s e) as [f' s' e'|x y kk xo] eqn:Eb.
        + pose proof (Cur_step j f s e f' s' e' Hj C Eb) as C'.
          replace (lo + 2 * j + 2) with (lo + 2 * (j + 1)) by lia.
          specialize (IH (j + 1) f' s' e' ltac:(lia) C').
          destruct (hiter (hbody chk g d) n (lo + 2 * (j + 1)) f' s' e') as [f'' s'' e''|x y kk xo].
          * now replace (j + Z.of_nat (S n)) with (j + 1 + Z.of_nat n) by lia.
          * destruct IH as (i & Hi & IH). exists i. split; [lia|exact IH].
        + pose proof (Cur_newval j f s e Hj C) as Hn.
          destruct (hbody_cases chk g d (lo + 2 * j) f s e) as [(E & _)|[(E & _)|[(E & _)|(E & H1 & H2 & H3)]]];
            rewrite Hn in *; rewrite E in Eb; try discriminate.
          injection Eb as Qx Qy Qk Qo. subst x y kk xo.
          destruct H3 as (A1 & A2 & A3 & A4).
          exists j. repeat split; try lia; try assumption.
    Qed.
  End Phase.
End Own.
