(* Proofs about the PlaceholderMaker model, part 1: decidable equality, the
   table invariants and their preservation by every operation (C11_tables,
   C11_same_key_same_ph, C11_distinct, C11_same_in_two_docs). *)
From Coq Require Import List NArith Bool Lia.
Import ListNotations.
Require Import XV.Placeholder.
Local Open Scope N_scope.

(* ------------------------------------------------------------ equality *)
Lemma str_eqb_eq : forall a b, str_eqb a b = true <-> a = b.
Proof.
  induction a as [|x a IH]; destruct b as [|y b]; cbn [str_eqb]; split; intro H; try congruence; try discriminate.
  - apply andb_true_iff in H. destruct H as [H1 H2]. apply N.eqb_eq in H1. apply IH in H2. congruence.
  - inversion H; subst. apply andb_true_iff. split; [apply N.eqb_refl | apply IH; reflexivity].
Qed.
Lemma str_eqb_refl : forall a, str_eqb a a = true.
Proof. intro a. apply str_eqb_eq. reflexivity. Qed.

Lemma attrs_eqb_eq : forall a b, attrs_eqb a b = true <-> a = b.
Proof.
  induction a as [|[k v] a IH]; destruct b as [|[k' v'] b]; cbn [attrs_eqb]; split; intro H; try congruence; try discriminate.
  - apply andb_true_iff in H. destruct H as [H H3]. apply andb_true_iff in H. destruct H as [H1 H2].
    apply str_eqb_eq in H1. apply str_eqb_eq in H2. apply IH in H3. congruence.
  - inversion H; subst. rewrite !str_eqb_refl. cbn. apply IH. reflexivity.
Qed.

Lemma ostr_eqb_eq : forall a b, ostr_eqb a b = true <-> a = b.
Proof.
  destruct a, b; cbn; split; intro H; try congruence; try discriminate.
  - apply str_eqb_eq in H. congruence.
  - inversion H. apply str_eqb_refl.
Qed.

Lemma xtree_eqb_eq : forall a b, xtree_eqb a b = true <-> a = b.
Proof.
  induction a as [t1 a1 x1 l1 k1 IH] using xtree_ind2. destruct b as [t2 a2 x2 l2 k2].
  cbn [xtree_eqb].
  assert (HK : forall k2,
    (fix go (k1 k2 : list xtree) {struct k1} : bool :=
       match k1, k2 with
       | [], [] => true
       | c1 :: r1, c2 :: r2 => xtree_eqb c1 c2 && go r1 r2
       | _, _ => false
       end) k1 k2 = true <-> k1 = k2).
  { clear -IH. induction IH as [|c1 r1 Hc Hr IHr]; destruct k2 as [|c2 r2]; split; intro H; try congruence; try discriminate.
    - apply andb_true_iff in H. destruct H as [H1 H2]. apply Hc in H1. apply IHr in H2. congruence.
    - inversion H; subst. apply andb_true_iff. split; [apply Hc; reflexivity | apply IHr; reflexivity]. }
  split; intro H.
  - repeat (apply andb_true_iff in H; destruct H as [H ?]).
    apply str_eqb_eq in H. apply attrs_eqb_eq in H3. apply ostr_eqb_eq in H2. apply str_eqb_eq in H1. apply HK in H0.
    congruence.
  - inversion H; subst. rewrite !str_eqb_refl. rewrite (proj2 (attrs_eqb_eq _ _) eq_refl).
    rewrite (proj2 (ostr_eqb_eq _ _) eq_refl). cbn. apply HK. reflexivity.
Qed.

Lemma ttype_eqb_eq : forall a b, ttype_eqb a b = true <-> a = b.
Proof. destruct a, b; cbn; split; intro; congruence. Qed.
Lemma on_eqb_eq : forall a b, on_eqb a b = true <-> a = b.
Proof.
  destruct a, b; cbn; split; intro H; try congruence; try discriminate.
  - apply N.eqb_eq in H. congruence.
  - inversion H. apply N.eqb_refl.
Qed.
Lemma key_eqb_eq : forall a b, key_eqb a b = true <-> a = b.
Proof.
  intros [[e1 t1] c1] [[e2 t2] c2]. cbn [key_eqb]. split; intro H.
  - apply andb_true_iff in H. destruct H as [H H3]. apply andb_true_iff in H. destruct H as [H1 H2].
    apply xtree_eqb_eq in H1. apply ttype_eqb_eq in H2. apply on_eqb_eq in H3. congruence.
  - inversion H; subst. rewrite (proj2 (xtree_eqb_eq _ _) eq_refl), (proj2 (ttype_eqb_eq _ _) eq_refl),
      (proj2 (on_eqb_eq _ _) eq_refl). reflexivity.
Qed.
Lemma key_eqb_refl : forall a, key_eqb a a = true.
Proof. intro. apply key_eqb_eq. reflexivity. Qed.
Lemma key_eqb_neq : forall a b, a <> b -> key_eqb a b = false.
Proof. intros a b H. destruct (key_eqb a b) eqn:E; [apply key_eqb_eq in E; congruence | reflexivity]. Qed.
Lemma key_eq_dec : forall a b : key, {a = b} + {a <> b}.
Proof.
  intros a b. destruct (key_eqb a b) eqn:E; [left; apply key_eqb_eq; exact E | right; intro H; apply key_eqb_eq in H; congruence].
Qed.

(* -------------------------------------------------------- the invariants *)
Definition key_norm (k : key) : key := let '(el, ty, cl) := k in (knorm el, ty, cl).

(* the two dictionaries are inverse to each other: a key is bound to [c] iff
   placeholder [c] carries an entry with the role and close placeholder of the key *)
Definition inverse_tables (s : state) : Prop :=
  (forall el ty cl c, t2p_get (t2p s) (el, ty, cl) = Some c ->
      exists e, p2t_get (p2t s) c = Some (e, ty, cl)) /\
  (forall c e ty cl, p2t_get (p2t s) c = Some (e, ty, cl) ->
      exists el, t2p_get (t2p s) (el, ty, cl) = Some c).

(* two different (element, role, close) keys never share a placeholder *)
Definition injective_on_keys (s : state) : Prop :=
  forall k1 k2 c, t2p_get (t2p s) k1 = Some c -> t2p_get (t2p s) k2 = Some c -> k1 = k2.

(* the counter is the last placeholder handed out; all placeholders lie in
   (PLACEHOLDER_START, counter]; there are exactly counter - start of them *)
Definition counter_ok (s : state) : Prop :=
  (forall c e, p2t_get (p2t s) c = Some e -> PLACEHOLDER_START < c <= ctr s) /\
  (forall k c, t2p_get (t2p s) k = Some c -> PLACEHOLDER_START < c <= ctr s) /\
  ctr s = PLACEHOLDER_START + N.of_nat (length (p2t s)) /\
  length (t2p s) = length (p2t s).

Definition ph_inv (s : state) : Prop := inverse_tables s /\ injective_on_keys s /\ counter_ok s.

(* [s'] extends [s]: no key is removed or re-bound, every entry keeps its role
   and close placeholder (the element object may have been mutated), the
   counter only grows, entries up to [ctr s] are those of [s] *)
Definition ext (s s' : state) : Prop :=
  (forall k c, t2p_get (t2p s) k = Some c -> t2p_get (t2p s') k = Some c) /\
  (forall c e ty cl, p2t_get (p2t s) c = Some (e, ty, cl) -> exists e', p2t_get (p2t s') c = Some (e', ty, cl)) /\
  ctr s <= ctr s'.

Lemma ext_refl : forall s, ext s s.
Proof. intro s. split; [|split]; eauto. lia. Qed.
Lemma ext_trans : forall a b c, ext a b -> ext b c -> ext a c.
Proof.
  intros a b c (A1 & A2 & A3) (B1 & B2 & B3). split; [|split].
  - eauto.
  - intros x e ty cl H. destruct (A2 _ _ _ _ H) as [e' H']. eauto.
  - lia.
Qed.

(* ------------------------------------------------------------ lookups *)
Lemma p2t_get_set_elem_same : forall m ph e el ty cl,
  p2t_get m ph = Some (el, ty, cl) -> p2t_get (set_elem_l m ph e) ph = Some (e, ty, cl).
Proof.
  induction m as [|[c [[el0 ty0] cl0]] r IH]; intros ph e el ty cl H; cbn in *; [discriminate|].
  destruct (N.eqb ph c) eqn:E; cbn; rewrite E.
  - inversion H; subst. reflexivity.
  - eauto.
Qed.
Lemma p2t_get_set_elem_none : forall m ph e, p2t_get m ph = None -> set_elem_l m ph e = m.
Proof.
  induction m as [|[c [[el0 ty0] cl0]] r IH]; intros ph e H; cbn in *; [reflexivity|].
  destruct (N.eqb ph c) eqn:E; [discriminate|]. rewrite IH; auto.
Qed.
Lemma p2t_get_set_elem_other : forall m ph e c, c <> ph -> p2t_get (set_elem_l m ph e) c = p2t_get m c.
Proof.
  induction m as [|[c0 [[el0 ty0] cl0]] r IH]; intros ph e c H; cbn; [reflexivity|].
  destruct (N.eqb ph c0) eqn:E; cbn.
  - apply N.eqb_eq in E. subst c0. destruct (N.eqb c ph) eqn:E2; [apply N.eqb_eq in E2; congruence | reflexivity].
  - destruct (N.eqb c c0); [reflexivity | apply IH; assumption].
Qed.
Lemma set_elem_l_length : forall m ph e, length (set_elem_l m ph e) = length m.
Proof.
  induction m as [|[c0 [[el0 ty0] cl0]] r IH]; intros; cbn; [reflexivity|].
  destruct (N.eqb ph c0); cbn; [reflexivity | rewrite IH; reflexivity].
Qed.
Lemma p2t_get_set_elem_shape : forall m ph e c el ty cl,
  p2t_get m c = Some (el, ty, cl) -> exists el', p2t_get (set_elem_l m ph e) c = Some (el', ty, cl).
Proof.
  intros m ph e c el ty cl H. destruct (N.eq_dec c ph) as [->|N].
  - eexists. eapply p2t_get_set_elem_same; eauto.
  - rewrite p2t_get_set_elem_other by assumption. eauto.
Qed.
Lemma p2t_get_set_elem_inv : forall m ph e c el ty cl,
  p2t_get (set_elem_l m ph e) c = Some (el, ty, cl) -> exists el', p2t_get m c = Some (el', ty, cl).
Proof.
  intros m ph e c el ty cl H. destruct (N.eq_dec c ph) as [->|N].
  - destruct (p2t_get m ph) as [[[el0 ty0] cl0]|] eqn:G.
    + erewrite p2t_get_set_elem_same in H by eauto. inversion H; subst. eauto.
    + rewrite p2t_get_set_elem_none in H by assumption. congruence.
  - rewrite p2t_get_set_elem_other in H by assumption. eauto.
Qed.

(* ---------------------------------------------------- set_elem keeps all *)
Lemma set_elem_inv : forall s ph e, ph_inv s -> ph_inv (set_elem s ph e).
Proof.
  intros s ph e ((I1 & I2) & J & (C1 & C2 & C3 & C4)). unfold set_elem. split; [split|split]; cbn [p2t t2p ctr].
  - intros el ty cl c H. destruct (I1 _ _ _ _ H) as [e0 H0]. eapply p2t_get_set_elem_shape; eauto.
  - intros c e0 ty cl H. apply p2t_get_set_elem_inv in H. destruct H as [el' H]. eauto.
  - exact J.
  - split; [|split; [|split]]; cbn [p2t t2p ctr].
    + intros c [[e0 ty] cl] H. apply p2t_get_set_elem_inv in H. destruct H as [el' H]. eauto.
    + exact C2.
    + rewrite set_elem_l_length. exact C3.
    + rewrite set_elem_l_length. exact C4.
Qed.
Lemma set_elem_ext : forall s ph e, ext s (set_elem s ph e).
Proof.
  intros s ph e. split; [|split]; cbn [set_elem p2t t2p ctr]; auto.
  - intros c e0 ty cl H. eapply p2t_get_set_elem_shape; eauto.
  - lia.
Qed.

(* ------------------------------------------------------------------ gp *)
Lemma gp_hit : forall s el store ty cl c,
  t2p_get (t2p s) (knorm el, ty, cl) = Some c -> gp s el store ty cl = (s, c, false).
Proof. intros. unfold gp. rewrite H. reflexivity. Qed.

Lemma gp_miss : forall s el store ty cl,
  t2p_get (t2p s) (knorm el, ty, cl) = None ->
  gp s el store ty cl =
  (mkst ((ctr s + 1, (store, ty, cl)) :: p2t s) (((knorm el, ty, cl), ctr s + 1) :: t2p s) (ctr s + 1), ctr s + 1, true).
Proof. intros. unfold gp. rewrite H. reflexivity. Qed.

Lemma gp_inv : forall s el store ty cl s' c m,
  gp s el store ty cl = (s', c, m) -> ph_inv s -> ph_inv s'.
Proof.
  intros s el store ty cl s' c m G INV.
  destruct (t2p_get (t2p s) (knorm el, ty, cl)) as [c0|] eqn:L.
  - rewrite (gp_hit _ _ _ _ _ _ L) in G. inversion G; subst. exact INV.
  - rewrite (gp_miss _ _ _ _ _ L) in G. inversion G; subst. clear G.
    destruct INV as ((I1 & I2) & J & (C1 & C2 & C3 & C4)).
    split; [split|split]; cbn [p2t t2p ctr].
    + intros el0 ty0 cl0 c H. cbn [t2p_get p2t_get] in *.
      destruct (key_eqb (el0, ty0, cl0) (knorm el, ty, cl)) eqn:E.
      * inversion H; subst. apply key_eqb_eq in E. inversion E; subst. rewrite N.eqb_refl. eauto.
      * destruct (C2 _ _ H) as [Ha Hb]. destruct (N.eqb c (ctr s + 1)) eqn:E2; [apply N.eqb_eq in E2; lia|].
        eauto.
    + intros c e ty0 cl0 H. cbn [t2p_get p2t_get] in *. destruct (N.eqb c (ctr s + 1)) eqn:E2.
      * apply N.eqb_eq in E2. inversion H; subst. exists (knorm el). rewrite key_eqb_refl. reflexivity.
      * destruct (I2 _ _ _ _ H) as [el0 H0]. exists el0.
        destruct (key_eqb (el0, ty0, cl0) (knorm el, ty, cl)) eqn:E; [|exact H0].
        apply key_eqb_eq in E. rewrite E in H0. congruence.
    + intros k1 k2 c H1 H2. cbn [t2p_get] in H1, H2.
      destruct (key_eqb k1 (knorm el, ty, cl)) eqn:E1; destruct (key_eqb k2 (knorm el, ty, cl)) eqn:E2.
      * apply key_eqb_eq in E1, E2. congruence.
      * inversion H1; subst. destruct (C2 _ _ H2). lia.
      * inversion H2; subst. destruct (C2 _ _ H1). lia.
      * eauto.
    + split; [|split; [|split]]; cbn [p2t t2p ctr length].
      * intros c e H. cbn [p2t_get] in H. destruct (N.eqb c (ctr s + 1)) eqn:E2.
        -- apply N.eqb_eq in E2. subst c.
           assert (PLACEHOLDER_START <= ctr s) by lia. lia.
        -- destruct (C1 _ _ H). lia.
      * intros k c H. cbn [t2p_get] in H. destruct (key_eqb k (knorm el, ty, cl)).
        -- inversion H; subst. assert (PLACEHOLDER_START <= ctr s) by lia. lia.
        -- destruct (C2 _ _ H). lia.
      * lia.
      * lia.
Qed.

Lemma gp_ext : forall s el store ty cl s' c m,
  gp s el store ty cl = (s', c, m) -> ph_inv s -> ext s s'.
Proof.
  intros s el store ty cl s' c m G INV.
  destruct (t2p_get (t2p s) (knorm el, ty, cl)) as [c0|] eqn:L.
  - rewrite (gp_hit _ _ _ _ _ _ L) in G. inversion G; subst. apply ext_refl.
  - rewrite (gp_miss _ _ _ _ _ L) in G. inversion G; subst. clear G.
    destruct INV as ((I1 & I2) & J & (C1 & C2 & C3 & C4)).
    split; [|split]; cbn [p2t t2p ctr].
    + intros k c H. cbn [t2p_get]. destruct (key_eqb k (knorm el, ty, cl)) eqn:E; [|exact H].
      apply key_eqb_eq in E. subst k. congruence.
    + intros c e ty0 cl0 H. cbn [p2t_get]. destruct (N.eqb c (ctr s + 1)) eqn:E2; [|eauto].
      apply N.eqb_eq in E2. destruct (C1 _ _ H). lia.
    + lia.
Qed.

(* the placeholder returned is the one bound to the key afterwards *)
Lemma gp_bound : forall s el store ty cl s' c m,
  gp s el store ty cl = (s', c, m) -> t2p_get (t2p s') (knorm el, ty, cl) = Some c.
Proof.
  intros s el store ty cl s' c m G.
  destruct (t2p_get (t2p s) (knorm el, ty, cl)) as [c0|] eqn:L.
  - rewrite (gp_hit _ _ _ _ _ _ L) in G. inversion G; subst. exact L.
  - rewrite (gp_miss _ _ _ _ _ L) in G. inversion G; subst. cbn. rewrite key_eqb_refl. reflexivity.
Qed.

Lemma gp_ctr : forall s el store ty cl s' c m,
  gp s el store ty cl = (s', c, m) -> ctr s' <= ctr s + 1.
Proof.
  intros s el store ty cl s' c m G.
  destruct (t2p_get (t2p s) (knorm el, ty, cl)) as [c0|] eqn:L.
  - rewrite (gp_hit _ _ _ _ _ _ L) in G. inversion G; subst. lia.
  - rewrite (gp_miss _ _ _ _ _ L) in G. inversion G; subst. cbn. lia.
Qed.
