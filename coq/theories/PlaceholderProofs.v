(* Proofs about the PlaceholderMaker model, part 1: decidable equality, the
   table invariants and their preservation by every operation (C11_tables,
   C11_same_key_same_ph, C11_distinct, C11_same_in_two_docs). *)
From Coq Require Import List NArith Bool Lia.
Import ListNotations.
Require Import XV.Placeholder.
Local Open Scope N_scope.

(* ------------------------------------------------------------ equality *)
Lemma str_eqb_eq : forall a b, str_eqb a b = true <-> a = b.
Proof.
  induction a as [|x a IH]; destruct b as [|y b]; cbn [str_eqb]; split; intro H; try congruence; try discriminate.
  - apply andb_true_iff in H. destruct H as [H1 H2]. apply N.eqb_eq in H1. apply IH in H2. congruence.
  - inversion H; subst. apply andb_true_iff. split; [apply N.eqb_refl | apply IH; reflexivity].
Qed.
Lemma str_eqb_refl : forall a, str_eqb a a = true.
Proof. intro a. apply str_eqb_eq. reflexivity. Qed.

Lemma attrs_eqb_eq : forall a b, attrs_eqb a b = true <-> a = b.
Proof.
  induction a as [|[k v] a IH]; destruct b as [|[k' v'] b]; cbn [attrs_eqb]; split; intro H; try congruence; try discriminate.
  - apply andb_true_iff in H. destruct H as [H H3]. apply andb_true_iff in H. destruct H as [H1 H2].
    apply str_eqb_eq in H1. apply str_eqb_eq in H2. apply IH in H3. congruence.
  - inversion H; subst. rewrite !str_eqb_refl. cbn. apply IH. reflexivity.
Qed.

Lemma ostr_eqb_eq : forall a b, ostr_eqb a b = true <-> a = b.
Proof.
  destruct a, b; cbn; split; intro H; try congruence; try discriminate.
  - apply str_eqb_eq in H. congruence.
  - inversion H. apply str_eqb_refl.
Qed.

Lemma xtree_eqb_eq : forall a b, xtree_eqb a b = true <-> a = b.
Proof.
  induction a as [t1 a1 x1 l1 k1 IH] using xtree_ind2. destruct b as [t2 a2 x2 l2 k2].
  cbn [xtree_eqb].
  assert (HK : forall k2,
    (fix go (k1 k2 : list xtree) {struct k1} : bool :=
       match k1, k2 with
       | [], [] => true
       | c1 :: r1, c2 :: r2 => xtree_eqb c1 c2 && go r1 r2
       | _, _ => false
       end) k1 k2 = true <-> k1 = k2).
  { clear -IH. induction IH as [|c1 r1 Hc Hr IHr]; destruct k2 as [|c2 r2]; split; intro H; try congruence; try discriminate.
    - apply andb_true_iff in H. destruct H as [H1 H2]. apply Hc in H1. apply IHr in H2. congruence.
    - inversion H; subst. apply andb_true_iff. split; [apply Hc; reflexivity | apply IHr; reflexivity]. }
  split; intro H.
  - repeat (apply andb_true_iff in H; destruct H as [H ?]).
    apply str_eqb_eq in H. apply attrs_eqb_eq in H3. apply ostr_eqb_eq in H2. apply str_eqb_eq in H1. apply HK in H0.
    congruence.
  - inversion H; subst. rewrite !str_eqb_refl. rewrite (proj2 (attrs_eqb_eq _ _) eq_refl).
    rewrite (proj2 (ostr_eqb_eq _ _) eq_refl). cbn. apply HK. reflexivity.
Qed.

Lemma ttype_eqb_eq : forall a b, ttype_eqb a b = true <-> a = b.
Proof. destruct a, b; cbn; split; intro; congruence. Qed.
Lemma on_eqb_eq : forall a b, on_eqb a b = true <-> a = b.
Proof.
  destruct a, b; cbn; split; intro H; try congruence; try discriminate.
  - apply N.eqb_eq in H. congruence.
  - inversion H. apply N.eqb_refl.
Qed.
Lemma key_eqb_eq : forall a b, key_eqb a b = true <-> a = b.
Proof.
  intros [[e1 t1] c1] [[e2 t2] c2]. cbn [key_eqb]. split; intro H.
  - apply andb_true_iff in H. destruct H as [H H3]. apply andb_true_iff in H. destruct H as [H1 H2].
    apply xtree_eqb_eq in H1. apply ttype_eqb_eq in H2. apply on_eqb_eq in H3. congruence.
  - inversion H; subst. rewrite (proj2 (xtree_eqb_eq _ _) eq_refl), (proj2 (ttype_eqb_eq _ _) eq_refl),
      (proj2 (on_eqb_eq _ _) eq_refl). reflexivity.
Qed.
Lemma key_eqb_refl : forall a, key_eqb a a = true.
Proof. intro. apply key_eqb_eq. reflexivity. Qed.
Lemma key_eqb_neq : forall a b, a <> b -> key_eqb a b = false.
Proof. intros a b H. destruct (key_eqb a b) eqn:E; [apply key_eqb_eq in E; congruence | reflexivity]. Qed.
Lemma key_eq_dec : forall a b : key, {a = b} + {a <> b}.
Proof.
  intros a b. destruct (key_eqb a b) eqn:E; [left; apply key_eqb_eq; exact E | right; intro H; apply key_eqb_eq in H; congruence].
Qed.

(* -------------------------------------------------------- the invariants *)
Definition key_norm (k : key) : key := let '(el, ty, cl) := k in (knorm el, ty, cl).

(* the two dictionaries are inverse to each other: a key is bound to [c] iff
   placeholder [c] carries an entry with the role and close placeholder of the key *)
Definition inverse_tables (s : state) : Prop :=
  (forall el ty cl c, t2p_get (t2p s) (el, ty, cl) = Some c ->
      exists e, p2t_get (p2t s) c = Some (e, ty, cl)) /\
  (forall c e ty cl, p2t_get (p2t s) c = Some (e, ty, cl) ->
      exists el, t2p_get (t2p s) (el, ty, cl) = Some c).

(* two different (element, role, close) keys never share a placeholder *)
Definition injective_on_keys (s : state) : Prop :=
  forall k1 k2 c, t2p_get (t2p s) k1 = Some c -> t2p_get (t2p s) k2 = Some c -> k1 = k2.

(* the counter is the last placeholder handed out; all placeholders lie in
   (PLACEHOLDER_START, counter]; there are exactly counter - start of them *)
Definition counter_ok (s : state) : Prop :=
  (forall c e, p2t_get (p2t s) c = Some e -> PLACEHOLDER_START < c <= ctr s) /\
  (forall k c, t2p_get (t2p s) k = Some c -> PLACEHOLDER_START < c <= ctr s) /\
  ctr s = PLACEHOLDER_START + N.of_nat (length (p2t s)) /\
  length (t2p s) = length (p2t s).

Definition ph_inv (s : state) : Prop := inverse_tables s /\ injective_on_keys s /\ counter_ok s.

(* [s'] extends [s]: no key is removed or re-bound, every entry keeps its role
   and close placeholder (the element object may have been mutated), the
   counter only grows, entries up to [ctr s] are those of [s] *)
Definition ext (s s' : state) : Prop :=
  (forall k c, t2p_get (t2p s) k = Some c -> t2p_get (t2p s') k = Some c) /\
  (forall c e ty cl, p2t_get (p2t s) c = Some (e, ty, cl) -> exists e', p2t_get (p2t s') c = Some (e', ty, cl)) /\
  ctr s <= ctr s'.

Lemma ext_refl : forall s, ext s s.
Proof. intro s. split; [|split]; eauto. lia. Qed.
Lemma ext_trans : forall a b c, ext a b -> ext b c -> ext a c.
Proof.
  intros a b c (A1 & A2 & A3) (B1 & B2 & B3). split; [|split].
  - eauto.
  - intros x e ty cl H. destruct (A2 _ _ _ _ H) as [e' H']. eauto.
  - lia.
Qed.

(* ------------------------------------------------------------ lookups *)
Lemma p2t_get_set_elem_same : forall m ph e el ty cl,
  p2t_get m ph = Some (el, ty, cl) -> p2t_get (set_elem_l m ph e) ph = Some (e, ty, cl).
Proof.
  induction m as [|[c [[el0 ty0] cl0]] r IH]; intros ph e el ty cl H; cbn in *; [discriminate|].
  destruct (N.eqb ph c) eqn:E; cbn; rewrite E.
  - inversion H; subst. reflexivity.
  - eauto.
Qed.
Lemma p2t_get_set_elem_none : forall m ph e, p2t_get m ph = None -> set_elem_l m ph e = m.
Proof.
  induction m as [|[c [[el0 ty0] cl0]] r IH]; intros ph e H; cbn in *; [reflexivity|].
  destruct (N.eqb ph c) eqn:E; [discriminate|]. rewrite IH; auto.
Qed.
Lemma p2t_get_set_elem_other : forall m ph e c, c <> ph -> p2t_get (set_elem_l m ph e) c = p2t_get m c.
Proof.
  induction m as [|[c0 [[el0 ty0] cl0]] r IH]; intros ph e c H; cbn; [reflexivity|].
  destruct (N.eqb ph c0) eqn:E; cbn.
  - apply N.eqb_eq in E. subst c0. destruct (N.eqb c ph) eqn:E2; [apply N.eqb_eq in E2; congruence | reflexivity].
  - destruct (N.eqb c c0); [reflexivity | apply IH; assumption].
Qed.
Lemma set_elem_l_length : forall m ph e, length (set_elem_l m ph e) = length m.
Proof.
  induction m as [|[c0 [[el0 ty0] cl0]] r IH]; intros; cbn; [reflexivity|].
  destruct (N.eqb ph c0); cbn; [reflexivity | rewrite IH; reflexivity].
Qed.
Lemma p2t_get_set_elem_shape : forall m ph e c el ty cl,
  p2t_get m c = Some (el, ty, cl) -> exists el', p2t_get (set_elem_l m ph e) c = Some (el', ty, cl).
Proof.
  intros m ph e c el ty cl H. destruct (N.eq_dec c ph) as [->|N].
  - eexists. eapply p2t_get_set_elem_same; eauto.
  - rewrite p2t_get_set_elem_other by assumption. eauto.
Qed.
Lemma p2t_get_set_elem_inv : forall m ph e c el ty cl,
  p2t_get (set_elem_l m ph e) c = Some (el, ty, cl) -> exists el', p2t_get m c = Some (el', ty, cl).
Proof.
  intros m ph e c el ty cl H. destruct (N.eq_dec c ph) as [->|N].
  - destruct (p2t_get m ph) as [[[el0 ty0] cl0]|] eqn:G.
    + erewrite p2t_get_set_elem_same in H by eauto. inversion H; subst. eauto.
    + rewrite p2t_get_set_elem_none in H by assumption. congruence.
  - rewrite p2t_get_set_elem_other in H by assumption. eauto.
Qed.

(* ---------------------------------------------------- set_elem keeps all *)
Lemma set_elem_inv : forall s ph e, ph_inv s -> ph_inv (set_elem s ph e).
Proof.
  intros s ph e ((I1 & I2) & J & (C1 & C2 & C3 & C4)). unfold set_elem. split; [split|split]; cbn [p2t t2p ctr].
  - intros el ty cl c H. destruct (I1 _ _ _ _ H) as [e0 H0]. eapply p2t_get_set_elem_shape; eauto.
  - intros c e0 ty cl H. apply p2t_get_set_elem_inv in H. destruct H as [el' H]. eauto.
  - exact J.
  - split; [|split; [|split]]; cbn [p2t t2p ctr].
    + intros c [[e0 ty] cl] H. apply p2t_get_set_elem_inv in H. destruct H as [el' H]. eauto.
    + exact C2.
    + rewrite set_elem_l_length. exact C3.
    + rewrite set_elem_l_length. exact C4.
Qed.
Lemma set_elem_ext : forall s ph e, ext s (set_elem s ph e).
Proof.
  intros s ph e. split; [|split]; cbn [set_elem p2t t2p ctr]; auto.
  - intros c e0 ty cl H. eapply p2t_get_set_elem_shape; eauto.
  - lia.
Qed.

(* ------------------------------------------------------------------ gp *)
Lemma gp_hit : forall s el store ty cl c,
  t2p_get (t2p s) (knorm el, ty, cl) = Some c -> gp s el store ty cl = (s, c, false).
Proof. intros. unfold gp. rewrite H. reflexivity. Qed.

Lemma gp_miss : forall s el store ty cl,
  t2p_get (t2p s) (knorm el, ty, cl) = None ->
  gp s el store ty cl =
  (mkst ((ctr s + 1, (store, ty, cl)) :: p2t s) (((knorm el, ty, cl), ctr s + 1) :: t2p s) (ctr s + 1), ctr s + 1, true).
Proof. intros. unfold gp. rewrite H. reflexivity. Qed.

Lemma gp_inv : forall s el store ty cl s' c m,
  gp s el store ty cl = (s', c, m) -> ph_inv s -> ph_inv s'.
Proof.
  intros s el store ty cl s' c m G INV.
  destruct (t2p_get (t2p s) (knorm el, ty, cl)) as [c0|] eqn:L.
  - rewrite (gp_hit _ _ _ _ _ _ L) in G. inversion G; subst. exact INV.
  - rewrite (gp_miss _ _ _ _ _ L) in G. inversion G; subst. clear G.
    destruct INV as ((I1 & I2) & J & (C1 & C2 & C3 & C4)).
    split; [split|split]; cbn [p2t t2p ctr].
    + intros el0 ty0 cl0 c H. cbn [p2t t2p ctr t2p_get p2t_get] in *.
      destruct (key_eqb (el0, ty0, cl0) (knorm el, ty, cl)) eqn:E.
      * inversion H; subst. apply key_eqb_eq in E. inversion E; subst. rewrite N.eqb_refl. eauto.
      * destruct (C2 _ _ H) as [Ha Hb]. destruct (N.eqb c (ctr s + 1)) eqn:E2; [apply N.eqb_eq in E2; lia|].
        eauto.
    + intros c e ty0 cl0 H. cbn [p2t t2p ctr t2p_get p2t_get] in *. destruct (N.eqb c (ctr s + 1)) eqn:E2.
      * apply N.eqb_eq in E2. inversion H; subst. exists (knorm el). rewrite key_eqb_refl. reflexivity.
      * destruct (I2 _ _ _ _ H) as [el0 H0]. exists el0.
        destruct (key_eqb (el0, ty0, cl0) (knorm el, ty, cl)) eqn:E; [|exact H0].
        apply key_eqb_eq in E. rewrite E in H0. congruence.
    + intros k1 k2 c H1 H2. cbn [p2t t2p ctr t2p_get] in H1, H2.
      destruct (key_eqb k1 (knorm el, ty, cl)) eqn:E1; destruct (key_eqb k2 (knorm el, ty, cl)) eqn:E2.
      * apply key_eqb_eq in E1, E2. congruence.
      * inversion H1; subst. destruct (C2 _ _ H2). lia.
      * inversion H2; subst. destruct (C2 _ _ H1). lia.
      * eauto.
    + split; [|split; [|split]]; cbn [p2t t2p ctr length].
      * intros c e H. cbn [p2t t2p ctr p2t_get] in H. destruct (N.eqb c (ctr s + 1)) eqn:E2.
        -- apply N.eqb_eq in E2. subst c.
           assert (PLACEHOLDER_START <= ctr s) by lia. lia.
        -- destruct (C1 _ _ H). lia.
      * intros k c H. cbn [p2t t2p ctr t2p_get] in H. destruct (key_eqb k (knorm el, ty, cl)).
        -- inversion H; subst. assert (PLACEHOLDER_START <= ctr s) by lia. lia.
        -- destruct (C2 _ _ H). lia.
      * lia.
      * lia.
Qed.

Lemma gp_ext : forall s el store ty cl s' c m,
  gp s el store ty cl = (s', c, m) -> ph_inv s -> ext s s'.
Proof.
  intros s el store ty cl s' c m G INV.
  destruct (t2p_get (t2p s) (knorm el, ty, cl)) as [c0|] eqn:L.
  - rewrite (gp_hit _ _ _ _ _ _ L) in G. inversion G; subst. apply ext_refl.
  - rewrite (gp_miss _ _ _ _ _ L) in G. inversion G; subst. clear G.
    destruct INV as ((I1 & I2) & J & (C1 & C2 & C3 & C4)).
    split; [|split]; cbn [p2t t2p ctr].
    + intros k c H. cbn [t2p_get]. destruct (key_eqb k (knorm el, ty, cl)) eqn:E; [|exact H].
      apply key_eqb_eq in E. subst k. congruence.
    + intros c e ty0 cl0 H. cbn [p2t_get]. destruct (N.eqb c (ctr s + 1)) eqn:E2; [|eauto].
      apply N.eqb_eq in E2. destruct (C1 _ _ H). lia.
    + lia.
Qed.

(* the placeholder returned is the one bound to the key afterwards *)
Lemma gp_bound : forall s el store ty cl s' c m,
  gp s el store ty cl = (s', c, m) -> t2p_get (t2p s') (knorm el, ty, cl) = Some c.
Proof.
  intros s el store ty cl s' c m G.
  destruct (t2p_get (t2p s) (knorm el, ty, cl)) as [c0|] eqn:L.
  - rewrite (gp_hit _ _ _ _ _ _ L) in G. inversion G; subst. exact L.
  - rewrite (gp_miss _ _ _ _ _ L) in G. inversion G; subst. cbn [t2p t2p_get]. rewrite key_eqb_refl. reflexivity.
Qed.

Lemma gp_ctr : forall s el store ty cl s' c m,
  gp s el store ty cl = (s', c, m) -> ctr s' <= ctr s + 1.
Proof.
  intros s el store ty cl s' c m G.
  destruct (t2p_get (t2p s) (knorm el, ty, cl)) as [c0|] eqn:L.
  - rewrite (gp_hit _ _ _ _ _ _ L) in G. inversion G; subst. lia.
  - rewrite (gp_miss _ _ _ _ _ L) in G. inversion G; subst. cbn. lia.
Qed.

(* ------------------------------------------------- unfolding the loops *)
Lemma flat_kid_go_eq : forall fmt ks s,
  (fix go (s : state) (ks : list xtree) {struct ks} : state * str * list bool :=
     match ks with
     | [] => (s, [], [])
     | k :: ks' =>
       let '(s', t1, m1) := flat_kid fmt s k in
       let '(s'', t2, m2) := go s' ks' in (s'', t1 ++ t2, m1 ++ m2)
     end) s ks = flat_kids fmt s ks.
Proof.
  induction ks as [|k ks IH]; intro s; [reflexivity|].
  cbn [flat_kids]. destruct (flat_kid fmt s k) as [[s' t1] m1]. rewrite IH. reflexivity.
Qed.

Lemma flat_kid_unfold : forall fmt s tag attrs text tail kids,
  flat_kid fmt s (XNode tag attrs text tail kids) =
  let c0 := XNode tag attrs text [] kids in
  if mem tag fmt then
    let '(s1, phc, _) := gp s c0 (strip c0) TClose None in
    let '(s2, pho, _) := gp s1 c0 (strip c0) TOpen (Some phc) in
    let '(s3, inner, mk) := flat_kids fmt s2 kids in
    (s3, pho :: otxt text ++ inner ++ phc :: tail, mk)
  else
    let '(s1, ph, miss) := gp s c0 c0 TSingle None in
    (s1, ph :: tail, [miss]).
Proof.
  intros. cbn [flat_kid]. cbv zeta. destruct (mem tag fmt); [|reflexivity].
  destruct (gp s _ _ TClose None) as [[s1 phc] m1].
  destruct (gp s1 _ _ TOpen (Some phc)) as [[s2 pho] m2].
  rewrite flat_kid_go_eq. reflexivity.
Qed.

Lemma dw_post_go_eq : forall tt fmt ks s mk,
  (fix go (s : state) (mk : list bool) (ks : list xtree) {struct ks} : state * list bool :=
     match ks with
     | [] => (s, mk)
     | k :: ks' => let '(s', mk', _) := dw tt fmt true s mk k in go s' mk' ks'
     end) s mk ks = dw_post_kids tt fmt s mk ks.
Proof.
  induction ks as [|k ks IH]; intros s mk; [reflexivity|].
  cbn [dw_post_kids]. destruct (dw tt fmt true s mk k) as [[s' mk'] k']. apply IH.
Qed.
Lemma dw_live_go_eq : forall tt fmt ks s,
  (fix go (s : state) (ks : list xtree) {struct ks} : state * list xtree :=
     match ks with
     | [] => (s, [])
     | k :: ks' =>
       let '(s', _, k') := dw tt fmt false s [] k in
       let '(s'', r) := go s' ks' in (s'', k' :: r)
     end) s ks = dw_live_kids tt fmt s ks.
Proof.
  induction ks as [|k ks IH]; intros s; [reflexivity|].
  cbn [dw_live_kids]. destruct (dw tt fmt false s [] k) as [[s' mk'] k']. rewrite IH. reflexivity.
Qed.

(* the body of [dw] for a live element (do_element on it if it is a text tag,
   otherwise on to its children) *)
Definition dw_live (tt fmt : list str) (s : state) (tag : str) (attrs : list (str * str)) (text : option str)
           (tail' : str) (kids : list xtree) : state * xtree :=
  if mem tag tt then
    match kids with
    | [] => (s, XNode tag attrs text tail' [])
    | _ :: _ =>
      let '(s1, txt1, mk) := flat_kids fmt s kids in
      let '(s2, _) := dw_post_kids tt fmt s1 mk kids in
      (s2, XNode tag attrs (Some (otxt text ++ txt1)) tail' [])
    end
  else
    let '(s1, kids') := dw_live_kids tt fmt s kids in
    (s1, XNode tag attrs text tail' kids').

Lemma dw_unfold : forall tt fmt post s marks tag attrs text tail kids,
  dw tt fmt post s marks (XNode tag attrs text tail kids) =
  if post then
    if mem tag fmt then
      let '(s', mk') := dw_post_kids tt fmt s marks kids in (s', mk', XNode tag attrs text tail kids)
    else
      let '(s1, t') := dw_live tt fmt s tag attrs text [] kids in
      match marks with
      | true :: rest => (store_final s1 (XNode tag attrs text [] kids) t', rest, t')
      | false :: rest => (s1, rest, t')
      | [] => (s1, [], t')
      end
  else let '(s1, t') := dw_live tt fmt s tag attrs text tail kids in (s1, marks, t').
Proof.
  intros. cbn [dw]. cbv zeta. unfold dw_live.
  rewrite !dw_post_go_eq. rewrite !dw_live_go_eq.
  destruct post; [destruct (mem tag fmt)|]; try reflexivity.
  - destruct (mem tag tt); [destruct kids|]; try reflexivity.
    + destruct (flat_kids fmt s (x :: kids)) as [[s1 txt1] mk]. cbn [dw_post_kids].
      destruct (dw tt fmt true s1 mk x) as [[s' mk'] k']. rewrite dw_post_go_eq. reflexivity.
  - destruct (mem tag tt); [destruct kids|]; try reflexivity.
    + destruct (flat_kids fmt s (x :: kids)) as [[s1 txt1] mk]. cbn [dw_post_kids].
      destruct (dw tt fmt true s1 mk x) as [[s' mk'] k']. rewrite dw_post_go_eq. reflexivity.
Qed.

(* ------------------------------------- every operation keeps the invariants *)
Definition step_ok (s s' : state) : Prop := ph_inv s -> ph_inv s' /\ ext s s'.

Lemma step_ok_refl : forall s, step_ok s s.
Proof. intros s H. split; [exact H | apply ext_refl]. Qed.
Lemma step_ok_trans : forall a b c, step_ok a b -> step_ok b c -> step_ok a c.
Proof.
  intros a b c H1 H2 I. destruct (H1 I) as [Ib Eb]. destruct (H2 Ib) as [Ic Ec].
  split; [exact Ic | eapply ext_trans; eauto].
Qed.
Lemma gp_ok : forall s el store ty cl s' c m, gp s el store ty cl = (s', c, m) -> step_ok s s'.
Proof. intros. intro I. split; [eapply gp_inv; eauto | eapply gp_ext; eauto]. Qed.
Lemma set_elem_ok : forall s ph e, step_ok s (set_elem s ph e).
Proof. intros s ph e I. split; [apply set_elem_inv; exact I | apply set_elem_ext]. Qed.
Lemma store_final_ok : forall s c0 t', step_ok s (store_final s c0 t').
Proof.
  intros s c0 t'. unfold store_final. destruct (t2p_get (t2p s) (knorm c0, TSingle, None)).
  - apply set_elem_ok.
  - apply step_ok_refl.
Qed.

Lemma flat_kids_ok_of : forall fmt ks,
  Forall (fun c => forall s s' txt mk, flat_kid fmt s c = (s', txt, mk) -> step_ok s s') ks ->
  forall s s' txt mk, flat_kids fmt s ks = (s', txt, mk) -> step_ok s s'.
Proof.
  intros fmt ks F. induction F as [|k ks Hk _ IH]; intros s s' txt mk E; cbn [flat_kids] in E.
  - inversion E; subst. apply step_ok_refl.
  - destruct (flat_kid fmt s k) as [[s1 t1] m1] eqn:E1. destruct (flat_kids fmt s1 ks) as [[s2 t2] m2] eqn:E2.
    inversion E; subst. eapply step_ok_trans; eauto.
Qed.

Lemma flat_kid_ok : forall fmt c s s' txt mk, flat_kid fmt s c = (s', txt, mk) -> step_ok s s'.
Proof.
  intros fmt c. induction c as [tag attrs text tail kids IH] using xtree_ind2. intros s s' txt mk E.
  rewrite flat_kid_unfold in E. cbv zeta in E. destruct (mem tag fmt).
  - destruct (gp s _ _ TClose None) as [[s1 phc] m1] eqn:G1.
    destruct (gp s1 _ _ TOpen (Some phc)) as [[s2 pho] m2] eqn:G2.
    destruct (flat_kids fmt s2 kids) as [[s3 inner] mk3] eqn:E3. inversion E; subst.
    eapply step_ok_trans; [eapply gp_ok; eauto|]. eapply step_ok_trans; [eapply gp_ok; eauto|].
    eapply flat_kids_ok_of; eauto.
  - destruct (gp s _ _ TSingle None) as [[s1 ph] miss] eqn:G1. inversion E; subst. eapply gp_ok; eauto.
Qed.
Lemma flat_kids_ok : forall fmt ks s s' txt mk, flat_kids fmt s ks = (s', txt, mk) -> step_ok s s'.
Proof.
  intros fmt ks. apply flat_kids_ok_of. apply Forall_forall. intros c _. apply flat_kid_ok.
Qed.

Definition dw_okP (tt fmt : list str) (t : xtree) : Prop :=
  forall post s marks s' mk' t', dw tt fmt post s marks t = (s', mk', t') -> step_ok s s'.

Lemma dw_post_kids_ok_of : forall tt fmt ks, Forall (dw_okP tt fmt) ks ->
  forall s mk s' mk', dw_post_kids tt fmt s mk ks = (s', mk') -> step_ok s s'.
Proof.
  intros tt fmt ks F. induction F as [|k ks Hk _ IH]; intros s mk s' mk' E; cbn [dw_post_kids] in E.
  - inversion E; subst. apply step_ok_refl.
  - destruct (dw tt fmt true s mk k) as [[s1 mk1] k'] eqn:E1. eapply step_ok_trans; [eapply Hk; eauto | eauto].
Qed.
Lemma dw_live_kids_ok_of : forall tt fmt ks, Forall (dw_okP tt fmt) ks ->
  forall s s' ks', dw_live_kids tt fmt s ks = (s', ks') -> step_ok s s'.
Proof.
  intros tt fmt ks F. induction F as [|k ks Hk _ IH]; intros s s' ks' E; cbn [dw_live_kids] in E.
  - inversion E; subst. apply step_ok_refl.
  - destruct (dw tt fmt false s [] k) as [[s1 mk1] k'] eqn:E1.
    destruct (dw_live_kids tt fmt s1 ks) as [s2 r] eqn:E2. inversion E; subst.
    eapply step_ok_trans; [eapply Hk; eauto | eauto].
Qed.
Lemma dw_live_ok_of : forall tt fmt kids, Forall (dw_okP tt fmt) kids ->
  forall s tag attrs text tail' s' t', dw_live tt fmt s tag attrs text tail' kids = (s', t') -> step_ok s s'.
Proof.
  intros tt fmt kids F s tag attrs text tail' s' t' E. unfold dw_live in E. destruct (mem tag tt).
  - destruct kids as [|k0 ks0]; [inversion E; subst; apply step_ok_refl|].
    destruct (flat_kids fmt s (k0 :: ks0)) as [[s1 txt1] mk] eqn:E1.
    destruct (dw_post_kids tt fmt s1 mk (k0 :: ks0)) as [s2 mk2] eqn:E2. inversion E; subst.
    eapply step_ok_trans; [eapply flat_kids_ok; eauto | eapply dw_post_kids_ok_of; eauto].
  - destruct (dw_live_kids tt fmt s kids) as [s1 kids'] eqn:E1. inversion E; subst.
    eapply dw_live_kids_ok_of; eauto.
Qed.

Lemma dw_ok : forall tt fmt t, dw_okP tt fmt t.
Proof.
  intros tt fmt t. induction t as [tag attrs text tail kids IH] using xtree_ind2.
  intros post s marks s' mk' t' E. rewrite dw_unfold in E. destruct post; [destruct (mem tag fmt)|].
  - destruct (dw_post_kids tt fmt s marks kids) as [s1 mk1] eqn:E1. inversion E; subst.
    eapply dw_post_kids_ok_of; eauto.
  - destruct (dw_live tt fmt s tag attrs text [] kids) as [s1 t1] eqn:E1.
    assert (L : step_ok s s1) by (eapply dw_live_ok_of; eauto).
    destruct marks as [|[|] rest]; inversion E; subst; auto.
    eapply step_ok_trans; [exact L | apply store_final_ok].
  - destruct (dw_live tt fmt s tag attrs text tail kids) as [s1 t1] eqn:E1. inversion E; subst.
    eapply dw_live_ok_of; eauto.
Qed.

Lemma do_tree_ok : forall tt fmt s T, step_ok s (fst (do_tree tt fmt s T)).
Proof.
  intros tt fmt s T. unfold do_tree. destruct (dw tt fmt false s [] T) as [[s' mk'] T'] eqn:E. cbn [fst].
  eapply dw_ok; eauto.
Qed.

Lemma get_placeholder_ok : forall s k, step_ok s (fst (get_placeholder s k)).
Proof.
  intros s [[el ty] cl]. unfold get_placeholder. destruct (gp s el el ty cl) as [[s' ph] m] eqn:G. cbn [fst].
  eapply gp_ok; eauto.
Qed.

Lemma mark_diff_ok : forall fmt s ph a at_ s' c, mark_diff fmt s ph a at_ = Ok (s', c) -> step_ok s s'.
Proof.
  intros fmt s ph a at_ s' c E. unfold mark_diff in E.
  destruct (p2t_get (p2t s) ph) as [[[el ty] cl]|]; [|discriminate].
  destruct ty.
  - destruct (gp s _ _ TOpen cl) as [[s1 c1] m] eqn:G. inversion E; subst. eapply gp_ok; eauto.
  - inversion E; subst. apply step_ok_refl.
  - destruct (gp s _ _ TSingle cl) as [[s1 c1] m] eqn:G. inversion E; subst. eapply gp_ok; eauto.
Qed.
Lemma wrap_diff_ok : forall s x a at_ s' r, wrap_diff s x a at_ = Ok (s', r) -> step_ok s s'.
Proof.
  intros s x a at_ s' r E. unfold wrap_diff in E. destruct (diff_tags a) as [open_ph close_ph].
  destruct at_ as [|kv at_]; [inversion E; subst; apply step_ok_refl|].
  destruct (p2t_get (p2t s) open_ph) as [[[el ty] cl]|]; [|discriminate].
  destruct (gp s _ _ ty cl) as [[s1 c1] m] eqn:G. inversion E; subst. eapply gp_ok; eauto.
Qed.

Lemma ph_step_ok : forall tt fmt s o, step_ok s (ph_step tt fmt s o).
Proof.
  intros tt fmt s o. destruct o as [el ty cl|ph a at_|x a at_|T]; cbn [ph_step].
  - apply get_placeholder_ok.
  - destruct (mark_diff fmt s ph a at_) as [[s' c]|e] eqn:E; [eapply mark_diff_ok; eauto | apply step_ok_refl].
  - destruct (wrap_diff s x a at_) as [[s' c]|e] eqn:E; [eapply wrap_diff_ok; eauto | apply step_ok_refl].
  - apply do_tree_ok.
Qed.

Lemma fold_ok : forall tt fmt ops s, step_ok s (fold_left (ph_step tt fmt) ops s).
Proof.
  intros tt fmt ops. induction ops as [|o ops IH]; intro s; cbn [fold_left].
  - apply step_ok_refl.
  - eapply step_ok_trans; [apply ph_step_ok | apply IH].
Qed.

Lemma ph_inv_empty : ph_inv (mkst [] [] PLACEHOLDER_START).
Proof.
  split; [split|split]; cbn.
  - intros; discriminate.
  - intros; discriminate.
  - intros k1 k2 c H; discriminate.
  - split; [|split; [|split]]; cbn; intros; try discriminate; reflexivity.
Qed.
Lemma init_pair_ok : forall s name, step_ok s (init_pair s name).
Proof.
  intros s name. unfold init_pair.
  destruct (gp s _ _ TClose None) as [[s1 c] m1] eqn:G1.
  destruct (gp s1 _ _ TOpen (Some c)) as [[s2 c2] m2] eqn:G2.
  eapply step_ok_trans; eapply gp_ok; eauto.
Qed.
Lemma ph_inv_init : ph_inv ph_init.
Proof.
  unfold ph_init.
  apply (init_pair_ok _ s_replace). apply (init_pair_ok _ s_delete). apply (init_pair_ok _ s_insert).
  apply ph_inv_empty.
Qed.

(* --------------------------------------------------------- the theorems *)
Theorem tables_thm : forall tt fmt ops,
  let s := fold_left (ph_step tt fmt) ops ph_init in
  inverse_tables s /\ injective_on_keys s /\ counter_ok s.
Proof. intros tt fmt ops s. apply (fold_ok tt fmt ops ph_init). apply ph_inv_init. Qed.

Theorem same_key_same_ph_thm : forall s k s' c,
  ph_inv s -> get_placeholder s k = (s', c) -> get_placeholder s' k = (s', c).
Proof.
  intros s [[el ty] cl] s' c _ E. unfold get_placeholder in *.
  destruct (gp s el el ty cl) as [[s1 c1] m] eqn:G. inversion E; subst.
  rewrite (gp_hit _ _ _ _ _ _ (gp_bound _ _ _ _ _ _ _ _ G)). reflexivity.
Qed.

Theorem distinct_thm : forall s k1 k2 c1 c2,
  ph_inv s -> key_norm k1 <> key_norm k2 ->
  placeholder_of s k1 = Some c1 -> placeholder_of s k2 = Some c2 -> c1 <> c2.
Proof.
  intros s [[e1 t1] l1] [[e2 t2] l2] c1 c2 (_ & J & _) N H1 H2 E. subst c2.
  apply N. cbn [key_norm]. eapply J; eauto.
Qed.

(* whatever happens to the maker in between, a key keeps its placeholder *)
Theorem same_in_two_docs_key : forall tt fmt s k s1 c ops,
  ph_inv s -> get_placeholder s k = (s1, c) ->
  let s2 := fold_left (ph_step tt fmt) ops s1 in get_placeholder s2 k = (s2, c).
Proof.
  intros tt fmt s [[el ty] cl] s1 c ops I E s2. unfold get_placeholder in *.
  destruct (gp s el el ty cl) as [[s1' c1] m] eqn:G. inversion E; subst.
  assert (I1 : ph_inv s1) by (eapply gp_inv; eauto).
  destruct (fold_ok tt fmt ops s1 I1) as [_ (X & _)].
  rewrite (gp_hit _ _ _ _ _ _ (X _ _ (gp_bound _ _ _ _ _ _ _ _ G))). reflexivity.
Qed.
