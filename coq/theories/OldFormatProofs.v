(* OldFormatProofs.v -- proofs about the model of formatting.XmlDiffFormatter
   (XV.OldFormat).

   Exported, in plain words:
   - [old_format_nil]        : the empty script formats to "";
   - [old_handle_yields]     : a handler that returns yields at least one tuple;
   - [old_loop_length]       : a successful run collects at least one tuple per action;
   - [render_entries_ok]     : tuples made of strs only always render, to the lines
                               "[" ++ ", ".join(tuple) ++ "]" joined by "\n";
   - [oh_*]                  : what each handler computes on an action of the shape
                               Differ yields (equations, by computation);
   - [old_handle_spec]       : in the state an identity-level action was rendered in,
                               and if the documented semantics accepts the action, the
                               handler returns tuples of strs: getpath strings resolve
                               to their nodes (PathProofs), position-1 is a valid child
                               index for InsertNode, the adjusted sibling index of
                               MoveNode is valid, RenameAttrib's old attribute is present;
   - [old_handle_ext]        : the handlers only look at the forest pointwise;
   - [old_loop_total], [old_format_total], [old_format_total_count] : C18;
   - boolean versions of the side conditions and a concrete instance [ex18_*];
   - [ex18_default_namespace], [ex18_comment_none] : the two printing premises
     cannot be dropped.

   Colleague lemmas used (all proved, no hypotheses left): getpath_unique,
   path_roundtrip (PathProofs); patcher_refines_spec_ext, spec_apply_wf,
   script_ok/script_okb_sound, parentof_ext, eval_all_ext, ext_refl (PatcherProofs). *)
From Coq Require Import List NArith ZArith Arith Bool Lia.
Import ListNotations.
Require Import XV.Str XV.Json XV.TextFormat XV.Forest XV.Matcher XV.Differ XV.Spec XV.WF
               XV.ForestProofs XV.TreeProofs XV.Path XV.PatcherDSL XV.Gen.TextTables XV.Gen.PatcherProg
               XV.Render XV.PathProofs XV.PatcherProofs XV.OldFormat.

Lemma obind_ok {A B} (r : ores A) (f : A -> ores B) b :
  obind r f = OOk b -> exists a, r = OOk a /\ f a = OOk b.
Proof. destruct r as [a|e]; cbn; intros H; [exists a; split; [reflexivity|exact H]|discriminate]. Qed.

Lemma old_format_nil pe f root nsm : old_format pe f root nsm [] = OOk [].
Proof. reflexivity. Qed.

(* ---- every handler yields at least one tuple ---- *)
Ltac inv_obind H :=
  repeat match type of H with
         | obind _ _ = OOk _ => let a := fresh "v" in let E := fresh "E" in
                                apply obind_ok in H as (a & E & H)
         end.

Lemma old_handle_yields pe root s a ts :
  old_handle pe root s a = OOk ts -> 1 <= length ts.
Proof.
  unfold old_handle. destruct (find _ _) as [[nm h]|] eqn:F; [|discriminate].
  cbn [old_handlers find fst] in F.
  repeat match type of F with
         | (if ?c then _ else _) = _ => destruct c; [injection F as _ <-|]
         end; try discriminate; intros H;
  unfold h_DeleteAttrib, h_DeleteNode, h_InsertAttrib, h_InsertNode, h_RenameAttrib, h_MoveNode,
         h_UpdateAttrib, h_UpdateText, h_RenameNode, h_InsertComment, h_InsertNamespace, h_DeleteNamespace in H;
  inv_obind H;
  try (destruct (py_is_zero _); inv_obind H);
  injection H as <-; cbn; lia.
Qed.

Lemma old_loop_length pe root : forall acts s ts,
  old_loop pe root s acts = OOk ts -> length acts <= length ts.
Proof.
  induction acts as [|a r IH]; intros s ts H; cbn [old_loop] in H.
  - cbn. lia.
  - apply obind_ok in H as (t1 & E1 & H). apply obind_ok in H as (s' & E2 & H).
    apply obind_ok in H as (t2 & E3 & H). injection H as <-.
    apply old_handle_yields in E1. apply IH in E3. rewrite app_length. cbn. lia.
Qed.

(* ---- tuples of strs always render ---- *)
Definition all_str (t : tuple_) : Prop := Forall (fun v => exists s, v = PStr s) t.

Fixpoint strs_of (t : tuple_) : list str :=
  match t with
  | PStr s :: r => s :: strs_of r
  | _ :: r => strs_of r
  | [] => []
  end.

Lemma tuple_strs_ok t : all_str t -> tuple_strs t = OOk (strs_of t).
Proof.
  induction 1 as [|v r (s & ->) _ IH]; [reflexivity|].
  cbn. rewrite IH. reflexivity.
Qed.

(* "[" + ", ".join(t) + "]" *)
Definition entry_text (t : tuple_) : str := (91 :: join s_comma_sp (strs_of t) ++ [93])%N.

Lemma format_entry_ok t : all_str t -> format_entry t = OOk (entry_text t).
Proof. intros H. unfold format_entry. rewrite (tuple_strs_ok _ H). reflexivity. Qed.

Lemma omapM_format_ok ts : Forall all_str ts -> omapM format_entry ts = OOk (map entry_text ts).
Proof.
  induction 1 as [|t r Ht _ IH]; [reflexivity|].
  cbn [omapM map]. rewrite (format_entry_ok _ Ht). cbn. rewrite IH. reflexivity.
Qed.

Lemma render_entries_ok ts :
  Forall all_str ts -> render_entries ts = OOk (join [10%N] (map entry_text ts)).
Proof. intros H. unfold render_entries. rewrite (omapM_format_ok _ H). reflexivity. Qed.

(* ================================================================== *)
(** * The handlers on rendered actions: equations                       *)
(* ================================================================== *)
Section Equations.
Variable pe : penv.
Variable root : id.
Notation oh := (old_handle pe root).

Lemma oh_DeleteNode s x : oh s (GA n_DeleteNode [x]) = OOk [[PStr k_remove; x]].
Proof. reflexivity. Qed.

Lemma oh_InsertNode0 s x y :
  oh s (GA n_InsertNode [x; y; pn 0]) = OOk [[PStr k_insert_first; x; PStr (tag_payload y)]].
Proof. reflexivity. Qed.

Lemma oh_InsertNodeS s x y p :
  oh s (GA n_InsertNode [x; y; pn (S p)]) =
  obind (resolve root s x) (fun t => obind (child_at (ps_f s) t (Z.of_nat p)) (fun sib =>
  OOk [[PStr k_insert_after; PStr (getpath_str pe root (ps_f s) sib); PStr (tag_payload y)]])).
Proof.
  change (oh s (GA n_InsertNode [x; y; pn (S p)])) with
    (obind (resolve root s x) (fun t => obind (py_pred (pn (S p))) (fun i =>
     obind (child_at (ps_f s) t i) (fun sib =>
     OOk [[PStr k_insert_after; PStr (getpath_str pe root (ps_f s) sib); PStr (tag_payload y)]])))).
  unfold py_pred, pn. replace (Z.of_nat (S p) - 1)%Z with (Z.of_nat p) by lia. reflexivity.
Qed.

Lemma oh_InsertComment s x p y :
  oh s (GA n_InsertComment [x; pn p; y]) = OOk [[PStr k_insert_comment; x; PStr (py_str (pn p)); y]].
Proof. reflexivity. Qed.

Lemma oh_MoveNode0 s x y : oh s (GA n_MoveNode [x; y; pn 0]) = OOk [[PStr k_move_first; x; y]].
Proof. reflexivity. Qed.

Definition move_index (f : forest) (n t : id) (p0 : Z) : Z :=
  match parentof f n with
  | Some q => if Nat.eqb q t
              then (if (Z.of_nat (index_in n (kidsof f t)) <=? p0)%Z then (p0 + 1)%Z else p0)
              else p0
  | None => p0
  end.

Lemma oh_MoveNodeS s x y p :
  oh s (GA n_MoveNode [x; y; pn (S p)]) =
  obind (resolve root s x) (fun n => obind (resolve root s y) (fun t =>
  obind (child_at (ps_f s) t (move_index (ps_f s) n t (Z.of_nat p))) (fun sib =>
  OOk [[PStr k_move_after; x; PStr (getpath_str pe root (ps_f s) sib)]]))).
Proof.
  change (oh s (GA n_MoveNode [x; y; pn (S p)])) with
    (obind (resolve root s x) (fun n => obind (resolve root s y) (fun t =>
     obind (py_pred (pn (S p))) (fun p0 =>
     obind (child_at (ps_f s) t (move_index (ps_f s) n t p0)) (fun sib =>
     OOk [[PStr k_move_after; x; PStr (getpath_str pe root (ps_f s) sib)]]))))).
  unfold py_pred, pn. replace (Z.of_nat (S p) - 1)%Z with (Z.of_nat p) by lia. reflexivity.
Qed.

Lemma oh_RenameNode s x y : oh s (GA n_RenameNode [x; y]) = OOk [[PStr k_rename; x; y]].
Proof. reflexivity. Qed.

Lemma oh_UpdateTextIn s x y :
  oh s (GA n_UpdateTextIn [PStr x; y]) = OOk [[PStr k_update; PStr (x ++ s_text1); PStr (dumps y)]].
Proof. reflexivity. Qed.

Lemma oh_UpdateTextAfter s x y :
  oh s (GA n_UpdateTextAfter [PStr x; y]) = OOk [[PStr k_update; PStr (x ++ s_text2); PStr (dumps y)]].
Proof. reflexivity. Qed.

Lemma oh_UpdateAttrib s x y z :
  oh s (GA n_UpdateAttrib [x; y; z]) = OOk [[PStr k_update; PStr (attr_path x y); PStr (dumps z)]].
Proof. reflexivity. Qed.

Lemma oh_InsertAttrib s x y z :
  oh s (GA n_InsertAttrib [x; y; z]) = OOk [[PStr k_insert; x; PStr (attr_payload y z)]].
Proof. reflexivity. Qed.

Lemma oh_DeleteAttrib s x y :
  oh s (GA n_DeleteAttrib [x; y]) = OOk [[PStr k_remove; PStr (attr_path x y)]].
Proof. reflexivity. Qed.

Lemma oh_RenameAttrib s x y z :
  oh s (GA n_RenameAttrib [x; y; z]) =
  obind (resolve root s x) (fun n => obind (attrib_get (ps_f s) n y) (fun v =>
  OOk [[PStr k_remove; PStr (attr_path x y)]; [PStr k_insert; x; PStr (attr_payload z (PStr v))]])).
Proof. reflexivity. Qed.

Lemma oh_InsertNamespace s x y :
  oh s (GA n_InsertNamespace [x; y]) = OOk [[PStr k_insert_namespace; x; y]].
Proof. reflexivity. Qed.

Lemma oh_DeleteNamespace s x : oh s (GA n_DeleteNamespace [x]) = OOk [[PStr k_delete_namespace; x]].
Proof. reflexivity. Qed.
End Equations.

(* ================================================================== *)
(** * The handlers succeed in the state the action was rendered in     *)
(* ================================================================== *)

(* what the 'old' formatter can print: no default-namespace actions (known
   finding) and comment texts that are strs (lxml never yields None there) *)
Definition old_ns_named1 (a : iact) : Prop :=
  match a with IInsNs None _ | IDelNs None => False | _ => True end.
Definition comment_text_present1 (a : iact) : Prop :=
  match a with IInsertComment _ _ None _ => False | _ => True end.
Definition old_ns_prefix_named (script : list iact) : Prop := Forall old_ns_named1 script.
Definition comment_texts_present (script : list iact) : Prop := Forall comment_text_present1 script.

Lemma remove_id_length_In x l : In x l -> length (remove_id x l) < length l.
Proof.
  unfold remove_id. induction l as [|y l IH]; cbn; [intros []|].
  intros [->|H].
  - rewrite Nat.eqb_refl. cbn. pose proof (remove_id_length x l) as L. unfold remove_id in L. lia.
  - destruct (negb (Nat.eqb y x)); cbn; [apply IH in H; lia|].
    pose proof (remove_id_length x l) as L. unfold remove_id in L. lia.
Qed.

Lemma child_at_ok f t i :
  (0 <= i < Z.of_nat (length (kidsof f t)))%Z -> exists c, child_at f t i = OOk c.
Proof.
  intros [H0 H1]. unfold child_at.
  destruct (Z.ltb_spec i 0) as [H|_]; [lia|].
  destruct (Z.ltb_spec i 0) as [H|_]; [lia|].
  destruct (nth_error (kidsof f t) (Z.to_nat i)) as [c|] eqn:E; [exists c; reflexivity|].
  apply nth_error_None in E. lia.
Qed.

Section Spec.
Variable pe : penv.
Variable root : id.

Lemma resolve_getpath env f vars n :
  wf_forest f root -> env_agrees pe env f root -> names_ok pe f root -> alive f root n = true ->
  resolve root (PS f env vars) (gp pe root f n) = OOk n.
Proof.
  intros Hwf He Hn Ha. unfold alive in Ha. apply mem_In in Ha.
  unfold resolve, gp. cbn [ps_f ps_env].
  rewrite (path_roundtrip pe f root n Hwf Ha Hn).
  destruct (getpath_unique pe env f root n Hwf Ha He) as [-> _]. reflexivity.
Qed.

Lemma move_index_range f n t pos :
  (forall q, parentof f n = Some q -> In n (kidsof f q)) ->
  S pos <= length (remove_id n (kidsof f t)) ->
  (0 <= move_index f n t (Z.of_nat pos) < Z.of_nat (length (kidsof f t)))%Z.
Proof.
  intros Hpar Hpos. pose proof (remove_id_length n (kidsof f t)) as L.
  unfold move_index. destruct (parentof f n) as [q|] eqn:P; [|lia].
  destruct (Nat.eqb_spec q t) as [->|_]; [|lia].
  specialize (Hpar t eq_refl). apply remove_id_length_In in Hpar.
  destruct (Z.leb_spec (Z.of_nat (index_in n (kidsof f t))) (Z.of_nat pos)); lia.
Qed.

Ltac split_andb C :=
  repeat match type of C with
         | _ && _ = true => let C' := fresh "C" in apply andb_true_iff in C as [C C']
         end.

Theorem old_handle_spec env f vars ia f' :
  wf_forest f root -> env_agrees pe env f root -> names_ok pe f root ->
  old_ns_named1 ia -> comment_text_present1 ia ->
  spec_apply root f ia = Some f' ->
  exists ts, old_handle pe root (PS f env vars) (render pe root f ia) = OOk ts /\ Forall all_str ts.
Proof.
  intros Hwf He Hnm Hns Hct Hspec.
  assert (S1 : forall x : str, exists s, PStr x = PStr s) by (intros x; exists x; reflexivity).
  destruct ia as [t tag pos n|t pos txt n|n t pos|n|n tag|n txt|n txt|n k v|n k v|n k|n k k'|p u|p];
    cbn [spec_apply] in Hspec; cbn [render].
  - (* IInsert *)
    destruct (alive f root t && is_elem f t && Nat.leb pos (length (kidsof f t)) && Nat.eqb n (fnext f)) eqn:C;
      [|discriminate].
    split_andb C. apply Nat.leb_le in C1.
    destruct pos as [|pos].
    + rewrite oh_InsertNode0. eexists; split; [reflexivity|].
      repeat constructor; unfold gp; apply S1.
    + rewrite oh_InsertNodeS, (resolve_getpath env f vars t Hwf He Hnm C). cbn [obind ps_f].
      destruct (child_at_ok f t (Z.of_nat pos)) as [c ->]; [lia|]. cbn [obind].
      eexists; split; [reflexivity|]. repeat constructor; apply S1.
  - (* IInsertComment *)
    rewrite oh_InsertComment. eexists; split; [reflexivity|].
    destruct txt as [txt|]; [|contradiction].
    repeat constructor; unfold gp, po; apply S1.
  - (* IMove *)
    destruct (alive f root n && negb (Nat.eqb n root) && alive f root t && is_elem f t
              && negb (mem t (subtree (S (fnext f)) f n))
              && Nat.leb pos (length (remove_id n (kidsof f t)))) eqn:C; [|discriminate].
    split_andb C. apply Nat.leb_le in C0.
    destruct pos as [|pos].
    + rewrite oh_MoveNode0. eexists; split; [reflexivity|]. repeat constructor; unfold gp; apply S1.
    + rewrite oh_MoveNodeS, (resolve_getpath env f vars n Hwf He Hnm C). cbn [obind].
      rewrite (resolve_getpath env f vars t Hwf He Hnm C3). cbn [obind ps_f].
      destruct (child_at_ok f t (move_index f n t (Z.of_nat pos))) as [c ->].
      { apply move_index_range; [|exact C0].
        intros q Hq. apply parentof_Some in Hq. apply Hq. }
      cbn [obind]. eexists; split; [reflexivity|]. repeat constructor; unfold gp; apply S1.
  - (* IDelete *)
    rewrite oh_DeleteNode. eexists; split; [reflexivity|]. repeat constructor; unfold gp; apply S1.
  - (* IRename *)
    rewrite oh_RenameNode. eexists; split; [reflexivity|]. repeat constructor; unfold gp; apply S1.
  - (* IText *)
    unfold gp. rewrite oh_UpdateTextIn. eexists; split; [reflexivity|]. repeat constructor; apply S1.
  - (* ITail *)
    unfold gp. rewrite oh_UpdateTextAfter. eexists; split; [reflexivity|]. repeat constructor; apply S1.
  - (* IUpdAttr *)
    rewrite oh_UpdateAttrib. eexists; split; [reflexivity|]. repeat constructor; apply S1.
  - (* IInsAttr *)
    rewrite oh_InsertAttrib. eexists; split; [reflexivity|]. repeat constructor; unfold gp; apply S1.
  - (* IDelAttr *)
    rewrite oh_DeleteAttrib. eexists; split; [reflexivity|]. repeat constructor; apply S1.
  - (* IRenAttr *)
    cbv zeta in Hspec.
    destruct (aget (lattrs (labof f n)) k) as [v|] eqn:Ek; [|discriminate].
    destruct (alive f root n && is_elem f n && negb (ahas (lattrs (labof f n)) k')) eqn:C; [|discriminate].
    split_andb C.
    rewrite oh_RenameAttrib, (resolve_getpath env f vars n Hwf He Hnm C). cbn [obind ps_f attrib_get].
    rewrite Ek. cbn [obind]. eexists; split; [reflexivity|]. repeat constructor; unfold gp; apply S1.
  - (* IInsNs *)
    rewrite oh_InsertNamespace. eexists; split; [reflexivity|].
    destruct p as [p|]; [|contradiction]. repeat constructor; unfold po; apply S1.
  - (* IDelNs *)
    rewrite oh_DeleteNamespace. eexists; split; [reflexivity|].
    destruct p as [p|]; [|contradiction]. repeat constructor; unfold po; apply S1.
Qed.
End Spec.

(* ================================================================== *)
(** * The handlers respect pointwise equality of forests               *)
(* ================================================================== *)
Lemma obind_congr {A B} (r1 r2 : ores A) (k1 k2 : A -> ores B) :
  r1 = r2 -> (forall a, k1 a = k2 a) -> obind r1 k1 = obind r2 k2.
Proof. intros -> H. destruct r2 as [a|e]; cbn; [apply H|reflexivity]. Qed.

Section Ext.
Variable pe : penv.
Variable root : id.
Variables f g : forest.
Hypothesis Hfg : forest_ext_eq f g.

Lemma kidsof_ext n : kidsof f n = kidsof g n.
Proof. destruct Hfg as (_ & H & _). apply H. Qed.

Lemma labof_ext' n : labof f n = labof g n.
Proof. destruct Hfg as (_ & _ & H). apply H. Qed.

Lemma count_before_ext t n sibs : forall k, count_before f pe t n sibs k = count_before g pe t n sibs k.
Proof.
  induction sibs as [|s r IH]; intros k; cbn [count_before]; [reflexivity|].
  destruct (Nat.eqb s n); [reflexivity|]. rewrite labof_ext'. apply IH.
Qed.

Lemma step_of_ext n sibs : step_of f pe n sibs = step_of g pe n sibs.
Proof.
  unfold step_of. rewrite labof_ext', count_before_ext.
  assert (E : forall t, filter (fun s => same_kind pe t (ltag (labof f s))) sibs
                        = filter (fun s => same_kind pe t (ltag (labof g s))) sibs).
  { intros t. induction sibs as [|s r IH]; cbn [filter]; [reflexivity|].
    rewrite labof_ext', IH. reflexivity. }
  rewrite E. reflexivity.
Qed.

Lemma path_up_ext : forall fuel n acc, path_up fuel f pe root n acc = path_up fuel g pe root n acc.
Proof.
  induction fuel as [|fu IH]; intros n acc; cbn [path_up]; [reflexivity|].
  destruct (Nat.eqb n root); [rewrite step_of_ext; reflexivity|].
  rewrite (parentof_ext f g n Hfg). destruct (parentof g n) as [p|]; [|reflexivity].
  rewrite kidsof_ext, step_of_ext. apply IH.
Qed.

Lemma getpath_ext n : getpath pe f root n = getpath pe g root n.
Proof. unfold getpath. destruct Hfg as (E & _ & _). rewrite E, path_up_ext. reflexivity. Qed.

Lemma getpath_str_ext n : getpath_str pe root f n = getpath_str pe root g n.
Proof. unfold getpath_str. rewrite getpath_ext. reflexivity. Qed.

Lemma child_at_ext n i : child_at f n i = child_at g n i.
Proof. unfold child_at. rewrite kidsof_ext. reflexivity. Qed.

Lemma attrib_get_ext n k : attrib_get f n k = attrib_get g n k.
Proof. unfold attrib_get. rewrite labof_ext'. reflexivity. Qed.
End Ext.

Section Ext2.
Variable pe : penv.
Variable root : id.
Variables s1 s2 : pstate.
Hypothesis Hf : forest_ext_eq (ps_f s1) (ps_f s2).
Hypothesis He : ps_env s1 = ps_env s2.

Lemma resolve_ext v : resolve root s1 v = resolve root s2 v.
Proof.
  unfold resolve. destruct v as [ps| |z]; try reflexivity.
  destruct (path_of_str ps) as [p|]; [|reflexivity].
  rewrite He, (eval_all_ext (ps_env s2) _ _ root p Hf). reflexivity.
Qed.

Lemma h_InsertNode_ext a : h_InsertNode pe root s1 a = h_InsertNode pe root s2 a.
Proof.
  unfold h_InsertNode. apply obind_congr; [reflexivity|intros position].
  destruct (py_is_zero position); [reflexivity|].
  apply obind_congr; [reflexivity|intros target].
  apply obind_congr; [apply resolve_ext|intros t].
  apply obind_congr; [reflexivity|intros i].
  apply obind_congr; [apply child_at_ext; exact Hf|intros sib].
  apply obind_congr; [reflexivity|intros tag].
  rewrite (getpath_str_ext pe root _ _ Hf). reflexivity.
Qed.

Lemma h_RenameAttrib_ext a : h_RenameAttrib root s1 a = h_RenameAttrib root s2 a.
Proof.
  unfold h_RenameAttrib. apply obind_congr; [reflexivity|intros node].
  apply obind_congr; [apply resolve_ext|intros n].
  apply obind_congr; [reflexivity|intros oldname].
  apply obind_congr; [apply attrib_get_ext; exact Hf|intros value]. reflexivity.
Qed.

Lemma h_MoveNode_ext a : h_MoveNode pe root s1 a = h_MoveNode pe root s2 a.
Proof.
  unfold h_MoveNode. apply obind_congr; [reflexivity|intros position].
  destruct (py_is_zero position); [reflexivity|].
  apply obind_congr; [reflexivity|intros node].
  apply obind_congr; [apply resolve_ext|intros n].
  apply obind_congr; [reflexivity|intros target].
  apply obind_congr; [apply resolve_ext|intros t].
  apply obind_congr; [reflexivity|intros p0].
  rewrite (parentof_ext _ _ n Hf), (kidsof_ext _ _ Hf t).
  apply obind_congr; [apply child_at_ext; exact Hf|intros sib].
  rewrite (getpath_str_ext pe root _ _ Hf). reflexivity.
Qed.

Lemma old_handle_ext a : old_handle pe root s1 a = old_handle pe root s2 a.
Proof.
  unfold old_handle.
  assert (H : Forall (fun p : str * (pstate -> gaction -> ores (list tuple_)) => snd p s1 a = snd p s2 a)
                     (old_handlers pe root)).
  { unfold old_handlers. repeat constructor; cbn [snd]; try reflexivity.
    - apply h_InsertNode_ext.
    - apply h_RenameAttrib_ext.
    - apply h_MoveNode_ext. }
  destruct (find _ _) as [[nm h]|] eqn:F; [|reflexivity].
  apply find_some in F as [F _]. rewrite Forall_forall in H. apply (H _ F).
Qed.
End Ext2.

(* ================================================================== *)
(** * Totality on rendered scripts                                      *)
(* ================================================================== *)
Lemma old_loop_total pe root script : forall g f env vars gs T,
  wf_forest f root -> forest_ext_eq g f -> script_ok pe root env f script ->
  old_ns_prefix_named script -> comment_texts_present script ->
  run_spec root f script = Some T -> render_script pe root f script = Some gs ->
  exists ts, old_loop pe root (PS g env vars) gs = OOk ts /\ Forall all_str ts /\ length script <= length ts.
Proof.
  induction script as [|a r IH]; intros g f env vars gs T Hwf Hext Hok Hns Hct Hrun Hren.
  - cbn [run_spec render_script] in *. inversion Hren; subst.
    exists []. split; [reflexivity|]. split; [constructor|cbn; lia].
  - cbn [run_spec render_script script_ok] in *. destruct Hok as (He & Hnm & Hnn & Hok).
    inversion Hns as [|? ? Hns1 Hns']; subst. inversion Hct as [|? ? Hct1 Hct']; subst.
    destruct (spec_apply root f a) as [f1|] eqn:Hspec; [|discriminate].
    destruct (render_script pe root f1 r) as [gs'|] eqn:Hren'; [|discriminate].
    cbn [option_map] in Hren. inversion Hren; subst gs. clear Hren.
    destruct (old_handle_spec pe root env f vars a f1 Hwf He Hnm Hns1 Hct1 Hspec) as (ts1 & H1 & A1).
    destruct (patcher_refines_spec_ext pe env f g root vars true a f1 Hwf He Hnm Hnn Hext Hspec)
      as (s1 & H2 & Hf1 & He1).
    cbn [old_loop].
    rewrite (old_handle_ext pe root (PS g env vars) (PS f env vars) Hext eq_refl), H1. cbn [obind].
    unfold patcher_step. rewrite H2. cbn [obind].
    destruct s1 as [g1 env1 vars1]. cbn [ps_f ps_env] in *. subst env1.
    destruct (IH g1 f1 (env_after a env) vars1 gs' T (spec_apply_wf root f a f1 Hwf Hspec) Hf1 Hok Hns' Hct' Hrun Hren')
      as (ts2 & H3 & A2 & L2).
    rewrite H3. cbn [obind]. exists (ts1 ++ ts2). split; [reflexivity|].
    split; [apply Forall_app; split; assumption|].
    apply old_handle_yields in H1. rewrite app_length. cbn [length]. lia.
Qed.

(* the statement of C18 *)
Theorem old_format_total pe L root nsm script gs T :
  wf_forest L root ->
  script_ok pe root (old_env nsm) L script ->
  run_spec root L script = Some T ->
  render_script pe root L script = Some gs ->
  old_ns_prefix_named script -> comment_texts_present script ->
  exists ts txt,
    old_entries pe L root nsm gs = OOk ts /\
    old_format pe L root nsm gs = OOk txt /\
    Forall all_str ts /\
    txt = join [10%N] (map entry_text ts) /\
    length script <= length ts.
Proof.
  intros Hwf Hok Hrun Hren Hns Hct.
  destruct (old_loop_total pe root script L L (old_env nsm) (fun _ => None) gs T
              Hwf (ext_refl L) Hok Hns Hct Hrun Hren) as (ts & H & A & Len).
  exists ts, (join [10%N] (map entry_text ts)).
  split; [exact H|]. split; [|split; [exact A|split; [reflexivity|exact Len]]].
  unfold old_format. unfold old_entries in H |- *. rewrite H. cbn [obind]. apply render_entries_ok. exact A.
Qed.

Lemma old_env_nsmap_env nsm : old_env nsm = nsmap_env nsm.
Proof. reflexivity. Qed.

(* ================================================================== *)
(** * Boolean versions of the premises, and a concrete instance         *)
(* ================================================================== *)
Definition old_ns_named1b (a : iact) : bool :=
  match a with IInsNs None _ | IDelNs None => false | _ => true end.
Definition comment_text_present1b (a : iact) : bool :=
  match a with IInsertComment _ _ None _ => false | _ => true end.

Lemma old_ns_prefix_namedb_sound script : forallb old_ns_named1b script = true -> old_ns_prefix_named script.
Proof.
  intros H. apply Forall_forall. intros a Ha. rewrite forallb_forall in H. specialize (H a Ha).
  destruct a as [| | | | | | | | | | |[p|] u|[p|]]; cbn in *; try exact I; discriminate.
Qed.

Lemma comment_texts_presentb_sound script :
  forallb comment_text_present1b script = true -> comment_texts_present script.
Proof.
  intros H. apply Forall_forall. intros a Ha. rewrite forallb_forall in H. specialize (H a Ha).
  destruct a as [|t pos [txt|] n| | | | | | | | | | |]; cbn in *; try exact I; discriminate.
Qed.

(* <a xmlns:p="urn:p" x="1"><b/><c/><p:d/></a>, ids in document order *)
Definition ex18_L : forest :=
  mk_forest [(0, [1; 2; 3])]
            [(0, Lab (TElem [97]%N) [([120]%N, [49]%N)] None None);
             (1, Lab (TElem [98]%N) [] None None);
             (2, Lab (TElem [99]%N) [] None None);
             (3, Lab (TElem [123;117;114;110;58;112;125;100]%N) [] None None)] 4.
Definition ex18_nsm : list (option str * str) := [(Some [112]%N, [117;114;110;58;112]%N)].
Definition ex18_pe : penv :=
  fun u => if str_eqb u [117;114;110;58;112]%N then Some [112]%N
           else if str_eqb u [117;114;110;58;113]%N then Some [113]%N else None.
(* InsertNode at position 2; MoveNode of the first child to position 2 of the same
   parent; RenameAttrib; a new prefix, an element using it, its text *)
Definition ex18_script : list iact :=
  [IInsert 0 [101]%N 2 4; IMove 1 0 2; IRenAttr 0 [120]%N [121]%N;
   IInsNs (Some [113]%N) [117;114;110;58;113]%N;
   IInsert 3 [123;117;114;110;58;113;125;102]%N 0 5; IText 5 (Some [104;105]%N)].
(* what Differ yields for it (checked against lxml: see harness/props/C18.py) *)
Definition ex18_gs : list gaction :=
  [GA n_InsertNode [PStr [47;97;91;49;93]%N; PStr [101]%N; PInt 2];
   GA n_MoveNode [PStr [47;97;47;98;91;49;93]%N; PStr [47;97;91;49;93]%N; PInt 2];
   GA n_RenameAttrib [PStr [47;97;91;49;93]%N; PStr [120]%N; PStr [121]%N];
   GA n_InsertNamespace [PStr [113]%N; PStr [117;114;110;58;113]%N];
   GA n_InsertNode [PStr [47;97;47;112;58;100;91;49;93]%N; PStr [123;117;114;110;58;113;125;102]%N; PInt 0];
   GA n_UpdateTextIn [PStr [47;97;47;112;58;100;47;113;58;102;91;49;93]%N; PStr [104;105]%N]].
(* the text XmlDiffFormatter().format returns for it *)
Definition ex18_text : str :=
  [91;105;110;115;101;114;116;45;97;102;116;101;114;44;32;47;97;47;99;91;49;93;44;32;10;60;101;47;62;93;10;91;109;111;118;101;45;97;102;116;101;114;44;32;47;97;47;98;91;49;93;44;32;47;97;47;101;91;49;93;93;10;91;114;101;109;111;118;101;44;32;47;97;91;49;93;47;64;120;93;10;91;105;110;115;101;114;116;44;32;47;97;91;49;93;44;32;10;60;64;121;62;10;49;10;60;47;64;121;62;93;10;91;105;110;115;101;114;116;45;110;97;109;101;115;112;97;99;101;44;32;113;44;32;117;114;110;58;113;93;10;91;105;110;115;101;114;116;45;102;105;114;115;116;44;32;47;97;47;112;58;100;91;49;93;44;32;10;60;123;117;114;110;58;113;125;102;47;62;93;10;91;117;112;100;97;116;101;44;32;47;97;47;112;58;100;47;113;58;102;91;49;93;47;116;101;120;116;40;41;91;49;93;44;32;34;104;105;34;93]%N.

Lemma ex18_premises :
  wf_forest ex18_L 0 /\
  script_ok ex18_pe 0 (old_env ex18_nsm) ex18_L ex18_script /\
  (exists T, run_spec 0 ex18_L ex18_script = Some T) /\
  render_script ex18_pe 0 ex18_L ex18_script = Some ex18_gs /\
  old_ns_prefix_named ex18_script /\ comment_texts_present ex18_script /\
  old_format ex18_pe ex18_L 0 ex18_nsm ex18_gs = OOk ex18_text /\
  old_entry_count ex18_pe ex18_L 0 ex18_nsm ex18_gs = 7.
Proof.
  split; [apply wf_forestb_sound; vm_compute; reflexivity|].
  split; [apply script_okb_sound; vm_compute; reflexivity|].
  split; [destruct (run_spec 0 ex18_L ex18_script) as [T|] eqn:E; [exists T; reflexivity|vm_compute in E; discriminate]|].
  split; [vm_compute; reflexivity|].
  split; [apply old_ns_prefix_namedb_sound; reflexivity|].
  split; [apply comment_texts_presentb_sound; reflexivity|].
  split; vm_compute; reflexivity.
Qed.

(* the same with the number of bracketed entries as a function of the inputs *)
Corollary old_format_total_count pe L root nsm script gs T :
  wf_forest L root ->
  script_ok pe root (old_env nsm) L script ->
  run_spec root L script = Some T ->
  render_script pe root L script = Some gs ->
  old_ns_prefix_named script -> comment_texts_present script ->
  exists txt, old_format pe L root nsm gs = OOk txt /\ length script <= old_entry_count pe L root nsm gs.
Proof.
  intros Hwf Hok Hrun Hren Hns Hct.
  destruct (old_format_total pe L root nsm script gs T Hwf Hok Hrun Hren Hns Hct)
    as (ts & txt & H1 & H2 & _ & _ & Len).
  exists txt. split; [exact H2|]. unfold old_entry_count. rewrite H1. exact Len.
Qed.

(* ---- the two premises about what can be printed are needed ---- *)
(* DeleteNamespace(None): what Differ yields when only the left root declares a
   default namespace.  Every other premise holds; the formatter raises TypeError. *)
Lemma ex18_default_namespace :
  let script := [IDelNs None] in
  wf_forest ex18_L 0 /\ script_ok ex18_pe 0 (old_env ex18_nsm) ex18_L script /\
  (exists T, run_spec 0 ex18_L script = Some T) /\
  comment_texts_present script /\
  exists gs, render_script ex18_pe 0 ex18_L script = Some gs /\
             old_format ex18_pe ex18_L 0 ex18_nsm gs = OErr OTypeError.
Proof.
  cbv zeta.
  split; [apply wf_forestb_sound; vm_compute; reflexivity|].
  split; [apply script_okb_sound; vm_compute; reflexivity|].
  split; [eexists; reflexivity|].
  split; [apply comment_texts_presentb_sound; reflexivity|].
  eexists. split; [reflexivity|]. vm_compute. reflexivity.
Qed.

(* InsertNamespace(None, uri): the patcher step itself fails (nsmap[None]) *)
Lemma ex18_default_namespace_insert :
  old_format ex18_pe ex18_L 0 ex18_nsm [GA n_InsertNamespace [PNone; PStr [117;114;110;58;100]%N]] = OErr OTypeError.
Proof. vm_compute. reflexivity. Qed.

(* InsertComment with text None (lxml never produces it; the identity-level
   action type allows it) *)
Lemma ex18_comment_none :
  let script := [IInsertComment 0 0 None 4] in
  wf_forest ex18_L 0 /\ script_ok ex18_pe 0 (old_env ex18_nsm) ex18_L script /\
  (exists T, run_spec 0 ex18_L script = Some T) /\
  old_ns_prefix_named script /\
  exists gs, render_script ex18_pe 0 ex18_L script = Some gs /\
             old_format ex18_pe ex18_L 0 ex18_nsm gs = OErr OTypeError.
Proof.
  cbv zeta.
  split; [apply wf_forestb_sound; vm_compute; reflexivity|].
  split; [apply script_okb_sound; vm_compute; reflexivity|].
  split; [destruct (run_spec 0 ex18_L [IInsertComment 0 0 None 4]) as [T|] eqn:E;
          [exists T; reflexivity|vm_compute in E; discriminate]|].
  split; [apply old_ns_prefix_namedb_sound; reflexivity|].
  eexists. split; [vm_compute; reflexivity|]. vm_compute. reflexivity.
Qed.
