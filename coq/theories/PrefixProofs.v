(* PrefixProofs.v -- property C04, second sentence, as a THEOREM about the
   differ's output: "every namespace prefix used in a path is bound either on
   the root of the left document or by an earlier InsertNamespace action of the
   same script" -- i.e. the side condition [script_ok] of C04_patch_replays_script
   / C01_roundtrip holds for the scripts Differ.diff emits.

   Exported, in plain words:
   - [tags_in P f root]: every tag of a document node satisfies P;
     [okact P a]: the tag an insert / rename action introduces satisfies P, and
     a is not an InsertNamespace; [spec_apply_tags]: the documented semantics
     keeps tags_in P (nothing but inserts and renames changes tags);
   - [gen_script_okact]: the tags carried by the actions of gen_script are tags
     of document nodes of the RIGHT document (purely syntactic; any matching);
   - [ns_decl_ok pe lns rns L rootL R rootR] (premise on the inputs):
       * the right root's namespace map has distinct keys;
       * if the right root declares a default namespace, so does the left root
         (otherwise the prologue contains InsertNamespace(None, ..), on which
         the shipped patcher fails);
       * every namespace URI u of a tag of a document node of L has pe u = None
         (default namespace; printed "*") or pe u = Some p with p bound to u in
         lns (the left root's map);
       * every namespace URI u of a tag of a document node of R has pe u = None,
         or pe u = Some p with p bound to u in lns, or p unbound in lns and bound
         to u in rns.
     (NOTE: for L's own tags the binding must be on the LEFT root: they are
     printed in paths from the first action on, when the patcher's nsmap is
     still the left root's map; if a prefix of an L tag were declared only on
     the right root, script_ok would fail at the first action.)
     Boolean [ns_decl_okb] with [ns_decl_okb_sound]; [doc_names_ok] = names_ok
     of PathProofs with [doc_names_okb] / [doc_names_okb_iff].
   - [differ_script_ok]: script_ok for pro ++ out (gen_script ..), every matching;
   - [script_ok_at]: what script_ok gives at index i of a script;
     [prefixes_bound]: the sentence of the property spelled out;
   - [roundtrip_unconditional]: diff, render, patch = the right document, with
     ns_decl_ok / doc_names_ok in place of script_ok. *)
From Coq Require Import List NArith ZArith Arith Bool Lia.
Import ListNotations.
Require Import XV.Str XV.Json XV.TextFormat XV.Forest XV.LCS XV.Matcher XV.Differ XV.Spec XV.WF
               XV.ForestProofs XV.TreeProofs XV.AttrProofs XV.DifferFrame XV.DifferAlign XV.DifferSound
               XV.EqualDocsScript XV.Path XV.PathProofs XV.PatcherDSL XV.Render
               XV.Gen.TextTables XV.Gen.PatcherProg XV.PatcherProofs XV.Pipeline XV.PipelineProofs.

(* ------------------------------------------------------------------ *)
(** * 1. Tags along the documented semantics                            *)
(* ------------------------------------------------------------------ *)
Definition tags_in (P : tagt -> Prop) (f : forest) (root : id) : Prop :=
  forall n, desc f root n -> P (ltag (flab f n)).

Definition okact (P : tagt -> Prop) (a : iact) : Prop :=
  match a with
  | IInsert _ tag _ _ | IRename _ tag => P (TElem tag)
  | IInsertComment _ _ _ _ => P TComment
  | IInsNs _ _ => False
  | _ => True
  end.

Lemma okact_mono (P Q : tagt -> Prop) a : (forall t, P t -> Q t) -> okact P a -> okact Q a.
Proof. intros H. destruct a; cbn [okact]; auto. Qed.

Lemma root_lt f root : wf_forest f root -> root < fnext f.
Proof. apply wf_root_lt. Qed.

Lemma tags_set_lab P f root n l :
  tags_in P f root -> (desc f root n -> P (ltag l)) -> tags_in P (set_lab f n l) root.
Proof.
  intros Ht Hl m Hm. apply desc_set_lab in Hm. cbn [set_lab flab]. unfold upd.
  destruct (Nat.eqb m n) eqn:E; [apply Nat.eqb_eq in E; subst; apply Hl, Hm|apply Ht, Hm].
Qed.

Lemma tags_ins P f root l t pos :
  wf_forest f root -> alive f root t = true -> tags_in P f root -> P (ltag l) ->
  tags_in P (ins_f f l t pos) root.
Proof.
  intros Hwf Ha Ht Hl m Hm. pose proof (alive_lt' root f t Hwf Ha) as Hlt.
  apply (desc_ins_inv f root l t pos m Hwf Hlt) in Hm. rewrite flab_ins.
  destruct Hm as [->|Hm]; [rewrite Nat.eqb_refl; exact Hl|].
  assert (m < fnext f) by (eapply desc_lt; [exact Hwf|apply root_lt; exact Hwf|exact Hm]).
  replace (Nat.eqb m (fnext f)) with false by (symmetry; apply Nat.eqb_neq; lia).
  apply Ht, Hm.
Qed.

Theorem spec_apply_tags P root f a f' :
  wf_forest f root -> tags_in P f root -> okact P a -> spec_apply root f a = Some f' ->
  tags_in P f' root.
Proof.
  intros Hwf Ht Ha Hs.
  destruct a as [t tag pos n|t pos txt n|n t pos|n|n tag|n txt|n txt|n k v|n k v|n k|n k k'|p u|p];
    cbn [spec_apply okact] in *.
  - destruct (alive f root t && is_elem f t && Nat.leb pos (length (kidsof f t)) && Nat.eqb n (fnext f)) eqn:C;
      [|discriminate].
    cbn [alloc] in Hs. injection Hs as <-.
    apply andb_true_iff in C as [C C4]. apply andb_true_iff in C as [C C3]. apply andb_true_iff in C as [C1 C2].
    apply Nat.eqb_eq in C4. subst n.
    apply (tags_ins P f root (Lab (TElem tag) [] None None) t pos Hwf C1 Ht Ha).
  - destruct (alive f root t && is_elem f t && Nat.leb pos (length (kidsof f t)) && Nat.eqb n (fnext f)) eqn:C;
      [|discriminate].
    cbn [alloc] in Hs. injection Hs as <-.
    apply andb_true_iff in C as [C C4]. apply andb_true_iff in C as [C C3]. apply andb_true_iff in C as [C1 C2].
    apply Nat.eqb_eq in C4. subst n.
    apply (tags_ins P f root (Lab TComment [] txt None) t pos Hwf C1 Ht Ha).
  - destruct (alive f root n && negb (Nat.eqb n root) && alive f root t && is_elem f t
              && negb (mem t (subtree (S (fnext f)) f n))
              && Nat.leb pos (length (remove_id n (kidsof f t)))) eqn:C; [|discriminate].
    injection Hs as <-.
    apply andb_true_iff in C as [C C6]. apply andb_true_iff in C as [C C5]. apply andb_true_iff in C as [C C4].
    apply andb_true_iff in C as [C C3]. apply andb_true_iff in C as [C1 C2].
    apply (alive_iff f root n Hwf) in C1. apply (alive_iff f root t Hwf) in C3.
    intros m Hm. apply (desc_move_inv f root n t pos m Hwf C3 C1) in Hm.
    change (insert_at (detach f n) t pos n) with (move_f f n t pos). rewrite flab_move. apply Ht, Hm.
  - destruct (alive f root n && negb (Nat.eqb n root) && match kidsof f n with [] => true | _ => false end);
      [|discriminate].
    injection Hs as <-. intros m Hm.
    apply (desc_detach_inv f root n root m Hwf (root_lt f root Hwf)) in Hm.
    rewrite flab_detach. apply Ht, Hm.
  - destruct (alive f root n && is_elem f n); [|discriminate].
    cbv zeta in Hs. injection Hs as <-. apply tags_set_lab; [exact Ht|]. intros _. exact Ha.
  - destruct (alive f root n); [|discriminate].
    cbv zeta in Hs. injection Hs as <-. apply tags_set_lab; [exact Ht|]. intros Hd. apply Ht, Hd.
  - destruct (alive f root n && negb (Nat.eqb n root)); [|discriminate].
    cbv zeta in Hs. injection Hs as <-. apply tags_set_lab; [exact Ht|]. intros Hd. apply Ht, Hd.
  - cbv zeta in Hs. destruct (alive f root n && is_elem f n && ahas (lattrs (labof f n)) k); [|discriminate].
    injection Hs as <-. unfold set_attrs_f. apply tags_set_lab; [exact Ht|]. intros Hd. apply Ht, Hd.
  - cbv zeta in Hs. destruct (alive f root n && is_elem f n && negb (ahas (lattrs (labof f n)) k)); [|discriminate].
    injection Hs as <-. unfold set_attrs_f. apply tags_set_lab; [exact Ht|]. intros Hd. apply Ht, Hd.
  - cbv zeta in Hs. destruct (alive f root n && is_elem f n && ahas (lattrs (labof f n)) k); [|discriminate].
    injection Hs as <-. unfold set_attrs_f. apply tags_set_lab; [exact Ht|]. intros Hd. apply Ht, Hd.
  - cbv zeta in Hs. destruct (aget (lattrs (labof f n)) k) as [v|]; [|discriminate].
    destruct (alive f root n && is_elem f n && negb (ahas (lattrs (labof f n)) k')); [|discriminate].
    injection Hs as <-. unfold set_attrs_f. apply tags_set_lab; [exact Ht|]. intros Hd. apply Ht, Hd.
  - contradiction.
  - injection Hs as <-. exact Ht.
Qed.

(* ------------------------------------------------------------------ *)
(** * 2. script_ok: composition, the body of a script, indexing          *)
(* ------------------------------------------------------------------ *)
(* the environment after a list of actions *)
Definition pro_env (env : nsenv) (acts : list iact) : nsenv :=
  fold_left (fun e a => env_after a e) acts env.

Lemma pro_env_app env a b : pro_env env (a ++ b) = pro_env (pro_env env a) b.
Proof. apply fold_left_app. Qed.

Lemma script_ok_app pe root a : forall env f b,
  script_ok pe root env f a ->
  (forall f', run_spec root f a = Some f' -> script_ok pe root (pro_env env a) f' b) ->
  script_ok pe root env f (a ++ b).
Proof.
  induction a as [|x a IH]; intros env f b Ha Hb.
  - apply Hb. reflexivity.
  - cbn [app script_ok] in *. destruct Ha as (H1 & H2 & H3 & H4).
    split; [exact H1|]. split; [exact H2|]. split; [exact H3|].
    destruct (spec_apply root f x) as [f1|] eqn:E; [|exact I].
    apply IH; [exact H4|]. intros f' Hr. apply Hb. cbn [run_spec]. rewrite E. exact Hr.
Qed.

Lemma okact_env_after P a env : okact P a -> env_after a env = env.
Proof. destruct a; cbn; try reflexivity. contradiction. Qed.

Lemma okact_ns_named P a : okact P a -> ns_named a.
Proof. destruct a; cbn; try exact (fun _ => I). contradiction. Qed.

Lemma script_ok_body pe root env (P : tagt -> Prop) :
  (forall t, P t -> tag_env_ok pe env t /\ test_okb (test_of pe t) = true) ->
  forall body f, wf_forest f root -> tags_in P f root -> Forall (okact P) body ->
  script_ok pe root env f body.
Proof.
  intros HP. induction body as [|a r IH]; intros f Hwf Ht Hb; [exact I|].
  inversion Hb as [|? ? Ha Hr]; subst. cbn [script_ok].
  split; [intros n Hn; apply HP, Ht; apply (doc_nodes_iff f root n Hwf); exact Hn|].
  split; [intros n Hn; apply HP, Ht; apply (doc_nodes_iff f root n Hwf); exact Hn|].
  split; [eapply okact_ns_named; eauto|].
  destruct (spec_apply root f a) as [f'|] eqn:E; [|exact I].
  rewrite (okact_env_after P a env Ha).
  apply IH; [eapply spec_apply_wf; eauto|eapply spec_apply_tags; eauto|exact Hr].
Qed.

(* what script_ok says at position i *)
Lemma script_ok_at pe root script : forall i env f a T,
  script_ok pe root env f script -> nth_error script i = Some a ->
  run_spec root f (firstn i script) = Some T ->
  env_agrees pe (pro_env env (firstn i script)) T root /\ names_ok pe T root /\ ns_named a.
Proof.
  induction script as [|x r IH]; intros i env f a T Hok Hn Hr; [destruct i; discriminate|].
  cbn [script_ok] in Hok. destruct Hok as (H1 & H2 & H3 & H4).
  destruct i as [|i]; cbn [nth_error firstn run_spec pro_env fold_left] in *.
  - inversion Hn; subst. inversion Hr; subst. auto.
  - destruct (spec_apply root f x) as [f1|]; [|discriminate].
    apply (IH i (env_after x env) f1 a T H4 Hn Hr).
Qed.

(* ------------------------------------------------------------------ *)
(** * 3. The tags of the emitted actions come from the right document    *)
(* ------------------------------------------------------------------ *)
Section ExtTag.
Variable ign : list str.
Variable R : forest.
Variable P : tagt -> Prop.

Definition ext_tag (s s' : st) : Prop :=
  exists acts, out s' = out s ++ acts /\ Forall (okact P) acts.

Lemma xt_refl s : ext_tag s s.
Proof. exists []. rewrite app_nil_r. split; [reflexivity|constructor]. Qed.
Lemma xt_same s s' : out s' = out s -> ext_tag s s'.
Proof. intros E. exists []. rewrite app_nil_r. split; [exact E|constructor]. Qed.
Lemma xt_one s s' a : out s' = out s ++ [a] -> okact P a -> ext_tag s s'.
Proof. intros E H. exists [a]. split; [exact E|]. constructor; [exact H|constructor]. Qed.
Lemma xt_trans s1 s2 s3 : ext_tag s1 s2 -> ext_tag s2 s3 -> ext_tag s1 s3.
Proof.
  intros (a1 & E1 & F1) (a2 & E2 & F2). exists (a1 ++ a2).
  split; [rewrite E2, E1, app_assoc; reflexivity|]. apply Forall_app. split; assumption.
Qed.
Lemma xt_fold {K} (f : st -> K -> st) (ks : list K) :
  (forall s k, In k ks -> ext_tag s (f s k)) -> forall s, ext_tag s (fold_left f ks s).
Proof.
  induction ks as [|k ks IH]; intros Hstep s; cbn [fold_left]; [apply xt_refl|].
  eapply xt_trans; [apply Hstep; left; reflexivity|]. apply IH. intros t x Hx. apply Hstep. right; exact Hx.
Qed.

Variable y : id.
Hypothesis Hy : P (ltag (labof R y)).

Lemma upd_attr_xt s ln : ext_tag s (upd_attr ign R s ln y).
Proof.
  destruct (upd_attr_lift ign R s ln y) as (E & _).
  eexists. split; [exact E|]. apply Forall_forall. intros a Ha.
  apply in_map_iff in Ha as (x & <- & _). destruct x; exact I.
Qed.

Lemma upd_tag_xt s ln : ext_tag s (upd_tag R s ln y).
Proof.
  unfold upd_tag. destruct (tag_eqb _ _); [apply xt_refl|].
  destruct (ltag (labof R y)) as [t|] eqn:Et; [|apply xt_same; reflexivity].
  eapply xt_one; [reflexivity|]. cbn [okact]. exact Hy.
Qed.

Lemma upd_text_xt s ln : ext_tag s (upd_text R s ln y).
Proof.
  unfold upd_text.
  set (s1 := if ostr_eqb (ltext (labof (W s) ln)) (ltext (labof R y)) then s else _).
  assert (H1 : ext_tag s s1).
  { unfold s1. destruct (ostr_eqb _ _); [apply xt_refl|]. eapply xt_one; [reflexivity|exact I]. }
  eapply xt_trans; [exact H1|]. cbv zeta.
  destruct (ostr_eqb (ltail (labof (W s1) ln)) (ltail (labof R y))); [apply xt_refl|].
  eapply xt_one; [reflexivity|exact I].
Qed.

Lemma align_body_xt s c : ext_tag s (align_body R s c).
Proof.
  unfold align_body. destruct (inoL s c); [apply xt_refl|].
  destruct (l2r s c) as [r|]; [|apply xt_same; reflexivity].
  destruct (find_pos R s r) as [pos|]; [|apply xt_same; reflexivity].
  destruct (parentof R r) as [rt|]; [|apply xt_same; reflexivity].
  destruct (r2l s rt) as [lt|]; [|apply xt_same; reflexivity].
  eapply xt_one; [reflexivity|exact I].
Qed.

Lemma align_xt s ln rn : ext_tag s (align R s ln rn).
Proof.
  rewrite align_unfold. cbv zeta. rewrite match_nil2.
  destruct (_ || _); [apply xt_refl|].
  destruct (lcs_seq _ _ _) as [ps|]; [|apply xt_same; reflexivity].
  eapply xt_trans; [|apply xt_fold; intros; apply align_body_xt].
  apply xt_same. apply fold_out_same. intros; reflexivity.
Qed.

Lemma finish_xt s ln : ext_tag s (finish R s ln y).
Proof.
  unfold finish. cbv zeta. eapply xt_trans; [apply align_xt|].
  destruct (r2l _ y); [apply upd_text_xt|apply xt_same; reflexivity].
Qed.

Lemma visit_xt s : ext_tag s (visit ign R s y).
Proof.
  rewrite visit_shape. cbv zeta.
  destruct (r2l s y) as [c|].
  - eapply xt_trans; [|apply finish_xt]. eapply xt_trans; [|apply upd_attr_xt].
    eapply xt_trans; [|apply upd_tag_xt].
    destruct (oid_eqb _ _); [apply xt_refl|].
    destruct (match parentof R y with Some rp => r2l s rp | None => None end) as [lt|];
      [|apply xt_same; reflexivity].
    destruct (find_pos R s y); [eapply xt_one; [reflexivity|exact I]|apply xt_same; reflexivity].
  - destruct (match parentof R y with Some rp => r2l s rp | None => None end) as [lt|];
      [|eapply xt_trans; [|apply finish_xt]; apply xt_same; reflexivity].
    destruct (find_pos R s y) as [pos|];
      [|eapply xt_trans; [|apply finish_xt]; apply xt_same; reflexivity].
    eapply xt_trans; [|apply finish_xt]. eapply xt_trans; [|apply upd_attr_xt].
    eapply xt_one; [apply do_ins_out|].
    unfold new_act. destruct (ltag (labof R y)) eqn:Et; cbn [fst okact]; exact Hy.
Qed.
End ExtTag.

(* the tags of document nodes of f *)
Definition tag_of_doc (f : forest) (root : id) (t : tagt) : Prop :=
  exists n, desc f root n /\ t = ltag (flab f n).

Theorem gen_script_okact ign R rootR L rootL m :
  Forall (okact (tag_of_doc R rootR)) (out (gen_script ign R rootR L rootL m)).
Proof.
  unfold gen_script.
  assert (H : ext_tag (tag_of_doc R rootR) (init_state L m)
                (delete_phase rootL (fold_left (visit ign R) (bfs R (S (fnext R)) [rootR]) (init_state L m)))).
  { apply (xt_trans _ _ (fold_left (visit ign R) (bfs R (S (fnext R)) [rootR]) (init_state L m))).
    - apply (xt_fold _ (visit ign R)). intros s y Hy. apply visit_xt.
      apply bfs_desc in Hy as (a & [<-|[]] & Hd). exists y. split; [exact Hd|reflexivity].
    - unfold delete_phase. apply xt_fold. intros t n _.
      destruct (l2r t n); [apply xt_refl|]. eapply xt_one; [reflexivity|exact I]. }
  destruct H as (acts & E & HF). rewrite E. exact HF.
Qed.

(* ------------------------------------------------------------------ *)
(** * 4. The namespace prologue and the environment                      *)
(* ------------------------------------------------------------------ *)
Lemma env_get_nsmap_env lns p : env_get (nsmap_env lns) p = ns_get lns (Some p).
Proof.
  induction lns as [|[k v] r IH]; [reflexivity|].
  unfold nsmap_env in *. cbn [flat_map fst snd ns_get]. destruct k as [q|]; cbn [app env_get ostr_eqb].
  - rewrite (pp_str_eqb_sym p q). destruct (str_eqb q p); [reflexivity|exact IH].
  - exact IH.
Qed.

Section Prologue.
Variable lns : nsmap.

(* what the prologue may contain when the roots agree on the default namespace *)
Definition pro_act (a : iact) : Prop :=
  match a with
  | IInsNs (Some q) _ => ns_get lns (Some q) = None
  | IDelNs _ => True
  | _ => False
  end.

(* every binding of the left root is still in force *)
Definition left_bound (env : nsenv) : Prop :=
  forall p u, ns_get lns (Some p) = Some u -> env_get env p = Some u.

Lemma left_bound_init : left_bound (nsmap_env lns).
Proof. intros p u H. rewrite env_get_nsmap_env. exact H. Qed.

Lemma left_bound_after a env : pro_act a -> left_bound env -> left_bound (env_after a env).
Proof.
  intros Ha Hb. destruct a as [| | | | | | | | | | |[q|] v|]; cbn [pro_act env_after] in *; try contradiction.
  - intros p u Hp. cbn [env_set env_get]. destruct (str_eqb q p) eqn:E; [|apply Hb, Hp].
    apply str_eqb_true in E. subst q. congruence.
  - exact Hb.
Qed.

Lemma left_bound_pro acts : forall env, Forall pro_act acts -> left_bound env -> left_bound (pro_env env acts).
Proof.
  induction acts as [|a r IH]; intros env Ha Hb; [exact Hb|].
  inversion Ha; subst. cbn [pro_env fold_left]. apply IH; [assumption|]. apply left_bound_after; assumption.
Qed.

Lemma prologue_r_acts rns : forall ins,
  (forall v, In (None, v) rns -> ns_get lns None <> None) ->
  ns_prologue_r lns rns = Some ins -> Forall pro_act ins.
Proof.
  induction rns as [|[k v] r IH]; intros ins Hd H; cbn [ns_prologue_r] in H.
  - inversion H. constructor.
  - assert (Hd' : forall v0, In (None, v0) r -> ns_get lns None <> None)
      by (intros v0 Hv0; apply (Hd v0); right; exact Hv0).
    destruct (ns_get lns k) as [v'|] eqn:Ek.
    + destruct (str_eqb v v'); [|discriminate]. apply IH; assumption.
    + destruct (ns_prologue_r lns r) as [ins'|]; [|discriminate]. cbn [option_map] in H. inversion H; subst.
      constructor; [|apply IH; [assumption|reflexivity]].
      destruct k as [q|]; cbn [pro_act]; [exact Ek|].
      exfalso. apply (Hd v); [left; reflexivity|exact Ek].
Qed.

Lemma prologue_acts rns pro :
  (forall v, In (None, v) rns -> ns_get lns None <> None) ->
  ns_prologue lns rns = Some pro -> Forall pro_act pro.
Proof.
  intros Hd H. unfold ns_prologue in H.
  destruct (ns_prologue_r lns rns) as [ins|] eqn:E; [|discriminate]. inversion H; subst.
  apply Forall_app. split; [eapply prologue_r_acts; eauto|].
  apply Forall_forall. intros a Ha. apply in_flat_map in Ha as ([k v] & _ & Ha).
  cbn [fst] in Ha. destruct (ns_get rns k); [contradiction|]. destruct Ha as [<-|[]]. exact I.
Qed.

(* a prefix bound only by the right root is bound after the prologue *)
Lemma prologue_r_env p rns : forall ins env,
  ns_prologue_r lns rns = Some ins -> NoDup (map fst rns) -> ns_get lns (Some p) = None ->
  env_get (pro_env env ins) p = match ns_get rns (Some p) with Some u => Some u | None => env_get env p end.
Proof.
  induction rns as [|[k v] r IH]; intros ins env H Hnd Hp; cbn [ns_prologue_r] in H.
  - inversion H. reflexivity.
  - cbn [map fst] in Hnd. inversion Hnd as [|? ? Hnotin Hnd']; subst. cbn [ns_get].
    destruct (ns_get lns k) as [v'|] eqn:Ek.
    + destruct (str_eqb v v'); [|discriminate].
      assert (Hne : ostr_eqb (Some p) k = false).
      { destruct k as [q|]; [|reflexivity]. cbn [ostr_eqb]. destruct (str_eqb p q) eqn:E; [|reflexivity].
        apply str_eqb_true in E. subst q. congruence. }
      rewrite Hne. apply IH; assumption.
    + destruct (ns_prologue_r lns r) as [ins'|] eqn:Er; [|discriminate]. cbn [option_map] in H.
      inversion H; subst. cbn [pro_env fold_left]. fold (pro_env (env_after (IInsNs k v) env) ins').
      rewrite (IH ins' _ eq_refl Hnd' Hp).
      destruct k as [q|]; cbn [ostr_eqb env_after].
      * destruct (str_eqb p q) eqn:E.
        -- apply str_eqb_true in E. subst q.
           assert (Hr : ns_get r (Some p) = None).
           { clear - Hnotin. induction r as [|[k0 v0] r IH]; [reflexivity|]. cbn [ns_get].
             destruct (ostr_eqb (Some p) k0) eqn:E.
             - exfalso. apply Hnotin. left. destruct k0 as [q|]; [|discriminate]. cbn in E.
               apply str_eqb_true in E. subst. reflexivity.
             - apply IH. intros H. apply Hnotin. right. exact H. }
           rewrite Hr. cbn [env_set env_get]. rewrite str_eqb_refl. reflexivity.
        -- destruct (ns_get r (Some p)); [reflexivity|]. cbn [env_set env_get].
           rewrite (pp_str_eqb_sym q p), E. reflexivity.
      * reflexivity.
Qed.

Lemma pro_env_dels env (l : list (option str)) (g : option str -> list iact) :
  (forall k a, In a (g k) -> exists k', a = IDelNs k') -> pro_env env (flat_map g l) = env.
Proof.
  intros Hg. induction l as [|k l IH]; [reflexivity|]. cbn [flat_map]. rewrite pro_env_app.
  assert (E : pro_env env (g k) = env).
  { specialize (Hg k). induction (g k) as [|a r IHr]; [reflexivity|]. cbn [pro_env fold_left].
    destruct (Hg a (or_introl eq_refl)) as [k' ->]. cbn [env_after]. apply IHr.
    intros a' Ha'. apply Hg. right. exact Ha'. }
  rewrite E. exact IH.
Qed.

Lemma prologue_env p u rns pro env :
  ns_prologue lns rns = Some pro -> NoDup (map fst rns) ->
  ns_get lns (Some p) = None -> ns_get rns (Some p) = Some u ->
  env_get (pro_env env pro) p = Some u.
Proof.
  intros H Hnd Hp Hr. unfold ns_prologue in H.
  destruct (ns_prologue_r lns rns) as [ins|] eqn:E; [|discriminate]. inversion H; subst.
  rewrite pro_env_app.
  replace (flat_map (fun kv : option str * str => match ns_get rns (fst kv) with
                                                   | Some _ => []
                                                   | None => [IDelNs (fst kv)]
                                                   end) lns)
    with (flat_map (fun k => match ns_get rns k with Some _ => [] | None => [IDelNs k] end) (map fst lns))
    by (rewrite flat_map_concat_map, map_map, <- flat_map_concat_map; reflexivity).
  rewrite pro_env_dels.
  - rewrite (prologue_r_env p rns ins env E Hnd Hp), Hr. reflexivity.
  - intros k a Ha. destruct (ns_get rns k); [contradiction|]. destruct Ha as [<-|[]]. eauto.
Qed.

(* script_ok along the prologue: the tree is unchanged, the left root's bindings stay *)
Lemma script_ok_pro pe root f : names_ok pe f root ->
  (forall env, left_bound env -> env_agrees pe env f root) ->
  forall pro env, Forall pro_act pro -> left_bound env -> script_ok pe root env f pro.
Proof.
  intros Hnm Hag. induction pro as [|a r IH]; intros env Ha Hb; [exact I|].
  inversion Ha as [|? ? Ha1 Har]; subst. cbn [script_ok].
  split; [apply Hag, Hb|]. split; [exact Hnm|].
  split; [destruct a as [| | | | | | | | | | |[q|] v|]; cbn in Ha1 |- *; try contradiction; exact I|].
  assert (E : spec_apply root f a = Some f)
    by (destruct a as [| | | | | | | | | | |[q|] v|]; cbn in Ha1 |- *; try contradiction; reflexivity).
  rewrite E. apply IH; [exact Har|]. apply left_bound_after; assumption.
Qed.
End Prologue.

(* ------------------------------------------------------------------ *)
(** * 5. The premise on the inputs                                       *)
(* ------------------------------------------------------------------ *)
Definition uri_ok_left (pe : penv) (lns : nsmap) (t : tagt) : Prop :=
  forall name u l p, t = TElem name -> unclark name = (Some u, l) -> pe u = Some p ->
                     ns_get lns (Some p) = Some u.
Definition uri_ok_right (pe : penv) (lns rns : nsmap) (t : tagt) : Prop :=
  forall name u l p, t = TElem name -> unclark name = (Some u, l) -> pe u = Some p ->
                     ns_get lns (Some p) = Some u \/
                     (ns_get lns (Some p) = None /\ ns_get rns (Some p) = Some u).

Definition ns_decl_ok (pe : penv) (lns rns : nsmap) (L : forest) (rootL : id) (R : forest) (rootR : id) : Prop :=
  NoDup (map fst rns) /\
  (forall v, In (None, v) rns -> ns_get lns None <> None) /\
  (forall n, In n (doc_nodes L rootL) -> uri_ok_left pe lns (ltag (flab L n))) /\
  (forall n, In n (doc_nodes R rootR) -> uri_ok_right pe lns rns (ltag (flab R n))).

Definition doc_names_ok (pe : penv) (f : forest) (root : id) : Prop := names_ok pe f root.
Definition doc_names_okb (pe : penv) (f : forest) (root : id) : bool := names_okb pe f root.
Lemma doc_names_okb_iff pe f root : doc_names_okb pe f root = true <-> doc_names_ok pe f root.
Proof. apply names_okb_iff. Qed.

(* boolean versions *)
Definition bound_to (m : nsmap) (p u : str) : bool :=
  match ns_get m (Some p) with Some u' => str_eqb u' u | None => false end.
Definition uri_ok_leftb (pe : penv) (lns : nsmap) (t : tagt) : bool :=
  match t with
  | TComment => true
  | TElem name => match unclark name with
                  | (Some u, _) => match pe u with Some p => bound_to lns p u | None => true end
                  | (None, _) => true
                  end
  end.
Definition uri_ok_rightb (pe : penv) (lns rns : nsmap) (t : tagt) : bool :=
  match t with
  | TComment => true
  | TElem name =>
      match unclark name with
      | (Some u, _) =>
          match pe u with
          | Some p => match ns_get lns (Some p) with
                      | Some u' => str_eqb u' u
                      | None => bound_to rns p u
                      end
          | None => true
          end
      | (None, _) => true
      end
  end.
Definition ns_decl_okb (pe : penv) (lns rns : nsmap) (L : forest) (rootL : id) (R : forest) (rootR : id) : bool :=
  nodupb ostr_eqb (map fst rns)
  && forallb (fun kv => match fst kv with
                        | None => match ns_get lns None with Some _ => true | None => false end
                        | Some _ => true
                        end) rns
  && forallb (fun n => uri_ok_leftb pe lns (ltag (flab L n))) (doc_nodes L rootL)
  && forallb (fun n => uri_ok_rightb pe lns rns (ltag (flab R n))) (doc_nodes R rootR).

Lemma bound_to_true m p u : bound_to m p u = true -> ns_get m (Some p) = Some u.
Proof.
  unfold bound_to. destruct (ns_get m (Some p)) as [u'|]; [|discriminate].
  intros H. apply str_eqb_true in H. subst. reflexivity.
Qed.

Lemma uri_ok_leftb_sound pe lns t : uri_ok_leftb pe lns t = true -> uri_ok_left pe lns t.
Proof.
  intros H name u l p -> Eu Ep. cbn [uri_ok_leftb] in H. rewrite Eu, Ep in H. apply bound_to_true, H.
Qed.

Lemma uri_ok_rightb_sound pe lns rns t : uri_ok_rightb pe lns rns t = true -> uri_ok_right pe lns rns t.
Proof.
  intros H name u l p -> Eu Ep. cbn [uri_ok_rightb] in H. rewrite Eu, Ep in H.
  destruct (ns_get lns (Some p)) as [u'|].
  - left. apply str_eqb_true in H. subst. reflexivity.
  - right. split; [reflexivity|]. apply bound_to_true, H.
Qed.

Lemma ostr_eqb_refl (a : option str) : ostr_eqb a a = true.
Proof. destruct a; [apply str_eqb_refl|reflexivity]. Qed.

Theorem ns_decl_okb_sound pe lns rns L rootL R rootR :
  ns_decl_okb pe lns rns L rootL R rootR = true -> ns_decl_ok pe lns rns L rootL R rootR.
Proof.
  unfold ns_decl_okb. intros H.
  apply andb_true_iff in H as [H H4]. apply andb_true_iff in H as [H H3]. apply andb_true_iff in H as [H1 H2].
  rewrite forallb_forall in H2, H3, H4.
  split; [apply (nodupb_sound ostr_eqb); [intros a b ->; apply ostr_eqb_refl|exact H1]|].
  split.
  { intros v Hv. specialize (H2 _ Hv). cbn [fst] in H2. destruct (ns_get lns None); [discriminate|discriminate]. }
  split; [intros n Hn; apply uri_ok_leftb_sound, H3, Hn|intros n Hn; apply uri_ok_rightb_sound, H4, Hn].
Qed.

(* ------------------------------------------------------------------ *)
(** * 6. The differ's scripts satisfy script_ok                          *)
(* ------------------------------------------------------------------ *)
Theorem differ_script_ok pe ignored L R rootL rootR lns rns m pro :
  wf_forest L rootL -> wf_forest R rootR ->
  ns_prologue lns rns = Some pro ->
  ns_decl_ok pe lns rns L rootL R rootR ->
  doc_names_ok pe L rootL -> doc_names_ok pe R rootR ->
  script_ok pe rootL (nsmap_env lns) L (pro ++ out (gen_script ignored R rootR L rootL m)).
Proof.
  intros HwfL HwfR Hpro (Hnd & Hdef & HdL & HdR) HnL HnR.
  pose proof (prologue_acts lns rns pro Hdef Hpro) as Hacts.
  assert (HagL : forall env, left_bound lns env -> env_agrees pe env L rootL).
  { intros env Hb n Hn name u l p Et Eu Ep. apply Hb. eapply HdL; eauto. }
  apply script_ok_app.
  - apply (script_ok_pro lns pe rootL L HnL HagL pro _ Hacts (left_bound_init lns)).
  - intros f' Hrun.
    rewrite (run_spec_ns rootL L pro (ns_prologue_all_ns lns rns pro Hpro)) in Hrun.
    inversion Hrun; subst f'. clear Hrun.
    set (P := fun t => tag_of_doc L rootL t \/ tag_of_doc R rootR t).
    apply (script_ok_body pe rootL _ P).
    + pose proof (left_bound_pro lns pro _ Hacts (left_bound_init lns)) as Hb.
      intros t [(n & Hn & ->)|(n & Hn & ->)].
      * apply (doc_nodes_iff L rootL n HwfL) in Hn. split; [apply (HagL _ Hb n Hn)|apply HnL, Hn].
      * apply (doc_nodes_iff R rootR n HwfR) in Hn. split; [|apply HnR, Hn].
        intros name u l p Et Eu Ep. destruct (HdR n Hn name u l p Et Eu Ep) as [H|[H1 H2]].
        -- apply Hb, H.
        -- eapply prologue_env; eauto.
    + exact HwfL.
    + intros n Hn. left. exists n. split; [exact Hn|reflexivity].
    + eapply Forall_impl; [|apply gen_script_okact]. intros a. apply okact_mono. intros t Ht. right. exact Ht.
Qed.

(* ------------------------------------------------------------------ *)
(** * 7. The sentence of the property, spelled out                       *)
(* ------------------------------------------------------------------ *)
Definition path_prefixes (p : path) : list str :=
  flat_map (fun s => match st_test s with NName (Some q) _ => [q] | _ => [] end) p.

(* the nodes an action names by a path *)
Definition act_nodes (a : iact) : list id :=
  match a with
  | IInsert t _ _ _ | IInsertComment t _ _ _ => [t]
  | IMove n t _ => [n; t]
  | IDelete n | IRename n _ | IText n _ | ITail n _
  | IUpdAttr n _ _ | IInsAttr n _ _ | IDelAttr n _ | IRenAttr n _ _ => [n]
  | IInsNs _ _ | IDelNs _ => []
  end.

Lemma spec_apply_nodes_alive root f a f' :
  spec_apply root f a = Some f' -> forall n, In n (act_nodes a) -> alive f root n = true.
Proof.
  intros Hs n Hn.
  destruct a as [t tag pos x|t pos txt x|c t pos|c|c tag|c txt|c txt|c k v|c k v|c k|c k k'|p u|p];
    cbn [spec_apply act_nodes] in *.
  - destruct (alive f root t) eqn:A; [|discriminate]. destruct Hn as [<-|[]]. exact A.
  - destruct (alive f root t) eqn:A; [|discriminate]. destruct Hn as [<-|[]]. exact A.
  - destruct (alive f root c) eqn:A; [|discriminate]. cbn [andb] in Hs.
    destruct (negb (Nat.eqb c root)); [|discriminate]. cbn [andb] in Hs.
    destruct (alive f root t) eqn:B; [|discriminate].
    destruct Hn as [<-|[<-|[]]]; assumption.
  - destruct (alive f root c) eqn:A; [|discriminate]. destruct Hn as [<-|[]]. exact A.
  - destruct (alive f root c) eqn:A; [|discriminate]. destruct Hn as [<-|[]]. exact A.
  - destruct (alive f root c) eqn:A; [|discriminate]. destruct Hn as [<-|[]]. exact A.
  - destruct (alive f root c) eqn:A; [|discriminate]. destruct Hn as [<-|[]]. exact A.
  - cbv zeta in Hs. destruct (alive f root c) eqn:A; [|discriminate]. destruct Hn as [<-|[]]. exact A.
  - cbv zeta in Hs. destruct (alive f root c) eqn:A; [|discriminate]. destruct Hn as [<-|[]]. exact A.
  - cbv zeta in Hs. destruct (alive f root c) eqn:A; [|discriminate]. destruct Hn as [<-|[]]. exact A.
  - cbv zeta in Hs. destruct (aget (lattrs (labof f c)) k); [|discriminate].
    destruct (alive f root c) eqn:A; [|discriminate]. destruct Hn as [<-|[]]. exact A.
  - contradiction.
  - contradiction.
Qed.

Lemma chain_steps_tests pe f root l b : pathto f root l b ->
  forall s, In s (chain_steps f pe l) ->
  exists c, desc f root c /\ st_test s = test_of pe (ltag (labof f c)).
Proof.
  induction 1 as [|l b c Hp IH Hin]; intros s Hs.
  - cbn [chain_steps] in Hs. destruct Hs as [<-|[]]. exists root. split; [constructor|reflexivity].
  - destruct (path_head _ _ _ _ Hp) as [l' ->].
    change (chain_steps f pe (c :: b :: l')) with (chain_steps f pe (b :: l') ++ [step_of f pe c (kidsof f b)]) in Hs.
    apply in_app_or in Hs as [Hs|[<-|[]]]; [apply IH, Hs|].
    exists c. split; [|reflexivity]. eapply desc_step; [|exact Hin].
    eapply path_desc; [exact Hp|left; reflexivity].
Qed.

Lemma getpath_tests pe f root n s :
  wf_forest f root -> desc f root n -> In s (getpath pe f root n) ->
  exists c, desc f root c /\ st_test s = test_of pe (ltag (labof f c)).
Proof.
  intros Hwf Hn Hs.
  destruct (getpath_shape pe f root n Hwf Hn) as [[-> E]|(l' & b & Hp & Hin & E)]; rewrite E in Hs.
  - destruct Hs as [<-|[]]. exists root. split; [constructor|reflexivity].
  - apply in_app_or in Hs as [Hs|[<-|[]]]; [eapply chain_steps_tests; eauto|].
    exists n. split; [exact Hn|reflexivity].
Qed.

Lemma test_of_prefix pe t q l :
  test_of pe t = NName (Some q) l ->
  exists name u, t = TElem name /\ unclark name = (Some u, l) /\ pe u = Some q.
Proof.
  destruct t as [name|]; [|discriminate]. unfold test_of.
  destruct (unclark name) as [[u|] l0] eqn:Eu; [|discriminate].
  destruct (pe u) as [p|] eqn:Ep; [|discriminate].
  intros H. inversion H; subst. eauto.
Qed.

Lemma getpath_prefixes_bound pe env f root n :
  wf_forest f root -> env_agrees pe env f root -> desc f root n ->
  forall q, In q (path_prefixes (getpath pe f root n)) -> exists u, env_get env q = Some u.
Proof.
  intros Hwf He Hn q Hq. unfold path_prefixes in Hq. apply in_flat_map in Hq as (s & Hs & Hq).
  destruct (getpath_tests pe f root n s Hwf Hn Hs) as (c & Hc & Et). rewrite Et in Hq.
  destruct (test_of pe (ltag (labof f c))) as [[q'|] l| |] eqn:E; try contradiction.
  destruct Hq as [<-|[]].
  destruct (test_of_prefix pe _ q' l E) as (name & u & E1 & E2 & E3).
  exists u. eapply He; eauto. apply doc_nodes_iff; assumption.
Qed.

(* a binding of the environment after some actions was there before, or was
   made by one of the InsertNamespace actions *)
Lemma pro_env_get_inv acts : forall env q u,
  env_get (pro_env env acts) q = Some u ->
  env_get env q = Some u \/ In (IInsNs (Some q) u) acts.
Proof.
  induction acts as [|a r IH]; intros env q u H; [left; exact H|].
  cbn [pro_env fold_left] in H. apply IH in H as [H|H]; [|right; right; exact H].
  destruct a as [| | | | | | | | | | |[p|] v|]; cbn [env_after] in H; try (left; exact H).
  cbn [env_set env_get] in H. destruct (str_eqb p q) eqn:E; [|left; exact H].
  apply str_eqb_true in E. subst p. inversion H; subst. right. left. reflexivity.
Qed.

Lemma nth_error_firstn_split {A} (l : list A) i a :
  nth_error l i = Some a -> l = firstn i l ++ a :: skipn (S i) l.
Proof.
  revert i. induction l as [|x l IH]; intros [|i] H; cbn in H; try discriminate.
  - inversion H; subst. reflexivity.
  - cbn [firstn skipn app]. f_equal. apply IH. exact H.
Qed.

Lemma run_spec_wf root sc : forall f T,
  wf_forest f root -> run_spec root f sc = Some T -> wf_forest T root.
Proof.
  induction sc as [|x sc IH]; intros f T Hwf H; cbn [run_spec] in H.
  - inversion H; subst. exact Hwf.
  - destruct (spec_apply root f x) as [f1|] eqn:E; [|discriminate].
    apply (IH f1); [eapply spec_apply_wf; eauto|exact H].
Qed.

Theorem prefixes_bound pe ignored L R rootL rootR lns rns m pro :
  wf_forest L rootL -> wf_forest R rootR -> valid_matching L R rootL rootR m ->
  ns_prologue lns rns = Some pro ->
  ns_decl_ok pe lns rns L rootL R rootR ->
  doc_names_ok pe L rootL -> doc_names_ok pe R rootR ->
  let script := pro ++ out (gen_script ignored R rootR L rootL m) in
  forall i a, nth_error script i = Some a ->
  exists T,
    (* the tree at the moment the action is to be applied *)
    run_spec rootL L (firstn i script) = Some T /\
    forall n, In n (act_nodes a) ->
      let p := getpath pe T rootL n in
      let env := pro_env (nsmap_env lns) (firstn i script) in
      (* the path selects exactly the node, which exists; the last step is indexed *)
      In n (doc_nodes T rootL) /\ eval_all env T rootL p = Some [n] /\ last_indexed p = true /\
      (* the printed path parses back *)
      path_of_str (path_to_str p) = Some p /\
      (* every prefix is bound on the left root or by an earlier InsertNamespace *)
      forall q, In q (path_prefixes p) ->
        exists u, ns_get lns (Some q) = Some u \/ In (IInsNs (Some q) u) (firstn i script).
Proof.
  intros HwfL HwfR Hvm Hpro Hdecl HnL HnR script i a Hnth.
  pose proof (differ_script_ok pe ignored L R rootL rootR lns rns m pro HwfL HwfR Hpro Hdecl HnL HnR) as Hok.
  fold script in Hok.
  assert (Hrun : run_spec rootL L script = Some (W (gen_script ignored R rootR L rootL m))).
  { destruct (gen_script_replay ignored L R rootL rootR m HwfL HwfR Hvm) as (_ & H2 & _).
    unfold script. rewrite run_spec_app, (run_spec_ns rootL L pro (ns_prologue_all_ns lns rns pro Hpro)).
    exact H2. }
  rewrite (nth_error_firstn_split script i a Hnth) in Hrun.
  apply run_spec_split in Hrun as (T & T' & Hpre & Hap & _).
  exists T. split; [exact Hpre|]. intros n Hn p env.
  destruct (script_ok_at pe rootL script i _ L a T Hok Hnth Hpre) as (He & Hnm & _).
  fold env in He.
  pose proof (run_spec_wf rootL _ L T HwfL Hpre) as HwfT.
  pose proof (spec_apply_nodes_alive rootL T a T' Hap n Hn) as Hal.
  assert (Hin : In n (doc_nodes T rootL)) by (unfold alive in Hal; apply mem_In; exact Hal).
  destruct (getpath_unique pe env T rootL n HwfT Hin He) as [E1 E2].
  split; [exact Hin|]. split; [exact E1|]. split; [exact E2|].
  split; [apply path_roundtrip; assumption|].
  intros q Hq.
  destruct (getpath_prefixes_bound pe env T rootL n HwfT He (proj1 (doc_nodes_iff T rootL n HwfT) Hin) q Hq)
    as [u Hu].
  exists u. unfold env in Hu. apply pro_env_get_inv in Hu as [Hu|Hu]; [left|right; exact Hu].
  rewrite env_get_nsmap_env in Hu. exact Hu.
Qed.

(* ------------------------------------------------------------------ *)
(** * 8. diff, render, patch: the right document, unconditionally        *)
(* ------------------------------------------------------------------ *)
Theorem roundtrip_unconditional
  (sim : Type) (sim_ltb sim_leb : sim -> sim -> bool) (sim_is_one : sim -> bool)
  (zero one : sim) (leaf_sim : str -> str -> sim) (combine : sim -> nat -> nat -> sim)
  (o : mopts sim) (L R : forest) (rootL rootR : id) (lns rns : nsmap) (pe : penv) :
  sim_leb (oF sim o) zero = false -> sim_is_one zero = false ->
  wf_forest L rootL -> wf_forest R rootR ->
  ns_prologue lns rns <> None ->
  ns_decl_ok pe lns rns L rootL R rootR ->
  doc_names_ok pe L rootL -> doc_names_ok pe R rootR ->
  exists script W gs T',
    diff_model sim sim_ltb sim_leb sim_is_one zero one leaf_sim combine o L R rootL rootR lns rns
      = Some (script, W)
    /\ script_ok pe rootL (nsmap_env lns) L script
    /\ render_script pe rootL L script = Some gs
    /\ patch actions_sig true rootL patcher_progs L lns gs = POk T'
    /\ forest_ext_eq T' W
    /\ tree_equivb (tree_map_attrs (node_attribs_d (oignored sim o)) (to_tree (S (fnext T')) T' rootL))
                   (tree_map_attrs (node_attribs_d (oignored sim o)) (to_tree (S (fnext R)) R rootR)) = true.
Proof.
  intros HF H1 HL HR Hns Hdecl HnL HnR.
  destruct (diff_model_shape sim sim_ltb sim_leb sim_is_one zero one leaf_sim combine
              o L R rootL rootR lns rns (conj HF H1) HL HR Hns) as (m & pro & Hm & Hvm & Epro & Hpro & Hd).
  cbv zeta in Hd.
  destruct (gen_script_replay (oignored sim o) L R rootL rootR m HL HR Hvm) as (_ & H2 & H3).
  set (s := gen_script (oignored sim o) R rootR L rootL m) in *.
  assert (E2 : run_spec rootL L (pro ++ out s) = Some (W s))
    by (rewrite run_spec_app, (run_spec_ns rootL L pro Hpro); exact H2).
  pose proof (differ_script_ok pe (oignored sim o) L R rootL rootR lns rns m pro HL HR Epro Hdecl HnL HnR) as Hok.
  fold s in Hok.
  destruct (render_script_total pe rootL (pro ++ out s) L (W s) E2) as [gs Hgs].
  destruct (patch_replays_script pe rootL L lns (pro ++ out s) (W s) gs HL E2 Hgs Hok) as (T' & P1 & P2).
  exists (pro ++ out s), (W s), gs, T'. repeat (split; [assumption|]).
  exact (doc_equiv_ext (oignored sim o) T' (W s) rootL R rootR P2 H3).
Qed.
