(* XmlFmtProofsE -- C10, attributes: the diff:*-attr annotations let rejection restore the old
   attribute names and values (the value of a deleted attribute excepted).

   Part 1: the annotation strings ("a;b", "old:new;..", "name:oldvalue;..") parse back to the lists
           the handlers appended, for names without ';' ':' '{' '}' and values without ';' '{' '}';
   Part 2: the four undo stages of Projections.old_attrs as maps ([aget]): keys that a stage does not
           mention are untouched, and stages respect agreement outside a set of keys;
   Part 3: [attr_step]: each attribute handler, on a node where the names it touches are fresh for the
           node's annotations, leaves the rejected attributes unchanged up to WILD ([wmap]).
   No axioms. *)
From Coq Require Import List NArith ZArith Bool Arith Lia.
Import ListNotations.
Require Import XV.Str XV.StrProofs XV.Json XV.TextFormat XV.Forest XV.Matcher XV.Differ XV.Path XV.WF XV.AttrProofs XV.XmlFmt XV.Projections
               XV.XmlFmtProofs1 XV.XmlFmtProofs4.
Require XV.Placeholder.
Local Open Scope N_scope.

(* ------------------------------------------------------------------ *)
(** * Part 1: parsing *)

Definition vchar (c : N) : Prop := c <> 59 /\ c <> 123 /\ c <> 125.       (* not ; { } *)
Definition nchar (c : N) : Prop := vchar c /\ c <> 58.                     (* and not : *)
Definition vsimple (s : str) : Prop := Forall vchar s.
Definition simple (s : str) : Prop := Forall nchar s.

Lemma simple_vsimple s : simple s -> vsimple s.
Proof. intros H. eapply Forall_impl; [|exact H]. intros c [Hc _]. exact Hc. Qed.

Lemma split_names_run x : vsimple x -> forall r cur,
  split_names (x ++ r) cur 0 = split_names r (rev x ++ cur) 0.
Proof.
  induction 1 as [|c x (H1 & H2 & H3) _ IH]; intros r cur; cbn [app rev]; [reflexivity|].
  cbn [split_names]. destruct (N.eqb_spec c 59); [contradiction|]. cbn [andb].
  destruct (N.eqb_spec c 123); [contradiction|]. destruct (N.eqb_spec c 125); [contradiction|].
  rewrite IH, <- app_assoc. reflexivity.
Qed.

Lemma split_names_one x : vsimple x -> split_names x [] 0 = [x].
Proof.
  intros H. rewrite <- (app_nil_r x) at 1. rewrite split_names_run by exact H. cbn [split_names].
  now rewrite app_nil_r, rev_involutive.
Qed.

Lemma split_names_sep r cur : split_names (59 :: r) cur 0 = rev cur :: split_names r [] 0.
Proof. reflexivity. Qed.
Lemma split_colon_sep r cur : split_colon (58 :: r) cur 0 = Some (rev cur, r).
Proof. reflexivity. Qed.

Lemma split_names_join xs : Forall vsimple xs -> xs <> [] -> split_names (join [59] xs) [] 0 = xs.
Proof.
  induction 1 as [|x xs Hx Hxs IH]; intros Hne; [congruence|].
  destruct xs as [|y ys]; [apply split_names_one, Hx|].
  rewrite join_cons2. rewrite split_names_run by exact Hx. cbn [app]. rewrite split_names_sep, app_nil_r, rev_involutive.
  f_equal. apply IH. discriminate.
Qed.

Definition jopt (xs : list str) : option str := match xs with [] => None | _ => Some (join [59] xs) end.

Lemma names_of_jopt xs : Forall vsimple xs -> names_of (jopt xs) = xs.
Proof.
  intros H. destruct xs as [|x xs]; [reflexivity|]. unfold jopt, names_of. apply split_names_join; [exact H|discriminate].
Qed.

Lemma split_colon_run k : simple k -> forall r cur,
  split_colon (k ++ r) cur 0 = split_colon r (rev k ++ cur) 0.
Proof.
  induction 1 as [|c k ((H1 & H2 & H3) & H4) _ IH]; intros r cur; cbn [app rev]; [reflexivity|].
  cbn [split_colon]. destruct (N.eqb_spec c 58); [contradiction|]. cbn [andb].
  destruct (N.eqb_spec c 123); [contradiction|]. destruct (N.eqb_spec c 125); [contradiction|].
  rewrite IH, <- app_assoc. reflexivity.
Qed.

Lemma split_colon_pair k v : simple k -> split_colon (k ++ 58 :: v) [] 0 = Some (k, v).
Proof.
  intros H. rewrite split_colon_run by exact H. rewrite split_colon_sep. now rewrite app_nil_r, rev_involutive.
Qed.

Definition pitem (kv : str * str) : str := fst kv ++ 58 :: snd kv.

Lemma pairs_of_jopt ps : Forall (fun kv => simple (fst kv) /\ vsimple (snd kv)) ps ->
  pairs_of (jopt (map pitem ps)) = ps.
Proof.
  intros H. unfold pairs_of. rewrite names_of_jopt.
  - induction H as [|[k v] ps [Hk Hv] _ IH]; [reflexivity|]. cbn [map flat_map]. cbv beta.
    unfold pitem at 1. cbn [fst snd] in *. rewrite (split_colon_pair k v Hk). cbn [app]. f_equal. exact IH.
  - apply Forall_map. eapply Forall_impl; [|exact H]. intros [k v] [Hk Hv]. unfold pitem. cbn [fst snd].
    apply Forall_app. split; [apply simple_vsimple, Hk|]. constructor; [repeat split; discriminate|exact Hv].
Qed.

Lemma jopt_snoc xs x : jopt (xs ++ [x]) = Some (match jopt xs with Some old => old ++ 59 :: x | None => x end).
Proof.
  destruct xs as [|y ys]; [reflexivity|]. cbn [jopt app]. destruct (ys ++ [x]) eqn:E; [destruct ys; discriminate|].
  rewrite <- E. clear E. f_equal. revert y. induction ys as [|z ys IH]; intros y; [reflexivity|].
  cbn [app]. rewrite !join_cons2. cbn [app] in IH. rewrite IH. rewrite <- !app_assoc. reflexivity.
Qed.

(* ------------------------------------------------------------------ *)
(** * Part 2: the undo stages as maps *)

Definition attrs := list (str * str).
Definition stD (D : list str) (P : attrs) : attrs := fold_left (fun acc k => aput acc k WILD) D P.
Definition stA (A : list str) (P : attrs) : attrs := fold_left adel A P.
Definition stR (Rn : list (str * str)) (P : attrs) : attrs := fold_left rename_back (rev Rn) P.
Definition stU (U : list (str * str)) (P : attrs) : attrs :=
  fold_left (fun acc kv => aput acc (fst kv) (snd kv)) (rev U) P.
Definition undo (P : attrs) (D A : list str) (Rn U : list (str * str)) : attrs :=
  stU U (stR Rn (stA A (stD D P))).

Lemma old_attrs_undo a :
  old_attrs a = undo (plain_attrs a) (names_of (aget a (dn l_delete_attr))) (names_of (aget a (dn l_add_attr)))
                     (pairs_of (aget a (dn l_rename_attr))) (pairs_of (aget a (dn l_update_attr))).
Proof. reflexivity. Qed.

Definition agree_out (S : list str) (a b : attrs) : Prop := forall x, ~ In x S -> aget a x = aget b x.

Lemma agree_aput S a b k v : agree_out S a b -> agree_out S (aput a k v) (aput b k v).
Proof. intros H x Hx. rewrite !aget_aput. destruct (str_eqb k x); [reflexivity|apply H, Hx]. Qed.
Lemma agree_adel S a b k : agree_out S a b -> agree_out S (adel a k) (adel b k).
Proof. intros H x Hx. rewrite !aget_adel. destruct (str_eqb k x); [reflexivity|apply H, Hx]. Qed.
Lemma agree_rename_back S a b on : agree_out S a b -> ~ In (snd on) S ->
  agree_out S (rename_back a on) (rename_back b on).
Proof.
  intros H Hn. unfold rename_back. rewrite (H _ Hn). destruct (aget b (snd on)); [|exact H].
  apply agree_aput, agree_adel, H.
Qed.

Lemma agree_stD S D : forall a b, agree_out S a b -> agree_out S (stD D a) (stD D b).
Proof. unfold stD. induction D as [|k D IH]; intros a b H; [exact H|]. cbn [fold_left]. apply IH, agree_aput, H. Qed.
Lemma agree_stA S A : forall a b, agree_out S a b -> agree_out S (stA A a) (stA A b).
Proof. unfold stA. induction A as [|k A IH]; intros a b H; [exact H|]. cbn [fold_left]. apply IH, agree_adel, H. Qed.
Lemma agree_fold_rb S l : (forall on, In on l -> ~ In (snd on) S) -> forall a b,
  agree_out S a b -> agree_out S (fold_left rename_back l a) (fold_left rename_back l b).
Proof.
  induction l as [|on l IH]; intros Hl a b H; [exact H|]. cbn [fold_left].
  apply IH; [intros o Ho; apply Hl; now right|]. apply agree_rename_back; [exact H|apply Hl; now left].
Qed.
Lemma agree_stR S Rn : (forall on, In on Rn -> ~ In (snd on) S) -> forall a b,
  agree_out S a b -> agree_out S (stR Rn a) (stR Rn b).
Proof. intros H. unfold stR. apply agree_fold_rb. intros on Hin. apply H. now apply in_rev. Qed.
Lemma agree_fold_put S l : forall a b, agree_out S a b ->
  agree_out S (fold_left (fun acc kv => aput acc (fst kv) (snd kv)) l a) (fold_left (fun acc kv => aput acc (fst kv) (snd kv)) l b).
Proof. induction l as [|kv l IH]; intros a b H; [exact H|]. cbn [fold_left]. apply IH, agree_aput, H. Qed.
Lemma agree_stU S U a b : agree_out S a b -> agree_out S (stU U a) (stU U b).
Proof. apply agree_fold_put. Qed.

(* a key that a stage does not mention is untouched *)
Lemma at_stD D k : ~ In k D -> forall P, aget (stD D P) k = aget P k.
Proof.
  unfold stD. induction D as [|d D IH]; intros Hn P; [reflexivity|]. cbn [fold_left].
  rewrite IH by (intros H; apply Hn; now right). rewrite aget_aput. destruct (str_eqb_spec d k) as [->|_]; [|reflexivity].
  exfalso. apply Hn. now left.
Qed.
Lemma at_stA A k : ~ In k A -> forall P, aget (stA A P) k = aget P k.
Proof.
  unfold stA. induction A as [|d A IH]; intros Hn P; [reflexivity|]. cbn [fold_left].
  rewrite IH by (intros H; apply Hn; now right). rewrite aget_adel. destruct (str_eqb_spec d k) as [->|_]; [|reflexivity].
  exfalso. apply Hn. now left.
Qed.
Lemma at_rename_back P on k : k <> fst on -> k <> snd on -> aget (rename_back P on) k = aget P k.
Proof.
  intros H1 H2. unfold rename_back. destruct (aget P (snd on)); [|reflexivity].
  rewrite aget_aput, aget_adel. destruct (str_eqb_spec (fst on) k); [congruence|]. destruct (str_eqb_spec (snd on) k); [congruence|reflexivity].
Qed.
Lemma at_fold_rb l k : (forall on, In on l -> k <> fst on /\ k <> snd on) -> forall P,
  aget (fold_left rename_back l P) k = aget P k.
Proof.
  induction l as [|on l IH]; intros Hl P; [reflexivity|]. cbn [fold_left].
  rewrite IH by (intros o Ho; apply Hl; now right). destruct (Hl on (or_introl eq_refl)). now apply at_rename_back.
Qed.
Lemma at_stR Rn k : (forall on, In on Rn -> k <> fst on /\ k <> snd on) -> forall P, aget (stR Rn P) k = aget P k.
Proof. intros H P. unfold stR. apply at_fold_rb. intros on Hin. apply H. now apply in_rev. Qed.
Lemma at_fold_put l k : ~ In k (map fst l) -> forall P,
  aget (fold_left (fun acc kv => aput acc (fst kv) (snd kv)) l P) k = aget P k.
Proof.
  induction l as [|kv l IH]; intros Hn P; [reflexivity|]. cbn [fold_left map] in *.
  rewrite IH by (intros H; apply Hn; now right). rewrite aget_aput. destruct (str_eqb_spec (fst kv) k) as [E|_]; [|reflexivity].
  exfalso. apply Hn. now left.
Qed.
Lemma at_stU U k : ~ In k (map fst U) -> forall P, aget (stU U P) k = aget P k.
Proof. intros H P. unfold stU. apply at_fold_put. rewrite map_rev. intros Hin. apply H. now apply in_rev. Qed.

(* the stages keep attribute names distinct *)
Lemma nodup_stD D : forall P, NoDup (map fst P) -> NoDup (map fst (stD D P)).
Proof. unfold stD. induction D as [|d D IH]; intros P H; [exact H|]. cbn [fold_left]. apply IH, aput_NoDup, H. Qed.
Lemma nodup_stA A : forall P, NoDup (map fst P) -> NoDup (map fst (stA A P)).
Proof. unfold stA. induction A as [|d A IH]; intros P H; [exact H|]. cbn [fold_left]. apply IH, adel_NoDup, H. Qed.
Lemma nodup_fold_rb l : forall P, NoDup (map fst P) -> NoDup (map fst (fold_left rename_back l P)).
Proof.
  induction l as [|on l IH]; intros P H; [exact H|]. cbn [fold_left]. apply IH. unfold rename_back.
  destruct (aget P (snd on)); [apply aput_NoDup, adel_NoDup, H|exact H].
Qed.
Lemma nodup_fold_put l : forall P, NoDup (map fst P) ->
  NoDup (map fst (fold_left (fun acc kv => aput acc (fst kv) (snd kv)) l P)).
Proof. induction l as [|kv l IH]; intros P H; [exact H|]. cbn [fold_left]. apply IH, aput_NoDup, H. Qed.
Lemma nodup_undo P D A Rn U : NoDup (map fst P) -> NoDup (map fst (undo P D A Rn U)).
Proof. intros H. unfold undo, stU, stR. apply nodup_fold_put, nodup_fold_rb, nodup_stA, nodup_stD, H. Qed.

(* ------------------------------------------------------------------ *)
(** * Part 3: the attribute handlers, as seen by rejection *)

(* rejected attributes: equal as maps, except that WILD on the left stands for any value *)
Definition wmap (a b : attrs) : Prop :=
  forall x, match aget a x, aget b x with
            | Some v, Some v' => v = WILD \/ v = v'
            | None, None => True
            | _, _ => False
            end.

Lemma wmap_refl a : wmap a a.
Proof. intros x. destruct (aget a x); auto. Qed.
Lemma wmap_trans a b c : wmap a b -> wmap b c -> wmap a c.
Proof.
  intros H1 H2 x. specialize (H1 x). specialize (H2 x).
  destruct (aget a x), (aget b x), (aget c x); try contradiction; auto.
  destruct H1 as [-> | ->]; auto.
Qed.
Lemma wmap_aeq a b : aeq a b -> wmap a b.
Proof. intros H x. rewrite (H x). destruct (aget b x); auto. Qed.

Definition fresh (k : str) (D A : list str) (Rn U : list (str * str)) : Prop :=
  ~ In k D /\ ~ In k A /\ (forall on, In on Rn -> k <> fst on /\ k <> snd on) /\ ~ In k (map fst U).

Lemma undo_at P D A Rn U k : fresh k D A Rn U -> aget (undo P D A Rn U) k = aget P k.
Proof.
  intros (H1 & H2 & H3 & H4). unfold undo. now rewrite (at_stU U k H4), (at_stR Rn k H3), (at_stA A k H2), (at_stD D k H1).
Qed.

Lemma not_in_single (k x : str) : ~ In x [k] -> x <> k.
Proof. intros H E. apply H. now left. Qed.

Lemma fresh_rn (S : list str) (Rn : list (str * str)) : (forall k, In k S -> forall on, In on Rn -> k <> fst on /\ k <> snd on) ->
  forall on, In on Rn -> ~ In (snd on) S.
Proof. intros H on Hon Hin. destruct (H _ Hin on Hon) as [_ E]. congruence. Qed.

Lemma undo_delete P D A Rn U k v : fresh k D A Rn U -> aget P k = Some v ->
  wmap (undo (adel P k) (D ++ [k]) A Rn U) (undo P D A Rn U).
Proof.
  intros Hf Hv x. pose proof Hf as (H1 & H2 & H3 & H4).
  assert (Hag : agree_out [k] (undo (adel P k) (D ++ [k]) A Rn U) (undo P D A Rn U)).
  { unfold undo. apply agree_stU, agree_stR; [apply fresh_rn; intros k0 [<-|[]]; exact H3|]. apply agree_stA.
    unfold stD. rewrite fold_left_app. cbn [fold_left]. fold (stD D (adel P k)). fold (stD D P).
    intros y Hy. apply not_in_single in Hy. rewrite aget_aput. destruct (str_eqb_spec k y); [congruence|].
    apply (agree_stD [k] D (adel P k) P); [|intros [E|[]]; congruence].
    intros z Hz. apply not_in_single in Hz. rewrite aget_adel. destruct (str_eqb_spec k z); [congruence|reflexivity]. }
  destruct (str_eqb_spec x k) as [->|Hne].
  - rewrite (undo_at P D A Rn U k Hf), Hv.
    unfold undo. rewrite (at_stU U k H4), (at_stR Rn k H3), (at_stA A k H2).
    unfold stD. rewrite fold_left_app. cbn [fold_left]. rewrite aget_aput, streqb_refl. now left.
  - rewrite (Hag x) by (intros [E|[]]; congruence). destruct (aget (undo P D A Rn U) x); auto.
Qed.

Lemma undo_insert P D A Rn U k v : fresh k D A Rn U -> aget P k = None ->
  wmap (undo (aput P k v) D (A ++ [k]) Rn U) (undo P D A Rn U).
Proof.
  intros Hf Hv x. pose proof Hf as (H1 & H2 & H3 & H4).
  assert (Hag : agree_out [k] (undo (aput P k v) D (A ++ [k]) Rn U) (undo P D A Rn U)).
  { unfold undo. apply agree_stU, agree_stR; [apply fresh_rn; intros k0 [<-|[]]; exact H3|].
    unfold stA. rewrite fold_left_app. cbn [fold_left]. fold (stA A (stD D (aput P k v))). fold (stA A (stD D P)).
    intros y Hy. apply not_in_single in Hy. rewrite aget_adel. destruct (str_eqb_spec k y); [congruence|].
    apply (agree_stA [k] A); [|intros [E|[]]; congruence]. apply agree_stD.
    intros z Hz. apply not_in_single in Hz. rewrite aget_aput. destruct (str_eqb_spec k z); [congruence|reflexivity]. }
  destruct (str_eqb_spec x k) as [->|Hne].
  - rewrite (undo_at P D A Rn U k Hf), Hv.
    unfold undo. rewrite (at_stU U k H4), (at_stR Rn k H3).
    unfold stA. rewrite fold_left_app. cbn [fold_left]. rewrite aget_adel, streqb_refl. exact I.
  - rewrite (Hag x) by (intros [E|[]]; congruence). destruct (aget (undo P D A Rn U) x); auto.
Qed.

Lemma undo_update P D A Rn U k v ov : fresh k D A Rn U -> aget P k = Some ov ->
  wmap (undo (aput P k v) D A Rn (U ++ [(k, ov)])) (undo P D A Rn U).
Proof.
  intros Hf Hv x. pose proof Hf as (H1 & H2 & H3 & H4).
  set (Z' := stR Rn (stA A (stD D (aput P k v)))). set (Z := stR Rn (stA A (stD D P))).
  assert (HZ : agree_out [k] Z' Z).
  { unfold Z', Z. apply agree_stR; [apply fresh_rn; intros k0 [<-|[]]; exact H3|]. apply agree_stA, agree_stD.
    intros z Hz. apply not_in_single in Hz. rewrite aget_aput. destruct (str_eqb_spec k z); [congruence|reflexivity]. }
  assert (E' : undo (aput P k v) D A Rn (U ++ [(k, ov)]) = stU U (aput Z' k ov)).
  { unfold undo, stU. fold Z'. rewrite rev_app_distr. reflexivity. }
  rewrite E'. change (undo P D A Rn U) with (stU U Z).
  assert (Hag : agree_out [k] (stU U (aput Z' k ov)) (stU U Z)).
  { apply agree_stU. intros y Hy. apply not_in_single in Hy. rewrite aget_aput. destruct (str_eqb_spec k y); [congruence|]. apply HZ. intros [E|[]]; congruence. }
  destruct (str_eqb_spec x k) as [->|Hne].
  - rewrite !(at_stU U k H4), aget_aput, streqb_refl. unfold Z. rewrite (at_stR Rn k H3), (at_stA A k H2), (at_stD D k H1), Hv. now right.
  - rewrite (Hag x) by (intros [E|[]]; congruence). destruct (aget (stU U Z) x); auto.
Qed.

Lemma undo_rename P D A Rn U k k' v : fresh k D A Rn U -> fresh k' D A Rn U -> k <> k' ->
  aget P k = Some v -> aget P k' = None ->
  wmap (undo (adel (aput P k' v) k) D A (Rn ++ [(k, k')]) U) (undo P D A Rn U).
Proof.
  intros Hf Hf' Hne Hv Hv'. apply wmap_aeq. pose proof Hf as (H1 & H2 & H3 & H4). pose proof Hf' as (H1' & H2' & H3' & H4').
  set (Z' := stA A (stD D (adel (aput P k' v) k))). set (Z := stA A (stD D P)).
  assert (E' : undo (adel (aput P k' v) k) D A (Rn ++ [(k, k')]) U = stU U (stR Rn (rename_back Z' (k, k')))).
  { unfold undo, stR. fold Z'. rewrite rev_app_distr. reflexivity. }
  rewrite E'. change (undo P D A Rn U) with (stU U (stR Rn Z)).
  assert (HZ : agree_out [k; k'] Z' Z).
  { unfold Z', Z. apply agree_stA, agree_stD. intros z Hz. rewrite aget_adel, aget_aput.
    destruct (str_eqb_spec k z) as [->|]; [exfalso; apply Hz; now left|].
    destruct (str_eqb_spec k' z) as [->|]; [exfalso; apply Hz; right; now left|reflexivity]. }
  assert (Zk : aget Z' k = None /\ aget Z' k' = Some v /\ aget Z k = Some v /\ aget Z k' = None).
  { unfold Z', Z. rewrite !(at_stA A k H2), !(at_stD D k H1), !(at_stA A k' H2'), !(at_stD D k' H1').
    rewrite !aget_adel, !aget_aput, !streqb_refl, Hv, Hv'.
    destruct (str_eqb_spec k k'); [congruence|]. destruct (str_eqb_spec k' k); [congruence|]. auto. }
  destruct Zk as (Z1 & Z2 & Z3 & Z4).
  assert (Haeq : agree_out [] (rename_back Z' (k, k')) Z).
  { intros x _. unfold rename_back. cbn [fst snd]. rewrite Z2, aget_aput, aget_adel.
    destruct (str_eqb_spec k x) as [->|Hkx]; [now rewrite Z3|].
    destruct (str_eqb_spec k' x) as [->|Hkx']; [now rewrite Z4|].
    apply HZ. intros [E|[E|[]]]; congruence. }
  intros x. apply (agree_stU [] U (stR Rn (rename_back Z' (k, k'))) (stR Rn Z)); [|intros []].
  apply agree_stR; [intros on _ []|exact Haeq].
Qed.

(* ------------------------------------------------------------------ *)
(** * The annotations of a node *)

Definition K_del : str := dn l_delete_attr.
Definition K_add : str := dn l_add_attr.
Definition K_ren : str := dn l_rename_attr.
Definition K_upd : str := dn l_update_attr.

Definition okname (x : str) : Prop := simple x /\ x <> [] /\ plain_name x.

Record ann (a : attrs) (D A : list str) (Rn U : list (str * str)) : Prop := {
  an_del : aget a K_del = jopt D;
  an_add : aget a K_add = jopt A;
  an_ren : aget a K_ren = jopt (map pitem Rn);
  an_upd : aget a K_upd = jopt (map pitem U);
  an_D : Forall okname D;
  an_A : Forall okname A;
  an_R : Forall (fun on => okname (fst on) /\ okname (snd on)) Rn;
  an_U : Forall (fun kv => okname (fst kv) /\ vsimple (snd kv)) U;
  an_nd : NoDup (map fst (plain_attrs a));
  an_vals : Forall (fun kv => vsimple (snd kv)) (plain_attrs a) }.

Lemma ann_old a D A Rn U : ann a D A Rn U -> old_attrs a = undo (plain_attrs a) D A Rn U.
Proof.
  intros H. rewrite old_attrs_undo. fold K_del K_add K_ren K_upd.
  rewrite (an_del _ _ _ _ _ H), (an_add _ _ _ _ _ H), (an_ren _ _ _ _ _ H), (an_upd _ _ _ _ _ H).
  rewrite !names_of_jopt, !pairs_of_jopt; try reflexivity.
  - eapply Forall_impl; [|apply (an_U _ _ _ _ _ H)]. intros kv [(H1 & _) H2]. auto.
  - eapply Forall_impl; [|apply (an_R _ _ _ _ _ H)]. intros kv [(H1 & _) (H2 & _)]. split; [exact H1|apply simple_vsimple, H2].
  - eapply Forall_impl; [|apply (an_A _ _ _ _ _ H)]. intros x (H1 & _). apply simple_vsimple, H1.
  - eapply Forall_impl; [|apply (an_D _ _ _ _ _ H)]. intros x (H1 & _). apply simple_vsimple, H1.
Qed.

Lemma join_nonempty xs : xs <> [] -> Forall (fun x : str => x <> []) xs -> join [59] xs <> [].
Proof.
  intros Hne H. destruct xs as [|x xs]; [congruence|]. inversion H as [|? ? Hx _]; subst.
  destruct xs as [|y ys]; [exact Hx|]. rewrite join_cons2. destruct x; [congruence|discriminate].
Qed.

(* _extend_diff_attr appends one item to one annotation *)
Lemma extend_value a K xs x : aget a K = jopt xs -> Forall (fun y : str => y <> []) xs ->
  (match (match aget a K with Some v => v | None => [] end) with
   | [] => x
   | _ => (match aget a K with Some v => v | None => [] end) ++ 59%N :: x
   end) = match jopt (xs ++ [x]) with Some s => s | None => [] end.
Proof.
  intros E H. rewrite E, jopt_snoc. destruct xs as [|y ys]; [reflexivity|]. cbn [jopt].
  pose proof (join_nonempty (y :: ys) ltac:(discriminate) H) as Hn.
  destruct (join [59] (y :: ys)); [congruence|reflexivity].
Qed.

Lemma pitem_nonempty kv : pitem kv <> [].
Proof. unfold pitem. destruct (fst kv); discriminate. Qed.

Lemma K_distinct : K_del <> K_add /\ K_del <> K_ren /\ K_del <> K_upd /\ K_add <> K_ren /\ K_add <> K_upd /\ K_ren <> K_upd.
Proof. unfold K_del, K_add, K_ren, K_upd, dn. repeat split; intros E; apply app_inv_head in E; discriminate. Qed.

Lemma K_diff : is_diff_name K_del = true /\ is_diff_name K_add = true /\ is_diff_name K_ren = true /\ is_diff_name K_upd = true.
Proof. repeat split; apply prefixb_app. Qed.

(* plain changes do not touch the annotations *)
Lemma aget_K_plain_put a k v K : plain_name k -> is_diff_name K = true -> aget (aput a k v) K = aget a K.
Proof. intros Hk HK. apply aget_aput_other. intros E. subst. unfold plain_name in Hk. congruence. Qed.
Lemma aget_K_plain_del a k K : plain_name k -> is_diff_name K = true -> aget (adel a k) K = aget a K.
Proof. intros Hk HK. apply aget_adel_other. intros E. subst. unfold plain_name in Hk. congruence. Qed.
