(* Model of lxml's serialisation `etree.tounicode(element)` on the fragment of
   documents the PlaceholderMaker model (XV.Placeholder) works with, and a
   parser for it (used to prove that the serialisation is injective).
   Definitions only; proofs are in SerializeProofs.v.

   Written from observing lxml 6 / libxml2 (every rule is exercised by the
   'serialize' correspondence stream of harness/props/C11.py on every run):
   * element: <tag attrs/> when it has neither text nor children (text None);
     <tag attrs></tag> for text '' without children; with children an empty text
     is invisible.  Attributes in stored order, ` name='value'`.  Children are
     followed by their tails.  tounicode(element) includes the element's own
     tail (get_placeholder is called after `child.tail = ''`, which prints nothing).
   * text and tails escape  & < >  and carriage return (&#13;); attribute values
     escape  & < > '  and tab, newline, carriage return (&#9; &#10; &#13;).
     Everything else (quotes in text, apostrophes, non-ASCII) is literal.
   * comment (reserved tag '#comment'): <!--content-->, no escaping.
   * processing instruction (reserved tag '#pi:<target>'): <?target content?>,
     with the separating blank also for empty content (<?t ?>); a PI parsed from
     <?t?> has no content (text None here).
   * the only namespace is the maker's own diff namespace.  A name
     '{http://namespaces.shoobx.com/diff}local' prints as P:local, where the
     prefix P is 'ns0' or, once XMLFormatter.format has registered it, 'diff'
     ([P] is a parameter); the element that uses such a name (in the maker's keys
     always the key element itself: the diff:insert/delete/replace elements and
     copies of document elements with a diff:* attribute) carries the
     declaration xmlns:P='...' before its attributes.  Namespaced names below
     the key element are outside the fragment ([key_ok]).                      *)
From Coq Require Import List NArith Bool.
Import ListNotations.
Require Import XV.Placeholder.
Local Open Scope N_scope.

(* ----------------------------------------------------------------- strings *)
Fixpoint strip_prefix (p s : str) : option str :=
  match p with
  | [] => Some s
  | a :: p' => match s with
               | b :: s' => if N.eqb a b then strip_prefix p' s' else None
               | [] => None
               end
  end.

Definition S_COMMENT : str := [35;99;111;109;109;101;110;116].   (* '#comment' *)
Definition S_PI : str := [35;112;105;58].                          (* '#pi:' *)
Definition S_XMLNS : str := [120;109;108;110;115;58].              (* 'xmlns:' *)
(* the namespace URI: DIFF_NS_BRACED without the braces *)
Definition DIFF_NS : str :=
  [104;116;116;112;58;47;47;110;97;109;101;115;112;97;99;101;115;46;115;104;111;111;98;120;46;99;111;109;47;100;105;102;102].

(* --------------------------------------------------------------- escaping *)
Definition esc_text_c (c : N) : str :=
  if N.eqb c 38 then [38;97;109;112;59]           (* &amp; *)
  else if N.eqb c 60 then [38;108;116;59]         (* &lt; *)
  else if N.eqb c 62 then [38;103;116;59]         (* &gt; *)
  else if N.eqb c 13 then [38;35;49;51;59]        (* &#13; *)
  else [c].
Definition esc_text (l : str) : str := flat_map esc_text_c l.

Definition esc_attr_c (c : N) : str :=
  if N.eqb c 38 then [38;97;109;112;59]
  else if N.eqb c 60 then [38;108;116;59]
  else if N.eqb c 62 then [38;103;116;59]
  else if N.eqb c 34 then [38;113;117;111;116;59] (* &quot; *)
  else if N.eqb c 9 then [38;35;57;59]            (* &#9; *)
  else if N.eqb c 10 then [38;35;49;48;59]        (* &#10; *)
  else if N.eqb c 13 then [38;35;49;51;59]        (* &#13; *)
  else [c].
Definition esc_attr (l : str) : str := flat_map esc_attr_c l.

(* ------------------------------------------------------------------ names *)
Definition rn (P name : str) : str :=
  match strip_prefix DIFF_NS_BRACED name with
  | Some l => P ++ 58 :: l
  | None => name
  end.
Definition is_ns (name : str) : bool :=
  match strip_prefix DIFF_NS_BRACED name with Some _ => true | None => false end.
Definition uses_ns (tag : str) (attrs : list (str * str)) : bool :=
  is_ns tag || existsb (fun kv => is_ns (fst kv)) attrs.

Definition decl (P : str) : str := 32 :: S_XMLNS ++ P ++ [61;34] ++ DIFF_NS ++ [34].   (*  xmlns:P='...' *)
Definition ser_attr (P : str) (kv : str * str) : str :=
  32 :: rn P (fst kv) ++ [61;34] ++ esc_attr (snd kv) ++ [34].
Definition ser_attrs (P : str) (attrs : list (str * str)) : str := flat_map (ser_attr P) attrs.

(* ------------------------------------------------------------ serialisation *)
(* one node without its tail; [top]: this is the element tounicode was called on *)
Fixpoint ser_node (P : str) (top : bool) (t : xtree) {struct t} : str :=
  match t with
  | XNode tag attrs text tail kids =>
    if str_eqb tag S_COMMENT then [60;33;45;45] ++ otxt text ++ [45;45;62]
    else
      match strip_prefix S_PI tag with
      | Some tg => [60;63] ++ tg ++ (match text with None => [] | Some x => 32 :: x end) ++ [63;62]
      | None =>
        let nm := rn P tag in
        60 :: nm ++ (if top && uses_ns tag attrs then decl P else []) ++ ser_attrs P attrs ++
        match text, kids with
        | None, [] => [47;62]
        | _, _ =>
          62 :: esc_text (otxt text) ++
          concat (map (fun k => ser_node P false k ++ esc_text (xtail k)) kids) ++
          [60;47] ++ nm ++ [62]
        end
      end
  end.

(* etree.tounicode(element) *)
Definition serialize (P : str) (t : xtree) : str := ser_node P true t ++ esc_text (xtail t).

(* --------------------------------------------------------- well-formedness *)
(* characters that end a name in the serialised form, or cannot be in an XML
   name anyway: blank tab nl cr / > < = ' ' ? ! & # { } *)
Definition namechar (c : N) : bool :=
  negb (existsb (N.eqb c) [32;9;10;13;47;62;60;61;34;39;63;33;38;35;123;125]).
(* a name without prefix *)
Definition pchar (c : N) : bool := namechar c && negb (N.eqb c 58).
Definition plain_name (n : str) : bool :=
  match n with [] => false | _ :: _ => forallb pchar n end.
(* a name, possibly in the diff namespace *)
Definition any_name (n : str) : bool :=
  match strip_prefix DIFF_NS_BRACED n with
  | Some l => plain_name l
  | None => plain_name n
  end.

(* no two adjacent characters a, b *)
Fixpoint no_adj (a b : N) (l : str) : bool :=
  match l with
  | x :: ((y :: _) as r) => negb (N.eqb x a && N.eqb y b) && no_adj a b r
  | _ => true
  end.

(* the fragment: [root] = namespaced names are allowed on this node *)
Fixpoint node_ok (root : bool) (t : xtree) {struct t} : bool :=
  match t with
  | XNode tag attrs text tail kids =>
    if str_eqb tag S_COMMENT then
      (match attrs, kids, text with
       | [], [], Some x => no_adj 45 45 (x ++ [45])      (* no '--', no '-' at the end *)
       | _, _, _ => false
       end)
    else
      match strip_prefix S_PI tag with
      | Some tg =>
        plain_name tg &&
        (match attrs, kids with
         | [], [] => match text with None => true | Some x => no_adj 63 62 x end     (* no '?>' *)
         | _, _ => false
         end)
      | None =>
        (if root then any_name tag else plain_name tag) &&
        forallb (fun kv => if root then any_name (fst kv) else plain_name (fst kv)) attrs &&
        forallb (node_ok false) kids
      end
  end.
Definition key_ok (t : xtree) : bool := node_ok true t.
(* the prefix: a plain name other than 'xmlns' *)
Definition prefix_ok (P : str) : bool := plain_name P && negb (str_eqb P [120;109;108;110;115]).

(* ------------------------------------------------------------------ parser *)
Fixpoint span (p : N -> bool) (s : str) : str * str :=
  match s with
  | [] => ([], [])
  | c :: r => if p c then let '(a, b) := span p r in (c :: a, b) else ([], s)
  end.

(* split at the first adjacent a, b *)
Fixpoint until2 (a b : N) (s : str) : option (str * str) :=
  match s with
  | x :: ((y :: r') as r) =>
    if N.eqb x a && N.eqb y b then Some ([], r')
    else match until2 a b r with Some (u, v) => Some (x :: u, v) | None => None end
  | _ => None
  end.

(* an entity name (between & and ;), given reversed *)
Definition dec_entity (rbuf : str) : option N :=
  let b := rev rbuf in
  if str_eqb b [97;109;112] then Some 38             (* amp *)
  else if str_eqb b [108;116] then Some 60           (* lt *)
  else if str_eqb b [103;116] then Some 62           (* gt *)
  else if str_eqb b [113;117;111;116] then Some 34   (* quot *)
  else if str_eqb b [35;57] then Some 9              (* #9 *)
  else if str_eqb b [35;49;48] then Some 10          (* #10 *)
  else if str_eqb b [35;49;51] then Some 13          (* #13 *)
  else None.

(* escaped characters up to the character [stop] (kept in the rest iff [keep]);
   [st] = Some buf while inside an entity *)
Fixpoint punesc (stop : N) (keep : bool) (st : option str) (s : str) : option (str * str) :=
  match s with
  | [] => None
  | c :: r =>
    match st with
    | None =>
      if N.eqb c stop then Some ([], if keep then s else r)
      else if N.eqb c 38 then punesc stop keep (Some []) r
      else match punesc stop keep None r with Some (u, v) => Some (c :: u, v) | None => None end
    | Some buf =>
      if N.eqb c 59 then
        match dec_entity buf with
        | Some d => match punesc stop keep None r with Some (u, v) => Some (d :: u, v) | None => None end
        | None => None
        end
      else punesc stop keep (Some (c :: buf)) r
    end
  end.
(* text up to the next '<' (left in place), undoing esc_text *)
Definition ptext (s : str) : option (str * str) := punesc 60 true None s.
(* an attribute value up to the closing double quote (consumed), undoing esc_attr *)
Definition pattrval (s : str) : option (str * str) := punesc 34 false None s.

Definition unrn (P nm : str) : str :=
  match strip_prefix (P ++ [58]) nm with
  | Some l => DIFF_NS_BRACED ++ l
  | None => nm
  end.

(* ` name='value'` ..., skipping the namespace declaration *)
Fixpoint pattrs (P : str) (fuel : nat) (s : str) : option (list (str * str) * str) :=
  match fuel with
  | O => None
  | S f =>
    match strip_prefix [32] s with
    | Some r =>
      let '(nm, r1) := span namechar r in
      match strip_prefix [61;34] r1 with
      | Some r2 =>
        match pattrval r2 with
        | Some (v, r3) =>
          match pattrs P f r3 with
          | Some (l, r4) => Some (if str_eqb nm (S_XMLNS ++ P) then l else (unrn P nm, v) :: l, r4)
          | None => None
          end
        | None => None
        end
      | None => None
      end
    | None => Some ([], s)
    end
  end.

Definition set_tail (t : xtree) (tl : str) : xtree :=
  XNode (xtag t) (xattrs t) (xtext t) tl (xkids t).

Fixpoint pnode (P : str) (fuel : nat) (s : str) {struct fuel} : option (xtree * str) :=
  match fuel with
  | O => None
  | S f =>
    match strip_prefix [60;33;45;45] s with
    | Some r =>                                                   (* <!-- *)
      match until2 45 45 r with
      | Some (c, r1) =>
        match strip_prefix [62] r1 with
        | Some r2 => Some (XNode S_COMMENT [] (Some c) [] [], r2)
        | None => None
        end
      | None => None
      end
    | None =>
      match strip_prefix [60;63] s with
      | Some r =>                                                 (* <? *)
        let '(tg, r1) := span namechar r in
        match strip_prefix [63;62] r1 with
        | Some r3 => Some (XNode (S_PI ++ tg) [] None [] [], r3)
        | None =>
          match strip_prefix [32] r1 with
          | Some r2 =>
            match until2 63 62 r2 with
            | Some (c, r3) => Some (XNode (S_PI ++ tg) [] (Some c) [] [], r3)
            | None => None
            end
          | None => None
          end
        end
      | None =>
        match strip_prefix [60] s with
        | Some r =>
          let '(nm, r1) := span namechar r in
          match pattrs P f r1 with
          | Some (attrs, r2) =>
            match strip_prefix [47;62] r2 with
            | Some r3 => Some (XNode (unrn P nm) attrs None [] [], r3)
            | None =>
              match strip_prefix [62] r2 with
              | Some r3 =>
                match ptext r3 with
                | Some (txt, r4) =>
                  match pkids P f r4 with
                  | Some (kids, r5) =>
                    let '(nm2, r6) := span namechar r5 in
                    match strip_prefix [62] r6 with
                    | Some r7 =>
                      if str_eqb nm nm2 then
                        Some (XNode (unrn P nm) attrs
                                    (match txt, kids with [], [] => Some [] | [], _ :: _ => None | _ :: _, _ => Some txt end)
                                    [] kids, r7)
                      else None
                    | None => None
                    end
                  | None => None
                  end
                | None => None
                end
              | None => None
              end
            end
          | None => None
          end
        | None => None
        end
      end
    end
  end
(* children with their tails, up to and including '</' *)
with pkids (P : str) (fuel : nat) (s : str) {struct fuel} : option (list xtree * str) :=
  match fuel with
  | O => None
  | S f =>
    match strip_prefix [60;47] s with
    | Some r => Some ([], r)
    | None =>
      match pnode P f s with
      | Some (k, r1) =>
        match ptext r1 with
        | Some (tl, r2) =>
          match pkids P f r2 with
          | Some (ks, r3) => Some (set_tail k tl :: ks, r3)
          | None => None
          end
        | None => None
        end
      | None => None
      end
    end
  end.

(* fuel that suffices for [pnode] on the serialisation of [t] *)
Fixpoint pneed (t : xtree) : nat :=
  match t with
  | XNode _ attrs _ _ kids =>
    (3 + length attrs +
     (fix go (l : list xtree) : nat := match l with [] => 1 | k :: r => S (Nat.max (pneed k) (go r)) end) kids)%nat
  end.

(* parse a serialised element with its tail *)
Definition parse (P : str) (fuel : nat) (s : str) : option xtree :=
  match pnode P fuel s with
  | Some (k, r) =>
    match ptext (r ++ [60]) with
    | Some (tl, _) => Some (set_tail k tl)
    | None => None
    end
  | None => None
  end.
