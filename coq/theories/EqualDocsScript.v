(* EqualDocsScript.v -- Differ.diff on two equal documents with the identity
   matching emits nothing and leaves the working tree untouched (C03, script
   half).  No oracle is involved here. *)
From Coq Require Import List NArith ZArith Bool Arith Lia Sorting.Sorted Sorting.Permutation.
Import ListNotations.
Require Import XV.Str XV.Forest XV.LCS XV.LCSProofs XV.Matcher XV.MatcherProofs XV.Differ XV.WF
               XV.ForestProofs XV.TreeProofs XV.AttrProofs XV.EqualDocsBase.

(* ------------------------------------------------------------------ *)
(** * update_node_attr / update_node_text / update_node_tag on equal data *)
(* ------------------------------------------------------------------ *)
Lemma upd_attr_noop ign R s ln rn :
  aeq (cur_attrs s ln) (lattrs (labof R rn)) -> upd_attr ign R s ln rn = s.
Proof.
  intros Haeq.
  set (la0 := cur_attrs s ln) in *. set (ra := lattrs (labof R rn)) in *.
  assert (Hkeys : forall k, In k (map fst (node_attribs_d ign la0)) <->
                            In k (map fst (node_attribs_d ign ra))).
  { intros k. rewrite !node_attribs_In, (aeq_keys la0 ra k Haeq). reflexivity. }
  assert (Hnew : filter (fun k => negb (smem k (map fst (node_attribs_d ign la0))))
                        (map fst (node_attribs_d ign ra)) = []).
  { apply filter_nil. intros k Hk. apply negb_false_iff, smem_In, Hkeys, Hk. }
  assert (Hrem : filter (fun k => negb (smem k (map fst (node_attribs_d ign ra))))
                        (map fst (node_attribs_d ign la0)) = []).
  { apply filter_nil. intros k Hk. apply negb_false_iff, smem_In, Hkeys, Hk. }
  unfold upd_attr. cbv zeta. fold la0 ra. rewrite Hnew, Hrem.
  cbn [sort_strs fold_right fold_left].
  rewrite fold_left_id.
  - reflexivity.
  - intros k Hk. apply (proj1 (sort_strs_In _ _)) in Hk. apply filter_In in Hk as [Hk _].
    apply (proj1 (node_attribs_In _ _ _)) in Hk as [Hk _]. apply (proj2 (aget_Some_key _ _)) in Hk as [v Hv].
    fold la0. rewrite <- (Haeq k), Hv. rewrite AttrProofs.str_eqb_refl. reflexivity.
Qed.

Lemma upd_tag_noop R s ln rn :
  ltag (labof (W s) ln) = ltag (labof R rn) -> upd_tag R s ln rn = s.
Proof.
  intros H. unfold upd_tag. rewrite H.
  rewrite (proj2 (mp_tag_eqb_eq _ _) eq_refl). reflexivity.
Qed.

Lemma upd_text_noop R s ln rn :
  ltext (labof (W s) ln) = ltext (labof R rn) ->
  ltail (labof (W s) ln) = ltail (labof R rn) -> upd_text R s ln rn = s.
Proof.
  intros H1 H2. unfold upd_text. rewrite H1.
  rewrite (proj2 (mp_ostr_eqb_eq _ _) eq_refl). rewrite H2.
  rewrite (proj2 (mp_ostr_eqb_eq _ _) eq_refl). reflexivity.
Qed.

(* ------------------------------------------------------------------ *)
(** * bfs only lists descendants                                        *)
(* ------------------------------------------------------------------ *)
Lemma bfs_desc R : forall fuel q n, In n (bfs R fuel q) -> exists a, In a q /\ desc R a n.
Proof.
  induction fuel as [|fuel IH]; intros q n H; cbn [bfs] in H; [destruct H|].
  destruct q as [|n0 q]; [destruct H|]. destruct H as [<-|H].
  - exists n0. split; [left; reflexivity|constructor].
  - destruct (IH _ _ H) as (a & Ha & Hd). apply in_app_or in Ha as [Ha|Ha].
    + exists a. split; [right; exact Ha|exact Hd].
    + exists n0. split; [left; reflexivity|]. eapply desc_trans; [apply desc_child; exact Ha|exact Hd].
Qed.

(* ------------------------------------------------------------------ *)
(** * the marking loop                                                  *)
(* ------------------------------------------------------------------ *)
Lemma fold_mark (f g : Z * Z -> id) : forall ps s,
  let s' := fold_left (fun s p => mark s (f p) (g p)) ps s in
  W s' = W s /\ l2r s' = l2r s /\ r2l s' = r2l s /\ out s' = out s /\ serr s' = serr s /\
  (forall x, In x (map f ps) -> inoL s' x = true).
Proof.
  induction ps as [|p ps IH]; intros s; cbn [fold_left map].
  - repeat split; try reflexivity. intros x [].
  - destruct (IH (mark s (f p) (g p))) as (H1 & H2 & H3 & H4 & H5 & H6).
    cbn [mark W l2r r2l out serr] in H1, H2, H3, H4, H5.
    split; [exact H1|]. split; [exact H2|]. split; [exact H3|]. split; [exact H4|]. split; [exact H5|].
    intros x [E|Hin]; [|apply H6, Hin]. subst x.
    (* marks are never removed *)
    assert (G : forall qs t, inoL t (f p) = true ->
                inoL (fold_left (fun s p => mark s (f p) (g p)) qs t) (f p) = true).
    { induction qs as [|q qs IHq]; intros t Ht; cbn [fold_left]; [exact Ht|].
      apply IHq. cbn [mark inoL]. unfold upd. destruct (Nat.eqb (f p) (f q)); [reflexivity|exact Ht]. }
    apply G. cbn [mark inoL]. unfold upd. rewrite Nat.eqb_refl. reflexivity.
Qed.

(* ------------------------------------------------------------------ *)
(** * namespaces                                                        *)
(* ------------------------------------------------------------------ *)
(* every binding of the map is found under its own prefix (true when the
   prefixes are pairwise distinct, as in a Python dict) *)
Definition ns_ok (lns : nsmap) : Prop := forall k v, In (k, v) lns -> ns_get lns k = Some v.

Lemma ostr_eqb_refl a : ostr_eqb a a = true.
Proof. apply mp_ostr_eqb_eq. reflexivity. Qed.

Lemma ns_ok_of_NoDup lns : NoDup (map fst lns) -> ns_ok lns.
Proof.
  induction lns as [|[k0 v0] lns IH]; intros Hnd k v Hin; [destruct Hin|].
  inversion Hnd as [|? ? Hk Hnd']; subst. cbn [ns_get].
  destruct Hin as [E|Hin].
  - injection E as <- <-. rewrite ostr_eqb_refl. reflexivity.
  - destruct (ostr_eqb k k0) eqn:E.
    + apply mp_ostr_eqb_eq in E. subst k0. exfalso. apply Hk.
      apply in_map_iff. exists (k, v). split; [reflexivity|exact Hin].
    + apply IH; assumption.
Qed.

Lemma ns_prologue_same lns : ns_ok lns -> ns_prologue lns lns = Some [].
Proof.
  intros Hok. unfold ns_prologue.
  assert (G : forall rns, incl rns lns -> ns_prologue_r lns rns = Some []).
  { induction rns as [|[k v] rns IH]; intros Hincl; cbn [ns_prologue_r]; [reflexivity|].
    rewrite (Hok k v (Hincl _ (or_introl eq_refl))). rewrite AttrProofs.str_eqb_refl.
    apply IH. intros x Hx. apply Hincl. right; exact Hx. }
  rewrite (G lns (incl_refl _)). cbn [app]. f_equal.
  assert (G2 : forall l, incl l lns ->
            flat_map (fun kv : option str * str => match ns_get lns (fst kv) with
                                | None => [IDelNs (fst kv)] | Some _ => [] end) l = []).
  { induction l as [|[k v] l IH]; intros Hincl; cbn [flat_map fst]; [reflexivity|].
    rewrite (Hok k v (Hincl _ (or_introl eq_refl))). cbn [app].
    apply IH. intros x Hx. apply Hincl. right; exact Hx. }
  apply G2, incl_refl.
Qed.

(* ------------------------------------------------------------------ *)
(** * The script on equal documents                                     *)
(* ------------------------------------------------------------------ *)
Section Script.
Variable ign : list str.
Variables L R : forest.
Variable root : id.
Variable m : list (id * id).

Hypothesis Hwf : wf_forest L root.
Hypothesis Hsame : same_doc L R.
Hypothesis Hid : identity_matching L root m.

Definition l2r0 : omap := fun x => option_map snd (find (fun p => Nat.eqb (fst p) x) (rev m)).
Definition r2l0 : omap := fun x => option_map fst (find (fun p => Nat.eqb (snd p) x) (rev m)).

(* the states the run goes through: only the in-order marks vary *)
Definition mkst (iL iR : iset) : st := St L l2r0 r2l0 iL iR [] false.
Definition clean (s : st) : Prop := exists iL iR, s = mkst iL iR.

Lemma l2r0_doc x : desc L root x -> l2r0 x = Some x.
Proof.
  intros Hd. destruct Hid as [H1 H2]. unfold l2r0.
  destruct (find (fun p => Nat.eqb (fst p) x) (rev m)) as [[a b]|] eqn:E.
  - apply find_some in E as [Hin Hab]. cbn [fst] in Hab. apply Nat.eqb_eq in Hab. subst a.
    apply in_rev in Hin. rewrite (H1 _ _ Hin). reflexivity.
  - exfalso. eapply find_none in E; [|apply -> in_rev; apply (H2 x Hd)].
    cbn [fst] in E. rewrite Nat.eqb_refl in E. discriminate.
Qed.

Lemma r2l0_doc x : desc L root x -> r2l0 x = Some x.
Proof.
  intros Hd. destruct Hid as [H1 H2]. unfold r2l0.
  destruct (find (fun p => Nat.eqb (snd p) x) (rev m)) as [[a b]|] eqn:E.
  - apply find_some in E as [Hin Hab]. cbn [snd] in Hab. apply Nat.eqb_eq in Hab. subst b.
    apply in_rev in Hin. rewrite (H1 _ _ Hin). reflexivity.
  - exfalso. eapply find_none in E; [|apply -> in_rev; apply (H2 x Hd)].
    cbn [snd] in E. rewrite Nat.eqb_refl in E. discriminate.
Qed.

Lemma doc_lt x : desc L root x -> x < fnext L.
Proof. apply (desc_lt_root L root Hwf). Qed.

Lemma labs x : x < fnext L -> same_label (flab L x) (flab R x).
Proof. intros Hx. destruct Hsame as (_ & _ & H). apply H, Hx. Qed.

Lemma kids_R x : x < fnext L -> kidsof R x = kidsof L x.
Proof. intros Hx. destruct Hsame as (_ & H & _). symmetry. apply H, Hx. Qed.

Lemma parent_of_kid x c : desc L root x -> In c (kidsof L x) -> parentof L c = Some x.
Proof. intros Hd Hc. eapply parentof_of_In; [exact Hwf|apply doc_lt, Hd|exact Hc]. Qed.

(* ---- align_children ---- *)
Lemma align_clean iL iR n :
  desc L root n -> clean (align R (mkst iL iR) n n).
Proof.
  intros Hd. pose proof (doc_lt n Hd) as Hn.
  unfold align.
  set (lch := filter _ (kidsof (W (mkst iL iR)) n)).
  set (rch := filter _ (kidsof R n)).
  assert (Hl : lch = kidsof L n).
  { unfold lch. cbn [mkst W l2r]. apply filter_all. intros c Hc.
    rewrite (l2r0_doc c) by (eapply desc_step; eauto).
    rewrite (parentof_same L R c Hsame), (parent_of_kid n c Hd Hc). cbn [oid_eqb]. apply Nat.eqb_refl. }
  assert (Hr : rch = kidsof L n).
  { unfold rch. rewrite (kids_R n Hn). cbn [mkst W r2l]. apply filter_all. intros c Hc.
    rewrite (r2l0_doc c) by (eapply desc_step; eauto).
    rewrite (parent_of_kid n c Hd Hc). cbn [oid_eqb]. apply Nat.eqb_refl. }
  rewrite Hl, Hr. clear lch rch Hl Hr.
  destruct (kidsof L n) as [|c0 ks0] eqn:Ek; [exists iL, iR; reflexivity|].
  cbv iota. set (ks := c0 :: ks0) in *.
  assert (Hkd : forall a, In a ks -> desc L root a).
  { intros a Ha. eapply desc_step; [exact Hd|]. fold (kidsof L n). rewrite Ek. exact Ha. }
  assert (Hself : forall a, In a ks -> oid_eqb (l2r (mkst iL iR) a) (Some a) = true).
  { intros a Ha. cbn [mkst l2r]. rewrite (l2r0_doc a) by (apply Hkd, Ha).
    cbn [oid_eqb]. apply Nat.eqb_refl. }
  destruct (lcs_seq (fun x y => oid_eqb (l2r (mkst iL iR) x) (Some y)) ks ks) as [ps|] eqn:Hlcs.
  - assert (Hps : ps = map (fun i => (i, i)) (zrange (length ks) 0)).
    { apply (lcs_seq_refl (fun x y => oid_eqb (l2r (mkst iL iR) x) (Some y)) ks ps); [| |exact Hlcs].
      - intros a b Ha Hb _. split; apply Hself; assumption.
      - exact Hself. }
    destruct (fold_mark (fun p => nth_id ks (fst p)) (fun p => nth_id ks (snd p)) ps (mkst iL iR))
      as (H1 & H2 & H3 & H4 & H5 & H6). cbv zeta in H1, H2, H3, H4, H5, H6.
    set (s1 := fold_left (fun s p => mark s (nth_id ks (fst p)) (nth_id ks (snd p))) ps (mkst iL iR)) in *.
    rewrite fold_left_id.
    + exists (inoL s1), (inoR s1). destruct s1 as [w a b c d e f0].
      cbn [W l2r r2l out serr mkst inoL inoR] in *. subst. reflexivity.
    + intros c Hc. rewrite H6; [reflexivity|].
      apply In_nth_error in Hc as (k & Hk). apply in_map_iff.
      exists (Z.of_nat k, Z.of_nat k). cbn [fst]. split.
      * unfold nth_id. rewrite Nat2Z.id. apply nth_error_nth. exact Hk.
      * rewrite Hps. apply in_map_iff. exists (Z.of_nat k). split; [reflexivity|].
        apply zrange_In. assert (k < length ks) by (apply nth_error_Some; rewrite Hk; discriminate). lia.
  - exfalso. destruct (lcs_seq_total (fun x y => oid_eqb (l2r (mkst iL iR) x) (Some y)) ks ks) as [ps Hps].
    congruence.
Qed.

(* ---- one step of the main loop ---- *)
Lemma visit_clean s n : desc L root n -> clean s -> clean (visit ign R s n).
Proof.
  intros Hd (iL & iR & ->). pose proof (doc_lt n Hd) as Hn.
  destruct (labs n Hn) as (Htag & Htext & Htail & Hperm).
  assert (Hpar : oid_eqb (match parentof R n with Some rp => r2l (mkst iL iR) rp | None => None end)
                         (parentof (W (mkst iL iR)) n) = true).
  { rewrite (parentof_same L R n Hsame). cbn [mkst W r2l].
    destruct (Nat.eq_dec n root) as [->|Hne].
    - rewrite (parentof_root L root Hwf). reflexivity.
    - destruct (parentof_doc L root n Hwf Hd Hne) as (p & Ep & Hp & _).
      rewrite Ep, (r2l0_doc p Hp). cbn [oid_eqb]. apply Nat.eqb_refl. }
  unfold visit. cbv zeta.
  replace (r2l (mkst iL iR) n) with (Some n) by (cbn [mkst r2l]; symmetry; apply r2l0_doc, Hd).
  rewrite Hpar.
  rewrite upd_tag_noop by (cbn [mkst W]; exact Htag).
  rewrite upd_attr_noop.
  2:{ unfold cur_attrs. cbn [mkst W]. apply aget_perm; [apply (wf_attrs L root Hwf n Hn)|exact Hperm]. }
  destruct (align_clean iL iR n Hd) as (iL' & iR' & E). rewrite E.
  replace (r2l (mkst iL' iR') n) with (Some n) by (cbn [mkst r2l]; symmetry; apply r2l0_doc, Hd).
  rewrite upd_text_noop; [exists iL', iR'; reflexivity| |]; cbn [mkst W]; assumption.
Qed.

Lemma fold_clean (l : list id) : forall s,
  (forall n, In n l -> desc L root n) -> clean s -> clean (fold_left (visit ign R) l s).
Proof.
  induction l as [|n l IH]; intros s Hl Hs; cbn [fold_left]; [exact Hs|].
  apply IH; [intros x Hx; apply Hl; right; exact Hx|].
  apply visit_clean; [apply Hl; left; reflexivity|exact Hs].
Qed.

Theorem gen_script_equal :
  exists iL iR, gen_script ign R root L root m = mkst iL iR.
Proof.
  unfold gen_script.
  assert (Hinit : clean (init_state L m)) by (eexists _, _; reflexivity).
  assert (Hbfs : forall n, In n (bfs R (S (fnext R)) [root]) -> desc L root n).
  { intros n Hn. apply bfs_desc in Hn as (a & [<-|[]] & Hd).
    eapply desc_same_rev; eauto. apply (wf_root_lt L root Hwf). }
  destruct (fold_clean _ _ Hbfs Hinit) as (iL & iR & E). rewrite E.
  exists iL, iR. unfold delete_phase. apply fold_left_id.
  intros n Hn. cbn [mkst W l2r] in *. apply rpost_desc in Hn. rewrite (l2r0_doc n Hn). reflexivity.
Qed.

Theorem diff_given_equal lns :
  ns_ok lns -> diff_given ign R root L root lns lns m = Some ([], L).
Proof.
  intros Hns. unfold diff_given. rewrite (ns_prologue_same lns Hns).
  destruct gen_script_equal as (iL & iR & E). rewrite E. reflexivity.
Qed.

End Script.
