(* Totality, part 4: diff_main always returns -- the fuel that cuts its recursion
   suffices and nothing indexes out of range -- PROVIDED the middle-snake search
   diff_bisect does ([bisect_safe], the one obligation left open here). *)
From Coq Require Import List ZArith NArith Bool Lia.
Import ListNotations.
Require Import XV.DMP XV.DMPBase XV.DMPCommon XV.DMPMerge XV.DMPSemantic XV.DMPMain
               XV.DMPTotal XV.DMPTotalMerge XV.DMPTotalSem.
Local Open Scope Z_scope.

(* ------------------------------------------------------------------ *)
(** * the obligation on diff_bisect *)

(* On the inputs diff_compute hands to diff_bisect (both of length >= 2, first characters
   different, last characters different, neither contained in the other) the search
   returns without an index error, and a split point it reports is inside the grid and
   is neither corner (so both recursive calls get strictly smaller problems). *)
Definition bisect_safe : Prop :=
  forall (text1 text2 : str) (clock : nat -> bool) (tick : nat),
    2 <= zlen text1 -> 2 <= zlen text2 -> nohead text1 text2 -> nolast text1 text2 ->
    find (if zlen text1 >? zlen text2 then text2 else text1)
         (if zlen text1 >? zlen text2 then text1 else text2) = -1 ->
    exists r tick', bisect_core text1 text2 clock tick = Ok (r, tick') /\
      match r with
      | KFound x y => 0 <= x <= zlen text1 /\ 0 <= y <= zlen text2 /\ 0 < x + y < zlen text1 + zlen text2
      | KNone => True
      end.

(* ------------------------------------------------------------------ *)
(** * diff_linesToChars, diff_charsToLines *)

Lemma munge_total text maxLines la0 : total (munge text maxLines la0).
Proof.
  unfold munge.
  apply (loop_total (fun s : list str * str * Z * Z => let '(_, _, lineStart, lineEnd) := s in
                       lineStart = lineEnd + 1 /\ -1 <= lineEnd)
                    (fun s : list str * str * Z * Z => let '(_, _, _, lineEnd) := s in Z.to_nat (zlen text - lineEnd))).
  - intros [[[la chars] lineStart] lineEnd] (Hls & Hle). unfold munge_step.
    destruct (lineEnd <? zlen text - 1) eqn:Elt; [|eexists; split; [reflexivity|exact I]].
    set (f := find_from [LF] text lineStart).
    set (le' := if f =? -1 then zlen text - 1 else f).
    assert (Hle' : lineStart <= le' < zlen text).
    { subst le'. destruct (find_from_spec [LF] text lineStart f eq_refl) as [Hf|(pre & post & Hf & Hfl & Hge)]; [lia| |].
      - rewrite Hf. cbn. lia.
      - destruct (f =? -1) eqn:Ef; [lia|]. split; [lia|].
        pose proof (f_equal zlen Hf) as Hz. rewrite !zlen_app, zlen_sing in Hz.
        pose proof (zlen_nonneg post). pose proof (zlen_nonneg pre). lia. }
    clearbody le'.
    destruct (hash_lookup (slice text lineStart (le' + 1)) la) as [k|].
    + eexists. split; [reflexivity|]. cbn beta iota. split; lia.
    + destruct (zlen la =? maxLines); (eexists; split; [reflexivity|]); cbn beta iota; split; lia.
  - split; lia.
  - unfold zlen. lia.
Qed.

Lemma linesToChars_total text1 text2 : total (linesToChars text1 text2).
Proof.
  unfold linesToChars.
  apply total_bind; [apply munge_total|]. intros [la c1] _.
  apply total_bind; [apply munge_total|]. intros [la2 c2] _. apply total_ok.
Qed.

Lemma charsToLines_total la d : Forall (fun s : seg => total (expand_chars la (snd s))) d -> total (charsToLines la d).
Proof.
  induction d as [|[o t] d IH]; intros H; cbn [charsToLines]; [apply total_ok|].
  inversion H as [|? ? H1 H2]; subst. cbn [snd] in H1.
  apply total_bind; [assumption|]. intros t' _.
  apply total_bind; [auto|]. intros r' _. apply total_ok.
Qed.

(* an encoded text is not longer than the text *)
Lemma munge_len text maxLines la0 la chars : munge text maxLines la0 = Ok (la, chars) -> zlen chars <= zlen text.
Proof.
  unfold munge.
  apply (loop_inv (fun s : list str * str * Z * Z => let '(_, chars, lineStart, lineEnd) := s in
                     lineStart = lineEnd + 1 /\ -1 <= lineEnd /\ zlen chars <= Z.min lineStart (zlen text))
                  (fun r : list str * str => let '(_, chars) := r in zlen chars <= zlen text)).
  - intros [[[la' chars'] lineStart] lineEnd] s' (Hls & Hle & Hc) Hs. unfold munge_step in Hs.
    destruct (lineEnd <? zlen text - 1) eqn:Elt; [|discriminate].
    set (f := find_from [LF] text lineStart) in Hs.
    set (le' := if f =? -1 then zlen text - 1 else f) in Hs.
    assert (Hle' : lineStart <= le' < zlen text).
    { subst le'. destruct (find_from_spec [LF] text lineStart f eq_refl) as [Hf|(pre & post & Hf & Hfl & Hge)]; [lia| |].
      - rewrite Hf. cbn. lia.
      - destruct (f =? -1) eqn:Ef; [lia|]. split; [lia|].
        pose proof (f_equal zlen Hf) as Hz. rewrite !zlen_app, zlen_sing in Hz.
        pose proof (zlen_nonneg post). pose proof (zlen_nonneg pre). lia. }
    clearbody le'.
    destruct (hash_lookup (slice text lineStart (le' + 1)) la') as [k|].
    + ok_inv. rewrite zlen_app, zlen_sing. lia.
    + destruct (zlen la' =? maxLines); ok_inv; rewrite zlen_app, zlen_sing; lia.
  - intros [[[la' chars'] lineStart] lineEnd] [la'' chars''] (Hls & Hle & Hc) Hs. unfold munge_step in Hs.
    destruct (lineEnd <? zlen text - 1) eqn:Elt.
    + exfalso. bind_discr Hs.
    + ok_inv. lia.
  - change (zlen (@nil N)) with 0. pose proof (zlen_nonneg text). lia.
Qed.

(* every segment of a diff of two expandable texts is expandable *)
Lemma proj_mem k o t (d : list seg) : In (o, t) d -> k o = true -> exists a b, proj k d = a ++ t ++ b.
Proof.
  induction d as [|[o' t'] d IH]; intros Hin Hk; [destruct Hin|].
  destruct Hin as [Heq|Hin].
  - inversion Heq; subst. exists [], (proj k d). rewrite proj_cons, Hk. reflexivity.
  - destruct (IH Hin Hk) as (a & b & E). rewrite proj_cons, E.
    exists ((if k o' then t' else []) ++ a), b. now rewrite <- app_assoc.
Qed.

Lemma segs_expandable la chars1 chars2 text1 text2 (d : list seg) :
  expand_chars la chars1 = Ok text1 -> expand_chars la chars2 = Ok text2 ->
  (forall k, good_keep k -> proj k d = sel k chars1 chars2) ->
  Forall (fun s : seg => total (expand_chars la (snd s))) d.
Proof.
  intros X1 X2 P. apply Forall_forall. intros [o t] Hin. cbn [snd].
  assert (Hk : exists k, good_keep k /\ k o = true).
  { destruct o; [exists keep1|exists keep2|exists keep1]; split; auto using good_keep1, good_keep2. }
  destruct Hk as (k & Hk & Hko).
  destruct (proj_mem k o t d Hin Hko) as (a & b & E).
  rewrite (P k Hk) in E.
  assert (Hx : total (expand_chars la (a ++ t ++ b))).
  { rewrite <- E. unfold sel. destruct (k DELETE); [now exists text1|now exists text2]. }
  destruct Hx as (r & Hr).
  apply expand_chars_app_inv in Hr as (ta & tb & _ & Hr & _).
  apply expand_chars_app_inv in Hr as (tc & td & Hr & _ & _). now exists tc.
Qed.

(* ------------------------------------------------------------------ *)
(** * the recursion *)

(* the measure that decreases along the recursion (diff_lineMode switches checklines off) *)
Definition msize (cl : bool) (a b : str) : Z :=
  if cl then 2 * (zlen a + zlen b) + 1 else zlen a + zlen b.

Definition rec_total_below (m : Z) (rec : rec_t) : Prop :=
  forall cl tick a b, msize cl a b < m -> total (rec cl tick a b).

Lemma msize_nonneg cl a b : 0 <= msize cl a b.
Proof. unfold msize. pose proof (zlen_nonneg a). pose proof (zlen_nonneg b). destruct cl; lia. Qed.

Lemma proj_len_le k (run d pre post : list seg) : d = pre ++ run ++ post -> zlen (proj k run) <= zlen (proj k d).
Proof.
  intros ->. rewrite !proj_app, !zlen_app.
  pose proof (zlen_nonneg (proj k pre)). pose proof (zlen_nonneg (proj k post)). lia.
Qed.

Section TMain.
  Variable cc : charcls.
  Variable clock : nat -> bool.
  Variable rec : rec_t.
  Hypothesis Hrec : rec_ok rec.
  Hypothesis Hbis : bisect_safe.

  (* the re-diff loop of diff_lineMode *)
  Section TLineLoop.
    Variables (text1 text2 : str) (d0 : list seg).
    Hypothesis Hd0 : forall k, good_keep k -> proj k d0 = sel k text1 text2.
    Hypothesis Hsub : forall tick (a b : str), zlen a <= zlen text1 -> zlen b <= zlen text2 -> total (rec false tick a b).

    Lemma linemode_step_total s : inv_lm d0 s -> exists r, linemode_step rec s = Ok r /\
      match r with
      | inl s' => inv_lm d0 s' /\ (let '(d', p', _, _, _, _, _) := s' in let '(d, p, _, _, _, _, _) := s in
                                   Z.to_nat (zlen d' - p') < Z.to_nat (zlen d - p))%nat
      | inr (d, _) => preserves d0 d /\ NEL0 d
      end.
    Proof.
      intros Hinv.
      destruct s as [[[[[[d p] cd] ci] td] ti] tick].
      pose proof Hinv as (pre & run & post & Hd & Hp & Hrl & Hcd & Hci & Hsel & Hpres & Hnel).
      unfold linemode_step.
      destruct (p <? zlen d) eqn:Elt; cbn [negb].
      2:{ eexists. split; [reflexivity|]. split; assumption. }
      destruct post as [|[o t] post].
      { exfalso. subst d. rewrite app_nil_r, zlen_app in Elt. lia. }
      assert (Hget : py_get d p = Ok (o, t)).
      { subst d. rewrite (app_assoc pre run). apply get0. rewrite zlen_app. lia. }
      rewrite Hget. cbn [bind].
      assert (Hstep : forall s', linemode_step rec (d, p, cd, ci, td, ti, tick) = Ok (inl s') -> inv_lm d0 s').
      { intros s' Hs. eapply inv_lm_step; eassumption. }
      unfold linemode_step in Hstep. rewrite Elt, Hget in Hstep. cbn [negb bind] in Hstep.
      pose proof (zlen_nonneg pre). pose proof (zlen_nonneg run). pose proof (zlen_nonneg post).
      destruct o.
      - eexists. split; [reflexivity|]. split; [apply Hstep; reflexivity|].
        subst d. rewrite !zlen_app, !zlen_cons. lia.
      - eexists. split; [reflexivity|]. split; [apply Hstep; reflexivity|].
        subst d. rewrite !zlen_app, !zlen_cons. lia.
      - destruct ((cd >=? 1) && (ci >=? 1)) eqn:Eb.
        + (* the sub-diff *)
          assert (Hlen : zlen td <= zlen text1 /\ zlen ti <= zlen text2).
          { pose proof (proj_len_le keep1 run d pre ((EQUAL, t) :: post) Hd) as L1.
            pose proof (proj_len_le keep2 run d pre ((EQUAL, t) :: post) Hd) as L2.
            rewrite (Hsel keep1 good_keep1), (Hpres keep1 good_keep1), (Hd0 keep1 good_keep1) in L1.
            rewrite (Hsel keep2 good_keep2), (Hpres keep2 good_keep2), (Hd0 keep2 good_keep2) in L2.
            cbn in L1, L2. split; assumption. }
          destruct (Hsub tick td ti (proj1 Hlen) (proj2 Hlen)) as ([sub tick1] & Esub).
          rewrite Esub in *. cbn [bind] in *.
          eexists. split; [reflexivity|]. split; [apply Hstep; reflexivity|].
          subst d. replace (zlen pre + zlen run - cd - ci) with (zlen pre) by lia.
          rewrite slice_assign0 by lia.
          pose proof (zlen_nonneg sub). rewrite !zlen_app, !zlen_cons. lia.
        + eexists. split; [reflexivity|]. split; [apply Hstep; reflexivity|].
          subst d. rewrite !zlen_app, !zlen_cons. lia.
    Qed.
  End TLineLoop.

  Lemma lineMode_total tick (text1 text2 : str) :
    (forall tick' (a b : str), zlen a <= zlen text1 -> zlen b <= zlen text2 -> total (rec false tick' a b)) ->
    total (lineMode cc rec tick text1 text2).
  Proof.
    intros Hsub. unfold lineMode.
    destruct (linesToChars_total text1 text2) as ([[chars1 chars2] la] & E1). rewrite E1. cbn [bind].
    pose proof (linesToChars_spec _ _ _ _ _ E1) as [X1 X2].
    assert (Hcl : zlen chars1 <= zlen text1 /\ zlen chars2 <= zlen text2).
    { unfold linesToChars in E1. inv_bind E1 as r1 M1. destruct r1 as [la1 c1].
      inv_bind E1 as r2 M2. destruct r2 as [la2 c2]. ok_inv.
      apply munge_len in M1, M2. split; assumption. }
    destruct (Hsub tick chars1 chars2 (proj1 Hcl) (proj2 Hcl)) as ([d1 tick1] & E2). rewrite E2. cbn [bind].
    pose proof (Hrec _ _ _ _ _ _ E2) as [P1 _].
    destruct (charsToLines_total la d1 (segs_expandable la chars1 chars2 text1 text2 d1 X1 X2 P1)) as (d2 & E3).
    rewrite E3. cbn [bind].
    assert (P2 : forall k, good_keep k -> proj k d2 = sel k text1 text2).
    { intros k Hk. pose proof (charsToLines_proj la d1 d2 k E3) as Hc. rewrite (P1 k Hk) in Hc.
      unfold sel in *. destruct (k DELETE); congruence. }
    destruct (cleanupSemantic_total cc d2) as (d3 & E4). rewrite E4. cbn [bind].
    pose proof (cleanupSemantic_spec _ _ _ E4) as [P3 N3].
    assert (P4 : forall k, good_keep k -> proj k (d3 ++ [(EQUAL, [])]) = sel k text1 text2).
    { intros k Hk. rewrite proj_app, !proj_cons, proj_nil, (gk_eq _ Hk), !app_nil_r. now rewrite (P3 k Hk), (P2 k Hk). }
    destruct (loop_total_post (inv_lm (d3 ++ [(EQUAL, [])]))
                (fun r : list seg * nat => let '(d, _) := r in preserves (d3 ++ [(EQUAL, [])]) d /\ NEL0 d)
                (fun s : lmstate => let '(d, p, _, _, _, _, _) := s in Z.to_nat (zlen d - p))
                (linemode_step rec))
      with (fuel := S (length (d3 ++ [(EQUAL, [])]))) (s := (d3 ++ [(EQUAL, [])], 0, 0, 0, @nil N, @nil N, tick1))
      as ([d5 tick5] & E5 & _ & (body & -> & _)).
    - intros s Hs. destruct (linemode_step_total text1 text2 (d3 ++ [(EQUAL, [])]) P4 Hsub s Hs) as (r & Er & Hr).
      exists r. split; [assumption|]. destruct r as [s'|[dd tt]]; [|assumption].
      destruct Hr as [Hi Hm]. split; [assumption|].
      destruct s' as [[[[[[d' p'] ?] ?] ?] ?] ?], s as [[[[[[d p] ?] ?] ?] ?] ?]. exact Hm.
    - exists [], [], (d3 ++ [(EQUAL, [])]). cbn [app]. change (zlen (@nil seg)) with 0.
      repeat split; auto; try lia; try (intros k Hk; unfold sel; now destruct (k DELETE));
        try apply preserves_refl; try (exists d3; split; [reflexivity|assumption]).
    - unfold zlen. lia.
    - rewrite E5. cbn [bind]. rewrite py_pop_app. cbn [bind]. apply total_ok.
  Qed.

  Lemma bisect_total tick (text1 text2 : str) :
    2 <= zlen text1 -> 2 <= zlen text2 -> nohead text1 text2 -> nolast text1 text2 ->
    find (if zlen text1 >? zlen text2 then text2 else text1)
         (if zlen text1 >? zlen text2 then text1 else text2) = -1 ->
    rec_total_below (zlen text1 + zlen text2) rec ->
    total (bisect clock rec tick text1 text2).
  Proof.
    intros H1 H2 Hh Hl Hf Hbelow. unfold bisect.
    destruct (Hbis text1 text2 clock tick H1 H2 Hh Hl Hf) as (r & tick' & E & Hr). rewrite E. cbn [bind].
    destruct r as [x y|]; [|apply total_ok].
    destruct Hr as (Hx & Hy & Hxy). unfold bisectSplit.
    apply total_bind.
    - apply Hbelow. unfold msize. rewrite !slice_to_len, !clampi_in by lia. lia.
    - intros [da ta] _. apply total_bind.
      + apply Hbelow. unfold msize. rewrite !slice_from_len, !clampi_in by lia. lia.
      + intros [db tb] _. apply total_ok.
  Qed.

  Lemma compute_total cl tick (text1 text2 : str) : stripped text1 text2 ->
    rec_total_below (msize cl text1 text2) rec ->
    total (compute cc clock rec cl tick text1 text2).
  Proof.
    intros (Hne & Hh & Hl) Hbelow. unfold compute.
    destruct text1 as [|c1 t1']; [apply total_ok|]. destruct text2 as [|c2 t2']; [apply total_ok|].
    set (text1 := (c1 :: t1' : str)) in *. set (text2 := (c2 :: t2' : str)) in *.
    assert (Hn1 : text1 <> []) by discriminate. assert (Hn2 : text2 <> []) by discriminate.
    clearbody text1 text2. cbv zeta.
    set (swap := zlen text1 >? zlen text2).
    set (longtext := if swap then text1 else text2).
    set (shorttext := if swap then text2 else text1).
    destruct (find shorttext longtext =? -1) eqn:Ef; cbn [negb]; [|apply total_ok].
    apply Z.eqb_eq in Ef.
    destruct (zlen shorttext =? 1) eqn:Es1; [apply total_ok|].
    destruct (halfMatch_total text1 text2) as (hm & Ehm). rewrite Ehm. cbn [bind].
    pose proof (zlen_nonneg text1) as Z1. pose proof (zlen_nonneg text2) as Z2.
    destruct hm as [[[[[a1 b1] a2] b2] c]|].
    - apply halfMatch_spec in Ehm as (E1 & E2 & Hc).
      assert (Hcl : 1 <= zlen c).
      { destruct c; [congruence|]. rewrite zlen_cons. pose proof (zlen_nonneg c). lia. }
      pose proof (f_equal zlen E1) as L1. pose proof (f_equal zlen E2) as L2. rewrite !zlen_app in L1, L2.
      pose proof (zlen_nonneg a1). pose proof (zlen_nonneg a2). pose proof (zlen_nonneg b1). pose proof (zlen_nonneg b2).
      apply total_bind.
      + apply Hbelow. unfold msize. destruct cl; lia.
      + intros [da ta] _. apply total_bind.
        * apply Hbelow. unfold msize. destruct cl; lia.
        * intros [db tb] _. apply total_ok.
    - destruct (cl && (zlen text1 >? 100) && (zlen text2 >? 100)) eqn:Ecl.
      + apply lineMode_total. intros tick' a b Ha Hb. apply Hbelow.
        destruct cl; [|discriminate]. unfold msize. pose proof (zlen_nonneg a). pose proof (zlen_nonneg b). lia.
      + assert (Hlen : 2 <= zlen text1 /\ 2 <= zlen text2).
        { assert (1 <= zlen text1) by (destruct text1; [congruence|rewrite zlen_cons; pose proof (zlen_nonneg text1); lia]).
          assert (1 <= zlen text2) by (destruct text2; [congruence|rewrite zlen_cons; pose proof (zlen_nonneg text2); lia]).
          subst shorttext swap. destruct (zlen text1 >? zlen text2) eqn:Eg; lia. }
        apply bisect_total; try tauto.
        intros cl' tick' a b Hm. apply Hbelow. unfold msize in *. destruct cl; lia.
  Qed.

  Lemma main_body_total cl tick (a b : str) :
    rec_total_below (msize cl a b) rec -> total (main_body cc clock rec cl tick a b).
  Proof.
    intros Hbelow. unfold main_body.
    destruct (str_eqb a b) eqn:Eeq; [destruct a; apply total_ok|].
    apply str_eqb_neq in Eeq.
    destruct (commonPrefix_total a b) as (n1 & E1). rewrite E1. cbn [bind].
    apply commonPrefix_spec in E1 as (c & r1 & r2 & -> & -> & Hc & Hh).
    rewrite slice_to_app by lia. rewrite !slice_from_app by lia.
    destruct (commonSuffix_total r1 r2) as (n2 & E2). rewrite E2. cbn [bind].
    apply commonSuffix_spec in E2 as (s & m1 & m2 & -> & -> & Hs & Hl).
    assert (Hst : (if n2 =? 0 then ([], m1 ++ s, m2 ++ s)
                   else (slice_from (m1 ++ s) (- n2), slice_to (m1 ++ s) (- n2), slice_to (m2 ++ s) (- n2)))
                  = (s, m1, m2)).
    { destruct (n2 =? 0) eqn:En.
      - assert (s = []) by (apply zlen_0; lia). subst s. now rewrite !app_nil_r.
      - assert (s <> []). { intros ->. change (zlen (@nil N)) with 0 in Hs. lia. }
        rewrite slice_from_app_neg, !slice_to_app_neg by (auto; lia). reflexivity. }
    rewrite Hst. clear Hst.
    assert (Hstr : stripped m1 m2).
    { split; [|split].
      - destruct m1, m2; try (left; discriminate); try (right; discriminate). exfalso. now apply Eeq.
      - destruct m1 as [|x m1]; [exact I|]. destruct m2 as [|y m2]; [exact I|]. exact Hh.
      - exact Hl. }
    apply total_bind.
    - apply compute_total; [assumption|].
      intros cl' tick' a' b' Hm. apply Hbelow.
      unfold msize in *. rewrite !zlen_app.
      pose proof (zlen_nonneg c). pose proof (zlen_nonneg s). destruct cl; lia.
    - intros [diffs tick1] _. apply total_bind; [apply cleanupMerge_total|]. intros d' _. apply total_ok.
  Qed.
End TMain.

Lemma diff_main_f_total cc clock : bisect_safe ->
  forall fuel cl tick (a b : str), msize cl a b < Z.of_nat fuel -> total (diff_main_f cc clock fuel cl tick a b).
Proof.
  intros Hbis. induction fuel as [|f IH]; intros cl tick a b Hm; [pose proof (msize_nonneg cl a b); lia|].
  cbn [diff_main_f]. apply main_body_total; [apply diff_main_f_ok|assumption|].
  intros cl' tick' a' b' Hm'. apply IH. lia.
Qed.

Theorem diff_main_total cc clock (a b : str) : bisect_safe -> total (diff_main cc clock a b).
Proof.
  intros Hbis. unfold diff_main.
  apply total_bind.
  - apply diff_main_f_total; [assumption|]. unfold msize, main_fuel, zlen. lia.
  - intros [d tick] _. apply total_ok.
Qed.
