(* Soundness (and, for prefix/suffix, maximality) of the string helpers of the
   DMP model: find, diff_commonPrefix, diff_commonSuffix, diff_commonOverlap,
   diff_halfMatch. *)
From Coq Require Import List ZArith NArith Bool Lia.
Import ListNotations.
Require Import XV.DMP XV.DMPBase.
Local Open Scope Z_scope.

Ltac Zify.zify_post_hook ::= Z.to_euclidean_division_equations.

(* ------------------------------------------------------------------ *)
(** * slices with bounds in range, in terms of firstn/skipn *)

Section SliceIn.
  Context {A : Type}.
  Implicit Types (s : list A).

  Lemma slice_to_in s j : 0 <= j <= zlen s -> slice_to s j = firstn (Z.to_nat j) s.
  Proof. intros H. unfold slice_to. now rewrite clampi_in. Qed.

  Lemma slice_from_in s i : 0 <= i <= zlen s -> slice_from s i = skipn (Z.to_nat i) s.
  Proof. intros H. unfold slice_from. now rewrite clampi_in. Qed.

  Lemma slice_in s i j : 0 <= i <= j -> j <= zlen s ->
    slice s i j = firstn (Z.to_nat (j - i)) (skipn (Z.to_nat i) s).
  Proof. intros H1 H2. unfold slice. now rewrite !clampi_in by lia. Qed.

  Lemma clampi_neg len n : 0 < n <= len -> clampi len (- n) = len - n.
  Proof. intros H. unfold clampi. destruct (- n <? 0) eqn:E; lia. Qed.

  Lemma slice_from_neg s n : 0 < n <= zlen s -> slice_from s (- n) = skipn (Z.to_nat (zlen s - n)) s.
  Proof. intros H. unfold slice_from. now rewrite clampi_neg. Qed.

  Lemma slice_to_neg s n : 0 < n <= zlen s -> slice_to s (- n) = firstn (Z.to_nat (zlen s - n)) s.
  Proof. intros H. unfold slice_to. now rewrite clampi_neg. Qed.

  Lemma slice_neg s n e : 0 < n <= zlen s -> 0 <= e <= n ->
    slice s (- n) (zlen s - e) = firstn (Z.to_nat (n - e)) (skipn (Z.to_nat (zlen s - n)) s).
  Proof.
    intros H1 H2. unfold slice. rewrite clampi_neg by lia. rewrite clampi_in by lia.
    f_equal. lia.
  Qed.

  Lemma firstn_split (a b : nat) s : (a <= b)%nat ->
    firstn b s = firstn a s ++ firstn (b - a) (skipn a s).
  Proof.
    intros H. rewrite <- (firstn_skipn a s) at 1.
    rewrite firstn_app. rewrite firstn_length.
    destruct (Nat.le_gt_cases a (length s)) as [Hl|Hl].
    - rewrite Nat.min_l by lia. rewrite firstn_firstn, Nat.min_r by lia. reflexivity.
    - rewrite Nat.min_r by lia. rewrite firstn_firstn, Nat.min_r by lia.
      rewrite (skipn_all2 s) by lia. now rewrite !firstn_nil.
  Qed.

  Lemma skipn_skipn' (a b : nat) s : skipn a (skipn b s) = skipn (b + a) s.
  Proof.
    revert s. induction b as [|b IH]; intros s; [reflexivity|].
    destruct s as [|x s]; [now rewrite !skipn_nil|]. cbn. apply IH.
  Qed.

  Lemma skipn_split (a b : nat) s : (a <= b)%nat ->
    skipn a s = firstn (b - a) (skipn a s) ++ skipn b s.
  Proof.
    intros H. rewrite <- (firstn_skipn (b - a) (skipn a s)) at 1. f_equal.
    rewrite skipn_skipn'. f_equal. lia.
  Qed.
End SliceIn.

(* ------------------------------------------------------------------ *)
(** * str.find *)

Lemma find_aux_spec p s i r : find_aux p s i = r ->
  r = -1 \/ exists pre post, s = pre ++ p ++ post /\ r = i + zlen pre.
Proof.
  revert i. induction s as [|c s IH]; intros i H; cbn in H.
  - destruct (prefixb p []) eqn:E.
    + right. apply prefixb_spec in E as (r' & E). exists [], r'. cbn. split; [assumption|]. znil. lia.
    + left. congruence.
  - destruct (prefixb p (c :: s)) eqn:E.
    + right. apply prefixb_spec in E as (r' & E). exists [], r'. cbn. split; [assumption|]. znil. lia.
    + apply IH in H as [H | (pre & post & -> & ->)]; [now left|].
      right. exists (c :: pre), post. split; [reflexivity|]. rewrite zlen_cons. lia.
Qed.

Lemma find_spec p s r : find p s = r ->
  r = -1 \/ exists pre post, s = pre ++ p ++ post /\ r = zlen pre.
Proof.
  unfold find, find_from. intros H.
  pose proof (zlen_nonneg s).
  destruct (zlen s <? 0) eqn:E; [lia|].
  rewrite clampi_in in H by lia. cbn in H.
  apply find_aux_spec in H as [H | (pre & post & -> & ->)]; [now left|].
  right. exists pre, post. split; [reflexivity|lia].
Qed.

Lemma find_from_spec p s st r : find_from p s st = r -> 0 <= st ->
  r = -1 \/ exists pre post, s = pre ++ p ++ post /\ r = zlen pre /\ st <= r.
Proof.
  unfold find_from. intros H Hst.
  destruct (zlen s <? st) eqn:E; [now left|].
  rewrite clampi_in in H by lia.
  apply find_aux_spec in H as [H | (pre & post & Hs & ->)]; [now left|].
  right. exists (firstn (Z.to_nat st) s ++ pre), post.
  rewrite <- app_assoc, <- Hs, firstn_skipn. split; [reflexivity|].
  rewrite zlen_app. unfold zlen at 2. rewrite firstn_length. unfold zlen in E.
  pose proof (zlen_nonneg pre). split; lia.
Qed.

(* ------------------------------------------------------------------ *)
(** * the binary search shared by diff_commonPrefix and diff_commonSuffix *)

Definition bs_step (P : Z -> Z -> bool) (s : Z * Z * Z * Z) : result ((Z * Z * Z * Z) + Z) :=
  let '(pmin, pmax, pmid, pstart) := s in
  if pmin <? pmid then
    let '(pmin, pmax, pstart) :=
      if P pstart pmid then (pmid, pmax, pmid) else (pmin, pmid, pstart) in
    Ok (inl (pmin, pmax, (pmax - pmin) / 2 + pmin, pstart))
  else Ok (inr pmid).

Lemma cp_step_bs t1 t2 s :
  cp_step t1 t2 s = bs_step (fun a b => str_eqb (slice t1 a b) (slice t2 a b)) s.
Proof. destruct s as [[[a b] c] d]. reflexivity. Qed.

Lemma cs_step_bs t1 t2 s :
  cs_step t1 t2 s = bs_step (fun a b => str_eqb (slice t1 (- b) (zlen t1 - a)) (slice t2 (- b) (zlen t2 - a))) s.
Proof. destruct s as [[[a b] c] d]. reflexivity. Qed.

Lemma loop_ext {St R} (f g : St -> result (St + R)) : (forall s, f s = g s) ->
  forall fuel s, loop fuel f s = loop fuel g s.
Proof. intros H. induction fuel as [|n IH]; intros s; cbn; [reflexivity|]. rewrite H. destruct (g s) as [[s'|r]|]; auto. Qed.

Section BinSearch.
  Variables (P : Z -> Z -> bool) (E : Z -> Prop) (m : Z).
  Hypothesis Hm : 1 <= m.
  Hypothesis E0 : E 0.
  Hypothesis HP : forall a b, 0 <= a < b -> b <= m -> E a -> (P a b = true <-> E b).

  Definition bs_inv (s : Z * Z * Z * Z) : Prop :=
    let '(pmin, pmax, pmid, pstart) := s in
    0 <= pmin <= pmid /\ pmid <= pmax <= m /\ pstart = pmin /\ E pmin /\
    ((pmid = pmax /\ pmax = m) \/ (pmid = (pmax - pmin) / 2 + pmin /\ (~ E pmax \/ pmin = m))).

  Lemma bs_sound fuel n : loop fuel (bs_step P) (0, m, m, 0) = Ok n ->
    0 <= n <= m /\ E n /\ (n = m \/ ~ E (n + 1)).
  Proof.
    apply (loop_inv bs_inv (fun n => 0 <= n <= m /\ E n /\ (n = m \/ ~ E (n + 1)))).
    - intros [[[pmin pmax] pmid] pstart] s' (H1 & H2 & -> & He & Hc) Hs. cbn in Hs.
      destruct (pmin <? pmid) eqn:Elt; [|discriminate].
      destruct (P pmin pmid) eqn:Ep; ok_inv; cbn.
      + assert (Hlt : 0 <= pmin < pmid) by lia. assert (Hle : pmid <= m) by lia.
        apply (proj1 (HP pmin pmid Hlt Hle He)) in Ep.
        repeat split; try lia; try assumption.
        right. split; [reflexivity|]. destruct Hc as [[-> ->]|[_ [Hc|Hc]]]; [right; reflexivity|now left|lia].
      + assert (Hn : ~ E pmid).
        { assert (Hlt : 0 <= pmin < pmid) by lia. assert (Hle : pmid <= m) by lia.
          intros Hb. apply (proj2 (HP pmin pmid Hlt Hle He)) in Hb. congruence. }
        repeat split; try lia; try assumption.
        right. split; [reflexivity|]. now left.
    - intros [[[pmin pmax] pmid] pstart] r (H1 & H2 & -> & He & Hc) Hs. cbn in Hs.
      destruct (pmin <? pmid) eqn:Elt; [destruct (P pmin pmid); discriminate|]. ok_inv.
      assert (pmid = pmin) by lia. subst pmid.
      split; [lia|]. split; [assumption|].
      destruct Hc as [[Hc1 Hc2]|[Hd [Hc|Hc]]].
      + left. lia.
      + assert (pmax = pmin \/ pmax = pmin + 1) as [Hx|Hx] by lia; subst pmax; [contradiction|now right].
      + left. lia.
    - cbn. repeat split; try lia; try assumption.
  Qed.
End BinSearch.

(* ------------------------------------------------------------------ *)
(** * diff_commonPrefix *)

(* the first characters (if any) differ *)
Definition nohead (r1 r2 : str) : Prop :=
  match r1, r2 with x :: _, y :: _ => x <> y | _, _ => True end.
(* the last characters (if any) differ *)
Definition nolast (r1 r2 : str) : Prop := nohead (rev r1) (rev r2).

Lemma firstn_eq_decomp (n : nat) (t1 t2 : str) : (n <= length t1)%nat -> (n <= length t2)%nat ->
  firstn n t1 = firstn n t2 ->
  exists c r1 r2, t1 = c ++ r1 /\ t2 = c ++ r2 /\ length c = n.
Proof.
  intros H1 H2 He. exists (firstn n t1), (skipn n t1), (skipn n t2).
  split; [now rewrite firstn_skipn|]. split; [now rewrite He, firstn_skipn|].
  rewrite firstn_length. lia.
Qed.

Lemma commonPrefix_spec t1 t2 n : commonPrefix t1 t2 = Ok n ->
  exists c r1 r2, t1 = c ++ r1 /\ t2 = c ++ r2 /\ zlen c = n /\ nohead r1 r2.
Proof.
  unfold commonPrefix.
  destruct t1 as [|x t1']; [intros H; ok_inv; exists [], [], t2; cbn; auto|].
  destruct t2 as [|y t2']; [intros H; ok_inv; exists [], (x :: t1'), []; cbn; auto|].
  destruct (N.eqb x y) eqn:Exy.
  2:{ intros H; ok_inv. exists [], (x :: t1'), (y :: t2'). cbn. repeat split.
      intros ->. rewrite N.eqb_refl in Exy. discriminate. }
  apply N.eqb_eq in Exy. subst y.
  set (t1 := x :: t1'). set (t2 := x :: t2').
  set (m := Z.min (zlen t1) (zlen t2)).
  intros H. rewrite (loop_ext _ _ (cp_step_bs t1 t2)) in H.
  assert (Hm : 1 <= m).
  { subst m t1 t2. rewrite !zlen_cons. pose proof (zlen_nonneg t1'). pose proof (zlen_nonneg t2'). lia. }
  apply (bs_sound _ (fun k => firstn (Z.to_nat k) t1 = firstn (Z.to_nat k) t2) m Hm) in H.
  - destruct H as (Hn & He & Hmax).
    assert (Hl1 : (Z.to_nat n <= length t1)%nat) by (unfold zlen in m; lia).
    assert (Hl2 : (Z.to_nat n <= length t2)%nat) by (unfold zlen in m; lia).
    destruct (firstn_eq_decomp _ _ _ Hl1 Hl2 He) as (c & r1 & r2 & E1 & E2 & Hc).
    exists c, r1, r2. repeat split; try assumption; [unfold zlen; lia|].
    destruct r1 as [|a r1]; [exact I|]. destruct r2 as [|b r2]; [exact I|]. cbn.
    intros ->. destruct Hmax as [Hmax|Hmax].
    + subst m. rewrite E1, E2 in Hmax. rewrite !zlen_app, !zlen_cons in Hmax.
      pose proof (zlen_nonneg r1). pose proof (zlen_nonneg r2). unfold zlen in Hmax at 1 3. lia.
    + apply Hmax. rewrite E1, E2.
      replace (Z.to_nat (n + 1)) with (length c + 1)%nat by lia.
      rewrite !firstn_app, !firstn_all2 by lia.
      replace (length c + 1 - length c)%nat with 1%nat by lia. reflexivity.
  - reflexivity.
  - intros a b Hab Hb Ha. cbn beta.
    assert (Hb1 : b <= zlen t1) by lia. assert (Hb2 : b <= zlen t2) by lia.
    rewrite !slice_in by lia.
    rewrite (firstn_split (Z.to_nat a) (Z.to_nat b) t1) by lia.
    rewrite (firstn_split (Z.to_nat a) (Z.to_nat b) t2) by lia.
    replace (Z.to_nat b - Z.to_nat a)%nat with (Z.to_nat (b - a)) by lia.
    rewrite Ha. rewrite str_eqb_eq. split.
    + intros ->. reflexivity.
    + intros Heq. apply app_inv_head in Heq. assumption.
Qed.

(* ------------------------------------------------------------------ *)
(** * diff_commonSuffix *)

Definition lastn {A} (n : nat) (s : list A) : list A := skipn (length s - n) s.

Lemma lastn_length {A} n (s : list A) : (n <= length s)%nat -> length (lastn n s) = n.
Proof. intros H. unfold lastn. rewrite skipn_length. lia. Qed.

Lemma lastn_decomp {A} n (s : list A) : (n <= length s)%nat -> s = firstn (length s - n) s ++ lastn n s.
Proof. intros H. unfold lastn. now rewrite firstn_skipn. Qed.

Lemma lastn_app {A} (a b : list A) : lastn (length b) (a ++ b) = b.
Proof.
  unfold lastn. rewrite app_length. replace (length a + length b - length b)%nat with (length a) by lia.
  apply skipn_mid.
Qed.

Lemma py_get_last_cons (x : N) (t : str) : exists pre l, x :: t = pre ++ [l] /\ py_get (x :: t) (-1) = Ok l.
Proof.
  destruct (exists_last (l := x :: t)) as (pre & l & E); [discriminate|].
  exists pre, l. split; [assumption|]. rewrite E. apply get_last.
Qed.

Lemma commonSuffix_spec t1 t2 n : commonSuffix t1 t2 = Ok n ->
  exists c r1 r2, t1 = r1 ++ c /\ t2 = r2 ++ c /\ zlen c = n /\ nolast r1 r2.
Proof.
  unfold commonSuffix, nolast.
  destruct t1 as [|x t1']; [intros H; ok_inv; exists [], [], t2; rewrite !app_nil_r; cbn; auto|].
  destruct t2 as [|y t2']; [intros H; ok_inv; exists [], (x :: t1'), []; rewrite !app_nil_r; cbn; repeat split; destruct (rev t1' ++ [x]); exact I|].
  destruct (py_get_last_cons x t1') as (p1 & l1 & E1 & G1).
  destruct (py_get_last_cons y t2') as (p2 & l2 & E2 & G2).
  rewrite G1, G2. cbn [bind].
  destruct (N.eqb l1 l2) eqn:Exy.
  2:{ intros H; ok_inv. exists [], (x :: t1'), (y :: t2'). rewrite !app_nil_r. repeat split.
      rewrite E1, E2, !rev_app_distr. cbn.
      intros ->. rewrite N.eqb_refl in Exy. discriminate. }
  apply N.eqb_eq in Exy. subst l2.
  set (t1 := x :: t1') in *. set (t2 := y :: t2') in *.
  set (m := Z.min (zlen t1) (zlen t2)).
  intros H. rewrite (loop_ext _ _ (cs_step_bs t1 t2)) in H.
  assert (Hm : 1 <= m).
  { subst m t1 t2. rewrite !zlen_cons. pose proof (zlen_nonneg t1'). pose proof (zlen_nonneg t2'). lia. }
  apply (bs_sound _ (fun k => lastn (Z.to_nat k) t1 = lastn (Z.to_nat k) t2) m Hm) in H.
  - destruct H as (Hn & He & Hmax).
    assert (Hl1 : (Z.to_nat n <= length t1)%nat) by (unfold zlen in m; lia).
    assert (Hl2 : (Z.to_nat n <= length t2)%nat) by (unfold zlen in m; lia).
    pose proof (lastn_decomp _ _ Hl1) as D1. pose proof (lastn_decomp _ _ Hl2) as D2.
    set (c := lastn (Z.to_nat n) t1) in *.
    set (r1 := firstn (length t1 - Z.to_nat n) t1) in *.
    set (r2 := firstn (length t2 - Z.to_nat n) t2) in *.
    rewrite <- He in D2.
    assert (Hc : length c = Z.to_nat n) by (now apply lastn_length).
    exists c, r1, r2. repeat split; try assumption; [unfold zlen; lia|].
    destruct (rev r1) as [|a rr1] eqn:Er1; [exact I|]. destruct (rev r2) as [|b rr2] eqn:Er2; [exact I|]. cbn.
    intros ->.
    assert (R1 : r1 = rev rr1 ++ [b]). { rewrite <- (rev_involutive r1), Er1. reflexivity. }
    assert (R2 : r2 = rev rr2 ++ [b]). { rewrite <- (rev_involutive r2), Er2. reflexivity. }
    destruct Hmax as [Hmax|Hmax].
    + assert (length r1 = 0 \/ length r2 = 0)%nat as [Hz|Hz].
      { subst m. rewrite D1 in Hmax at 1. rewrite D2 in Hmax at 1. rewrite !zlen_app in Hmax. unfold zlen in Hmax. lia. }
      * rewrite R1, app_length in Hz. cbn in Hz. lia.
      * rewrite R2, app_length in Hz. cbn in Hz. lia.
    + apply Hmax. clearbody c r1 r2. clearbody t1 t2. subst r1 r2. subst t1 t2.
      replace (Z.to_nat (n + 1)) with (length ([b] ++ c)) by (rewrite app_length; cbn; lia).
      rewrite D1, D2, <- !app_assoc. rewrite !lastn_app. reflexivity.
  - unfold lastn. cbn [Z.to_nat]. rewrite !Nat.sub_0_r, !skipn_all. reflexivity.
  - intros a b Hab Hb Ha. cbn beta.
    assert (Hb1 : b <= zlen t1) by lia. assert (Hb2 : b <= zlen t2) by lia.
    rewrite !slice_neg by lia.
    unfold lastn in *.
    assert (S1 := skipn_split (length t1 - Z.to_nat b) (length t1 - Z.to_nat a) t1).
    assert (S2 := skipn_split (length t2 - Z.to_nat b) (length t2 - Z.to_nat a) t2).
    unfold zlen in Hb1, Hb2.
    replace (length t1 - Z.to_nat a - (length t1 - Z.to_nat b))%nat with (Z.to_nat (b - a)) in S1 by lia.
    replace (length t2 - Z.to_nat a - (length t2 - Z.to_nat b))%nat with (Z.to_nat (b - a)) in S2 by lia.
    replace (Z.to_nat (zlen t1 - b)) with (length t1 - Z.to_nat b)%nat by (unfold zlen; lia).
    replace (Z.to_nat (zlen t2 - b)) with (length t2 - Z.to_nat b)%nat by (unfold zlen; lia).
    rewrite str_eqb_eq. split.
    + intros Heq. rewrite S1, S2 by lia. rewrite Heq. f_equal. exact Ha.
    + intros Heq. rewrite Heq. reflexivity.
Qed.

(* ------------------------------------------------------------------ *)
(** * diff_commonOverlap *)

Section SliceSpecs.
  Context {A : Type}.
  Implicit Types (s : list A).

  (* s[-n:] for n > 0: the last n elements, or everything when n > len(s) *)
  Lemma slice_from_neg_spec s n : 0 < n ->
    exists a, s = a ++ slice_from s (- n) /\ (zlen (slice_from s (- n)) = n \/ (zlen s < n /\ a = [])).
  Proof.
    intros Hn. pose proof (zlen_nonneg s) as Hs.
    exists (slice_to s (- n)). split; [now rewrite slice_to_from|].
    rewrite slice_from_len. unfold slice_to, clampi.
    destruct (- n <? 0) eqn:E; [|lia].
    destruct (Z_le_gt_dec n (zlen s)).
    - left. lia.
    - right. split; [lia|]. replace (Z.max 0 (- n + zlen s)) with 0 by lia. reflexivity.
  Qed.

  (* s[:n] for n >= 0 *)
  Lemma slice_to_spec s n : 0 <= n ->
    exists b, s = slice_to s n ++ b /\ (zlen (slice_to s n) = n \/ (zlen s < n /\ b = [])).
  Proof.
    intros Hn. pose proof (zlen_nonneg s) as Hs.
    exists (slice_from s n). split; [now rewrite slice_to_from|].
    rewrite slice_to_len. unfold slice_from, clampi.
    destruct (n <? 0) eqn:E; [lia|].
    destruct (Z_le_gt_dec n (zlen s)).
    - left. lia.
    - right. split; [lia|]. rewrite Z.min_r by lia. rewrite to_nat_zlen. apply skipn_all.
  Qed.

  Lemma slice_mid (a m b : list A) i j : i = zlen a -> j = zlen a + zlen m -> slice (a ++ m ++ b) i j = m.
  Proof.
    intros -> ->. pose proof (zlen_nonneg a). pose proof (zlen_nonneg m). pose proof (zlen_nonneg b).
    rewrite slice_in by (rewrite ?zlen_app; lia).
    rewrite to_nat_zlen, skipn_mid.
    replace (Z.to_nat (zlen a + zlen m - zlen a)) with (length m) by (unfold zlen; lia).
    apply firstn_mid.
  Qed.
End SliceSpecs.

Lemma same_len_app_eq {A} (a c b : list A) : a ++ c = c ++ b -> a = [] -> b = [].
Proof.
  intros H ->. cbn in H. apply (f_equal (@length A)) in H. rewrite app_length in H.
  destruct b; [reflexivity|]. cbn in H. lia.
Qed.

Lemma commonOverlap_spec x y n : commonOverlap x y = Ok n ->
  exists a c b, x = a ++ c /\ y = c ++ b /\ zlen c = n.
Proof.
  unfold commonOverlap.
  pose proof (zlen_nonneg x) as Hx. pose proof (zlen_nonneg y) as Hy.
  destruct ((zlen x =? 0) || (zlen y =? 0)) eqn:E0.
  { intros H; ok_inv. exists x, [], y. now rewrite app_nil_r. }
  apply orb_false_iff in E0 as [E1 E2].
  set (t1 := if zlen x >? zlen y then slice_from x (- zlen y) else x).
  set (t2 := if zlen x >? zlen y then y else if zlen x <? zlen y then slice_to y (zlen x) else y).
  set (tl := Z.min (zlen x) (zlen y)).
  assert (Ht : exists xa yb, x = xa ++ t1 /\ y = t2 ++ yb /\ zlen t1 = tl /\ zlen t2 = tl).
  { subst t1 t2 tl. destruct (zlen x >? zlen y) eqn:Eg.
    - destruct (slice_from_neg_spec x (zlen y)) as (a & Ha & Hl); [lia|].
      exists a, []. rewrite app_nil_r. repeat split; try assumption; destruct Hl as [Hl|[Hl _]]; lia.
    - destruct (zlen x <? zlen y) eqn:El.
      + destruct (slice_to_spec y (zlen x)) as (b & Hb & Hl); [lia|].
        exists [], b. repeat split; try assumption; destruct Hl as [Hl|[Hl _]]; lia.
      + exists [], []. rewrite app_nil_r. repeat split; lia. }
  destruct Ht as (xa & yb & Hxa & Hyb & Hl1 & Hl2).
  clearbody t1 t2.
  destruct (str_eqb t1 t2) eqn:Eeq.
  { intros H; ok_inv. apply str_eqb_eq in Eeq. subst t2.
    exists xa, t1, yb. repeat split; try assumption; try congruence; lia. }
  apply str_eqb_neq in Eeq.
  intros H.
  cut (exists a c b, t1 = a ++ c /\ t2 = c ++ b /\ zlen c = n).
  { intros (a & c & b & -> & -> & Hc). exists (xa ++ a), c, (b ++ yb).
    rewrite <- !app_assoc. rewrite <- app_assoc in Hyb. repeat split; assumption. }
  revert H.
  apply (loop_inv (fun s : Z * Z => let '(best, length) := s in
                     1 <= length /\ exists a c b, t1 = a ++ c /\ t2 = c ++ b /\ zlen c = best)
                  (fun n => exists a c b, t1 = a ++ c /\ t2 = c ++ b /\ zlen c = n)).
  - intros [best length] s' (Hlen & Hinv) Hs. unfold co_step in Hs.
    set (pattern := slice_from t1 (- length)) in Hs.
    destruct (find_spec pattern t2 _ eq_refl) as [Hf | (pre & post & Hf & Hfl)].
    + rewrite Hf in Hs. cbn in Hs. discriminate.
    + set (found := find pattern t2) in *.
      pose proof (zlen_nonneg pre).
      destruct (found =? -1) eqn:Em1; [lia|].
      destruct (found =? 0) eqn:Ef0; cbn [orb] in Hs.
      * ok_inv. split; [lia|].
        assert (pre = []) by (apply zlen_0; lia). subst pre. cbn in Hf.
        destruct (slice_from_neg_spec t1 length) as (a & Ha & Hl); [lia|]. fold pattern in Ha, Hl.
        destruct Hl as [Hl|[Hl ->]].
        -- exists a, pattern, post. repeat split; try assumption. lia.
        -- exfalso. cbn in Ha. rewrite <- Ha in Hf. apply Eeq.
           assert (post = []).
           { apply (f_equal zlen) in Hf. rewrite zlen_app in Hf. apply zlen_0. pose proof (zlen_nonneg post). lia. }
           subst post. now rewrite app_nil_r in Hf.
      * destruct (str_eqb (slice_from t1 (- (length + found))) (slice_to t2 (length + found))) eqn:Ec; ok_inv.
        -- split; [lia|]. apply str_eqb_eq in Ec.
           destruct (slice_from_neg_spec t1 (length + found)) as (a & Ha & Hl); [lia|].
           destruct (slice_to_spec t2 (length + found)) as (b & Hb & Hl'); [lia|].
           destruct Hl as [Hl|[Hl ->]].
           ++ exists a, (slice_from t1 (- (length + found))), b. repeat split; try assumption.
              now rewrite Ec at 1.
           ++ exfalso. destruct Hl' as [Hl'|[Hl' ->]]; [rewrite <- Ec in Hl'; cbn in Ha; rewrite <- Ha in Hl'; lia|].
              apply Eeq. cbn in Ha. rewrite app_nil_r in Hb. congruence.
        -- split; [lia|]. assumption.
  - intros [best length] r (Hlen & Hinv) Hs. unfold co_step in Hs.
    destruct (find (slice_from t1 (- length)) t2 =? -1); [ok_inv; assumption|].
    destruct ((find (slice_from t1 (- length)) t2 =? 0) ||
              str_eqb (slice_from t1 (- (length + find (slice_from t1 (- length)) t2)))
                      (slice_to t2 (length + find (slice_from t1 (- length)) t2))); discriminate.
  - split; [lia|]. exists t1, [], t2. now rewrite app_nil_r.
Qed.

(* ------------------------------------------------------------------ *)
(** * diff_halfMatch *)

Definition hm_ok (longtext shorttext : str) (h : hm_t) : Prop :=
  let '(la, lb, sa, sb, c) := h in longtext = la ++ c ++ lb /\ shorttext = sa ++ c ++ sb.

Lemma halfMatchI_spec longtext shorttext i h :
  halfMatchI longtext shorttext i = Ok (Some h) -> 0 <= i <= zlen longtext ->
  hm_ok longtext shorttext h /\ zlen longtext <= 2 * zlen (hm_common (Some h)).
Proof.
  unfold halfMatchI. intros H Hi.
  set (seed := slice longtext i (i + zlen longtext / 4)) in H.
  inv_bind H.
  destruct (zlen (hm_common v) * 2 >=? zlen longtext) eqn:Ege; [|discriminate].
  destruct v as [h'|]; [|discriminate]. ok_inv. split; [|lia].
  revert E.
  apply (loop_inv (fun s : Z * option hm_t => let '(j, best) := s in
                     (j = -1 \/ 0 <= j <= zlen shorttext) /\
                     match best with None => True | Some h => hm_ok longtext shorttext h end)
                  (fun best => match best with None => True | Some h => hm_ok longtext shorttext h end)).
  - intros [j best] s' (Hj & Hb) Hs. unfold hmi_step in Hs.
    destruct (j =? -1) eqn:Ej; cbn [negb] in Hs; [discriminate|].
    assert (Hj' : 0 <= j <= zlen shorttext) by lia. clear Hj.
    inv_bind Hs. inv_bind Hs. ok_inv.
    split.
    { destruct (find_from_spec seed shorttext (j + 1) _ eq_refl) as [Hf|(pre & post & Hf & Hfl & Hge)]; [lia|now left|].
      right. pose proof (f_equal zlen Hf) as Hz. rewrite !zlen_app in Hz.
      pose proof (zlen_nonneg pre). pose proof (zlen_nonneg seed). pose proof (zlen_nonneg post). lia. }
    destruct (zlen (hm_common best) <? v0 + v) eqn:Elt; [|assumption].
    apply commonPrefix_spec in E as (cp & r1 & r2 & P1 & P2 & Pl & _).
    apply commonSuffix_spec in E0 as (cs & q1 & q2 & S1 & S2 & Sl & _).
    assert (L : longtext = q1 ++ cs ++ cp ++ r1).
    { rewrite <- (slice_to_from longtext i), P1, S1, <- app_assoc. reflexivity. }
    assert (Sh : shorttext = q2 ++ cs ++ cp ++ r2).
    { rewrite <- (slice_to_from shorttext j), P2, S2, <- app_assoc. reflexivity. }
    assert (Li : zlen q1 + zlen cs = i).
    { rewrite <- zlen_app, <- S1, slice_to_len, clampi_in; lia. }
    assert (Sj : zlen q2 + zlen cs = j).
    { rewrite <- zlen_app, <- S2, slice_to_len, clampi_in; lia. }
    cbn [hm_ok]. split.
    + rewrite L at 1.
      f_equal.
      * symmetry. rewrite L. apply slice_to_app. lia.
      * rewrite (app_assoc cs). f_equal.
        -- rewrite Sh. rewrite (slice_mid q2 cs (cp ++ r2)) by lia.
           rewrite (app_assoc q2 cs), (slice_mid (q2 ++ cs) cp r2) by (rewrite zlen_app; lia). reflexivity.
        -- symmetry. rewrite L. rewrite (app_assoc q1), (app_assoc (q1 ++ cs)).
           apply slice_from_app. rewrite !zlen_app. lia.
    + rewrite Sh at 1.
      f_equal.
      * symmetry. rewrite Sh. apply slice_to_app. lia.
      * rewrite (app_assoc cs). f_equal.
        -- rewrite Sh. rewrite (slice_mid q2 cs (cp ++ r2)) by lia.
           rewrite (app_assoc q2 cs), (slice_mid (q2 ++ cs) cp r2) by (rewrite zlen_app; lia). reflexivity.
        -- symmetry. rewrite Sh. rewrite (app_assoc q2), (app_assoc (q2 ++ cs)).
           apply slice_from_app. rewrite !zlen_app. lia.
  - intros [j best] r (Hj & Hb) Hs. unfold hmi_step in Hs.
    destruct (j =? -1) eqn:Ej; cbn [negb] in Hs.
    + ok_inv. assumption.
    + inv_bind Hs. inv_bind Hs. discriminate.
  - split; [|exact I].
    destruct (find_spec seed shorttext _ eq_refl) as [Hf|(pre & post & Hf & Hfl)]; [now left|].
    right. pose proof (f_equal zlen Hf) as Hz. rewrite !zlen_app in Hz.
    pose proof (zlen_nonneg pre). pose proof (zlen_nonneg seed). pose proof (zlen_nonneg post). lia.
Qed.

Lemma halfMatch_spec text1 text2 a1 b1 a2 b2 c :
  halfMatch text1 text2 = Ok (Some (a1, b1, a2, b2, c)) ->
  text1 = a1 ++ c ++ b1 /\ text2 = a2 ++ c ++ b2 /\ c <> [].
Proof.
  unfold halfMatch.
  set (swap := zlen text1 >? zlen text2).
  set (longtext := if swap then text1 else text2).
  set (shorttext := if swap then text2 else text1).
  destruct ((zlen longtext <? 4) || (zlen shorttext * 2 <? zlen longtext)) eqn:E0; [discriminate|].
  apply orb_false_iff in E0 as [E1 E2].
  intros H. inv_bind H. inv_bind H.
  assert (Hi1 : 0 <= (zlen longtext + 3) / 4 <= zlen longtext) by lia.
  assert (Hi2 : 0 <= (zlen longtext + 1) / 2 <= zlen longtext) by lia.
  assert (Hgen : forall h, (v = Some h \/ v0 = Some h) ->
            hm_ok longtext shorttext h /\ zlen longtext <= 2 * zlen (hm_common (Some h))).
  { intros h [-> | ->]; eapply halfMatchI_spec; eassumption. }
  assert (Hfin : forall la lb sa sb c', hm_ok longtext shorttext (la, lb, sa, sb, c') ->
            zlen longtext <= 2 * zlen c' ->
            (if swap then Ok (Some (la, lb, sa, sb, c')) else Ok (Some (sa, sb, la, lb, c'))) = Ok (Some (a1, b1, a2, b2, c)) ->
            text1 = a1 ++ c ++ b1 /\ text2 = a2 ++ c ++ b2 /\ c <> []).
  { intros la lb sa sb c' [HL HS] Hlen Hr. subst longtext shorttext.
    assert (c' <> []) by (intros ->; cbn in Hlen; change (zlen (@nil N)) with 0 in Hlen; lia).
    destruct swap; ok_inv; auto. }
  destruct v as [h1|], v0 as [h2|].
  - destruct (zlen (hm_common (Some h1)) >? zlen (hm_common (Some h2))).
    + destruct (Hgen h1 (or_introl eq_refl)) as [Hok Hl]. destruct h1 as [[[[la lb] sa] sb] c'].
      eapply Hfin; eassumption.
    + destruct (Hgen h2 (or_intror eq_refl)) as [Hok Hl]. destruct h2 as [[[[la lb] sa] sb] c'].
      eapply Hfin; eassumption.
  - destruct (Hgen h1 (or_introl eq_refl)) as [Hok Hl]. destruct h1 as [[[[la lb] sa] sb] c'].
    eapply Hfin; eassumption.
  - destruct (Hgen h2 (or_intror eq_refl)) as [Hok Hl]. destruct h2 as [[[[la lb] sa] sb] c'].
    eapply Hfin; eassumption.
  - discriminate.
Qed.
