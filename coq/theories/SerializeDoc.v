(* Model of what XMLFormatter.render prints for its result tree with pretty_print = False:
   etree.tounicode(result) after etree.cleanup_namespaces(result, top_nsmap = {diff: DIFF_NS}), for documents
   whose only namespace is the formatter's own diff namespace.

   It is XV.Serialize's printer (the same escaping rules, validated against lxml on every run) with ONE difference:
   names in the diff namespace may occur on EVERY element (the diff:insert / diff:delete / ... marks), and the
   declaration xmlns:diff="..." is printed once, on the root element, exactly when some node uses the namespace
   (cleanup_namespaces removes an unused declaration and top_nsmap moves the used one to the top).
   Definitions only; proofs in SerializeDocProofs.v.  The string-level correspondence (harness/xmlfmt_corr.py,
   stream 'render') compares [render] with the string the implementation returns. *)
From Coq Require Import List NArith Bool.
Import ListNotations.
Require Import XV.Placeholder XV.Serialize.
Local Open Scope N_scope.

(* some node of the tree carries a name of the diff namespace *)
Fixpoint uses_ns_deep (t : xtree) : bool :=
  match t with
  | XNode tag attrs _ _ kids => uses_ns tag attrs || existsb uses_ns_deep kids
  end.

(* one node without its tail; [d]: print the namespace declaration on this element *)
Fixpoint ser_gen (P : str) (d : bool) (t : xtree) {struct t} : str :=
  match t with
  | XNode tag attrs text tail kids =>
    if str_eqb tag S_COMMENT then [60;33;45;45] ++ otxt text ++ [45;45;62]
    else
      match strip_prefix S_PI tag with
      | Some tg => [60;63] ++ tg ++ (match text with None => [] | Some x => 32 :: x end) ++ [63;62]
      | None =>
        let nm := rn P tag in
        60 :: nm ++ (if d then decl P else []) ++ ser_attrs P attrs ++
        match text, kids with
        | None, [] => [47;62]
        | _, _ =>
          62 :: esc_text (otxt text) ++
          concat (map (fun k => ser_gen P false k ++ esc_text (xtail k)) kids) ++
          [60;47] ++ nm ++ [62]
        end
      end
  end.

(* XMLFormatter.render(result), pretty_print = False, the result being an element without tail *)
Definition render (P : str) (t : xtree) : str := ser_gen P (uses_ns_deep t) t.

(* the fragment: every element and attribute name is a name without prefix or a name of the diff namespace;
   comments and processing instructions as in XV.Serialize.node_ok *)
Fixpoint dnode_ok (t : xtree) {struct t} : bool :=
  match t with
  | XNode tag attrs text tail kids =>
    if str_eqb tag S_COMMENT then
      (match attrs, kids, text with
       | [], [], Some x => no_adj 45 45 (x ++ [45])
       | _, _, _ => false
       end)
    else
      match strip_prefix S_PI tag with
      | Some tg =>
        plain_name tg &&
        (match attrs, kids with
         | [], [] => match text with None => true | Some x => no_adj 63 62 x end
         | _, _ => false
         end)
      | None =>
        any_name tag && forallb (fun kv => any_name (fst kv)) attrs && forallb dnode_ok kids
      end
  end.

(* the characters XML 1.0 cannot carry even escaped, and the two the serialiser writes as they are although a parser
   normalises them away, are outside what [parse] is asked to read back: not needed for the theorems (the parser of
   XV.Serialize reads every code point), listed here because lxml refuses them when the tree is built *)
