(* Executable model of xmldiff.formatting.XMLFormatter (properties C08, C09, C10).
   MODEL ONLY -- no proofs in this file (they live in XmlFmtProofs*.v; the
   statements in Properties/C08.v, C09.v, C10.v).  Tied to /repo by
   harness/xmlfmt_corr.py on every run of ./check C08 / C09 / C10.

   Modelling decisions
   * The formatter's working tree is the PURE tree [Placeholder.xtree] (tag,
     attributes in stored order incl. the diff: ones, text : option str, tail :
     str, children); a node is addressed by its position [pos] = list of child
     indices from the root.  Justification: (1) the formatter never needs node
     identity -- every handler starts from a path and all its effects are local
     to the nodes that path resolution returned; deepcopy (MoveNode) is sharing
     for free in a pure tree; (2) finalize is [Placeholder.undo_tree], which is
     defined on [xtree]; (3) the two projections of C09/C10 are structural
     recursions on the output tree, so the refinement proofs are structural
     inductions and need neither fuel nor well-formedness of an id-indexed heap.
   * Tags and attribute names are Clark strings ("{uri}local").  Namespace
     DECLARATIONS are invisible in this form; [etree.cleanup_namespaces] only
     moves/removes declarations and is therefore the identity here.
     ASSUMPTION: namespaces are declared on the root element (its nsmap is the
     parameter [rootns]) or bound by InsertNamespace, one URI per prefix.
   * Comments exist only in the INPUT of [prepare] (type [Forest.tree]); the
     working tree has none (XMLFormatter removes them before anything else;
     comments/PIs outside the root element are not part of the tree handed to
     the handlers and a comment() step therefore selects nothing).
   * The DMP wall clock and str.isalnum/isspace are oracles ([oracle]); every
     call of diff_main starts its own clock-test counter at 0.
   * Python exceptions are explicit: [ferr].                                  *)
From Coq Require Import List NArith ZArith Bool Arith.
Import ListNotations.
Require Import XV.Str XV.Json XV.TextFormat XV.Forest XV.Matcher XV.Differ XV.Path.
Require XV.Placeholder XV.DMP.
Local Open Scope N_scope.

Notation xtree := Placeholder.xtree.
Notation XNode := Placeholder.XNode.
Notation xtag := Placeholder.xtag.
Notation xattrs := Placeholder.xattrs.
Notation xtext := Placeholder.xtext.
Notation xtail := Placeholder.xtail.
Notation xkids := Placeholder.xkids.
Notation otxt := Placeholder.otxt.
Notation pstate := Placeholder.state.

(* ------------------------------------------------------------------ *)
(** * Results and errors *)

Inductive ferr :=
| FValueError          (* _xpath: not found / ambiguous *)
| FIndexError          (* pop from empty list in undo_string; matches[-1] of [] *)
| FAssertionError      (* assert stack_op <= op in _realign_placeholders *)
| FKeyError            (* node.attrib[name] / del node.attrib[name] of a missing attribute *)
| FAttributeError      (* no _handle_X method; getparent() is None in undo_element *)
| FXPathEvalError      (* undefined namespace prefix *)
| FTypeError
| FUnboundLocalError
| FFuel                (* RecursionError / a while loop of the model out of fuel *)
| FUnsupported.        (* outside the modelled fragment (malformed path / action fields) *)

Inductive fres (A : Type) := FOk (a : A) | FErr (e : ferr).
Arguments FOk {A} a.
Arguments FErr {A} e.

Definition fbind {A B} (r : fres A) (f : A -> fres B) : fres B :=
  match r with FOk a => f a | FErr e => FErr e end.

Definition of_ph {A} (r : Placeholder.res A) : fres A :=
  match r with
  | Placeholder.Ok a => FOk a
  | Placeholder.Err Placeholder.EFuel => FErr FFuel
  | Placeholder.Err Placeholder.EIndex => FErr FIndexError
  | Placeholder.Err Placeholder.ENoParent => FErr FAttributeError
  | Placeholder.Err Placeholder.EKey => FErr FKeyError
  end.

Definition of_dmp {A} (r : DMP.result A) : fres A :=
  match r with
  | DMP.Ok a => FOk a
  | DMP.Err DMP.OutOfFuel => FErr FFuel
  | DMP.Err DMP.IndexError => FErr FIndexError
  | DMP.Err DMP.AssertionError => FErr FAssertionError
  | DMP.Err DMP.UnboundLocalError => FErr FUnboundLocalError
  | DMP.Err DMP.TypeError => FErr FTypeError
  | DMP.Err DMP.Unsupported => FErr FUnsupported
  end.

(* ------------------------------------------------------------------ *)
(** * Configuration and oracles *)

(* XMLFormatter(normalize, pretty_print=False, text_tags, formatting_tags, use_replace) *)
Record cfg := Cfg { c_normalize : N;            (* WS_NONE = 0, WS_TAGS = 1, WS_TEXT = 2, WS_BOTH = 3 *)
                    c_replace : bool;
                    c_tt : list str;
                    c_fmt : list str }.
(* bool(self.normalize & WS_TEXT) *)
Definition ws_text (c : cfg) : bool := N.testbit (c_normalize c) 1.

Record oracle := Orc { o_cc : DMP.charcls; o_clock : nat -> bool }.

(* ------------------------------------------------------------------ *)
(** * Names *)

Definition dname (local : str) : str := Placeholder.DIFF_NS_BRACED ++ local.
Definition s_rename : str := [114; 101; 110; 97; 109; 101].
Definition s_add : str := [97; 100; 100].
Definition s_update : str := [117; 112; 100; 97; 116; 101].
Definition s_attr_suffix : str := [45; 97; 116; 116; 114].                 (* "-attr" *)
Definition s_old_text : str := [111; 108; 100; 45; 116; 101; 120; 116].    (* "old-text" *)
Definition INSERT_NAME : str := dname Placeholder.s_insert.
Definition DELETE_NAME : str := dname Placeholder.s_delete.
Definition REPLACE_NAME : str := dname Placeholder.s_replace.
Definition RENAME_NAME : str := dname s_rename.
Definition DIFF_PREFIX : str := [100; 105; 102; 102].
Definition DIFF_NS : str :=
  [104;116;116;112;58;47;47;110;97;109;101;115;112;97;99;101;115;46;115;104;111;111;98;120;46;99;111;109;47;100;105;102;102].

(* ------------------------------------------------------------------ *)
(** * The working tree: positions *)

Definition pos := list nat.

Definition with_kids (t : xtree) (ks : list xtree) : xtree := XNode (xtag t) (xattrs t) (xtext t) (xtail t) ks.
Definition with_attrs (t : xtree) (a : list (str * str)) : xtree := XNode (xtag t) a (xtext t) (xtail t) (xkids t).
Definition with_tag (t : xtree) (g : str) : xtree := XNode g (xattrs t) (xtext t) (xtail t) (xkids t).
Definition with_text (t : xtree) (x : option str) : xtree := XNode (xtag t) (xattrs t) x (xtail t) (xkids t).
Definition with_tail (t : xtree) (l : str) : xtree := XNode (xtag t) (xattrs t) (xtext t) l (xkids t).

Fixpoint get_at (t : xtree) (p : pos) : option xtree :=
  match p with
  | [] => Some t
  | i :: r => match nth_error (xkids t) i with Some k => get_at k r | None => None end
  end.

Fixpoint set_nth {A} (i : nat) (x : A) (l : list A) : list A :=
  match l, i with
  | [], _ => []
  | _ :: r, O => x :: r
  | y :: r, S j => y :: set_nth j x r
  end.

(* replace the node at position p by (f node) *)
Fixpoint map_at (p : pos) (f : xtree -> xtree) (t : xtree) : xtree :=
  match p with
  | [] => f t
  | i :: r => match nth_error (xkids t) i with
              | Some k => with_kids t (set_nth i (map_at r f k) (xkids t))
              | None => t
              end
  end.

(* target.insert(position, node): list.insert semantics, position clamped *)
Definition insert_kid {A} (i : nat) (x : A) (l : list A) : list A := firstn i l ++ x :: skipn i l.

(* ------------------------------------------------------------------ *)
(** * XMLFormatter._xpath *)

(* DELETE_NAME in node.attrib *)
Definition is_deleted (t : xtree) : bool := ahas (xattrs t) DELETE_NAME.
Definition is_inserted (t : xtree) : bool := ahas (xattrs t) INSERT_NAME.

(* an XPath name test with a prefix that namespaces= does not bind raises XPathEvalError *)
Definition prefix_ok (e : nsenv) (t : ntest) : bool :=
  match t with
  | NName (Some p) _ => match env_get e p with Some _ => true | None => false end
  | _ => true
  end.

(* for match in node.xpath(step): if DELETE_NAME not in match.attrib: matches.append(match)
   -- the candidates come with their index among ALL children *)
Fixpoint xmatches (e : nsenv) (t : ntest) (i : nat) (ks : list xtree) : list (nat * xtree) :=
  match ks with
  | [] => []
  | k :: r =>
      let rest := xmatches e t (S i) r in
      match test_matches e t (TElem (xtag k)) with
      | Some true => if is_deleted k then rest else (i, k) :: rest
      | _ => rest
      end
  end.

(* index = int(idx) - 1 (0 and `multiple` when the step has no predicate)
   if index >= len(matches): raise ValueError      -- "not found"
   if len(matches) > 1 and multiple: raise ValueError   -- "Multiple nodes found"
   match = matches[index] *)
Definition pick (idx : option nat) (ms : list (nat * xtree)) : fres (nat * xtree) :=
  match idx with
  | Some O => match rev ms with [] => FErr FIndexError | m :: _ => FOk m end    (* "[0]": matches[-1] *)
  | Some (S k) => match nth_error ms k with Some m => FOk m | None => FErr FValueError end
  | None => match ms with [m] => FOk m | _ => FErr FValueError end
  end.

Definition xp_step (e : nsenv) (s : step) (cands : list xtree) : fres (nat * xtree) :=
  if prefix_ok e (st_test s) then pick (st_idx s) (xmatches e (st_test s) 0 cands)
  else FErr FXPathEvalError.

Fixpoint xp_steps (e : nsenv) (t : xtree) (p : path) (acc : pos) : fres pos :=
  match p with
  | [] => FOk (rev acc)
  | s :: r => match xp_step e s (xkids t) with
              | FOk (i, k) => xp_steps e k r (i :: acc)
              | FErr x => FErr x
              end
  end.

(* self._xpath(root, "/s1/s2/...") : the first step is tested against the root element *)
Definition xpath_skip_deleted (e : nsenv) (root : xtree) (p : path) : fres pos :=
  match p with
  | [] => FErr FUnsupported
  | s :: r => match xp_step e s [root] with
              | FOk (_, k) => xp_steps e k r []
              | FErr x => FErr x
              end
  end.

(* ------------------------------------------------------------------ *)
(** * _get_real_insert_position *)

(* pos = offset = 0
   for child in children: (offset += 1 if deleted else pos += 1); if pos > position: break
   return position + offset *)
Fixpoint rip_loop (ks : list xtree) (position p off : nat) : nat :=
  match ks with
  | [] => (position + off)%nat
  | c :: r =>
      let p' := if is_deleted c then p else S p in
      let off' := if is_deleted c then S off else off in
      if Nat.ltb position p' then (position + off')%nat else rip_loop r position p' off'
  end.
Definition real_insert_position (ks : list xtree) (position : nat) : nat := rip_loop ks position 0 0.

(* ------------------------------------------------------------------ *)
(** * _extend_diff_attr *)

Definition extend_diff_attr (a : list (str * str)) (action value : str) : list (str * str) :=
  let k := dname (action ++ s_attr_suffix) in
  let old := match aget a k with Some v => v | None => [] end in
  aput a k (match old with [] => value | _ => old ++ 59 :: value end).

(* ------------------------------------------------------------------ *)
(** * _make_diff_tags *)

Definition cls_of (s : pstate) : DMP.cls_t :=
  fun c => match Placeholder.p2t_get (Placeholder.p2t s) c with
           | Some (_, ty, cl) =>
               Some (match ty with
                     | Placeholder.TOpen => DMP.T_OPEN
                     | Placeholder.TClose => DMP.T_CLOSE
                     | Placeholder.TSingle => DMP.T_SINGLE
                     end, cl)
           | None => None
           end.

(* _join_delete_insert as repaired in /repo: `if diffs and not skip_next` *)
Definition join_delete_insert (d : list DMP.seg) : DMP.result (list DMP.jseg) :=
  match d with [] => DMP.Ok [] | _ => DMP.join_delete_insert d end.

(* utils.cleanup_whitespace(v or "").strip() *)
Definition normalize_text (v : str) : str := Str.strip (cleanup_whitespace v).

(* len(text) == 1 and text in placeholder2tag *)
Definition is_placeholder (s : pstate) (text : str) : option N :=
  match text with [c] => if Placeholder.is_ph s c then Some c else None | _ => None end.

(* the accumulator of the loop over the diff: the maker, what has been appended
   so far, and whether anything has been appended at all (node.text stays None
   otherwise) *)
Definition macc := (pstate * str * bool)%type.

(* one non-equal segment; in_tail = (cur_child is not None) *)
Definition mdt_marked (fmt : list str) (in_tail : bool) (acc : macc) (text : str) (action : str)
           (dact : Placeholder.dact) (attributes : list (str * str)) : fres macc :=
  let '(s, out, any) := acc in
  match is_placeholder s text with
  | Some ph =>
      fbind (of_ph (Placeholder.mark_diff fmt s ph action attributes)) (fun '(s', c) =>
      (* `if cur_child is None: node.text = (node.text or "") + ph` -- in tail mode the marked
         placeholder is dropped (mark_diff has filed its entry all the same) *)
      if in_tail then FOk (s', out, any) else FOk (s', out ++ [c], true))
  | None =>
      fbind (of_ph (Placeholder.wrap_diff s text dact attributes)) (fun '(s', w) =>
      FOk (s', out ++ w, true))
  end.

Definition mdt_seg (fmt : list str) (in_tail : bool) (acc : macc) (d : DMP.jseg) : fres macc :=
  match d with
  | DMP.JS DMP.EQUAL text => let '(s, out, _) := acc in FOk (s, out ++ text, true)
  | DMP.JS DMP.DELETE text => mdt_marked fmt in_tail acc text Placeholder.s_delete Placeholder.ADel []
  | DMP.JS DMP.INSERT text => mdt_marked fmt in_tail acc text Placeholder.s_insert Placeholder.AIns []
  | DMP.JR new old => mdt_marked fmt in_tail acc new Placeholder.s_replace Placeholder.ARep [(s_old_text, old)]
  end.

Fixpoint mdt_loop (fmt : list str) (in_tail : bool) (acc : macc) (ds : list DMP.jseg) : fres macc :=
  match ds with
  | [] => FOk acc
  | d :: r => fbind (mdt_seg fmt in_tail acc d) (fun acc' => mdt_loop fmt in_tail acc' r)
  end.

(* the segments handed to the loop *)
Definition text_diff (c : cfg) (o : oracle) (s : pstate) (left right : str) : fres (list DMP.jseg) :=
  let l := if ws_text c then normalize_text left else left in
  let r := if ws_text c then normalize_text right else right in
  fbind (of_dmp (DMP.diff_main (o_cc o) (o_clock o) l r)) (fun d0 =>
  fbind (of_dmp (DMP.diff_cleanupSemantic (o_cc o) d0)) (fun d1 =>
  fbind (of_dmp (DMP.realign (cls_of s) d1)) (fun d2 =>
  if c_replace c then of_dmp (join_delete_insert d2)
  else FOk (map (fun sg : DMP.seg => DMP.JS (fst sg) (snd sg)) d2)))).

(* result: the maker, the string appended to node.text (in_tail = false) or to
   cur_child.tail (in_tail = true), and whether anything was appended *)
Definition make_diff_tags (c : cfg) (o : oracle) (s : pstate) (left right : str) (in_tail : bool) : fres macc :=
  fbind (text_diff c o s left right) (fun ds => mdt_loop (c_fmt c) in_tail (s, [], false) ds).

(* ------------------------------------------------------------------ *)
(** * The handlers *)

Record fstate := FS { fs_tree : xtree; fs_ph : pstate; fs_ns : list (option str * str) }.  (* self._nsmap, append order *)

(* nsmap = dict(self._nsmap); nsmap.update(node.nsmap); del nsmap[None] *)
Definition some_ns (l : list (option str * str)) : nsenv :=
  flat_map (fun pu => match fst pu with Some p => [(p, snd pu)] | None => [] end) l.
Definition env_of (rootns : list (option str * str)) (st : fstate) : nsenv :=
  some_ns rootns ++ some_ns (rev (fs_ns st)).

Definition resolve (rootns : list (option str * str)) (st : fstate) (ps : str) : fres pos :=
  match path_of_str ps with
  | Some p => xpath_skip_deleted (env_of rootns st) (fs_tree st) p
  | None => FErr FUnsupported
  end.

Definition node_at (t : xtree) (p : pos) : fres xtree :=
  match get_at t p with Some n => FOk n | None => FErr FUnsupported end.

(* apply a (possibly failing) function to the node at p *)
Definition upd_node (st : fstate) (p : pos) (f : xtree -> fres xtree) : fres fstate :=
  fbind (node_at (fs_tree st) p) (fun n =>
  fbind (f n) (fun n' => FOk (FS (map_at p (fun _ => n') (fs_tree st)) (fs_ph st) (fs_ns st)))).

Definition delete_node (n : xtree) : xtree := with_attrs n (aput (xattrs n) DELETE_NAME []).

Definition h_DeleteAttrib (n : xtree) (name : str) : fres xtree :=
  if ahas (xattrs n) name
  then FOk (with_attrs n (extend_diff_attr (adel (xattrs n) name) Placeholder.s_delete name))
  else FErr FKeyError.

Definition h_InsertAttrib (n : xtree) (name value : str) : fres xtree :=
  FOk (with_attrs n (extend_diff_attr (aput (xattrs n) name value) s_add name)).

Definition h_RenameAttrib (n : xtree) (oldname newname : str) : fres xtree :=
  match aget (xattrs n) oldname with
  | None => FErr FKeyError
  | Some v => FOk (with_attrs n (extend_diff_attr (adel (aput (xattrs n) newname v) oldname) s_rename
                                                  (oldname ++ 58 :: newname)))
  end.

Definition h_UpdateAttrib (n : xtree) (name value : str) : fres xtree :=
  match aget (xattrs n) name with
  | None => FErr FKeyError
  | Some oldval => FOk (with_attrs n (extend_diff_attr (aput (xattrs n) name value) s_update
                                                       (name ++ 58 :: oldval)))
  end.

Definition h_RenameNode (n : xtree) (tag : str) : xtree :=
  with_tag (with_attrs n (aput (xattrs n) RENAME_NAME (xtag n))) tag.

(* new_node = target.makeelement(tag); new_node.attrib[INSERT_NAME] = ""; target.insert(real position, new_node) *)
Definition h_InsertNode (target : xtree) (tag : str) (position : nat) : xtree :=
  let real := real_insert_position (xkids target) position in
  with_kids target (insert_kid real (XNode tag [(INSERT_NAME, [])] None [] []) (xkids target)).

Definition po_str (v : pyval) : fres (option str) :=
  match v with PStr s => FOk (Some s) | PNone => FOk None | PInt _ => FErr FUnsupported end.
Definition p_str (v : pyval) : fres str :=
  match v with PStr s => FOk s | _ => FErr FUnsupported end.
Definition p_nat (v : pyval) : fres nat :=
  match v with PInt z => if (z <? 0)%Z then FErr FUnsupported else FOk (Z.to_nat z) | _ => FErr FUnsupported end.

Definition ctor_is (a : gaction) (name : list N) : bool := str_eqb (ga_ctor a) name.

Definition n_DeleteNode : str := [68;101;108;101;116;101;78;111;100;101].
Definition n_InsertNode : str := [73;110;115;101;114;116;78;111;100;101].
Definition n_RenameNode : str := [82;101;110;97;109;101;78;111;100;101].
Definition n_MoveNode : str := [77;111;118;101;78;111;100;101].
Definition n_UpdateTextIn : str := [85;112;100;97;116;101;84;101;120;116;73;110].
Definition n_UpdateTextAfter : str := [85;112;100;97;116;101;84;101;120;116;65;102;116;101;114].
Definition n_UpdateAttrib : str := [85;112;100;97;116;101;65;116;116;114;105;98].
Definition n_DeleteAttrib : str := [68;101;108;101;116;101;65;116;116;114;105;98].
Definition n_InsertAttrib : str := [73;110;115;101;114;116;65;116;116;114;105;98].
Definition n_RenameAttrib : str := [82;101;110;97;109;101;65;116;116;114;105;98].
Definition n_InsertNamespace : str := [73;110;115;101;114;116;78;97;109;101;115;112;97;99;101].
Definition n_DeleteNamespace : str := [68;101;108;101;116;101;78;97;109;101;115;112;97;99;101].

Section Handlers.
Variable c : cfg.
Variable o : oracle.
Variable rootns : list (option str * str).

Definition handle_DeleteNode (st : fstate) (node : str) : fres fstate :=
  fbind (resolve rootns st node) (fun p => upd_node st p (fun n => FOk (delete_node n))).

Definition handle_DeleteAttrib (st : fstate) (node name : str) : fres fstate :=
  fbind (resolve rootns st node) (fun p => upd_node st p (fun n => h_DeleteAttrib n name)).

Definition handle_InsertAttrib (st : fstate) (node name value : str) : fres fstate :=
  fbind (resolve rootns st node) (fun p => upd_node st p (fun n => h_InsertAttrib n name value)).

Definition handle_RenameAttrib (st : fstate) (node oldname newname : str) : fres fstate :=
  fbind (resolve rootns st node) (fun p => upd_node st p (fun n => h_RenameAttrib n oldname newname)).

Definition handle_UpdateAttrib (st : fstate) (node name value : str) : fres fstate :=
  fbind (resolve rootns st node) (fun p => upd_node st p (fun n => h_UpdateAttrib n name value)).

Definition handle_RenameNode (st : fstate) (node tag : str) : fres fstate :=
  fbind (resolve rootns st node) (fun p => upd_node st p (fun n => FOk (h_RenameNode n tag))).

Definition handle_InsertNode (st : fstate) (target tag : str) (position : nat) : fres fstate :=
  fbind (resolve rootns st target) (fun p => upd_node st p (fun n => FOk (h_InsertNode n tag position))).

(* node = _xpath(node); inserted = deepcopy(node); target = _xpath(target); _delete_node(node);
   position = _get_real_insert_position(target, position); inserted.attrib[INSERT_NAME] = "";
   target.insert(position, inserted)   -- deepcopy keeps the tail *)
Definition handle_MoveNode (st : fstate) (node target : str) (position : nat) : fres fstate :=
  fbind (resolve rootns st node) (fun pn =>
  fbind (node_at (fs_tree st) pn) (fun copy =>
  fbind (resolve rootns st target) (fun pt =>
  let t1 := map_at pn delete_node (fs_tree st) in
  let inserted := with_attrs copy (aput (xattrs copy) INSERT_NAME []) in
  fbind (node_at t1 pt) (fun tg =>
  let real := real_insert_position (xkids tg) position in
  FOk (FS (map_at pt (fun tg' => with_kids tg' (insert_kid real inserted (xkids tg'))) t1)
          (fs_ph st) (fs_ns st)))))).

(* if INSERT_NAME in node.attrib: node.text = action.text
   else: left = node.text; node.text = None; _make_diff_tags(left, action.text, node) *)
Definition handle_UpdateTextIn (st : fstate) (node : str) (text : option str) : fres fstate :=
  fbind (resolve rootns st node) (fun p =>
  fbind (node_at (fs_tree st) p) (fun n =>
  if is_inserted n then
    FOk (FS (map_at p (fun n => with_text n text) (fs_tree st)) (fs_ph st) (fs_ns st))
  else
    fbind (make_diff_tags c o (fs_ph st) (otxt (xtext n)) (otxt text) false) (fun '(s', out, any) =>
    FOk (FS (map_at p (fun n => with_text n (if any then Some out else None)) (fs_tree st)) s' (fs_ns st))))).

(* left = node.tail; node.tail = None; _make_diff_tags(left, action.text, node, node.getparent())
   -- for the root getparent() is None: target becomes the node itself, cur_child stays None and the
   pieces are appended to node.text (which is NOT reset) *)
Definition handle_UpdateTextAfter (st : fstate) (node : str) (text : option str) : fres fstate :=
  fbind (resolve rootns st node) (fun p =>
  fbind (node_at (fs_tree st) p) (fun n =>
  match p with
  | [] =>
      fbind (make_diff_tags c o (fs_ph st) (xtail n) (otxt text) false) (fun '(s', out, any) =>
      FOk (FS (map_at p (fun n => with_tail (with_text n (if any then Some (otxt (xtext n) ++ out) else xtext n)) [])
                      (fs_tree st)) s' (fs_ns st)))
  | _ :: _ =>
      fbind (make_diff_tags c o (fs_ph st) (xtail n) (otxt text) true) (fun '(s', out, _) =>
      FOk (FS (map_at p (fun n => with_tail n out) (fs_tree st)) s' (fs_ns st)))
  end)).

(* self._nsmap.append((action.prefix, action.uri)) *)
Definition handle_InsertNamespace (st : fstate) (prefix : option str) (uri : str) : fres fstate :=
  FOk (FS (fs_tree st) (fs_ph st) (fs_ns st ++ [(prefix, uri)])).

(* method = getattr(self, "_handle_" + type(action).__name__); method(action, result) *)
Definition handle_action (st : fstate) (a : gaction) : fres fstate :=
  let f := ga_fields a in
  if ctor_is a n_DeleteNode then
    match f with [nd] => fbind (p_str nd) (handle_DeleteNode st) | _ => FErr FUnsupported end
  else if ctor_is a n_InsertNode then
    match f with [tg; tag; ps] =>
      fbind (p_str tg) (fun tg => fbind (p_str tag) (fun tag => fbind (p_nat ps) (handle_InsertNode st tg tag)))
    | _ => FErr FUnsupported end
  else if ctor_is a n_RenameNode then
    match f with [nd; tag] => fbind (p_str nd) (fun nd => fbind (p_str tag) (handle_RenameNode st nd))
    | _ => FErr FUnsupported end
  else if ctor_is a n_MoveNode then
    match f with [nd; tg; ps] =>
      fbind (p_str nd) (fun nd => fbind (p_str tg) (fun tg => fbind (p_nat ps) (handle_MoveNode st nd tg)))
    | _ => FErr FUnsupported end
  else if ctor_is a n_UpdateTextIn then
    match f with [nd; tx] => fbind (p_str nd) (fun nd => fbind (po_str tx) (handle_UpdateTextIn st nd))
    | _ => FErr FUnsupported end
  else if ctor_is a n_UpdateTextAfter then
    match f with [nd; tx] => fbind (p_str nd) (fun nd => fbind (po_str tx) (handle_UpdateTextAfter st nd))
    | _ => FErr FUnsupported end
  else if ctor_is a n_UpdateAttrib then
    match f with [nd; k; v] =>
      fbind (p_str nd) (fun nd => fbind (p_str k) (fun k => fbind (p_str v) (handle_UpdateAttrib st nd k)))
    | _ => FErr FUnsupported end
  else if ctor_is a n_DeleteAttrib then
    match f with [nd; k] => fbind (p_str nd) (fun nd => fbind (p_str k) (handle_DeleteAttrib st nd))
    | _ => FErr FUnsupported end
  else if ctor_is a n_InsertAttrib then
    match f with [nd; k; v] =>
      fbind (p_str nd) (fun nd => fbind (p_str k) (fun k => fbind (p_str v) (handle_InsertAttrib st nd k)))
    | _ => FErr FUnsupported end
  else if ctor_is a n_RenameAttrib then
    match f with [nd; k; k'] =>
      fbind (p_str nd) (fun nd => fbind (p_str k) (fun k => fbind (p_str k') (handle_RenameAttrib st nd k)))
    | _ => FErr FUnsupported end
  else if ctor_is a n_InsertNamespace then
    match f with [p; u] => fbind (po_str p) (fun p => fbind (p_str u) (handle_InsertNamespace st p))
    | _ => FErr FUnsupported end
  else if ctor_is a n_DeleteNamespace then FOk st           (* "handled by the namespace cleanup" *)
  else FErr FAttributeError.                                 (* e.g. InsertComment: no such method *)

Fixpoint handle_all (st : fstate) (script : list gaction) : fres fstate :=
  match script with
  | [] => FOk st
  | a :: r => fbind (handle_action st a) (fun st' => handle_all st' r)
  end.

(* finalize: self.placeholderer.undo_tree(result_tree) *)
Definition finalize (s : pstate) (t : xtree) : fres xtree := of_ph (Placeholder.undo_tree s t).

(* XMLFormatter.format(diff, orig_tree), up to render (serialisation is lxml's).
   [s] is the maker as prepare left it, [left] the prepared left tree. *)
Definition xml_format (s : pstate) (script : list gaction) (left : xtree) : fres xtree :=
  fbind (handle_all (FS left s [(Some DIFF_PREFIX, DIFF_NS)]) script) (fun st =>
  finalize (fs_ph st) (fs_tree st)).

End Handlers.

(* ------------------------------------------------------------------ *)
(** * prepare *)

(* _remove_comments: parent.remove(comment) for every comment below the root -- lxml's remove()
   takes the comment's TAIL away with it.  Attributes/children of a comment do not exist. *)
Definition lab_tag (l : label) : str := match ltag l with TElem n => n | TComment => [] end.
Fixpoint remove_comments (t : tree) : xtree :=
  match t with
  | Node l ks =>
      XNode (lab_tag l) (lattrs l) (ltext l) (otxt (ltail l))
            ((fix go (ks : list tree) : list xtree :=
                match ks with
                | [] => []
                | (Node lk _ as k) :: r => if is_comment (ltag lk) then go r else remove_comments k :: go r
                end) ks)
  end.

(* what removing the comments SHOULD do (the reference for C09/C10): the text after a comment
   stays in the document -- it joins the tail of the preceding sibling, or the text of the
   parent when the comment was the first child *)
Definition add_tail (t : xtree) (x : str) : xtree := with_tail t (xtail t ++ x).
Fixpoint strip_comments (t : tree) : xtree :=
  match t with
  | Node l ks =>
      let '(text, kids) :=
        (fix go (ks : list tree) (text : option str) (acc : list xtree) : option str * list xtree :=
           match ks with
           | [] => (text, rev acc)
           | (Node lk _ as k) :: r =>
               if is_comment (ltag lk) then
                 match ltail lk with
                 | None => go r text acc
                 | Some tl =>
                     match acc with
                     | [] => go r (Some (otxt text ++ tl)) acc
                     | prev :: acc' => go r text (add_tail prev tl :: acc')
                     end
                 end
               else go r text (strip_comments k :: acc)
           end) ks (ltext l) [] in
      XNode (lab_tag l) (lattrs l) text (otxt (ltail l)) kids
  end.

(* prepare(left, right): comments out of both trees, then placeholderer.do_tree on both *)
Definition prepare (c : cfg) (L R : tree) : pstate * xtree * xtree :=
  let '(s1, L') := Placeholder.do_tree (c_tt c) (c_fmt c) Placeholder.ph_init (remove_comments L) in
  let '(s2, R') := Placeholder.do_tree (c_tt c) (c_fmt c) s1 (remove_comments R) in
  (s2, L', R').
