(* DifferState.v -- the OBJECTS of xmldiff as state machines (model only, no proofs).

   Property C06 ("diffing and patching are pure ... no history") speaks about
   REUSING a Differ / Patcher / formatter instance.  This file models exactly the
   object-level state of those classes, abstract in what the expensive phases
   compute:

     diff.Differ           fields  left, right, _matches (+ _l2rmap, _r2lmap, _inorder,
                           which always travel with _matches: they are initialised
                           together in the prologue of match() and updated together
                           by append_match(); the bundle is the abstract type M)
     patch.Patcher         field   _nsmap
     formatting.DiffFormatter      field normalize (never read by format)
     formatting.XmlDiffFormatter   fields normalize, _nsmap

   Every definition is written line by line after the Python method it mirrors;
   the structure of those methods is pinned by translator/xl_state.py (fail
   closed) and the guards / field lists the model branches on are READ from the
   source into XV.Gen.StateShape on every build.

   What the model cannot say (Gallina functions are pure): that the lxml trees
   passed in are not mutated, that nothing flows through lxml's process-global
   prefix registry (etree.register_namespace), and that the hash seed is
   irrelevant.  Those are monitored at run time by harness/props/C06.py. *)
From Coq Require Import List Bool.
Import ListNotations.

(* the exception classes the object protocol itself can raise *)
Inductive err := ETypeError       (* set_trees: "must be lxml Elements" *)
               | EAttributeError. (* None.getchildren() / None.nsmap: no trees set *)

(* the fields of a Differ instance that clear() may reset *)
Inductive dfield := FLeft | FRight | FMatches | FL2R | FR2L | FInorder | FTextCache.

(* atoms of the `if` guards in match() and diff() *)
Inductive gatom :=
| left_is_not_none        (* left is not None *)
| right_is_not_none       (* right is not None *)
| not_matches             (* not self._matches         (None or empty list) *)
| matches_is_not_none.    (* self._matches is not None *)

Definition dfield_eqb (a b : dfield) : bool :=
  match a, b with
  | FLeft, FLeft | FRight, FRight | FMatches, FMatches | FL2R, FL2R | FR2L, FR2L
  | FInorder, FInorder | FTextCache, FTextCache => true
  | _, _ => false
  end.

Definition gatom_eqb (a b : gatom) : bool :=
  match a, b with
  | left_is_not_none, left_is_not_none | right_is_not_none, right_is_not_none
  | not_matches, not_matches | matches_is_not_none, matches_is_not_none => true
  | _, _ => false
  end.

Definition fmem (x : dfield) (l : list dfield) : bool := existsb (dfield_eqb x) l.
Definition gmem (x : gatom) (l : list gatom) : bool := existsb (gatom_eqb x) l.

(* What the translator reads from diff.py:
     sh_clear        the attributes Differ.clear() resets (to None / {})
     sh_match_guard  the disjuncts of the first `if` of match()   -> self.set_trees(left, right)
     sh_cache_guard  the disjuncts of the second `if` of match()  -> return self._matches
     sh_diff_guard   the disjuncts of the first `if` of diff()    -> self.match(left, right) *)
Record dshape := DShape {
  sh_clear : list dfield;
  sh_match_guard : list gatom;
  sh_cache_guard : list gatom;
  sh_diff_guard : list gatom
}.

Definition is_some {A} (o : option A) : bool := match o with Some _ => true | None => false end.

(* ====================================================================== *)
(** * diff.Differ                                                          *)
(* ====================================================================== *)
Section DifferObj.

Variable T : Type.      (* documents (lxml element trees, by value) *)
Variable M : Type.      (* matching state: _matches, _l2rmap, _r2lmap, _inorder *)
Variable S : Type.      (* what list(generator) gives: an edit script, or the exception it ended with *)

(* the matching phase (everything after "Generate the node lists" in match()),
   run on the working copy and the right tree; _inorder empty *)
Variable match_fn : T -> T -> M.
(* the generator body of diff() run to exhaustion on (self.left, self.right,
   matching state): the script, the MUTATED working copy and the matching state
   as the generator leaves it (append_match for inserted nodes, _inorder) *)
Variable script_fn : T -> T -> M -> S * T * M.
(* the bundle right after the prologue of match(): [], {}, {}, set() *)
Variable m_empty : M.
(* `not m` for the list self._matches *)
Variable m_is_empty : M -> bool.

Variable sh : dshape.

Record dstate := DS {
  d_left : option T;        (* self.left   (the working copy; None after clear) *)
  d_right : option T;       (* self.right *)
  d_matches : option M;     (* self._matches is None  <->  None *)
  d_consumed : bool         (* ghost: a diff generator has run on self.left since it was set *)
}.

(* __init__ ends with self.clear(): all None *)
Definition d_init : dstate := DS None None None false.

Inductive outcome :=
| ONone                     (* the method returned None *)
| OMatches (m : M)          (* match() returned self._matches *)
| OScript (s : S)           (* list(diff(...)) *)
| OError (e : err).

(* def clear(self): self.left = None; self.right = None; self._matches = None; ... *)
Definition do_clear (s : dstate) : dstate :=
  DS (if fmem FLeft (sh_clear sh) then None else d_left s)
     (if fmem FRight (sh_clear sh) then None else d_right s)
     (if fmem FMatches (sh_clear sh) then None else d_matches s)
     (if fmem FLeft (sh_clear sh) then false else d_consumed s).

(* def set_trees(self, left, right):
       self.clear()
       [ElementTree -> getroot()]
       if not (etree.iselement(left) and etree.iselement(right)): raise TypeError
       self.left = deepcopy(left)
       self.right = right
   An argument that is not an lxml element (in particular None) is `None` here. *)
Definition do_set_trees (s : dstate) (ol or : option T) : dstate * option err :=
  let s1 := do_clear s in
  match ol, or with
  | Some l, Some r => (DS (Some l) (Some r) (d_matches s1) false, None)
  | _, _ => (s1, Some ETypeError)
  end.

Definition truthy (o : option M) : bool :=
  match o with Some m => negb (m_is_empty m) | None => false end.

Definition eval_gatom (ol or : option T) (s : dstate) (g : gatom) : bool :=
  match g with
  | left_is_not_none => is_some ol
  | right_is_not_none => is_some or
  | not_matches => negb (truthy (d_matches s))
  | matches_is_not_none => is_some (d_matches s)
  end.

(* `a or b or c` *)
Definition eval_guard (ol or : option T) (s : dstate) (g : list gatom) : bool :=
  existsb (eval_gatom ol or s) g.

(* def match(self, left=None, right=None):
       if left is not None or right is not None:
           self.set_trees(left, right)
       if self._matches is not None:
           return self._matches
       self._matches = []; self._l2rmap = {}; self._r2lmap = {}; self._inorder = set(); ...
       lnodes = list(utils.post_order_traverse(self.left))     # AttributeError on None
       rnodes = list(utils.post_order_traverse(self.right))
       ... matching ...
       return self._matches *)
Definition do_match (s : dstate) (ol or : option T) : dstate * outcome :=
  let '(s1, e) := if eval_guard ol or s (sh_match_guard sh)
                  then do_set_trees s ol or else (s, None) in
  match e with
  | Some e => (s1, OError e)
  | None =>
    if eval_guard ol or s1 (sh_cache_guard sh) then
      match d_matches s1 with
      | Some m => (s1, OMatches m)
      | None => (s1, ONone)          (* `return None`: only if the cache guard is not `is not None` *)
      end
    else
      match d_left s1, d_right s1 with
      | Some l, Some r =>
          let m := match_fn l r in
          (DS (Some l) (Some r) (Some m) (d_consumed s1), OMatches m)
      | _, _ =>
          (* the prologue has already run: self._matches == [] from now on *)
          (DS (d_left s1) (d_right s1) (Some m_empty) (d_consumed s1), OError EAttributeError)
      end
  end.

(* def diff(self, left=None, right=None):
       if left is not None or right is not None or not self._matches:
           self.match(left, right)
       rnsmap = self.right.nsmap            # AttributeError on None
       lnsmap = self.left.nsmap
       ... the generator: yields the script, mutates self.left, append_match, _inorder ...
   `ODiff` is list(d.diff(..)): the generator is created and exhausted. *)
Definition do_diff (s : dstate) (ol or : option T) : dstate * outcome :=
  let '(s1, o1) := if eval_guard ol or s (sh_diff_guard sh)
                   then do_match s ol or else (s, ONone) in
  match o1 with
  | OError e => (s1, OError e)
  | _ =>
    match d_right s1, d_left s1, d_matches s1 with
    | Some r, Some l, Some m =>
        let '(sc, l', m') := script_fn l r m in
        (DS (Some l') (Some r) (Some m') true, OScript sc)
    | _, _, _ => (s1, OError EAttributeError)
    end
  end.

Inductive op :=
| OClear
| OSetTrees (ol or : option T)
| OMatch (ol or : option T)
| ODiff (ol or : option T).

Definition step (s : dstate) (o : op) : dstate * outcome :=
  match o with
  | OClear => (do_clear s, ONone)
  | OSetTrees ol or =>
      let '(s', e) := do_set_trees s ol or in
      (s', match e with Some e => OError e | None => ONone end)
  | OMatch ol or => do_match s ol or
  | ODiff ol or => do_diff s ol or
  end.

Definition state_after (p : dstate * outcome) : dstate := fst p.
Definition output (p : dstate * outcome) : outcome := snd p.

(* a history of calls on one instance *)
Definition run (s : dstate) (ops : list op) : dstate :=
  fold_left (fun s o => state_after (step s o)) ops s.

(* the same, keeping every call's outcome *)
Fixpoint trace (s : dstate) (ops : list op) : list outcome :=
  match ops with
  | [] => []
  | o :: r => output (step s o) :: trace (state_after (step s o)) r
  end.

Definition reachable (ops : list op) (s : dstate) : Prop := s = run d_init ops.

(* the edit script of two documents: what a FRESH differ gives *)
Definition script_of (l r : T) : S := fst (fst (script_fn l r (match_fn l r))).

(* main.diff_trees(left, right) without a formatter:
       differ = diff.Differ(<options>); diffs = differ.diff(left, right); return list(diffs) *)
Definition diff_trees (l r : T) : outcome := output (step d_init (ODiff (Some l) (Some r))).

End DifferObj.

Arguments DS {T M} _ _ _ _.
Arguments d_left {T M} _. Arguments d_right {T M} _. Arguments d_matches {T M} _.
Arguments d_consumed {T M} _.
Arguments d_init {T M}.
Arguments ONone {M S}. Arguments OMatches {M S} _. Arguments OScript {M S} _. Arguments OError {M S} _.
Arguments OClear {T}. Arguments OSetTrees {T} _ _. Arguments OMatch {T} _ _. Arguments ODiff {T} _ _.
Arguments state_after {T M S} _. Arguments output {T M S} _.

(* ====================================================================== *)
(** * patch.Patcher                                                        *)
(* ====================================================================== *)
Section PatcherObj.

Variable Tr : Type.     (* trees *)
Variable A : Type.      (* actions *)
Variable R : Type.      (* what patch() gives: the patched copy, or the exception *)
Variable NS : Type.     (* prefix -> URI dictionaries *)

Variable nsmap_of : Tr -> NS.   (* tree.nsmap without the None key (a fresh dict on every access) *)
Variable ns_empty : NS.         (* {} : what the `nsmap` property gives before the first patch *)
(* result = deepcopy(tree); for action in actions: self.handle_action(action, result)
   (_handle_InsertNamespace writes into the dictionary): result and the dictionary afterwards *)
Variable run_actions : NS -> Tr -> list A -> R * NS.

(* read from the source: `self._nsmap = tree.nsmap` precedes the loop *)
Variable ns_from_tree : bool.

Record pobj := PO { p_nsmap : option NS }.    (* None: the attribute does not exist yet *)
Definition p_init : pobj := PO None.          (* Patcher has no __init__ *)

(* @property def nsmap(self): return getattr(self, "_nsmap", {}) *)
Definition nsmap_prop (st : pobj) : NS :=
  match p_nsmap st with Some n => n | None => ns_empty end.

(* def patch(self, actions, tree):
       self._nsmap = tree.nsmap; if None in self._nsmap: del self._nsmap[None]
       result = deepcopy(tree)
       for action in actions: self.handle_action(action, result)
       return result *)
Definition patch_obj (st : pobj) (t : Tr) (acts : list A) : pobj * R :=
  let ns := if ns_from_tree then nsmap_of t else nsmap_prop st in
  let '(res, ns') := run_actions ns t acts in
  (PO (Some ns'), res).

Definition result (p : pobj * R) : R := snd p.

Definition patch_run (st : pobj) (calls : list (Tr * list A)) : pobj :=
  fold_left (fun st c => fst (patch_obj st (fst c) (snd c))) calls st.

(* main.patch_tree(actions, tree): patcher = patch.Patcher(); return patcher.patch(actions, tree) *)
Definition patch_tree (t : Tr) (acts : list A) : R := result (patch_obj p_init t acts).

End PatcherObj.

Arguments PO {NS} _. Arguments p_nsmap {NS} _. Arguments p_init {NS}.
Arguments result {R NS} _.

(* ====================================================================== *)
(** * formatting.DiffFormatter / formatting.XmlDiffFormatter               *)
(* ====================================================================== *)
Section FormatterObjs.

Variable A : Type.      (* actions *)
Variable Tr : Type.     (* trees *)
Variable Out : Type.    (* the text, or the exception *)
Variable NS : Type.

(* --- 'diff' : DiffFormatter ------------------------------------------------ *)
Record dfobj := DF { df_normalize : nat }.   (* the only attribute, set by __init__ *)

(* "\n".join(self._format_action(action) for action in diff) where every handler
   is `return (<keyword>, f(action.x), ...)` *)
Variable fmt_diff : list A -> Out.
(* what a formatter whose handlers assigned to / read attributes of self could do *)
Variable fmt_stateful : dfobj -> list A -> option Tr -> dfobj * Out.
(* read from the source: no method other than __init__ stores to or reads a data
   attribute of self *)
Variable df_stateless : bool.

(* def format(self, diff, orig_tree): res = "\n".join(...); return res *)
Definition diff_format (st : dfobj) (acts : list A) (orig : option Tr) : dfobj * Out :=
  if df_stateless then (st, fmt_diff acts) else fmt_stateful st acts orig.

(* def prepare(self, left, right): return        def finalize(self, left, right): return *)
Definition diff_prepare (st : dfobj) (l r : Tr) : dfobj := st.
Definition diff_finalize (st : dfobj) (l r : Tr) : dfobj := st.

(* --- 'old' : XmlDiffFormatter ---------------------------------------------- *)
Record xdfobj := XDF { xdf_normalize : nat; xdf_nsmap : option NS }.

(* {} when orig_tree is None, else the non-default prefixes of the copy's root *)
Variable old_ns_of : option Tr -> NS.
(* the loop of format() (handle_action + the patcher keeping the copy in step;
   both share the dictionary): the text and the dictionary afterwards *)
Variable old_run : NS -> option Tr -> list A -> Out * NS.
Variable ns_empty' : NS.
(* read from the source: `self._nsmap = {}` (and the assignment from the tree)
   precede the loop *)
Variable old_ns_reset : bool.

Definition old_format (st : xdfobj) (acts : list A) (orig : option Tr) : xdfobj * Out :=
  let ns := if old_ns_reset then old_ns_of orig
            else match xdf_nsmap st with Some n => n | None => ns_empty' end in
  let '(o, ns') := old_run ns orig acts in
  (XDF (xdf_normalize st) (Some ns'), o).

End FormatterObjs.

Arguments XDF {NS} _ _. Arguments xdf_nsmap {NS} _. Arguments xdf_normalize {NS} _.
