(* ComposeProofs.v -- composition of the per-component theorems.

   Part 1 (C02, second sentence): diff, render, FORMAT as text, PARSE the text,
   PATCH: the result is the right document.
   - [attr_run_lit], [gen_script_lit]: every string an action of the differ
     carries literally is taken from a label of the right document;
   - [spec_apply_labs_ok]: the documented semantics keeps all labels printable;
   - [getpath_raw_ok]: the xpath of a document node is raw_ok;
   - [render_wf]: a rendered applicable action is well formed for the text format;
   - [rendered_script_wf], [diff_text_patch]. *)
From Coq Require Import List NArith ZArith Arith Bool Lia Sorting.Permutation.
Import ListNotations.
Require Import XV.Str XV.StrProofs XV.Json XV.JsonProofs XV.TextFormat XV.TextFormatProofs XV.Gen.TextTables
               XV.Forest XV.LCS XV.Matcher XV.Differ XV.Spec XV.WF XV.ForestProofs XV.TreeProofs
               XV.AttrProofs XV.DifferFrame XV.DifferAlign XV.DifferSound
               XV.Path XV.PathProofs XV.PatcherDSL XV.Gen.PatcherProg XV.Render XV.PatcherProofs
               XV.EqualDocsScript XV.Pipeline XV.PipelineProofs XV.Compose.

(* ------------------------------------------------------------------ *)
(** * 1. The literals of the attribute actions come from the right node *)
(* ------------------------------------------------------------------ *)
Definition attr_lit (ra : list (str * str)) (a : attr_act) : Prop :=
  match a with
  | AUpd k v | AIns k v => In (k, v) ra
  | ARen _ k' => In k' (map fst ra)
  | ADel _ => True
  end.

Section AttrLit.
Variable ign : list str.
Variable ra : list (str * str).
Local Notation Q := (fun p : pst => Forall (attr_lit ra) (pacts p)).

Lemma QL_snoc p a l e : Q p -> attr_lit ra a -> Q (P (pacts p ++ [a]) l e).
Proof. cbn [pacts]. intros H1 H2. apply Forall_app. split; [exact H1|]. constructor; [exact H2|constructor]. Qed.

Lemma upd_step_QL p k : Q p -> Q (upd_step ra p k).
Proof.
  intros HQ. unfold upd_step.
  destruct (aget (pcur p) k) as [a|]; [|exact HQ]. destruct (aget ra k) as [b|] eqn:Eb; [|exact HQ].
  destruct (str_eqb a b); [exact HQ|]. apply QL_snoc; [exact HQ|]. apply aget_Some_In, Eb.
Qed.

Definition RL (x : pst * list str * list (str * str)) : Prop :=
  Q (fst (fst x)) /\ (forall v k, aget (snd x) v = Some k -> In k (map fst ra)).

Lemma ren_step_RL x k : RL x -> RL (ren_step x k).
Proof.
  destruct x as [[p newk] nmap]. intros (H1 & H3). unfold RL in *. cbn [fst snd] in *.
  unfold ren_step. destruct (aget (pcur p) k) as [v|]; cbn [fst snd]; [|auto].
  destruct (aget nmap v) as [rk|] eqn:Ev; cbn [fst snd]; [|auto].
  split.
  - apply QL_snoc; [exact H1|]. cbn [attr_lit]. eapply H3; eauto.
  - intros v' k'. rewrite aget_adel. destruct (str_eqb v v'); [discriminate|apply H3].
Qed.

Lemma ins_step_QL p k : Q p -> Q (ins_step ra p k).
Proof.
  intros HQ. unfold ins_step. destruct (aget ra k) as [b|] eqn:Eb; [|exact HQ].
  apply QL_snoc; [exact HQ|]. apply aget_Some_In, Eb.
Qed.

Lemma del_step_QL p k : Q p -> Q (AttrProofs.del_step p k).
Proof.
  intros HQ. unfold AttrProofs.del_step. destruct (ahas (pcur p) k); [|exact HQ].
  apply QL_snoc; [exact HQ|exact I].
Qed.

Lemma fold_left_inv {A K} (I : A -> Prop) (f : A -> K -> A) :
  (forall a k, I a -> I (f a k)) -> forall ks a, I a -> I (fold_left f ks a).
Proof.
  intros Hstep ks. induction ks as [|k ks IH]; intros a Ha; cbn [fold_left]; [exact Ha|].
  apply IH, Hstep, Ha.
Qed.

Theorem attr_run_lit la : Forall (attr_lit ra) (pacts (attr_run ign la ra)).
Proof.
  unfold attr_run. cbv zeta.
  set (p1 := fold_left (upd_step ra) _ _).
  assert (Q1 : Q p1) by (apply (fold_left_inv Q); [intros a k; apply upd_step_QL|constructor]).
  set (x0 := (p1, new_keys ign la ra, newattrmap ra (new_keys ign la ra))).
  assert (R2 : RL (fold_left ren_step (sort_strs (removed_keys ign la ra)) x0)).
  { apply (fold_left_inv RL); [intros a k; apply ren_step_RL|].
    unfold RL, x0. cbn [fst snd]. split; [exact Q1|].
    intros v k E. apply newattrmap_In in E. apply new_keys_In in E as [E _].
    apply left_keys_In in E as [E _]. exact E. }
  destruct (fold_left ren_step (sort_strs (removed_keys ign la ra)) x0) as [[p2 nk2] nm2].
  destruct R2 as (Q2 & _). cbn [fst snd] in Q2.
  apply (fold_left_inv Q); [intros a k; apply del_step_QL|].
  apply (fold_left_inv Q); [intros a k; apply ins_step_QL|exact Q2].
Qed.
End AttrLit.

(* ------------------------------------------------------------------ *)
(** * 2. The literals of all actions come from the right document       *)
(* ------------------------------------------------------------------ *)
Lemma lab_fmt_ok_inv l : lab_fmt_okb l = true ->
  match ltag l with TElem t => name_okb t = true | TComment => True end /\
  (forall k v, In (k, v) (lattrs l) -> name_okb k = true /\ forallb xml_charb v = true) /\
  otext_xmlb (ltext l) = true /\ otext_xmlb (ltail l) = true.
Proof.
  unfold lab_fmt_okb. intros H. apply andb_true_iff in H as [H H4]. apply andb_true_iff in H as [H H3].
  apply andb_true_iff in H as [H1 H2]. split; [destruct (ltag l); [exact H1|exact I]|].
  split; [|split; assumption]. intros k v Hin. rewrite forallb_forall in H2.
  specialize (H2 _ Hin). cbn [fst snd] in H2. apply andb_true_iff in H2. exact H2.
Qed.

Lemma lift_lit l n a : lab_fmt_okb l = true -> attr_lit (lattrs l) a -> lit_okb (lift n a) = true.
Proof.
  intros Hl Ha. destruct (lab_fmt_ok_inv l Hl) as (_ & H2 & _).
  destruct a as [k v|k v|k|k k']; cbn [lift lit_okb attr_lit] in *; try reflexivity.
  - destruct (H2 k v Ha) as [E1 E2]. rewrite E1, E2. reflexivity.
  - destruct (H2 k v Ha) as [E1 E2]. rewrite E1, E2. reflexivity.
  - apply in_map_iff in Ha as ([k0 v0] & <- & Hin). apply (H2 k0 v0 Hin).
Qed.

Section ExtLit.
Variable ign : list str.
Variable R : forest.

Definition ext_lit (s s' : st) : Prop :=
  exists acts, out s' = out s ++ acts /\ Forall (fun a => lit_okb a = true) acts.

Lemma xl_refl s : ext_lit s s.
Proof. exists []. rewrite app_nil_r. split; [reflexivity|constructor]. Qed.
Lemma xl_same s s' : out s' = out s -> ext_lit s s'.
Proof. intros E. exists []. rewrite app_nil_r. split; [exact E|constructor]. Qed.
Lemma xl_one s s' a : out s' = out s ++ [a] -> lit_okb a = true -> ext_lit s s'.
Proof. intros E H. exists [a]. split; [exact E|]. constructor; [exact H|constructor]. Qed.
Lemma xl_trans s1 s2 s3 : ext_lit s1 s2 -> ext_lit s2 s3 -> ext_lit s1 s3.
Proof.
  intros (a1 & E1 & F1) (a2 & E2 & F2). exists (a1 ++ a2).
  split; [rewrite E2, E1, app_assoc; reflexivity|]. apply Forall_app. split; assumption.
Qed.
Lemma xl_fold {K} (f : st -> K -> st) (ks : list K) :
  (forall s k, In k ks -> ext_lit s (f s k)) -> forall s, ext_lit s (fold_left f ks s).
Proof.
  induction ks as [|k ks IH]; intros Hstep s; cbn [fold_left]; [apply xl_refl|].
  eapply xl_trans; [apply Hstep; left; reflexivity|]. apply IH. intros t x Hx. apply Hstep. right; exact Hx.
Qed.

Variable y : id.
Hypothesis Hy : lab_fmt_okb (flab R y) = true.

Lemma upd_attr_xl s ln : ext_lit s (upd_attr ign R s ln y).
Proof.
  destruct (upd_attr_lift ign R s ln y) as (E & _).
  eexists. split; [exact E|]. apply Forall_forall. intros a Ha.
  apply in_map_iff in Ha as (x & <- & Hx). apply (lift_lit (flab R y)); [exact Hy|].
  pose proof (attr_run_lit ign (lattrs (labof R y)) (cur_attrs s ln)) as HF.
  rewrite Forall_forall in HF. apply HF, Hx.
Qed.

Lemma upd_tag_xl s ln : ext_lit s (upd_tag R s ln y).
Proof.
  unfold upd_tag. destruct (tag_eqb _ _); [apply xl_refl|].
  destruct (ltag (labof R y)) as [t|] eqn:Et; [|apply xl_same; reflexivity].
  eapply xl_one; [reflexivity|]. cbn [lit_okb].
  destruct (lab_fmt_ok_inv _ Hy) as (H1 & _). unfold labof in Et. rewrite Et in H1. exact H1.
Qed.

Lemma upd_text_xl s ln : ext_lit s (upd_text R s ln y).
Proof.
  destruct (lab_fmt_ok_inv _ Hy) as (_ & _ & H3 & H4).
  unfold upd_text.
  set (s1 := if ostr_eqb (ltext (labof (W s) ln)) (ltext (labof R y)) then s else _).
  assert (H1 : ext_lit s s1).
  { unfold s1. destruct (ostr_eqb _ _); [apply xl_refl|]. eapply xl_one; [reflexivity|exact H3]. }
  eapply xl_trans; [exact H1|]. cbv zeta.
  destruct (ostr_eqb (ltail (labof (W s1) ln)) (ltail (labof R y))); [apply xl_refl|].
  eapply xl_one; [reflexivity|exact H4].
Qed.

Lemma align_body_xl s c : ext_lit s (align_body R s c).
Proof.
  unfold align_body. destruct (inoL s c); [apply xl_refl|].
  destruct (l2r s c) as [r|]; [|apply xl_same; reflexivity].
  destruct (find_pos R s r) as [pos|]; [|apply xl_same; reflexivity].
  destruct (parentof R r) as [rt|]; [|apply xl_same; reflexivity].
  destruct (r2l s rt) as [lt|]; [|apply xl_same; reflexivity].
  eapply xl_one; reflexivity.
Qed.

Lemma align_xl s ln rn : ext_lit s (align R s ln rn).
Proof.
  rewrite align_unfold. cbv zeta. rewrite match_nil2.
  destruct (_ || _); [apply xl_refl|].
  destruct (lcs_seq _ _ _) as [ps|]; [|apply xl_same; reflexivity].
  eapply xl_trans; [|apply xl_fold; intros; apply align_body_xl].
  apply xl_same. apply fold_out_same. intros; reflexivity.
Qed.

Lemma finish_xl s ln : ext_lit s (finish R s ln y).
Proof.
  unfold finish. cbv zeta. eapply xl_trans; [apply align_xl|].
  destruct (r2l _ y); [apply upd_text_xl|apply xl_same; reflexivity].
Qed.

Lemma visit_xl s : ext_lit s (visit ign R s y).
Proof.
  rewrite visit_shape. cbv zeta.
  destruct (r2l s y) as [c|].
  - eapply xl_trans; [|apply finish_xl]. eapply xl_trans; [|apply upd_attr_xl].
    eapply xl_trans; [|apply upd_tag_xl].
    destruct (oid_eqb _ _); [apply xl_refl|].
    destruct (match parentof R y with Some rp => r2l s rp | None => None end) as [lt|];
      [|apply xl_same; reflexivity].
    destruct (find_pos R s y); [eapply xl_one; reflexivity|apply xl_same; reflexivity].
  - destruct (match parentof R y with Some rp => r2l s rp | None => None end) as [lt|];
      [|eapply xl_trans; [|apply finish_xl]; apply xl_same; reflexivity].
    destruct (find_pos R s y) as [pos|];
      [|eapply xl_trans; [|apply finish_xl]; apply xl_same; reflexivity].
    eapply xl_trans; [|apply finish_xl]. eapply xl_trans; [|apply upd_attr_xl].
    eapply xl_one; [apply do_ins_out|].
    destruct (lab_fmt_ok_inv _ Hy) as (H1 & _ & H3 & _).
    unfold new_act, labof. destruct (ltag (flab R y)); cbn [fst lit_okb]; assumption.
Qed.
End ExtLit.

Theorem gen_script_lit ign R rootR L rootL m :
  wf_forest R rootR -> doc_fmt_okb R = true ->
  Forall (fun a => lit_okb a = true) (out (gen_script ign R rootR L rootL m)).
Proof.
  intros HwfR HR. unfold gen_script.
  assert (H : ext_lit (init_state L m)
                (delete_phase rootL (fold_left (visit ign R) (bfs R (S (fnext R)) [rootR]) (init_state L m)))).
  { apply (xl_trans _ (fold_left (visit ign R) (bfs R (S (fnext R)) [rootR]) (init_state L m))).
    - apply (xl_fold (visit ign R)). intros s y Hy. apply visit_xl.
      apply bfs_desc in Hy as (a & [<-|[]] & Hd).
      unfold doc_fmt_okb in HR. rewrite forallb_forall in HR. apply HR. apply in_seq.
      pose proof (desc_lt R rootR rootR y HwfR (wf_root_lt _ _ HwfR) Hd). lia.
    - unfold delete_phase. apply xl_fold. intros t n _.
      destruct (l2r t n); [apply xl_refl|]. eapply xl_one; reflexivity. }
  destruct H as (acts & E & HF). rewrite E. exact HF.
Qed.

(* ------------------------------------------------------------------ *)
(** * 3. The documented semantics keeps the labels printable            *)
(* ------------------------------------------------------------------ *)
Definition labs_ok (f : forest) : Prop := forall n, n < fnext f -> lab_fmt_okb (flab f n) = true.

Lemma doc_fmt_okb_labs f : doc_fmt_okb f = true -> labs_ok f.
Proof.
  unfold doc_fmt_okb, labs_ok. rewrite forallb_forall. intros H n Hn. apply H, in_seq. lia.
Qed.

Definition pair_okb (kv : str * str) : bool := name_okb (fst kv) && forallb xml_charb (snd kv).

Lemma forallb_aput (l : list (str * str)) k v :
  forallb pair_okb l = true -> pair_okb (k, v) = true -> forallb pair_okb (aput l k v) = true.
Proof.
  intros Hl Hkv. unfold aput. destruct (ahas l k).
  - rewrite forallb_forall in *. intros x Hx. apply in_map_iff in Hx as (y & <- & Hy).
    destruct (str_eqb k (fst y)); [exact Hkv|apply Hl, Hy].
  - rewrite forallb_app, Hl. cbn [forallb]. rewrite Hkv. reflexivity.
Qed.

Lemma forallb_adel (l : list (str * str)) k : forallb pair_okb l = true -> forallb pair_okb (adel l k) = true.
Proof.
  intros Hl. unfold adel. rewrite forallb_forall in *. intros x Hx. apply filter_In in Hx as [Hx _]. apply Hl, Hx.
Qed.

Lemma lab_fmt_okb_eq l :
  lab_fmt_okb l = match ltag l with TElem t => name_okb t | TComment => true end
                  && forallb pair_okb (lattrs l) && otext_xmlb (ltext l) && otext_xmlb (ltail l).
Proof. reflexivity. Qed.

(* replacing one label *)
Lemma labs_ok_set_lab f n l :
  labs_ok f -> (n < fnext f -> lab_fmt_okb l = true) -> labs_ok (set_lab f n l).
Proof.
  intros Hf Hl m Hm. cbn [set_lab fnext flab] in *. unfold upd.
  destruct (Nat.eqb m n) eqn:E; [apply Nat.eqb_eq in E; subst; apply Hl, Hm|apply Hf, Hm].
Qed.

Lemma labs_ok_same_labs f g : labs_ok f -> fnext g = fnext f -> flab g = flab f -> labs_ok g.
Proof. intros Hf E1 E2 n Hn. rewrite E2. apply Hf. rewrite <- E1. exact Hn. Qed.

Lemma labs_ok_ins f l t pos n :
  labs_ok f -> lab_fmt_okb l = true -> labs_ok (insert_at (fst (alloc f l)) t pos n).
Proof.
  intros Hf Hl m Hm. cbn [insert_at set_kids alloc fst fnext flab] in *. unfold upd.
  destruct (Nat.eqb m (fnext f)) eqn:E; [exact Hl|]. apply Nat.eqb_neq in E. apply Hf. lia.
Qed.

Lemma ahas_pair_ok l k : forallb pair_okb l = true -> ahas l k = true -> name_okb k = true.
Proof.
  intros Hl Hk. apply ahas_In in Hk. apply in_map_iff in Hk as ([k0 v0] & <- & Hin).
  rewrite forallb_forall in Hl. specialize (Hl _ Hin). unfold pair_okb in Hl. cbn [fst snd] in *.
  apply andb_true_iff in Hl. tauto.
Qed.

Definition tag_okb (t : tagt) : bool := match t with TElem t => name_okb t | TComment => true end.

Lemma lab_parts l :
  lab_fmt_okb l = true <->
  tag_okb (ltag l) = true /\ forallb pair_okb (lattrs l) = true /\
  otext_xmlb (ltext l) = true /\ otext_xmlb (ltail l) = true.
Proof. rewrite lab_fmt_okb_eq, !andb_true_iff. unfold tag_okb. tauto. Qed.

Theorem spec_apply_labs_ok root f a f' :
  labs_ok f -> lit_okb a = true -> spec_apply root f a = Some f' -> labs_ok f'.
Proof.
  intros Hf Hl Hs.
  destruct a as [t tag pos n|t pos txt n|n t pos|n|n tag|n txt|n txt|n k v|n k v|n k|n k k'|p u|p];
    cbn [spec_apply lit_okb] in *.
  - destruct (_ && _ && _ && _); [|discriminate]. injection Hs as <-.
    apply labs_ok_ins; [exact Hf|]. apply lab_parts. cbn. auto.
  - destruct (_ && _ && _ && _); [|discriminate]. injection Hs as <-.
    apply labs_ok_ins; [exact Hf|]. apply lab_parts. cbn. auto.
  - destruct (_ && _ && _ && _ && _ && _); [|discriminate]. injection Hs as <-.
    apply (labs_ok_same_labs f); [exact Hf|apply fnext_move|apply flab_move].
  - destruct (_ && _ && _); [|discriminate]. injection Hs as <-.
    apply (labs_ok_same_labs f); [exact Hf|apply fnext_detach|apply flab_detach].
  - destruct (_ && _); [|discriminate]. injection Hs as <-.
    apply labs_ok_set_lab; [exact Hf|]. intros Hn. destruct (proj1 (lab_parts _) (Hf n Hn)) as (A & B & C & D).
    apply lab_parts. cbn. auto.
  - destruct (alive f root n); [|discriminate]. injection Hs as <-.
    apply labs_ok_set_lab; [exact Hf|]. intros Hn. destruct (proj1 (lab_parts _) (Hf n Hn)) as (A & B & C & D).
    apply lab_parts. cbn. auto.
  - destruct (_ && _); [|discriminate]. injection Hs as <-.
    apply labs_ok_set_lab; [exact Hf|]. intros Hn. destruct (proj1 (lab_parts _) (Hf n Hn)) as (A & B & C & D).
    apply lab_parts. cbn. auto.
  - destruct (_ && _ && _); [|discriminate]. injection Hs as <-.
    apply labs_ok_set_lab; [exact Hf|]. intros Hn. destruct (proj1 (lab_parts _) (Hf n Hn)) as (A & B & C & D).
    apply lab_parts. cbn [set_attrs_f ltag lattrs ltext ltail]. unfold labof.
    split; [exact A|]. split; [|auto]. apply forallb_aput; assumption.
  - destruct (_ && _ && _); [|discriminate]. injection Hs as <-.
    apply labs_ok_set_lab; [exact Hf|]. intros Hn. destruct (proj1 (lab_parts _) (Hf n Hn)) as (A & B & C & D).
    apply lab_parts. cbn [set_attrs_f ltag lattrs ltext ltail]. unfold labof.
    split; [exact A|]. split; [|auto]. apply forallb_aput; assumption.
  - destruct (_ && _ && _); [|discriminate]. injection Hs as <-.
    apply labs_ok_set_lab; [exact Hf|]. intros Hn. destruct (proj1 (lab_parts _) (Hf n Hn)) as (A & B & C & D).
    apply lab_parts. cbn [set_attrs_f ltag lattrs ltext ltail]. unfold labof.
    split; [exact A|]. split; [|auto]. apply forallb_adel; assumption.
  - destruct (aget (lattrs (labof f n)) k) as [v|] eqn:Ek; [|discriminate].
    destruct (_ && _ && _); [|discriminate]. injection Hs as <-.
    apply labs_ok_set_lab; [exact Hf|]. intros Hn. destruct (proj1 (lab_parts _) (Hf n Hn)) as (A & B & C & D).
    apply lab_parts. cbn [set_attrs_f ltag lattrs ltext ltail]. unfold labof in *.
    split; [exact A|]. split; [|auto]. apply forallb_adel, forallb_aput; [assumption|].
    apply aget_Some_In in Ek. rewrite forallb_forall in B. specialize (B _ Ek).
    unfold pair_okb in *. cbn [fst snd] in *. rewrite Hl. apply andb_true_iff in B. tauto.
  - injection Hs as <-. exact Hf.
  - injection Hs as <-. exact Hf.
Qed.

(* ------------------------------------------------------------------ *)
(** * 4. The xpath of a document node is raw_ok                         *)
(* ------------------------------------------------------------------ *)
Definition test_rawb (t : ntest) : bool :=
  match t with
  | NName None l => forallb raw_charb l
  | NName (Some p) l => forallb raw_charb p && forallb raw_charb l
  | NStar | NComment => true
  end.

Lemma raw_charb_digit c : is_digit c = true -> raw_charb c = true.
Proof.
  intros H. apply is_digit_range in H. unfold raw_charb.
  rewrite (is_linebreak_printable c) by lia.
  replace (c =? 44)%N with false by (symmetry; apply N.eqb_neq; lia).
  replace (c =? 34)%N with false by (symmetry; apply N.eqb_neq; lia). reflexivity.
Qed.

Lemma step_str_raw s : test_rawb (st_test s) = true -> forallb raw_charb (47%N :: step_to_str s) = true.
Proof.
  intros H. cbn [forallb]. apply andb_true_iff. split; [reflexivity|].
  unfold step_to_str. rewrite forallb_app. apply andb_true_iff. split.
  - destruct (st_test s) as [[p|] l| |]; cbn [test_to_str test_rawb] in *.
    + apply andb_true_iff in H as [H1 H2]. rewrite forallb_app, H1. cbn [forallb]. rewrite H2. reflexivity.
    + exact H.
    + reflexivity.
    + reflexivity.
  - destruct (st_idx s) as [i|]; [|reflexivity]. cbn [forallb]. apply andb_true_iff. split; [reflexivity|].
    rewrite forallb_app. apply andb_true_iff. split; [|reflexivity].
    apply forallb_forall. intros c Hc. apply raw_charb_digit.
    pose proof (str_of_N_digits (N.of_nat i)) as HD. rewrite Forall_forall in HD. apply HD, Hc.
Qed.

Lemma path_str_raw p :
  forallb (fun s => test_rawb (st_test s)) p = true -> forallb raw_charb (path_to_str p) = true.
Proof.
  induction p as [|s p IH]; intros H; [reflexivity|]. cbn [forallb] in H. apply andb_true_iff in H as [H1 H2].
  unfold path_to_str. cbn [flat_map]. change (flat_map _ p) with (path_to_str p).
  change (47%N :: step_to_str s ++ path_to_str p) with ((47%N :: step_to_str s) ++ path_to_str p).
  rewrite forallb_app, (step_str_raw s H1), (IH H2). reflexivity.
Qed.

(* a non-empty path whose last step is indexed prints as "/" ... "]" *)
Lemma path_str_delimited p : p <> [] -> last_indexed p = true ->
  exists m, path_to_str p = 47%N :: m ++ [93%N].
Proof.
  intros Hne Hl. destruct (@exists_last _ p Hne) as (pre & s & ->).
  unfold last_indexed in Hl. rewrite rev_app_distr in Hl. cbn [rev app] in Hl.
  destruct (st_idx s) as [i|] eqn:Ei; [|discriminate].
  assert (Es : step_to_str s = (test_to_str (st_test s) ++ 91%N :: str_of_N (N.of_nat i)) ++ [93%N]).
  { unfold step_to_str. rewrite Ei, <- app_assoc. reflexivity. }
  unfold path_to_str. rewrite flat_map_app. cbn [flat_map]. rewrite app_nil_r, Es.
  destruct pre as [|s0 pre].
  - cbn [flat_map app]. eexists. reflexivity.
  - cbn [flat_map]. set (X := step_to_str s0 ++ flat_map (fun s1 => 47%N :: step_to_str s1) pre).
    exists (X ++ 47%N :: test_to_str (st_test s) ++ 91%N :: str_of_N (N.of_nat i)).
    unfold X. cbn [app]. rewrite <- ?app_assoc. cbn [app]. rewrite <- ?app_assoc. cbn [app]. reflexivity.
Qed.

Lemma path_raw_okb p : p <> [] -> last_indexed p = true ->
  forallb (fun s => test_rawb (st_test s)) p = true -> raw_okb (path_to_str p) = true.
Proof.
  intros Hne Hl Ht. unfold raw_okb. rewrite (path_str_raw p Ht). cbn [andb].
  destruct (path_str_delimited p Hne Hl) as [m ->].
  rewrite strip_delimited by reflexivity. rewrite StrProofs.str_eqb_refl. reflexivity.
Qed.

(* the node tests of getpath are the tests of document nodes *)
Lemma st_test_step_of f pe n sibs : st_test (step_of f pe n sibs) = test_of pe (ltag (labof f n)).
Proof. reflexivity. Qed.

Lemma getpath_tests (Pt : ntest -> bool) pe f root n :
  wf_forest f root -> In n (doc_nodes f root) ->
  (forall m, In m (doc_nodes f root) -> Pt (test_of pe (ltag (flab f m))) = true) ->
  forallb (fun s => Pt (st_test s)) (getpath pe f root n) = true /\
  getpath pe f root n <> [] /\ last_indexed (getpath pe f root n) = true.
Proof.
  intros Hwf Hn Hok. pose proof Hn as Hn'. apply (doc_nodes_iff f root n Hwf) in Hn.
  assert (Hchain : forall l b, pathto f root l b ->
            forallb (fun s => Pt (st_test s)) (chain_steps f pe l) = true).
  { induction 1 as [|l b c Hp IH Hin].
    - cbn [chain_steps forallb]. rewrite andb_true_r. apply Hok. apply doc_nodes_iff; [exact Hwf|constructor].
    - destruct (path_head _ _ _ _ Hp) as [l' ->].
      change (chain_steps f pe (c :: b :: l')) with (chain_steps f pe (b :: l') ++ [step_of f pe c (kidsof f b)]).
      rewrite forallb_app, IH. cbn [forallb andb]. rewrite andb_true_r.
      apply Hok. apply doc_nodes_iff; [exact Hwf|]. eapply desc_step; [|exact Hin].
      eapply path_desc; [exact Hp|left; reflexivity]. }
  assert (Hforce : forall s, st_test (force_step s) = st_test s) by (intros s; reflexivity).
  assert (Hlast : forall pre s, last_indexed (pre ++ [force_step s]) = true).
  { intros pre s. unfold last_indexed. rewrite rev_app_distr. unfold force_step. cbn [rev app st_idx].
    destruct (st_idx s); reflexivity. }
  destruct (getpath_shape pe f root n Hwf Hn) as [[-> E]|(l' & b & Hp & Hin & E)]; rewrite E.
  - split; [|split; [discriminate|apply (Hlast [])]].
    cbn [forallb]. rewrite andb_true_r, Hforce. apply Hok. exact Hn'.
  - split; [|split; [intros H; apply app_eq_nil in H as [_ H]; discriminate|apply Hlast]].
    rewrite forallb_app, (Hchain l' b Hp). cbn [forallb andb]. rewrite andb_true_r, Hforce.
    apply Hok. exact Hn'.
Qed.

Lemma split_brace_first s : forall acc u l,
  split_brace s acc = Some (u, l) -> exists s1, s = s1 ++ 125%N :: l /\ u = rev acc ++ s1 /\ ~ In 125%N s1.
Proof.
  induction s as [|c r IH]; intros acc u l H; cbn [split_brace] in H; [discriminate|].
  destruct (c =? 125)%N eqn:E.
  - inversion H; subst. apply N.eqb_eq in E. subst. exists []. rewrite app_nil_r. repeat split; auto.
  - apply IH in H as (s1 & -> & -> & Hn). exists (c :: s1). cbn [rev]. rewrite <- app_assoc.
    repeat split; try reflexivity. intros [Hc|Hc]; [subst c; discriminate|exact (Hn Hc)].
Qed.

Lemma local_charb_spec c : local_charb c = true -> (33 <= c <= 126 /\ c <> 44 /\ c <> 34)%N.
Proof.
  unfold local_charb. intros H. repeat (apply andb_true_iff in H as [H ?]).
  repeat match goal with X : negb _ = true |- _ => apply negb_true_iff, N.eqb_neq in X end.
  apply N.leb_le in H. match goal with X : (_ <=? 126)%N = true |- _ => apply N.leb_le in X end. lia.
Qed.

Lemma local_raw_charb c : local_charb c = true -> raw_charb c = true.
Proof.
  intros H. apply local_charb_spec in H as (H1 & H2 & H3). unfold raw_charb.
  rewrite (is_linebreak_printable c) by lia.
  replace (c =? 44)%N with false by (symmetry; apply N.eqb_neq; exact H2).
  replace (c =? 34)%N with false by (symmetry; apply N.eqb_neq; exact H3). reflexivity.
Qed.

(* a name the text format can carry is one field for DiffParser._split ... *)
Lemma name_rawq s : name_okb s = true -> rawq_okb s = true.
Proof.
  unfold name_okb. intros H. apply orb_true_iff in H as [H|H].
  - apply rawq_okb_spec, raw_rawq, raw_okb_spec, H.
  - apply rawq_okb_spec. unfold clark_nameb, unclark in H.
    destruct s as [|c r]; [discriminate|]. destruct (c =? 123)%N eqn:Ec; [|discriminate].
    destruct (split_brace r []) as [[u l]|] eqn:Es; [|discriminate].
    apply N.eqb_eq in Ec. subst c.
    apply split_brace_first in Es as (s1 & -> & -> & Hn). cbn [rev app] in *.
    apply andb_true_iff in H as [H Hl]. apply andb_true_iff in H as [Hu Hne].
    apply clark_rawq.
    + exact Hn.
    + apply Forall_forall. intros c Hc. rewrite forallb_forall in Hu. apply negb_true_iff, Hu, Hc.
    + apply Forall_forall. intros c Hc. rewrite forallb_forall in Hl. apply local_charb_spec, Hl, Hc.
    + destruct l; [discriminate|discriminate].
Qed.

(* ... and its local part is made of raw characters (what getpath prints) *)
Lemma name_local_raw name : name_okb name = true ->
  match unclark name with (Some _, l) => forallb raw_charb l = true | (None, _) => forallb raw_charb name = true end.
Proof.
  unfold name_okb. intros H. apply orb_true_iff in H as [H|H].
  - unfold raw_okb in H. apply andb_true_iff in H as [H _]. apply andb_true_iff in H as [H _].
    destruct (unclark name) as [[u|] l] eqn:E; [|exact H].
    apply unclark_Some in E. subst name. unfold clark in H. cbn [forallb] in H.
    apply andb_true_iff in H as [_ H]. rewrite forallb_app in H. apply andb_true_iff in H as [_ H].
    cbn [forallb] in H. apply andb_true_iff in H as [_ H]. exact H.
  - unfold clark_nameb in H. destruct (unclark name) as [[u|] l]; [|discriminate].
    apply andb_true_iff in H as [_ H]. apply forallb_forall. intros c Hc.
    rewrite forallb_forall in H. apply local_raw_charb, H, Hc.
Qed.

Lemma test_of_raw pe t : pe_raw_ok pe ->
  match t with TElem name => name_okb name = true | TComment => True end ->
  test_rawb (test_of pe t) = true.
Proof.
  intros Hpe Ht. destruct t as [name|]; [|reflexivity]. unfold test_of.
  apply name_local_raw in Ht.
  destruct (unclark name) as [[u|] l] eqn:E.
  - destruct (pe u) as [p|] eqn:Ep; [|reflexivity]. cbn [test_rawb]. rewrite (Hpe u p Ep), Ht. reflexivity.
  - apply unclark_None in E. subst l. exact Ht.
Qed.

Theorem getpath_raw_ok pe f root n :
  wf_forest f root -> labs_ok f -> pe_raw_ok pe -> alive f root n = true ->
  raw_okb (path_to_str (getpath pe f root n)) = true.
Proof.
  intros Hwf Hlabs Hpe Ha.
  assert (Hn : In n (doc_nodes f root)) by (apply mem_In; exact Ha).
  destruct (getpath_tests test_rawb pe f root n Hwf Hn) as (H1 & H2 & H3).
  { intros m Hm. apply test_of_raw; [exact Hpe|].
    assert (Hlt : m < fnext f).
    { apply (doc_nodes_iff f root m Hwf) in Hm. eapply desc_lt; [exact Hwf|apply (wf_root_lt _ _ Hwf)|exact Hm]. }
    destruct (proj1 (lab_parts _) (Hlabs m Hlt)) as (A & _).
    destruct (ltag (flab f m)) as [name|]; [|exact I].
    cbn [tag_okb] in A. exact A. }
  apply path_raw_okb; assumption.
Qed.

(* ------------------------------------------------------------------ *)
(** * 5. Rendered applicable actions are well formed for the text format *)
(* ------------------------------------------------------------------ *)
Lemma po_xml t : otext_xmlb t = true ->
  match po t with PStr s => forallb xml_charb s | PNone => true | PInt _ => false end = true.
Proof. destruct t; cbn; auto. Qed.

Lemma raw_q s : raw_okb s = true -> rawq_okb s = true.
Proof. intros H. apply rawq_okb_spec, raw_rawq, raw_okb_spec, H. Qed.

Theorem render_wf pe root f a f' :
  wf_forest f root -> labs_ok f -> pe_raw_ok pe -> lit_okb a = true ->
  spec_apply root f a = Some f' -> wf_actionqb tables (render pe root f a) = true.
Proof.
  intros Hwf Hlabs Hpe Hl Hs.
  assert (GP : forall n, alive f root n = true -> rawq_okb (path_to_str (getpath pe f root n)) = true)
    by (intros n Hn; apply raw_q, getpath_raw_ok; assumption).
  assert (AK : forall n k, alive f root n = true -> ahas (lattrs (labof f n)) k = true -> rawq_okb k = true).
  { intros n k Hn Hk. pose proof (alive_lt' root f n Hwf Hn) as Hlt.
    destruct (proj1 (lab_parts _) (Hlabs n Hlt)) as (_ & B & _). apply name_rawq. eapply ahas_pair_ok; eauto. }
  destruct a as [t tag pos n|t pos txt n|n t pos|n|n tag|n txt|n txt|n k v|n k v|n k|n k k'|p u|p];
    cbn [lit_okb] in Hl.
  - apply spec_insert_inv in Hs as (A & _). apply name_rawq in Hl. cbn. rewrite (GP t A), Hl. reflexivity.
  - apply spec_insert_comment_inv in Hs as (A & _). cbn. rewrite (GP t A), (po_xml txt Hl). reflexivity.
  - apply spec_move_inv in Hs as (A & _ & B & _). cbn. rewrite (GP n A), (GP t B). reflexivity.
  - apply spec_delete_inv in Hs as (A & _). cbn. rewrite (GP n A). reflexivity.
  - cbn [spec_apply] in Hs. destruct (alive f root n) eqn:A; [|discriminate].
    apply name_rawq in Hl. cbn. rewrite (GP n A), Hl. reflexivity.
  - cbn [spec_apply] in Hs. destruct (alive f root n) eqn:A; [|discriminate].
    cbn. rewrite (GP n A), (po_xml txt Hl). reflexivity.
  - cbn [spec_apply] in Hs. destruct (alive f root n) eqn:A; [|discriminate].
    cbn. rewrite (GP n A), (po_xml txt Hl). reflexivity.
  - apply spec_upd_attr_inv in Hs as (A & _). apply andb_true_iff in Hl as [H1 H2]. apply name_rawq in H1.
    cbn. rewrite (GP n A), H1, H2. reflexivity.
  - apply spec_ins_attr_inv in Hs as (A & _). apply andb_true_iff in Hl as [H1 H2]. apply name_rawq in H1.
    cbn. rewrite (GP n A), H1, H2. reflexivity.
  - apply spec_del_attr_inv in Hs as (A & _ & B). cbn. rewrite (GP n A), (AK n k A B). reflexivity.
  - apply spec_ren_attr_inv in Hs as (A & _ & B & _). apply name_rawq in Hl.
    cbn. rewrite (GP n A), (AK n k A B), Hl. reflexivity.
  - destruct p as [p|]; [|discriminate]. cbn [ns_act_fmt_okb] in Hl. apply andb_true_iff in Hl as [H1 H2].
    apply raw_q in H1, H2. cbn. rewrite H1, H2. reflexivity.
  - destruct p as [p|]; [|discriminate]. cbn [ns_act_fmt_okb] in Hl. apply raw_q in Hl. cbn. rewrite Hl. reflexivity.
Qed.

Theorem rendered_script_wf pe root script : forall f T gs,
  wf_forest f root -> labs_ok f -> pe_raw_ok pe ->
  Forall (fun a => lit_okb a = true) script ->
  run_spec root f script = Some T -> render_script pe root f script = Some gs ->
  Forall (wf_action tables) gs.
Proof.
  induction script as [|a r IH]; intros f T gs Hwf Hlabs Hpe Hlit Hrun Hren; cbn [run_spec render_script] in *.
  - injection Hren as <-. constructor.
  - destruct (spec_apply root f a) as [f1|] eqn:Hs; [|discriminate].
    destruct (render_script pe root f1 r) as [gs'|] eqn:Hr; [|discriminate].
    injection Hren as <-. inversion Hlit as [|? ? Ha Hr']; subst.
    constructor.
    + apply wf_actionqb_spec. eapply render_wf; eauto.
    + apply (IH f1 T gs'); auto.
      * eapply spec_apply_wf; eauto.
      * eapply spec_apply_labs_ok; eauto.
Qed.

(* ------------------------------------------------------------------ *)
(** * 6. diff, render, format, parse, patch (C02, second sentence)      *)
(* ------------------------------------------------------------------ *)
Lemma ns_lit pro : forallb is_ns_action pro = true -> forallb ns_act_fmt_okb pro = true ->
  Forall (fun a => lit_okb a = true) pro.
Proof.
  intros H1 H2. apply Forall_forall. intros a Ha. rewrite forallb_forall in H1, H2.
  specialize (H1 a Ha). specialize (H2 a Ha). destruct a; try discriminate H1; exact H2.
Qed.

Lemma tables_okb : tables_ok tables = true.
Proof. vm_compute. reflexivity. Qed.

Section DiffTextPatch.
Variable sim : Type.
Variables (sim_ltb sim_leb : sim -> sim -> bool) (sim_is_one : sim -> bool) (zero one : sim).
Variable leaf_sim : str -> str -> sim.
Variable combine : sim -> nat -> nat -> sim.
Local Notation diffm := (diff_model sim sim_ltb sim_leb sim_is_one zero one leaf_sim combine).

(* the script of diff_model only carries printable literals *)
Theorem diff_model_lit o L R rootL rootR lns rns script W :
  wf_forest R rootR -> doc_fmt_okb R = true -> ns_fmt_okb lns rns = true ->
  diffm o L R rootL rootR lns rns = Some (script, W) ->
  Forall (fun a => lit_okb a = true) script.
Proof.
  intros HwfR HR Hns. unfold diff_model, diff_given, ns_fmt_okb in *.
  destruct (match_nodes _ _ _ _ _ _ _ _ _ _ _ _ _) as [m|]; [|discriminate].
  destruct (ns_prologue lns rns) as [pro|] eqn:Epro; [|discriminate].
  destruct (serr _); [discriminate|]. intros E. injection E as <- _.
  apply Forall_app. split.
  - apply ns_lit; [eapply ns_prologue_all_ns; eauto|exact Hns].
  - apply gen_script_lit; assumption.
Qed.

Theorem diff_text_patch :
  forall o L R rootL rootR lns rns (pe : penv) (root_nsmap : list (option str * str)),
  valid_options sim sim_leb sim_is_one zero o ->
  wf_forest L rootL -> wf_forest R rootR ->
  ns_fmt_okb lns rns = true ->
  doc_fmt_okb L = true -> doc_fmt_okb R = true -> pe_raw_ok pe ->
  (forall script W, diffm o L R rootL rootR lns rns = Some (script, W) ->
                    script_ok pe rootL (nsmap_env root_nsmap) L script) ->
  exists script W gs text T',
    diffm o L R rootL rootR lns rns = Some (script, W)
    /\ render_script pe rootL L script = Some gs
    /\ format tables gs = Ok text
    /\ parse tables text = Ok gs
    /\ length (splitlines text) = length gs
    /\ patch actions_sig true rootL patcher_progs L root_nsmap gs = POk T'
    /\ forest_ext_eq T' W
    /\ doc_equiv (oignored sim o) T' rootL R rootR.
Proof.
  intros o L R rootL rootR lns rns pe root_nsmap Hv HL HR Hnsf HdL HdR Hpe Hok.
  assert (Hns : ns_consistent lns rns).
  { unfold ns_consistent. unfold ns_fmt_okb in Hnsf. destruct (ns_prologue lns rns); [discriminate|discriminate Hnsf]. }
  destruct (diff_model_sound sim sim_ltb sim_leb sim_is_one zero one leaf_sim combine
              o L R rootL rootR lns rns Hv HL HR Hns) as (script & W & E1 & E2 & E3).
  destruct (render_script_total pe rootL script L W E2) as [gs Hgs].
  pose proof (diff_model_lit o L R rootL rootR lns rns script W HR HdR Hnsf E1) as Hlit.
  pose proof (rendered_script_wf pe rootL script L W gs HL (doc_fmt_okb_labs L HdL) Hpe Hlit E2 Hgs) as Hwf.
  destruct (format_total_generic tables gs tables_okb Hwf) as [text Htext].
  destruct (parse_format_generic tables gs text tables_okb Hwf Htext) as [Hparse Hlen].
  destruct (patch_replays_script pe rootL L root_nsmap script W gs HL E2 Hgs (Hok script W E1))
    as (T' & P1 & P2).
  exists script, W, gs, text, T'. repeat (split; [assumption|]).
  exact (doc_equiv_ext (oignored sim o) T' W rootL R rootR P2 E3).
Qed.
End DiffTextPatch.

(* ====================================================================== *)
(** * Part 2 (C15): --check and the documents                             *)
(* ====================================================================== *)
Require Import XV.OldFormat XV.OldFormatProofs XV.Cli XV.CliProofs XV.Gen.Flags XV.Gen.CliPlumbing.

Lemma render_script_length pe root script : forall f gs,
  render_script pe root f script = Some gs -> length gs = length script.
Proof.
  induction script as [|a r IH]; intros f gs H; cbn [render_script] in H.
  - injection H as <-. reflexivity.
  - destruct (spec_apply root f a) as [f1|]; [|discriminate].
    destruct (render_script pe root f1 r) as [gs'|] eqn:E; [|discriminate].
    injection H as <-. cbn [length]. f_equal. eapply IH; eauto.
Qed.

Lemma render_script_nil_iff pe root script f gs :
  render_script pe root f script = Some gs -> (gs = [] <-> script = []).
Proof.
  intros H. apply render_script_length in H.
  destruct gs, script; cbn in H; split; intros E; try reflexivity; try discriminate.
Qed.

Lemma omapM_length {A B} (f : A -> ores B) : forall l ys, omapM f l = OOk ys -> length ys = length l.
Proof.
  induction l as [|x l IH]; intros ys H; cbn [omapM] in H.
  - injection H as <-. reflexivity.
  - apply obind_ok in H as (y & _ & H). apply obind_ok in H as (ys' & E & H). injection H as <-.
    cbn [length]. f_equal. apply IH, E.
Qed.

Lemma format_entry_nonempty t l : format_entry t = OOk l -> l <> [].
Proof. unfold format_entry. intros H. apply obind_ok in H as (x & _ & H). injection H as <-. discriminate. Qed.

(* the 'old' formatter prints nothing exactly for the empty script *)
Theorem old_format_empty_iff pe f root nsm gs txt :
  old_format pe f root nsm gs = OOk txt -> (txt = [] <-> gs = []).
Proof.
  unfold old_format. intros H. apply obind_ok in H as (ts & Ets & H).
  unfold render_entries in H. apply obind_ok in H as (lines & El & H). injection H as <-.
  pose proof (old_loop_length _ _ _ _ _ Ets) as Hlen. pose proof (omapM_length _ _ _ El) as Hl2.
  split.
  - intros E. destruct lines as [|l lines].
    + cbn in Hl2. destruct ts; [|discriminate]. cbn in Hlen. destruct gs; [reflexivity|cbn in Hlen; lia].
    + exfalso. destruct ts as [|t ts]; [discriminate|]. cbn [omapM] in El.
      apply obind_ok in El as (y & Ey & El). apply obind_ok in El as (ys & _ & El). injection El as -> ->.
      apply format_entry_nonempty in Ey. destruct l; [congruence|]. destruct lines; discriminate E.
  - intros ->. unfold old_entries in Ets. cbn [old_loop] in Ets. injection Ets as <-.
    cbn [omapM] in El. injection El as <-. reflexivity.
Qed.

Section CheckDocs.
Variable sim : Type.
Variables (sim_ltb sim_leb : sim -> sim -> bool) (sim_is_one : sim -> bool) (zero one : sim).
Variable leaf_sim : str -> str -> sim.
Variable combine : sim -> nat -> nat -> sim.
Local Notation diffm := (diff_model sim sim_ltb sim_leb sim_is_one zero one leaf_sim combine).

Theorem check_status_docs :
  forall (api : df_call -> str) argv ns c1 c2,
  parse_args (pctx_of flags cli) (ct_diff_opts cli) argv = PArgs ns ->
  diff_command_plan flags cli argv = PlanRun c1 true c2 ->
  let d := decisive c1 c2 in
  forall (o : mopts sim) L R rootL rootR lns rns (pe : penv) (nsm : list (option str * str)) script W gs,
  valid_options sim sim_leb sim_is_one zero o ->
  wf_forest L rootL -> wf_forest R rootR ->
  diffm o L R rootL rootR lns rns = Some (script, W) ->
  render_script pe rootL L script = Some gs ->
  (call_class d = Some s_DiffFormatter -> format tables gs = Ok (api d)) ->
  (call_class d = Some s_XmlDiffFormatter -> old_format pe L rootL nsm gs = OOk (api d)) ->
  exists res,
    diff_command_run flags cli api argv = Some res /\
    cr_stdout res = api c1 ++ [10%N] /\
    (cr_status res = Some 1%Z <-> script <> []) /\
    (cr_status res = None <-> script = []) /\
    (* documents that differ: exit status 1 *)
    (~ doc_equiv (oignored sim o) L rootL R rootR -> cr_status res = Some 1%Z) /\
    (* exit status 0: the documents are equal *)
    (cr_status res = None -> doc_equiv (oignored sim o) L rootL R rootR) /\
    (* equal documents (C03 / C13): exit status 0 *)
    ((forall s, sim_is_one (leaf_sim s s) = true) ->
     (forall m n, sim_is_one m = true -> 0 < n -> sim_is_one (combine m n n) = true) ->
     sim_is_one one = true ->
     (forall x, sim_is_one x = true -> sim_ltb zero x = true) ->
     (forall x, sim_is_one x = true -> sim_leb (oF sim o) x = true) ->
     (ofast sim o = true ->
      forall s t n x n', 0 < n -> sim_leb (oF sim o) (combine (leaf_sim s t) 0 n) = true ->
                         sim_is_one x = true -> 0 < n' -> sim_leb (oF sim o) (combine x 0 n') = true) ->
     rootR = rootL -> rns = lns ->
     (forall k v, In (k, v) lns -> ns_get lns k = Some v) ->
     same_doc_upto (oignored sim o) L R ->
     cr_status res = None).
Proof.
  intros api argv ns c1 c2 Hp Hplan d o L R rootL rootR lns rns pe nsm script W gs Hv HL HR Hd Hr Hfd Hfo.
  destruct (check_exit_status api argv c1 c2 Hplan) as (res & Hrun & Hout & H1 & H0).
  destruct (check_decisive_call argv ns c1 c2 Hp Hplan) as (Hc & _). fold d in Hc, H1, H0.
  assert (Hapi : api d = [] <-> script = []).
  { rewrite <- (render_script_nil_iff pe rootL script L gs Hr).
    destruct Hc as [Hc|Hc].
    - apply diff_text_empty_iff, Hfd, Hc.
    - eapply old_format_empty_iff. apply Hfo, Hc. }
  assert (S1 : cr_status res = Some 1%Z <-> script <> []) by tauto.
  assert (S0 : cr_status res = None <-> script = []) by tauto.
  exists res. split; [exact Hrun|]. split; [exact Hout|]. split; [exact S1|]. split; [exact S0|].
  split; [|split].
  - intros Hne. apply S1. intros ->.
    apply Hne. apply (diff_model_only_ns_equiv sim sim_ltb sim_leb sim_is_one zero one leaf_sim combine
                        o L R rootL rootR lns rns [] W Hv HL HR Hd). reflexivity.
  - intros E. apply S0 in E. subst script.
    apply (diff_model_only_ns_equiv sim sim_ltb sim_leb sim_is_one zero one leaf_sim combine
             o L R rootL rootR lns rns [] W Hv HL HR Hd). reflexivity.
  - intros L1 L2 L3 L4 L5 L7 -> -> Hns Hsame. apply S0.
    assert (L6 : ofast sim o = true -> sim_leb (oF sim o) zero = false) by (intros _; apply Hv).
    pose proof (ignored_only_empty_script sim sim_ltb sim_leb sim_is_one zero one leaf_sim combine
                  o L R rootL lns L1 L2 L3 L4 L5 L6 L7 HL Hsame Hns) as E.
    rewrite Hd in E. injection E as -> _. reflexivity.
Qed.

(* the exit status decides equality, on pairs of documents that are either equal
   in the sense of C03/C13 (same pre-order ids, labels equal up to ignored
   attributes and attribute order) or not equivalent at all *)
Corollary check_status_iff :
  forall (api : df_call -> str) argv ns c1 c2,
  parse_args (pctx_of flags cli) (ct_diff_opts cli) argv = PArgs ns ->
  diff_command_plan flags cli argv = PlanRun c1 true c2 ->
  let d := decisive c1 c2 in
  forall (o : mopts sim) L R root lns (pe : penv) (nsm : list (option str * str)) script W gs,
  valid_options sim sim_leb sim_is_one zero o ->
  (forall s, sim_is_one (leaf_sim s s) = true) ->
  (forall m n, sim_is_one m = true -> 0 < n -> sim_is_one (combine m n n) = true) ->
  sim_is_one one = true ->
  (forall x, sim_is_one x = true -> sim_ltb zero x = true) ->
  (forall x, sim_is_one x = true -> sim_leb (oF sim o) x = true) ->
  (ofast sim o = true ->
   forall s t n x n', 0 < n -> sim_leb (oF sim o) (combine (leaf_sim s t) 0 n) = true ->
                      sim_is_one x = true -> 0 < n' -> sim_leb (oF sim o) (combine x 0 n') = true) ->
  wf_forest L root -> wf_forest R root ->
  (forall k v, In (k, v) lns -> ns_get lns k = Some v) ->
  same_doc_upto (oignored sim o) L R \/ ~ doc_equiv (oignored sim o) L root R root ->
  diffm o L R root root lns lns = Some (script, W) ->
  render_script pe root L script = Some gs ->
  (call_class d = Some s_DiffFormatter -> format tables gs = Ok (api d)) ->
  (call_class d = Some s_XmlDiffFormatter -> old_format pe L root nsm gs = OOk (api d)) ->
  exists res,
    diff_command_run flags cli api argv = Some res /\
    cr_stdout res = api c1 ++ [10%N] /\
    (cr_status res = Some 1%Z <-> ~ doc_equiv (oignored sim o) L root R root) /\
    (cr_status res = None <-> doc_equiv (oignored sim o) L root R root).
Proof.
  intros api argv ns c1 c2 Hp Hplan d o L R root lns pe nsm script W gs Hv L1 L2 L3 L4 L5 L7 HL HR Hns Hdom Hd Hr Hfd Hfo.
  destruct (check_status_docs api argv ns c1 c2 Hp Hplan o L R root root lns lns pe nsm script W gs
              Hv HL HR Hd Hr Hfd Hfo) as (res & Hrun & Hout & S1 & S0 & D1 & D0 & E0).
  exists res. split; [exact Hrun|]. split; [exact Hout|].
  destruct Hdom as [Hsame|Hne].
  - pose proof (E0 L1 L2 L3 L4 L5 L7 eq_refl eq_refl Hns Hsame) as E. pose proof (D0 E) as Heq.
    split; split; intros H; try assumption; try tauto; rewrite E in H; discriminate.
  - pose proof (D1 Hne) as E.
    split; split; intros H; try assumption; try tauto; rewrite E in H; discriminate.
Qed.
End CheckDocs.
